(* ReplaceFacts.v — C17 search-and-replace at paragraph level, C16 re-extraction
   after save (facts about model/Save.v on top of FrameFacts / SaveFacts).

   (fix D33: replace_node replaces only in w:t / m:t (Merge.is_text_like);
   [hit] = the needle occurs in the element's own text, [vhit] = hit in a
   text-like element = replace_node_cases' condition; under repl_ok the two
   agree (repl_ok_vhit, vhit_miss).)
   0. open_emit / emit_AE: an explicit unfolding equation for FrameFacts.emit at
      an inline element.
   1. emit_replaced_text_node (w:t and m:t), emit_replaced_w_t.
   2. emit_replace_nodewise: emit_kids of the replacement nodes = emit_repl of
      the original subtree, under plain_inline, no_link (hyperlinks excluded)
      and repl_ok (every hit is a childless w:t/m:t named "t" with w bound; no
      hit inside an <x>Pr child).  emit_replace_text_leaves is the same under
      the needle-independent text_leaves + MergeFacts.wf_pr + wuri_at_hits;
      emit_repl_frame: emit_repl = emit where the needle does not occur.
      The statement without the local-name condition is false of the model
      (emit_replace_nodewise_counterexample); the condition holds for every
      parsed tree (view_t_named).
   3. replace_frame_paragraph; 3b. replace_simple_par, replaced_par_walk (the
      paragraph the collector builds from a replaced simple paragraph).
   4. replace_all_fold, replace_all_app, replace_all_skip(_head), replace_all_noop.
   5. save_then_part_root, save_written_is_part_root, C16_reextract_partial.
   6. Examples.  7. about the hypotheses.  8. replace_docx_written. *)
From Coq Require Import List NArith ZArith Bool Arith Lia.
From Coq Require String.
From D2P Require Import Str Err Xml TableTypes Tables Fmt NumFmt Bullets Merge Collector Walk Iter
     Output Paths Package Content Save.
From D2P Require Import BulletsFacts TokFacts ShapeFacts FrameFacts MergeFacts SaveFacts.
Import ListNotations.
Open Scope N_scope.

(* ================================================================== *)
(* 0. an explicit description of what an inline element's open handler  *)
(*    appends (FrameFacts only shows that such a description exists)    *)
(* ================================================================== *)
Definition note_ref_emit (kind : str) (e : einfo) : res (list tok * bool) :=
  id <- attr_w_req e s_id ;; Ok (raw (s_dashes ++ kind ++ id ++ s_dashes), true).

Definition image_ref_emit (v : env) (rid : res str) : res (list tok * bool) :=
  match rid with
  | Err KeyError => Ok ([], true)
  | Err x => Err x
  | Ok id =>
      match dict_get id (env_rels v) with
      | None => Ok ([], true)
      | Some img => Ok (raw (s_dashes ++ img ++ s_dashes), true)
      end
  end.

(* [mtext] is the itertext of the element (only m:oMath looks at it) and
   [body] the text below a hyperlink *)
Definition open_emit (v : env) (e : einfo) (ks : list anode) (body : list tok) (mtext : str)
  : res (list tok * bool) :=
  let tg := e_ptag e in
  if str_eqb tg tag_RUN then
    st <- get_run_formatting e ks (env_x2h v) ;; Ok ([], true)
  else if (str_eqb tg tag_TEXT || str_eqb tg tag_TEXT_MATH)%bool then
    Ok (map TTxt (ostr (e_text e)), true)
  else if str_eqb tg tag_MATH then
    Ok (TOpen s_latex :: map TTxt mtext ++ [TClose s_latex], false)
  else if str_eqb tg tag_BR then Ok ([TRaw 10], true)
  else if str_eqb tg tag_SYM then
    font <- attr_w e s_font ;;
    chr <- attr_w e s_char ;;
    match ostr chr with
    | [] => Ok ([], true)
    | _ :: tl =>
        Ok (TOpen (s_span_font ++ ostr_or_None font)
            :: raw ([38; 35; 120; 48] ++ tl ++ [59]) ++ [TClose s_span], true)
    end
  else if str_eqb tg tag_HYPERLINK then
    match attr_r_req e s_id with
    | Err KeyError => Ok (body, false)
    | Err x => Err x
    | Ok rid =>
        match dict_get rid (env_rels v) with
        | None => Ok (body, false)
        | Some link =>
            match attr_w e s_anchor with
            | Err KeyError => Ok (body, false)
            | Err x => Err x
            | Ok anchor =>
                let link' := match link, anchor with
                             | _ :: _, Some (a :: r) => link ++ 35 :: a :: r
                             | _, _ => link
                             end in
                Ok (link_toks link' body, false)
            end
        end
    end
  else if str_eqb tg tag_FORM_CHECKBOX then
    x <- get_checkBox_entry e ks ;; Ok (raw x, true)
  else if str_eqb tg tag_FORM_DDLIST then
    x <- get_ddList_entry e ks ;; Ok (map TTxt x, true)
  else if str_eqb tg tag_FOOTNOTE_REFERENCE then note_ref_emit s_footnote e
  else if str_eqb tg tag_ENDNOTE_REFERENCE then note_ref_emit s_endnote e
  else if str_eqb tg tag_IMAGE then image_ref_emit v (attr_r_req e s_embed)
  else if str_eqb tg tag_IMAGE_ALT then
    match attr_plain e s_descr with
    | None => Ok ([], true)
    | Some d => Ok (raw s_alt_prefix ++ map TTxt d ++ [TRaw 60], true)
    end
  else if str_eqb tg tag_IMAGEDATA then image_ref_emit v (attr_r_req e s_id)
  else if str_eqb tg tag_TAB then Ok ([TRaw 9], true)
  else Ok ([], true).

Ltac rb_exact :=
  first [ apply realizes_b_insert | apply realizes_b_add_code | apply realizes_b_add_text
        | apply realizes_b_commence_run | apply realizes_b_id | apply realizes_b_err ].

(* destruct the state-independent scrutinee shared by handler and description *)
Ltac rbe_step :=
  cbv beta iota;
  match goal with
  | |- realizes_b (fun s => bind ?c _) (bind ?c _) =>
      let x := fresh "x" in
      destruct c as [?|x]; cbn [bind]; [|apply realizes_b_err]
  | |- realizes_b (fun s => if ?c then _ else _) (if ?c then _ else _) => destruct c
  | |- realizes_b (fun s => match ?c with _ => _ end) (match ?c with _ => _ end) => destruct c
  | |- realizes_b _ _ => rb_exact
  end.

Lemma note_ref_realizes_emit v kind e : realizes_b (note_ref v kind e) (note_ref_emit kind e).
Proof. unfold note_ref, note_ref_emit. repeat rbe_step. Qed.

Lemma image_ref_realizes_emit v rid : realizes_b (image_ref v rid) (image_ref_emit v rid).
Proof. unfold image_ref, image_ref_emit. repeat rbe_step. Qed.

Lemma open_tag_realizes_emit v path e ks body :
  inline_tag (e_ptag e) ->
  realizes_b (open_tag v path (AE e ks) e ks body)
             (open_emit v e ks body (itertext (AE e ks))).
Proof.
  intros (Hp & _ & Hfn & Hen & Hcs & Hce).
  unfold open_tag, open_emit, note_label. cbv zeta. rewrite Hp, Hfn, Hen, Hcs, Hce.
  destruct (str_eqb (e_ptag e) tag_RUN); [repeat rbe_step|].
  destruct (str_eqb (e_ptag e) tag_TEXT || str_eqb (e_ptag e) tag_TEXT_MATH)%bool;
    [repeat rbe_step|].
  destruct (str_eqb (e_ptag e) tag_MATH); [repeat rbe_step|].
  destruct (str_eqb (e_ptag e) tag_BR); [repeat rbe_step|].
  destruct (str_eqb (e_ptag e) tag_SYM); [repeat rbe_step|].
  destruct (str_eqb (e_ptag e) tag_HYPERLINK); [repeat rbe_step|].
  destruct (str_eqb (e_ptag e) tag_FORM_CHECKBOX); [repeat rbe_step|].
  destruct (str_eqb (e_ptag e) tag_FORM_DDLIST); [repeat rbe_step|].
  destruct (str_eqb (e_ptag e) tag_FOOTNOTE_REFERENCE); [apply note_ref_realizes_emit|].
  destruct (str_eqb (e_ptag e) tag_ENDNOTE_REFERENCE); [apply note_ref_realizes_emit|].
  destruct (str_eqb (e_ptag e) tag_IMAGE); [apply image_ref_realizes_emit|].
  destruct (str_eqb (e_ptag e) tag_IMAGE_ALT); [repeat rbe_step|].
  destruct (str_eqb (e_ptag e) tag_IMAGEDATA); [apply image_ref_realizes_emit|].
  destruct (str_eqb (e_ptag e) tag_TAB); [repeat rbe_step|].
  repeat rbe_step.
Qed.

(* the unfolding equation of [emit] at an inline element *)
Definition emit_AE_rhs (v : env) (path : list nat) (e : einfo) (ks : list anode) : res (list tok) :=
  body <- (if str_eqb (e_ptag e) tag_HYPERLINK then below_loop v path ks O else Ok []) ;;
  r <- open_emit v e ks body (itertext (AE e ks)) ;;
  em2 <- (if snd r then emit_kids v path ks O else Ok []) ;;
  Ok (fst r ++ em2).

Lemma emit_AE v path e ks :
  plain_inline (AE e ks) = true -> emit v path (AE e ks) = emit_AE_rhs v path e ks.
Proof.
  intro Hpl. rewrite emit_is_emit_of. apply realizes_emit_of.
  pose proof (plain_inline_no_depth _ Hpl) as Hd.
  apply plain_inline_AE in Hpl. destruct Hpl as [Htag Hks].
  pose proof (plain_kids_realizable v ks Hks) as HF.
  unfold emit_AE_rhs.
  destruct (if str_eqb (e_ptag e) tag_HYPERLINK then below_loop v path ks O else Ok [])
    as [body|x] eqn:Eb; cbn [bind].
  2:{ intros s p rest Ho. rewrite walk_AE. cbv zeta. rewrite Hd.
      cbn [set_caret bind]. rewrite Eb. reflexivity. }
  pose proof (open_tag_realizes_emit v path e ks body Htag) as Hro.
  pose proof (close_tag_realizes v e ks Htag) as Hc.
  pose proof (kids_loop_realizes v path ks HF O) as Hk.
  destruct (open_emit v e ks body (itertext (AE e ks))) as [[em1 b]|x]; cbn [bind fst snd].
  2:{ intros s p rest Ho. rewrite walk_AE. cbv zeta. rewrite Hd.
      cbn [set_caret bind]. rewrite Eb. cbn [bind]. rewrite (Hro s p rest Ho). reflexivity. }
  intros s p rest Ho. rewrite walk_AE. cbv zeta. rewrite Hd.
  cbn [set_caret bind]. rewrite Eb. cbn [bind].
  destruct (Hro s p rest Ho) as (rs1 & E1 & T1). rewrite E1. cbn [bind].
  destruct b.
  - specialize (Hk (set_open (with_runs p rs1 :: rest) s) (with_runs p rs1) rest eq_refl).
    destruct (emit_kids v path ks O) as [em2|x]; cbn [bind].
    + destruct Hk as (rs2 & E2 & T2). rewrite E2. cbn [bind].
      destruct (Hc (set_open (with_runs (with_runs p rs1) rs2 :: rest)
                      (set_open (with_runs p rs1 :: rest) s))
                   (with_runs (with_runs p rs1) rs2) rest eq_refl) as (rs3 & E3 & T3).
      rewrite E3. cbn [bind]. exists rs3. split; [destruct s; reflexivity|].
      rewrite T3. cbn [p_runs with_runs]. rewrite T2. cbn [p_runs with_runs].
      rewrite T1, app_nil_r, app_assoc. reflexivity.
    + rewrite Hk. reflexivity.
  - destruct (Hc (set_open (with_runs p rs1 :: rest) s) (with_runs p rs1) rest eq_refl)
      as (rs3 & E3 & T3).
    cbn [bind]. rewrite E3. cbn [bind]. exists rs3. split; [destruct s; reflexivity|].
    rewrite T3. cbn [p_runs with_runs]. rewrite T1, !app_nil_r. reflexivity.
Qed.

(* ================================================================== *)
(* 1. the nodes that replace one w:t / m:t element                      *)
(* ================================================================== *)
Definition is_text_tag (e : einfo) : bool :=
  (str_eqb (e_ptag e) tag_TEXT || str_eqb (e_ptag e) tag_TEXT_MATH)%bool.

(* the needle occurs in the element's own text *)
Definition hit (old : str) (e : einfo) : bool :=
  match e_text e with Some (c :: tx) => contains old (c :: tx) | _ => false end.

(* w:t / m:t are exactly the elements whose text replace_node looks at (fix
   D33: Merge.is_text_like, the elements whose text the extraction shows) *)
Lemma is_text_like_is_text_tag e : is_text_like e = is_text_tag e.
Proof.
  unfold is_text_like, is_text_tag, text_tags. cbn [mem_str]. rewrite orb_false_r. reflexivity.
Qed.

Lemma is_text_tag_like e : is_text_tag e = true -> is_text_like e = true.
Proof. rewrite is_text_like_is_text_tag. exact (fun H => H). Qed.

(* the needle occurs in text that the extraction shows: only there does
   replace_node replace (text of w:delText, w:instrText, ... is left alone) *)
Definition vhit (old : str) (e : einfo) : bool := (hit old e && is_text_like e)%bool.

Lemma vhit_miss old e : hit old e = false -> vhit old e = false.
Proof. unfold vhit. intros ->. reflexivity. Qed.

Lemma vhit_text_tag old e : hit old e = true -> is_text_tag e = true -> vhit old e = true.
Proof. unfold vhit. intros -> H. rewrite (is_text_tag_like _ H). reflexivity. Qed.

Lemma vhit_invisible old e : is_text_like e = false -> vhit old e = false.
Proof. unfold vhit. intros ->. apply andb_false_r. Qed.

(* the tokens of the replacement text: one TTxt per character of each line,
   the lines separated by the "\n" of a w:br *)
Definition repl_toks (old new tx : str) : list tok :=
  join_toks [TRaw 10] (map (map TTxt) (split_nl (replace old new tx))).

(* the element built by br_of is tagged exactly w:br *)
Lemma br_of_tag e wuri :
  match br_of e wuri with AE b ks => e_ptag b = tag_BR /\ ks = [] | AX _ => False end.
Proof. split; reflexivity. Qed.

Lemma emit_br_of v path e wuri : emit v path (br_of e wuri) = Ok [TRaw 10].
Proof. unfold br_of. apply emit_br. reflexivity. Qed.

Lemma emit_text_like v path e :
  is_text_tag e = true -> emit v path (AE e []) = Ok (map TTxt (ostr (e_text e))).
Proof.
  unfold is_text_tag. intro H. apply orb_true_iff in H. destruct H as [H|H].
  - apply emit_text. exact H.
  - apply str_eqb_eq in H. destruct e as [tg u l w r a tx tl]. cbn in H. subst tg.
    cbn. rewrite app_nil_r. reflexivity.
Qed.

Lemma emit_with_text v path e l :
  is_text_tag e = true -> emit v path (AE (with_text e l) []) = Ok (map TTxt l).
Proof. intro H. rewrite emit_text_like; [reflexivity|exact H]. Qed.

Lemma emit_kids_interleave v path e wuri : is_text_tag e = true -> forall lines i,
  emit_kids v path (interleave (br_of e wuri) (map (fun l => AE (with_text e l) []) lines)) i
  = Ok (join_toks [TRaw 10] (map (map TTxt) lines)).
Proof.
  intros Ht lines. induction lines as [|x r IH]; intro i; [reflexivity|].
  destruct r as [|y r].
  - cbn [map interleave emit_kids join_toks]. rewrite emit_with_text by exact Ht.
    cbn [bind]. rewrite app_nil_r. reflexivity.
  - change (emit_kids v path
              (AE (with_text e x) [] :: br_of e wuri ::
               interleave (br_of e wuri) (map (fun l => AE (with_text e l) []) (y :: r))) i
            = Ok (map TTxt x ++ [TRaw 10] ++ join_toks [TRaw 10] (map (map TTxt) (y :: r)))).
    cbn [emit_kids]. rewrite emit_with_text by exact Ht. rewrite emit_br_of.
    rewrite IH. reflexivity.
Qed.

Lemma render_false_txt l : render false (map TTxt l) = l.
Proof.
  unfold render. induction l as [|c l IH]; [reflexivity|]. cbn [map concat render_tok].
  rewrite IH. reflexivity.
Qed.

Lemma render_app h a b : render h (a ++ b) = render h a ++ render h b.
Proof. unfold render. rewrite map_app, concat_app. reflexivity. Qed.

Lemma render_join_lines lines :
  render false (join_toks [TRaw 10] (map (map TTxt) lines)) = join [10] lines.
Proof.
  induction lines as [|x r IH]; [reflexivity|]. destruct r as [|y r].
  - cbn [map join_toks join]. apply render_false_txt.
  - change (render false (map TTxt x ++ [TRaw 10] ++ join_toks [TRaw 10] (map (map TTxt) (y :: r)))
            = x ++ [10] ++ join [10] (y :: r)).
    rewrite !render_app, IH, render_false_txt. reflexivity.
Qed.

Lemma render_repl_toks old new tx :
  render false (repl_toks old new tx) = join [10] (split_nl (replace old new tx)).
Proof. apply render_join_lines. Qed.

(* item 1 of the work package (for m:t as well as w:t) *)
Theorem emit_replaced_text_node : forall v path i old new e c tx wuri,
  is_text_tag e = true -> e_text e = Some (c :: tx) ->
  contains old (c :: tx) = true -> e_wuri e = Some wuri ->
  exists ns, replace_node old new (AE e []) = Ok ns
    /\ emit_kids v path ns i = Ok (repl_toks old new (c :: tx))
    /\ render false (repl_toks old new (c :: tx))
       = join [10] (split_nl (replace old new (c :: tx))).
Proof.
  intros v path i old new e c tx wuri Ht Htx Hc Hw.
  eexists. split; [apply (replace_node_hit old new e [] c tx wuri Htx Hc (is_text_tag_like _ Ht) Hw)|].
  split; [apply emit_kids_interleave; exact Ht|apply render_repl_toks].
Qed.

Corollary emit_replaced_w_t : forall v path i old new e c tx wuri,
  str_eqb (e_ptag e) tag_TEXT = true -> e_text e = Some (c :: tx) ->
  contains old (c :: tx) = true -> e_wuri e = Some wuri ->
  exists ns, replace_node old new (AE e []) = Ok ns
    /\ emit_kids v path ns i = Ok (repl_toks old new (c :: tx)).
Proof.
  intros v path i old new e c tx wuri Ht Htx Hc Hw.
  destruct (emit_replaced_text_node v path i old new e c tx wuri) as (ns & H1 & H2 & _); auto.
  - unfold is_text_tag. rewrite Ht. reflexivity.
  - exists ns. auto.
Qed.

(* ================================================================== *)
(* 2. node-wise replacement inside an inline subtree                    *)
(* ================================================================== *)

(* ---------- replace_node, by cases on [vhit] ---------- *)
Lemma replace_node_cases old new e ks :
  replace_node old new (AE e ks) =
    if vhit old e then
      wuri <- of_opt KeyError (e_wuri e) ;;
      Ok (interleave (br_of e wuri)
            (map (fun l => AE (with_text e l) ks)
                 (split_nl (replace old new (ostr (e_text e))))))
    else ks' <- rkids old new ks ;; Ok [AE e ks'].
Proof.
  rewrite replace_node_AE. unfold vhit, hit.
  destruct (e_text e) as [[|c tx]|]; reflexivity.
Qed.

Lemma rkids_inv old new : forall ks ks',
  rkids old new ks = Ok ks' ->
  exists nss, Forall2 (fun k ns => replace_node old new k = Ok ns) ks nss /\ ks' = concat nss.
Proof.
  induction ks as [|k r IH]; intros ks' H.
  - cbn in H. injection H as <-. exists []. split; [constructor|reflexivity].
  - cbn [rkids] in H. bind_inv H as a Ea. bind_inv H as b Eb. injection H as <-.
    destruct (IH _ eq_refl) as (nss & HF & ->). exists (a :: nss). split; [constructor; assumption|reflexivity].
Qed.

Lemma rkids_intro old new : forall ks nss,
  Forall2 (fun k ns => replace_node old new k = Ok ns) ks nss ->
  rkids old new ks = Ok (concat nss).
Proof.
  induction 1 as [|k ns r nss Hk _ IH]; [reflexivity|].
  cbn [rkids]. rewrite Hk. cbn [bind]. fold (rkids old new). rewrite IH. reflexivity.
Qed.

(* ---------- generic list helpers ---------- *)
Lemma forallb_interleave {A} (P : A -> bool) sep : forall l,
  P sep = true -> forallb P l = true -> forallb P (interleave sep l) = true.
Proof.
  intros l Hs. induction l as [|x r IH]; intro H; [reflexivity|].
  cbn [forallb] in H. apply andb_true_iff in H. destruct H as [Hx Hr].
  destruct r as [|y r]; [cbn; rewrite Hx; reflexivity|].
  change (forallb P (x :: sep :: interleave sep (y :: r)) = true).
  cbn [forallb]. rewrite Hx, Hs, (IH Hr). reflexivity.
Qed.

Lemma filter_interleave_none {A} (P : A -> bool) sep : forall l,
  P sep = false -> forallb (fun x => negb (P x)) l = true -> filter P (interleave sep l) = [].
Proof.
  intros l Hs. induction l as [|x r IH]; intro H; [reflexivity|].
  cbn [forallb] in H. apply andb_true_iff in H. destruct H as [Hx Hr].
  apply negb_true_iff in Hx.
  destruct r as [|y r]; [cbn; rewrite Hx; reflexivity|].
  change (filter P (x :: sep :: interleave sep (y :: r)) = []).
  cbn [filter]. rewrite Hx, Hs. exact (IH Hr).
Qed.

Lemma filter_concat {A} (P : A -> bool) : forall ll,
  filter P (concat ll) = concat (map (filter P) ll).
Proof.
  induction ll as [|l ll IH]; [reflexivity|].
  cbn [concat map]. rewrite filter_app, IH. reflexivity.
Qed.

Lemma concat_map_concat {A B} (f : A -> list B) : forall ll,
  concat (map f (concat ll)) = concat (map (fun l => concat (map f l)) ll).
Proof.
  induction ll as [|l ll IH]; [reflexivity|].
  cbn [concat map]. rewrite map_app, concat_app, IH. reflexivity.
Qed.

Lemma forallb_concat {A} (P : A -> bool) : forall ll,
  forallb P (concat ll) = forallb (forallb P) ll.
Proof.
  induction ll as [|l ll IH]; [reflexivity|].
  cbn [concat forallb]. rewrite forallb_app, IH. reflexivity.
Qed.

(* ---------- itertext of the replacement ---------- *)
Lemma concat_map_concat_str (f : anode -> str) (ll : list (list anode)) :
  concat (map f (concat ll)) = concat (map (fun l => concat (map f l)) ll).
Proof. exact (concat_map_concat f ll). Qed.

Lemma itertext_inner_AE e ks :
  itertext_inner (AE e ks) = ostr (e_text e) ++ concat (map itertext_inner ks) ++ ostr (e_tail e).
Proof.
  cbn [itertext_inner]. f_equal. f_equal.
  induction ks as [|k r IH]; [reflexivity|]. cbn [map concat]. rewrite IH. reflexivity.
Qed.

(* what "".join(itertext()) sees below an element after the replacement: a
   text element (w:t, m:t) that is hit is repeated once per line, each copy with its
   (original) children and its tail; the w:br between them adds nothing *)
Fixpoint itertext_inner_repl (old new : str) (t : anode) : str :=
  match t with
  | AX tl => ostr tl
  | AE e ks =>
      if vhit old e then
        concat (map (fun l => l ++ concat (map itertext_inner ks) ++ ostr (e_tail e))
                    (split_nl (replace old new (ostr (e_text e)))))
      else ostr (e_text e) ++ concat (map (itertext_inner_repl old new) ks) ++ ostr (e_tail e)
  end.

Definition itertext_repl (old new : str) (t : anode) : str :=
  match t with
  | AX _ => []
  | AE e ks => ostr (e_text e) ++ concat (map (itertext_inner_repl old new) ks)
  end.

Lemma itertext_interleave e wuri ks : forall lines,
  concat (map itertext_inner
            (interleave (br_of e wuri) (map (fun l => AE (with_text e l) ks) lines)))
  = concat (map (fun l => l ++ concat (map itertext_inner ks) ++ ostr (e_tail e)) lines).
Proof.
  induction lines as [|x r IH]; [reflexivity|]. destruct r as [|y r].
  - cbn [map interleave concat]. rewrite itertext_inner_AE. reflexivity.
  - change (concat (map itertext_inner
              (AE (with_text e x) ks :: br_of e wuri ::
               interleave (br_of e wuri) (map (fun l => AE (with_text e l) ks) (y :: r))))
            = (x ++ concat (map itertext_inner ks) ++ ostr (e_tail e))
              ++ concat (map (fun l => l ++ concat (map itertext_inner ks) ++ ostr (e_tail e)) (y :: r))).
    rewrite <- IH. cbn [map concat]. rewrite itertext_inner_AE. reflexivity.
Qed.

Lemma Forall2_concat_map {A B C} (f : B -> list C) (g : A -> list C) (R : A -> B -> Prop) :
  (forall a b, R a b -> f b = g a) ->
  forall l l', Forall2 R l l' -> concat (map f l') = concat (map g l).
Proof.
  intros H. induction 1 as [|a b l l' Hab _ IH]; [reflexivity|].
  cbn [map concat]. rewrite (H _ _ Hab), IH. reflexivity.
Qed.

Lemma itertext_replace old new : forall t ns,
  replace_node old new t = Ok ns ->
  concat (map itertext_inner ns) = itertext_inner_repl old new t.
Proof.
  apply (anode_ind' (fun t => forall ns, replace_node old new t = Ok ns ->
                       concat (map itertext_inner ns) = itertext_inner_repl old new t)).
  - intros tl ns H. cbn in H. injection H as <-. cbn. apply app_nil_r.
  - intros e ks IH ns H. rewrite replace_node_cases in H. cbn [itertext_inner_repl].
    destruct (vhit old e).
    + bind_inv H as wuri Ew. injection H as <-. apply itertext_interleave.
    + bind_inv H as ks' Ek. injection H as <-.
      destruct (rkids_inv _ _ _ _ Ek) as (nss & HF & ->).
      cbn [map concat]. rewrite app_nil_r, itertext_inner_AE. f_equal. f_equal.
      rewrite concat_map_concat_str.
      clear Ek. induction HF as [|k ns r nss Hk _ IHF]; [reflexivity|].
      inversion IH as [|? ? IHk IHr]; subst. cbn [map concat].
      rewrite (IHk _ Hk), (IHF IHr). reflexivity.
Qed.

Lemma itertext_replace_kids old new e : forall ks nss,
  Forall2 (fun k ns => replace_node old new k = Ok ns) ks nss ->
  itertext (AE e (concat nss)) = itertext_repl old new (AE e ks).
Proof.
  intros ks nss HF. cbn [itertext itertext_repl]. f_equal.
  rewrite concat_map_concat_str.
  induction HF as [|k ns r nss Hk _ IH]; [reflexivity|].
  cbn [map concat]. rewrite (itertext_replace _ _ _ _ Hk), IH. reflexivity.
Qed.

(* ---------- where the needle may occur ---------- *)
Definition s_t : str := [116].
Definition is_nil {A} (l : list A) : bool := match l with [] => true | _ => false end.
Definition is_some {A} (o : option A) : bool := match o with Some _ => true | None => false end.

(* k is the property child <x>Pr of the element <x> described by e *)
Definition is_Pr_child (e : einfo) (k : anode) : bool :=
  is_elem_named (e_uri e) (e_local e ++ s_Pr) k.

(* every element whose own text contains the needle is a w:t / m:t element
   with local name "t", without children and with the prefix w bound; and the
   needle does not occur inside the property child (<x>Pr) of any element *)
Fixpoint repl_ok (old : str) (t : anode) : bool :=
  match t with
  | AX _ => true
  | AE e ks =>
      if hit old e then
        is_text_tag e && is_nil ks && is_some (e_wuri e) && str_eqb (e_local e) s_t
      else
        forallb (repl_ok old) ks
        && forallb (fun k => negb (is_Pr_child e k) || needle_free old k) ks
  end.

(* hyperlinks are excluded: their visible text is computed by sub-collectors *)
Fixpoint no_link (t : anode) : bool :=
  match t with
  | AX _ => true
  | AE e ks => negb (str_eqb (e_ptag e) tag_HYPERLINK) && forallb no_link ks
  end.

Lemma repl_ok_hit old e ks :
  hit old e = true -> repl_ok old (AE e ks) = true ->
  is_text_tag e = true /\ ks = [] /\ (exists wuri, e_wuri e = Some wuri) /\ e_local e = s_t.
Proof.
  intros Hh H. cbn [repl_ok] in H. rewrite Hh in H.
  apply andb_true_iff in H. destruct H as [H H4].
  apply andb_true_iff in H. destruct H as [H H3].
  apply andb_true_iff in H. destruct H as [H1 H2].
  split; [exact H1|]. split; [destruct ks; [reflexivity|discriminate H2]|].
  split; [destruct (e_wuri e) as [w|]; [exists w; reflexivity|discriminate H3]|].
  apply str_eqb_eq. exact H4.
Qed.

Lemma repl_ok_vhit old e ks :
  hit old e = true -> repl_ok old (AE e ks) = true -> vhit old e = true.
Proof.
  intros Hh H. destruct (repl_ok_hit _ _ _ Hh H) as (Ht & _). exact (vhit_text_tag _ _ Hh Ht).
Qed.

Lemma repl_ok_miss old e ks :
  hit old e = false -> repl_ok old (AE e ks) = true ->
  forallb (repl_ok old) ks = true
  /\ forallb (fun k => negb (is_Pr_child e k) || needle_free old k) ks = true.
Proof.
  intros Hh H. cbn [repl_ok] in H. rewrite Hh in H. apply andb_true_iff in H. exact H.
Qed.

(* replacement succeeds on such trees *)
Lemma replace_node_total old new : forall t,
  repl_ok old t = true -> exists ns, replace_node old new t = Ok ns.
Proof.
  apply (anode_ind' (fun t => repl_ok old t = true -> exists ns, replace_node old new t = Ok ns)).
  - intros tl _. eexists. reflexivity.
  - intros e ks IH H. rewrite replace_node_cases. destruct (hit old e) eqn:Hh.
    + rewrite (repl_ok_vhit _ _ _ Hh H).
      destruct (repl_ok_hit _ _ _ Hh H) as (_ & _ & (w & Hw) & _). rewrite Hw. eexists. reflexivity.
    + rewrite (vhit_miss _ _ Hh). destruct (repl_ok_miss _ _ _ Hh H) as [Hks _].
      assert (G : exists nss, Forall2 (fun k ns => replace_node old new k = Ok ns) ks nss).
      { clear H. induction IH as [|k r Hk _ IHr]; [exists []; constructor|].
        cbn [forallb] in Hks. apply andb_true_iff in Hks. destruct Hks as [K1 K2].
        destruct (Hk K1) as [ns Hns]. destruct (IHr K2) as [nss Hnss].
        exists (ns :: nss). constructor; assumption. }
      destruct G as [nss G]. rewrite (rkids_intro _ _ _ _ G). eexists. reflexivity.
Qed.

(* ---------- the replacement nodes are inline ---------- *)
Lemma plain_inline_br_of e wuri : plain_inline (br_of e wuri) = true.
Proof. reflexivity. Qed.

Lemma plain_inline_with_text e l ks :
  plain_inline (AE (with_text e l) ks) = plain_inline (AE e ks).
Proof. reflexivity. Qed.

Lemma replace_node_plain old new : forall t ns,
  plain_inline t = true -> replace_node old new t = Ok ns -> forallb plain_inline ns = true.
Proof.
  apply (anode_ind' (fun t => forall ns, plain_inline t = true -> replace_node old new t = Ok ns ->
                                         forallb plain_inline ns = true)).
  - intros tl ns _ H. cbn in H. injection H as <-. reflexivity.
  - intros e ks IH ns Hpl H. rewrite replace_node_cases in H. destruct (vhit old e).
    + bind_inv H as wuri Ew. injection H as <-.
      apply forallb_interleave; [apply plain_inline_br_of|].
      rewrite forallb_forall. intros x Hx. apply in_map_iff in Hx. destruct Hx as (l & <- & _).
      rewrite plain_inline_with_text. exact Hpl.
    + bind_inv H as ks' Ek. injection H as <-.
      destruct (rkids_inv _ _ _ _ Ek) as (nss & HF & ->).
      cbn [forallb]. rewrite andb_true_r.
      pose proof (plain_inline_AE _ _ Hpl) as [Htag Hks].
      assert (G : forallb plain_inline (concat nss) = true).
      { rewrite forallb_concat. clear Ek Hpl.
        induction HF as [|k ns r nss Hk _ IHF]; [reflexivity|].
        inversion IH as [|? ? IHk IHr]; subst.
        cbn [forallb] in Hks |- *. apply andb_true_iff in Hks. destruct Hks as [K1 K2].
        rewrite (IHk _ K1 Hk), (IHF IHr K2). reflexivity. }
      cbn [plain_inline] in Hpl |- *.
      repeat (apply andb_true_iff in Hpl; let H2 := fresh "H" in destruct Hpl as [Hpl H2]).
      rewrite Hpl, G. repeat match goal with Hx : negb _ = true |- _ => rewrite Hx; clear Hx end.
      reflexivity.
Qed.

(* ---------- the handlers do not see the replacement ---------- *)
Definition same_root (a b : anode) : Prop :=
  match a, b with
  | AE e1 _, AE e2 _ => e1 = e2
  | AX _, AX _ => True
  | _, _ => False
  end.

Lemma local_Pr_not_t l : str_eqb s_t (l ++ s_Pr) = false.
Proof.
  destruct l as [|a l]; [reflexivity|]. cbn [app s_t str_eqb].
  destruct l as [|b l]; cbn [app]; apply andb_false_r.
Qed.

Lemma local_Pr_not_br l : str_eqb s_br (l ++ s_Pr) = false.
Proof.
  destruct l as [|a l]; [reflexivity|]. destruct l as [|b l].
  - cbn [app s_br s_Pr str_eqb]. destruct (98 =? a); reflexivity.
  - cbn [app s_br str_eqb]. destruct l as [|c l]; cbn [app]; rewrite !andb_false_r; reflexivity.
Qed.

Lemma named_replace old new u nm k ns :
  str_eqb s_t nm = false -> str_eqb s_br nm = false ->
  repl_ok old k = true -> replace_node old new k = Ok ns ->
  Forall2 same_root (filter (is_elem_named u nm) [k]) (filter (is_elem_named u nm) ns).
Proof.
  intros Ht Hb Hok H. destruct k as [e ks|tl].
  - rewrite replace_node_cases in H. destruct (hit old e) eqn:Hh.
    + rewrite (repl_ok_vhit _ _ _ Hh Hok) in H.
      destruct (repl_ok_hit _ _ _ Hh Hok) as (_ & _ & _ & Hl).
      bind_inv H as wuri Ew. injection H as <-.
      assert (N1 : is_elem_named u nm (AE e ks) = false).
      { cbn [is_elem_named]. rewrite Hl, Ht. apply andb_false_r. }
      cbn [filter]. rewrite N1. rewrite filter_interleave_none; [constructor| |].
      * cbn [br_of is_elem_named e_local]. rewrite Hb. apply andb_false_r.
      * rewrite forallb_forall. intros x Hx. apply in_map_iff in Hx. destruct Hx as (l & <- & _).
        apply negb_true_iff. exact N1.
    + rewrite (vhit_miss _ _ Hh) in H.
      bind_inv H as ks' Ek. injection H as <-. cbn [filter is_elem_named].
      destruct (ostr_eqb (e_uri e) u && str_eqb (e_local e) nm); repeat constructor.
  - cbn in H. injection H as <-. cbn. constructor.
Qed.

Lemma named_replace_list old new u nm :
  str_eqb s_t nm = false -> str_eqb s_br nm = false ->
  forall ks nss, Forall2 (fun k ns => replace_node old new k = Ok ns) ks nss ->
  forallb (repl_ok old) ks = true ->
  Forall2 same_root (find_children u nm ks) (find_children u nm (concat nss)).
Proof.
  intros Ht Hb ks nss HF. unfold find_children.
  induction HF as [|k ns r nss Hk _ IH]; intro Hok; [constructor|].
  cbn [forallb] in Hok. apply andb_true_iff in Hok. destruct Hok as [K1 K2].
  change (k :: r) with ([k] ++ r). cbn [concat]. rewrite !filter_app.
  apply Forall2_app; [apply (named_replace old new u nm k ns Ht Hb K1 Hk)|apply IH; exact K2].
Qed.

Lemma clean_named_replace old new u nm :
  str_eqb s_t nm = false -> str_eqb s_br nm = false ->
  forall ks nss,
  Forall2 (fun k ns => replace_node old new k = Ok ns) ks nss ->
  forallb (repl_ok old) ks = true ->
  forallb (fun k => negb (is_elem_named u nm k) || needle_free old k) ks = true ->
  find_children u nm (concat nss) = find_children u nm ks.
Proof.
  intros Ht Hb ks nss HF. unfold find_children.
  induction HF as [|k ns r nss Hk _ IH]; intros Hok Hpr; [reflexivity|].
  cbn [forallb] in Hok, Hpr. apply andb_true_iff in Hok. destruct Hok as [K1 K2].
  apply andb_true_iff in Hpr. destruct Hpr as [P1 P2].
  change (k :: r) with ([k] ++ r). cbn [concat]. rewrite !filter_app, (IH K2 P2). f_equal.
  destruct (is_elem_named u nm k) eqn:En.
  - cbn [negb orb] in P1. rewrite (replace_node_frame _ _ _ P1) in Hk. injection Hk as <-. reflexivity.
  - pose proof (named_replace old new u nm k ns Ht Hb K1 Hk) as G.
    cbn [filter] in G |- *. rewrite En in G |- *. inversion G. reflexivity.
Qed.

Lemma pr_replace old new e : forall ks nss,
  Forall2 (fun k ns => replace_node old new k = Ok ns) ks nss ->
  forallb (repl_ok old) ks = true ->
  forallb (fun k => negb (is_Pr_child e k) || needle_free old k) ks = true ->
  find_children (e_uri e) (e_local e ++ s_Pr) (concat nss)
  = find_children (e_uri e) (e_local e ++ s_Pr) ks.
Proof.
  intros ks nss HF Hok Hpr.
  exact (clean_named_replace old new (e_uri e) (e_local e ++ s_Pr)
           (local_Pr_not_t _) (local_Pr_not_br _) ks nss HF Hok Hpr).
Qed.

Lemma gather_Pr_replaced old new e ks nss :
  Forall2 (fun k ns => replace_node old new k = Ok ns) ks nss ->
  forallb (repl_ok old) ks = true ->
  forallb (fun k => negb (is_Pr_child e k) || needle_free old k) ks = true ->
  gather_Pr e (concat nss) = gather_Pr e ks.
Proof.
  intros HF Hok Hpr. unfold gather_Pr, find_child.
  rewrite (pr_replace old new e ks nss HF Hok Hpr). reflexivity.
Qed.

Lemma head_same_root l1 l2 : Forall2 same_root l1 l2 ->
  (l1 = [] /\ l2 = [])
  \/ (exists ce k1 k2 r1 r2, l1 = AE ce k1 :: r1 /\ l2 = AE ce k2 :: r2)
  \/ (exists t1 t2 r1 r2, l1 = AX t1 :: r1 /\ l2 = AX t2 :: r2).
Proof.
  intros [|a b r1 r2 Hab _]; [left; auto|right].
  destruct a as [e1 k1|t1], b as [e2 k2|t2]; cbn in Hab; try contradiction.
  - subst e2. left. exists e1, k1, k2, r1, r2. auto.
  - right. exists t1, t2, r1, r2. auto.
Qed.

Lemma mapM_same_root {B} (f : anode -> res B) :
  (forall a b, same_root a b -> f a = f b) ->
  forall l1 l2, Forall2 same_root l1 l2 -> mapM f l1 = mapM f l2.
Proof.
  intros Hf. induction 1 as [|a b r1 r2 Hab _ IH]; [reflexivity|].
  cbn [mapM]. rewrite (Hf _ _ Hab), IH. reflexivity.
Qed.

Lemma entry_val_same a b : same_root a b ->
  match a with AE ke _ => attr_w_req ke s_val | AX _ => Err ModelError end
  = match b with AE ke _ => attr_w_req ke s_val | AX _ => Err ModelError end.
Proof.
  destruct a as [e1 k1|t1], b as [e2 k2|t2]; cbn; intro H; try contradiction; subst; reflexivity.
Qed.

Section Handlers.
  Variables (old new : str) (e : einfo) (ks : list anode) (nss : list (list anode)).
  Hypothesis HF : Forall2 (fun k ns => replace_node old new k = Ok ns) ks nss.
  Hypothesis Hok : forallb (repl_ok old) ks = true.

  Lemma checkBox_replaced : get_checkBox_entry e (concat nss) = get_checkBox_entry e ks.
  Proof.
    unfold get_checkBox_entry, children_w. destruct (e_wuri e) as [u|]; [|reflexivity].
    cbn [bind].
    pose proof (named_replace_list old new (Some u) s_checked eq_refl eq_refl ks nss HF Hok) as G1.
    pose proof (named_replace_list old new (Some u) s_default eq_refl eq_refl ks nss HF Hok) as G2.
    apply head_same_root in G1. apply head_same_root in G2.
    destruct G1 as [[-> ->]|[(ce & k1 & k2 & r1 & r2 & -> & ->)|(t1 & t2 & r1 & r2 & -> & ->)]];
      try reflexivity;
      destruct G2 as [[-> ->]|[(de & j1 & j2 & q1 & q2 & -> & ->)|(y1 & y2 & q1 & q2 & -> & ->)]];
      reflexivity.
  Qed.

  Lemma ddList_replaced : get_ddList_entry e (concat nss) = get_ddList_entry e ks.
  Proof.
    unfold get_ddList_entry, children_w. destruct (e_wuri e) as [u|]; [|reflexivity].
    cbn [bind].
    pose proof (named_replace_list old new (Some u) s_listEntry eq_refl eq_refl ks nss HF Hok) as G1.
    pose proof (named_replace_list old new (Some u) s_result eq_refl eq_refl ks nss HF Hok) as G2.
    rewrite <- (mapM_same_root _ entry_val_same _ _ G1).
    apply head_same_root in G2.
    destruct G2 as [[-> ->]|[(de & j1 & j2 & q1 & q2 & -> & ->)|(y1 & y2 & q1 & q2 & -> & ->)]];
      reflexivity.
  Qed.
End Handlers.

Lemma open_emit_replaced v old new e ks nss body :
  Forall2 (fun k ns => replace_node old new k = Ok ns) ks nss ->
  forallb (repl_ok old) ks = true ->
  forallb (fun k => negb (is_Pr_child e k) || needle_free old k) ks = true ->
  open_emit v e (concat nss) body (itertext (AE e (concat nss)))
  = open_emit v e ks body (itertext_repl old new (AE e ks)).
Proof.
  intros HF Hok Hpr. unfold open_emit, get_run_formatting.
  rewrite (gather_Pr_replaced old new e ks nss HF Hok Hpr).
  rewrite (checkBox_replaced old new e ks nss HF Hok).
  rewrite (ddList_replaced old new e ks nss HF Hok).
  rewrite (itertext_replace_kids old new e ks nss HF).
  reflexivity.
Qed.

(* ---------- the expected tokens ---------- *)
(* [emit_repl] mirrors [emit] (see emit_AE) on the ORIGINAL tree: formatting,
   form fields, note references, pictures, tabs and breaks are computed from
   the original element and its original children; only the characters of
   the text elements that are hit change, and m:oMath sees the new itertext *)
Section EmitRepl.
  Variables (v : env) (old new : str).
  Fixpoint emit_repl (t : anode) : res (list tok) :=
    match t with
    | AX _ => Ok []
    | AE e ks =>
        if hit old e then Ok (repl_toks old new (ostr (e_text e)))
        else
          r <- open_emit v e ks [] (itertext_repl old new (AE e ks)) ;;
          em2 <- (if snd r then
                    (fix go (l : list anode) : res (list tok) :=
                       match l with
                       | [] => Ok []
                       | k :: r' => a <- emit_repl k ;; b <- go r' ;; Ok (a ++ b)
                       end) ks
                  else Ok []) ;;
          Ok (fst r ++ em2)
    end.
  Fixpoint emit_repl_kids (l : list anode) : res (list tok) :=
    match l with
    | [] => Ok []
    | k :: r => a <- emit_repl k ;; b <- emit_repl_kids r ;; Ok (a ++ b)
    end.
  Lemma emit_repl_AE e ks :
    emit_repl (AE e ks) =
      if hit old e then Ok (repl_toks old new (ostr (e_text e)))
      else
        r <- open_emit v e ks [] (itertext_repl old new (AE e ks)) ;;
        em2 <- (if snd r then emit_repl_kids ks else Ok []) ;;
        Ok (fst r ++ em2).
  Proof. reflexivity. Qed.
End EmitRepl.

Lemma emit_kids_app v path : forall a b i,
  emit_kids v path (a ++ b) i
  = (x <- emit_kids v path a i ;; y <- emit_kids v path b (i + length a)%nat ;; Ok (x ++ y)).
Proof.
  induction a as [|k a IH]; intros b i.
  - cbn [app emit_kids length bind]. rewrite Nat.add_0_r.
    destruct (emit_kids v path b i); reflexivity.
  - cbn [app emit_kids length]. rewrite IH.
    replace (S i + length a)%nat with (i + S (length a))%nat by lia.
    destruct (emit v (i :: path) k) as [t1|]; [|reflexivity]. cbn [bind].
    destruct (emit_kids v path a (S i)) as [t2|]; [|reflexivity]. cbn [bind].
    destruct (emit_kids v path b (i + S (length a))) as [t3|]; [|reflexivity]. cbn [bind].
    rewrite app_assoc. reflexivity.
Qed.

Lemma emit_AX v path tl : emit v path (AX tl) = Ok [].
Proof. reflexivity. Qed.

Lemma no_link_AE e ks :
  no_link (AE e ks) = true ->
  str_eqb (e_ptag e) tag_HYPERLINK = false /\ forallb no_link ks = true.
Proof.
  cbn [no_link]. intro H. apply andb_true_iff in H. destruct H as [H1 H2].
  apply negb_true_iff in H1. auto.
Qed.

(* item 2 of the work package *)
Theorem emit_replace_nodewise : forall v old new t,
  plain_inline t = true -> no_link t = true -> repl_ok old t = true ->
  forall ns path i, replace_node old new t = Ok ns ->
  emit_kids v path ns i = emit_repl v old new t.
Proof.
  intros v old new.
  apply (anode_ind' (fun t => plain_inline t = true -> no_link t = true -> repl_ok old t = true ->
           forall ns path i, replace_node old new t = Ok ns ->
           emit_kids v path ns i = emit_repl v old new t)).
  - intros tl _ _ _ ns path i H. cbn in H. injection H as <-. reflexivity.
  - intros e ks IH Hpl Hnl Hok ns path i H.
    rewrite emit_repl_AE. rewrite replace_node_cases in H.
    destruct (hit old e) eqn:Hh.
    + rewrite (repl_ok_vhit _ _ _ Hh Hok) in H.
      destruct (repl_ok_hit _ _ _ Hh Hok) as (Ht & -> & (w & Hw) & _).
      rewrite Hw in H. cbn [of_opt bind] in H. injection H as <-.
      apply emit_kids_interleave. exact Ht.
    + destruct (repl_ok_miss _ _ _ Hh Hok) as [Hoks Hpr].
      rewrite (vhit_miss _ _ Hh) in H.
      bind_inv H as ks' Ek. injection H as <-.
      destruct (rkids_inv _ _ _ _ Ek) as (nss & HF & ->).
      pose proof (replace_node_plain old new (AE e ks) [AE e (concat nss)] Hpl) as Hpl'.
      rewrite replace_node_cases, (vhit_miss _ _ Hh), Ek in Hpl'. specialize (Hpl' eq_refl).
      cbn [forallb] in Hpl'. rewrite andb_true_r in Hpl'.
      destruct (no_link_AE _ _ Hnl) as [Hnh Hnks].
      pose proof (plain_inline_AE _ _ Hpl) as [_ Hpks].
      cbn [emit_kids]. rewrite (emit_AE v (i :: path) e (concat nss) Hpl').
      unfold emit_AE_rhs. rewrite Hnh. cbn [bind].
      rewrite (open_emit_replaced v old new e ks nss [] HF Hoks Hpr).
      assert (G : forall p j, emit_kids v p (concat nss) j = emit_repl_kids v old new ks).
      { clear Ek Hpl Hpl' Hnl Hok Hpr.
        induction HF as [|k ns r nss Hk _ IHF]; intros p j; [reflexivity|].
        inversion IH as [|? ? IHk IHr]; subst.
        cbn [forallb] in Hoks, Hnks, Hpks.
        apply andb_true_iff in Hoks. destruct Hoks as [O1 O2].
        apply andb_true_iff in Hnks. destruct Hnks as [N1 N2].
        apply andb_true_iff in Hpks. destruct Hpks as [P1 P2].
        cbn [concat emit_repl_kids]. rewrite emit_kids_app.
        rewrite (IHk P1 N1 O1 ns p j Hk), (IHF IHr O2 N2 P2). reflexivity. }
      destruct (open_emit v e ks [] (itertext_repl old new (AE e ks))) as [[em1 b]|x];
        [|reflexivity].
      cbn [bind fst snd]. destruct b.
      * rewrite G. destruct (emit_repl_kids v old new ks) as [em2|x]; [|reflexivity].
        cbn [bind]. rewrite app_nil_r. reflexivity.
      * cbn [bind]. rewrite app_nil_r. reflexivity.
Qed.

(* where nothing is hit, emit_repl is emit: "everything else is unchanged" *)
Lemma needle_free_AE old e ks :
  needle_free old (AE e ks) = true -> hit old e = false /\ forallb (needle_free old) ks = true.
Proof.
  cbn [needle_free]. intro H. apply andb_true_iff in H. destruct H as [H1 H2].
  apply negb_true_iff in H1. auto.
Qed.

Lemma needle_free_repl_ok old : forall t, needle_free old t = true -> repl_ok old t = true.
Proof.
  apply (anode_ind' (fun t => needle_free old t = true -> repl_ok old t = true)).
  - reflexivity.
  - intros e ks IH H. destruct (needle_free_AE _ _ _ H) as [Hh Hks].
    cbn [repl_ok]. rewrite Hh. apply andb_true_iff. split.
    + clear H. induction IH as [|k r Hk _ IHr]; [reflexivity|].
      cbn [forallb] in Hks |- *. apply andb_true_iff in Hks. destruct Hks as [K1 K2].
      rewrite (Hk K1), (IHr K2). reflexivity.
    + rewrite forallb_forall in Hks |- *. intros k Hk. rewrite (Hks k Hk). apply orb_true_r.
Qed.

Lemma replace_frame_Forall2 old new : forall ks,
  forallb (needle_free old) ks = true ->
  Forall2 (fun k ns => replace_node old new k = Ok ns) ks (map (fun k => [k]) ks).
Proof.
  induction ks as [|k r IHr]; intro Hks; [constructor|].
  cbn [forallb] in Hks. apply andb_true_iff in Hks. destruct Hks as [K1 K2].
  constructor; [apply replace_node_frame; exact K1|apply IHr; exact K2].
Qed.

Lemma concat_singletons {A} : forall l : list A, concat (map (fun k => [k]) l) = l.
Proof. induction l as [|k r IH]; [reflexivity|]. cbn. rewrite IH. reflexivity. Qed.

Theorem emit_repl_frame : forall v old new t,
  plain_inline t = true -> no_link t = true -> needle_free old t = true ->
  forall path, emit_repl v old new t = emit v path t.
Proof.
  intros v old new.
  apply (anode_ind' (fun t => plain_inline t = true -> no_link t = true ->
           needle_free old t = true -> forall path, emit_repl v old new t = emit v path t)).
  - reflexivity.
  - intros e ks IH Hpl Hnl Hnf path.
    destruct (needle_free_AE _ _ _ Hnf) as [Hh Hks].
    rewrite emit_repl_AE, Hh, (emit_AE v path e ks Hpl). unfold emit_AE_rhs.
    destruct (no_link_AE _ _ Hnl) as [-> Hnks]. cbn [bind].
    destruct (repl_ok_miss _ _ _ Hh (needle_free_repl_ok _ _ Hnf)) as [Hoks Hpr].
    pose proof (open_emit_replaced v old new e ks _ [] (replace_frame_Forall2 old new ks Hks)
                  Hoks Hpr) as Ho.
    rewrite concat_singletons in Ho. rewrite <- Ho.
    destruct (open_emit v e ks [] (itertext (AE e ks))) as [[em1 b]|x]; [|reflexivity].
    cbn [bind fst snd]. destruct b; [|reflexivity].
    assert (Gk : forall i, emit_kids v path ks i = emit_repl_kids v old new ks).
    { pose proof (plain_inline_AE _ _ Hpl) as [_ Hpks].
      clear - IH Hks Hnks Hpks.
      induction IH as [|k r Hk _ IHr]; intro i; [reflexivity|].
      cbn [forallb] in Hks, Hnks, Hpks.
      apply andb_true_iff in Hks. destruct Hks as [K1 K2].
      apply andb_true_iff in Hnks. destruct Hnks as [N1 N2].
      apply andb_true_iff in Hpks. destruct Hpks as [P1 P2].
      cbn [emit_kids emit_repl_kids]. rewrite (IHr K2 N2 P2), (Hk P1 N1 K1 (i :: path)). reflexivity. }
    rewrite Gk. reflexivity.
Qed.

(* ---------- the needle-independent form of the hypotheses ---------- *)
(* text is carried only by w:t / m:t elements (local name "t") without children *)
Fixpoint text_leaves (t : anode) : bool :=
  match t with
  | AX _ => true
  | AE e ks =>
      match e_text e with
      | Some (_ :: _) => is_text_tag e && is_nil ks && str_eqb (e_local e) s_t
      | _ => true
      end && forallb text_leaves ks
  end.

(* every element whose text contains the needle has the prefix w bound *)
Fixpoint wuri_at_hits (old : str) (t : anode) : bool :=
  match t with
  | AX _ => true
  | AE e ks => (negb (hit old e) || is_some (e_wuri e)) && forallb (wuri_at_hits old) ks
  end.

Lemma text_tag_is_content e : is_text_tag e = true -> mem_str (e_ptag e) content_tags = true.
Proof.
  unfold is_text_tag. intro H. apply orb_true_iff in H.
  destruct H as [H|H]; apply str_eqb_eq in H; rewrite H; reflexivity.
Qed.

Lemma hit_text old e : hit old e = true -> exists c tx, e_text e = Some (c :: tx).
Proof. unfold hit. destruct (e_text e) as [[|c tx]|]; try discriminate. eauto. Qed.

Lemma nocontent_needle_free old : forall t,
  text_leaves t = true -> has_content t = false -> needle_free old t = true.
Proof.
  apply (anode_ind' (fun t => text_leaves t = true -> has_content t = false ->
                              needle_free old t = true)).
  - reflexivity.
  - intros e ks IH Htl Hc. rewrite has_content_AE in Hc. apply orb_false_iff in Hc.
    destruct Hc as [Hm Hk]. cbn [text_leaves] in Htl. apply andb_true_iff in Htl.
    destruct Htl as [Ht Hks]. cbn [needle_free]. apply andb_true_iff. split.
    + apply negb_true_iff. destruct (e_text e) as [[|c tx]|]; try reflexivity.
      apply andb_true_iff in Ht. destruct Ht as [Ht _]. apply andb_true_iff in Ht.
      destruct Ht as [Ht _]. rewrite (text_tag_is_content _ Ht) in Hm. discriminate Hm.
    + clear Ht Hm. induction IH as [|k r Hk1 _ IHr]; [reflexivity|].
      cbn [forallb existsb] in Hks, Hk |- *. apply andb_true_iff in Hks. destruct Hks as [K1 K2].
      apply orb_false_iff in Hk. destruct Hk as [C1 C2].
      rewrite (Hk1 K1 C1), (IHr K2 C2). reflexivity.
Qed.

Lemma text_leaves_repl_ok old : forall t,
  text_leaves t = true -> wf_pr t = true -> wuri_at_hits old t = true -> repl_ok old t = true.
Proof.
  apply (anode_ind' (fun t => text_leaves t = true -> wf_pr t = true ->
                              wuri_at_hits old t = true -> repl_ok old t = true)).
  - reflexivity.
  - intros e ks IH Htl Hpr Hw. cbn [text_leaves] in Htl. apply andb_true_iff in Htl.
    destruct Htl as [Ht Hks]. rewrite wf_pr_AE in Hpr. apply andb_true_iff in Hpr.
    destruct Hpr as [Hp Hprs]. cbn [wuri_at_hits] in Hw. apply andb_true_iff in Hw.
    destruct Hw as [Hw Hws]. cbn [repl_ok]. destruct (hit old e) eqn:Hh.
    + destruct (hit_text _ _ Hh) as (c & tx & Etx). rewrite Etx in Ht.
      cbn [negb orb] in Hw. rewrite Hw.
      apply andb_true_iff in Ht. destruct Ht as [Ht H3]. rewrite Ht, H3. reflexivity.
    + apply andb_true_iff. split.
      * clear Ht Hp Hw. induction IH as [|k r Hk _ IHr]; [reflexivity|].
        cbn [forallb] in Hks, Hprs, Hws |- *.
        apply andb_true_iff in Hks. destruct Hks as [K1 K2].
        apply andb_true_iff in Hprs. destruct Hprs as [P1 P2].
        apply andb_true_iff in Hws. destruct Hws as [W1 W2].
        rewrite (Hk K1 P1 W1), (IHr K2 P2 W2). reflexivity.
      * unfold pr_ok in Hp. rewrite forallb_forall in Hp, Hks |- *. intros k Hk.
        specialize (Hp k Hk). unfold is_Pr_child.
        destruct (is_elem_named (e_uri e) (e_local e ++ s_Pr) k); [|reflexivity].
        cbn [negb orb] in Hp |- *. apply negb_true_iff in Hp.
        apply nocontent_needle_free; [apply Hks; exact Hk|exact Hp].
Qed.

(* item 2 in the form asked for: text only at w:t/m:t leaves, prefix w bound at
   every hit, no hyperlink, and (MergeFacts.wf_pr) no content inside <x>Pr *)
Corollary emit_replace_text_leaves : forall v old new t ns path i,
  plain_inline t = true -> no_link t = true ->
  text_leaves t = true -> wf_pr t = true -> wuri_at_hits old t = true ->
  replace_node old new t = Ok ns ->
  emit_kids v path ns i = emit_repl v old new t.
Proof.
  intros v old new t ns path i Hpl Hnl Htl Hpr Hw H.
  apply emit_replace_nodewise; auto. apply text_leaves_repl_ok; assumption.
Qed.

(* ================================================================== *)
(* 3. a paragraph without the needle is left exactly as it is           *)
(* ================================================================== *)
Theorem replace_frame_paragraph : forall old new t,
  simple_par t = true -> needle_free old t = true -> replace_node old new t = Ok [t].
Proof. intros old new t _ H. apply replace_node_frame. exact H. Qed.

(* ================================================================== *)
(* 3b. a whole ordinary paragraph whose children are hit                 *)
(* ================================================================== *)
(* the paragraph's own w:pPr is free of the needle (get_bullet_fmt looks for
   it under the name {w}pPr, gather_Pr under {uri of the element}<local>Pr) *)
Definition ppr_clean (old : str) (e : einfo) (ks : list anode) : bool :=
  forallb (fun k => negb (is_elem_named (e_wuri e) s_pPr k) || needle_free old k) ks.

Lemma bullet_fmt_replaced old new e ks nss :
  Forall2 (fun k ns => replace_node old new k = Ok ns) ks nss ->
  forallb (repl_ok old) ks = true -> ppr_clean old e ks = true ->
  get_bullet_fmt (AE e (concat nss)) = get_bullet_fmt (AE e ks).
Proof.
  intros HF Hok Hp. unfold get_bullet_fmt, first_child_w, children_w.
  destruct (e_wuri e) as [u|] eqn:Eu; [|reflexivity].
  unfold ppr_clean in Hp. rewrite Eu in Hp.
  rewrite (clean_named_replace old new (Some u) s_pPr eq_refl eq_refl ks nss HF Hok Hp).
  reflexivity.
Qed.

Theorem replace_simple_par : forall v old new e ks,
  simple_par (AE e ks) = true -> forallb no_link ks = true ->
  hit old e = false -> repl_ok old (AE e ks) = true -> ppr_clean old e ks = true ->
  exists ks', replace_node old new (AE e ks) = Ok [AE e ks']
    /\ simple_par (AE e ks') = true
    /\ (forall path i, emit_kids v path ks' i = emit_repl_kids v old new ks)
    /\ get_pStyle e ks' = get_pStyle e ks
    /\ get_bullet_fmt (AE e ks') = get_bullet_fmt (AE e ks).
Proof.
  intros v old new e ks Hsp Hnl Hh Hok Hp.
  destruct (replace_node_total old new _ Hok) as [ns Hns].
  rewrite replace_node_cases, (vhit_miss _ _ Hh) in Hns. bind_inv Hns as ks' Ek. injection Hns as <-.
  destruct (rkids_inv _ _ _ _ Ek) as (nss & HF & ->).
  destruct (repl_ok_miss _ _ _ Hh Hok) as [Hoks Hpr].
  cbn [simple_par] in Hsp. apply andb_true_iff in Hsp. destruct Hsp as [Ht Hpks].
  exists (concat nss). split; [rewrite replace_node_cases, (vhit_miss _ _ Hh), Ek; reflexivity|].
  assert (Hpl : forallb plain_inline (concat nss) = true).
  { rewrite forallb_concat. clear - HF Hpks.
    induction HF as [|k ns r nss Hk _ IH]; [reflexivity|].
    cbn [forallb] in Hpks |- *. apply andb_true_iff in Hpks. destruct Hpks as [P1 P2].
    rewrite (replace_node_plain old new k ns P1 Hk), (IH P2). reflexivity. }
  split; [cbn [simple_par]; rewrite Ht, Hpl; reflexivity|].
  split.
  - clear - HF Hoks Hnl Hpks.
    induction HF as [|k ns r nss Hk _ IH]; intros path i; [reflexivity|].
    cbn [forallb] in Hoks, Hnl, Hpks.
    apply andb_true_iff in Hoks. destruct Hoks as [O1 O2].
    apply andb_true_iff in Hnl. destruct Hnl as [N1 N2].
    apply andb_true_iff in Hpks. destruct Hpks as [P1 P2].
    cbn [concat emit_repl_kids]. rewrite emit_kids_app.
    rewrite (emit_replace_nodewise v old new k P1 N1 O1 ns path i Hk), (IH P2 N2 O2). reflexivity.
  - split.
    + unfold get_pStyle. rewrite (gather_Pr_replaced old new e ks nss HF Hoks Hpr). reflexivity.
    + apply (bullet_fmt_replaced old new e ks nss HF Hoks Hp).
Qed.

(* C17 at paragraph level: walking the replaced paragraph appends one
   paragraph whose runs carry the queued label, the ORIGINAL paragraph's list
   marker and then emit_repl of the original children; style, lineage and
   list position are those of the original paragraph *)
Theorem replaced_par_walk : forall v old new e ks ks' path s s' ps,
  simple_par (AE e ks) = true -> forallb no_link ks = true ->
  hit old e = false -> repl_ok old (AE e ks) = true -> ppr_clean old e ks = true ->
  replace_node old new (AE e ks) = Ok [AE e ks'] ->
  Inv s -> walk v path (AE e ks') s = Ok s' -> pars_at 4%nat (c_tree s) = Ok ps ->
  exists p bl number cs ts,
    pars_at 4%nat (c_tree s') = Ok (ps ++ [p])
    /\ get_pStyle e ks = Ok (p_style p)
    /\ get_par_number (to_numtable v) (c_counters s) (get_bullet_fmt (AE e ks)) = (cs, number)
    /\ get_bullet (to_numtable v) (get_bullet_fmt (AE e ks)) number = Ok bl
    /\ c_counters s' = cs /\ p_listpos p = get_list_position cs (get_bullet_fmt (AE e ks))
    /\ emit_repl_kids v old new ks = Ok ts
    /\ toks_of (p_runs p) = toks_of (c_queued s) ++ raw bl ++ ts.
Proof.
  intros v old new e ks ks' path s s' ps Hsp Hnl Hh Hok Hp Hr HI Hw Hps.
  destruct (replace_simple_par v old new e ks Hsp Hnl Hh Hok Hp)
    as (ks2 & Hr2 & Hsp2 & Hem & Hst & Hbf).
  rewrite Hr in Hr2. injection Hr2 as <-.
  destruct (simple_par_walk v e ks' path s s' ps Hsp2 HI Hw Hps)
    as (p & Hp4 & _ & _ & _ & _ & _ & _ & Hps' & _ & (bl & number & cs & Hn & Hb & Hc & Hl & ems & Hems & Htoks)).
  rewrite Hbf in Hn, Hb, Hl. rewrite Hst in Hps'.
  exists p, bl, number, cs, (concat ems).
  repeat (split; [assumption|]). split; [|exact Htoks].
  rewrite <- (Hem path O), emit_kids_list.
  change (emit_list v path ks' 0 = Ok ems) in Hems. rewrite Hems. reflexivity.
Qed.

(* ================================================================== *)
(* 4. the pairs are applied left to right                               *)
(* ================================================================== *)
Lemma replace_all_nil : forall root, replace_all [] root = Ok root.
Proof. reflexivity. Qed.

Theorem replace_all_fold : forall p ps root,
  replace_all (p :: ps) root
  = (t <- replace_root_text (fst p) (snd p) root ;; replace_all ps t).
Proof. reflexivity. Qed.

Theorem replace_all_app : forall ps qs root,
  replace_all (ps ++ qs) root = (t <- replace_all ps root ;; replace_all qs t).
Proof.
  induction ps as [|p ps IH]; intros qs root; [reflexivity|].
  cbn [app]. rewrite !replace_all_fold.
  destruct (replace_root_text (fst p) (snd p) root) as [t|x]; [|reflexivity].
  cbn [bind]. apply IH.
Qed.

(* the children of the root are free of the needle (the root's own text is
   never looked at) *)
Definition needle_free_below (old : str) (t : anode) : bool :=
  match t with AE _ ks => forallb (needle_free old) ks | AX _ => true end.

Lemma replace_root_noop old new t :
  needle_free_below old t = true -> replace_root_text old new t = Ok t.
Proof.
  destruct t as [e ks|tl]; [|reflexivity]. apply replace_root_frame_kids.
Qed.

(* a pair whose needle occurs nowhere (at the time it is applied) is a no-op *)
Theorem replace_all_skip_head : forall p ps root,
  needle_free_below (fst p) root = true -> replace_all (p :: ps) root = replace_all ps root.
Proof.
  intros p ps root H. rewrite replace_all_fold, (replace_root_noop _ _ _ H). reflexivity.
Qed.

Theorem replace_all_skip : forall ps p qs root t,
  replace_all ps root = Ok t -> needle_free_below (fst p) t = true ->
  replace_all (ps ++ p :: qs) root = replace_all (ps ++ qs) root.
Proof.
  intros ps p qs root t H Hn. rewrite !replace_all_app, H. cbn [bind].
  apply replace_all_skip_head. exact Hn.
Qed.

(* all needles absent: nothing happens *)
Theorem replace_all_noop : forall pairs root,
  (forall p, In p pairs -> needle_free_below (fst p) root = true) -> replace_all pairs root = Ok root.
Proof.
  induction pairs as [|p ps IH]; intros root H; [reflexivity|].
  rewrite replace_all_skip_head by (apply H; left; reflexivity).
  apply IH. intros q Hq. apply H. right. exact Hq.
Qed.

(* ================================================================== *)
(* 5. C16: extracting a saved part again gives the same result          *)
(* ================================================================== *)
Lemma mapM_In_fwd {A B} (f : A -> res B) : forall l ys,
  mapM f l = Ok ys -> forall x, In x l -> exists y, f x = Ok y /\ In y ys.
Proof.
  induction l as [|a l IH]; intros ys H x Hx; [destruct Hx|].
  cbn [mapM] in H. bind_inv H as y Ey. bind_inv H as ys' Eys. injection H as <-.
  destruct Hx as [<-|Hx].
  - exists y. split; [exact Ey|left; reflexivity].
  - destruct (IH _ eq_refl x Hx) as (y' & Hy & Hin). exists y'. split; [exact Hy|right; exact Hin].
Qed.

(* File.root_element looks at a File only through its path and through whether
   its Type is a content type *)
Lemma part_root_ext : forall a fs o f f',
  f_path f' = f_path f ->
  mem_str (f_type f') content_file_types = mem_str (f_type f) content_file_types ->
  part_root a fs o f' = part_root a fs o f.
Proof.
  intros a fs o f f' Hp Hk. unfold part_root, file_rels_or_empty, file_rels.
  rewrite Hp, Hk. reflexivity.
Qed.

(* save() writes ONE member per path: the tree of the LAST rewritten File with
   that path.  [same_kind_as_saved fs f]: that File and f agree on being a
   content part (then their root elements are the same) *)
Definition same_kind_as_saved (fs : list frec) (f : frec) : bool :=
  match last_with_path (f_path f)
          (filter (fun f => mem_str (f_type f) save_overwrite_types) fs) with
  | Some f' => Bool.eqb (mem_str (f_type f') content_file_types)
                        (mem_str (f_type f) content_file_types)
  | None => true
  end.

(* it holds when no File of the other kind shares f's path — in particular
   when f's path is the target of one relationship only *)
Lemma same_kind_no_alias : forall fs f,
  (forall f', In f' fs -> mem_str (f_type f') save_overwrite_types = true ->
              f_path f' = f_path f ->
              mem_str (f_type f') content_file_types = mem_str (f_type f) content_file_types) ->
  same_kind_as_saved fs f = true.
Proof.
  intros fs f H. unfold same_kind_as_saved.
  destruct (last_with_path _ _) as [f'|] eqn:E; [|reflexivity].
  apply last_with_path_Some in E. destruct E as [Hin Hp].
  apply filter_In in Hin. destruct Hin as [Hin Hty].
  rewrite (H f' Hin Hty Hp). apply Bool.eqb_reflx.
Qed.

Lemma same_kind_part_root : forall a fs o f f',
  last_with_path (f_path f)
    (filter (fun f => mem_str (f_type f) save_overwrite_types) fs) = Some f' ->
  same_kind_as_saved fs f = true ->
  part_root a fs o f' = part_root a fs o f.
Proof.
  intros a fs o f f' Hl Hk. unfold same_kind_as_saved in Hk. rewrite Hl in Hk.
  apply Bool.eqb_prop in Hk. apply last_with_path_Some in Hl. destruct Hl as [_ Hp].
  apply part_root_ext; assumption.
Qed.

(* every rewritten path is written back as the root element of the LAST
   rewritten File with that path *)
Theorem save_then_part_root : forall a o out,
  save a o = Ok out ->
  exists fs, files a = Ok fs /\
    forall f, In f fs -> mem_str (f_type f) save_overwrite_types = true ->
      exists f' t,
        last_with_path (f_path f)
          (filter (fun f => mem_str (f_type f) save_overwrite_types) fs) = Some f'
        /\ part_root a fs o f' = Ok t /\ In (f_path f, WXml t) out.
Proof.
  intros a o out H. unfold save in H. bind_inv H as fs Efs. exists fs. split; [reflexivity|].
  intros f Hf Hty. exact (save_written_fwd _ _ _ _ H f Hf Hty).
Qed.

(* the statement from before the fix ("f is written back as ITS root element")
   needs the File that wins f's path to be of f's kind *)
Theorem save_then_part_root_same_kind : forall a o out,
  save a o = Ok out ->
  exists fs, files a = Ok fs /\
    forall f, In f fs -> mem_str (f_type f) save_overwrite_types = true ->
      same_kind_as_saved fs f = true ->
      exists t, part_root a fs o f = Ok t /\ In (f_path f, WXml t) out.
Proof.
  intros a o out H. destruct (save_then_part_root a o out H) as (fs & Hfs & Hall).
  exists fs. split; [exact Hfs|]. intros f Hf Hty Hk.
  destruct (Hall f Hf Hty) as (f' & t & Hl & Ht & Hin).
  exists t. split; [|exact Hin]. rewrite <- (same_kind_part_root a fs o f f' Hl Hk). exact Ht.
Qed.

(* conversely, everything that is written as XML is such a root *)
Theorem save_written_is_part_root : forall a o out n t,
  save a o = Ok out -> In (n, WXml t) out ->
  exists fs f, files a = Ok fs /\ In f fs /\ mem_str (f_type f) save_overwrite_types = true
    /\ n = f_path f /\ part_root a fs o f = Ok t.
Proof.
  intros a o out n t H Hin. unfold save in H. bind_inv H as fs Efs.
  destruct (save_written_bwd _ _ _ _ _ _ H Hin) as (f & Hl & Ht).
  apply last_with_path_Some in Hl. destruct Hl as [Hf Hp].
  apply filter_In in Hf. destruct Hf as [Hf Hty].
  exists fs, f. auto.
Qed.

(* the environment File.root_element merges under *)
Definition merge_env (o : opts) (rels : list (str * str)) : env :=
  {| env_x2h := if o_html o then xml2html_table else [];
     env_rels := rels; env_dup := o_dup o; env_numtbl := [] |}.

(* extraction of a part whose member has been replaced by the tree [t]
   (the relationships and numbering members are copied unchanged by save):
   File.root_element merges what it reads, then the collector runs *)
Definition reextract (a : archive) (fs : list frec) (o : opts) (f : frec) (t : anode) : res cst :=
  rels <- file_rels_or_empty a fs f ;;
  m <- merge_elems (merge_env o rels) t ;;
  v <- part_env a fs o f ;;
  collect_from v [] m.

Lemma content_is_overwritten ty :
  mem_str ty content_file_types = true -> mem_str ty save_overwrite_types = true.
Proof.
  intro H. apply MergeFacts.mem_str_In in H. cbn in H.
  repeat (destruct H as [<-|H]; [reflexivity|]). destruct H.
Qed.

Theorem C16_reextract_partial : forall pt a o out fs f r rels,
  save a o = Ok out -> files a = Ok fs -> In f fs ->
  mem_str (f_type f) content_file_types = true ->
  same_kind_as_saved fs f = true ->
  member_xml a (f_path f) = Ok r -> file_rels_or_empty a fs f = Ok rels ->
  rels_ok (merge_env o rels) -> wf_ptag pt (view r) = true -> wf_pr (view r) = true ->
  exists t, In (f_path f, WXml t) out /\ part_root a fs o f = Ok t
    /\ merge_elems (merge_env o rels) t = Ok t
    /\ (forall v, (t' <- merge_elems (merge_env o rels) t ;; collect_from v [] t')
                  = collect_from v [] t)
    /\ reextract a fs o f t = part_collector a fs o f.
Proof.
  intros pt a o out fs f r rels Hs Hfs Hf Hty Hkind Hr Hrels Hok Hpt Hpr.
  destruct (save_then_part_root_same_kind a o out Hs) as (fs' & Hfs' & Hall).
  rewrite Hfs in Hfs'. injection Hfs' as <-.
  destruct (Hall f Hf (content_is_overwritten _ Hty) Hkind) as (t & Ht & Hin).
  exists t. split; [exact Hin|]. split; [exact Ht|].
  assert (Hm : merge_elems (merge_env o rels) t = Ok t).
  { unfold part_root in Ht. rewrite Hr in Ht. cbn [bind] in Ht. rewrite Hty, Hrels in Ht.
    cbn [bind] in Ht. exact (merge_idempotent_partial pt _ _ _ Hok Hpt Hpr Ht). }
  split; [exact Hm|]. split.
  - intro v. rewrite Hm. reflexivity.
  - unfold reextract, part_collector. rewrite Hrels. cbn [bind]. rewrite Hm, Ht. reflexivity.
Qed.

(* ================================================================== *)
(* 6. examples                                                          *)
(* ================================================================== *)
Section Examples.
  Import String.StringSyntax.
  Local Open Scope string_scope.
  Definition ex_U : str := s2l "http://schemas.openxmlformats.org/wordprocessingml/2006/main".
  Definition ex_ns : list (option str * str) := [(Some s_w, ex_U)].
  Definition ex_el (l : String.string) (tx : option String.string) (ks : list rnode) : rnode :=
    RE (Some s_w) (Some ex_U) (s2l l) ex_ns []
       (match tx with Some s => Some (s2l s) | None => None end) None ks.
  (* <w:r><w:t>hello world</w:t><w:tab/><w:t>world</w:t></w:r> *)
  Definition ex_run : anode :=
    view (ex_el "r" None [ex_el "t" (Some "hello world") []; ex_el "tab" None [];
                          ex_el "t" (Some "world") []]).
  (* <w:p> that run </w:p> *)
  Definition ex_par : anode :=
    view (ex_el "p" None [ex_el "r" None [ex_el "t" (Some "hello world") []; ex_el "tab" None [];
                                          ex_el "t" (Some "world") []]]).
  Definition ex_old : str := s2l "world".
  Definition ex_new : str := s2l "there" ++ [10] ++ s2l "you".
  Definition ex_pairs : list (str * str) := [(ex_old, ex_new); (s2l "zzz", s2l "q")].
  Definition ex_env : env := {| env_x2h := []; env_rels := []; env_dup := false; env_numtbl := [] |}.
  (* "hello there\nyou\tthere\nyou" *)
  Definition ex_text : str :=
    s2l "hello there" ++ [10] ++ s2l "you" ++ [9] ++ s2l "there" ++ [10] ++ s2l "you".
  Definition ex_flat : str := s2l "hello thereyouthereyou".
  (* <w:r><w:delText>world</w:delText><w:instrText>world</w:instrText><w:t>world</w:t></w:r> *)
  Definition ex_hidden_run : anode :=
    view (ex_el "r" None [ex_el "delText" (Some "world") []; ex_el "instrText" (Some "world") [];
                          ex_el "t" (Some "world") []]).
  Definition ex_hidden_out : anode :=
    view (ex_el "r" None [ex_el "delText" (Some "world") []; ex_el "instrText" (Some "world") [];
                          ex_el "t" (Some "there") []; ex_el "br" None []; ex_el "t" (Some "you") []]).
End Examples.

(* fix D33: deleted text and field codes keep the needle (no w:br appears beside
   them); the w:t next to them is replaced *)
Example ex_invisible_untouched :
  needle_free ex_old ex_hidden_run = false
  /\ replace_node ex_old ex_new ex_hidden_run = Ok [ex_hidden_out].
Proof. split; vm_compute; reflexivity. Qed.

(* the example satisfies every hypothesis of emit_replace_nodewise and of
   emit_replace_text_leaves *)
Example ex_hypotheses :
  plain_inline ex_run = true /\ no_link ex_run = true /\ repl_ok ex_old ex_run = true
  /\ text_leaves ex_run = true /\ wf_pr ex_run = true /\ wuri_at_hits ex_old ex_run = true
  /\ needle_free ex_old ex_run = false /\ simple_par ex_par = true.
Proof. vm_compute. repeat split. Qed.

(* both sides of item 2, computed: w:t, w:br, w:t, w:tab, w:t, w:br, w:t *)
Example ex_nodewise :
  exists ns, replace_node ex_old ex_new ex_run = Ok ns
    /\ length (concat (map kids_of ns)) = 7%nat
    /\ (exists ts, emit_kids ex_env [] ns 0 = Ok ts /\ emit_repl ex_env ex_old ex_new ex_run = Ok ts
                   /\ render false ts = ex_text).
Proof.
  eexists. split; [vm_compute; reflexivity|]. split; [vm_compute; reflexivity|].
  eexists. split; [vm_compute; reflexivity|]. split; vm_compute; reflexivity.
Qed.

(* the whole paragraph under replace_all with both pairs: the second needle
   occurs nowhere *)
Example ex_replace_all :
  exists p', replace_all ex_pairs ex_par = Ok p'
    /\ replace_all [(ex_old, ex_new)] ex_par = Ok p'
    /\ simple_par p' = true
    /\ (exists ts, emit_kids ex_env [] (kids_of p') 0 = Ok ts
                   /\ emit_repl_kids ex_env ex_old ex_new (kids_of ex_par) = Ok ts
                   /\ render false ts = ex_text)
    /\ itertext p' = ex_flat.
Proof.
  eexists. split; [vm_compute; reflexivity|]. split; [vm_compute; reflexivity|].
  split; [vm_compute; reflexivity|]. split.
  - eexists. split; [vm_compute; reflexivity|]. split; vm_compute; reflexivity.
  - vm_compute. reflexivity.
Qed.

(* ================================================================== *)
(* 7. about the extra hypotheses                                        *)
(* ================================================================== *)
(* (a) the local-name condition inside text_leaves / repl_ok holds for every
   tree that comes from the parser: a prefixed tag "w:t" or "m:t" determines
   the local name "t" *)
Fixpoint t_named (t : anode) : bool :=
  match t with
  | AX _ => true
  | AE e ks => (negb (is_text_tag e) || str_eqb (e_local e) s_t) && forallb t_named ks
  end.

Lemma prefixed_t_local (a : N) : a <> 58 ->
  forall pre l, pre ++ 58 :: l = [a; 58; 116] -> l = [116].
Proof.
  intros Ha pre l H.
  destruct pre as [|x pre]; cbn in H.
  - injection H as H _. congruence.
  - destruct pre as [|y pre]; cbn in H.
    + injection H as _ H. exact H.
    + destruct pre as [|z pre]; cbn in H; [discriminate H|].
      destruct pre as [|w pre]; cbn in H; [discriminate H|].
      injection H as _ _ _ H. destruct pre; discriminate H.
Qed.

Lemma view_root_t_named p u l m a tx tl ks e ks' :
  view (RE p u l m a tx tl ks) = AE e ks' -> is_text_tag e = true -> e_local e = s_t.
Proof.
  cbn [view]. intros H Ht. injection H as <- _. unfold is_text_tag in Ht. cbn [e_ptag e_local] in *.
  unfold prefixed in Ht. apply orb_true_iff in Ht.
  destruct Ht as [Ht|Ht]; apply str_eqb_eq in Ht;
    refine (prefixed_t_local _ _ _ _ Ht); discriminate.
Qed.

Lemma view_t_named : forall r, t_named (view r) = true.
Proof.
  fix IH 1. intros [p u l m a tx tl ks|tl]; [|reflexivity].
  cbn [view t_named]. apply andb_true_iff. split.
  - match goal with |- negb (is_text_tag ?e) || _ = true => destruct (is_text_tag e) eqn:Ht end;
      [|reflexivity].
    pose proof (view_root_t_named p u l m a tx tl ks _ _ eq_refl Ht) as Hl.
    cbn [negb orb e_local] in Hl |- *. rewrite Hl. reflexivity.
  - induction ks as [|k ks IHks]; [reflexivity|]. cbn [map forallb]. rewrite IH, IHks. reflexivity.
Qed.

(* (b) without it the statement is false of the model (for an einfo no parser
   produces): a "w:t" element whose local name is "listEntry", inside a
   w:ddList whose w:result selects entry 1, replaced by two lines is repeated
   once per line and so changes the selected entry (from none to its own).
   (Before 101554e the example was a w:t named "checked" replaced by the empty
   string, which then disappeared; re.split never returns the empty list, so
   that element now stays.) *)
Fixpoint text_leaves0 (t : anode) : bool :=
  match t with
  | AX _ => true
  | AE e ks =>
      match e_text e with
      | Some (_ :: _) => is_text_tag e && is_nil ks
      | _ => true
      end && forallb text_leaves0 ks
  end.

Definition cx_U : str := [85].
Definition cx_entry : anode :=
  AE {| e_ptag := tag_TEXT; e_uri := Some cx_U; e_local := s_listEntry; e_wuri := Some cx_U;
        e_ruri := None; e_attrs := [((Some cx_U, s_val), [65])]; e_text := Some [88];
        e_tail := None |} [].
Definition cx_result : anode :=
  AE {| e_ptag := prefixed (Some s_w) s_result; e_uri := Some cx_U; e_local := s_result;
        e_wuri := Some cx_U; e_ruri := None; e_attrs := [((Some cx_U, s_val), [49])];
        e_text := None; e_tail := None |} [].
Definition cx_box : anode :=
  AE {| e_ptag := tag_FORM_DDLIST; e_uri := Some cx_U; e_local := [100;100;76;105;115;116];
        e_wuri := Some cx_U; e_ruri := None; e_attrs := []; e_text := None; e_tail := None |}
     [cx_entry; cx_result].
Definition cx_env0 : env := {| env_x2h := []; env_rels := []; env_dup := false; env_numtbl := [] |}.

Lemma emit_replace_nodewise_counterexample :
  exists v old new t ns,
    plain_inline t = true /\ no_link t = true /\ text_leaves0 t = true /\ wf_pr t = true
    /\ wuri_at_hits old t = true /\ replace_node old new t = Ok ns
    /\ emit_kids v [] ns 0 <> emit_repl v old new t.
Proof.
  exists cx_env0, [88], [97; 10; 98], cx_box. eexists.
  repeat (split; [vm_compute; reflexivity|]).
  vm_compute. discriminate.
Qed.

(* (c) the hypothesis about property children (wf_pr / the second half of
   repl_ok) is what keeps the FORMATTING of a run unchanged: with a hit inside
   w:rPr the w:br that is inserted there becomes a formatting key *)
Section CxPr.
  Import String.StringSyntax.
  Local Open Scope string_scope.
  Definition cx_pr_run : anode :=
    view (ex_el "r" None [ex_el "rPr" None [ex_el "t" (Some "X") []]; ex_el "t" (Some "y") []]).
  Definition cx_pr_x2h : xml2html :=
    [(s2l "br", {| hf_expr := [FTagLast]; hf_container := None; hf_property := None |})].
End CxPr.

Lemma run_formatting_changes_without_pr_hypothesis :
  exists old new e ks ks',
    cx_pr_run = AE e ks /\ text_leaves cx_pr_run = true /\ wuri_at_hits old cx_pr_run = true
    /\ wf_pr cx_pr_run = false /\ repl_ok old cx_pr_run = false
    /\ replace_node old new cx_pr_run = Ok [AE e ks']
    /\ get_run_formatting e ks cx_pr_x2h = Ok []
    /\ get_run_formatting e ks' cx_pr_x2h = Ok [[114]].
Proof.
  exists [88], [97; 10; 98]. do 3 eexists.
  split; [reflexivity|]. repeat (split; [vm_compute; reflexivity|]). vm_compute. reflexivity.
Qed.

(* ================================================================== *)
(* 8. replace_docx writes replace_all of every content part             *)
(* ================================================================== *)
(* per path: the LAST rewritten File with that path, its root element with the
   pairs applied (when it is a content part) *)
Theorem replace_docx_written : forall a o pairs out,
  replace_docx a o pairs = Ok out ->
  exists fs, files a = Ok fs /\
    forall f, In f fs -> mem_str (f_type f) save_overwrite_types = true ->
      exists f' t t',
        last_with_path (f_path f)
          (filter (fun f => mem_str (f_type f) save_overwrite_types) fs) = Some f'
        /\ part_root a fs o f' = Ok t
        /\ (if mem_str (f_type f') content_file_types then replace_all pairs t else Ok t) = Ok t'
        /\ In (f_path f, WXml t') out.
Proof.
  intros a o pairs out H. unfold replace_docx in H. bind_inv H as fs Efs.
  exists fs. split; [reflexivity|]. intros f Hf Hty.
  destruct (save_written_fwd _ _ _ _ H f Hf Hty) as (f' & t' & Hl & Ht' & Hin).
  bind_inv Ht' as t Et.
  exists f', t, t'. split; [exact Hl|]. split; [exact Et|]. split; [exact Ht'|exact Hin].
Qed.

(* the statement from before the fix, under the kind hypothesis *)
Theorem replace_docx_written_same_kind : forall a o pairs out,
  replace_docx a o pairs = Ok out ->
  exists fs, files a = Ok fs /\
    forall f, In f fs -> mem_str (f_type f) save_overwrite_types = true ->
      same_kind_as_saved fs f = true ->
      exists t t', part_root a fs o f = Ok t
        /\ (if mem_str (f_type f) content_file_types then replace_all pairs t else Ok t) = Ok t'
        /\ In (f_path f, WXml t') out.
Proof.
  intros a o pairs out H. destruct (replace_docx_written a o pairs out H) as (fs & Hfs & Hall).
  exists fs. split; [exact Hfs|]. intros f Hf Hty Hk.
  destruct (Hall f Hf Hty) as (f' & t & t' & Hl & Ht & Hr & Hin).
  exists t, t'. rewrite <- (same_kind_part_root a fs o f f' Hl Hk).
  split; [exact Ht|]. split; [|exact Hin].
  unfold same_kind_as_saved in Hk. rewrite Hl in Hk. apply Bool.eqb_prop in Hk.
  rewrite <- Hk. exact Hr.
Qed.

(* ================================================================== *)
(* 9. the kind hypothesis is needed: a part that is the target of an    *)
(*    officeDocument relationship AND of a later one of type            *)
(*    "relationships" is saved unmerged                                 *)
(* ================================================================== *)
Section Alias.
  Import String.StringSyntax.
  Local Open Scope string_scope.
  (* <w:document><w:body><w:p><w:r><w:t>a</w:t></w:r><w:r><w:t>b</w:t></w:r></w:p>... *)
  Definition al_doc : rnode :=
    sh_wel "document" None
      [sh_wel "body" None
         [sh_wel "p" None [sh_wel "r" None [sh_wel "t" (Some "a") []];
                           sh_wel "r" None [sh_wel "t" (Some "b") []]]]].
  Definition al_archive : archive :=
    [(s2l "_rels/.rels",
        MXml (sh_rels [sh_rel "rId1" "t/officeDocument" "word/document.xml";
                       sh_rel "rId2" "t/relationships" "word/document.xml"]));
     (s2l "word/document.xml", MXml al_doc)].
  Definition al_pt (an : aname) : str := prefixed (Some s_w) (snd an).
  Definition al_od : frec :=
    {| f_id := s2l "rId1"; f_type := s2l "officeDocument"; f_target := s2l "word/document.xml";
       f_dir := s2l "_rels" |}.
End Alias.

Lemma al_rels_ok : rels_ok (merge_env sh_opts []).
Proof. intros k t H. discriminate H. Qed.

(* every hypothesis of C16_reextract_partial except same_kind_as_saved holds;
   the one member written under the part's path is NOT its root element (the
   two runs are not merged in it) *)
Lemma save_then_part_root_counterexample :
  exists out fs t t',
    save al_archive sh_opts = Ok out /\ files al_archive = Ok fs /\ In al_od fs
    /\ mem_str (f_type al_od) content_file_types = true
    /\ member_xml al_archive (f_path al_od) = Ok al_doc
    /\ file_rels_or_empty al_archive fs al_od = Ok []
    /\ wf_ptag al_pt (view al_doc) = true /\ wf_pr (view al_doc) = true
    /\ same_kind_as_saved fs al_od = false
    /\ part_root al_archive fs sh_opts al_od = Ok t
    /\ filter (fun nm => str_eqb (fst nm) (f_path al_od)) out = [(f_path al_od, WXml t')]
    /\ t' = view al_doc /\ t <> t'.
Proof.
  do 4 eexists.
  split; [vm_compute; reflexivity|]. split; [vm_compute; reflexivity|].
  split; [left; reflexivity|].
  repeat (split; [vm_compute; reflexivity|]).
  vm_compute. intros E. discriminate E.
Qed.

Lemma in_filter_one : forall {A} (g : A -> bool) l x y,
  filter g l = [y] -> In x l -> g x = true -> x = y.
Proof.
  intros A g l x y H Hin Hg.
  assert (Hx : In x (filter g l)) by (apply filter_In; split; assumption).
  rewrite H in Hx. destruct Hx as [<-|[]]. reflexivity.
Qed.

Lemma C16_reextract_counterexample :
  exists pt a o out fs f r rels,
    save a o = Ok out /\ files a = Ok fs /\ In f fs
    /\ mem_str (f_type f) content_file_types = true
    /\ member_xml a (f_path f) = Ok r /\ file_rels_or_empty a fs f = Ok rels
    /\ rels_ok (merge_env o rels) /\ wf_ptag pt (view r) = true /\ wf_pr (view r) = true
    /\ ~ exists t, In (f_path f, WXml t) out /\ part_root a fs o f = Ok t.
Proof.
  destruct save_then_part_root_counterexample
    as (out & fs & t & t' & Hs & Hfs & Hin & Hty & Hr & Hrels & Hpt & Hpr & _ & Ht & Hone & _ & Hne).
  exists al_pt, al_archive, sh_opts, out, fs, al_od, al_doc, [].
  repeat (split; [assumption|]). split; [exact al_rels_ok|].
  split; [exact Hpt|]. split; [exact Hpr|].
  intros [t0 [Hin0 Ht0]]. rewrite Ht in Ht0. injection Ht0 as <-.
  pose proof (in_filter_one _ _ _ _ Hone Hin0 (str_eqb_refl _)) as E.
  injection E as E. exact (Hne E).
Qed.

(* ==== ASSUMPTIONS ==== *)
Print Assumptions emit_AE.
Print Assumptions emit_replaced_text_node.
Print Assumptions emit_replaced_w_t.
Print Assumptions replace_node_total.
Print Assumptions replace_node_plain.
Print Assumptions itertext_replace.
Print Assumptions gather_Pr_replaced.
Print Assumptions emit_replace_nodewise.
Print Assumptions emit_repl_frame.
Print Assumptions emit_replace_text_leaves.
Print Assumptions replace_frame_paragraph.
Print Assumptions replace_simple_par.
Print Assumptions replaced_par_walk.
Print Assumptions replace_all_fold.
Print Assumptions replace_all_app.
Print Assumptions replace_all_skip_head.
Print Assumptions replace_all_skip.
Print Assumptions replace_all_noop.
Print Assumptions save_then_part_root.
Print Assumptions save_then_part_root_same_kind.
Print Assumptions same_kind_no_alias.
Print Assumptions save_written_is_part_root.
Print Assumptions C16_reextract_partial.
Print Assumptions ex_hypotheses.
Print Assumptions ex_nodewise.
Print Assumptions ex_replace_all.
Print Assumptions ex_invisible_untouched.
Print Assumptions view_t_named.
Print Assumptions emit_replace_nodewise_counterexample.
Print Assumptions run_formatting_changes_without_pr_hypothesis.
Print Assumptions replace_docx_written.
Print Assumptions replace_docx_written_same_kind.
Print Assumptions save_then_part_root_counterexample.
Print Assumptions C16_reextract_counterexample.
