(* SourceFresh2.v — what the freshness of the string views (SourceFresh.v) buys for the
   collector (SourceCaret.v): computing a view, and then mutating ANY cell the view allocated,
   leaves the collector's represented state exactly as it was (C14: "mutating a returned value
   never changes a later read"). *)
From Coq Require Import List NArith ZArith Bool Arith Lia.
From D2P Require Import Str Err Xml Collector PyVal PyHeap SourceHeap SourceHeapViews SourceCaret SourceFresh.
Import ListNotations.

Lemma agree_frame_ok : forall h h2 avoid,
  (forall b, (b < length h)%nat -> h_get b h2 = h_get b h) -> frame_ok h avoid h2 avoid.
Proof.
  intros h h2 avoid A. split.
  - intros a l G N. split; auto. rewrite A; auto. eapply SourceCaret.h_get_lt; eauto.
  - intros a c fs G. exists c, fs. rewrite A; auto. eapply SourceCaret.h_get_lt; eauto.
Qed.

Lemma agree_objs_kept : forall h h2,
  (forall b, (b < length h)%nat -> h_get b h2 = h_get b h) -> objs_kept h h2.
Proof.
  intros h h2 A a c fs G. exists fs. rewrite A; auto. eapply SourceCaret.h_get_lt; eauto.
Qed.

(* the abstraction reads only cells that exist: a heap that agrees with h on all of h's
   addresses represents the same state *)
Theorem rep_only_reads_its_heap : forall (leaf_of : pv -> option par) h h2 self k,
  rep leaf_of h self = Some k ->
  (forall b, (b < length h)%nat -> h_get b h2 = h_get b h) ->
  rep leaf_of h2 self = Some k.
Proof.
  intros leaf_of h h2 self k H A. apply rep_Rep in H.
  destruct H as [sa cls fs rb op lin brs ops lg bs t ps H1 H2 H3 H4 H5 H6 H7 H8 H9 H10 H11 H12 H13].
  apply Rep_rep. econstructor; eauto.
  - rewrite A; eauto. eapply SourceCaret.h_get_lt; eauto.
  - rewrite A; eauto. eapply SourceCaret.h_get_lt; eauto.
  - rewrite A; eauto. eapply SourceCaret.h_get_lt; eauto.
  - eapply abs_spine_frame; [apply agree_frame_ok; exact A| |exact H12].
    intros b I. destruct (abs_spine_valid _ _ _ _ _ _ H12 b I) as [l G].
    apply A. eapply SourceCaret.h_get_lt; eauto.
  - eapply mapo_leaf_kept; [apply agree_objs_kept; exact A|exact H13].
Qed.

Lemma extends_cannot_disturb : forall (leaf_of : pv -> option par) h self k h' a o,
  rep leaf_of h self = Some k -> extends h h' -> (length h <= a)%nat ->
  rep leaf_of h' self = Some k /\ rep leaf_of (h_set a o h') self = Some k.
Proof.
  intros leaf_of h self k h' a o R E L. split.
  - eapply rep_only_reads_its_heap; [exact R|].
    intros b Lb. destruct E as [ex ->]. unfold h_get. apply nth_error_app1; auto.
  - eapply rep_only_reads_its_heap; [exact R|].
    intros b Lb. apply fresh_mutation_harmless; auto.
Qed.

Theorem get_par_strings_cannot_disturb_collector :
  forall (leaf_of : pv -> option par) h self k x v h' a o,
  rep leaf_of h self = Some k -> heap_ok h -> okv (length h) x = true ->
  S_HV_get_par_strings x h = HOk v h' -> (length h <= a)%nat ->
  rep leaf_of h' self = Some k /\ rep leaf_of (h_set a o h') self = Some k.
Proof.
  intros leaf_of h self k x v h' a o R Hok Hx Hr L.
  apply hv_get_par_strings_fresh in Hr; auto. destruct Hr as [E _].
  eapply extends_cannot_disturb; eauto.
Qed.

Theorem join_runs_cannot_disturb_collector :
  forall (leaf_of : pv -> option par) h self k x v h' a o,
  rep leaf_of h self = Some k -> heap_ok h -> okv (length h) x = true ->
  S_HV_join_runs x h = HOk v h' -> (length h <= a)%nat ->
  rep leaf_of h' self = Some k /\ rep leaf_of (h_set a o h') self = Some k.
Proof.
  intros leaf_of h self k x v h' a o R Hok Hx Hr L.
  apply hv_join_runs_fresh in Hr; auto. destruct Hr as [E _].
  eapply extends_cannot_disturb; eauto.
Qed.

Print Assumptions rep_only_reads_its_heap.
Print Assumptions get_par_strings_cannot_disturb_collector.
Print Assumptions join_runs_cannot_disturb_collector.
