(* SourceBase.v — encodings of the model's types into the dynamically typed universe
   of the source translator (model/PyVal.v), shared by the Source*.v equality proofs. *)
From Coq Require Import List NArith ZArith Bool Arith Lia.
From D2P Require Import Str Err PyVal Iter Collector.
Import ListNotations.

Definition lift_str (r : res str) : res pv :=
  match r with Ok s => Ok (VStr s) | Err e => Err e end.
Definition lift_strs (r : res (list str)) : res pv :=
  match r with Ok l => Ok (VList (map VStr l)) | Err e => Err e end.

(* a nested Python list *)
Fixpoint enc_rose {A} (f : A -> pv) (t : rose A) : pv :=
  match t with
  | RL l => VList (map (enc_rose f) l)
  | RA a => f a
  end.
Definition lift_rose {A} (f : A -> pv) (r : res (rose A)) : res pv :=
  match r with Ok t => Ok (enc_rose f t) | Err e => Err e end.

(* (address tuple, item) pairs *)
Definition enc_addr (a : list nat) : pv := VTuple (map (fun n => VInt (Z.of_nat n)) a).
Definition enc_enum {A} (f : A -> pv) (l : list (list nat * rose A)) : pv :=
  VList (map (fun ax => VTuple [enc_addr (fst ax); enc_rose f (snd ax)]) l).
Definition lift_enum {A} (f : A -> pv) (r : res (list (list nat * rose A))) : res pv :=
  match r with Ok l => Ok (enc_enum f l) | Err e => Err e end.
Definition lift_items {A} (f : A -> pv) (r : res (list (rose A))) : res pv :=
  match r with Ok l => Ok (VList (map (enc_rose f) l)) | Err e => Err e end.

(* dataclass instances: Run(html_style, text), Par(elem, html_style, style, lineage, runs, list_position);
   only the fields the translated code reads are listed *)
Definition k_Run : str := [82;117;110]%N.
Definition k_Par : str := [80;97;114]%N.
Definition k_html_style : str := [104;116;109;108;95;115;116;121;108;101]%N.
Definition k_text : str := [116;101;120;116]%N.
Definition k_runs : str := [114;117;110;115]%N.
Definition enc_run (html : bool) (r : run) : pv :=
  VObj k_Run [(k_html_style, VList (map VStr (r_style r))); (k_text, VStr (render html (r_toks r)))].
Definition enc_par (html : bool) (p : par) : pv :=
  VObj k_Par [(k_html_style, VList (map VStr (p_hstyle p))); (k_runs, VList (map (enc_run html) (p_runs p)))].
