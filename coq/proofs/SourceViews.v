(* SourceViews.v — text_runs.html_open / html_close, depth_collector.Run.__str__,
   Par.run_strings, get_par_strings and docx_output._join_runs AS TRANSLATED FROM THE SOURCE
   TEXT (gen/Source.v) are equal to the hand-written model (model/Fmt.v, Collector.v,
   Output.v) that the C01 / C03 / C07 theorems are about. *)
From Coq Require Import List NArith ZArith Bool Arith Lia.
From D2P Require Import Str Err Fmt Iter Collector Output PyVal Source SourceBase ViewFacts.
Import ListNotations.

(* ---------- generic helpers ---------- *)
Lemma sv_strs_of_map : forall l, strs_of (map VStr l) = Ok l.
Proof. induction l as [|x l IH]; simpl; [reflexivity|]. rewrite IH. reflexivity. Qed.

Lemma sv_join_nil : forall l : list str, join [] l = concat l.
Proof.
  induction l as [|x l IH]; [reflexivity|].
  destruct l as [|y l].
  - simpl. rewrite app_nil_r. reflexivity.
  - change (join [] (x :: y :: l)) with (x ++ [] ++ join [] (y :: l)).
    rewrite IH. reflexivity.
Qed.

Lemma sv_py_join_strs : forall l,
  py_join (VStr []) (VList (map VStr l)) = Ok (VStr (concat l)).
Proof.
  intros l. unfold py_join. simpl. rewrite sv_strs_of_map. simpl.
  rewrite sv_join_nil. reflexivity.
Qed.

(* a comprehension without filter whose body is a partial function to strings *)
Lemma sv_comp_mapM {A} (enc : A -> pv) (f : A -> res str) (body : pv -> res (list pv)) :
  (forall x, body (enc x) = match f x with Ok s => Ok [VStr s] | Err e => Err e end) ->
  forall l, comp_go always body (map enc l)
            = match mapM f l with Ok ss => Ok (map VStr ss) | Err e => Err e end.
Proof.
  intros Hb. induction l as [|x l IH]; [reflexivity|].
  simpl. rewrite Hb. destruct (f x) as [s|e]; simpl; [|reflexivity].
  rewrite IH. destruct (mapM f l) as [ss|e]; reflexivity.
Qed.

Lemma sv_mapM_ok {A B} (g : A -> B) : forall l, mapM (fun x => Ok (g x)) l = Ok (map g l).
Proof. induction l as [|x l IH]; simpl; [reflexivity|]. rewrite IH. reflexivity. Qed.

Lemma sv_mapM_post {A B C} (f : A -> res B) (g : B -> C) : forall l,
  mapM (fun x => y <- f x ;; Ok (g y)) l = (ys <- mapM f l ;; Ok (map g ys)).
Proof.
  induction l as [|x l IH]; simpl; [reflexivity|].
  destruct (f x) as [y|e]; simpl; [|reflexivity].
  rewrite IH. destruct (mapM f l); reflexivity.
Qed.

(* ---------- html_open / html_close ---------- *)
Theorem src_html_open : forall st,
  S_html_open (VList (map VStr st)) = Ok (VStr (html_open st)).
Proof.
  intros st. unfold S_html_open, py_comp. simpl py_iter. cbv beta iota delta [bind].
  rewrite (sv_comp_mapM VStr (fun x => Ok (60%N :: x ++ [62%N]))).
  2:{ intros x. reflexivity. }
  rewrite sv_mapM_ok. cbv beta iota delta [binde]. rewrite sv_py_join_strs. reflexivity.
Qed.

Lemma sv_html_close_body : forall x,
  (t4 <- py_split_ws (VStr x) ;; t5 <- py_index t4 (VInt 0) ;; t6 <- py_str t5 ;;
   t7 <- py_add (VStr [60;47]%N) t6 ;; t8 <- py_add t7 (VStr [62]%N) ;; Ok [t8])
  = match first_word x with Ok s => Ok [VStr (60 :: 47 :: s ++ [62])%N] | Err e => Err e end.
Proof.
  intros x. unfold first_word. simpl. destruct (words x) as [|w ws]; reflexivity.
Qed.

Theorem src_html_close : forall st,
  S_html_close (VList (map VStr st)) = lift_str (html_close st).
Proof.
  intros st. unfold S_html_close, py_comp, html_close. simpl py_reversed.
  rewrite <- map_rev. cbv beta iota delta [bind]. simpl py_iter. cbv beta iota.
  rewrite (sv_comp_mapM VStr (fun x => w <- first_word x ;; Ok (60 :: 47 :: w ++ [62])%N)).
  2:{ intros x. unfold first_word. simpl. destruct (words x) as [|w ws]; reflexivity. }
  rewrite sv_mapM_post.
  destruct (mapM first_word (rev st)) as [ws|e]; cbv beta iota delta [bind binde]; [|reflexivity].
  rewrite sv_py_join_strs. reflexivity.
Qed.

(* ---------- Run.__str__ ---------- *)
Lemma sv_render_app html a b : render html (a ++ b) = render html a ++ render html b.
Proof. unfold render. rewrite map_app, concat_app. reflexivity. Qed.

Lemma sv_render_open html st : render html (map TOpen st) = html_open st.
Proof.
  unfold render, html_open. rewrite map_map. reflexivity.
Qed.

Lemma sv_render_close html ws :
  render html (map TClose ws) = concat (map (fun w => 60 :: 47 :: w ++ [62])%N ws).
Proof. unfold render. rewrite map_map. reflexivity. Qed.

Lemma sv_escape_chr_nonempty c : escape_chr c <> [].
Proof.
  unfold escape_chr.
  destruct (c =? 38)%N; [discriminate|].
  destruct (c =? 60)%N; [discriminate|].
  destruct (c =? 62)%N; discriminate.
Qed.

Lemma sv_render_tok_nonempty html t : render_tok html t <> [].
Proof.
  destruct t as [c|c|s|s]; simpl; try discriminate.
  destruct html; [apply sv_escape_chr_nonempty|discriminate].
Qed.

Lemma sv_nonempty_render html ts : nonempty (render html ts) = nonempty ts.
Proof.
  destruct ts as [|t ts]; [reflexivity|].
  unfold render. simpl.
  pose proof (sv_render_tok_nonempty html t) as H.
  destruct (render_tok html t); [congruence|reflexivity].
Qed.

Lemma sv_truth_str s : py_truth (VStr s) = nonempty s.
Proof. reflexivity. Qed.

Lemma sv_close_toks st :
  close_toks st = (ws <- mapM first_word (rev st) ;; Ok (map TClose ws)).
Proof. reflexivity. Qed.

Theorem src_run_str : forall html r,
  S_Run__str_ (enc_run html r) = lift_str (ts <- run_toks r ;; Ok (render html ts)).
Proof.
  intros html [st ts]. unfold S_Run__str_, enc_run, run_toks. simpl r_style. simpl r_toks.
  change (py_attr (VObj k_Run [(k_html_style, VList (map VStr st)); (k_text, VStr (render html ts))])
            [116;101;120;116]%N) with (Ok (VStr (render html ts))).
  change (py_attr (VObj k_Run [(k_html_style, VList (map VStr st)); (k_text, VStr (render html ts))])
            [104;116;109;108;95;115;116;121;108;101]%N) with (Ok (VList (map VStr st))).
  cbv beta iota delta [binde].
  rewrite sv_truth_str, sv_nonempty_render.
  destruct ts as [|t ts]; [reflexivity|].
  cbv beta iota delta [nonempty].
  rewrite src_html_open, src_html_close. cbv beta iota.
  unfold html_close, close_toks.
  destruct (mapM first_word (rev st)) as [ws|e]; simpl bind; [|reflexivity].
  simpl lift_str. simpl py_add. cbv beta iota. unfold fn_result, lift_str.
  change (t :: ts ++ map TClose ws) with ((t :: ts) ++ map TClose ws).
  rewrite !sv_render_app, sv_render_open, sv_render_close. simpl py_add.
  rewrite <- app_assoc. reflexivity.
Qed.

(* ---------- Par.run_strings ---------- *)
Lemma sv_filter_truth : forall ss,
  comp_go (fun x => Ok x) (fun x => Ok [x]) (map VStr ss) = Ok (map VStr (filter nonempty ss)).
Proof.
  induction ss as [|s ss IH]; [reflexivity|].
  simpl. rewrite IH. destruct s; reflexivity.
Qed.

Lemma sv_filter_render html : forall rs,
  filter nonempty (map (render html) rs) = map (render html) (filter nonempty rs).
Proof.
  induction rs as [|x rs IH]; [reflexivity|].
  simpl. rewrite sv_nonempty_render. destruct (nonempty x); simpl; rewrite IH; reflexivity.
Qed.

Lemma sv_S_str_run html r : S_str (enc_run html r) = S_Run__str_ (enc_run html r).
Proof. reflexivity. Qed.

Theorem src_par_run_strings : forall html p,
  S_Par_run_strings (enc_par html p) = lift_strs (par_run_strings html p).
Proof.
  intros html p. unfold S_Par_run_strings, enc_par, par_run_strings, par_run_toks.
  set (hs := p_hstyle p). set (runs := p_runs p).
  change (py_attr (VObj k_Par [(k_html_style, VList (map VStr hs)); (k_runs, VList (map (enc_run html) runs))])
            [114;117;110;115]%N) with (Ok (VList (map (enc_run html) runs))).
  change (py_attr (VObj k_Par [(k_html_style, VList (map VStr hs)); (k_runs, VList (map (enc_run html) runs))])
            [104;116;109;108;95;115;116;121;108;101]%N) with (Ok (VList (map VStr hs))).
  unfold py_comp. cbv beta iota delta [bind].
  change (py_iter (VList (map (enc_run html) runs))) with (Ok (map (enc_run html) runs)).
  cbv beta iota.
  rewrite (sv_comp_mapM (enc_run html) (fun r => ts <- run_toks r ;; Ok (render html ts))).
  2:{ intros r. rewrite sv_S_str_run, src_run_str.
      destruct (ts <- run_toks r ;; Ok (render html ts)); reflexivity. }
  rewrite sv_mapM_post.
  destruct (mapM run_toks runs) as [rs|e]; [|reflexivity].
  cbv beta iota delta [bind].
  change (py_iter (VList (map VStr (map (render html) rs)))) with (Ok (map VStr (map (render html) rs))).
  cbv beta iota.
  rewrite sv_filter_truth, sv_filter_render.
  cbv beta iota delta [binde].
  destruct hs as [|h hs']; [reflexivity|].
  set (hh := h :: hs').
  change (py_truth (VList (map VStr hh))) with true. cbv iota.
  rewrite src_html_open, src_html_close. cbv beta iota. simpl py_star. cbv beta iota.
  unfold html_close, close_toks.
  destruct (mapM first_word (rev hh)) as [ws|e]; simpl bind; [|reflexivity].
  simpl lift_str. cbv beta iota. unfold fn_result, lift_strs.
  change (map TOpen hh :: filter nonempty rs ++ [map TClose ws])
    with ([map TOpen hh] ++ filter nonempty rs ++ [map TClose ws]).
  rewrite !map_app. cbn [map].
  rewrite sv_render_open, sv_render_close. reflexivity.
Qed.

(* ---------- the nested loops of get_par_strings / _join_runs ---------- *)
(* the rightmost spine of the accumulator: [sv_plug [p1;..;pk] x] = p1 ++ [p2 ++ [.. pk ++ [x]]] *)
Fixpoint sv_plug (ps : list (list pv)) (x : pv) : pv :=
  match ps with
  | [] => x
  | p :: r => VList (p ++ [sv_plug r x])
  end.

Definition sv_app_at (k : nat) (acc v : pv) : res pv :=
  py_update_path acc (repeat (VInt (-1)%Z) k) (fun c => py_append c v).

Lemma sv_norm_last : forall (p : list pv) c,
  norm_index (length (p ++ [c])) (-1)%Z = Some (length p).
Proof.
  intros p c. unfold norm_index. rewrite app_length. simpl length.
  change (0 <=? -1)%Z with false. cbv iota.
  replace (Z.of_nat (length p + 1) + -1)%Z with (Z.of_nat (length p)) by lia.
  destruct (Z.leb_spec 0 (Z.of_nat (length p))); [|lia].
  rewrite Nat2Z.id. reflexivity.
Qed.

Lemma sv_nth_last {A} : forall (p : list A) c, nth_error (p ++ [c]) (length p) = Some c.
Proof. induction p as [|x p IH]; intros c; simpl; [reflexivity|apply IH]. Qed.

Lemma sv_set_last {A} : forall (p : list A) c v, list_set (p ++ [c]) (length p) v = Some (p ++ [v]).
Proof.
  induction p as [|x p IH]; intros c v; simpl; [reflexivity|]. rewrite IH. reflexivity.
Qed.

Lemma sv_index_last p c : py_index (VList (p ++ [c])) (VInt (-1)%Z) = Ok c.
Proof.
  unfold py_index. cbv beta iota delta [int_like]. rewrite sv_norm_last, sv_nth_last. reflexivity.
Qed.

Lemma sv_setitem_last p c v : py_setitem (VList (p ++ [c])) (VInt (-1)%Z) v = Ok (VList (p ++ [v])).
Proof.
  unfold py_setitem. cbv beta iota delta [int_like]. rewrite sv_norm_last, sv_set_last. reflexivity.
Qed.

Lemma sv_app_at_plug : forall ps k l v, length ps = k ->
  sv_app_at k (sv_plug ps (VList l)) v = Ok (sv_plug ps (VList (l ++ [v]))).
Proof.
  induction ps as [|p ps IH]; intros k l v Hk; subst k.
  - reflexivity.
  - unfold sv_app_at. simpl length. simpl repeat. simpl sv_plug.
    cbn [py_update_path]. rewrite sv_index_last. cbv beta iota delta [bind].
    fold (sv_app_at (length ps) (sv_plug ps (VList l)) v).
    rewrite (IH (length ps) l v eq_refl). rewrite sv_setitem_last. reflexivity.
Qed.

Lemma sv_plug_snoc : forall ps p x, sv_plug (ps ++ [p]) x = sv_plug ps (VList (p ++ [x])).
Proof. induction ps as [|q ps IH]; intros p x; simpl; [reflexivity|]. rewrite IH. reflexivity. Qed.

Lemma sv_py_for_list {S} (l : list pv) (body : pv -> S -> out S) (s : S) :
  py_for (VList l) body s = for_go body l s.
Proof. reflexivity. Qed.

Lemma sv_gps_level_RL {A B} (f : rose A -> res (rose B)) l :
  gps_level f (RL l) = (xs <- mapM f l ;; Ok (RL xs)).
Proof. reflexivity. Qed.

Section SvLoops.
  Context {A B : Type}.
  Variable encA : A -> pv.
  Variable encB : B -> pv.

  (* the body of a loop at depth k appends (the encoding of) [g x] to the innermost list *)
  Definition sv_spec (k : nat) (body : pv -> pv -> out pv) (P : rose A -> Prop)
             (g : rose A -> res (rose B)) : Prop :=
    forall x ps cur, P x -> length ps = k ->
      body (enc_rose encA x) (sv_plug ps (VList cur))
      = match g x with
        | Ok y => Nx (sv_plug ps (VList (cur ++ [enc_rose encB y])))
        | Err e => Ex e
        end.

  Lemma sv_for_spec k body P g : sv_spec k body P g ->
    forall l, Forall P l -> forall ps cur, length ps = k ->
      for_go body (map (enc_rose encA) l) (sv_plug ps (VList cur))
      = match mapM g l with
        | Ok ys => Nx (sv_plug ps (VList (cur ++ map (enc_rose encB) ys)))
        | Err e => Ex e
        end.
  Proof.
    intros Hs l Hl. induction Hl as [|x l Hx Hl IH]; intros ps cur Hk.
    - simpl. rewrite app_nil_r. reflexivity.
    - simpl. rewrite (Hs x ps cur Hx Hk).
      destruct (g x) as [y|e]; simpl; [|reflexivity].
      rewrite (IH ps _ Hk).
      destruct (mapM g l) as [ys|e]; simpl; [|reflexivity].
      rewrite <- app_assoc. reflexivity.
  Qed.

  (* one more list level around a loop body *)
  Lemma sv_level_spec k d body g :
    sv_spec (S k) body (deep d) g ->
    sv_spec k (fun x acc =>
                 acc1 <~ sv_app_at k acc (VList []) ;;;
                 acc2 <~~ py_for x body acc1 ;;;
                 Nx acc2)
            (deep (S d)) (gps_level g).
  Proof.
    intros Hs x ps cur Hx Hk.
    apply deep_S_inv in Hx. destruct Hx as [l [-> Hl]].
    rewrite (sv_app_at_plug ps k cur (VList []) Hk). cbv beta iota delta [binde].
    rewrite <- sv_plug_snoc.
    unfold py_for. simpl enc_rose. simpl py_iter. cbv beta iota delta [binde].
    rewrite (sv_for_spec (S k) body (deep d) g Hs l Hl (ps ++ [cur]) []).
    2:{ rewrite app_length. simpl. lia. }
    simpl gps_level.
    destruct (mapM g l) as [ys|e]; simpl; [|reflexivity].
    rewrite sv_plug_snoc. reflexivity.
  Qed.

  (* the whole function: four levels around a leaf body *)
  Lemma sv_four_levels d body g :
    sv_spec 3 body (deep d) g ->
    forall t, deep (S (S (S (S d)))) t ->
    fn_result (S:=unit)
      (acc <~~ py_for (enc_rose encA t) (fun x1 acc =>
          acc <~ sv_app_at 0 acc (VList []) ;;;
          acc <~~ py_for x1 (fun x2 acc =>
              acc <~ sv_app_at 1 acc (VList []) ;;;
              acc <~~ py_for x2 (fun x3 acc =>
                  acc <~ sv_app_at 2 acc (VList []) ;;;
                  acc <~~ py_for x3 body acc ;;;
                  Nx acc) acc ;;;
              Nx acc) acc ;;;
          Nx acc) (VList []) ;;;
       Rt acc)
    = lift_rose encB (gps_level (gps_level (gps_level (gps_level g))) t).
  Proof.
    intros Hs t Ht.
    pose proof (sv_level_spec 2 d _ _ Hs) as H2.
    pose proof (sv_level_spec 1 (S d) _ _ H2) as H1.
    pose proof (sv_level_spec 0 (S (S d)) _ _ H1) as H0.
    apply deep_S_inv in Ht. destruct Ht as [l [-> Hl]].
    pose proof (sv_for_spec 0 _ _ _ H0 l Hl [] [] eq_refl) as HH.
    cbn [sv_plug app] in HH.
    cbn [enc_rose]. rewrite sv_py_for_list. rewrite HH.
    rewrite sv_gps_level_RL.
    destruct (mapM (gps_level (gps_level (gps_level g))) l) as [ys|e]; reflexivity.
  Qed.
End SvLoops.

(* the three views; [deep d t]: exactly d levels of lists above the leaves (C01) *)
Theorem src_get_par_strings : forall html t,
  deep 4 t ->
  S_get_par_strings (enc_rose (enc_par html) t) = lift_rose VStr (get_par_strings html t).
Proof.
  intros html t Ht. unfold get_par_strings.
  rewrite <- (sv_four_levels (enc_par html) VStr 0
     (fun t4 acc =>
        t5 <~ S_Par_run_strings t4 ;;;
        acc <~ sv_app_at 3 acc t5 ;;;
        Nx acc) (gps_par html)); [reflexivity| |exact Ht].
  intros x ps cur Hx Hk. apply deep_O_inv in Hx. destruct Hx as [p ->].
  simpl enc_rose. rewrite src_par_run_strings. simpl gps_par.
  destruct (par_run_strings html p) as [ss|e]; simpl; [|reflexivity].
  rewrite (sv_app_at_plug ps 3 cur _ Hk). simpl.
  rewrite map_map. reflexivity.
Qed.

Lemma sv_strs_of_leaves : forall l,
  strs_of (map (enc_rose VStr) l)
  = match mapM leaf_str l with Ok ss => Ok ss | Err e => Err e end.
Proof.
  induction l as [|x l IH]; [reflexivity|].
  destruct x as [l'|s]; simpl; [reflexivity|].
  rewrite IH. destruct (mapM leaf_str l); reflexivity.
Qed.

Theorem src_join_runs : forall t,
  deep 5 t ->
  S__join_runs (enc_rose VStr t) = lift_rose VStr (join_runs t).
Proof.
  intros t Ht. unfold join_runs.
  rewrite <- (sv_four_levels VStr VStr 1
     (fun t4 acc =>
        t5 <~ py_join (VStr []) t4 ;;;
        acc <~ sv_app_at 3 acc t5 ;;;
        Nx acc) jr_par); [reflexivity| |].
  - intros x ps cur Hx Hk. apply deep_S_inv in Hx. destruct Hx as [l [-> _]].
    simpl enc_rose. unfold py_join. simpl py_iter. cbv beta iota delta [bind].
    rewrite sv_strs_of_leaves. simpl jr_par.
    destruct (mapM leaf_str l) as [ss|e]; simpl; [|reflexivity].
    rewrite (sv_app_at_plug ps 3 cur _ Hk). simpl.
    rewrite sv_join_nil. reflexivity.
  - (* deep 5 = four list levels above [deep 1] paragraphs *)
    exact Ht.
Qed.
