(* PkgShape.v — C01 at package level: every public attribute has the stated
   nesting depth, and the three forms of one attribute have the same shape *)
From Coq Require Import List NArith Bool Arith Lia.
From D2P Require Import Str Err Xml TableTypes Tables Fmt Bullets Merge Collector Walk Iter
     Output Paths Package Content ShapeFacts ViewFacts.
Import ListNotations.
Open Scope nat_scope.

Lemma mapM_Forall {A B} (f : A -> res B) (Q : B -> Prop) :
  (forall a b, f a = Ok b -> Q b) -> forall l r, mapM f l = Ok r -> Forall Q r.
Proof.
  intros Hf l r H. pose proof (proj1 (mapM_Forall2 f l r) H) as F2.
  clear H. induction F2 as [|a b l r Hab _ IH]; [constructor|]. constructor; [eapply Hf; exact Hab|exact IH].
Qed.

Lemma Forall_concat {A} (Q : A -> Prop) : forall ll, Forall (Forall Q) ll -> Forall Q (concat ll).
Proof.
  induction ll as [|l ll IH]; intro H; cbn [concat]; [constructor|].
  inversion H as [|? ? Hl Hll]; subst. apply Forall_app. split; [exact Hl|apply IH; exact Hll].
Qed.

(* one content part: its top-level items are 3 levels of lists above records *)
Lemma part_items_deep : forall a fs o f s,
  part_collector a fs o f = Ok s ->
  Forall (deep 3) (map rose_of_node (unrev_list (c_tree s))).
Proof.
  intros a fs o f s H. unfold part_collector in H.
  apply bind_inv in H. destruct H as [m [_ H]].
  apply bind_inv in H. destruct H as [v [_ H]].
  pose proof (collect_unrev_shape v [] m s H) as T.
  pose proof (pars_view_deep s T) as D. unfold pars_view in D.
  apply deep_RL in D. exact D.
Qed.

Theorem pars_of_deep : forall a o ty p, pars_of a o ty = Ok p -> deep 4 p.
Proof.
  intros a o ty p H. unfold pars_of in H.
  apply bind_inv in H. destruct H as [l [Hl H]]. injection H as <-.
  apply deep_RL. unfold get_pars in Hl.
  apply bind_inv in Hl. destruct Hl as [fs [_ Hl]].
  apply bind_inv in Hl. destruct Hl as [xs [Hxs Hl]]. injection Hl as <-.
  apply Forall_concat.
  refine (mapM_Forall _ (Forall (deep 3)) _ _ _ Hxs).
  intros f b Hb. apply bind_inv in Hb. destruct Hb as [s [Hs Hb]]. injection Hb as <-.
  eapply part_items_deep. exact Hs.
Qed.

Theorem runs_of_deep : forall a o ty r, runs_of a o ty = Ok r -> deep 5 r.
Proof.
  intros a o ty r H. unfold runs_of in H.
  apply bind_inv in H. destruct H as [p [Hp H]].
  eapply gps_deep; [eapply pars_of_deep; exact Hp|exact H].
Qed.

Theorem plain_of_deep : forall a o ty t, plain_of a o ty = Ok t -> deep 4 t.
Proof.
  intros a o ty t H. unfold plain_of in H.
  apply bind_inv in H. destruct H as [r [Hr H]].
  eapply join_runs_deep; [eapply runs_of_deep; exact Hr|exact H].
Qed.

(* the three forms of one attribute: an index address valid in one is valid in
   the others (equal list lengths at every address above the paragraphs) *)
Definition rlen' {A} (x : rose A) : nat := match x with RL l => length l | RA _ => 0 end.

Theorem attribute_forms_same_shape : forall a o ty p r t,
  pars_of a o ty = Ok p -> runs_of a o ty = Ok r -> plain_of a o ty = Ok t ->
  forall addr, length addr < 4 ->
    option_map rlen' (index p addr) = option_map rlen' (index r addr)
    /\ option_map rlen' (index r addr) = option_map rlen' (index t addr).
Proof.
  intros a o ty p r t Hp Hr Ht addr L.
  unfold runs_of in Hr. rewrite Hp in Hr. cbn [bind] in Hr.
  unfold plain_of, runs_of in Ht. rewrite Hp in Ht. cbn [bind] in Ht. rewrite Hr in Ht. cbn [bind] in Ht.
  pose proof (pars_of_deep a o ty p Hp) as Dp.
  pose proof (gps_deep _ _ _ Dp Hr) as Dr.
  split.
  - exact (gps_same_shape (o_html o) p r Dp Hr addr L).
  - exact (join_runs_same_shape r t Dr Ht addr L).
Qed.

(* document, document_runs, document_pars *)
Lemma app_rose_deep {A} d (x y z : rose A) :
  deep (S d) x -> deep (S d) y -> app_rose x y = Ok z -> deep (S d) z.
Proof.
  intros Hx Hy H. destruct x as [l1|?]; [|destruct Hx]. destruct y as [l2|?]; [|destruct Hy].
  cbn in H. injection H as <-. apply deep_RL. apply Forall_app.
  split; apply deep_RL; assumption.
Qed.

Lemma document_of_deep {A} d (attr : str -> res (rose A)) :
  (forall ty x, attr ty = Ok x -> deep (S d) x) ->
  forall z, document_of attr = Ok z -> deep (S d) z.
Proof.
  intros Hattr z H. unfold document_of in H.
  assert (G : forall l acc z, deep (S d) acc ->
              foldM (fun acc ty => x <- attr ty ;; app_rose acc x) l acc = Ok z -> deep (S d) z).
  { induction l as [|ty l IH]; intros acc z0 Hacc H0; cbn [foldM] in H0.
    - injection H0 as <-. exact Hacc.
    - apply bind_inv in H0. destruct H0 as [acc' [Hstep H0]].
      apply bind_inv in Hstep. destruct Hstep as [x [Hx Hstep]].
      eapply IH; [|exact H0]. eapply app_rose_deep; [exact Hacc|eapply Hattr; exact Hx|exact Hstep]. }
  eapply G; [|exact H]. apply deep_RL. constructor.
Qed.

Theorem document_pars_deep : forall a o z, document_pars a o = Ok z -> deep 4 z.
Proof. intros a o. apply document_of_deep. intros ty x. apply pars_of_deep. Qed.
Theorem document_runs_deep : forall a o z, document_runs a o = Ok z -> deep 5 z.
Proof. intros a o. apply document_of_deep. intros ty x. apply runs_of_deep. Qed.
Theorem document_deep : forall a o z, document a o = Ok z -> deep 4 z.
Proof. intros a o. apply document_of_deep. intros ty x. apply plain_of_deep. Qed.

Print Assumptions pars_of_deep.
Print Assumptions runs_of_deep.
Print Assumptions plain_of_deep.
Print Assumptions attribute_forms_same_shape.
Print Assumptions document_pars_deep.
Print Assumptions document_runs_deep.
Print Assumptions document_deep.
