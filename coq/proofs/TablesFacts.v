(* TablesFacts.v — facts about the tables regenerated from /repo's source on
   every run (gen/Tables.v).  They are what ties the hand-written handlers of
   model/Walk.v and the merge model to the source's own declarations: a change
   of a table that keeps these facts true is accepted silently, one that breaks
   a fact breaks a named lemma. *)
From Coq Require Import List NArith Bool.
From D2P Require Import Str Err Xml TableTypes Tables Fmt Merge Collector Walk.
Import ListNotations.
Import String.StringSyntax.
Open Scope N_scope.
Delimit Scope string_scope with string.

(* the handlers modelled in Walk.open_tag / close_tag are exactly the
   _open_* / _close_* methods TagRunner defines *)
Lemma open_handlers_match_source : sort_strs modelled_open_methods = sort_strs open_methods.
Proof. vm_compute. reflexivity. Qed.
Lemma close_handlers_match_source : sort_strs modelled_close_methods = sort_strs close_methods.
Proof. vm_compute. reflexivity. Qed.

(* every tag constant used by the model is a member of the Tags enum, and the
   enum has no duplicate values *)
Lemma tags_distinct :
  forallb (fun s => Nat.eqb (length (filter (str_eqb s) (map snd tags_table))) 1) (map snd tags_table) = true.
Proof. vm_compute. reflexivity. Qed.

(* property elements are not content; everything mergeable is content; text
   tags are mergeable *)
Lemma properties_are_not_content :
  mem_str tag_RUN_PROPERTIES content_tags = false /\ mem_str tag_PAR_PROPERTIES content_tags = false
  /\ mem_str tag_SDT_PROPERTIES content_tags = false.
Proof. vm_compute. repeat split. Qed.
Lemma mergeable_are_content : forallb (fun t => mem_str t content_tags) mergeable_tags = true.
Proof. vm_compute. reflexivity. Qed.
Lemma text_tags_are_mergeable : forallb (fun t => mem_str t mergeable_tags) text_tags = true.
Proof. vm_compute. reflexivity. Qed.
Lemma mergeable_is_run_link_text :
  sort_strs mergeable_tags = sort_strs [tag_RUN; tag_HYPERLINK; tag_TEXT; tag_TEXT_MATH].
Proof. vm_compute. reflexivity. Qed.
Lemma blocks_are_never_merged :
  mem_str tag_PARAGRAPH mergeable_tags = false /\ mem_str tag_TABLE mergeable_tags = false
  /\ mem_str tag_TABLE_ROW mergeable_tags = false /\ mem_str tag_TABLE_CELL mergeable_tags = false.
Proof. vm_compute. repeat split. Qed.

(* elements that never take a depth *)
Lemma depth_none_is_document_body : sort_strs depth_none_tags = sort_strs [tag_DOCUMENT; tag_BODY].
Proof. vm_compute. reflexivity. Qed.

(* which parts are content parts, and which parts save() rewrites *)
Lemma content_types_spec :
  sort_strs content_file_types
  = sort_strs (map s2l ["officeDocument"; "header"; "footer"; "footnotes"; "endnotes"]%string).
Proof. vm_compute. reflexivity. Qed.
Lemma save_rewrites_content_and_rels :
  sort_strs save_overwrite_types = sort_strs (s2l "relationships"%string :: content_file_types).
Proof. vm_compute. reflexivity. Qed.

(* formatter table: keys are non-empty, containers come with a property *)
Lemma xml2html_keys_nonempty : forallb (fun kv => match fst kv with [] => false | _ => true end) xml2html_table = true.
Proof. vm_compute. reflexivity. Qed.
Lemma xml2html_container_property :
  forallb (fun kv => match hf_container (snd kv), hf_property (snd kv) with
                     | None, None | Some _, Some _ => true | _, _ => false end) xml2html_table = true.
Proof. vm_compute. reflexivity. Qed.

(* check-box values: the ST_OnOff spellings *)
Lemma checkbox_spellings :
  map fst checkbox_table = map s2l ["0"; "false"; "1"; "true"; "on"; "off"]%string
  \/ sort_strs (map fst checkbox_table) = sort_strs (map s2l ["0"; "false"; "1"; "true"; "on"; "off"]%string).
Proof. right. vm_compute. reflexivity. Qed.

(* numbering formats: the six supported names *)
Lemma numfmt_names :
  sort_strs (map fst numfmt_table)
  = sort_strs (map s2l ["decimal"; "lowerLetter"; "upperLetter"; "lowerRoman"; "upperRoman"; "bullet"]%string).
Proof. vm_compute. reflexivity. Qed.

Print Assumptions open_handlers_match_source.
Print Assumptions close_handlers_match_source.
Print Assumptions properties_are_not_content.
Print Assumptions mergeable_is_run_link_text.
Print Assumptions content_types_spec.
Print Assumptions save_rewrites_content_and_rels.
