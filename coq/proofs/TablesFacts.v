(* TablesFacts.v — facts about the tables regenerated from /repo's source on
   every run (gen/Tables.v).  They are what ties the hand-written handlers of
   model/Walk.v and the merge model to the source's own declarations: a change
   of a table that keeps these facts true is accepted silently, one that breaks
   a fact breaks a named lemma. *)
From Coq Require Import List NArith Bool.
From D2P Require Import Str Err Xml TableTypes Tables Fmt Merge Collector Walk.
Import ListNotations.
Import String.StringSyntax.
Open Scope N_scope.
Delimit Scope string_scope with string.

(* the handlers modelled in Walk.open_tag / close_tag are exactly the
   _open_* / _close_* methods TagRunner defines *)
Lemma open_handlers_match_source : sort_strs modelled_open_methods = sort_strs open_methods.
Proof. vm_compute. reflexivity. Qed.
Lemma close_handlers_match_source : sort_strs modelled_close_methods = sort_strs close_methods.
Proof. vm_compute. reflexivity. Qed.

(* every tag constant used by the model is a member of the Tags enum, and the
   enum has no duplicate values *)
Lemma tags_distinct :
  forallb (fun s => Nat.eqb (length (filter (str_eqb s) (map snd tags_table))) 1) (map snd tags_table) = true.
Proof. vm_compute. reflexivity. Qed.

(* property elements are not content; everything mergeable is content; text
   tags are mergeable *)
Lemma properties_are_not_content :
  mem_str tag_RUN_PROPERTIES content_tags = false /\ mem_str tag_PAR_PROPERTIES content_tags = false
  /\ mem_str tag_SDT_PROPERTIES content_tags = false.
Proof. vm_compute. repeat split. Qed.
Lemma mergeable_are_content : forallb (fun t => mem_str t content_tags) mergeable_tags = true.
Proof. vm_compute. reflexivity. Qed.
Lemma text_tags_are_mergeable : forallb (fun t => mem_str t mergeable_tags) text_tags = true.
Proof. vm_compute. reflexivity. Qed.
Lemma mergeable_is_run_link_text :
  sort_strs mergeable_tags = sort_strs [tag_RUN; tag_HYPERLINK; tag_TEXT; tag_TEXT_MATH].
Proof. vm_compute. reflexivity. Qed.
Lemma blocks_are_never_merged :
  mem_str tag_PARAGRAPH mergeable_tags = false /\ mem_str tag_TABLE mergeable_tags = false
  /\ mem_str tag_TABLE_ROW mergeable_tags = false /\ mem_str tag_TABLE_CELL mergeable_tags = false.
Proof. vm_compute. repeat split. Qed.

(* elements that never take a depth *)
Lemma depth_none_is_document_body : sort_strs depth_none_tags = sort_strs [tag_DOCUMENT; tag_BODY].
Proof. vm_compute. reflexivity. Qed.

(* which parts are content parts, and which parts save() rewrites *)
Lemma content_types_spec :
  sort_strs content_file_types
  = sort_strs (map s2l ["officeDocument"; "header"; "footer"; "footnotes"; "endnotes"]%string).
Proof. vm_compute. reflexivity. Qed.
Lemma save_rewrites_content_and_rels :
  sort_strs save_overwrite_types = sort_strs (s2l "relationships"%string :: content_file_types).
Proof. vm_compute. reflexivity. Qed.

(* formatter table: keys are non-empty, containers come with a property *)
Lemma xml2html_keys_nonempty : forallb (fun kv => match fst kv with [] => false | _ => true end) xml2html_table = true.
Proof. vm_compute. reflexivity. Qed.
Lemma xml2html_container_property :
  forallb (fun kv => match hf_container (snd kv), hf_property (snd kv) with
                     | None, None | Some _, Some _ => true | _, _ => false end) xml2html_table = true.
Proof. vm_compute. reflexivity. Qed.

(* check-box values: the ST_OnOff spellings *)
Lemma checkbox_spellings :
  map fst checkbox_table = map s2l ["0"; "false"; "1"; "true"; "on"; "off"]%string
  \/ sort_strs (map fst checkbox_table) = sort_strs (map s2l ["0"; "false"; "1"; "true"; "on"; "off"]%string).
Proof. right. vm_compute. reflexivity. Qed.

(* numbering formats: the six supported names *)
Lemma numfmt_names :
  sort_strs (map fst numfmt_table)
  = sort_strs (map s2l ["decimal"; "lowerLetter"; "upperLetter"; "lowerRoman"; "upperRoman"; "bullet"]%string).
Proof. vm_compute. reflexivity. Qed.


(* ------------------------------------------------------------------ *)
(* the handlers of TagRunner, as read from the source on every run      *)
(* (gen/Tables.v handler_facts): return flag, collector calls, string   *)
(* literals, attribute names -- against what model/Walk.v was written   *)
(* from.  The literals are stated with the MODEL's constants.           *)
(* ------------------------------------------------------------------ *)
Definition S := s2l.
Definition w_ (a : str) : str := S "w:"%string ++ a.
Definition r_ (a : str) : str := S "r:"%string ++ a.
Definition lt (s : str) : str := 60 :: s.
Definition model_handler_facts
  : list ((str * str) * (option bool * (list str * (list str * list str)))) :=
  [ ((S "close", S "PARAGRAPH"), (None, ([S "tables.conclude_paragraph"], ([], []))));
    ((S "close", S "RUN"), (None, ([S "tables.conclude_run"], ([], []))));
    ((S "close", S "TABLE_CELL"),
       (None, ([S "tables.set_caret"; S "tables.set_caret"],
               ([s_vMerge; S "Not None"; s_continue; s_gridSpan], []))));
    ((S "open", S "BR"), (Some true, ([S "tables.add_code_into_open_run"], ([[10]], []))));
    ((S "open", S "COMMENT_RANGE_END"), (Some false, ([S "tables.end_comment_range"], ([], [w_ s_id]))));
    ((S "open", S "COMMENT_RANGE_START"), (Some false, ([S "tables.start_comment_range"], ([], [w_ s_id]))));
    ((S "open", S "ENDNOTE"),
       (Some true, ([S "tables.queue_run_for_next_paragraph"],
                    ([[]; s_separator; s_endnote; [41; 9]], [w_ s_type; w_ s_id]))));
    ((S "open", S "ENDNOTE_REFERENCE"),
       (Some true, ([S "tables.insert_text_as_new_run"], ([s_dashes ++ s_endnote; s_dashes], [w_ s_id]))));
    ((S "open", S "FOOTNOTE"),
       (Some true, ([S "tables.queue_run_for_next_paragraph"],
                    ([[]; s_separator; s_footnote; [41; 9]], [w_ s_type; w_ s_id]))));
    ((S "open", S "FOOTNOTE_REFERENCE"),
       (Some true, ([S "tables.insert_text_as_new_run"], ([s_dashes ++ s_footnote; s_dashes], [w_ s_id]))));
    ((S "open", S "FORM_CHECKBOX"), (Some true, ([S "tables.insert_text_as_new_run"], ([], []))));
    ((S "open", S "FORM_DDLIST"),
       (Some true, ([S "tables.insert_text_as_new_run"; S "tables.escape"], ([], []))));
    ((S "open", S "HYPERLINK"),
       (Some false, ([S "tables.insert_text_as_new_run"; S "tables.insert_text_as_new_run"],
                     ([[35]; lt s_a_href; [34; 62]; lt (47 :: s_a ++ [62])], [r_ s_id; w_ s_anchor]))));
    ((S "open", S "IMAGE"),
       (Some true, ([S "tables.insert_text_as_new_run"], ([s_dashes; s_dashes], [r_ s_embed]))));
    ((S "open", S "IMAGEDATA"),
       (Some true, ([S "tables.insert_text_as_new_run"], ([s_dashes; s_dashes], [r_ s_id]))));
    ((S "open", S "IMAGE_ALT"),
       (Some true, ([S "tables.escape"; S "tables.insert_text_as_new_run"], ([s_alt_prefix; [60]], [s_descr]))));
    ((S "open", S "MATH"),
       (Some false, ([S "tables.escape"; S "tables.insert_text_as_new_run"],
                     ([[]; lt (s_latex ++ [62]); lt (47 :: s_latex ++ [62])], []))));
    ((S "open", S "PARAGRAPH"),
       (Some true, ([S "tables.commence_paragraph"; S "bullets.get_bullet"; S "bullets.get_list_position";
                     S "tables.insert_text_as_new_run"], ([], []))));
    ((S "open", S "RUN"), (Some true, ([S "tables.commence_run"], ([], []))));
    ((S "open", S "SYM"),
       (Some true, ([S "tables.add_code_into_open_run"],
                    ([[]; lt s_span_font; [62; 38; 35; 120; 48]; 59 :: lt (47 :: s_span ++ [62])],
                     [w_ s_font; w_ s_char]))));
    ((S "open", S "TAB"), (Some true, ([S "tables.insert_text_as_new_run"], ([[9]], []))));
    ((S "open", S "TEXT"), (Some true, ([S "tables.add_text_into_open_run"], ([[]], []))));
    ((S "open", S "TEXT_MATH"), (Some true, ([S "tables.add_text_into_open_run"], ([[]], [])))) ]%string.

Fixpoint strs_eqb' (a b : list str) : bool :=
  match a, b with
  | [], [] => true
  | x :: a', y :: b' => str_eqb x y && strs_eqb' a' b'
  | _, _ => false
  end.
Definition obool_eqb (a b : option bool) : bool :=
  match a, b with
  | None, None => true
  | Some x, Some y => Bool.eqb x y
  | _, _ => false
  end.
Definition hrow_eqb (a b : (str * str) * (option bool * (list str * (list str * list str)))) : bool :=
  let '((k1, n1), (r1, (c1, (l1, a1)))) := a in
  let '((k2, n2), (r2, (c2, (l2, a2)))) := b in
  str_eqb k1 k2 && str_eqb n1 n2 && obool_eqb r1 r2 && strs_eqb' c1 c2 && strs_eqb' l1 l2 && strs_eqb' a1 a2.
Fixpoint rows_eqb (a b : list ((str * str) * (option bool * (list str * (list str * list str))))) : bool :=
  match a, b with
  | [], [] => true
  | x :: a', y :: b' => hrow_eqb x y && rows_eqb a' b'
  | _, _ => false
  end.

(* every handler of the source has the return flag, the collector calls, the
   string literals (markers!) and the attribute names the model was written from *)
Lemma handlers_match_model : rows_eqb handler_facts model_handler_facts = true.
Proof. vm_compute. reflexivity. Qed.

(* ... and the model's own open_tag really has those return flags: probe each
   handler on an element carrying every attribute a handler may require *)
Definition probe_einfo (tag : str) : einfo :=
  {| e_ptag := tag; e_uri := Some [85]; e_local := [120]; e_wuri := Some [85]; e_ruri := Some [82];
     e_attrs := [((Some [85], s_id), [49]); ((Some [82], s_id), [113]); ((Some [82], s_embed), [113]);
                 ((None, s_descr), [100]); ((Some [85], s_char), [70; 48; 52; 49]);
                 ((Some [85], s_font), [70])];
     e_text := Some [97]; e_tail := None |}.
Definition probe_env : env :=
  {| env_x2h := []; env_rels := [([113], [116])]; env_dup := true; env_numtbl := [] |}.
Definition probe_flag (tag : str) : option bool :=
  match open_tag probe_env [] (AE (probe_einfo tag) []) (probe_einfo tag) [] [] init_cst with
  | Ok (_, b) => Some b
  | Err _ => None
  end.
Definition tag_value (name : str) : str :=
  match find (fun kv => str_eqb (fst kv) name) tags_table with Some (_, v) => v | None => [] end.
Lemma recurse_flags_match_source :
  forallb (fun row => if str_eqb (fst (fst row)) (S "open"%string)
                      then obool_eqb (probe_flag (tag_value (snd (fst row)))) (fst (snd row))
                      else true) handler_facts = true.
Proof. vm_compute. reflexivity. Qed.

Print Assumptions handlers_match_model.
Print Assumptions recurse_flags_match_source.
Print Assumptions open_handlers_match_source.
Print Assumptions close_handlers_match_source.
Print Assumptions properties_are_not_content.
Print Assumptions mergeable_is_run_link_text.
Print Assumptions content_types_spec.
Print Assumptions save_rewrites_content_and_rels.
