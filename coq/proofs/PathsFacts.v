(* PathsFacts.v — facts about model/Paths.v (property C09: document parts
   are found through package relationships; member names are inferred with
   the pathlib / os.path fragment modelled in Paths.v). *)
From Coq Require Import List NArith Bool Arith Lia.
From Coq Require String.
From D2P Require Import Str Paths.
Import ListNotations.
Open Scope N_scope.
(* string literals for the concrete examples: "..."%string *)
Import String.StringSyntax.
Delimit Scope string_scope with string.

(* a path segment: non-empty, no '/', and not "." *)
Definition seg (s : str) : Prop := s <> [] /\ ~ In slash s /\ s <> [dot].
Definition segs (l : list str) : Prop := Forall seg l.
Definition pjoin (l : list str) : str := join [slash] l.

(* ------------------------------------------------------------------ *)
(* String equality (local copy, keeps this file independent)           *)
(* ------------------------------------------------------------------ *)

Lemma str_eqb_true_iff : forall a b, str_eqb a b = true <-> a = b.
Proof.
  induction a as [|x a IH]; destruct b as [|y b]; cbn [str_eqb]; split; intro H;
    try reflexivity; try discriminate.
  - apply andb_true_iff in H. destruct H as [H1 H2].
    apply N.eqb_eq in H1. apply IH in H2. subst. reflexivity.
  - injection H as H1 H2. subst. apply andb_true_iff. split.
    + apply N.eqb_refl.
    + apply IH. reflexivity.
Qed.

Lemma str_eqb_same : forall a, str_eqb a a = true.
Proof. intro a. apply str_eqb_true_iff. reflexivity. Qed.

(* ------------------------------------------------------------------ *)
(* pjoin                                                               *)
(* ------------------------------------------------------------------ *)

Lemma pjoin_nil : pjoin [] = [].
Proof. reflexivity. Qed.

Lemma pjoin_one : forall x, pjoin [x] = x.
Proof. reflexivity. Qed.

Lemma pjoin_cons2 : forall x y r, pjoin (x :: y :: r) = x ++ slash :: pjoin (y :: r).
Proof. reflexivity. Qed.

Lemma pjoin_cons : forall x r, r <> [] -> pjoin (x :: r) = x ++ slash :: pjoin r.
Proof. intros x [|y r] H; [congruence | reflexivity]. Qed.

(* join [slash] (a ++ b) = join [slash] a ++ slash :: join [slash] b *)
Lemma pjoin_app : forall a b, a <> [] -> b <> [] ->
  pjoin (a ++ b) = pjoin a ++ slash :: pjoin b.
Proof.
  induction a as [|x a IH]; intros b Ha Hb; [congruence|].
  destruct a as [|y a].
  - cbn [app]. rewrite pjoin_cons by assumption. reflexivity.
  - change ((x :: y :: a) ++ b) with (x :: ((y :: a) ++ b)).
    rewrite pjoin_cons by (cbn [app]; discriminate).
    rewrite IH by (discriminate || assumption).
    rewrite pjoin_cons2, <- app_assoc. reflexivity.
Qed.

Lemma pjoin_head : forall c x l, exists rest, pjoin ((c :: x) :: l) = c :: rest.
Proof.
  intros c x [|y l].
  - exists x. reflexivity.
  - eexists. rewrite pjoin_cons2. cbn [app]. reflexivity.
Qed.

(* ------------------------------------------------------------------ *)
(* segments                                                            *)
(* ------------------------------------------------------------------ *)

Lemma seg_noslash : forall s, seg s -> ~ In slash s.
Proof. intros s [_ [H _]]. exact H. Qed.

Lemma segs_noslash : forall l, segs l -> Forall (fun s => ~ In slash s) l.
Proof. intros l H. eapply Forall_impl; [|exact H]. exact seg_noslash. Qed.

Lemma segs_app : forall a b, segs a -> segs b -> segs (a ++ b).
Proof. intros a b Ha Hb. apply Forall_app. split; assumption. Qed.

Lemma segs_one : forall x, seg x -> segs [x].
Proof. intros x H. constructor; [exact H | constructor]. Qed.

Lemma seg_rels : seg s__rels.
Proof.
  unfold seg, s__rels, slash, dot. split; [discriminate|]. split; [|discriminate].
  cbn [In]. intros H.
  repeat (destruct H as [H|H]; [discriminate|]). exact H.
Qed.

Lemma seg_head : forall s, seg s -> exists c r, s = c :: r /\ c <> slash.
Proof.
  intros [|c r] [H1 [H2 _]]; [congruence|].
  exists c, r. split; [reflexivity|]. intro E. apply H2. left. exact E.
Qed.

Lemma is_real_part_seg : forall s, seg s -> is_real_part s = true.
Proof.
  intros s [H1 [_ H3]]. unfold dot in H3.
  destruct s as [|c [|c2 r]]; [congruence| |].
  - destruct c as [|p]; [reflexivity|].
    repeat (destruct p as [p|p|]; try reflexivity).
    congruence.
  - destruct c as [|p]; [reflexivity|].
    repeat (destruct p as [p|p|]; try reflexivity).
Qed.

Lemma filter_real_segs : forall l, segs l -> filter is_real_part l = l.
Proof.
  induction l as [|x l IH]; intro H; [reflexivity|].
  inversion H as [|? ? Hx Hl]; subst. cbn [filter].
  rewrite (is_real_part_seg _ Hx), (IH Hl). reflexivity.
Qed.

(* ------------------------------------------------------------------ *)
(* split_chr                                                           *)
(* ------------------------------------------------------------------ *)

Lemma split_chr_nonnil : forall c s, split_chr c s <> [].
Proof.
  intros c s. induction s as [|a s IH]; cbn [split_chr]; [discriminate|].
  destruct (N.eqb a c); [discriminate|].
  destruct (split_chr c s); discriminate.
Qed.

Lemma split_chr_app : forall c a b,
  split_chr c (a ++ c :: b) = split_chr c a ++ split_chr c b.
Proof.
  intros c a b. induction a as [|y a IH]; cbn [app split_chr].
  - rewrite N.eqb_refl. reflexivity.
  - destruct (N.eqb y c).
    + rewrite IH. reflexivity.
    + rewrite IH. pose proof (split_chr_nonnil c a) as Hn.
      destruct (split_chr c a); [congruence|]. reflexivity.
Qed.

Lemma split_chr_noc : forall c s, ~ In c s -> split_chr c s = [s].
Proof.
  intros c s. induction s as [|a s IH]; intro H; cbn [split_chr]; [reflexivity|].
  destruct (N.eqb_spec a c) as [E|E].
  - exfalso. apply H. left. exact E.
  - rewrite IH; [reflexivity|]. intro Hin. apply H. right. exact Hin.
Qed.

(* x without slash: split (x ++ '/' :: rest) = x :: split rest *)
Lemma split_chr_seg_app : forall x rest, ~ In slash x ->
  split_chr slash (x ++ slash :: rest) = x :: split_chr slash rest.
Proof.
  intros x rest H. rewrite split_chr_app, (split_chr_noc _ _ H). reflexivity.
Qed.

(* 1. round trip of splitting *)
Lemma split_join : forall l, l <> [] -> Forall (fun s => ~ In slash s) l ->
  split_chr slash (pjoin l) = l.
Proof.
  induction l as [|x l IH]; intros Hn Hf; [congruence|].
  inversion Hf as [|? ? Hx Hl]; subst.
  destruct l as [|y l].
  - rewrite pjoin_one. apply split_chr_noc. exact Hx.
  - rewrite pjoin_cons2, (split_chr_seg_app _ _ Hx). f_equal.
    apply IH; [discriminate | exact Hl].
Qed.

(* ------------------------------------------------------------------ *)
(* count_leading / lstrip                                              *)
(* ------------------------------------------------------------------ *)

Lemma count_leading_pjoin : forall l, segs l -> count_leading slash (pjoin l) = 0%nat.
Proof.
  intros [|x l] H; [reflexivity|].
  inversion H as [|? ? Hx Hl]; subst.
  destruct (seg_head _ Hx) as [c [r [E Hc]]]. subst x.
  destruct (pjoin_head c r l) as [rest Hr]. unfold str in *. rewrite Hr.
  cbn [count_leading]. apply N.eqb_neq in Hc. rewrite Hc. reflexivity.
Qed.

Lemma lstrip_keep : forall c rest, c <> slash -> c <> dot ->
  lstrip [slash; dot] (c :: rest) = c :: rest.
Proof.
  intros c rest H1 H2. cbn [lstrip mem_chr].
  apply N.eqb_neq in H1. apply N.eqb_neq in H2. rewrite H1, H2. reflexivity.
Qed.

Lemma lstrip_slash : forall s, lstrip [slash; dot] (slash :: s) = lstrip [slash; dot] s.
Proof. intro s. cbn [lstrip mem_chr]. rewrite N.eqb_refl. reflexivity. Qed.

Lemma pjoin_good_head : forall l, segs l -> l <> [] ->
  (forall d r, l = d :: r -> forall c r', d = c :: r' -> c <> dot) ->
  exists c rest, pjoin l = c :: rest /\ c <> slash /\ c <> dot.
Proof.
  intros [|x l] H Hn Hd; [congruence|].
  inversion H as [|? ? Hx Hl]; subst.
  destruct (seg_head _ Hx) as [c [r [E Hc]]]. subst x.
  destruct (pjoin_head c r l) as [rest Hr].
  exists c, rest. split; [exact Hr|]. split; [exact Hc|].
  eapply Hd; reflexivity.
Qed.

Lemma lstrip_pjoin : forall l, segs l -> l <> [] ->
  (forall d r, l = d :: r -> forall c r', d = c :: r' -> c <> dot) ->
  lstrip [slash; dot] (pjoin l) = pjoin l.
Proof.
  intros l H Hn Hd.
  destruct (pjoin_good_head l H Hn Hd) as [c [rest [E [H1 H2]]]].
  rewrite E. apply lstrip_keep; assumption.
Qed.

(* ------------------------------------------------------------------ *)
(* parse_path                                                          *)
(* ------------------------------------------------------------------ *)

Lemma parse_join : forall l, segs l ->
  parse_path (pjoin l) = {| pp_root := 0%nat; pp_parts := l |}.
Proof.
  intros l H. unfold parse_path. rewrite (count_leading_pjoin l H).
  destruct l as [|x l]; [reflexivity|].
  rewrite split_join; [| discriminate | apply segs_noslash; exact H].
  rewrite (filter_real_segs _ H). reflexivity.
Qed.

Lemma parse_abs_join : forall l, segs l -> l <> [] ->
  parse_path (slash :: pjoin l) = {| pp_root := 1%nat; pp_parts := l |}.
Proof.
  intros l H Hn. unfold parse_path. cbn [count_leading split_chr].
  rewrite N.eqb_refl, (count_leading_pjoin l H).
  rewrite split_join; [| exact Hn | apply segs_noslash; exact H].
  cbn [filter is_real_part]. rewrite (filter_real_segs _ H). reflexivity.
Qed.

Lemma as_posix_rel : forall ps, ps <> [] ->
  as_posix {| pp_root := 0%nat; pp_parts := ps |} = pjoin ps.
Proof. intros [|p ps] H; [congruence | reflexivity]. Qed.

Lemma as_posix_abs : forall ps,
  as_posix {| pp_root := 1%nat; pp_parts := ps |} = slash :: pjoin ps.
Proof. intros [|p ps]; reflexivity. Qed.

(* ------------------------------------------------------------------ *)
(* 2. directory of a relationships member                              *)
(* ------------------------------------------------------------------ *)

Lemma dir_of_rels_member : forall ds x, segs ds -> seg x ->
  dir_of_member (pjoin (ds ++ [s__rels; x])) = pjoin (ds ++ [s__rels]).
Proof.
  intros ds x Hds Hx. unfold dir_of_member.
  rewrite parse_join.
  2:{ apply segs_app; [exact Hds|]. constructor; [exact seg_rels | apply segs_one; exact Hx]. }
  unfold pp_parent. cbn [pp_root pp_parts].
  change (ds ++ [s__rels; x]) with (ds ++ [s__rels] ++ [x]).
  rewrite app_assoc, removelast_last.
  apply as_posix_rel. intro E. apply app_eq_nil in E. destruct E as [_ E]. discriminate.
Qed.

(* ------------------------------------------------------------------ *)
(* strs_prefix                                                         *)
(* ------------------------------------------------------------------ *)

Lemma strs_prefix_some : forall a b rest, strs_prefix a b = Some rest -> b = a ++ rest.
Proof.
  induction a as [|x a IH]; intros b rest H.
  - cbn in H. injection H as H. subst. reflexivity.
  - destruct b as [|y b]; cbn [strs_prefix] in H; [discriminate|].
    destruct (str_eqb x y) eqn:E; [|discriminate].
    apply str_eqb_true_iff in E. subst y. rewrite (IH _ _ H). reflexivity.
Qed.

Lemma strs_prefix_app : forall a rest, strs_prefix a (a ++ rest) = Some rest.
Proof.
  induction a as [|x a IH]; intro rest; [reflexivity|].
  cbn [app strs_prefix]. rewrite str_eqb_same. apply IH.
Qed.

(* ------------------------------------------------------------------ *)
(* file_path                                                           *)
(* ------------------------------------------------------------------ *)

Lemma parse_dir_rels : forall ds, segs ds ->
  pp_parent (parse_path (pjoin (ds ++ [s__rels]))) = {| pp_root := 0%nat; pp_parts := ds |}.
Proof.
  intros ds H. rewrite parse_join by (apply segs_app; [exact H | apply segs_one; exact seg_rels]).
  unfold pp_parent. cbn [pp_root pp_parts]. rewrite removelast_last. reflexivity.
Qed.

(* 3. relative targets *)
Lemma path_relative : forall ds ts, segs ds -> ds <> [] -> segs ts -> ts <> [] ->
  strs_prefix ds ts = None ->
  (forall d r, ds = d :: r -> forall c r', d = c :: r' -> c <> dot) ->
  file_path (pjoin (ds ++ [s__rels])) (pjoin ts) = pjoin (ds ++ ts).
Proof.
  intros ds ts Hds Hdn Hts Htn Hpre Hdot. unfold file_path.
  rewrite (parse_dir_rels ds Hds), (parse_join ts Hts).
  unfold pp_relative_to. cbn [pp_root pp_parts Nat.eqb]. rewrite Hpre.
  unfold pp_join. cbn [pp_root pp_parts].
  rewrite as_posix_rel.
  2:{ intro E. apply app_eq_nil in E. destruct E as [E _]. congruence. }
  apply lstrip_pjoin.
  - apply segs_app; assumption.
  - intro E. apply app_eq_nil in E. destruct E as [E _]. congruence.
  - intros d r E c r' Ed. destruct ds as [|d0 ds0]; [congruence|].
    cbn [app] in E. injection E as E1 E2. subst d0.
    eapply Hdot; [reflexivity | exact Ed].
Qed.

(* 4. package-absolute targets: any absolute target /a/b/c maps to a/b/c *)
Lemma path_absolute_any : forall dir ts, segs ts -> ts <> [] ->
  (forall d r, ts = d :: r -> forall c r', d = c :: r' -> c <> dot) ->
  file_path dir (slash :: pjoin ts) = pjoin ts.
Proof.
  intros dir ts Hts Htn Hdot. unfold file_path.
  rewrite (parse_abs_join ts Hts Htn).
  set (dir_ := pp_parent (parse_path dir)).
  assert (Hd : match pp_relative_to {| pp_root := 1%nat; pp_parts := ts |} dir_ with
               | Some rel => pp_join dir_ rel
               | None => pp_join dir_ {| pp_root := 1%nat; pp_parts := ts |}
               end = {| pp_root := 1%nat; pp_parts := ts |}).
  { unfold pp_relative_to. cbn [pp_root pp_parts].
    destruct (Nat.eqb 1 (pp_root dir_)) eqn:E; [|reflexivity].
    apply Nat.eqb_eq in E.
    destruct (strs_prefix (pp_parts dir_) ts) as [rest|] eqn:P; [|reflexivity].
    apply strs_prefix_some in P. unfold pp_join. cbn [pp_root pp_parts].
    rewrite <- E, <- P. reflexivity. }
  rewrite Hd, as_posix_abs, lstrip_slash.
  apply lstrip_pjoin; assumption.
Qed.

Lemma path_absolute : forall ds ts, segs ds -> ds <> [] -> segs ts ->
  (forall d r, ds ++ ts = d :: r -> forall c r', d = c :: r' -> c <> dot) ->
  file_path (pjoin (ds ++ [s__rels])) (slash :: pjoin (ds ++ ts)) = pjoin (ds ++ ts).
Proof.
  intros ds ts Hds Hdn Hts Hdot. apply path_absolute_any.
  - apply segs_app; assumption.
  - intro E. apply app_eq_nil in E. destruct E as [E _]. congruence.
  - exact Hdot.
Qed.

(* 5. root relationships (D empty): dir = "_rels" *)
Lemma path_from_root : forall ts, segs ts -> ts <> [] ->
  (forall d r, ts = d :: r -> forall c r', d = c :: r' -> c <> dot) ->
  file_path s__rels (pjoin ts) = pjoin ts.
Proof.
  intros ts Hts Htn Hdot. unfold file_path.
  assert (E : pp_parent (parse_path s__rels) = {| pp_root := 0%nat; pp_parts := [] |})
    by exact (parse_dir_rels [] (Forall_nil _)).
  rewrite E, (parse_join ts Hts).
  unfold pp_relative_to. cbn [pp_root pp_parts Nat.eqb strs_prefix].
  unfold pp_join. cbn [pp_root pp_parts app].
  rewrite (as_posix_rel ts Htn).
  apply lstrip_pjoin; assumption.
Qed.

(* 6. the two failure classes *)
Lemma path_samedir_refuted : exists dir target,
  file_path dir target <> pjoin [s2l "word"%string; s2l "word"%string; s2l "x.xml"%string]
  /\ dir = s2l "word/_rels"%string /\ target = s2l "word/x.xml"%string.
Proof.
  exists (s2l "word/_rels"%string), (s2l "word/x.xml"%string).
  split; [|split; reflexivity].
  vm_compute. discriminate.
Qed.

(* what it is resolved to instead *)
Lemma path_samedir_value :
  file_path (s2l "word/_rels"%string) (s2l "word/x.xml"%string) = s2l "word/x.xml"%string.
Proof. vm_compute. reflexivity. Qed.

Lemma path_dotdir_refuted :
  file_path (s2l ".hidden/_rels"%string) (s2l "x.xml"%string) = s2l "hidden/x.xml"%string.
Proof. vm_compute. reflexivity. Qed.

(* ------------------------------------------------------------------ *)
(* os.path.split                                                       *)
(* ------------------------------------------------------------------ *)

Lemma rsplit_slash_noslash : forall y acc, ~ In slash y ->
  rsplit_slash y acc = ([], rev y ++ acc).
Proof.
  induction y as [|c y IH]; intros acc H; [reflexivity|].
  cbn [rsplit_slash]. destruct (N.eqb_spec c slash) as [E|E].
  - exfalso. apply H. left. exact E.
  - rewrite IH by (intro Hin; apply H; right; exact Hin).
    cbn [rev]. rewrite <- app_assoc. reflexivity.
Qed.

Lemma rsplit_slash_app : forall y acc r, ~ In slash y ->
  rsplit_slash (y ++ slash :: r) acc = (rev (slash :: r), rev y ++ acc).
Proof.
  induction y as [|c y IH]; intros acc r H.
  - cbn [app rsplit_slash]. rewrite N.eqb_refl. reflexivity.
  - cbn [app rsplit_slash]. destruct (N.eqb_spec c slash) as [E|E].
    + exfalso. apply H. left. exact E.
    + rewrite IH by (intro Hin; apply H; right; exact Hin).
      cbn [rev]. rewrite <- app_assoc. reflexivity.
Qed.

Lemma in_rev_iff : forall (c : N) s, In c (rev s) <-> In c s.
Proof. intros c s. symmetry. apply in_rev. Qed.

(* the last character of a non-empty joined path is not '/' *)
Lemma pjoin_last_char : forall ds, segs ds -> ds <> [] ->
  exists z c, pjoin ds = z ++ [c] /\ c <> slash.
Proof.
  intros ds H Hn.
  destruct (exists_last Hn) as [ds' [y E]]. subst ds.
  apply Forall_app in H. destruct H as [_ Hy].
  inversion Hy as [|? ? Hy' _]; subst.
  destruct Hy' as [Hyn [Hys _]].
  destruct (exists_last Hyn) as [y' [c E]]. subst y.
  assert (Hc : c <> slash).
  { intro Ec. apply Hys. apply in_or_app. right. left. exact Ec. }
  destruct ds' as [|d ds'].
  - exists y', c. split; [reflexivity | exact Hc].
  - exists (pjoin (d :: ds') ++ slash :: y'), c. split; [|exact Hc].
    rewrite pjoin_app by discriminate. rewrite pjoin_one, <- app_assoc. reflexivity.
Qed.

Lemma os_path_split_join : forall ds (x : str), segs ds -> ds <> [] -> ~ In slash x ->
  os_path_split (pjoin (ds ++ [x])) = (pjoin ds, x).
Proof.
  intros ds x Hds Hn Hx. unfold os_path_split.
  rewrite pjoin_app by (assumption || discriminate). rewrite pjoin_one.
  rewrite rev_app_distr. cbn [rev]. rewrite <- app_assoc. cbn [app].
  rewrite rsplit_slash_app by (rewrite in_rev_iff; exact Hx).
  rewrite rev_involutive, app_nil_r. cbn [rev]. rewrite rev_involutive.
  rewrite (rev_involutive x). cbn [rstrip_slash_rev]. rewrite N.eqb_refl.
  destruct (pjoin_last_char ds Hds Hn) as [z [c [E Hc]]]. rewrite E.
  rewrite rev_app_distr. cbn [rev app rstrip_slash_rev].
  apply N.eqb_neq in Hc. rewrite Hc.
  replace (rev (c :: rev z)) with (z ++ [c])
    by (cbn [rev]; rewrite rev_involutive; reflexivity).
  destruct (z ++ [c]) eqn:Ez; [|reflexivity].
  apply app_eq_nil in Ez. destruct Ez as [_ Ez]. discriminate.
Qed.

Lemma os_path_split_root : forall x : str, ~ In slash x -> os_path_split x = ([], x).
Proof.
  intros x Hx. unfold os_path_split.
  rewrite rsplit_slash_noslash by (rewrite in_rev_iff; exact Hx).
  rewrite rev_involutive, app_nil_r. reflexivity.
Qed.

(* 7. a part's own relationships file *)
Lemma rels_path_spec : forall ds x, segs ds -> ds <> [] -> seg x ->
  rels_path (pjoin (ds ++ [x])) = pjoin (ds ++ [s__rels; x ++ s_dot_rels]).
Proof.
  intros ds x Hds Hn Hx. unfold rels_path.
  rewrite (os_path_split_join ds x Hds Hn (seg_noslash _ Hx)).
  rewrite pjoin_app by (assumption || discriminate). reflexivity.
Qed.

Lemma rels_path_root : forall x, seg x ->
  rels_path x = slash :: pjoin [s__rels; x ++ s_dot_rels].
Proof.
  intros x Hx. unfold rels_path.
  rewrite (os_path_split_root x (seg_noslash _ Hx)). reflexivity.
Qed.

(* the inferred name of a root part's relationships is never a joined
   member name: it starts with '/' *)
Lemma rels_path_root_not_member : forall x l, seg x -> segs l -> rels_path x <> pjoin l.
Proof.
  intros x l Hx Hl E. rewrite (rels_path_root x Hx) in E.
  pose proof (count_leading_pjoin l Hl) as C. rewrite <- E in C.
  cbn [count_leading] in C. rewrite N.eqb_refl in C. discriminate.
Qed.

(* ------------------------------------------------------------------ *)
(* 8. Path(s).name                                                     *)
(* ------------------------------------------------------------------ *)

Lemma last_opt_snoc : forall (A : Type) (l : list A) x, last_opt (l ++ [x]) = Some x.
Proof.
  intros A l x. induction l as [|a l IH]; [reflexivity|].
  cbn [app]. destruct (l ++ [x]) eqn:E.
  - apply app_eq_nil in E. destruct E as [_ E]. discriminate.
  - cbn [last_opt]. cbn [last_opt] in IH. exact IH.
Qed.

Lemma path_name_last : forall l x, segs l -> seg x -> path_name (pjoin (l ++ [x])) = x.
Proof.
  intros l x Hl Hx. unfold path_name.
  rewrite parse_join by (apply segs_app; [exact Hl | apply segs_one; exact Hx]).
  unfold pp_name. cbn [pp_parts]. rewrite last_opt_snoc. reflexivity.
Qed.

Lemma path_name_url : forall pre x, seg x -> path_name (pre ++ slash :: x) = x.
Proof.
  intros pre x Hx. unfold path_name, pp_name, parse_path. cbn [pp_parts].
  rewrite split_chr_app, (split_chr_noc _ _ (seg_noslash _ Hx)).
  rewrite filter_app. cbn [filter]. rewrite (is_real_part_seg _ Hx).
  rewrite last_opt_snoc. reflexivity.
Qed.

(* ------------------------------------------------------------------ *)

Print Assumptions split_join.
Print Assumptions parse_join.
Print Assumptions parse_abs_join.
Print Assumptions dir_of_rels_member.
Print Assumptions path_relative.
Print Assumptions path_absolute.
Print Assumptions path_absolute_any.
Print Assumptions path_from_root.
Print Assumptions path_samedir_refuted.
Print Assumptions path_samedir_value.
Print Assumptions path_dotdir_refuted.
Print Assumptions os_path_split_join.
Print Assumptions rels_path_spec.
Print Assumptions rels_path_root.
Print Assumptions rels_path_root_not_member.
Print Assumptions path_name_last.
Print Assumptions path_name_url.
