(* SourceFormatters.v — the nine formatter functions of attribute_register.py (_format_just_return_tag,
   _format_strike, _format_vertAlign, _format_smallCaps, _format_caps, _format_highlight, _format_sz,
   _format_color, _format_heading) AS TRANSLATED FROM THE SOURCE TEXT by the source translator
   (gen/Source.v: `del name`, f-strings, the slice val[:3], the index tag[-1]) compute, for every tag and
   value, what the model computes from the formatter expressions the TABLE translator reads out of the same
   function bodies (gen/Tables.v: fmt_format_*, evaluated by Fmt.eval_fexpr).  Two independent readings of
   the source agree: the table translator's syntactic mapping of these bodies is cross-checked against the
   Python semantics of PyVal.v (C07: the vocabulary of tags and styles). *)
From Coq Require Import List NArith ZArith Bool Arith Lia.
From D2P Require Import Str Err Xml TableTypes Tables Fmt PyVal Source SourceBase.
Import ListNotations.

Lemma sfm_slice_prefix : forall (s : str) n,
  py_slice (VStr s) VNone (VInt (Z.of_nat n)) = Ok (VStr (firstn n s)).
Proof.
  intros s n. unfold py_slice, slice_bound. cbn [int_like bind].
  assert (H0 : (Z.of_nat n <? 0)%Z = false) by (apply Z.ltb_ge; lia). rewrite H0.
  unfold slice_list. cbn [skipn].
  destruct (Z.of_nat (length s) <? Z.of_nat n)%Z eqn:E; rewrite ?H0, Nat.sub_0_r.
  - apply Z.ltb_lt in E. rewrite firstn_all. rewrite firstn_all2 by lia. reflexivity.
  - rewrite Nat2Z.id. reflexivity.
Qed.

Lemma sfm_last : forall (s : str),
  py_index (VStr s) (VInt (-1)) = match last_opt s with Some c => Ok (VStr [c]) | None => Err IndexError end.
Proof.
  intros s. unfold py_index. cbn [int_like]. unfold norm_index. change (0 <=? -1)%Z with false. cbv iota.
  destruct s as [|a r]; [reflexivity|].
  assert (E : (0 <=? Z.of_nat (length (a :: r)) + -1)%Z = true) by (apply Z.leb_le; cbn [length]; lia).
  rewrite E. replace (Z.to_nat (Z.of_nat (length (a :: r)) + -1)) with (length r) by (cbn [length]; lia).
  clear E. revert a. induction r as [|b r IH]; intro a; [reflexivity|].
  cbn [length nth_error last_opt]. exact (IH b).
Qed.

Theorem src_format_just_return_tag : forall tag val,
  S__format_just_return_tag (VStr tag) (VStr val) = lift_str (eval_fexpr fmt_format_just_return_tag tag val).
Proof. intros. unfold eval_fexpr. cbn. rewrite app_nil_r. reflexivity. Qed.

Theorem src_format_strike : forall tag val,
  S__format_strike (VStr tag) (VStr val) = lift_str (eval_fexpr fmt_format_strike tag val).
Proof. intros. reflexivity. Qed.

Theorem src_format_vertAlign : forall tag val,
  S__format_vertAlign (VStr tag) (VStr val) = lift_str (eval_fexpr fmt_format_vertAlign tag val).
Proof.
  intros. unfold S__format_vertAlign, fn_result. cbn [binde].
  change (VInt 3) with (VInt (Z.of_nat 3)). rewrite sfm_slice_prefix.
  unfold eval_fexpr. cbn. rewrite app_nil_r. reflexivity.
Qed.

Theorem src_format_smallCaps : forall tag val,
  S__format_smallCaps (VStr tag) (VStr val) = lift_str (eval_fexpr fmt_format_smallCaps tag val).
Proof. intros. reflexivity. Qed.

Theorem src_format_caps : forall tag val,
  S__format_caps (VStr tag) (VStr val) = lift_str (eval_fexpr fmt_format_caps tag val).
Proof. intros. reflexivity. Qed.

Theorem src_format_highlight : forall tag val,
  S__format_highlight (VStr tag) (VStr val) = lift_str (eval_fexpr fmt_format_highlight tag val).
Proof. intros. unfold eval_fexpr. cbn. rewrite app_nil_r. reflexivity. Qed.

Theorem src_format_sz : forall tag val,
  S__format_sz (VStr tag) (VStr val) = lift_str (eval_fexpr fmt_format_sz tag val).
Proof.
  intros. unfold eval_fexpr, S__format_sz, fn_result. cbn [binde S_str_1 py_str py_add mapM eval_fpart bind fmt_format_sz concat lift_str].
  repeat (rewrite <- ?app_assoc, ?app_nil_r; cbn [app]). reflexivity.
Qed.

Theorem src_format_color : forall tag val,
  S__format_color (VStr tag) (VStr val) = lift_str (eval_fexpr fmt_format_color tag val).
Proof. intros. unfold eval_fexpr. cbn. rewrite app_nil_r. reflexivity. Qed.

Theorem src_format_heading : forall tag val,
  S__format_heading (VStr tag) (VStr val) = lift_str (eval_fexpr fmt_format_heading tag val).
Proof.
  intros. unfold S__format_heading, fn_result. cbn [binde]. rewrite sfm_last.
  unfold eval_fexpr. cbn [mapM eval_fpart bind fmt_format_heading].
  destruct (last_opt tag); reflexivity.
Qed.

Print Assumptions src_format_just_return_tag.
Print Assumptions src_format_strike.
Print Assumptions src_format_vertAlign.
Print Assumptions src_format_smallCaps.
Print Assumptions src_format_caps.
Print Assumptions src_format_highlight.
Print Assumptions src_format_sz.
Print Assumptions src_format_color.
Print Assumptions src_format_heading.
