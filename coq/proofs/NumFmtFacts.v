(* NumFmtFacts.v — facts about the numbering-format model (model/NumFmt.v) *)
From Coq Require Import List NArith ZArith PArith Bool Lia Arith.
From D2P Require Import Str Err TableTypes Tables NumFmt.
Import ListNotations.
Open Scope N_scope.

(* ------------------------------------------------------------------ *)
(* generic helpers                                                      *)

Lemma str_eqb_eq : forall a b : str, str_eqb a b = true -> a = b.
Proof.
  induction a as [|x a IH]; destruct b as [|y b]; cbn [str_eqb]; intro H;
    try discriminate; auto.
  apply andb_true_iff in H. destruct H as [H1 H2].
  apply N.eqb_eq in H1. apply IH in H2. subst. reflexivity.
Qed.

Lemma pos_size_nat_bound : forall p, Npos p < 2 ^ N.of_nat (Pos.size_nat p).
Proof.
  induction p as [p IH|p IH|]; cbn [Pos.size_nat].
  - rewrite Nat2N.inj_succ, N.pow_succ_r'. lia.
  - rewrite Nat2N.inj_succ, N.pow_succ_r'. lia.
  - reflexivity.
Qed.

Lemma size_nat_bound_S : forall p, Npos p < 2 ^ N.of_nat (S (N.size_nat (Npos p))).
Proof.
  intro p. cbn [N.size_nat]. rewrite Nat2N.inj_succ, N.pow_succ_r'.
  pose proof (pos_size_nat_bound p). lia.
Qed.

(* ------------------------------------------------------------------ *)
(* 3. rejection and the upper-case variants                             *)

Lemma letters_reject : forall z, (z < 1)%Z ->
  lower_letter z = Err ValueError /\ upper_letter z = Err ValueError /\
  lower_roman z = Err ValueError /\ upper_roman z = Err ValueError.
Proof.
  intros z H. destruct z as [|p|p]; try lia; repeat split; reflexivity.
Qed.

Lemma upper_letter_is_map : forall z,
  upper_letter z = (s <- lower_letter z ;; Ok (map upper_chr s)).
Proof. reflexivity. Qed.

Lemma upper_roman_is_map : forall z,
  upper_roman z = (s <- lower_roman z ;; Ok (map upper_chr s)).
Proof. reflexivity. Qed.

(* ------------------------------------------------------------------ *)
(* 4. roman numerals                                                    *)

Definition roman_pairs : list (N * str) :=
  [ (1000, [109]);      (* m *)
    (900,  [99; 109]);  (* cm *)
    (500,  [100]);      (* d *)
    (400,  [99; 100]);  (* cd *)
    (100,  [99]);       (* c *)
    (90,   [120; 99]);  (* xc *)
    (50,   [108]);      (* l *)
    (40,   [120; 108]); (* xl *)
    (10,   [120]);      (* x *)
    (9,    [105; 120]); (* ix *)
    (5,    [118]);      (* v *)
    (4,    [105; 118]); (* iv *)
    (1,    [105]) ].    (* i *)

(* the standard greedy algorithm: emit the largest pair that still fits *)
Fixpoint roman_go (fuel : nat) (n : N) (ps : list (N * str)) : str :=
  match fuel with
  | O => []
  | S f =>
      match ps with
      | [] => []
      | (v, s) :: ps' =>
          if v <=? n then s ++ roman_go f (n - v) ps else roman_go f n ps'
      end
  end.

Definition roman_ref (n : N) : str :=
  roman_go (N.to_nat n + length roman_pairs + 1) n roman_pairs.

Definition roman_sym (c : N) : N :=
  if c =? 105 then 1 else
  if c =? 118 then 5 else
  if c =? 120 then 10 else
  if c =? 108 then 50 else
  if c =? 99 then 100 else
  if c =? 100 then 500 else
  if c =? 109 then 1000 else 0.

(* subtractive notation: a symbol smaller than its successor is subtracted *)
Fixpoint roman_value (s : str) : N :=
  match s with
  | [] => 0
  | c :: r =>
      match r with
      | [] => roman_sym c
      | d :: _ =>
          if roman_sym c <? roman_sym d
          then roman_value r - roman_sym c
          else roman_value r + roman_sym c
      end
  end.

Definition roman_check (n : N) : bool :=
  match lower_roman (Z.of_N n) with
  | Ok s => str_eqb s (roman_ref n) && (roman_value (roman_ref n) =? n)
  | Err _ => false
  end.

Lemma roman_check_all :
  forallb roman_check (map N.of_nat (seq 1 3999)) = true.
Proof. vm_compute. reflexivity. Qed.

Lemma roman_correct : forall z, (1 <= z <= 3999)%Z ->
  lower_roman z = Ok (roman_ref (Z.to_N z)) /\
  roman_value (roman_ref (Z.to_N z)) = Z.to_N z.
Proof.
  intros z Hz.
  pose proof roman_check_all as H.
  rewrite forallb_forall in H.
  assert (Hin : In (Z.to_N z) (map N.of_nat (seq 1 3999))).
  { apply in_map_iff. exists (Z.to_nat z). split.
    - lia.
    - apply in_seq. lia. }
  specialize (H _ Hin). unfold roman_check in H.
  rewrite Z2N.id in H by lia.
  destruct (lower_roman z) as [s|e]; [|discriminate].
  apply andb_true_iff in H. destruct H as [H1 H2].
  apply str_eqb_eq in H1. apply N.eqb_eq in H2. subst. split; auto.
Qed.

Lemma roman_injective : forall a b s,
  (1 <= a <= 3999)%Z -> (1 <= b <= 3999)%Z ->
  lower_roman a = Ok s -> lower_roman b = Ok s -> a = b.
Proof.
  intros a b s Ha Hb Ea Eb.
  destruct (roman_correct a Ha) as [Ra Va].
  destruct (roman_correct b Hb) as [Rb Vb].
  rewrite Ea in Ra. rewrite Eb in Rb.
  injection Ra as Ra. injection Rb as Rb.
  assert (Z.to_N a = Z.to_N b) by (rewrite <- Va, <- Vb, <- Ra, <- Rb; reflexivity).
  lia.
Qed.

(* ------------------------------------------------------------------ *)
(* 5. decimal                                                           *)

Lemma decimal_is_str_of_Z : forall z, decimal z = Ok (str_of_Z z).
Proof. reflexivity. Qed.


Notation d10 := (fun acc c : N => acc * 10 + (c - 48)).
Definition dg (c : N) : Prop := 48 <= c /\ c <= 57.

Lemma dg_cases : forall c, dg c ->
  c = 48 \/ c = 49 \/ c = 50 \/ c = 51 \/ c = 52 \/ c = 53 \/ c = 54 \/
  c = 55 \/ c = 56 \/ c = 57.
Proof. unfold dg. intros c H. lia. Qed.

Ltac dg_split H :=
  apply dg_cases in H;
  repeat (destruct H as [H|H]; [subst|]); [..|subst].

Lemma dg_is_digit : forall c, dg c -> is_digit c = true.
Proof.
  intros c [H1 H2]. unfold is_digit. apply andb_true_iff.
  split; apply N.leb_le; assumption.
Qed.

Lemma dg_not_space : forall c, dg c -> is_space c = false.
Proof. intros c H. dg_split H; reflexivity. Qed.

(* dec_go never runs out of fuel and emits the digits of n *)
Lemma dec_go_spec : forall fuel n acc, n <> 0 -> n < 2 ^ N.of_nat fuel ->
  exists ds, dec_go fuel n acc = ds ++ acc /\ fold_left d10 ds 0 = n /\
             Forall dg ds /\ ds <> [].
Proof.
  induction fuel as [|f IH]; intros n acc Hn Hlt.
  - cbn in Hlt. lia.
  - cbn [dec_go]. cbv zeta.
    rewrite Nat2N.inj_succ, N.pow_succ_r' in Hlt.
    assert (Hq : n / 10 < 2 ^ N.of_nat f) by (apply N.div_lt_upper_bound; lia).
    pose proof (N.div_mod n 10 ltac:(lia)) as Hdm.
    pose proof (N.mod_lt n 10 ltac:(lia)) as Hm.
    set (q := n / 10) in *. set (m := n mod 10) in *. clearbody q m.
    destruct (N.eqb_spec q 0) as [E|E].
    + exists [digit_chr m]. unfold digit_chr, dg. cbn [fold_left app].
      split; [reflexivity|]. split; [lia|]. split; [|discriminate].
      constructor; [lia|constructor].
    + destruct (IH q (digit_chr m :: acc) E Hq) as (ds & E1 & E2 & E3 & _).
      exists (ds ++ [digit_chr m]). rewrite <- app_assoc. cbn [app].
      split; [exact E1|]. split.
      * rewrite fold_left_app. cbn [fold_left]. rewrite E2. unfold digit_chr. lia.
      * split.
        -- apply Forall_app. split; [exact E3|]. constructor; [|constructor].
           unfold dg, digit_chr. lia.
        -- intro Habs. apply app_eq_nil in Habs. destruct Habs; discriminate.
Qed.

Lemma str_of_N_spec : forall p,
  fold_left d10 (str_of_N (Npos p)) 0 = Npos p /\
  Forall dg (str_of_N (Npos p)) /\ str_of_N (Npos p) <> [].
Proof.
  intro p. unfold str_of_N.
  destruct (dec_go_spec (S (N.size_nat (Npos p))) (Npos p) [])
    as (ds & E & H1 & H2 & H3).
  - discriminate.
  - apply size_nat_bound_S.
  - rewrite E, app_nil_r. auto.
Qed.

Lemma digits_go_digits : forall ds a b, Forall dg ds -> ds <> [] \/ b = true ->
  digits_go ds a b = Some (fold_left d10 ds a).
Proof.
  induction ds as [|c ds IH]; intros a b Hd Hb.
  - destruct Hb as [Hb|Hb]; [congruence|]. subst. reflexivity.
  - inversion Hd; subst. cbn [digits_go fold_left].
    rewrite (dg_is_digit c) by assumption. apply IH; auto.
Qed.

Lemma strip_space_id : forall s, Forall (fun c => is_space c = false) s ->
  strip_space s = s.
Proof.
  intros s H. unfold strip_space.
  assert (E : lstrip_space s = s).
  { destruct s as [|c s]; [reflexivity|]. inversion H; subst.
    cbn [lstrip_space]. rewrite H2. reflexivity. }
  rewrite E. destruct (rev s) as [|c l] eqn:R.
  - cbn. rewrite <- (rev_involutive s), R. reflexivity.
  - cbn [rstrip_space_rev].
    assert (Hc : is_space c = false).
    { rewrite Forall_forall in H. apply H. apply in_rev. rewrite R. left. reflexivity. }
    rewrite Hc, <- R. apply rev_involutive.
Qed.

Lemma decimal_roundtrip : forall z, int_of_str (str_of_Z z) = Some z.
Proof.
  intros [|p|p].
  - reflexivity.
  - cbn [str_of_Z]. destruct (str_of_N_spec p) as (Hf & Hd & Hne).
    unfold int_of_str. rewrite strip_space_id.
    2:{ eapply Forall_impl; [|exact Hd]. apply dg_not_space. }
    assert (Hg : digits_go (str_of_N (Npos p)) 0 false = Some (Npos p)).
    { rewrite digits_go_digits by auto. rewrite Hf. reflexivity. }
    destruct (str_of_N (Npos p)) as [|c r]; [congruence|].
    inversion Hd as [|? ? Hc Hr]; subst.
    dg_split Hc; cbv beta iota; rewrite Hg; reflexivity.
  - cbn [str_of_Z]. destruct (str_of_N_spec p) as (Hf & Hd & Hne).
    unfold int_of_str. rewrite strip_space_id.
    2:{ constructor; [reflexivity|].
        eapply Forall_impl; [|exact Hd]. apply dg_not_space. }
    rewrite digits_go_digits by auto. rewrite Hf. reflexivity.
Qed.

(* ------------------------------------------------------------------ *)
(* 1. letters: totality and decoding                                    *)

Definition decode26 (s : str) : N :=
  fold_left (fun acc c => acc * 26 + (c - 96)) s 0.

Notation l26 := (fun acc c : N => acc * 26 + (c - 96)).
Definition lc (c : N) : Prop := 97 <= c /\ c <= 122.

Lemma letters_go_total : forall fuel n acc, n < 2 ^ N.of_nat fuel ->
  exists r, letters_go fuel n acc = Some r.
Proof.
  induction fuel as [|f IH]; intros n acc Hlt; cbn [letters_go].
  - cbn in Hlt. destruct (N.eqb_spec n 0); [eauto|lia].
  - destruct (N.eqb_spec n 0); [eauto|]. apply IH.
    rewrite Nat2N.inj_succ, N.pow_succ_r' in Hlt.
    apply N.div_lt_upper_bound; lia.
Qed.

Lemma letters_go_spec : forall fuel n acc r,
  letters_go fuel n acc = Some r ->
  exists ds, r = ds ++ acc /\ fold_left l26 ds 0 = n /\ Forall lc ds /\
             (n <> 0 -> ds <> []).
Proof.
  induction fuel as [|f IH]; intros n acc r H; cbn [letters_go] in H.
  - destruct (N.eqb_spec n 0); [|discriminate]. injection H as <-.
    exists []. subst. repeat split; auto; intro; congruence.
  - destruct (N.eqb_spec n 0).
    + injection H as <-. exists []. subst. repeat split; auto; intro; congruence.
    + apply IH in H. destruct H as (ds & -> & Hd & Hf & _).
      pose proof (N.div_mod (n - 1) 26 ltac:(lia)) as Hdm.
      pose proof (N.mod_lt (n - 1) 26 ltac:(lia)) as Hm.
      set (q := (n - 1) / 26) in *. set (m := (n - 1) mod 26) in *.
      clearbody q m.
      exists (ds ++ [97 + m]). rewrite <- app_assoc. cbn [app].
      split; [reflexivity|]. split.
      * rewrite fold_left_app. cbn [fold_left]. rewrite Hd. lia.
      * split.
        -- apply Forall_app. split; [exact Hf|]. constructor; [|constructor].
           unfold lc. lia.
        -- intros _ Habs. apply app_eq_nil in Habs. destruct Habs; discriminate.
Qed.

Lemma letters_total : forall p, exists s, lower_letter (Zpos p) = Ok s.
Proof.
  intro p. unfold lower_letter.
  destruct (letters_go_total (S (N.size_nat (Npos p))) (Npos p) []) as [r Hr].
  - apply size_nat_bound_S.
  - rewrite Hr. exists r. reflexivity.
Qed.

Lemma letters_decode : forall p s, lower_letter (Zpos p) = Ok s ->
  decode26 s = Npos p /\ Forall (fun c => 97 <= c /\ c <= 122) s /\ s <> [].
Proof.
  intros p s H. unfold lower_letter in H.
  destruct (letters_go _ _ _) as [r|] eqn:E; cbn [of_opt] in H; [|discriminate].
  injection H as <-. apply letters_go_spec in E.
  destruct E as (ds & -> & Hd & Hf & Hne). rewrite app_nil_r.
  split; [exact Hd|]. split; [exact Hf|]. apply Hne. discriminate.
Qed.

(* ------------------------------------------------------------------ *)
(* 2. letters: monotone and injective                                   *)

Definition shortlex_lt (s t : str) : Prop :=
  (length s < length t)%nat \/ (length s = length t /\ str_ltb s t = true).

Lemma letters_injective : forall p q s,
  lower_letter (Zpos p) = Ok s -> lower_letter (Zpos q) = Ok s -> p = q.
Proof.
  intros p q s Hp Hq.
  apply letters_decode in Hp. apply letters_decode in Hq.
  destruct Hp as [Hp _]. destruct Hq as [Hq _]. congruence.
Qed.

(* a strictly smaller accumulator stays strictly smaller through at least
   as many bijective digits *)
Lemma l26_lt_le : forall t s a b, (length s <= length t)%nat ->
  Forall lc s -> Forall lc t -> a < b ->
  fold_left l26 s a < fold_left l26 t b.
Proof.
  induction t as [|d t IH]; intros s a b Hlen Hs Ht Hab.
  - destruct s; [exact Hab|cbn in Hlen; lia].
  - inversion Ht as [|? ? Hd Ht']; subst. cbn [fold_left].
    destruct (le_lt_dec (length s) (length t)) as [Hl|Hl].
    + apply IH; auto. unfold lc in Hd. lia.
    + destruct s as [|c s]; [cbn in Hl; lia|].
      inversion Hs as [|? ? Hc Hs']; subst. cbn [fold_left].
      apply IH; auto.
      * cbn [length] in Hlen. lia.
      * unfold lc in Hc, Hd. lia.
Qed.

Lemma l26_ltb : forall s t a, length s = length t ->
  Forall lc s -> Forall lc t -> str_ltb s t = true ->
  fold_left l26 s a < fold_left l26 t a.
Proof.
  induction s as [|c s IH]; intros t a Hlen Hs Ht Hlt.
  - destruct t; cbn in Hlen, Hlt; [discriminate|lia].
  - destruct t as [|d t]; [cbn in Hlen; lia|].
    cbn [length] in Hlen. injection Hlen as Hlen.
    inversion Hs as [|? ? Hc Hs']; subst. inversion Ht as [|? ? Hd Ht']; subst.
    cbn [str_ltb] in Hlt. cbn [fold_left].
    destruct (N.ltb_spec c d) as [Hcd|Hcd].
    + apply l26_lt_le; auto; [lia|]. unfold lc in Hc, Hd. lia.
    + destruct (N.ltb_spec d c) as [Hdc|Hdc]; [discriminate|].
      assert (c = d) by lia. subst. apply IH; auto.
Qed.

Lemma shortlex_decode_lt : forall s t, Forall lc s -> Forall lc t ->
  shortlex_lt s t -> decode26 s < decode26 t.
Proof.
  intros s t Hs Ht [Hl|[Hl Hlt]]; unfold decode26.
  - destruct t as [|d t]; [cbn in Hl; lia|].
    inversion Ht as [|? ? Hd Ht']; subst. cbn [fold_left].
    apply l26_lt_le; auto.
    + cbn [length] in Hl. lia.
    + unfold lc in Hd. lia.
  - apply l26_ltb; auto.
Qed.

Lemma str_ltb_trichotomy : forall s t : str, length s = length t ->
  str_ltb s t = true \/ s = t \/ str_ltb t s = true.
Proof.
  induction s as [|c s IH]; intros t Hlen.
  - destruct t; [auto|discriminate].
  - destruct t as [|d t]; [discriminate|]. injection Hlen as Hlen.
    cbn [str_ltb].
    destruct (N.ltb_spec c d) as [Hcd|Hcd]; [auto|].
    destruct (N.ltb_spec d c) as [Hdc|Hdc]; [auto|].
    assert (c = d) by lia. subst.
    destruct (IH t Hlen) as [H|[H|H]]; auto. subst. auto.
Qed.

Lemma shortlex_trichotomy : forall s t,
  shortlex_lt s t \/ s = t \/ shortlex_lt t s.
Proof.
  intros s t. unfold shortlex_lt.
  destruct (lt_eq_lt_dec (length s) (length t)) as [[H|H]|H]; auto.
  destruct (str_ltb_trichotomy s t H) as [H1|[H1|H1]]; auto.
Qed.

Lemma letters_monotone : forall p q s t,
  lower_letter (Zpos p) = Ok s -> lower_letter (Zpos q) = Ok t ->
  (p < q)%positive -> shortlex_lt s t.
Proof.
  intros p q s t Hp Hq Hlt.
  apply letters_decode in Hp. apply letters_decode in Hq.
  destruct Hp as (Dp & Fp & _). destruct Hq as (Dq & Fq & _).
  destruct (shortlex_trichotomy s t) as [H|[H|H]]; [exact H| |].
  - subst. rewrite Dp in Dq. injection Dq as Dq. lia.
  - apply shortlex_decode_lt in H; auto. rewrite Dp, Dq in H. lia.
Qed.

Print Assumptions letters_total.
Print Assumptions letters_decode.
Print Assumptions letters_monotone.
Print Assumptions letters_injective.
Print Assumptions decimal_roundtrip.
Print Assumptions letters_reject.
Print Assumptions upper_letter_is_map.
Print Assumptions upper_roman_is_map.
Print Assumptions roman_correct.
Print Assumptions roman_injective.
Print Assumptions decimal_is_str_of_Z.
