(* IterProps.v — the C20 statements, proved from IterFacts *)
From Coq Require Import List Arith Lia Bool Sorting.Sorted.
From D2P Require Import Str Err Iter IterFacts.
Import ListNotations.

Lemma c20_complete_sorted (A : Type) (t : rose A) (d : nat) :
  1 <= d <= 5 -> wf (pred d) t ->
  exists l, enum_at_depth t d = Ok l
    /\ (forall addr x, In (addr, x) l <-> (length addr = d /\ index t addr = Some x))
    /\ StronglySorted (@lex_lt) (map fst l)
    /\ NoDup (map fst l).
Proof.
  intros Hd Hwf.
  destruct (enum_depth_spec (pred d) t Hwf) as [l [E [M HS]]].
  exists l. split.
  - unfold enum_at_depth.
    destruct d as [|[|[|[|[|[|d]]]]]]; try lia; exact E.
  - split; [|split; [exact HS|apply strongly_sorted_nodup; exact HS]].
    intros addr x. rewrite M. replace (S (pred d)) with d by lia. tauto.
Qed.

Lemma c20_index (A : Type) (t : rose A) (d : nat) l :
  1 <= d <= 5 -> wf (pred d) t -> enum_at_depth t d = Ok l ->
  forall addr x, In (addr, x) l -> index t addr = Some x.
Proof.
  intros Hd Hwf E addr x Hin.
  destruct (c20_complete_sorted A t d Hd Hwf) as [l' [E' [M _]]].
  rewrite E in E'. inversion E'; subst. apply M in Hin. tauto.
Qed.

Lemma c20_iter (A : Type) (t : rose A) (d : nat) :
  iter_at_depth t d = (r <- enum_at_depth t d ;; Ok (map snd r)).
Proof. reflexivity. Qed.

Lemma c20_wrappers (A : Type) (t : rose A) :
  iter_tables t = iter_at_depth t 1 /\ iter_rows t = iter_at_depth t 2 /\
  iter_cells t = iter_at_depth t 3 /\ iter_paragraphs t = iter_at_depth t 4 /\
  enum_tables t = enum_at_depth t 1 /\ enum_rows t = enum_at_depth t 2 /\
  enum_cells t = enum_at_depth t 3 /\ enum_paragraphs t = enum_at_depth t 4.
Proof. repeat split. Qed.

Lemma c20_bad_depth (A : Type) (t : rose A) (d : nat) :
  d = 0 \/ 5 < d ->
  enum_at_depth t d = Err ValueError /\ iter_at_depth t d = Err ValueError.
Proof.
  intros H. unfold iter_at_depth, enum_at_depth.
  destruct d as [|[|[|[|[|[|d]]]]]]; try lia; split; reflexivity.
Qed.

(* non-vacuity: a ragged tree satisfies the hypothesis at depth 3 *)
Example c20_hyp_satisfiable :
  wf 2 (RL [RL [RL [RA 1; RA 2]; RL []]; RL []; RL [RL [RA 3]]]).
Proof. simpl. repeat constructor. Qed.
