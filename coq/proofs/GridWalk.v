(* GridWalk.v — C04 end to end: walking a whole flat table (w:tbl / w:tr / w:tc /
   w:p directly nested) appends exactly ONE table to the root of the tree, and
   that table is the pure grid function of GridFacts applied to a description
   of the SOURCE table (one cellspec per w:tc: span, continuation flag, the
   paragraphs of the cell).

   Contents
     Part 0  elements without handlers ("inert" filler such as w:tblPr,
             w:tblGrid, w:trPr, w:tcPr) are transparent for the walk
     Part 1  the caret: what set_caret does to the tree when the depth is known
     Part 2  one simple paragraph, with everything the table needs
     Part 3  the description of the source table: table_spec
     Part 4  cell, row, table: the walk, level by level
     Part 5  main theorem, the n x m corollary, document order
     Part 6  the unrestricted statement is false (counterexample); examples *)
From Coq Require Import List NArith ZArith Bool Arith Lia.
From D2P Require Import Str Err Xml TableTypes Tables Fmt NumFmt Bullets Merge Collector Walk.
From D2P Require Import ShapeFacts TokFacts FrameFacts BulletsFacts LineageFacts GridFacts.
Import ListNotations.
#[local] Open Scope nat_scope.

(* ================================================================== *)
(* PART 0 — inert elements                                              *)
(* ================================================================== *)
(* the tags TagRunner has an open method for *)
Definition open_tags : list str :=
  [tag_PARAGRAPH; tag_RUN; tag_COMMENT_RANGE_END; tag_COMMENT_RANGE_START; tag_TEXT;
   tag_TEXT_MATH; tag_MATH; tag_BR; tag_SYM; tag_FOOTNOTE; tag_ENDNOTE; tag_HYPERLINK;
   tag_FORM_CHECKBOX; tag_FORM_DDLIST; tag_FOOTNOTE_REFERENCE; tag_ENDNOTE_REFERENCE;
   tag_IMAGE; tag_IMAGE_ALT; tag_IMAGEDATA; tag_TAB].
(* ... or a close method *)
Definition handled_tags : list str := tag_TABLE_CELL :: open_tags.

Definition quiet_tag (tg : str) : bool := negb (mem_str tg handled_tags).

(* no element at or below t has a handler *)
Fixpoint inert (t : anode) : bool :=
  match t with
  | AX _ => true
  | AE e ks => quiet_tag (e_ptag e) && forallb inert ks
  end.

Lemma mem_str_false_neq tg x : forall l,
  mem_str tg l = false -> mem_str x l = true -> str_eqb tg x = false.
Proof.
  induction l as [|a l IH]; cbn [mem_str]; intros Q M; [discriminate M|].
  apply orb_false_iff in Q. destruct Q as [Q1 Q2].
  apply orb_true_iff in M. destruct M as [M|M].
  - apply str_eqb_eq in M. subst a. exact Q1.
  - exact (IH Q2 M).
Qed.

Lemma no_open_method v path t e ks body s :
  mem_str (e_ptag e) open_tags = false ->
  open_tag v path t e ks body s = Ok (s, true).
Proof.
  intro Q. pose proof (fun x => mem_str_false_neq (e_ptag e) x open_tags Q) as U.
  unfold open_tag. cbv zeta.
  rewrite (U tag_PARAGRAPH eq_refl), (U tag_RUN eq_refl), (U tag_COMMENT_RANGE_END eq_refl),
    (U tag_COMMENT_RANGE_START eq_refl), (U tag_TEXT eq_refl), (U tag_TEXT_MATH eq_refl),
    (U tag_MATH eq_refl), (U tag_BR eq_refl), (U tag_SYM eq_refl), (U tag_FOOTNOTE eq_refl),
    (U tag_ENDNOTE eq_refl), (U tag_HYPERLINK eq_refl), (U tag_FORM_CHECKBOX eq_refl),
    (U tag_FORM_DDLIST eq_refl), (U tag_FOOTNOTE_REFERENCE eq_refl),
    (U tag_ENDNOTE_REFERENCE eq_refl), (U tag_IMAGE eq_refl), (U tag_IMAGE_ALT eq_refl),
    (U tag_IMAGEDATA eq_refl), (U tag_TAB eq_refl).
  reflexivity.
Qed.

Lemma quiet_tag_open_tags tg : quiet_tag tg = true -> mem_str tg open_tags = false.
Proof.
  unfold quiet_tag, handled_tags. cbn [mem_str]. intro H. apply negb_true_iff in H.
  apply orb_false_iff in H. apply H.
Qed.

Lemma quiet_tag_neq tg x :
  quiet_tag tg = true -> mem_str x handled_tags = true -> str_eqb tg x = false.
Proof.
  unfold quiet_tag. intros Q M. apply negb_true_iff in Q.
  exact (mem_str_false_neq tg x handled_tags Q M).
Qed.

Lemma quiet_open v path t e ks body s :
  quiet_tag (e_ptag e) = true -> open_tag v path t e ks body s = Ok (s, true).
Proof. intro Q. apply no_open_method, quiet_tag_open_tags, Q. Qed.

Lemma quiet_close v e ks s : quiet_tag (e_ptag e) = true -> close_tag v e ks s = Ok s.
Proof.
  intro Q. unfold close_tag. cbv zeta.
  rewrite (quiet_tag_neq _ tag_PARAGRAPH Q eq_refl), (quiet_tag_neq _ tag_RUN Q eq_refl),
    (quiet_tag_neq _ tag_TABLE_CELL Q eq_refl).
  reflexivity.
Qed.

Lemma inert_plain : forall t, inert t = true -> plain_inline t = true.
Proof.
  apply (ShapeFacts.anode_ind' (fun t => inert t = true -> plain_inline t = true)).
  - reflexivity.
  - intros e ks IH H. cbn [inert] in H. apply andb_true_iff in H. destruct H as [Q Hks].
    cbn [plain_inline].
    rewrite (quiet_tag_neq _ tag_PARAGRAPH Q eq_refl), (quiet_tag_neq _ tag_TABLE_CELL Q eq_refl),
      (quiet_tag_neq _ tag_FOOTNOTE Q eq_refl), (quiet_tag_neq _ tag_ENDNOTE Q eq_refl),
      (quiet_tag_neq _ tag_COMMENT_RANGE_START Q eq_refl),
      (quiet_tag_neq _ tag_COMMENT_RANGE_END Q eq_refl).
    cbn [negb andb].
    induction IH as [|k r Hk Hr IHr]; [reflexivity|].
    cbn [forallb] in Hks |- *. apply andb_true_iff in Hks. destruct Hks as [K1 K2].
    rewrite (Hk K1), (IHr K2). reflexivity.
Qed.

(* an inert subtree is skipped: the walk returns the state it was given *)
Lemma inert_walk v : forall t, inert t = true -> forall path s, walk v path t s = Ok s.
Proof.
  apply (ShapeFacts.anode_ind'
           (fun t => inert t = true -> forall path s, walk v path t s = Ok s)).
  - intros tl _ path s. reflexivity.
  - intros e ks IH H path s.
    pose proof (plain_inline_no_depth _ (inert_plain _ H)) as Hd.
    cbn [inert] in H. apply andb_true_iff in H. destruct H as [Q Hks].
    rewrite walk_AE. cbv zeta. rewrite Hd. cbn [set_caret bind].
    rewrite (quiet_tag_neq _ tag_HYPERLINK Q eq_refl). cbn [bind].
    rewrite (quiet_open v path (AE e ks) e ks [] s Q). cbn [bind].
    assert (K : forall i, kids_loop v path ks i s = Ok s).
    { clear Hd Q. induction IH as [|k r Hk Hr IHr]; intro i; [reflexivity|].
      cbn [forallb] in Hks. apply andb_true_iff in Hks. destruct Hks as [K1 K2].
      cbn [kids_loop]. rewrite (Hk K1). cbn [bind]. apply IHr, K2. }
    rewrite K. cbn [bind]. rewrite (quiet_close v e ks s Q). reflexivity.
Qed.

(* ================================================================== *)
(* PART 1 — the caret when the depth is known                           *)
(* ================================================================== *)
Lemma set_caret_go_S f d name s :
  set_caret_go (S f) d name s =
  if Nat.eqb (c_depth s) d then
    l <- set_in_lineage d name (c_lineage s) ;; Ok (set_lin l s)
  else if Nat.ltb (c_depth s) d then
    s' <- drop_caret s ;; set_caret_go f d name s'
  else
    l <- set_in_lineage d None (c_lineage s) ;;
    s' <- raise_caret (set_lin l s) ;; set_caret_go f d name s'.
Proof. reflexivity. Qed.

(* moving up (or staying): the tree is not touched *)
Lemma set_caret_go_up : forall fuel d name s s',
  d <= c_depth s -> set_caret_go fuel d name s = Ok s' -> c_tree s' = c_tree s.
Proof.
  induction fuel as [|f IH]; intros d name s s' Hd H; [discriminate H|].
  rewrite set_caret_go_S in H.
  destruct (Nat.eqb (c_depth s) d) eqn:E1.
  - bind_inv H as l El. injection H as <-. reflexivity.
  - apply Nat.eqb_neq in E1. destruct (Nat.ltb (c_depth s) d) eqn:E2.
    + apply Nat.ltb_lt in E2. lia.
    + bind_inv H as l El. bind_inv H as s1 E. unfold raise_caret in E.
      cbn [c_depth set_lin] in E.
      destruct (Nat.leb (c_depth s) 1); [discriminate E|]. injection E as <-.
      assert (Hd' : d <= c_depth (set_depth (pred (c_depth s)) (set_lin l s))).
      { cbn [c_depth set_depth]. lia. }
      rewrite (IH _ _ _ _ Hd' H). reflexivity.
Qed.

Lemma set_caret_up d name s s' :
  d <= c_depth s -> set_caret (Some d) name s = Ok s' -> c_tree s' = c_tree s.
Proof. apply set_caret_go_up. Qed.

(* moving down by one: one empty list is appended at the old depth *)
Lemma set_caret_drop1 d name s s' :
  c_depth s = d -> set_caret (Some (S d)) name s = Ok s' ->
  exists t, spine_app d (NL []) (c_tree s) = Ok t /\ c_tree s' = t.
Proof.
  intros D H. unfold set_caret in H. rewrite set_caret_go_S in H. rewrite D in H.
  assert (E1 : Nat.eqb d (S d) = false) by (apply Nat.eqb_neq; lia).
  assert (E2 : Nat.ltb d (S d) = true) by (apply Nat.ltb_lt; lia).
  rewrite E1, E2 in H. bind_inv H as s1 Ed.
  unfold drop_caret in Ed. destruct (Nat.leb par_depth (c_depth s)); [discriminate Ed|].
  bind_inv Ed as t Et. injection Ed as <-. rewrite D in Et.
  rewrite set_caret_go_S in H. cbn [c_depth set_depth set_tree] in H.
  rewrite D, Nat.eqb_refl in H.
  bind_inv H as l El. injection H as <-. exists t. split; [exact Et|reflexivity].
Qed.

(* everything else set_caret does, collected *)
Lemma set_caret_facts d name s s' :
  1 <= d <= 4 -> Inv s -> set_caret (Some d) name s = Ok s' ->
  Inv s' /\ c_depth s' = d /\ c_open s' = c_open s
  /\ slot d (c_lineage s') = name /\ keepl d (c_lineage s) (c_lineage s').
Proof.
  intros Hd Hi H.
  destruct (set_caret_Inv d name s s' Hd Hi H) as [I' D'].
  destruct (set_caret_lin d name s s' H) as [N K].
  destruct (set_caret_frame d name s s' H) as ((O & _) & _).
  auto.
Qed.

(* ================================================================== *)
(* PART 2 — one simple paragraph                                        *)
(* ================================================================== *)
Lemma tree_ok_pars l : tree_ok l -> exists ps, pars_at 4 l = Ok ps.
Proof. intro H. apply (shape_pars_at 4 1 l); [reflexivity|lia|exact H]. Qed.

(* simple_par_core (the tree, the lineage) and simple_par_walk (the record)
   speak about the same paragraph *)
Lemma simple_par_step : forall v e ks path s s',
  simple_par (AE e ks) = true -> Inv s -> walk v path (AE e ks) s = Ok s' ->
  exists s1 p t,
    set_caret (Some 4) (Some (e_local e)) s = Ok s1 /\
    spine_app 4 (NP p) (c_tree s1) = Ok t /\ c_tree s' = t /\ c_depth s' = 4 /\
    p_lineage p = (slot 1 (c_lineage s), slot 2 (c_lineage s), slot 3 (c_lineage s),
                   Some (e_local e)) /\
    keepl 4 (c_lineage s) (c_lineage s') /\
    p_elem p = Some path /\ p_copy p = false /\ c_open s' = c_open s.
Proof.
  intros v e ks path s s' Hsp Hi H.
  destruct (simple_par_core _ _ _ _ _ _ Hsp H) as (s1 & p & t & E1 & Et & Ht & D' & Lp & K).
  destruct (tree_ok_pars _ (proj1 Hi)) as [ps Hps].
  destruct (simple_par_walk _ _ _ _ _ _ _ Hsp Hi H Hps)
    as (p' & Hp' & O' & _ & _ & _ & El & Cp & _).
  assert (Hp1 : pars_at 4 (c_tree s1) = Ok ps).
  { eapply set_caret_pars; [exact Hi| |exact E1|exact Hps]. lia. }
  pose proof (spine_app_NP_pars 3 p (c_tree s1) t ps Et Hp1) as Hp.
  rewrite Ht, Hp in Hp'. injection Hp' as Hpp. apply app_inj_tail in Hpp.
  destruct Hpp as [_ Hpp]. subst p'.
  exists s1, p, t. repeat (split; [assumption|]). assumption.
Qed.

(* ================================================================== *)
(* PART 3 — the description of the source table                         *)
(* ================================================================== *)
(* the children satisfying f, with their positions among ALL children
   (the position is the last step of the element's path) *)
Fixpoint sel (f : anode -> bool) (ks : list anode) (i : nat) : list (nat * anode) :=
  match ks with
  | [] => []
  | k :: r => if f k then (i, k) :: sel f r (S i) else sel f r (S i)
  end.

(* the record n extracted for the paragraph element ik (position, element)
   whose parent cell has path [path] *)
Definition par_rec (lt ltr ltc : str) (path : list nat) (ik : nat * anode) (n : node) : Prop :=
  exists e ks p, snd ik = AE e ks /\ n = NP p /\
    p_elem p = Some (fst ik :: path) /\ p_copy p = false /\
    p_lineage p = (Some lt, Some ltr, Some ltc, Some (e_local e)).

(* the gridSpan value g (1 when absent) counts as max g 1 columns: the model
   appends Z.to_nat (g - 1) extra cells, none when g <= 0 *)
Definition span_cols (g : Z) : nat := Z.to_nat (Z.max g 1).

Definition cell_spec (lt ltr : str) (path : list nat) (ik : nat * anode) (c : cellspec) : Prop :=
  exists e ks pr g l, snd ik = AE e ks /\
    gather_Pr e ks = Ok pr /\ span_of pr = Ok g /\
    cs_span c = span_cols g /\ cs_cont c = is_continuation pr /\
    cs_own c = NL l /\
    Forall2 (par_rec lt ltr (e_local e) (fst ik :: path)) (sel simple_par ks 0) (rev l).

Definition row_spec (lt : str) (path : list nat) (ik : nat * anode) (r : list cellspec) : Prop :=
  exists e ks, snd ik = AE e ks /\
    Forall2 (cell_spec lt (e_local e) (fst ik :: path)) (sel flat_cell ks 0) r.

(* rows : one list of cellspecs per (flat) w:tr child, in order; path is the
   path of the w:tbl element itself *)
Definition table_spec (path : list nat) (t : anode) (rows : list (list cellspec)) : Prop :=
  exists e ks, t = AE e ks /\
    Forall2 (row_spec (e_local e) path) (sel flat_row ks 0) rows.

Lemma span_cols_pos g : 1 <= span_cols g.
Proof. unfold span_cols. lia. Qed.

Lemma span_cols_ge1 g : (1 <= g)%Z -> Z.of_nat (span_cols g) = g.
Proof. unfold span_cols. lia. Qed.

Lemma span_cols_le0 g : (g <= 0)%Z -> span_cols g = 1.
Proof. unfold span_cols. lia. Qed.

Lemma table_spec_spans path t rows :
  table_spec path t rows -> Forall (Forall (fun c => 1 <= cs_span c)) rows.
Proof.
  intros (e & ks & _ & HF). induction HF as [|ik r iks rows Hr _ IH]; constructor; [|exact IH].
  destruct Hr as (e' & ks' & _ & HC). clear - HC.
  induction HC as [|jk c jks cs Hc _ IHc]; constructor; [|exact IHc].
  destruct Hc as (e'' & ks'' & pr & g & l & _ & _ & _ & Hs & _). rewrite Hs. apply span_cols_pos.
Qed.

(* in a flat cell the selected children are exactly the w:p children, in a
   flat row exactly the w:tc children *)
Lemma sel_ext f g : forall ks i, (forall k, In k ks -> f k = g k) -> sel f ks i = sel g ks i.
Proof.
  induction ks as [|k r IH]; intros i H; [reflexivity|].
  cbn [sel]. rewrite (H k (or_introl eq_refl)), (IH (S i)); [reflexivity|].
  intros k' Hk'. apply H. right. exact Hk'.
Qed.

Definition has_tag (tg : str) (t : anode) : bool :=
  match t with AE e _ => str_eqb (e_ptag e) tg | AX _ => false end.

Lemma flat_cell_sel_pars e ks i :
  flat_cell (AE e ks) = true -> sel simple_par ks i = sel (has_tag tag_PARAGRAPH) ks i.
Proof.
  intro H. cbn [flat_cell] in H. apply andb_true_iff in H. destruct H as [H _].
  apply andb_true_iff in H. destruct H as [_ Hks].
  apply sel_ext. intros k Hk. pose proof (proj1 (forallb_forall _ _) Hks k Hk) as Hkk.
  cbv beta in Hkk. destruct (simple_par k) eqn:Es.
  - destruct k as [e' ks'|tl]; [|discriminate Es]. cbn [simple_par] in Es.
    apply andb_true_iff in Es. destruct Es as [Es _]. cbn [has_tag]. rewrite Es. reflexivity.
  - cbn [orb] in Hkk. unfold no_par in Hkk. destruct k as [e' ks'|tl]; [|reflexivity].
    apply plain_inline_AE in Hkk. destruct Hkk as [(Hp & _) _]. cbn [has_tag]. rewrite Hp.
    reflexivity.
Qed.

Lemma flat_row_sel_cells e ks i :
  flat_row (AE e ks) = true -> sel flat_cell ks i = sel (has_tag tag_TABLE_CELL) ks i.
Proof.
  intro H. cbn [flat_row] in H. apply andb_true_iff in H. destruct H as [H _].
  apply andb_true_iff in H. destruct H as [_ Hks].
  apply sel_ext. intros k Hk. pose proof (proj1 (forallb_forall _ _) Hks k Hk) as Hkk.
  cbv beta in Hkk. destruct (flat_cell k) eqn:Es.
  - destruct k as [e' ks'|tl]; [|discriminate Es]. cbn [flat_cell] in Es.
    apply andb_true_iff in Es. destruct Es as [Es _].
    apply andb_true_iff in Es. destruct Es as [Es _]. cbn [has_tag]. rewrite Es. reflexivity.
  - cbn [orb] in Hkk. unfold no_par in Hkk. destruct k as [e' ks'|tl]; [|reflexivity].
    apply plain_inline_AE in Hkk. destruct Hkk as [(_ & Hc & _) _]. cbn [has_tag]. rewrite Hc.
    reflexivity.
Qed.

Lemma flat_cell_not_plain k : flat_cell k = true -> plain_inline k = false.
Proof.
  destruct k as [e ks|tl]; [|discriminate]. cbn [flat_cell]. intro H.
  apply andb_true_iff in H. destruct H as [H _]. apply andb_true_iff in H. destruct H as [Ht _].
  cbn [plain_inline]. rewrite Ht.
  destruct (negb (str_eqb (e_ptag e) tag_PARAGRAPH)); reflexivity.
Qed.

Lemma flat_row_not_plain k : flat_row k = true -> plain_inline k = false.
Proof.
  destruct k as [e ks|tl]; [|discriminate]. cbn [flat_row]. intro H.
  apply andb_true_iff in H. destruct H as [_ Hex].
  apply existsb_exists in Hex. destruct Hex as (x & Hx & Fx).
  destruct (plain_inline (AE e ks)) eqn:E; [|reflexivity].
  apply plain_inline_AE in E. destruct E as [_ Hks].
  pose proof (flat_cell_not_plain x Fx) as N.
  rewrite (proj1 (forallb_forall _ _) Hks x Hx) in N. discriminate N.
Qed.

(* in a flat table the selected children are the w:tr children that contain a
   paragraph; a w:tr without any paragraph below it has no depth, the walk
   does not even move the caret for it, and it yields no row *)
Lemma flat_tbl_sel_rows e ks i :
  flat_tbl (AE e ks) = true ->
  sel flat_row ks i = sel (fun k => has_tag tag_TABLE_ROW k && negb (no_par k)) ks i.
Proof.
  intro H. cbn [flat_tbl] in H. apply andb_true_iff in H. destruct H as [H _].
  apply andb_true_iff in H. destruct H as [_ Hks].
  apply sel_ext. intros k Hk. pose proof (proj1 (forallb_forall _ _) Hks k Hk) as Hkk.
  cbv beta in Hkk. destruct (flat_row k) eqn:Es.
  - unfold no_par. rewrite (flat_row_not_plain k Es).
    destruct k as [e' ks'|tl]; [|discriminate Es]. cbn [flat_row] in Es.
    apply andb_true_iff in Es. destruct Es as [Es _].
    apply andb_true_iff in Es. destruct Es as [Es _]. cbn [has_tag]. rewrite Es. reflexivity.
  - cbn [orb] in Hkk. rewrite Hkk. cbn [negb]. rewrite andb_false_r. reflexivity.
Qed.

(* ================================================================== *)
(* PART 4 — cell, row, table                                            *)
(* ================================================================== *)
(* What the children of w:tbl / w:tr / w:tc that are NOT rows / cells /
   paragraphs ("filler": w:tblPr, w:tblGrid, w:trPr, w:tcPr, bookmarks, ...)
   must satisfy.  A filler child with a handler (say a stray w:r) opens a
   paragraph when none is open, and that moves the caret to depth 4 and
   appends lists to the tree.  So: either a paragraph is open at the start
   (ne = true; then filler only touches that paragraph's runs), or all filler
   is inert.  This is the weakest condition on tags alone: every handled tag
   that plain_inline admits reaches ensure_par (some only for particular
   attribute values), which is harmless only once the caret already is at
   depth 4, i.e. after the first paragraph of a cell. *)
Definition fill1 (ne : bool) (k : anode) : bool := ne || inert k.
Definition cell_fill (ne : bool) (t : anode) : bool :=
  match t with
  | AE _ ks => forallb (fun k => simple_par k || fill1 ne k) ks
  | AX _ => true
  end.
Definition row_fill (ne : bool) (t : anode) : bool :=
  match t with
  | AE _ ks => forallb (fun k => if flat_cell k then cell_fill ne k else fill1 ne k) ks
  | AX _ => true
  end.
Definition tbl_fill (ne : bool) (t : anode) : bool :=
  match t with
  | AE _ ks => forallb (fun k => if flat_row k then row_fill ne k else fill1 ne k) ks
  | AX _ => true
  end.

(* with a paragraph open the hypothesis is void *)
Lemma cell_fill_true t : cell_fill true t = true.
Proof.
  destruct t as [e ks|tl]; [|reflexivity]. cbn [cell_fill]. apply forallb_forall.
  intros k _. unfold fill1. cbn [orb]. apply orb_true_r.
Qed.
Lemma row_fill_true t : row_fill true t = true.
Proof.
  destruct t as [e ks|tl]; [|reflexivity]. cbn [row_fill]. apply forallb_forall.
  intros k _. destruct (flat_cell k); [apply cell_fill_true|reflexivity].
Qed.
Lemma tbl_fill_true t : tbl_fill true t = true.
Proof.
  destruct t as [e ks|tl]; [|reflexivity]. cbn [tbl_fill]. apply forallb_forall.
  intros k _. destruct (flat_row k); [apply row_fill_true|reflexivity].
Qed.

Section Levels.
  Variables (v : env) (ne : bool) (old : list node) (lt : str).

  Definition opn (s : cst) : Prop := ne = true -> c_open s <> [].

  Lemma filler_walk k path s s' :
    no_par k = true -> fill1 ne k = true -> Inv s -> opn s -> walk v path k s = Ok s' ->
    Inv s' /\ opn s' /\ c_tree s' = c_tree s /\ c_depth s' = c_depth s
    /\ c_lineage s' = c_lineage s.
  Proof.
    intros Hn Hf Hi Ho H. unfold no_par in Hn. unfold fill1 in Hf.
    destruct (bool_dec ne true) as [E|E]; [|apply not_true_is_false in E].
    - destruct (c_open s) as [|p rest] eqn:Eo; [exfalso; exact (Ho E Eo)|].
      destruct (inline_frame v k path s s' p rest Hn Eo H)
        as (rs' & em & O' & T' & D' & L' & _).
      split; [eapply walk_inv; eauto|]. split; [intros _; rewrite O'; discriminate|]. auto.
    - rewrite E in Hf. cbn [orb] in Hf. rewrite (inert_walk v k Hf) in H. injection H as <-.
      auto.
  Qed.

  (* ---------------- inside a cell ---------------- *)
  Definition cell_st (rows cells : list node) (ltr ltc : str) (pars : list node) (s : cst)
    : Prop :=
    Inv s /\ opn s /\ slot 1 (c_lineage s) = Some lt /\ slot 2 (c_lineage s) = Some ltr
    /\ slot 3 (c_lineage s) = Some ltc
    /\ ((pars = [] /\ c_depth s = 3 /\ c_tree s = NL (NL cells :: rows) :: old)
        \/ (c_depth s = 4 /\ c_tree s = NL (NL (NL pars :: cells) :: rows) :: old)).

  Lemma cell_par_step rows cells ltr ltc pars e ks path s s' :
    simple_par (AE e ks) = true -> cell_st rows cells ltr ltc pars s ->
    walk v path (AE e ks) s = Ok s' ->
    exists p, cell_st rows cells ltr ltc (NP p :: pars) s' /\ c_depth s' = 4 /\
      p_elem p = Some path /\ p_copy p = false /\
      p_lineage p = (Some lt, Some ltr, Some ltc, Some (e_local e)).
  Proof.
    intros Hsp (Hi & Ho & L1 & L2 & L3 & Sh) H.
    destruct (simple_par_step v e ks path s s' Hsp Hi H)
      as (sa & p & t & Ea & Et & Ht & D' & Lp & K & El & Cp & O').
    exists p.
    assert (Tt : t = NL (NL (NL (NP p :: pars) :: cells) :: rows) :: old).
    { destruct Sh as [(-> & D & T)|(D & T)].
      - destruct (set_caret_drop1 3 _ s sa D Ea) as (t1 & E1 & T1).
        rewrite T in E1. cbn in E1. injection E1 as <-.
        rewrite T1 in Et. cbn in Et. injection Et as <-. reflexivity.
      - assert (Tu : c_tree sa = c_tree s) by (apply (set_caret_up 4 (Some (e_local e)) s sa); [lia|exact Ea]).
        rewrite Tu, T in Et. cbn in Et. injection Et as <-. reflexivity. }
    split.
    - split; [eapply walk_inv; eauto|]. split; [intro E; rewrite O'; exact (Ho E)|].
      rewrite (K 1), (K 2), (K 3) by lia. repeat (split; [assumption|]).
      right. split; [exact D'|]. rewrite Ht. exact Tt.
    - split; [exact D'|]. split; [exact El|]. split; [exact Cp|].
      rewrite Lp, L1, L2, L3. reflexivity.
  Qed.

  Lemma cell_kids rows cells ltr ltc path : forall ks i s s' pars,
    forallb (fun k => simple_par k || no_par k) ks = true ->
    forallb (fun k => simple_par k || fill1 ne k) ks = true ->
    cell_st rows cells ltr ltc pars s ->
    kids_loop v path ks i s = Ok s' ->
    exists new, cell_st rows cells ltr ltc (new ++ pars) s' /\
      Forall2 (par_rec lt ltr ltc path) (sel simple_par ks i) (rev new) /\
      (c_depth s = 4 \/ existsb simple_par ks = true -> c_depth s' = 4).
  Proof.
    induction ks as [|k r IH]; intros i s s' pars Hf Hq Hs H.
    - cbn [kids_loop] in H. injection H as <-. exists []. split; [exact Hs|].
      split; [constructor|]. intros [D|D]; [exact D|discriminate D].
    - cbn [forallb] in Hf, Hq. apply andb_true_iff in Hf. destruct Hf as [F1 F2].
      apply andb_true_iff in Hq. destruct Hq as [Q1 Q2].
      cbn [kids_loop] in H. bind_inv H as s1 E1.
      destruct (simple_par k) eqn:Es.
      + destruct k as [e ks'|tl]; [|discriminate Es].
        destruct (cell_par_step _ _ _ _ _ _ _ _ _ _ Es Hs E1) as (p & S1 & D1 & El & Cp & Lp).
        destruct (IH (S i) s1 s' (NP p :: pars) F2 Q2 S1 H) as (new & S' & HF & HD).
        exists (new ++ [NP p]). rewrite <- app_assoc. split; [exact S'|]. split.
        * cbn [sel]. rewrite Es, rev_unit. constructor; [|exact HF].
          exists e, ks', p. cbn [fst snd]. auto.
        * intros _. apply HD. left. exact D1.
      + cbn [orb] in F1, Q1.
        destruct Hs as (Hi & Ho & L1 & L2 & L3 & Sh).
        destruct (filler_walk k (i :: path) s s1 F1 Q1 Hi Ho E1) as (I1 & O1 & T1 & D1 & Ln1).
        assert (S1 : cell_st rows cells ltr ltc pars s1).
        { unfold cell_st. rewrite T1, D1, Ln1. auto 10. }
        destruct (IH (S i) s1 s' pars F2 Q2 S1 H) as (new & S' & HF & HD).
        exists new. split; [exact S'|]. split.
        * cbn [sel]. rewrite Es. exact HF.
        * cbn [existsb]. rewrite Es, <- D1. cbn [orb]. exact HD.
  Qed.

  (* ---------------- inside a row ---------------- *)
  Definition row_st (rows : list node) (ltr : str) (cells : list node) (s : cst) : Prop :=
    Inv s /\ opn s /\ slot 1 (c_lineage s) = Some lt /\ slot 2 (c_lineage s) = Some ltr
    /\ ((cells = [] /\ c_depth s = 2 /\ c_tree s = NL rows :: old)
        \/ (c_depth s = 3 /\ c_tree s = NL (NL cells :: rows) :: old)).

  (* since the repair of _close_table_cell the span is only parsed when the newest table has
     a row (otherwise the method returns at once), hence the hypothesis on the tree *)
  Lemma close_ok_props e ks s s' r0 rws rest :
    c_tree s = NL (r0 :: rws) :: rest ->
    close_table_cell v e ks s = Ok s' ->
    exists pr g, gather_Pr e ks = Ok pr /\ span_of pr = Ok g.
  Proof.
    intros Ht H. rewrite close_table_cell_eq in H.
    bind_inv H as pr Epr. rewrite Ht in H. cbn [as_list bind] in H.
    bind_inv H as dm Ed. cbv zeta in H.
    bind_inv H as s1 E1. bind_inv H as g Eg. exists pr, g. auto.
  Qed.

  (* one w:tc: the newest row grows by the block of grid columns of the cell *)
  Lemma cell_walk rows ltr cells e ks i rpath s s' :
    flat_cell (AE e ks) = true -> cell_fill ne (AE e ks) = true ->
    row_st rows ltr cells s -> walk v (i :: rpath) (AE e ks) s = Ok s' ->
    exists c cells', cell_spec lt ltr rpath (i, AE e ks) c /\
      row_st rows ltr cells' s' /\ c_depth s' = 3 /\
      rev cells' = rev cells ++ cell_block (env_dup v) (prev_doc rows) (length (rev cells)) c.
  Proof.
    intros Hf Hq (Hi & Ho & L1 & L2 & Sh) H.
    pose proof (flat_cell_depth _ Hf) as Hd.
    cbn [flat_cell] in Hf. apply andb_true_iff in Hf. destruct Hf as [Hf Hex].
    apply andb_true_iff in Hf. destruct Hf as [Htag Hks]. apply str_eqb_eq in Htag.
    cbn [cell_fill] in Hq.
    apply walk_AE_inv in H.
    destruct H as (s1 & body & s2 & b & s3 & s4 & E1 & Eo & Ek & Ec & E5).
    rewrite Hd in E1, E5.
    (* the caret goes to depth 3; the first cell of a row creates the row *)
    destruct (set_caret_facts 3 _ s s1 ltac:(lia) Hi E1) as (I1 & D1 & O1 & N1 & K1).
    assert (T1 : c_tree s1 = NL (NL cells :: rows) :: old).
    { destruct Sh as [(-> & D & T)|(D & T)].
      - destruct (set_caret_drop1 2 _ s s1 D E1) as (t1 & Et1 & Tt1).
        rewrite T in Et1. cbn in Et1. injection Et1 as <-. exact Tt1.
      - rewrite (set_caret_up 3 (Some (e_local e)) s s1 ltac:(lia) E1). exact T. }
    assert (C1 : cell_st rows cells ltr (e_local e) [] s1).
    { split; [exact I1|]. split; [intro E; rewrite O1; exact (Ho E)|].
      rewrite (K1 1), (K1 2) by lia. repeat (split; [assumption|]). left. auto. }
    rewrite no_open_method in Eo by (rewrite Htag; reflexivity). injection Eo as <- <-.
    (* the paragraphs *)
    destruct (cell_kids rows cells ltr (e_local e) (i :: rpath) ks 0 s1 s3 [] Hks Hq C1 Ek)
      as (new & C3 & HF & HD).
    rewrite app_nil_r in C3. destruct C3 as (I3 & O3 & A1 & A2 & A3 & Sh3).
    assert (D3 : c_depth s3 = 4) by (apply HD; right; exact Hex).
    destruct Sh3 as [(_ & D & _)|(_ & T3)]; [lia|].
    (* close_table_cell *)
    unfold close_tag in Ec. cbv zeta in Ec. rewrite Htag in Ec.
    change (str_eqb tag_TABLE_CELL tag_PARAGRAPH) with false in Ec.
    change (str_eqb tag_TABLE_CELL tag_RUN) with false in Ec.
    change (str_eqb tag_TABLE_CELL tag_TABLE_CELL) with true in Ec. cbv iota in Ec.
    destruct (close_ok_props _ _ _ _ _ _ _ T3 Ec) as (pr & g & Epr & Eg).
    destruct (close_cell_step_full v e ks s3 pr g (NL new) cells rows old I3 Epr Eg T3 ltac:(lia))
      as (s4' & Ec' & T4 & D4 & S4).
    rewrite Ec in Ec'. injection Ec' as <-. cbv zeta in T4.
    pose proof (close_table_cell_inv v e ks s3 s4 I3 Ec) as I4.
    pose proof (close_table_cell_lineage _ _ _ _ _ Ec) as K4.
    destruct (set_caret_facts 3 None s4 s' ltac:(lia) I4 E5) as (I5 & D5 & O5 & _ & K5).
    pose proof (set_caret_up 3 None s4 s' ltac:(lia) E5) as T5.
    exists {| cs_span := span_cols g; cs_cont := is_continuation pr; cs_own := NL new |}.
    eexists. split; [|split; [|split; [exact D5|]]].
    - exists e, ks, pr, g, new. cbn [fst snd cs_span cs_cont cs_own]. auto 10.
    - split; [exact I5|]. split.
      { intro E. rewrite O5. destruct S4 as (O4 & _). rewrite O4. exact (O3 E). }
      rewrite (K5 1), (K5 2), (K4 1), (K4 2) by lia.
      split; [exact A1|]. split; [exact A2|]. right. split; [exact D5|].
      rewrite T5. exact T4.
    - rewrite <- (rev_step (env_dup v)
                    {| cs_span := span_cols g; cs_cont := is_continuation pr; cs_own := NL new |}
                    cells rows).
      cbn [cs_span cs_cont cs_own].
      replace (Z.to_nat (Z.of_nat (span_cols g) - 1)) with (Z.to_nat (g - 1))
        by (unfold span_cols; lia).
      reflexivity.
  Qed.

  Lemma row_kids rows ltr rpath : forall ks i s s' cells,
    forallb (fun k => flat_cell k || no_par k) ks = true ->
    forallb (fun k => if flat_cell k then cell_fill ne k else fill1 ne k) ks = true ->
    row_st rows ltr cells s -> kids_loop v rpath ks i s = Ok s' ->
    exists specs cells', row_st rows ltr cells' s' /\
      Forall2 (cell_spec lt ltr rpath) (sel flat_cell ks i) specs /\
      rev cells' = grid_row (env_dup v) (prev_doc rows) specs (rev cells) /\
      (c_depth s = 3 \/ existsb flat_cell ks = true -> c_depth s' = 3).
  Proof.
    induction ks as [|k r IH]; intros i s s' cells Hf Hq Hs H.
    - cbn [kids_loop] in H. injection H as <-. exists [], cells. split; [exact Hs|].
      split; [constructor|]. split; [reflexivity|]. intros [D|D]; [exact D|discriminate D].
    - cbn [forallb] in Hf, Hq. apply andb_true_iff in Hf. destruct Hf as [F1 F2].
      apply andb_true_iff in Hq. destruct Hq as [Q1 Q2].
      cbn [kids_loop] in H. bind_inv H as s1 E1.
      destruct (flat_cell k) eqn:Es.
      + destruct k as [e ks'|tl]; [|discriminate Es].
        destruct (cell_walk rows ltr cells e ks' i rpath s s1 Es Q1 Hs E1)
          as (c & cells1 & Hc & S1 & D1 & R1).
        destruct (IH (S i) s1 s' cells1 F2 Q2 S1 H) as (specs & cells' & S' & HF & R' & HD).
        exists (c :: specs), cells'. split; [exact S'|]. split.
        { cbn [sel]. rewrite Es. constructor; assumption. }
        split.
        { rewrite grid_row_cons, <- R1. exact R'. }
        intros _. apply HD. left. exact D1.
      + cbn [orb] in F1.
        destruct Hs as (Hi & Ho & L1 & L2 & Sh).
        destruct (filler_walk k (i :: rpath) s s1 F1 Q1 Hi Ho E1) as (I1 & O1 & T1 & D1 & Ln1).
        assert (S1 : row_st rows ltr cells s1).
        { unfold row_st. rewrite T1, D1, Ln1. auto 10. }
        destruct (IH (S i) s1 s' cells F2 Q2 S1 H) as (specs & cells' & S' & HF & R' & HD).
        exists specs, cells'. split; [exact S'|]. split.
        { cbn [sel]. rewrite Es. exact HF. }
        split; [exact R'|].
        cbn [existsb]. rewrite Es, <- D1. cbn [orb]. exact HD.
  Qed.

  (* ---------------- inside the table ---------------- *)
  Definition tbl_st (rows : list node) (s : cst) : Prop :=
    Inv s /\ opn s /\ slot 1 (c_lineage s) = Some lt
    /\ ((rows = [] /\ c_depth s = 1 /\ c_tree s = old)
        \/ (c_depth s = 2 /\ c_tree s = NL rows :: old)).

  (* one w:tr: one more row, the grid row of its cells *)
  Lemma row_walk rows e ks i tpath s s' :
    flat_row (AE e ks) = true -> row_fill ne (AE e ks) = true ->
    tbl_st rows s -> walk v (i :: tpath) (AE e ks) s = Ok s' ->
    exists r cells', row_spec lt tpath (i, AE e ks) r /\
      tbl_st (NL cells' :: rows) s' /\ c_depth s' = 2 /\
      rev cells' = grid_row (env_dup v) (prev_doc rows) r [].
  Proof.
    intros Hf Hq (Hi & Ho & L1 & Sh) H.
    pose proof (flat_row_depth _ Hf) as Hd.
    cbn [flat_row] in Hf. apply andb_true_iff in Hf. destruct Hf as [Hf Hex].
    apply andb_true_iff in Hf. destruct Hf as [Htag Hks]. apply str_eqb_eq in Htag.
    cbn [row_fill] in Hq.
    assert (Q : quiet_tag (e_ptag e) = true) by (rewrite Htag; reflexivity).
    apply walk_AE_inv in H.
    destruct H as (s1 & body & s2 & b & s3 & s4 & E1 & Eo & Ek & Ec & E5).
    rewrite Hd in E1, E5.
    destruct (set_caret_facts 2 _ s s1 ltac:(lia) Hi E1) as (I1 & D1 & O1 & N1 & K1).
    assert (T1 : c_tree s1 = NL rows :: old).
    { destruct Sh as [(-> & D & T)|(D & T)].
      - destruct (set_caret_drop1 1 _ s s1 D E1) as (t1 & Et1 & Tt1).
        rewrite T in Et1. cbn in Et1. injection Et1 as <-. exact Tt1.
      - rewrite (set_caret_up 2 (Some (e_local e)) s s1 ltac:(lia) E1). exact T. }
    assert (C1 : row_st rows (e_local e) [] s1).
    { split; [exact I1|]. split; [intro E; rewrite O1; exact (Ho E)|].
      rewrite (K1 1) by lia. repeat (split; [assumption|]). left. auto. }
    rewrite (quiet_open v _ _ e ks body s1 Q) in Eo. injection Eo as <- <-.
    destruct (row_kids rows (e_local e) (i :: tpath) ks 0 s1 s3 [] Hks Hq C1 Ek)
      as (specs & cells' & C3 & HF & R3 & HD).
    cbn [rev] in R3. destruct C3 as (I3 & O3 & A1 & A2 & Sh3).
    assert (D3 : c_depth s3 = 3) by (apply HD; right; exact Hex).
    destruct Sh3 as [(_ & D & _)|(_ & T3)]; [lia|].
    rewrite (quiet_close v e ks s3 Q) in Ec. injection Ec as <-.
    destruct (set_caret_facts 2 None s3 s' ltac:(lia) I3 E5) as (I5 & D5 & O5 & _ & K5).
    pose proof (set_caret_up 2 None s3 s' ltac:(lia) E5) as T5.
    exists specs, cells'. split.
    { exists e, ks. cbn [fst snd]. auto. }
    split; [|split; [exact D5|exact R3]].
    split; [exact I5|]. split; [intro E; rewrite O5; exact (O3 E)|].
    rewrite (K5 1) by lia. split; [exact A1|]. right. split; [exact D5|].
    rewrite T5. exact T3.
  Qed.

  Lemma tbl_kids tpath : forall ks i s s' rows,
    forallb (fun k => flat_row k || no_par k) ks = true ->
    forallb (fun k => if flat_row k then row_fill ne k else fill1 ne k) ks = true ->
    tbl_st rows s -> kids_loop v tpath ks i s = Ok s' ->
    exists rs rows', tbl_st rows' s' /\
      Forall2 (row_spec lt tpath) (sel flat_row ks i) rs /\
      rows' = rev (map (fun r => NL (rev r)) (grid (env_dup v) (prev_doc rows) rs)) ++ rows /\
      (c_depth s = 2 \/ existsb flat_row ks = true -> c_depth s' = 2).
  Proof.
    induction ks as [|k r IH]; intros i s s' rows Hf Hq Hs H.
    - cbn [kids_loop] in H. injection H as <-. exists [], rows. split; [exact Hs|].
      split; [constructor|]. split; [reflexivity|]. intros [D|D]; [exact D|discriminate D].
    - cbn [forallb] in Hf, Hq. apply andb_true_iff in Hf. destruct Hf as [F1 F2].
      apply andb_true_iff in Hq. destruct Hq as [Q1 Q2].
      cbn [kids_loop] in H. bind_inv H as s1 E1.
      destruct (flat_row k) eqn:Es.
      + destruct k as [e ks'|tl]; [|discriminate Es].
        destruct (row_walk rows e ks' i tpath s s1 Es Q1 Hs E1)
          as (rw & cells1 & Hr & S1 & D1 & R1).
        destruct (IH (S i) s1 s' (NL cells1 :: rows) F2 Q2 S1 H)
          as (rs & rows' & S' & HF & R' & HD).
        exists (rw :: rs), rows'. split; [exact S'|]. split.
        { cbn [sel]. rewrite Es. constructor; assumption. }
        split.
        { rewrite R'. cbn [grid prev_doc]. cbv zeta. rewrite <- R1. cbn [map rev].
          rewrite rev_involutive, <- app_assoc. reflexivity. }
        intros _. apply HD. left. exact D1.
      + cbn [orb] in F1.
        destruct Hs as (Hi & Ho & L1 & Sh).
        destruct (filler_walk k (i :: tpath) s s1 F1 Q1 Hi Ho E1) as (I1 & O1 & T1 & D1 & Ln1).
        assert (S1 : tbl_st rows s1).
        { unfold tbl_st. rewrite T1, D1, Ln1. auto 10. }
        destruct (IH (S i) s1 s' rows F2 Q2 S1 H) as (rs & rows' & S' & HF & R' & HD).
        exists rs, rows'. split; [exact S'|]. split.
        { cbn [sel]. rewrite Es. exact HF. }
        split; [exact R'|].
        cbn [existsb]. rewrite Es, <- D1. cbn [orb]. exact HD.
  Qed.
End Levels.

(* ================================================================== *)
(* PART 5 — the whole table                                             *)
(* ================================================================== *)
(* The statement asked for, under the filler hypothesis [tbl_fill] (see
   Part 6 for why it cannot be dropped).  Orientation: every list of c_tree
   is newest-first, [grid] is in document order, hence the two [rev]. *)
Theorem flat_tbl_walk_is_grid_partial : forall v t path s s',
  flat_tbl t = true -> tbl_fill (nonempty (c_open s)) t = true ->
  Inv s -> walk v path t s = Ok s' ->
  exists rows : list (list cellspec),
    table_spec path t rows /\
    c_tree s' = NL (rev (map (fun r => NL (rev r)) (grid (env_dup v) None rows))) :: c_tree s.
Proof.
  intros v t path s s' Hf Hq Hi H.
  pose proof (flat_tbl_depth t Hf) as Hd.
  destruct t as [e ks|tl]; [|discriminate Hf].
  cbn [flat_tbl] in Hf. apply andb_true_iff in Hf. destruct Hf as [Hf Hex].
  apply andb_true_iff in Hf. destruct Hf as [Htag Hks]. apply str_eqb_eq in Htag.
  cbn [tbl_fill] in Hq.
  assert (Q : quiet_tag (e_ptag e) = true) by (rewrite Htag; reflexivity).
  apply walk_AE_inv in H.
  destruct H as (s1 & body & s2 & b & s3 & s4 & E1 & Eo & Ek & Ec & E5).
  rewrite Hd in E1, E5.
  destruct (set_caret_facts 1 _ s s1 ltac:(lia) Hi E1) as (I1 & D1 & O1 & N1 & K1).
  assert (T1 : c_tree s1 = c_tree s).
  { apply (set_caret_up 1 (Some (e_local e)) s s1); [|exact E1]. destruct Hi as (_ & R & _). lia. }
  set (ne := nonempty (c_open s)) in *.
  assert (C1 : tbl_st ne (c_tree s) (e_local e) [] s1).
  { split; [exact I1|]. split.
    { intro E. rewrite O1. unfold ne in E. destruct (c_open s); [discriminate E|discriminate]. }
    split; [exact N1|]. left. auto. }
  rewrite (quiet_open v _ _ e ks body s1 Q) in Eo. injection Eo as <- <-.
  destruct (tbl_kids v ne (c_tree s) (e_local e) path ks 0 s1 s3 [] Hks Hq C1 Ek)
    as (rs & rows' & C3 & HF & R3 & HD).
  cbn [prev_doc] in R3. rewrite app_nil_r in R3. destruct C3 as (I3 & O3 & A1 & Sh3).
  assert (D3 : c_depth s3 = 2) by (apply HD; right; exact Hex).
  destruct Sh3 as [(_ & D & _)|(_ & T3)]; [lia|].
  rewrite (quiet_close v e ks s3 Q) in Ec. injection Ec as <-.
  pose proof (set_caret_up 1 None s3 s' ltac:(lia) E5) as T5.
  exists rs. split; [exists e, ks; auto|].
  rewrite T5, T3, R3. reflexivity.
Qed.

(* one row per source row, one cell per grid column *)
Corollary flat_tbl_n_by_m : forall v t path s s',
  flat_tbl t = true -> tbl_fill (nonempty (c_open s)) t = true ->
  Inv s -> walk v path t s = Ok s' ->
  exists (rows : list (list cellspec)) (tbl : list node),
    table_spec path t rows /\ c_tree s' = NL tbl :: c_tree s /\
    Forall (Forall (fun c => 1 <= cs_span c)) rows /\
    forall W, Forall (fun r => row_width r = W) rows ->
      length tbl = length rows /\
      Forall (fun r => exists cells, r = NL cells /\ length cells = W) tbl.
Proof.
  intros v t path s s' Hf Hq Hi H.
  destruct (flat_tbl_walk_is_grid_partial v t path s s' Hf Hq Hi H) as (rows & Hs & Ht).
  pose proof (table_spec_spans path t rows Hs) as Hsp.
  exists rows. eexists. split; [exact Hs|]. split; [exact Ht|]. split; [exact Hsp|].
  intros W HW.
  destruct (grid_n_by_m (env_dup v) rows W) as [L F].
  { apply Forall_forall. intros r Hr. split.
    - exact (proj1 (Forall_forall _ _) Hsp r Hr).
    - exact (proj1 (Forall_forall _ _) HW r Hr). }
  split.
  - rewrite rev_length, map_length. exact L.
  - apply Forall_rev'. apply Forall_map. eapply Forall_impl; [|exact F].
    intros out Hout. cbv beta. exists (rev out). split; [reflexivity|].
    rewrite rev_length. exact Hout.
Qed.

(* ---------- document order ---------- *)
Lemma unrev_tbl (G : list (list node)) :
  unrev (NL (rev (map (fun r => NL (rev r)) G))) = NL (map (fun r => NL (map unrev r)) G).
Proof.
  cbn [unrev]. rewrite map_rev, rev_involutive, map_map. f_equal.
  apply map_ext. intro r. cbn [unrev]. rewrite map_rev, rev_involutive. reflexivity.
Qed.

Lemma unrev_list_cons x l : unrev_list (x :: l) = unrev_list l ++ [unrev x].
Proof. reflexivity. Qed.

Lemma unrev_copy_node : forall n, unrev (copy_node n) = copy_node (unrev n).
Proof.
  induction n as [p|l IH] using TokFacts.node_ind'; [reflexivity|].
  cbn [copy_node unrev]. f_equal. rewrite map_rev. f_equal. rewrite !map_map.
  induction IH as [|x l Hx Hl IHl]; [reflexivity|].
  cbn [map]. rewrite Hx, IHl. reflexivity.
Qed.

Lemma map_repeat' {A B} (f : A -> B) (a : A) : forall n, map f (repeat a n) = repeat (f a) n.
Proof. induction n as [|n IH]; [reflexivity|]. cbn [repeat map]. rewrite IH. reflexivity. Qed.

(* a cell description in document order *)
Definition unrev_spec (c : cellspec) : cellspec :=
  {| cs_span := cs_span c; cs_cont := cs_cont c; cs_own := unrev (cs_own c) |}.

Lemma grid_row_unrev dup prev : forall cells acc,
  map unrev (grid_row dup prev cells acc)
  = grid_row dup (option_map (map unrev) prev) (map unrev_spec cells) (map unrev acc).
Proof.
  induction cells as [|c r IH]; intro acc; [reflexivity|].
  cbn [map]. rewrite !grid_row_cons, IH. f_equal.
  rewrite map_app, map_length. f_equal.
  unfold cell_block. cbn [map]. rewrite map_repeat'.
  assert (R : unrev (cell_res dup prev (length acc) c)
              = cell_res dup (option_map (map unrev) prev) (length acc) (unrev_spec c)).
  { unfold cell_res. cbn [unrev_spec cs_cont cs_own].
    destruct (dup && cs_cont c)%bool; [|reflexivity].
    destruct prev as [p|]; [|reflexivity]. cbn [option_map].
    rewrite nth_error_map. destruct (nth_error p (length acc)) as [src|]; [|reflexivity].
    cbn [option_map]. apply unrev_copy_node. }
  rewrite R. f_equal. cbn [unrev_spec cs_span]. f_equal.
  unfold filler. destruct dup; [|reflexivity]. rewrite <- R. apply unrev_copy_node.
Qed.

Lemma grid_unrev dup : forall rows prev,
  map (map unrev) (grid dup prev rows)
  = grid dup (option_map (map unrev) prev) (map (map unrev_spec) rows).
Proof.
  induction rows as [|r rest IH]; intro prev; [reflexivity|].
  cbn [grid map]. cbv zeta. rewrite IH. cbn [option_map].
  rewrite (grid_row_unrev dup prev r []). reflexivity.
Qed.

(* the extracted table in document order is the grid of the cells in document
   order: unrev_list is what the model finally hands out *)
Corollary flat_tbl_walk_is_grid_doc : forall v t path s s',
  flat_tbl t = true -> tbl_fill (nonempty (c_open s)) t = true ->
  Inv s -> walk v path t s = Ok s' ->
  exists rows : list (list cellspec),
    table_spec path t rows /\
    unrev_list (c_tree s')
    = unrev_list (c_tree s)
      ++ [NL (map NL (grid (env_dup v) None (map (map unrev_spec) rows)))].
Proof.
  intros v t path s s' Hf Hq Hi H.
  destruct (flat_tbl_walk_is_grid_partial v t path s s' Hf Hq Hi H) as (rows & Hs & Ht).
  exists rows. split; [exact Hs|].
  rewrite Ht, unrev_list_cons, unrev_tbl. do 3 f_equal.
  pose proof (grid_unrev (env_dup v) rows None) as G. cbn [option_map] in G.
  rewrite <- G, map_map. reflexivity.
Qed.

(* ---------- what sits at each grid position ---------- *)
(* row i of the grid is the grid row of source row i, computed against the
   extracted row above it *)
Lemma grid_nth dup : forall rows prev i r,
  nth_error rows i = Some r ->
  nth_error (grid dup prev rows) i
  = Some (grid_row dup (match i with
                        | 0 => prev
                        | S i' => nth_error (grid dup prev rows) i'
                        end) r []).
Proof.
  induction rows as [|r0 rest IH]; intros prev i r H; [destruct i; discriminate H|].
  destruct i as [|i'].
  - cbn [nth_error] in H. injection H as <-. reflexivity.
  - cbn [nth_error] in H. cbn [grid]. cbv zeta. cbn [nth_error].
    rewrite (IH _ _ _ H). destruct i' as [|i'']; reflexivity.
Qed.

Lemma row_spans_of rows i r :
  Forall (Forall (fun c => 1 <= cs_span c)) rows -> nth_error rows i = Some r ->
  Forall (fun c => 1 <= cs_span c) r.
Proof.
  intros HF H. apply nth_error_In in H. exact (proj1 (Forall_forall _ _) HF r H).
Qed.

(* The cell c of source row i that starts at grid column j (start_cols):
   - duplicate_merged_cells = False: column j holds the cell's own paragraphs,
     the other columns it spans hold one empty paragraph each;
   - True, not a continuation: its own paragraphs, then copies of them;
   - True, vMerge continuation below an extracted cell src: copies of src in
     every column it spans (its own content is dropped). *)
Theorem grid_positions : forall dup rows i r j c,
  Forall (Forall (fun c => 1 <= cs_span c)) rows ->
  nth_error rows i = Some r -> In (j, c) (start_cols r 0) ->
  exists out, nth_error (grid dup None rows) i = Some out /\
    (dup = false ->
       nth_error out j = Some (cs_own c)
       /\ forall k, 1 <= k < cs_span c -> nth_error out (j + k) = Some blank_cell) /\
    (dup = true -> cs_cont c = false ->
       nth_error out j = Some (cs_own c)
       /\ forall k, 1 <= k < cs_span c -> nth_error out (j + k) = Some (copy_node (cs_own c))) /\
    (dup = true -> cs_cont c = true ->
       forall i' above src, i = S i' -> nth_error (grid dup None rows) i' = Some above ->
         nth_error above j = Some src ->
         forall k, k < cs_span c -> nth_error out (j + k) = Some (copy_node src)) /\
    (dup = true -> cs_cont c = true -> i = 0 -> nth_error out j = Some (cs_own c)).
Proof.
  intros dup rows i r j c Hsp Hr Hin.
  pose proof (row_spans_of rows i r Hsp Hr) as Hs.
  eexists. split; [apply grid_nth; exact Hr|].
  split; [|split; [|split]].
  - intros ->. apply grid_false_blanks; assumption.
  - intros -> Hc. exact (proj1 (grid_true_duplicates _ r j c Hs Hin) Hc).
  - intros -> Hc i' above src -> Ha Hsrc k Hk. cbv iota.
    exact (proj2 (grid_true_duplicates _ r j c Hs Hin) Hc above src Ha Hsrc k Hk).
  - intros -> Hc ->. apply grid_true_cont_fallback; [exact Hs|exact Hin|left; reflexivity].
Qed.

(* the walk and the positions together *)
Corollary flat_tbl_positions : forall v t path s s',
  flat_tbl t = true -> tbl_fill (nonempty (c_open s)) t = true ->
  Inv s -> walk v path t s = Ok s' ->
  exists (rows : list (list cellspec)) (G : list (list node)),
    table_spec path t rows /\ G = grid (env_dup v) None rows /\
    c_tree s' = NL (rev (map (fun r => NL (rev r)) G)) :: c_tree s /\
    forall i r j c, nth_error rows i = Some r -> In (j, c) (start_cols r 0) ->
      exists out, nth_error G i = Some out /\
        (env_dup v = false ->
           nth_error out j = Some (cs_own c)
           /\ forall k, 1 <= k < cs_span c -> nth_error out (j + k) = Some blank_cell) /\
        (env_dup v = true -> cs_cont c = false ->
           nth_error out j = Some (cs_own c)
           /\ forall k, 1 <= k < cs_span c ->
                nth_error out (j + k) = Some (copy_node (cs_own c))) /\
        (env_dup v = true -> cs_cont c = true ->
           forall i' above src, i = S i' -> nth_error G i' = Some above ->
             nth_error above j = Some src ->
             forall k, k < cs_span c -> nth_error out (j + k) = Some (copy_node src)).
Proof.
  intros v t path s s' Hf Hq Hi H.
  destruct (flat_tbl_walk_is_grid_partial v t path s s' Hf Hq Hi H) as (rows & Hs & Ht).
  exists rows, (grid (env_dup v) None rows).
  split; [exact Hs|]. split; [reflexivity|]. split; [exact Ht|].
  intros i r j c Hr Hin.
  destruct (grid_positions (env_dup v) rows i r j c (table_spec_spans _ _ _ Hs) Hr Hin)
    as (out & Ho & P1 & P2 & P3 & _).
  exists out. auto.
Qed.

(* ================================================================== *)
(* PART 6 — the unrestricted statement is false; examples               *)
(* ================================================================== *)
Definition ex_env (d : bool) : env :=
  {| env_x2h := []; env_rels := []; env_dup := d; env_numtbl := [] |}.
Definition ex_text (txt : str) : anode :=
  AE {| e_ptag := tag_TEXT; e_uri := None; e_local := [116%N]; e_wuri := Some [119%N];
        e_ruri := None; e_attrs := []; e_text := Some txt; e_tail := None |} [].
Definition ex_run (ks : list anode) : anode := AE (cx_einfo tag_RUN [114%N] []) ks.
Definition ex_par (txt : str) : anode :=
  AE (cx_einfo tag_PARAGRAPH [112%N] []) [ex_run [ex_text txt]].
(* <w:tcPr> ... </w:tcPr>, <w:gridSpan w:val="2"/>, <w:vMerge/> *)
Definition ex_tcPr (props : list anode) : anode :=
  AE (cx_einfo [119;58;116;99;80;114]%N [116;99;80;114]%N []) props.
Definition ex_gridSpan2 : anode :=
  AE (cx_einfo [119;58;103;114;105;100;83;112;97;110]%N s_gridSpan
               [((Some [119%N], s_val), [50%N])]) [].
Definition ex_vMerge : anode :=
  AE (cx_einfo [119;58;118;77;101;114;103;101]%N s_vMerge []) [].
Definition ex_tc (ks : list anode) : anode := AE (cx_einfo tag_TABLE_CELL s_tc []) ks.
Definition ex_tr (ks : list anode) : anode := AE (cx_einfo tag_TABLE_ROW s_tr []) ks.
Definition ex_tbl_of (ks : list anode) : anode := AE (cx_einfo tag_TABLE s_tbl []) ks.

(* COUNTEREXAMPLE to the statement without [tbl_fill]: a w:r directly below
   w:tbl (flat_tbl allows any paragraph-free child) opens a paragraph, the
   caret drops to depth 4, and the extracted table gets an extra row that
   holds one empty cell. *)
Definition bad_tbl : anode := ex_tbl_of [ex_run []; ex_tr [ex_tc [ex_par [65%N]]]].

Lemma flat_tbl_walk_is_grid_counterexample :
  exists v t path s s',
    flat_tbl t = true /\ Inv s /\ walk v path t s = Ok s' /\
    ~ (exists rows : list (list cellspec),
         table_spec path t rows /\
         c_tree s' = NL (rev (map (fun r => NL (rev r)) (grid (env_dup v) None rows)))
                     :: c_tree s).
Proof.
  exists (ex_env true), bad_tbl, [], init_cst. eexists.
  split; [vm_compute; reflexivity|]. split; [exact init_inv|].
  split; [vm_compute; reflexivity|].
  intros (rows & (e & ks & Et & HF) & Ht).
  injection Et as <- <-.
  change (sel flat_row [ex_run []; ex_tr [ex_tc [ex_par [65%N]]]] 0)
    with [(1, ex_tr [ex_tc [ex_par [65%N]]])] in HF.
  inversion HF as [|ik r iks rest _ HF']; subst. inversion HF'; subst.
  cbn [c_tree grid map rev app init_cst] in Ht. discriminate Ht.
Qed.

(* it is excluded by the hypothesis of the theorem *)
Example bad_tbl_excluded : tbl_fill (nonempty (c_open init_cst)) bad_tbl = false.
Proof. vm_compute. reflexivity. Qed.

(* ... and with a paragraph open at the start the same table is fine: the
   stray run only adds to that paragraph *)
Example bad_tbl_open_par :
  tbl_fill (nonempty (c_open blank_st)) bad_tbl = true /\ Inv blank_st /\
  exists s' p, walk (ex_env true) [] bad_tbl blank_st = Ok s' /\
    c_tree s' = [NL [NL [NL [NP p]]]] /\ p_elem p = Some [0; 0; 1].
Proof.
  split; [vm_compute; reflexivity|]. split; [exact init_inv|].
  eexists. eexists. split; [vm_compute; reflexivity|]. split; vm_compute; reflexivity.
Qed.

(* EXAMPLE: a 2 x 2 table
     row 0:  [ A, gridSpan = 2 ]
     row 1:  [ B, vMerge continuation ] [ C, D ]
   walked at path [7] from a state that already holds a paragraph. *)
Definition ex22 : anode :=
  ex_tbl_of
    [ex_tr [ex_tc [ex_tcPr [ex_gridSpan2]; ex_par [65%N]]];
     ex_tr [ex_tc [ex_tcPr [ex_vMerge]; ex_par [66%N]];
            ex_tc [ex_par [67%N]; ex_par [68%N]]]].

Definition ex_st : cst :=
  match walk (ex_env true) [3] (ex_par [90%N]) init_cst with Ok s => s | Err _ => init_cst end.

Lemma ex_st_inv : Inv ex_st.
Proof.
  unfold ex_st. destruct (walk (ex_env true) [3] (ex_par [90%N]) init_cst) as [s|x] eqn:E.
  - exact (walk_inv _ _ _ _ _ init_inv E).
  - exact init_inv.
Qed.

(* a view of an extracted table: per row, per cell, the (p_elem, p_copy) of
   the paragraphs *)
Fixpoint leaves (n : node) : list (option (list nat) * bool) :=
  match n with
  | NP p => [(p_elem p, p_copy p)]
  | NL l => concat (map leaves l)
  end.
Definition tbl_view (n : node) : list (list (list (option (list nat) * bool))) :=
  match n with
  | NL rows => map (fun r => match r with NL cells => map leaves cells | NP _ => [] end) rows
  | NP _ => []
  end.

Example ex22_hypotheses :
  flat_tbl ex22 = true /\ tbl_fill (nonempty (c_open ex_st)) ex22 = true /\ Inv ex_st /\
  c_open ex_st = [] /\ c_depth ex_st = 4 /\ length (c_tree ex_st) = 1 /\
  forall d, exists s', walk (ex_env d) [7] ex22 ex_st = Ok s'.
Proof.
  split; [vm_compute; reflexivity|]. split; [vm_compute; reflexivity|].
  split; [exact ex_st_inv|]. split; [vm_compute; reflexivity|].
  split; [vm_compute; reflexivity|]. split; [vm_compute; reflexivity|].
  intros [|]; eexists; vm_compute; reflexivity.
Qed.

(* duplicate_merged_cells = True: the merged columns repeat the content (as
   copies) *)
Example ex22_dup_true :
  exists s' t0 t, walk (ex_env true) [7] ex22 ex_st = Ok s' /\
    unrev_list (c_tree s') = [t0; t] /\ [t0] = unrev_list (c_tree ex_st) /\
    tbl_view t = [ [ [(Some [1;0;0;7], false)]; [(Some [1;0;0;7], true)] ];
                   [ [(Some [1;0;0;7], true)];
                     [(Some [0;1;1;7], false); (Some [1;1;1;7], false)] ] ].
Proof.
  eexists. eexists. eexists. split; [vm_compute; reflexivity|].
  split; [vm_compute; reflexivity|]. split; vm_compute; reflexivity.
Qed.

(* duplicate_merged_cells = False: the extra column of the gridSpan is one
   empty paragraph, the continuation cell keeps its own content *)
Example ex22_dup_false :
  exists s' t0 t, walk (ex_env false) [7] ex22 ex_st = Ok s' /\
    unrev_list (c_tree s') = [t0; t] /\ [t0] = unrev_list (c_tree ex_st) /\
    tbl_view t = [ [ [(Some [1;0;0;7], false)]; [(None, false)] ];
                   [ [(Some [1;0;1;7], false)];
                     [(Some [0;1;1;7], false); (Some [1;1;1;7], false)] ] ].
Proof.
  eexists. eexists. eexists. split; [vm_compute; reflexivity|].
  split; [vm_compute; reflexivity|]. split; vm_compute; reflexivity.
Qed.

(* the theorem applied to the example: the description of the source it finds *)
Example ex22_theorem : forall d s',
  walk (ex_env d) [7] ex22 ex_st = Ok s' ->
  exists rows, table_spec [7] ex22 rows /\
    map (map cs_span) rows = [[2]; [1; 1]] /\
    map (map cs_cont) rows = [[false]; [true; false]] /\
    c_tree s' = NL (rev (map (fun r => NL (rev r)) (grid d None rows))) :: c_tree ex_st /\
    length (grid d None rows) = 2 /\ Forall (fun out => length out = 2) (grid d None rows).
Proof.
  intros d s' H.
  destruct ex22_hypotheses as (Hf & Hq & Hi & _).
  destruct (flat_tbl_walk_is_grid_partial (ex_env d) ex22 [7] ex_st s' Hf Hq Hi H)
    as (rows & Hs & Ht).
  exists rows. split; [exact Hs|].
  pose proof (table_spec_spans _ _ _ Hs) as Hsp.
  destruct Hs as (e & ks & Et & HF). injection Et as <- <-.
  change (sel flat_row (kids_of ex22) 0)
    with [(0, ex_tr [ex_tc [ex_tcPr [ex_gridSpan2]; ex_par [65%N]]]);
          (1, ex_tr [ex_tc [ex_tcPr [ex_vMerge]; ex_par [66%N]];
                     ex_tc [ex_par [67%N]; ex_par [68%N]]])] in HF.
  inversion HF as [|ik0 r0 iks0 rest0 H0 HF0]; subst.
  inversion HF0 as [|ik1 r1 iks1 rest1 H1 HF1]; subst.
  inversion HF1; subst. clear HF HF0 HF1.
  destruct H0 as (e0 & ks0 & E0 & C0). cbn [snd] in E0. injection E0 as <- <-.
  destruct H1 as (e1 & ks1 & E1 & C1). cbn [snd] in E1. injection E1 as <- <-.
  change (sel flat_cell [ex_tc [ex_tcPr [ex_gridSpan2]; ex_par [65%N]]] 0)
    with [(0, ex_tc [ex_tcPr [ex_gridSpan2]; ex_par [65%N]])] in C0.
  change (sel flat_cell [ex_tc [ex_tcPr [ex_vMerge]; ex_par [66%N]];
                         ex_tc [ex_par [67%N]; ex_par [68%N]]] 0)
    with [(0, ex_tc [ex_tcPr [ex_vMerge]; ex_par [66%N]]);
          (1, ex_tc [ex_par [67%N]; ex_par [68%N]])] in C1.
  inversion C0 as [|j0 c0 js0 cs0 G0 C0']; subst. inversion C0'; subst. clear C0 C0'.
  inversion C1 as [|j1 c1 js1 cs1 G1 C1']; subst.
  inversion C1' as [|j2 c2 js2 cs2 G2 C1'']; subst. inversion C1''; subst. clear C1 C1' C1''.
  destruct G0 as (a0 & b0 & pr0 & g0 & l0 & A0 & P0 & S0 & N0 & T0 & _).
  destruct G1 as (a1 & b1 & pr1 & g1 & l1 & A1 & P1 & S1 & N1 & T1 & _).
  destruct G2 as (a2 & b2 & pr2 & g2 & l2 & A2 & P2 & S2 & N2 & T2 & _).
  cbn [snd] in A0, A1, A2. injection A0 as <- <-. injection A1 as <- <-. injection A2 as <- <-.
  vm_compute in P0. injection P0 as <-. vm_compute in S0. injection S0 as <-.
  vm_compute in P1. injection P1 as <-. vm_compute in S1. injection S1 as <-.
  vm_compute in P2. injection P2 as <-. vm_compute in S2. injection S2 as <-.
  assert (W : Forall (fun r => Forall (fun c => 1 <= cs_span c) r /\ row_width r = 2) [[c0]; [c1; c2]]).
  { inversion Hsp as [|? ? Q0 Hsp']; subst. inversion Hsp' as [|? ? Q1 _]; subst.
    constructor; [split; [exact Q0|]|constructor; [split; [exact Q1|]|constructor]].
    - unfold row_width. cbn [fold_right]. rewrite N0. reflexivity.
    - unfold row_width. cbn [fold_right]. rewrite N1, N2. reflexivity. }
  destruct (grid_n_by_m d _ 2 W) as [L F].
  cbn [map]. rewrite N0, N1, N2, T0, T1, T2.
  split; [reflexivity|]. split; [reflexivity|]. split; [exact Ht|]. split; [exact L|exact F].
Qed.

Print Assumptions inert_walk.
Print Assumptions simple_par_step.
Print Assumptions cell_walk.
Print Assumptions row_walk.
Print Assumptions tbl_kids.
Print Assumptions flat_tbl_walk_is_grid_partial.
Print Assumptions flat_tbl_n_by_m.
Print Assumptions grid_unrev.
Print Assumptions flat_tbl_walk_is_grid_doc.
Print Assumptions grid_positions.
Print Assumptions flat_tbl_positions.
Print Assumptions flat_tbl_walk_is_grid_counterexample.
Print Assumptions bad_tbl_excluded.
Print Assumptions bad_tbl_open_par.
Print Assumptions tbl_fill_true.
Print Assumptions flat_tbl_sel_rows.
Print Assumptions flat_row_sel_cells.
Print Assumptions flat_cell_sel_pars.
Print Assumptions ex22_hypotheses.
Print Assumptions ex22_dup_true.
Print Assumptions ex22_dup_false.
Print Assumptions ex22_theorem.
