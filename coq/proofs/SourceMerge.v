(* SourceMerge.v — the DECISIONS of the pre-merge of runs, links and text AS TRANSLATED FROM THE
   SOURCE TEXT (gen/Source.v): attribute_register._is_content / has_content and
   merge_runs._is_mergeable / _elem_key / _is_text_or_text_math are equal to the model's
   is_content / has_content / is_mergeable / elem_key / is_text_like (model/Merge.v), which the
   C02 / C06 / C17 / C18 theorems about merging are about.  (The control structure of
   merge_elems itself - groupby over the content siblings, moving children - stays hand-modelled.)

   An lxml element is read as an object with the fields the translated code reads: `tag` (Clark
   notation), `ptag` (get_prefixed_tag), `nsmap` (only the binding of r matters), `attrib` (Clark
   names), and its children (iteration).  get_html_formatting, which is not translated, is a
   parameter of the translated _elem_key. *)
From Coq Require Import List NArith ZArith Bool Arith Lia.
From D2P Require Import Str Err Xml TableTypes Tables Fmt Bullets Merge PyVal Source SourceBase.
Import ListNotations.

Definition k_Element : str := [69;108;101;109;101;110;116]%N.
Definition k_tag : str := [116;97;103]%N.
Definition k_ptag : str := [112;116;97;103]%N.
Definition k_nsmap : str := [110;115;109;97;112]%N.
Definition k_attrib : str := [97;116;116;114;105;98]%N.
Definition k_rels : str := [114;101;108;115]%N.
Definition k_context : str := [99;111;110;116;101;120;116]%N.
Definition k_x2hf : str := [120;109;108;50;104;116;109;108;95;102;111;114;109;97;116]%N.

(* Clark notation {uri}local *)
Definition clark (a : aname) : str :=
  match fst a with Some u => (123 :: u ++ 125 :: snd a)%N | None => snd a end.

Fixpoint enc_el (t : anode) : pv :=
  match t with
  | AX _ => VObj k_Element [(k_tag, VStr []); (k_ptag, VStr []); (k_nsmap, VDict None []);
                            (k_attrib, VDict None []); (k_iter, VList [])]
  | AE e ks =>
      VObj k_Element
        [(k_tag, VStr (clark (e_uri e, e_local e)));
         (k_ptag, VStr (e_ptag e));
         (k_nsmap, VDict None (match e_ruri e with Some u => [(VStr [114]%N, VStr u)] | None => [] end));
         (k_attrib, VDict None (map (fun kv => (VStr (clark (fst kv)), VStr (snd kv))) (e_attrs e)));
         (k_iter, VList (map enc_el ks))]
  end.

Fixpoint el_height (t : anode) : nat :=
  match t with
  | AX _ => O
  | AE _ ks => S (fold_right (fun k m => Nat.max (el_height k) m) O ks)
  end.

(* every element has a non-empty tag (a parsed element has a non-empty local name) *)
Fixpoint named (t : anode) : Prop :=
  match t with
  | AX _ => True
  | AE e ks => e_local e <> [] /\ (fix all (l : list anode) : Prop :=
                                     match l with [] => True | k :: r => named k /\ all r end) ks
  end.


(* ---------- helper lemmas ---------- *)
Lemma sm_str_eqb_eq : forall a b, str_eqb a b = true <-> a = b.
Proof.
  induction a as [|x a IH]; destruct b as [|y b]; cbn [str_eqb]; split; intro H;
    try reflexivity; try discriminate.
  - apply andb_true_iff in H. destruct H as [H1 H2]. apply N.eqb_eq in H1.
    apply IH in H2. subst. reflexivity.
  - inversion H; subst. rewrite N.eqb_refl. apply IH. reflexivity.
Qed.
Lemma sm_str_eqb_refl : forall a, str_eqb a a = true.
Proof. intro a. apply sm_str_eqb_eq. reflexivity. Qed.

Lemma sm_aname_eqb_eq : forall a b, aname_eqb a b = true <-> a = b.
Proof.
  intros [u l] [u' l']. unfold aname_eqb. cbn [fst snd]. split; intro H.
  - apply andb_true_iff in H. destruct H as [H1 H2]. apply sm_str_eqb_eq in H2. subst.
    destruct u as [u|], u' as [u'|]; cbn [ostr_eqb] in H1; try discriminate; [|reflexivity].
    apply sm_str_eqb_eq in H1. subst. reflexivity.
  - inversion H; subst. rewrite sm_str_eqb_refl.
    destruct u' as [u'|]; cbn [ostr_eqb]; [rewrite sm_str_eqb_refl|]; reflexivity.
Qed.

Lemma sm_pv_eqb_str : forall a b, pv_eqb (VStr a) (VStr b) = str_eqb a b.
Proof. reflexivity. Qed.

Lemma sm_existsb_mem_str : forall x l, existsb (pv_eqb (VStr x)) (map VStr l) = mem_str x l.
Proof.
  induction l as [|a l IH]; cbn [map existsb mem_str]; [reflexivity|].
  rewrite IH, sm_pv_eqb_str. reflexivity.
Qed.

(* the fields of an encoded element *)
Lemma sm_attr_tag : forall e ks,
  py_attr (enc_el (AE e ks)) [116;97;103]%N = Ok (VStr (clark (e_uri e, e_local e))).
Proof. reflexivity. Qed.
Lemma sm_attr_ptag : forall e ks,
  py_attr (enc_el (AE e ks)) [112;116;97;103]%N = Ok (VStr (e_ptag e)).
Proof. reflexivity. Qed.
Lemma sm_attr_nsmap : forall e ks,
  py_attr (enc_el (AE e ks)) [110;115;109;97;112]%N
  = Ok (VDict None (match e_ruri e with Some u => [(VStr [114]%N, VStr u)] | None => [] end)).
Proof. reflexivity. Qed.
Lemma sm_attr_attrib : forall e ks,
  py_attr (enc_el (AE e ks)) [97;116;116;114;105;98]%N
  = Ok (VDict None (map (fun kv => (VStr (clark (fst kv)), VStr (snd kv))) (e_attrs e))).
Proof. reflexivity. Qed.
Lemma sm_iter_el : forall e ks, py_iter (enc_el (AE e ks)) = Ok (map enc_el ks).
Proof. reflexivity. Qed.

(* the Tags sets read by the source translator are those read by the table translator *)
Theorem src_content_tags : S__CONTENT_TAGS = map VStr content_tags.
Proof. reflexivity. Qed.
Theorem src_mergeable_tags : S__MERGEABLE_TAGS = map VStr mergeable_tags.
Proof. reflexivity. Qed.

Lemma sm_in_content : forall s,
  py_in_consts (VStr s) S__CONTENT_TAGS = Ok (VBool (mem_str s content_tags)).
Proof. intro s. unfold py_in_consts. rewrite src_content_tags, sm_existsb_mem_str. reflexivity. Qed.
Lemma sm_in_mergeable : forall s,
  py_in_consts (VStr s) S__MERGEABLE_TAGS = Ok (VBool (mem_str s mergeable_tags)).
Proof. intro s. unfold py_in_consts. rewrite src_mergeable_tags, sm_existsb_mem_str. reflexivity. Qed.

Theorem src_is_content : forall t, S__is_content (enc_el t) = Ok (VBool (is_content t)).
Proof.
  intros [e ks|tl].
  - unfold S__is_content. rewrite sm_attr_ptag. cbn [binde].
    rewrite sm_in_content. reflexivity.
  - vm_compute. reflexivity.
Qed.

(* ---------- has_content ---------- *)
Definition sm_lne (l : list pv) : bool := match l with [] => false | _ => true end.
Definition sm_truthy (x : pv) : Prop := py_truth x = true.

Definition sm_hc_body (fuel' : nat) : pv -> pv -> out pv :=
  fun t4 acc_ =>
    let v_branch := t4 in
    t5 <~ S_has_content_iter_content fuel' v_branch ;;;
    t6 <~ py_list t5 ;;;
    acc_ <~ py_add acc_ t6 ;;;
    Nx acc_.

Lemma sm_iter_content_S : forall f v,
  S_has_content_iter_content (S f) v =
  fn_result (S:=unit) (
    t1 <~ S__is_content v ;;;
    acc_ <~~ (if py_truth t1 then (
      t2 <~ py_attr v ([116;97;103]%N) ;;;
      t3 <~ S_str t2 ;;;
      acc_ <~ py_append (VList []) t3 ;;;
      Nx acc_
    ) else (
      Nx (VList [])
    )) ;;;
    acc_ <~~ py_for v (sm_hc_body f) acc_ ;;;
    Rt acc_).
Proof. reflexivity. Qed.

Lemma sm_has_content_AE : forall e ks,
  has_content (AE e ks) = mem_str (e_ptag e) content_tags || existsb has_content ks.
Proof.
  intros e ks. cbn [has_content]. apply f_equal.
  induction ks as [|k r IH]; cbn [existsb]; [reflexivity|]. rewrite IH. reflexivity.
Qed.

Lemma sm_named_AE : forall e ks, named (AE e ks) -> e_local e <> [] /\ Forall named ks.
Proof.
  intros e ks [H1 H2]. split; [exact H1|].
  induction ks as [|k r IH]; [constructor|]. destruct H2 as [Hk Hr].
  constructor; [exact Hk|apply IH; exact Hr].
Qed.

Lemma sm_height_kids : forall e ks n, (el_height (AE e ks) < S n)%nat ->
  Forall (fun k => (el_height k < n)%nat) ks.
Proof.
  intros e ks n H. cbn [el_height] in H. apply Nat.succ_lt_mono in H.
  induction ks as [|k r IH]; [constructor|]. cbn [fold_right] in H.
  constructor; [lia|apply IH; lia].
Qed.

Lemma sm_clark_truthy : forall u l, l <> [] -> py_truth (VStr (clark (u, l))) = true.
Proof.
  intros [u|] l H; unfold clark; cbn [fst snd py_truth]; [reflexivity|].
  destruct l; [contradiction|reflexivity].
Qed.

Lemma sm_lne_app : forall a b, sm_lne (a ++ b) = sm_lne a || sm_lne b.
Proof. intros [|x a] b; reflexivity. Qed.

Lemma sm_for_kids : forall fuel,
  (forall t, (el_height t < fuel)%nat -> named t ->
     exists l, S_has_content_iter_content fuel (enc_el t) = Ok (VList l)
               /\ sm_lne l = has_content t /\ Forall sm_truthy l) ->
  forall ks, Forall (fun k => (el_height k < fuel)%nat) ks -> Forall named ks ->
  forall acc, exists l',
    for_go (sm_hc_body fuel) (map enc_el ks) (VList acc) = Nx (VList (acc ++ l'))
    /\ sm_lne l' = existsb has_content ks /\ Forall sm_truthy l'.
Proof.
  intros fuel IHf ks. induction ks as [|k r IH]; intros Hh Hn acc.
  - exists []. cbn [map for_go]. rewrite app_nil_r. repeat split. constructor.
  - inversion Hh as [|? ? Hhk Hhr]; subst. inversion Hn as [|? ? Hnk Hnr]; subst.
    destruct (IHf k Hhk Hnk) as [lk [Ek [Lk Tk]]].
    destruct (IH Hhr Hnr (acc ++ lk)) as [lr [Er [Lr Tr]]].
    exists (lk ++ lr). cbn [map for_go]. unfold sm_hc_body at 1. cbv zeta.
    rewrite Ek. cbn [binde py_list py_iter bind py_add bindo].
    rewrite Er. rewrite app_assoc. split; [reflexivity|]. split.
    + rewrite sm_lne_app, Lk, Lr. reflexivity.
    + apply Forall_app. split; assumption.
Qed.

Lemma sm_iter_content_spec : forall fuel t, (el_height t < fuel)%nat -> named t ->
  exists l, S_has_content_iter_content fuel (enc_el t) = Ok (VList l)
            /\ sm_lne l = has_content t /\ Forall sm_truthy l.
Proof.
  induction fuel as [|fuel IHf]; intros t Hh Hn; [lia|].
  destruct t as [e ks|tl].
  - destruct (sm_named_AE _ _ Hn) as [Hl Hks].
    pose proof (sm_height_kids _ _ _ Hh) as Hhk.
    rewrite sm_iter_content_S, src_is_content. cbn [binde py_truth is_content].
    rewrite sm_has_content_AE.
    set (pre := if mem_str (e_ptag e) content_tags
                then [VStr (clark (e_uri e, e_local e))] else []).
    destruct (sm_for_kids fuel IHf ks Hhk Hks pre) as [l' [E' [L' T']]].
    exists (pre ++ l').
    assert (Hpre : (if mem_str (e_ptag e) content_tags then (
               t2 <~ py_attr (enc_el (AE e ks)) ([116;97;103]%N) ;;;
               t3 <~ S_str t2 ;;;
               acc_ <~ py_append (VList []) t3 ;;;
               Nx acc_) else Nx (VList [])) = Nx (VList pre)).
    { subst pre. destruct (mem_str (e_ptag e) content_tags); [|reflexivity].
      rewrite sm_attr_tag. reflexivity. }
    rewrite Hpre. cbn [bindo]. unfold py_for. rewrite sm_iter_el. cbn [binde].
    rewrite E'. cbn [bindo fn_result]. split; [reflexivity|]. split.
    + rewrite sm_lne_app, L'. f_equal. subst pre.
      destruct (mem_str (e_ptag e) content_tags); reflexivity.
    + apply Forall_app. split; [|exact T']. subst pre.
      destruct (mem_str (e_ptag e) content_tags); constructor; [|constructor].
      apply sm_clark_truthy. exact Hl.
  - exists []. split; [reflexivity|]. split; [reflexivity|constructor].
Qed.

(* has_content returns the first content tag or None: truthy exactly when the model says so *)
Theorem src_has_content : forall t fuel,
  (el_height t < fuel)%nat -> named t ->
  exists v, S_has_content fuel (enc_el t) = Ok v /\ py_truth v = has_content t.
Proof.
  intros t fuel Hh Hn. destruct (sm_iter_content_spec fuel t Hh Hn) as [l [E [L T]]].
  unfold S_has_content. rewrite E. cbn [binde py_next_default py_iter bind].
  destruct l as [|x l].
  - exists VNone. split; [reflexivity|]. rewrite <- L. reflexivity.
  - exists x. split; [reflexivity|]. rewrite <- L. inversion T; subst. assumption.
Qed.

(* `elem.tag in _MERGEABLE_TAGS` compares the Clark tag with the prefixed tags: never true for a
   parsed element (its local name holds no colon); the model ignores that disjunct *)
Definition tag_is_no_ptag (e : einfo) : Prop :=
  mem_str (clark (e_uri e, e_local e)) mergeable_tags = false.

Theorem src_is_mergeable : forall e ks, tag_is_no_ptag e ->
  S__is_mergeable (enc_el (AE e ks)) = Ok (VBool (is_mergeable e)).
Proof.
  intros e ks H. unfold S__is_mergeable. rewrite sm_attr_tag. cbn [binde].
  rewrite sm_in_mergeable. unfold tag_is_no_ptag in H. rewrite H. cbn [binde py_truth].
  rewrite sm_attr_ptag. cbn [bind]. rewrite sm_in_mergeable. reflexivity.
Qed.

Lemma sm_mem_str_incl : forall small big x,
  forallb (fun t => mem_str t big) small = true ->
  mem_str x small = true -> mem_str x big = true.
Proof.
  induction small as [|a r IH]; intros big x Hf Hm; cbn [mem_str forallb] in *; [discriminate|].
  apply andb_true_iff in Hf. destruct Hf as [Ha Hr].
  apply orb_true_iff in Hm. destruct Hm as [Hm|Hm].
  - apply sm_str_eqb_eq in Hm. subst. exact Ha.
  - apply IH; assumption.
Qed.

Lemma sm_text_in_mergeable : forall x, mem_str x mergeable_tags = false -> mem_str x text_tags = false.
Proof.
  intros x H. destruct (mem_str x text_tags) eqn:E; [|reflexivity].
  rewrite (sm_mem_str_incl text_tags mergeable_tags x) in H; [discriminate| |exact E].
  vm_compute. reflexivity.
Qed.

Lemma sm_in_text : forall s,
  py_in_consts (VStr s) [(VStr ([119;58;116]%N)); (VStr ([109;58;116]%N))]
  = Ok (VBool (mem_str s text_tags)).
Proof.
  intro s. unfold py_in_consts.
  change [(VStr ([119;58;116]%N)); (VStr ([109;58;116]%N))] with (map VStr text_tags).
  rewrite sm_existsb_mem_str. reflexivity.
Qed.

Theorem src_is_text_or_text_math : forall e ks, tag_is_no_ptag e ->
  S__is_text_or_text_math (enc_el (AE e ks)) = Ok (VBool (is_text_like e)).
Proof.
  intros e ks H. unfold S__is_text_or_text_math. rewrite sm_attr_tag. cbn [binde].
  rewrite sm_in_text. unfold tag_is_no_ptag in H. rewrite (sm_text_in_mergeable _ H).
  cbn [binde py_truth]. rewrite sm_attr_ptag. cbn [bind]. rewrite sm_in_text. reflexivity.
Qed.

(* the File object as _elem_key reads it: file.rels and file.context.xml2html_format *)
Definition enc_file (v : env) (fmt : pv) : pv :=
  VObj [] [(k_rels, VDict None (map (fun kv => (VStr (fst kv), VStr (snd kv))) (env_rels v)));
           (k_context, VObj [] [(k_x2hf, fmt)])].
Definition lift_key (r : res ekey) : res pv :=
  match r with
  | Ok (tag, tgt, f) => Ok (VTuple [VStr (clark tag); VStr tgt; VList (map VStr f)])
  | Err e => Err e
  end.
(* Clark names of the attributes are unambiguous for the one name looked up ({r-uri}id) *)
Definition rid_name_unambiguous (e : einfo) : Prop :=
  forall u, e_ruri e = Some u ->
  forall k x, In (k, x) (e_attrs e) -> clark k = clark (Some u, s_id) -> k = (Some u, s_id).

Lemma sm_attr_rels : forall v fmt,
  py_attr (enc_file v fmt) [114;101;108;115]%N
  = Ok (VDict None (map (fun kv => (VStr (fst kv), VStr (snd kv))) (env_rels v))).
Proof. reflexivity. Qed.
Lemma sm_attr_context : forall v fmt,
  py_attr (enc_file v fmt) [99;111;110;116;101;120;116]%N = Ok (VObj [] [(k_x2hf, fmt)]).
Proof. reflexivity. Qed.
Lemma sm_attr_x2hf : forall fmt,
  py_attr (VObj [] [(k_x2hf, fmt)]) [120;109;108;50;104;116;109;108;95;102;111;114;109;97;116]%N = Ok fmt.
Proof. reflexivity. Qed.

Lemma sm_assoc_rels : forall k (rels : list (str * str)),
  assoc (VStr k) (map (fun kv => (VStr (fst kv), VStr (snd kv))) rels)
  = option_map VStr (dict_get k rels).
Proof.
  intros k rels. induction rels as [|[k' x] r IH]; cbn [map assoc dict_get fst snd]; [reflexivity|].
  rewrite sm_pv_eqb_str. destruct (str_eqb k k'); [reflexivity|exact IH].
Qed.

Lemma sm_assoc_attrs : forall u (l : list (aname * str)),
  (forall k x, In (k, x) l -> clark k = clark (Some u, s_id) -> k = (Some u, s_id)) ->
  assoc (VStr (clark (Some u, s_id))) (map (fun kv => (VStr (clark (fst kv)), VStr (snd kv))) l)
  = option_map VStr (alookup (Some u, s_id) l).
Proof.
  intros u l. induction l as [|[k x] r IH]; intro H; cbn [map assoc alookup fst snd]; [reflexivity|].
  rewrite sm_pv_eqb_str.
  destruct (str_eqb (clark (Some u, s_id)) (clark k)) eqn:E.
  - apply sm_str_eqb_eq in E. rewrite (H k x (or_introl eq_refl) (eq_sym E)).
    rewrite (proj2 (sm_aname_eqb_eq _ _) eq_refl). reflexivity.
  - destruct (aname_eqb (Some u, s_id) k) eqn:E2.
    + apply sm_aname_eqb_eq in E2. subst k. rewrite sm_str_eqb_refl in E. discriminate.
    + apply IH. intros k0 x0 Hin. apply (H k0 x0). right. exact Hin.
Qed.

(* _elem_key: (tag, target, []) for an element whose r:id resolves, (tag, "", formatting) otherwise,
   (tag, "", []) for what is not mergeable *)
Theorem src_elem_key : forall (ext : pv -> pv -> res pv) v e ks fmt,
  tag_is_no_ptag e -> e_ruri e <> Some [] -> rid_name_unambiguous e ->
  ext (enc_el (AE e ks)) fmt = lift_strs (get_html_formatting e ks (env_x2h v)) ->
  S__elem_key ext (enc_file v fmt) (enc_el (AE e ks)) = lift_key (elem_key v e ks).
Proof.
  intros ext v e ks fmt Htag Hru Hun Hext.
  unfold S__elem_key, elem_key.
  set (g := get_html_formatting e ks (env_x2h v)) in *. clearbody g.
  rewrite sm_attr_tag. cbn [binde S_str_1 py_str].
  rewrite (src_is_mergeable e ks Htag). cbn [binde py_not py_truth].
  destruct (is_mergeable e); cbn [negb]; [|reflexivity].
  rewrite sm_attr_nsmap. cbn [binde py_dict_get].
  assert (Hfmt : forall vt : pv,
    fn_result (S:=unit) (
      t19 <~ py_attr (enc_file v fmt) ([99;111;110;116;101;120;116]%N) ;;;
      t20 <~ py_attr t19 ([120;109;108;50;104;116;109;108;95;102;111;114;109;97;116]%N) ;;;
      t21 <~ ext (enc_el (AE e ks)) t20 ;;;
      Rt (VTuple [VStr (clark (e_uri e, e_local e)); (VStr ([]%N)); t21]))
    = lift_key (f <- g ;; Ok ((e_uri e, e_local e), [], f))).
  { intros _. rewrite sm_attr_context. cbn [binde]. rewrite sm_attr_x2hf. cbn [binde].
    rewrite Hext. destruct g; reflexivity. }
  specialize (Hfmt VNone).
  destruct (e_ruri e) as [u|] eqn:Eru.
  2:{ cbn [assoc py_truth binde bindo]. exact Hfmt. }
  cbn [assoc]. rewrite sm_pv_eqb_str, sm_str_eqb_refl.
  assert (Hu : py_truth (VStr u) = true).
  { destruct u; [exfalso; apply Hru; reflexivity|reflexivity]. }
  rewrite Hu. rewrite sm_attr_attrib. cbn [bind S_str_1 py_str py_add].
  change (([123]%N ++ u) ++ [125; 105; 100]%N) with (clark (Some u, s_id)).
  cbn [py_dict_get]. rewrite (sm_assoc_attrs u (e_attrs e) (Hun _ Eru)).
  destruct (alookup (Some u, s_id) (e_attrs e)) as [[|c r]|]; cbn [option_map bind binde py_truth bindo];
    try exact Hfmt.
  rewrite sm_attr_rels. cbn [binde S_str_1 py_str py_dict_get].
  rewrite sm_assoc_rels.
  destruct (dict_get (c :: r) (env_rels v)) as [tgt|]; cbn [option_map binde py_is_none py_not py_truth negb bindo S_str_1 py_str].
  - reflexivity.
  - exact Hfmt.
Qed.

Print Assumptions src_content_tags.
Print Assumptions src_mergeable_tags.
Print Assumptions src_is_content.
Print Assumptions src_has_content.
Print Assumptions src_is_mergeable.
Print Assumptions src_is_text_or_text_math.
Print Assumptions src_elem_key.
