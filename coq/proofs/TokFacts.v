(* TokFacts.v — html escaping and tag balance of the run tokens (C07) *)
From Coq Require Import List NArith ZArith Bool Arith Lia.
From D2P Require Import Str Err Xml TableTypes Tables Fmt NumFmt Bullets Merge Collector Walk.
Import ListNotations.
Open Scope N_scope.

(* ------------------------------------------------------------------ *)
(* generic helpers                                                      *)
(* ------------------------------------------------------------------ *)

Ltac inv_bind H :=
  match type of H with
  | (bind ?r _ = Ok _) =>
      let E := fresh "E" in destruct r eqn:E; [cbn [bind] in H | discriminate H]
  end.

Tactic Notation "bind_inv" hyp(H) "as" ident(x) ident(E) :=
  match type of H with
  | (bind ?r _ = Ok _) =>
      destruct r as [x|?] eqn:E; [cbn [bind] in H | discriminate H]
  end.

Lemma str_eqb_refl : forall s, str_eqb s s = true.
Proof.
  induction s as [|c s IH]; [reflexivity|].
  cbn. rewrite N.eqb_refl, IH. reflexivity.
Qed.

Lemma mapM_app_inv {A B} (f : A -> res B) : forall l1 l2 ys,
  mapM f (l1 ++ l2) = Ok ys ->
  exists y1 y2, mapM f l1 = Ok y1 /\ mapM f l2 = Ok y2 /\ ys = y1 ++ y2.
Proof.
  induction l1 as [|x l1 IH]; intros l2 ys H.
  - exists [], ys. cbn in *. auto.
  - cbn in H. inv_bind H. inv_bind H. injection H as H. subst ys.
    destruct (IH _ _ E0) as (y1 & y2 & H1 & H2 & H3). subst.
    exists (a :: y1), y2. cbn. rewrite E, H1. cbn. auto.
Qed.

Lemma mapM_Forall {A B} (f : A -> res B) (P : A -> Prop) (Q : B -> Prop) :
  (forall x y, P x -> f x = Ok y -> Q y) ->
  forall l ys, mapM f l = Ok ys -> Forall P l -> Forall Q ys.
Proof.
  intros Hf. induction l as [|x l IH]; intros ys H HP.
  - cbn in H. injection H as H. subst. constructor.
  - cbn in H. inv_bind H. inv_bind H. injection H as H. subst ys.
    inversion HP as [|? ? Hx Hl]; subst. constructor.
    + eapply Hf; eauto.
    + apply IH; auto.
Qed.

Lemma Forall_rev' {A} (P : A -> Prop) l : Forall P l -> Forall P (rev l).
Proof.
  intros H. apply Forall_forall. intros x Hx. apply in_rev in Hx.
  rewrite Forall_forall in H. auto.
Qed.

Lemma Forall_concat' {A} (P : A -> Prop) (ll : list (list A)) :
  Forall (Forall P) ll -> Forall P (concat ll).
Proof.
  induction 1 as [|l ll Hl Hll IH]; cbn; [constructor|].
  apply Forall_app. split; assumption.
Qed.

Lemma Forall_filter' {A} (P : A -> Prop) (f : A -> bool) l :
  Forall P l -> Forall P (filter f l).
Proof.
  intros H. apply Forall_forall. intros x Hx. apply filter_In in Hx.
  rewrite Forall_forall in H. apply H. tauto.
Qed.

(* ------------------------------------------------------------------ *)
(* PART 2 — balance                                                     *)
(* ------------------------------------------------------------------ *)

Fixpoint check (stk : list str) (ts : list tok) : option (list str) :=
  match ts with
  | [] => Some stk
  | TOpen s :: r => match words s with w :: _ => check (w :: stk) r | [] => None end
  | TClose w :: r => match stk with
                     | w' :: stk' => if str_eqb w w' then check stk' r else None
                     | [] => None
                     end
  | _ :: r => check stk r
  end.
Definition balanced (ts : list tok) : Prop := check [] ts = Some [].

Lemma check_app : forall a b stk,
  check stk (a ++ b) = match check stk a with Some s' => check s' b | None => None end.
Proof.
  induction a as [|t a IH]; intros b stk; [reflexivity|].
  destruct t as [c|c|s|w]; cbn.
  - apply IH.
  - apply IH.
  - destruct (words s) as [|w ws]; [reflexivity|]. apply IH.
  - destruct stk as [|w' stk']; [reflexivity|].
    destruct (str_eqb w w'); [apply IH|reflexivity].
Qed.

Lemma check_frame : forall ts stk stk' k,
  check stk ts = Some stk' -> check (stk ++ k) ts = Some (stk' ++ k).
Proof.
  induction ts as [|t ts IH]; intros stk stk' k H.
  - cbn in *. injection H as H. subst. reflexivity.
  - destruct t as [c|c|s|w]; cbn in *.
    + apply IH; assumption.
    + apply IH; assumption.
    + destruct (words s) as [|w ws]; [discriminate|].
      apply (IH (w :: stk)); assumption.
    + destruct stk as [|w' stk0]; [discriminate|]. cbn.
      destruct (str_eqb w w'); [|discriminate]. apply IH; assumption.
Qed.

Lemma balanced_check : forall ts stk, balanced ts -> check stk ts = Some stk.
Proof.
  intros ts stk H. apply (check_frame ts [] [] stk) in H. exact H.
Qed.

Lemma balanced_nil : balanced [].
Proof. reflexivity. Qed.

Lemma balanced_app : forall a b, balanced a -> balanced b -> balanced (a ++ b).
Proof.
  intros a b Ha Hb. unfold balanced in *. rewrite check_app, Ha. exact Hb.
Qed.

Lemma balanced_concat : forall l, Forall balanced l -> balanced (concat l).
Proof.
  induction 1 as [|x l Hx Hl IH]; cbn; [reflexivity|].
  apply balanced_app; assumption.
Qed.

Definition neutral (t : tok) : Prop :=
  match t with TTxt _ | TRaw _ => True | _ => False end.

Lemma balanced_neutral : forall ts, Forall neutral ts -> balanced ts.
Proof.
  intros ts H. unfold balanced. generalize (@nil str).
  induction H as [|t ts Ht Hts IH]; intros stk; [reflexivity|].
  destruct t as [c|c|s|w]; cbn in *; try contradiction; apply IH.
Qed.

Lemma balanced_txt : forall s, balanced (map TTxt s).
Proof.
  intros s. apply balanced_neutral. apply Forall_forall. intros t Ht.
  apply in_map_iff in Ht. destruct Ht as (c & Hc & _). subst. exact I.
Qed.

Lemma balanced_raw : forall s, balanced (raw s).
Proof.
  intros s. apply balanced_neutral. apply Forall_forall. intros t Ht.
  unfold raw in Ht. apply in_map_iff in Ht. destruct Ht as (c & Hc & _). subst. exact I.
Qed.

Lemma tag_wrap_balanced : forall s w ws ts,
  words s = w :: ws -> balanced ts -> balanced (TOpen s :: ts ++ [TClose w]).
Proof.
  intros s w ws ts Hw Hts. unfold balanced. cbn. rewrite Hw.
  rewrite check_app. rewrite (balanced_check ts [w] Hts). cbn.
  rewrite str_eqb_refl. reflexivity.
Qed.

Lemma first_word_words : forall s w, first_word s = Ok w -> exists ws, words s = w :: ws.
Proof.
  intros s w H. unfold first_word in H. destruct (words s) as [|w' ws]; [discriminate|].
  injection H as H. subst. eauto.
Qed.

Lemma wrap_balanced : forall style cl ts,
  close_toks style = Ok cl -> balanced ts -> balanced (map TOpen style ++ ts ++ cl).
Proof.
  induction style as [|x style IH]; intros cl ts H Hts.
  - unfold close_toks in H. cbn in H. injection H as H. subst. cbn.
    rewrite app_nil_r. exact Hts.
  - unfold close_toks in H. cbn [rev] in H. bind_inv H as a E. injection H as H. subst cl.
    apply mapM_app_inv in E. destruct E as (y1 & y2 & H1 & H2 & H3). subst a.
    cbn in H2. bind_inv H2 as a0 E. injection H2 as H2. subst y2.
    apply first_word_words in E. destruct E as (ws & Hw).
    rewrite map_app.
    change (balanced (TOpen x :: (map TOpen style ++ ts ++ map TClose y1 ++ [TClose a0]))).
    replace (map TOpen style ++ ts ++ map TClose y1 ++ [TClose a0])
      with ((map TOpen style ++ ts ++ map TClose y1) ++ [TClose a0])
      by (rewrite <- !app_assoc; reflexivity).
    eapply tag_wrap_balanced; [exact Hw|].
    apply IH; [|exact Hts]. unfold close_toks. rewrite H1. reflexivity.
Qed.

Lemma run_toks_balanced : forall r ts,
  run_toks r = Ok ts -> balanced (r_toks r) -> balanced ts.
Proof.
  intros r ts H Hb. unfold run_toks in H.
  destruct (r_toks r) as [|t0 ts0] eqn:Et.
  - injection H as H. subst. reflexivity.
  - inv_bind H. injection H as H. subst ts.
    apply (wrap_balanced (r_style r) a (t0 :: ts0)); assumption.
Qed.

Lemma par_toks_balanced : forall p rs,
  par_run_toks p = Ok rs -> Forall (fun r => balanced (r_toks r)) (p_runs p) ->
  balanced (concat rs).
Proof.
  intros p rs H Hruns. unfold par_run_toks in H. inv_bind H.
  assert (Ha : Forall balanced a).
  { eapply mapM_Forall; [|exact E|exact Hruns].
    intros x y Hx Hy. eapply run_toks_balanced; eauto. }
  assert (Hf : balanced (concat (filter nonempty a))).
  { apply balanced_concat. apply Forall_filter'. exact Ha. }
  destruct (p_hstyle p) as [|h hs] eqn:Eh.
  - injection H as H. subst. exact Hf.
  - inv_bind H. injection H as H. subst rs.
    cbn [concat]. rewrite concat_app. cbn [concat]. rewrite app_nil_r.
    apply (wrap_balanced (h :: hs)); assumption.
Qed.

Lemma join_toks_balanced : forall l, Forall balanced l -> balanced (join_toks par_sep l).
Proof.
  induction 1 as [|x l Hx Hl IH]; [reflexivity|].
  cbn [join_toks]. destruct l as [|y l']; [exact Hx|].
  apply balanced_app; [exact Hx|]. apply balanced_app; [reflexivity|exact IH].
Qed.

Lemma words_a_href : forall x, words (s_a_href ++ x) = [97] :: words (tl (tl s_a_href) ++ x).
Proof. intros x. reflexivity. Qed.

Lemma words_span_font : forall x,
  words (s_span_font ++ x) = s_span :: words (skipn 5 s_span_font ++ x).
Proof. intros x. reflexivity. Qed.

Lemma first_word_a_href : forall x, first_word (s_a_href ++ x) = Ok s_a.
Proof. intros x. unfold first_word. rewrite words_a_href. reflexivity. Qed.

Lemma first_word_span_font : forall x, first_word (s_span_font ++ x) = Ok s_span.
Proof. intros x. unfold first_word. rewrite words_span_font. reflexivity. Qed.

Lemma link_toks_balanced : forall link body, balanced body -> balanced (link_toks link body).
Proof.
  intros link body H. unfold link_toks.
  eapply (tag_wrap_balanced _ s_a); [|exact H].
  apply words_a_href.
Qed.

Lemma latex_toks_balanced : forall s,
  balanced (TOpen s_latex :: map TTxt s ++ [TClose s_latex]).
Proof.
  intros s. eapply tag_wrap_balanced; [reflexivity|apply balanced_txt].
Qed.

Lemma alt_toks_balanced : forall d, balanced (raw s_alt_prefix ++ map TTxt d ++ [TRaw 60]).
Proof.
  intros d. apply balanced_app; [apply balanced_raw|].
  apply balanced_app; [apply balanced_txt|reflexivity].
Qed.

Lemma sym_toks_balanced : forall font s,
  balanced (TOpen (s_span_font ++ font) :: raw s ++ [TClose s_span]).
Proof.
  intros font s. eapply tag_wrap_balanced; [apply words_span_font|apply balanced_raw].
Qed.

(* ------------------------------------------------------------------ *)
(* PART 1 — escaping                                                    *)
(* ------------------------------------------------------------------ *)

Lemma render_txt_cons : forall html c s,
  render html (map TTxt (c :: s)) = render_tok html (TTxt c) ++ render html (map TTxt s).
Proof. reflexivity. Qed.

Lemma render_plain_txt : forall s, render false (map TTxt s) = s.
Proof.
  induction s as [|c s IH]; [reflexivity|].
  rewrite render_txt_cons, IH. reflexivity.
Qed.

Lemma escape_chr_cases : forall c,
  (c = 38 /\ escape_chr c = [38; 97; 109; 112; 59]) \/
  (c = 60 /\ escape_chr c = [38; 108; 116; 59]) \/
  (c = 62 /\ escape_chr c = [38; 103; 116; 59]) \/
  (c <> 38 /\ c <> 60 /\ c <> 62 /\ escape_chr c = [c]).
Proof.
  intros c. unfold escape_chr.
  destruct (c =? 38) eqn:E1.
  - apply N.eqb_eq in E1. left. auto.
  - destruct (c =? 60) eqn:E2.
    + apply N.eqb_eq in E2. right. left. auto.
    + destruct (c =? 62) eqn:E3.
      * apply N.eqb_eq in E3. right. right. left. auto.
      * apply N.eqb_neq in E1. apply N.eqb_neq in E2. apply N.eqb_neq in E3.
        right. right. right. auto.
Qed.

Lemma escape_no_angle : forall s,
  ~ In 60 (render true (map TTxt s)) /\ ~ In 62 (render true (map TTxt s)).
Proof.
  induction s as [|c s [IH1 IH2]]; [cbn; tauto|].
  rewrite render_txt_cons. cbn [render_tok].
  destruct (escape_chr_cases c) as [[Hc He]|[[Hc He]|[[Hc He]|(H1 & H2 & H3 & He)]]];
    rewrite He; split; intros Hin; apply in_app_or in Hin;
    destruct Hin as [Hin|Hin]; try contradiction;
    cbn in Hin; repeat (destruct Hin as [Hin|Hin]; [try discriminate Hin; try (symmetry in Hin; contradiction)|]);
    try contradiction.
Qed.

Lemma escape_amp_entity : forall s l1 l2,
  render true (map TTxt s) = l1 ++ 38 :: l2 ->
  starts_with [97;109;112;59] l2 = true \/ starts_with [108;116;59] l2 = true
  \/ starts_with [103;116;59] l2 = true.
Proof.
  induction s as [|c s IH]; intros l1 l2 H.
  - cbn in H. destruct l1; discriminate H.
  - rewrite render_txt_cons in H. cbn [render_tok] in H.
    destruct (escape_chr_cases c) as [[Hc He]|[[Hc He]|[[Hc He]|(H1 & H2 & H3 & He)]]];
      rewrite He in H; clear He.
    + destruct l1 as [|a1 l1]; cbn in H.
      { injection H as H. subst l2. left. reflexivity. }
      injection H as _ H.
      destruct l1 as [|a2 l1]; cbn in H; [discriminate H|]. injection H as _ H.
      destruct l1 as [|a3 l1]; cbn in H; [discriminate H|]. injection H as _ H.
      destruct l1 as [|a4 l1]; cbn in H; [discriminate H|]. injection H as _ H.
      destruct l1 as [|a5 l1]; cbn in H; [discriminate H|]. injection H as _ H.
      eapply IH; exact H.
    + destruct l1 as [|a1 l1]; cbn in H.
      { injection H as H. subst l2. right. left. reflexivity. }
      injection H as _ H.
      destruct l1 as [|a2 l1]; cbn in H; [discriminate H|]. injection H as _ H.
      destruct l1 as [|a3 l1]; cbn in H; [discriminate H|]. injection H as _ H.
      destruct l1 as [|a4 l1]; cbn in H; [discriminate H|]. injection H as _ H.
      eapply IH; exact H.
    + destruct l1 as [|a1 l1]; cbn in H.
      { injection H as H. subst l2. right. right. reflexivity. }
      injection H as _ H.
      destruct l1 as [|a2 l1]; cbn in H; [discriminate H|]. injection H as _ H.
      destruct l1 as [|a3 l1]; cbn in H; [discriminate H|]. injection H as _ H.
      destruct l1 as [|a4 l1]; cbn in H; [discriminate H|]. injection H as _ H.
      eapply IH; exact H.
    + destruct l1 as [|a1 l1]; cbn in H.
      { injection H as Hc _. contradiction. }
      injection H as _ H. eapply IH; exact H.
Qed.

(* single left-to-right pass; skip = characters of an entity still to drop *)
Fixpoint unescape_go (s : str) (skip : nat) : str :=
  match s with
  | [] => []
  | c :: s' =>
      match skip with
      | S k => unescape_go s' k
      | O =>
          if starts_with [38; 97; 109; 112; 59] s then 38 :: unescape_go s' 4%nat
          else if starts_with [38; 108; 116; 59] s then 60 :: unescape_go s' 3%nat
          else if starts_with [38; 103; 116; 59] s then 62 :: unescape_go s' 3%nat
          else c :: unescape_go s' O
      end
  end.
Definition unescape (s : str) : str := unescape_go s O.

Lemma unescape_escape : forall s, unescape (render true (map TTxt s)) = s.
Proof.
  unfold unescape. induction s as [|c s IH]; [reflexivity|].
  rewrite render_txt_cons. cbn [render_tok].
  destruct (escape_chr_cases c) as [[Hc He]|[[Hc He]|[[Hc He]|(H1 & H2 & H3 & He)]]];
    rewrite He; clear He.
  - subst c. cbn. rewrite IH. reflexivity.
  - subst c. cbn. rewrite IH. reflexivity.
  - subst c. cbn. rewrite IH. reflexivity.
  - assert (E : (38 =? c) = false) by (apply N.eqb_neq; congruence).
    cbn [app unescape_go starts_with]. rewrite E. cbn [andb].
    rewrite IH. reflexivity.
Qed.

(* the three sequential str.replace calls of the source *)
Definition rep1 (a : N) (new s : str) : str :=
  concat (map (fun c => if N.eqb a c then new else [c]) s).

Lemma replace_single : forall a new s, replace [a] new s = rep1 a new s.
Proof.
  intros a new s. unfold replace, rep1.
  induction s as [|c s IH]; [reflexivity|].
  cbn [replace_go starts_with length pred map concat].
  destruct (a =? c); cbn [andb].
  - rewrite IH. reflexivity.
  - rewrite IH. reflexivity.
Qed.

Lemma rep1_app : forall a new x y, rep1 a new (x ++ y) = rep1 a new x ++ rep1 a new y.
Proof.
  intros a new x y. unfold rep1. rewrite map_app, concat_app. reflexivity.
Qed.

Lemma escape_is_python_replace : forall s,
  render true (map TTxt s) =
  replace [62] [38;103;116;59] (replace [60] [38;108;116;59] (replace [38] [38;97;109;112;59] s)).
Proof.
  intros s. rewrite !replace_single.
  induction s as [|c s IH]; [reflexivity|].
  rewrite render_txt_cons. cbn [render_tok]. rewrite IH.
  change (rep1 38 [38; 97; 109; 112; 59] (c :: s))
    with ((if 38 =? c then [38; 97; 109; 112; 59] else [c]) ++ rep1 38 [38; 97; 109; 112; 59] s).
  rewrite !rep1_app. f_equal.
  destruct (escape_chr_cases c) as [[Hc He]|[[Hc He]|[[Hc He]|(H1 & H2 & H3 & He)]]];
    rewrite He; clear He.
  - subst c. reflexivity.
  - subst c. reflexivity.
  - subst c. reflexivity.
  - assert (E1 : (38 =? c) = false) by (apply N.eqb_neq; congruence).
    assert (E2 : (60 =? c) = false) by (apply N.eqb_neq; congruence).
    assert (E3 : (62 =? c) = false) by (apply N.eqb_neq; congruence).
    rewrite E1. unfold rep1. cbn [map concat app]. rewrite E2. cbn [map concat app].
    rewrite E3. reflexivity.
Qed.

(* ------------------------------------------------------------------ *)
(* PART 3 — the walk keeps every run balanced                           *)
(* ------------------------------------------------------------------ *)

Definition run_ok (r : run) : Prop := balanced (r_toks r).
Definition par_ok (p : par) : Prop := Forall run_ok (p_runs p).
Fixpoint node_ok (n : node) : Prop :=
  match n with
  | NP p => par_ok p
  | NL l => (fix all (l : list node) : Prop :=
               match l with [] => True | x :: r => node_ok x /\ all r end) l
  end.
Definition st_ok (s : cst) : Prop :=
  Forall node_ok (c_tree s) /\ Forall par_ok (c_open s) /\ Forall run_ok (c_queued s).

Lemma node_ok_NL : forall l, node_ok (NL l) <-> Forall node_ok l.
Proof.
  induction l as [|x l IH].
  - cbn. split; intros; [constructor|exact I].
  - change (node_ok (NL (x :: l))) with (node_ok x /\ node_ok (NL l)).
    rewrite IH. split.
    + intros [H1 H2]. constructor; assumption.
    + intros H. inversion H; subst. split; assumption.
Qed.

Lemma node_ind' (P : node -> Prop) :
  (forall p, P (NP p)) -> (forall l, Forall P l -> P (NL l)) -> forall n, P n.
Proof.
  intros HP HL. fix IH 1. intros [l|p].
  - apply HL.
    exact ((fix go (l : list node) : Forall P l :=
              match l with
              | [] => Forall_nil P
              | x :: r => Forall_cons x (IH x) (go r)
              end) l).
  - apply HP.
Qed.

Lemma anode_ind' (P : anode -> Prop) :
  (forall tl, P (AX tl)) -> (forall e ks, Forall P ks -> P (AE e ks)) -> forall t, P t.
Proof.
  intros HX HE. fix IH 1. intros [e ks|tl].
  - apply HE.
    exact ((fix go (l : list anode) : Forall P l :=
              match l with
              | [] => Forall_nil P
              | x :: r => Forall_cons x (IH x) (go r)
              end) ks).
  - apply HX.
Qed.

Lemma init_st_ok : st_ok init_cst.
Proof. repeat split; constructor. Qed.

Lemma copy_node_ok : forall n, node_ok n -> node_ok (copy_node n).
Proof.
  induction n as [p|l IH] using node_ind'; intros H.
  - exact H.
  - cbn [copy_node]. apply node_ok_NL. apply node_ok_NL in H.
    induction IH as [|x l Hx Hl IHl]; [constructor|].
    inversion H; subst. cbn [map]. constructor; auto.
Qed.

Lemma spine_app_ok : forall d x l l',
  spine_app d x l = Ok l' -> node_ok x -> Forall node_ok l -> Forall node_ok l'.
Proof.
  induction d as [|d IH]; intros x l l' H Hx Hl; [discriminate H|].
  destruct d as [|d'].
  - cbn in H. injection H as H. subst. constructor; assumption.
  - cbn [spine_app] in H. destruct l as [|n rest]; [discriminate H|].
    destruct n as [l0|p]; [|discriminate H].
    bind_inv H as l2 E. injection H as H. subst l'.
    inversion Hl; subst. constructor; [|assumption].
    apply node_ok_NL. eapply IH; [exact E|exact Hx|]. apply node_ok_NL. assumption.
Qed.

Lemma drop_caret_ok : forall s s', st_ok s -> drop_caret s = Ok s' -> st_ok s'.
Proof.
  intros s s' (Ht & Ho & Hq) H. unfold drop_caret in H.
  destruct (Nat.leb par_depth (c_depth s)); [discriminate H|].
  bind_inv H as t E. injection H as H. subst s'.
  split; [|split]; cbn; try assumption.
  eapply spine_app_ok; [exact E| |exact Ht]. exact I.
Qed.

Lemma raise_caret_ok : forall s s', st_ok s -> raise_caret s = Ok s' -> st_ok s'.
Proof.
  intros s s' Hs H. unfold raise_caret in H.
  destruct (Nat.leb (c_depth s) 1); [discriminate H|].
  injection H as H. subst s'. exact Hs.
Qed.

Lemma set_caret_go_ok : forall fuel d name s s',
  st_ok s -> set_caret_go fuel d name s = Ok s' -> st_ok s'.
Proof.
  induction fuel as [|f IH]; intros d name s s' Hs H; [discriminate H|].
  cbn [set_caret_go] in H.
  destruct (Nat.eqb (c_depth s) d).
  - bind_inv H as l E. injection H as H. subst s'. exact Hs.
  - destruct (Nat.ltb (c_depth s) d).
    + bind_inv H as s1 E. eapply IH; [|exact H]. eapply drop_caret_ok; eauto.
    + bind_inv H as l E. bind_inv H as s1 E1. eapply IH; [|exact H].
      eapply raise_caret_ok; [|exact E1]. exact Hs.
Qed.

Lemma set_caret_ok : forall d name s s', st_ok s -> set_caret d name s = Ok s' -> st_ok s'.
Proof.
  intros d name s s' Hs H. unfold set_caret in H. destruct d as [d|].
  - eapply set_caret_go_ok; eauto.
  - injection H as H. subst. exact Hs.
Qed.

Lemma commence_paragraph_ok : forall v elem s s',
  st_ok s -> commence_paragraph v elem s = Ok s' -> st_ok s'.
Proof.
  intros v elem s s' Hs H. unfold commence_paragraph in H.
  bind_inv H as s1 E1. bind_inv H as hs E2. bind_inv H as ps E3.
  cbv zeta in H. injection H as H. subst s'.
  apply set_caret_ok in E1; [|exact Hs]. destruct E1 as (Ht & Ho & Hq).
  split; [|split]; cbn.
  - exact Ht.
  - constructor; [exact Hq|exact Ho].
  - constructor.
Qed.

Lemma conclude_paragraph_ok : forall s s',
  st_ok s -> conclude_paragraph s = Ok s' -> st_ok s'.
Proof.
  intros s s' Hs H. unfold conclude_paragraph in H.
  destruct (c_open s) as [|p rest] eqn:Eo.
  - injection H as H. subst. exact Hs.
  - bind_inv H as s1 E1. bind_inv H as t E2. injection H as H. subst s'.
    destruct Hs as (Ht & Ho & Hq). rewrite Eo in Ho. inversion Ho as [|? ? Hp Hrest]; subst.
    assert (Hs1 : st_ok s1).
    { eapply set_caret_ok; [|exact E1]. split; [|split]; cbn; assumption. }
    destruct Hs1 as (Ht1 & Ho1 & Hq1).
    split; [|split]; cbn; try assumption.
    eapply spine_app_ok; [exact E2| |exact Ht1]. exact Hp.
Qed.

Lemma ensure_par_ok : forall v s s', st_ok s -> ensure_par v s = Ok s' -> st_ok s'.
Proof.
  intros v s s' Hs H. unfold ensure_par in H. destruct (c_open s) as [|p rest].
  - eapply commence_paragraph_ok; eauto.
  - injection H as H. subst. exact Hs.
Qed.

Lemma upd_open_runs_ok : forall v f s s',
  (forall rs, Forall run_ok rs -> Forall run_ok (f rs)) ->
  st_ok s -> upd_open_runs v f s = Ok s' -> st_ok s'.
Proof.
  intros v f s s' Hf Hs H. unfold upd_open_runs in H.
  bind_inv H as s1 E1. apply ensure_par_ok in E1; [|exact Hs].
  destruct E1 as (Ht & Ho & Hq).
  destruct (c_open s1) as [|p rest] eqn:Eo; [discriminate H|].
  injection H as H. subst s'. inversion Ho as [|? ? Hp Hrest]; subst.
  split; [|split]; cbn; try assumption.
  constructor; [|exact Hrest]. unfold par_ok. cbn. apply Hf. exact Hp.
Qed.

Lemma ensure_run_ok : forall rs, Forall run_ok rs -> Forall run_ok (ensure_run rs).
Proof.
  intros rs H. destruct rs as [|r rs]; [|exact H].
  cbn. constructor; [reflexivity|constructor].
Qed.

Lemma upd_last_ok {A} (P : A -> Prop) (f : A -> A) :
  (forall x, P x -> P (f x)) -> forall l, Forall P l -> Forall P (upd_last f l).
Proof.
  intros Hf. induction 1 as [|x l Hx Hl IH]; [constructor|].
  cbn [upd_last]. destruct l as [|y l'].
  - constructor; [apply Hf; exact Hx|constructor].
  - constructor; [exact Hx|exact IH].
Qed.

Lemma commence_run_ok : forall v style s s',
  st_ok s -> commence_run v style s = Ok s' -> st_ok s'.
Proof.
  intros v style s s' Hs H. unfold commence_run in H.
  eapply upd_open_runs_ok; [|exact Hs|exact H].
  intros rs Hrs. apply Forall_app. split; [exact Hrs|].
  constructor; [reflexivity|constructor].
Qed.

Lemma add_toks_ok : forall v ts s s',
  balanced ts -> st_ok s -> add_toks v ts s = Ok s' -> st_ok s'.
Proof.
  intros v ts s s' Hts Hs H. unfold add_toks in H.
  eapply upd_open_runs_ok; [|exact Hs|exact H].
  intros rs Hrs. apply upd_last_ok; [|apply ensure_run_ok; exact Hrs].
  intros r Hr. unfold run_ok in *. cbn. apply balanced_app; assumption.
Qed.

Lemma insert_text_as_new_run_ok : forall v ts s s',
  balanced ts -> st_ok s -> insert_text_as_new_run v ts s = Ok s' -> st_ok s'.
Proof.
  intros v ts s s' Hts Hs H. unfold insert_text_as_new_run in H.
  eapply upd_open_runs_ok; [|exact Hs|exact H].
  intros rs Hrs. cbv zeta. apply Forall_app. split; [apply ensure_run_ok; exact Hrs|].
  constructor; [exact Hts|]. constructor; [reflexivity|constructor].
Qed.

Lemma queue_run_ok : forall ts s,
  balanced ts -> st_ok s -> st_ok (queue_run_for_next_paragraph ts s).
Proof.
  intros ts s Hts (Ht & Ho & Hq). split; [|split]; cbn; try assumption.
  apply Forall_app. split; [exact Hq|]. constructor; [exact Hts|constructor].
Qed.

Lemma start_comment_range_ok : forall v id s s',
  st_ok s -> start_comment_range v id s = Ok s' -> st_ok s'.
Proof.
  intros v id s s' Hs H. unfold start_comment_range in H.
  bind_inv H as n E. injection H as H. subst. exact Hs.
Qed.

Lemma end_comment_range_ok : forall v id s s',
  st_ok s -> end_comment_range v id s = Ok s' -> st_ok s'.
Proof.
  intros v id s s' Hs H. unfold end_comment_range in H.
  destruct (dict_get id (c_ranges s)) as [[b n0]|].
  - bind_inv H as n E. injection H as H. subst. exact Hs.
  - injection H as H. subst. exact Hs.
Qed.

(* ---------- table cells ---------- *)
Lemma Forall_In' {A} (P : A -> Prop) l x : Forall P l -> In x l -> P x.
Proof. intros H Hx. rewrite Forall_forall in H. auto. Qed.

Lemma py_get_In {A} : forall (l : list A) i x, py_get l i = Some x -> In x l.
Proof.
  intros l i x H. unfold py_get in H. destruct (Nat.leb (length l) i); [discriminate H|].
  eapply nth_error_In; exact H.
Qed.

Lemma py_nth_In {A} : forall (l : list A) i x, py_nth l i = Some x -> In x l.
Proof.
  intros l i x H. unfold py_nth in H. cbv zeta in H.
  match type of H with (if ?c then _ else _) = _ => destruct c end; [discriminate H|].
  eapply nth_error_In; exact H.
Qed.

Lemma as_list_ok : forall n l, as_list n = Ok l -> node_ok n -> Forall node_ok l.
Proof.
  intros n l H Hn. destruct n as [l0|p]; [|discriminate H].
  injection H as H. subst. apply node_ok_NL. exact Hn.
Qed.

Lemma upd_nth_ok {A} (P : A -> Prop) (f : A -> res A) :
  (forall x y, P x -> f x = Ok y -> P y) ->
  forall n l l', Forall P l -> upd_nth n f l = Ok l' -> Forall P l'.
Proof.
  intros Hf. induction n as [|n IH]; intros l l' Hl H.
  - destruct l as [|x r]; [discriminate H|]. cbn in H.
    bind_inv H as y E. injection H as H. subst. inversion Hl; subst.
    constructor; [eapply Hf; eauto|assumption].
  - destruct l as [|x r]; [discriminate H|]. cbn in H.
    bind_inv H as r' E. injection H as H. subst. inversion Hl; subst.
    constructor; [assumption|eapply IH; eauto].
Qed.

Lemma py_upd_ok {A} (P : A -> Prop) (f : A -> res A) :
  (forall x y, P x -> f x = Ok y -> P y) ->
  forall l i l', Forall P l -> py_upd l i f = Ok l' -> Forall P l'.
Proof.
  intros Hf l i l' Hl H. unfold py_upd in H.
  destruct (Nat.leb (length l) i); [discriminate H|].
  eapply upd_nth_ok; eauto.
Qed.

Lemma upd_row_ok : forall root ti ri f root',
  (forall cs cs', Forall node_ok cs -> f cs = Ok cs' -> Forall node_ok cs') ->
  Forall node_ok root -> upd_row root ti ri f = Ok root' -> Forall node_ok root'.
Proof.
  intros root ti ri f root' Hf Hroot H. unfold upd_row in H.
  eapply py_upd_ok; [|exact Hroot|exact H].
  intros t t' Ht Ht'. cbv beta in Ht'.
  bind_inv Ht' as rows E1. bind_inv Ht' as rows' E2. injection Ht' as Ht'. subst t'.
  apply node_ok_NL. eapply py_upd_ok; [| |exact E2].
  - intros r r' Hr Hr'. cbv beta in Hr'.
    bind_inv Hr' as cells E3. bind_inv Hr' as c' E4. injection Hr' as Hr'. subst r'.
    apply node_ok_NL. eapply Hf; [|exact E4]. eapply as_list_ok; eauto.
  - eapply as_list_ok; eauto.
Qed.

Lemma get_row_ok : forall root ti ri cells,
  Forall node_ok root -> get_row root ti ri = Ok cells -> Forall node_ok cells.
Proof.
  intros root ti ri cells Hroot H. unfold get_row in H.
  bind_inv H as t E1. bind_inv H as rows E2. bind_inv H as r E3.
  destruct (py_get root ti) as [t0|] eqn:Eg; [|discriminate E1]. cbn in E1.
  injection E1 as E1. subst t0. apply py_get_In in Eg.
  assert (Hrows : Forall node_ok rows).
  { eapply as_list_ok; [exact E2|]. eapply Forall_In'; eauto. }
  destruct (py_get rows ri) as [r0|] eqn:Eg2; [|discriminate E3]. cbn in E3.
  injection E3 as E3. subst r0. apply py_get_In in Eg2.
  eapply as_list_ok; [exact H|]. eapply Forall_In'; eauto.
Qed.

Lemma close_table_cell_ok : forall v e ks s s',
  st_ok s -> close_table_cell v e ks s = Ok s' -> st_ok s'.
Proof.
  intros v e ks s s' Hs H. unfold close_table_cell in H.
  bind_inv H as pr Epr. cbv zeta in H.
  (* the two early returns of the repaired _close_table_cell *)
  destruct (c_tree s) as [|tb0 root0] eqn:Eroot0; [injection H as H; subst s'; exact Hs|].
  rewrite <- Eroot0 in H.
  bind_inv H as rows0 Erows0.
  destruct rows0 as [|rb0 rows1] eqn:Erows1; [injection H as H; subst s'; exact Hs|].
  rewrite <- Erows1 in H.
  bind_inv H as dummy Edummy.
  bind_inv H as s1 Es1. bind_inv H as span Espan.
  assert (Hs1 : st_ok s1).
  { clear H Espan.
    match type of Es1 with (if ?c then _ else _) = _ => destruct c end.
    - bind_inv Es1 as sa Esa. bind_inv Es1 as t Et. bind_inv Es1 as rows Er.
      bind_inv Es1 as prev Ep. bind_inv Es1 as cells Ec. cbv zeta in Es1.
      apply set_caret_ok in Esa; [|exact Hs].
      destruct cells as [|cell0 cells0]; [injection Es1 as Es1; subst s1; exact Esa|].
      destruct (py_nth (rev prev) (Z.of_nat (length (cell0 :: cells0)) - 1)) as [src|] eqn:En;
        [|injection Es1 as Es1; subst s1; exact Esa].
      bind_inv Es1 as root' Eroot. injection Es1 as Es1. subst s1.
      destruct Esa as (Ht & Ho & Hq).
      split; [|split]; cbn; try assumption.
      assert (Hrows : Forall node_ok rows).
      { destruct (py_get (c_tree sa) (length (c_tree s) - 1)) as [t0|] eqn:Eg; [|discriminate Et].
        cbn in Et. injection Et as Et. subst t0. apply py_get_In in Eg.
        eapply as_list_ok; [exact Er|]. eapply Forall_In'; eauto. }
      assert (Hprev : Forall node_ok prev).
      { destruct rows as [|r0 rows]; [discriminate Ep|].
        destruct rows as [|p0 rows]; [discriminate Ep|].
        eapply as_list_ok; [exact Ep|].
        inversion Hrows as [|? ? _ Hr]; subst. inversion Hr; subst. assumption. }
      assert (Hsrc : node_ok src).
      { apply py_nth_In in En.
        apply in_rev in En. eapply Forall_In'; eauto. }
      eapply upd_row_ok; [|exact Ht|exact Eroot].
      intros cs cs' Hcs Hcs'. destruct cs as [|c0 r]; [discriminate Hcs'|].
      injection Hcs' as Hcs'. subst cs'. inversion Hcs; subst.
      constructor; [apply copy_node_ok; exact Hsrc|assumption].
    - injection Es1 as Es1. subst. exact Hs. }
  clear Es1 Espan Hs. revert s1 Hs1 H. generalize (Z.to_nat (span - 1)).
  induction n as [|n IH]; intros s1 Hs1 H.
  - injection H as H. subst. exact Hs1.
  - cbn [bind] in H. bind_inv H as sa Esa. bind_inv H as root' Eroot.
    eapply IH; [|exact H]. clear IH H.
    apply set_caret_ok in Esa; [|exact Hs1]. destruct Esa as (Ht & Ho & Hq).
    split; [|split]; cbn; try assumption.
    eapply upd_row_ok; [|exact Ht|exact Eroot].
    intros cs cs' Hcs Hcs'. cbv beta in Hcs'. destruct (env_dup v).
    + destruct cs as [|c0 r].
      { injection Hcs' as Hcs'. subst cs'. constructor; [|exact Hcs].
        apply node_ok_NL. constructor; [|constructor]. cbn. constructor. }
      injection Hcs' as Hcs'. subst cs'. inversion Hcs; subst.
      constructor; [apply copy_node_ok; assumption|exact Hcs].
    + injection Hcs' as Hcs'. subst cs'. constructor; [|exact Hcs].
      apply node_ok_NL. constructor; [|constructor]. cbn. constructor.
Qed.

(* ---------- open / close handlers ---------- *)
Lemma insert_then_ok : forall v ts s b (r : cst * bool),
  balanced ts -> st_ok s ->
  (s' <- insert_text_as_new_run v ts s ;; Ok (s', b)) = Ok r -> st_ok (fst r).
Proof.
  intros v ts s b r Hts Hs H. bind_inv H as s1 E. injection H as H. subst r. cbn.
  eapply insert_text_as_new_run_ok; eauto.
Qed.

Lemma add_then_ok : forall v ts s b (r : cst * bool),
  balanced ts -> st_ok s ->
  (s' <- add_toks v ts s ;; Ok (s', b)) = Ok r -> st_ok (fst r).
Proof.
  intros v ts s b r Hts Hs H. bind_inv H as s1 E. injection H as H. subst r. cbn.
  eapply add_toks_ok; eauto.
Qed.

Lemma note_label_ok : forall v kind e s r,
  st_ok s -> note_label v kind e s = Ok r -> st_ok (fst r).
Proof.
  intros v kind e s r Hs H. unfold note_label in H. bind_inv H as ty E.
  destruct (contains s_separator (lower (ostr ty))).
  - injection H as H. subst r. exact Hs.
  - bind_inv H as id E1. injection H as H. subst r. cbn.
    apply queue_run_ok; [apply balanced_raw|exact Hs].
Qed.

Lemma note_ref_ok : forall v kind e s r,
  st_ok s -> note_ref v kind e s = Ok r -> st_ok (fst r).
Proof.
  intros v kind e s r Hs H. unfold note_ref in H. bind_inv H as id E.
  eapply insert_then_ok; [apply balanced_raw|exact Hs|exact H].
Qed.

Lemma image_ref_ok : forall v rid s r,
  st_ok s -> image_ref v rid s = Ok r -> st_ok (fst r).
Proof.
  intros v rid s r Hs H. unfold image_ref in H. destruct rid as [id|x].
  - destruct (dict_get id (env_rels v)) as [img|].
    + eapply insert_then_ok; [apply balanced_raw|exact Hs|exact H].
    + injection H as H. subst r. exact Hs.
  - destruct x; try discriminate H. injection H as H. subst r. exact Hs.
Qed.

Lemma open_tag_ok : forall v path t e ks body s r,
  balanced body -> st_ok s -> open_tag v path t e ks body s = Ok r -> st_ok (fst r).
Proof.
  intros v path t e ks body s r Hbody Hs H. unfold open_tag in H. cbv zeta in H.
  destruct (str_eqb (e_ptag e) tag_PARAGRAPH).
  { bind_inv H as s1 E1.
    destruct (get_par_number (to_numtable v) (c_counters s1) (get_bullet_fmt t)) as [cs number].
    bind_inv H as bl E2. bind_inv H as s2 E3.
    apply commence_paragraph_ok in E1; [|exact Hs].
    apply insert_text_as_new_run_ok in E3; [|apply balanced_raw|exact E1].
    destruct E3 as (Ht & Ho & Hq).
    destruct (c_open s2) as [|p rest] eqn:Eo; [discriminate H|].
    injection H as H. subst r. inversion Ho; subst.
    split; [|split]; cbn; try assumption. constructor; assumption. }
  destruct (str_eqb (e_ptag e) tag_RUN).
  { bind_inv H as st E1. bind_inv H as s1 E2. injection H as H. subst r. cbn.
    eapply commence_run_ok; eauto. }
  destruct (str_eqb (e_ptag e) tag_COMMENT_RANGE_END).
  { bind_inv H as id E1. bind_inv H as s1 E2. injection H as H. subst r. cbn.
    eapply end_comment_range_ok; eauto. }
  destruct (str_eqb (e_ptag e) tag_COMMENT_RANGE_START).
  { bind_inv H as id E1. bind_inv H as s1 E2. injection H as H. subst r. cbn.
    eapply start_comment_range_ok; eauto. }
  destruct (str_eqb (e_ptag e) tag_TEXT || str_eqb (e_ptag e) tag_TEXT_MATH)%bool.
  { unfold add_text_into_open_run in H.
    eapply add_then_ok; [apply balanced_txt|exact Hs|exact H]. }
  destruct (str_eqb (e_ptag e) tag_MATH).
  { eapply insert_then_ok; [apply latex_toks_balanced|exact Hs|exact H]. }
  destruct (str_eqb (e_ptag e) tag_BR).
  { unfold add_code_into_open_run in H.
    eapply (add_then_ok v [TRaw 10]); [reflexivity|exact Hs|exact H]. }
  destruct (str_eqb (e_ptag e) tag_SYM).
  { bind_inv H as font E1. bind_inv H as chr E2.
    destruct (ostr chr) as [|c0 tl0].
    - injection H as H. subst r. exact Hs.
    - unfold add_code_into_open_run in H.
      eapply add_then_ok; [apply sym_toks_balanced|exact Hs|exact H]. }
  destruct (str_eqb (e_ptag e) tag_FOOTNOTE).
  { eapply note_label_ok; eauto. }
  destruct (str_eqb (e_ptag e) tag_ENDNOTE).
  { eapply note_label_ok; eauto. }
  destruct (str_eqb (e_ptag e) tag_HYPERLINK).
  { destruct (attr_r_req e s_id) as [rid|x].
    - destruct (dict_get rid (env_rels v)) as [link|].
      + destruct (attr_w e s_anchor) as [anchor|x].
        * eapply insert_then_ok; [apply link_toks_balanced; exact Hbody|exact Hs|exact H].
        * destruct x; try discriminate H.
          eapply insert_then_ok; [exact Hbody|exact Hs|exact H].
      + eapply insert_then_ok; [exact Hbody|exact Hs|exact H].
    - destruct x; try discriminate H.
      eapply insert_then_ok; [exact Hbody|exact Hs|exact H]. }
  destruct (str_eqb (e_ptag e) tag_FORM_CHECKBOX).
  { bind_inv H as x E1. eapply insert_then_ok; [apply balanced_raw|exact Hs|exact H]. }
  destruct (str_eqb (e_ptag e) tag_FORM_DDLIST).
  { bind_inv H as x E1. eapply insert_then_ok; [apply balanced_txt|exact Hs|exact H]. }
  destruct (str_eqb (e_ptag e) tag_FOOTNOTE_REFERENCE).
  { eapply note_ref_ok; eauto. }
  destruct (str_eqb (e_ptag e) tag_ENDNOTE_REFERENCE).
  { eapply note_ref_ok; eauto. }
  destruct (str_eqb (e_ptag e) tag_IMAGE).
  { eapply image_ref_ok; eauto. }
  destruct (str_eqb (e_ptag e) tag_IMAGE_ALT).
  { destruct (attr_plain e s_descr) as [d|].
    - eapply insert_then_ok; [apply alt_toks_balanced|exact Hs|exact H].
    - injection H as H. subst r. exact Hs. }
  destruct (str_eqb (e_ptag e) tag_IMAGEDATA).
  { eapply image_ref_ok; eauto. }
  destruct (str_eqb (e_ptag e) tag_TAB).
  { eapply (insert_then_ok v [TRaw 9]); [reflexivity|exact Hs|exact H]. }
  injection H as H. subst r. exact Hs.
Qed.

Lemma close_tag_ok : forall v e ks s s',
  st_ok s -> close_tag v e ks s = Ok s' -> st_ok s'.
Proof.
  intros v e ks s s' Hs H. unfold close_tag in H. cbv zeta in H.
  destruct (str_eqb (e_ptag e) tag_PARAGRAPH).
  { eapply conclude_paragraph_ok; eauto. }
  destruct (str_eqb (e_ptag e) tag_RUN).
  { eapply commence_run_ok; eauto. }
  destruct (str_eqb (e_ptag e) tag_TABLE_CELL).
  { eapply close_table_cell_ok; eauto. }
  injection H as H. subst. exact Hs.
Qed.

(* ---------- reading paragraphs back ---------- *)
Lemma pars_at_ok : forall d l ps,
  pars_at d l = Ok ps -> Forall node_ok l -> Forall par_ok ps.
Proof.
  induction d as [|d IH]; intros l ps H Hl; [discriminate H|].
  destruct d as [|d'].
  - cbn [pars_at] in H.
    eapply mapM_Forall; [|exact H|apply Forall_rev'; exact Hl].
    intros x y Hx Hy. destruct x as [l0|p]; [discriminate Hy|].
    injection Hy as Hy. subst. exact Hx.
  - cbn [pars_at] in H. bind_inv H as xs E. injection H as H. subst ps.
    apply Forall_concat'.
    eapply mapM_Forall; [|exact E|apply Forall_rev'; exact Hl].
    intros x y Hx Hy. cbv beta in Hy. destruct x as [l0|p]; [|discriminate Hy].
    eapply IH; [exact Hy|]. apply node_ok_NL. exact Hx.
Qed.

Lemma tree_par_toks_ok : forall l ps,
  tree_par_toks l = Ok ps -> Forall node_ok l -> Forall balanced ps.
Proof.
  intros l ps H Hl. unfold tree_par_toks in H.
  bind_inv H as pars E1. bind_inv H as rs E2. injection H as H. subst ps.
  assert (Hrs : Forall (fun x => balanced (concat x)) rs).
  { eapply mapM_Forall; [|exact E2|eapply pars_at_ok; eauto].
    intros p y Hp Hy. eapply par_toks_balanced; eauto. }
  apply Forall_forall. intros x Hx. apply in_map_iff in Hx.
  destruct Hx as (y & Hy & Hin). subst x.
  exact (Forall_In' (fun x => balanced (concat x)) rs y Hrs Hin).
Qed.

Lemma finish_st_ok : forall v s s', st_ok s -> finish v s = Ok s' -> st_ok s'.
Proof.
  intros v s s' Hs H. unfold finish in H. bind_inv H as s1 E.
  eapply conclude_paragraph_ok; [|exact H].
  destruct (c_queued s) as [|q qs].
  - injection E as E. subst. exact Hs.
  - eapply commence_paragraph_ok; eauto.
Qed.

(* ---------- the walk ---------- *)
Lemma walk_st_ok : forall v t path s s', st_ok s -> walk v path t s = Ok s' -> st_ok s'.
Proof.
  intros v t. induction t as [tl|e ks IH] using anode_ind'; intros path s s' Hs H.
  - cbn in H. injection H as H. subst. exact Hs.
  - cbn [walk] in H.
    bind_inv H as s1 E1. bind_inv H as body Eb. bind_inv H as s2r Eo.
    destruct s2r as [s2 recurse]. bind_inv H as s3 Ek. bind_inv H as s4 Ec.
    apply set_caret_ok in E1; [|exact Hs].
    assert (Hbody : balanced body).
    { destruct (str_eqb (e_ptag e) tag_HYPERLINK).
      - clear - IH Eb. revert body Eb. generalize O.
        induction IH as [|k r Hk Hr IHr]; intros i body Eb.
        + injection Eb as Eb. subst. reflexivity.
        + cbn [bind] in Eb.
          bind_inv Eb as sk Esk. bind_inv Eb as sk' Esk'. bind_inv Eb as ps Eps.
          bind_inv Eb as rest Erest. injection Eb as Eb. subst body.
          apply balanced_app.
          * apply join_toks_balanced.
            eapply tree_par_toks_ok; [exact Eps|].
            apply Hk in Esk; [|exact init_st_ok].
            apply finish_st_ok in Esk'; [|exact Esk]. apply Esk'.
          * eapply IHr; exact Erest.
      - injection Eb as Eb. subst. reflexivity. }
    apply open_tag_ok in Eo; [|exact Hbody|exact E1].
    cbn [fst] in Eo.
    assert (Hs3 : st_ok s3).
    { destruct recurse.
      - clear - IH Ek Eo. revert s2 Eo Ek. generalize O.
        induction IH as [|k r Hk Hr IHr]; intros i s2 Hs2 Ek.
        + injection Ek as Ek. subst. exact Hs2.
        + cbn [bind] in Ek. bind_inv Ek as sk Esk.
          eapply IHr; [|exact Ek]. eapply Hk; eauto.
      - injection Ek as Ek. subst. exact Eo. }
    eapply set_caret_ok; [|exact H]. eapply close_tag_ok; eauto.
Qed.

Theorem balanced_paragraphs : forall v path t s ps p rs,
  collect_from v path t = Ok s -> pars_at 4%nat (c_tree s) = Ok ps -> In p ps ->
  par_run_toks p = Ok rs -> balanced (concat rs).
Proof.
  intros v path t s ps p rs Hc Hps Hin Hrs. unfold collect_from in Hc.
  bind_inv Hc as s0 E. apply walk_st_ok in E; [|exact init_st_ok].
  apply finish_st_ok in Hc; [|exact E]. destruct Hc as (Ht & _ & _).
  eapply par_toks_balanced; [exact Hrs|].
  assert (Hp : Forall par_ok ps) by (eapply pars_at_ok; eauto).
  exact (Forall_In' par_ok ps p Hp Hin).
Qed.

Print Assumptions escape_no_angle.
Print Assumptions escape_amp_entity.
Print Assumptions render_plain_txt.
Print Assumptions unescape_escape.
Print Assumptions escape_is_python_replace.
Print Assumptions check_app.
Print Assumptions balanced_app.
Print Assumptions balanced_neutral.
Print Assumptions wrap_balanced.
Print Assumptions run_toks_balanced.
Print Assumptions par_toks_balanced.
Print Assumptions join_toks_balanced.
Print Assumptions link_toks_balanced.
Print Assumptions latex_toks_balanced.
Print Assumptions sym_toks_balanced.
Print Assumptions walk_st_ok.
Print Assumptions finish_st_ok.
Print Assumptions balanced_paragraphs.
