(* SourceBullets.v — the readers of bullets_and_numbering.BulletGenerator AS TRANSLATED FROM THE SOURCE TEXT
   (gen/Source.v: _get_numPr, _get_numId, _get_ilvl, get_bullet_fmt; try / except (StopIteration, KeyError)
   with returns inside, calls between methods of the class) are equal to the model's get_bullet_fmt
   (model/Bullets.v): which numbering definition (numId) and level (ilvl) a paragraph refers to - the input
   of every C08 theorem about list markers and counters.  Elements are read as in SourceFmt.v. *)
From Coq Require Import List NArith ZArith Bool Arith Lia.
From D2P Require Import Str Err Xml TableTypes Tables Fmt NumFmt Bullets Merge Collector Walk PyVal Source SourceBase SourceElem SourceForms.
Import ListNotations.

(* local names of elements and attributes hold no brace, down to depth d *)
Fixpoint tree_names_ok (d : nat) (t : anode) : Prop :=
  match d with
  | O => True
  | S d' =>
      match t with
      | AX _ => True
      | AE e ks => attr_names_ok e /\ kid_names_ok ks /\ (forall k, In k ks -> tree_names_ok d' k)
      end
  end.

Definition enc_ostr (o : option str) : pv := match o with Some s => VStr s | None => VNone end.

(* ---------- names ---------- *)
Ltac sbu_names :=
  unfold braceless, s_pPr, s_numPr, s_numId, s_ilvl; repeat split; sfo_notin.
Lemma sbu_no58_pPr : ~ In 58%N s_pPr. Proof. sbu_names. Qed.
Lemma sbu_braceless_pPr : braceless s_pPr. Proof. sbu_names. Qed.
Lemma sbu_no58_numPr : ~ In 58%N s_numPr. Proof. sbu_names. Qed.
Lemma sbu_braceless_numPr : braceless s_numPr. Proof. sbu_names. Qed.
Lemma sbu_no58_numId : ~ In 58%N s_numId. Proof. sbu_names. Qed.
Lemma sbu_braceless_numId : braceless s_numId. Proof. sbu_names. Qed.
Lemma sbu_no58_ilvl : ~ In 58%N s_ilvl. Proof. sbu_names. Qed.
Lemma sbu_braceless_ilvl : braceless s_ilvl. Proof. sbu_names. Qed.

(* a comment / processing instruction has an empty nsmap: qn raises KeyError *)
Lemma sbu_iterfind_AX : forall tl name, ~ In 58%N name ->
  S_iterfind_by_qn (enc_fel (AX tl)) (VStr ([119; 58]%N ++ name)) = Err KeyError.
Proof.
  intros tl name Hn. unfold S_iterfind_by_qn, S_qn, py_split_on. cbv zeta.
  rewrite (sf_split_w name Hn). reflexivity.
Qed.

(* the names hypothesis goes down to the children found *)
Lemma sbu_first_child_ok : forall d t name c, tree_names_ok (S d) t ->
  first_child_w t name = Some c -> tree_names_ok d c /\ exists e ks, c = AE e ks.
Proof.
  intros d t name c Ht Hc. destruct t as [e ks|tl]; [|discriminate Hc].
  cbn [tree_names_ok] in Ht. destruct Ht as [_ [_ Hks]].
  unfold first_child_w, children_w in Hc. destruct (e_wuri e) as [u|]; [|discriminate Hc].
  pose proof (sf_find_children_in (Some u) name ks) as Hin.
  destruct (find_children (Some u) name ks) as [|x rest]; [discriminate Hc|].
  inversion Hc; subst x. destruct (Hin c (or_introl eq_refl)) as [Hk Hae].
  split; [exact (Hks c Hk)|exact Hae].
Qed.

Lemma sbu_tree_names_le : forall d t, tree_names_ok (S d) t -> tree_names_ok d t.
Proof.
  induction d as [|d IH]; intros t Ht; [exact I|].
  destruct t as [e ks|tl]; [|exact I].
  cbn [tree_names_ok] in Ht. destruct Ht as [Ha [Hk Hks]].
  cbn [tree_names_ok]. split; [exact Ha|]. split; [exact Hk|].
  intros k Hin. apply IH. exact (Hks k Hin).
Qed.

(* try: x = next(iterfind_by_qn(t, "w:NAME")); REST except (StopIteration, KeyError): return None *)
Lemma sbu_try_first : forall t name (k : pv -> out pv),
  ~ In 58%N name -> braceless name -> tree_names_ok 1 t ->
  py_try (S:=pv) (
    t1 <~ S_iterfind_by_qn (enc_fel t) (VStr ([119; 58]%N ++ name)) ;;;
    t2 <~ py_next t1 ;;;
    k t2) [StopIteration; KeyError] (Rt VNone)
  = match first_child_w t name with
    | Some c => py_try (S:=pv) (k (enc_fel c)) [StopIteration; KeyError] (Rt VNone)
    | None => Rt VNone
    end.
Proof.
  intros t name k Hn Hb Ht. destruct t as [e ks|tl].
  - cbn [tree_names_ok] in Ht. destruct Ht as [_ [Hk _]].
    rewrite (src_iterfind_by_qn_w e ks name Hn Hb Hk).
    unfold first_child_w, children_w. destruct (e_wuri e) as [u|]; [|reflexivity].
    destruct (find_children (Some u) name ks) as [|x rest]; reflexivity.
  - rewrite (sbu_iterfind_AX tl name Hn). reflexivity.
Qed.

(* try: ... return get_attrib_by_qn(c, "w:val") except (StopIteration, KeyError): return None *)
Lemma sbu_try_val : forall e ks, attr_names_ok e ->
  py_try (S:=pv) (
    t3 <~ S_get_attrib_by_qn (enc_fel (AE e ks)) (VStr [119;58;118;97;108]%N) ;;;
    Rt t3) [StopIteration; KeyError] (Rt VNone)
  = Rt (enc_ostr (match attr_w_req e s_val with Ok v => Some v | Err _ => None end)).
Proof.
  intros e ks Ha. rewrite (sfo_attr_val e ks Ha).
  destruct (attr_w_req e s_val) as [v|x] eqn:E; [reflexivity|].
  rewrite (sfo_attr_w_req_err e s_val x E). reflexivity.
Qed.

(* the common shape of _get_numId / _get_ilvl *)
Lemma sbu_child_val : forall n name, ~ In 58%N name -> braceless name -> tree_names_ok 2 n ->
  fn_result (S:=unit) (
    v <~~ py_try (S:=pv) (
      t1 <~ S_iterfind_by_qn (enc_fel n) (VStr ([119; 58]%N ++ name)) ;;;
      t2 <~ py_next t1 ;;;
      t3 <~ S_get_attrib_by_qn t2 (VStr [119;58;118;97;108]%N) ;;;
      Rt t3) [StopIteration; KeyError] (Rt VNone) ;;;
    Rt VNone)
  = Ok (enc_ostr (child_val_w n name)).
Proof.
  intros n name Hn Hb Ht.
  rewrite (sbu_try_first n name
             (fun t2 => t3 <~ S_get_attrib_by_qn t2 (VStr [119;58;118;97;108]%N) ;;; Rt t3)
             Hn Hb (sbu_tree_names_le 1 n Ht)).
  unfold child_val_w.
  destruct (first_child_w n name) as [c|] eqn:Ec; [|reflexivity].
  destruct (sbu_first_child_ok 1 n name c Ht Ec) as [Hc [ce [cks Eq]]]. subst c.
  cbn [tree_names_ok] in Hc. destruct Hc as [Ha _].
  rewrite (sbu_try_val ce cks Ha). reflexivity.
Qed.

(* try: next(iterfind_by_qn(x, "w:NAME")) except (StopIteration, KeyError): None *)
Theorem src_get_numPr : forall self p, tree_names_ok 2 p ->
  S_BulletGenerator_get_numPr self (enc_fel p)
  = Ok (match first_child_w p s_pPr with
        | Some ppr => match first_child_w ppr s_numPr with Some n => enc_fel n | None => VNone end
        | None => VNone
        end).
Proof.
  intros self p Ht. unfold S_BulletGenerator_get_numPr. cbv zeta.
  change (VStr [119;58;112;80;114]%N) with (VStr ([119; 58]%N ++ s_pPr)).
  change (VStr [119;58;110;117;109;80;114]%N) with (VStr ([119; 58]%N ++ s_numPr)).
  rewrite (sbu_try_first p s_pPr
             (fun t2 => t3 <~ S_iterfind_by_qn t2 (VStr ([119; 58]%N ++ s_numPr)) ;;;
                        t4 <~ py_next t3 ;;; Rt t4)
             sbu_no58_pPr sbu_braceless_pPr (sbu_tree_names_le 1 p Ht)).
  destruct (first_child_w p s_pPr) as [ppr|] eqn:Ep; [|reflexivity].
  destruct (sbu_first_child_ok 1 p s_pPr ppr Ht Ep) as [Hppr _].
  rewrite (sbu_try_first ppr s_numPr (fun t4 => Rt t4) sbu_no58_numPr sbu_braceless_numPr Hppr).
  destruct (first_child_w ppr s_numPr) as [n|]; reflexivity.
Qed.

Theorem src_get_numId : forall self n, tree_names_ok 2 n ->
  S_BulletGenerator_get_numId self (enc_fel n) = Ok (enc_ostr (child_val_w n s_numId)).
Proof.
  intros self n Ht.
  exact (sbu_child_val n s_numId sbu_no58_numId sbu_braceless_numId Ht).
Qed.

Theorem src_get_ilvl : forall self n, tree_names_ok 2 n ->
  S_BulletGenerator_get_ilvl self (enc_fel n) = Ok (enc_ostr (child_val_w n s_ilvl)).
Proof.
  intros self n Ht.
  exact (sbu_child_val n s_ilvl sbu_no58_ilvl sbu_braceless_ilvl Ht).
Qed.

Theorem src_get_bullet_fmt : forall self p, tree_names_ok 4 p ->
  S_BulletGenerator_get_bullet_fmt self (enc_fel p)
  = Ok (VTuple [enc_ostr (fst (get_bullet_fmt p)); enc_ostr (snd (get_bullet_fmt p))]).
Proof.
  intros self p Ht. unfold S_BulletGenerator_get_bullet_fmt, get_bullet_fmt.
  rewrite (src_get_numPr self p (sbu_tree_names_le 2 p (sbu_tree_names_le 3 p Ht))).
  destruct (first_child_w p s_pPr) as [ppr|] eqn:Ep; [|reflexivity].
  destruct (sbu_first_child_ok 3 p s_pPr ppr Ht Ep) as [Hppr _].
  destruct (first_child_w ppr s_numPr) as [n|] eqn:En; [|reflexivity].
  destruct (sbu_first_child_ok 2 ppr s_numPr n Hppr En) as [Hn [ne [nks Eq]]].
  cbn [binde]. cbv zeta.
  replace (py_is_none (enc_fel n)) with (Ok (VBool false)) by (subst n; reflexivity).
  cbn [binde py_truth].
  rewrite (src_get_numId self n Hn), (src_get_ilvl self n Hn). cbn [binde fst snd].
  destruct (child_val_w n s_numId) as [a|]; destruct (child_val_w n s_ilvl) as [b|]; reflexivity.
Qed.

Print Assumptions src_get_numPr.
Print Assumptions src_get_numId.
Print Assumptions src_get_ilvl.
Print Assumptions src_get_bullet_fmt.
