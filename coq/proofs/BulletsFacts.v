(* BulletsFacts.v — facts about model/Bullets.v (list paragraph numbering,
   list position, bullet marker layout). *)
From Coq Require Import List NArith ZArith Bool Lia Sorted.
From D2P Require Import Str Err Xml TableTypes Tables Fmt NumFmt Bullets.
Import ListNotations.
Open Scope N_scope.

(* ------------------------------------------------------------------ *)
(* String equality / order                                             *)
(* ------------------------------------------------------------------ *)

Lemma str_eqb_eq : forall a b, str_eqb a b = true <-> a = b.
Proof.
  induction a as [|x a IH]; destruct b as [|y b]; cbn [str_eqb]; split; intro H;
    try reflexivity; try discriminate.
  - apply andb_true_iff in H. destruct H as [H1 H2].
    apply N.eqb_eq in H1. apply IH in H2. subst. reflexivity.
  - injection H as H1 H2. subst. apply andb_true_iff. split.
    + apply N.eqb_refl.
    + apply IH. reflexivity.
Qed.

Lemma str_eqb_refl : forall a, str_eqb a a = true.
Proof. intro a. apply str_eqb_eq. reflexivity. Qed.

Lemma str_eqb_neq : forall a b, str_eqb a b = false <-> a <> b.
Proof.
  intros a b. split.
  - intros H E. subst. rewrite str_eqb_refl in H. discriminate.
  - intro H. destruct (str_eqb a b) eqn:E; [|reflexivity].
    apply str_eqb_eq in E. contradiction.
Qed.

Lemma str_eqb_sym : forall a b, str_eqb a b = str_eqb b a.
Proof.
  intros a b. destruct (str_eqb a b) eqn:E1, (str_eqb b a) eqn:E2; try reflexivity.
  - apply str_eqb_eq in E1. subst. rewrite str_eqb_refl in E2. discriminate.
  - apply str_eqb_eq in E2. subst. rewrite str_eqb_refl in E1. discriminate.
Qed.

Lemma str_ltb_irrefl : forall a, str_ltb a a = false.
Proof.
  induction a as [|x a IH]; cbn [str_ltb]; [reflexivity|].
  rewrite N.ltb_irrefl. exact IH.
Qed.

Lemma str_ltb_trans : forall a b c,
  str_ltb a b = true -> str_ltb b c = true -> str_ltb a c = true.
Proof.
  induction a as [|x a IH]; intros [|y b] [|z c]; cbn [str_ltb];
    try (intros; discriminate); try (intros; reflexivity).
  destruct (N.ltb_spec x y), (N.ltb_spec y x), (N.ltb_spec y z), (N.ltb_spec z y),
    (N.ltb_spec x z), (N.ltb_spec z x); intros Hab Hbc;
    try discriminate; try reflexivity; try lia.
  eapply IH; eassumption.
Qed.

Lemma str_ltb_trichotomy : forall a b,
  str_ltb a b = true \/ a = b \/ str_ltb b a = true.
Proof.
  induction a as [|x a IH]; intros [|y b]; cbn [str_ltb]; auto.
  destruct (N.ltb_spec x y), (N.ltb_spec y x); auto; try lia.
  assert (x = y) by lia. subst y.
  destruct (IH b) as [H1 | [H1 | H1]]; auto.
  subst. auto.
Qed.

Lemma str_ltb_asym : forall a b, str_ltb a b = true -> str_ltb b a = false.
Proof.
  intros a b H. destruct (str_ltb b a) eqn:E; [|reflexivity].
  pose proof (str_ltb_trans _ _ _ H E) as H1.
  rewrite str_ltb_irrefl in H1. discriminate.
Qed.

(* ------------------------------------------------------------------ *)
(* Insertion-ordered dicts                                             *)
(* ------------------------------------------------------------------ *)

Lemma dict_get_set : forall {V} (k k' : str) (v : V) d,
  dict_get k (dict_set k' v d) = if str_eqb k k' then Some v else dict_get k d.
Proof.
  intros V k k' v d. induction d as [|[k0 v0] r IH]; cbn [dict_set dict_get].
  - reflexivity.
  - destruct (str_eqb k' k0) eqn:E; cbn [dict_get].
    + apply str_eqb_eq in E. subst k0. destruct (str_eqb k k'); reflexivity.
    + rewrite IH. destruct (str_eqb k k0) eqn:E0, (str_eqb k k') eqn:E1; try reflexivity.
      apply str_eqb_eq in E0. apply str_eqb_eq in E1. subst.
      rewrite str_eqb_refl in E. discriminate.
Qed.

Lemma dict_get_prune : forall {V} (l k : str) (d : list (str * V)),
  dict_get k (filter (fun kv => negb (str_ltb l (fst kv))) d)
  = if str_ltb l k then None else dict_get k d.
Proof.
  intros V l k d. induction d as [|[k0 v0] r IH]; cbn [filter dict_get fst].
  - destruct (str_ltb l k); reflexivity.
  - destruct (str_ltb l k0) eqn:E; cbn [negb dict_get].
    + rewrite IH. destruct (str_eqb k k0) eqn:E0; [|reflexivity].
      apply str_eqb_eq in E0. subst. rewrite E. reflexivity.
    + rewrite IH. destruct (str_eqb k k0) eqn:E0; [|reflexivity].
      apply str_eqb_eq in E0. subst. rewrite E. reflexivity.
Qed.

(* ------------------------------------------------------------------ *)
(* Specification of the counters                                       *)
(* ------------------------------------------------------------------ *)

Definition item := (str * str)%type.                     (* (numId, ilvl) of a list paragraph *)
(* history most-recent-first: number of earlier items of the same list and level since the latest item of that list with a smaller level *)
Fixpoint spec_rev (hr : list item) (numId ilvl : str) : N :=
  match hr with
  | [] => 0
  | (n, l) :: r =>
      if str_eqb n numId then
        if str_ltb l ilvl then 0
        else if str_eqb l ilvl then 1 + spec_rev r numId ilvl
        else spec_rev r numId ilvl
      else spec_rev r numId ilvl
  end.
Definition count_of (cs : counters) (numId ilvl : str) : N :=
  match dict_get numId cs with
  | Some d => match dict_get ilvl d with Some c => c | None => 0 end
  | None => 0
  end.
(* process a history (chronological order) of paragraphs; None = not a list item *)
Definition step (tbl : numtable) (cs : counters) (it : option item) : counters :=
  match it with
  | Some (n, l) => fst (get_par_number tbl cs (Some n, Some l))
  | None => fst (get_par_number tbl cs (None, None))
  end.
Definition run_hist (tbl : numtable) (h : list (option item)) : counters := fold_left (step tbl) h [].
Fixpoint items_rev (h : list (option item)) (acc : list item) : list item :=
  match h with [] => acc | Some i :: r => items_rev r (i :: acc) | None :: r => items_rev r acc end.

(* get_par_number, unfolded once and for all *)
Definition cur_dict (cs : counters) (n : str) : list (str * N) :=
  match dict_get n cs with Some d => d | None => [] end.

Lemma get_par_number_eq : forall tbl cs n l,
  get_par_number tbl cs (Some n, Some l)
  = (dict_set n (fst (increment_list_counter (cur_dict cs n) l)) cs,
     Some (Z.of_N (snd (increment_list_counter (cur_dict cs n) l))
           + get_start_value_zero_based tbl n l)%Z).
Proof. intros. reflexivity. Qed.

Lemma step_some : forall tbl cs n l,
  step tbl cs (Some (n, l))
  = dict_set n (fst (increment_list_counter (cur_dict cs n) l)) cs.
Proof. intros. reflexivity. Qed.

Lemma step_none : forall tbl cs, step tbl cs None = cs.
Proof. intros. reflexivity. Qed.

Lemma incr_snd : forall cs n l,
  snd (increment_list_counter (cur_dict cs n) l) = 1 + count_of cs n l.
Proof.
  intros cs n l. unfold increment_list_counter, count_of, cur_dict. cbn [snd].
  destruct (dict_get n cs) as [d|]; cbn [dict_get].
  - destruct (dict_get l d); [apply N.add_comm | reflexivity].
  - reflexivity.
Qed.

Lemma step_get_other : forall tbl cs n l numId,
  n <> numId -> dict_get numId (step tbl cs (Some (n, l))) = dict_get numId cs.
Proof.
  intros tbl cs n l numId Hne. rewrite step_some, dict_get_set.
  destruct (str_eqb numId n) eqn:E; [|reflexivity].
  apply str_eqb_eq in E. subst. contradiction.
Qed.

Lemma step_get_same : forall tbl cs n l,
  dict_get n (step tbl cs (Some (n, l)))
  = Some (fst (increment_list_counter (cur_dict cs n) l)).
Proof.
  intros. rewrite step_some, dict_get_set, str_eqb_refl. reflexivity.
Qed.

Lemma step_count_same : forall tbl cs n l ilvl,
  count_of (step tbl cs (Some (n, l))) n ilvl
  = if str_ltb l ilvl then 0
    else if str_eqb l ilvl then 1 + count_of cs n ilvl
    else count_of cs n ilvl.
Proof.
  intros tbl cs n l ilvl.
  unfold count_of at 1. rewrite step_get_same.
  pose proof (incr_snd cs n l) as Hs. revert Hs.
  unfold increment_list_counter. cbn [fst snd]. intro Hs.
  rewrite dict_get_prune. destruct (str_ltb l ilvl); [reflexivity|].
  rewrite dict_get_set, Hs. rewrite (str_eqb_sym ilvl l).
  destruct (str_eqb l ilvl) eqn:E.
  - apply str_eqb_eq in E. subst. reflexivity.
  - unfold count_of, cur_dict. destruct (dict_get n cs); reflexivity.
Qed.

Lemma step_count_other : forall tbl cs n l numId ilvl,
  n <> numId ->
  count_of (step tbl cs (Some (n, l))) numId ilvl = count_of cs numId ilvl.
Proof.
  intros. unfold count_of. rewrite step_get_other by assumption. reflexivity.
Qed.

Lemma counters_spec_gen : forall tbl h cs acc,
  (forall numId ilvl, count_of cs numId ilvl = spec_rev acc numId ilvl) ->
  forall numId ilvl,
    count_of (fold_left (step tbl) h cs) numId ilvl = spec_rev (items_rev h acc) numId ilvl.
Proof.
  intros tbl h. induction h as [|[[n l]|] r IH]; intros cs acc Hinv numId ilvl;
    cbn [fold_left items_rev].
  - apply Hinv.
  - apply IH. intros numId' ilvl'. cbn [spec_rev].
    destruct (str_eqb n numId') eqn:E.
    + apply str_eqb_eq in E. subst numId'. rewrite step_count_same, Hinv. reflexivity.
    + apply str_eqb_neq in E. rewrite step_count_other by assumption. apply Hinv.
  - rewrite step_none. apply IH. exact Hinv.
Qed.

(* A *)
Lemma counters_spec : forall tbl h numId ilvl,
  count_of (run_hist tbl h) numId ilvl = spec_rev (items_rev h []) numId ilvl.
Proof.
  intros tbl h numId ilvl. unfold run_hist. apply counters_spec_gen.
  intros. reflexivity.
Qed.

Lemma run_hist_app : forall tbl h1 h2,
  run_hist tbl (h1 ++ h2) = fold_left (step tbl) h2 (run_hist tbl h1).
Proof. intros. unfold run_hist. apply fold_left_app. Qed.

(* B *)
Lemma par_number_spec : forall tbl h n l cs' num,
  get_par_number tbl (run_hist tbl h) (Some n, Some l) = (cs', num) ->
  num = Some (Z.of_N (1 + spec_rev (items_rev h []) n l) + get_start_value_zero_based tbl n l)%Z
  /\ cs' = run_hist tbl (h ++ [Some (n, l)]).
Proof.
  intros tbl h n l cs' num H. rewrite get_par_number_eq in H.
  (* project instead of [injection], which would unfold increment_list_counter *)
  pose proof (f_equal fst H) as H1. pose proof (f_equal snd H) as H2.
  cbn [fst snd] in H1, H2. clear H. split.
  - subst num. rewrite incr_snd, counters_spec. reflexivity.
  - subst cs'. rewrite run_hist_app. cbn [fold_left]. rewrite step_some. reflexivity.
Qed.

(* C *)
Lemma fold_step_get_other : forall tbl h2 cs numId,
  (forall i, In (Some i) h2 -> fst i <> numId) ->
  dict_get numId (fold_left (step tbl) h2 cs) = dict_get numId cs.
Proof.
  intros tbl h2. induction h2 as [|[[n l]|] r IH]; intros cs numId Hne; cbn [fold_left].
  - reflexivity.
  - rewrite IH.
    + apply step_get_other. apply (Hne (n, l)). left. reflexivity.
    + intros i Hi. apply Hne. right. exact Hi.
  - rewrite step_none. apply IH. intros i Hi. apply Hne. right. exact Hi.
Qed.

Lemma non_items_do_not_interfere : forall tbl h1 h2 numId ilvl,
  (forall i, In (Some i) h2 -> fst i <> numId) ->
  count_of (run_hist tbl (h1 ++ h2)) numId ilvl = count_of (run_hist tbl h1) numId ilvl.
Proof.
  intros tbl h1 h2 numId ilvl Hne. rewrite run_hist_app. unfold count_of.
  rewrite fold_step_get_other by exact Hne. reflexivity.
Qed.

(* ------------------------------------------------------------------ *)
(* D. Sortedness of the level keys                                     *)
(* ------------------------------------------------------------------ *)

Definition keys_sorted (d : list (str * N)) : Prop :=
  StronglySorted (fun a b => str_ltb a b = true) (map fst d).

Lemma keys_filter_in : forall (p : str * N -> bool) d k,
  In k (map fst (filter p d)) -> In k (map fst d).
Proof.
  intros p d k H. apply in_map_iff in H. destruct H as [kv [H1 H2]].
  apply filter_In in H2. destruct H2 as [H2 _].
  apply in_map_iff. exists kv. split; assumption.
Qed.

Lemma keys_set_in : forall (l : str) (c : N) d k,
  In k (map fst (dict_set l c d)) -> k = l \/ In k (map fst d).
Proof.
  intros l c d k. induction d as [|[k0 v0] r IH]; cbn [dict_set].
  - cbn [map fst In]. intros [H|[]]. left. symmetry. exact H.
  - destruct (str_eqb l k0) eqn:E; cbn [map fst In].
    + intros [H|H]; [left; symmetry; exact H | right; right; exact H].
    + intros [H|H]; [right; left; exact H|].
      destruct (IH H) as [H1|H1]; [left; exact H1 | right; right; exact H1].
Qed.

Lemma keys_sorted_filter : forall p d, keys_sorted d -> keys_sorted (filter p d).
Proof.
  intros p d. unfold keys_sorted. induction d as [|[k v] r IH]; cbn [filter map fst]; intro H.
  - constructor.
  - inversion H as [|x xs Hs Hf]; subst.
    destruct (p (k, v)); cbn [map fst].
    + constructor.
      * apply IH. exact Hs.
      * rewrite Forall_forall in *. intros x Hx. apply Hf.
        eapply keys_filter_in. exact Hx.
    + apply IH. exact Hs.
Qed.

Lemma keys_sorted_incr : forall l c d,
  keys_sorted d ->
  keys_sorted (filter (fun kv => negb (str_ltb l (fst kv))) (dict_set l c d)).
Proof.
  intros l c d. induction d as [|[k0 v0] r IH]; intro H; cbn [dict_set].
  - cbn [filter fst]. rewrite str_ltb_irrefl. cbn [negb].
    unfold keys_sorted. cbn [map fst]. constructor; constructor.
  - destruct (str_eqb l k0) eqn:E.
    + apply str_eqb_eq in E. subst k0. apply keys_sorted_filter. exact H.
    + unfold keys_sorted in H. cbn [map fst] in H.
      inversion H as [|x xs Hs Hf]; subst.
      cbn [filter fst]. destruct (str_ltb l k0) eqn:L; cbn [negb].
      * apply IH. exact Hs.
      * unfold keys_sorted. cbn [map fst]. constructor.
        -- apply IH. exact Hs.
        -- rewrite Forall_forall in *. intros k Hk.
           apply keys_filter_in in Hk. apply keys_set_in in Hk.
           destruct Hk as [Hk|Hk].
           ++ subst k. destruct (str_ltb_trichotomy k0 l) as [T|[T|T]].
              ** exact T.
              ** subst. rewrite str_eqb_refl in E. discriminate.
              ** rewrite T in L. discriminate.
           ++ apply Hf. exact Hk.
Qed.

Definition vals_pos (d : list (str * N)) : Prop := Forall (fun kv => 1 <= snd kv) d.

Lemma vals_pos_set : forall l c d, 1 <= c -> vals_pos d -> vals_pos (dict_set l c d).
Proof.
  intros l c d Hc. unfold vals_pos. induction d as [|[k0 v0] r IH]; intro H; cbn [dict_set].
  - constructor; [exact Hc | constructor].
  - inversion H as [|x xs Hx Hr]; subst. destruct (str_eqb l k0).
    + constructor; [exact Hc | exact Hr].
    + constructor; [exact Hx | apply IH; exact Hr].
Qed.

Lemma vals_pos_filter : forall p d, vals_pos d -> vals_pos (filter p d).
Proof.
  intros p d. unfold vals_pos. rewrite !Forall_forall. intros H x Hx.
  apply filter_In in Hx. apply H. apply Hx.
Qed.

Lemma incr_ok : forall d l,
  keys_sorted d -> vals_pos d ->
  keys_sorted (fst (increment_list_counter d l)) /\ vals_pos (fst (increment_list_counter d l)).
Proof.
  intros d l Hs Hp. unfold increment_list_counter. cbn [fst]. split.
  - apply keys_sorted_incr. exact Hs.
  - apply vals_pos_filter. apply vals_pos_set; [|exact Hp].
    destruct (dict_get l d); lia.
Qed.

Definition cs_ok (cs : counters) : Prop :=
  forall numId d, dict_get numId cs = Some d -> keys_sorted d /\ vals_pos d.

Lemma cs_ok_step : forall tbl cs it, cs_ok cs -> cs_ok (step tbl cs it).
Proof.
  intros tbl cs [[n l]|] Hok; [|rewrite step_none; exact Hok].
  intros numId d Hd. rewrite step_some, dict_get_set in Hd.
  destruct (str_eqb numId n).
  - injection Hd as <-. apply incr_ok; unfold cur_dict.
    + destruct (dict_get n cs) as [d0|] eqn:E.
      * apply (Hok n d0 E).
      * unfold keys_sorted. constructor.
    + destruct (dict_get n cs) as [d0|] eqn:E.
      * apply (Hok n d0 E).
      * constructor.
  - apply (Hok numId d Hd).
Qed.

Lemma cs_ok_fold : forall tbl h cs, cs_ok cs -> cs_ok (fold_left (step tbl) h cs).
Proof.
  intros tbl h. induction h as [|it r IH]; intros cs Hok; cbn [fold_left].
  - exact Hok.
  - apply IH. apply cs_ok_step. exact Hok.
Qed.

Lemma keys_sorted_invariant : forall tbl h numId d,
  dict_get numId (run_hist tbl h) = Some d ->
  keys_sorted d /\ Forall (fun kv => 1 <= snd kv) d.
Proof.
  intros tbl h numId d H.
  assert (Hok : cs_ok (run_hist tbl h)).
  { unfold run_hist. apply cs_ok_fold. intros k d0 Hd. discriminate Hd. }
  apply (Hok numId d H).
Qed.

Lemma list_position_spec : forall tbl h n,
  get_list_position (run_hist tbl h) (Some n, None)
  = (Some n, match dict_get n (run_hist tbl h) with Some d => map snd d | None => [] end)
  /\ forall fmt, fst fmt = None -> get_list_position (run_hist tbl h) fmt = (None, []).
Proof.
  intros tbl h n. split.
  - reflexivity.
  - intros [a b] H. cbn [fst] in H. subst a. reflexivity.
Qed.

(* ------------------------------------------------------------------ *)
(* E. Marker layout                                                    *)
(* ------------------------------------------------------------------ *)

(* the numbering function get_bullet selects *)
Definition bullet_fn (tbl : numtable) (numId ilvl : str) : numfn :=
  let numFmt := match get_num_fmt_attributes tbl numId ilvl with
                | Some {| na_fmt := Some (c :: f) |} => c :: f
                | _ => s_bullet_key
                end in
  match dict_get numFmt numfmt_table with
  | Some f => f
  | None => NFBullet
  end.

(* the renderer with its fallback: an ordinal the format rejects is printed in decimal *)
Definition render_num (f : numfn) (num : Z) : res str :=
  match apply_numfn f num with
  | Err ValueError => decimal num
  | r => r
  end.

Lemma get_bullet_eq : forall tbl n l num,
  get_bullet tbl (Some n, Some l) (Some num)
  = (b <- render_num (bullet_fn tbl n l) num ;;
     let b' := if str_eqb b bullet_str then b else b ++ [41] in
     lvl <- of_opt ValueError (int_of_str l) ;;
     Ok (repeat_str s_tab (Z.to_nat lvl) ++ b' ++ s_tab)).
Proof. intros. reflexivity. Qed.

Lemma bullet_layout : forall tbl n l num s,
  get_bullet tbl (Some n, Some l) (Some num) = Ok s ->
  exists lvl body, int_of_str l = Some lvl
    /\ s = repeat_str s_tab (Z.to_nat lvl) ++ body ++ s_tab
    /\ (body = bullet_str \/ exists b, body = b ++ [41] /\ b <> bullet_str).
Proof.
  intros tbl n l num s H. rewrite get_bullet_eq in H.
  destruct (render_num (bullet_fn tbl n l) num) as [b|e]; cbn [bind] in H; [|discriminate].
  cbv zeta in H.
  destruct (int_of_str l) as [lvl|]; cbn [of_opt bind] in H; [|discriminate].
  injection H as <-.
  exists lvl, (if str_eqb b bullet_str then b else b ++ [41]).
  split; [reflexivity|]. split; [reflexivity|].
  destruct (str_eqb b bullet_str) eqn:E.
  - left. apply str_eqb_eq. exact E.
  - right. exists b. split; [reflexivity|]. apply str_eqb_neq. exact E.
Qed.

Lemma bullet_not_list : forall tbl fmt num,
  (fst fmt = None \/ snd fmt = None \/ num = None) -> get_bullet tbl fmt num = Ok [].
Proof.
  intros tbl [a b] num H. cbn [fst snd] in H.
  destruct a as [a|], b as [b|], num as [num|]; try reflexivity.
  destruct H as [H|[H|H]]; discriminate.
Qed.

Lemma bullet_fn_unknown : forall tbl n l,
  (get_num_fmt_attributes tbl n l = None
   \/ (exists a, get_num_fmt_attributes tbl n l = Some a
       /\ (na_fmt a = None \/ na_fmt a = Some []
           \/ (exists f, na_fmt a = Some f /\ dict_get f numfmt_table = None)))) ->
  bullet_fn tbl n l = NFBullet.
Proof.
  intros tbl n l H. unfold bullet_fn.
  destruct H as [H | [a [Ha H]]].
  - rewrite H. reflexivity.
  - rewrite Ha. destruct a as [fm st]. cbn [na_fmt] in H.
    destruct H as [H | [H | [f [H Hd]]]]; subst fm.
    + reflexivity.
    + reflexivity.
    + destruct f as [|c f]; [reflexivity|].
      cbv zeta. rewrite Hd. reflexivity.
Qed.

Lemma bullet_unknown_format_is_dashes : forall tbl n l num s,
  get_bullet tbl (Some n, Some l) (Some num) = Ok s ->
  (get_num_fmt_attributes tbl n l = None
   \/ (exists a, get_num_fmt_attributes tbl n l = Some a
       /\ (na_fmt a = None \/ na_fmt a = Some []
           \/ (exists f, na_fmt a = Some f /\ dict_get f numfmt_table = None)))) ->
  exists lvl, int_of_str l = Some lvl
    /\ s = repeat_str s_tab (Z.to_nat lvl) ++ bullet_str ++ s_tab.
Proof.
  intros tbl n l num s H Hu. rewrite get_bullet_eq in H.
  rewrite (bullet_fn_unknown tbl n l Hu) in H.
  unfold render_num in H. cbn [apply_numfn bullet bind] in H. cbv zeta in H.
  rewrite str_eqb_refl in H.
  destruct (int_of_str l) as [lvl|]; cbn [of_opt bind] in H; [|discriminate].
  injection H as <-. exists lvl. split; reflexivity.
Qed.

Print Assumptions str_eqb_eq.
Print Assumptions str_ltb_irrefl.
Print Assumptions str_ltb_trans.
Print Assumptions str_ltb_trichotomy.
Print Assumptions str_ltb_asym.
Print Assumptions counters_spec.
Print Assumptions par_number_spec.
Print Assumptions non_items_do_not_interfere.
Print Assumptions keys_sorted_invariant.
Print Assumptions list_position_spec.
Print Assumptions bullet_layout.
Print Assumptions bullet_not_list.
Print Assumptions bullet_unknown_format_is_dashes.
