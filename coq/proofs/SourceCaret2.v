(* SourceCaret2.v — set_caret and conclude_paragraph of depth_collector.DepthCollector AS
   TRANSLATED FROM THE SOURCE TEXT (heap embedding) refine the model's functions; built on the
   one-step facts of SourceCaret.v. *)
From Coq Require Import List NArith ZArith Bool Arith Lia.
From D2P Require Import Str Err Xml TableTypes Tables Fmt Bullets Merge Collector PyVal PyHeap SourceHeap SourceCaret.
Import ListNotations.

Lemma objs_kept_refl : forall h, objs_kept h h.
Proof. intros h a c fs H. eauto. Qed.
Lemma objs_kept_trans : forall h1 h2 h3, objs_kept h1 h2 -> objs_kept h2 h3 -> objs_kept h1 h3.
Proof.
  intros h1 h2 h3 H12 H23 a c fs H. destruct (H12 _ _ _ H) as [fs' H']. eapply H23; eauto.
Qed.

Lemma getattr_localname : forall nm h,
  hy_getattr (VObj [] [(f_localname, VStr nm)]) f_localname h = HOk (VStr nm) h.
Proof. intros. reflexivity. Qed.

Lemma rep_par_depth : forall leaf_of h self k,
  rep leaf_of h self = Some k -> hy_getattr self f_par_depth h = HOk (VInt 4) h.
Proof.
  intros leaf_of h self k H. unfold rep in H. unfold hy_getattr.
  destruct self; try discriminate.
  destruct (h_get a h) as [[l|c fs]|]; try discriminate.
  destruct (field_get f_branches fs) as [[]|]; try discriminate.
  destruct (field_get f_open_pars fs) as [[]|]; try discriminate.
  destruct (field_get f_lineage fs); try discriminate.
  destruct (field_get f_par_depth fs) as [[| |z| | | | | |]|]; try discriminate.
  destruct z as [|p1|p1]; try discriminate.
  destruct p1 as [p2|p2|]; try discriminate.
  destruct p2 as [p3|p3|]; try discriminate.
  destruct p3 as [p4|p4|]; try discriminate.
  reflexivity.
Qed.

(* one call of the translated set_caret, by the three-way comparison of the depths *)
Section Steps.
  Variables (self : pv) (h : heap) (c n : nat) (f : nat).

  Lemma step_eq : forall name, S_H_caret_depth self h = HOk (VInt (Z.of_nat c)) h -> c = n ->
    S_H_set_caret (S f) self (VInt (Z.of_nat n)) (enc_elem name) h =
    match S_H_set_in_lineage self (VInt (Z.of_nat n)) (enc_ostr name) h with
    | HOk _ h' => HOk VNone h' | HErr e h' => HErr e h' end.
  Proof.
    intros name HD E. subst n. cbn [S_H_set_caret].
    unfold hfn_result, hbinde, hbindo, hlift, hy_truth, py_is_none, hrt, hnx.
    cbn [py_truth]. cbv beta iota.
    rewrite HD. cbv beta iota. cbn [py_eq pv_eqb int_like py_truth]. cbv beta iota.
    rewrite Z.eqb_refl. cbv beta iota.
    destruct name as [nm|]; cbn [enc_elem enc_ostr]; cbv beta iota.
    - change [108; 111; 99; 97; 108; 110; 97; 109; 101]%N with f_localname.
      rewrite getattr_localname.
      destruct (S_H_set_in_lineage self (VInt (Z.of_nat c)) (VStr nm) h); reflexivity.
    - destruct (S_H_set_in_lineage self (VInt (Z.of_nat c)) VNone h); reflexivity.
  Qed.

  Lemma step_lt : forall elem, S_H_caret_depth self h = HOk (VInt (Z.of_nat c)) h -> (c < n)%nat ->
    S_H_set_caret (S f) self (VInt (Z.of_nat n)) elem h =
    match S_H_drop_caret self h with
    | HOk _ h' => match S_H_set_caret f self (VInt (Z.of_nat n)) elem h' with
                  | HOk _ h'' => HOk VNone h'' | HErr e h'' => HErr e h'' end
    | HErr e h' => HErr e h' end.
  Proof.
    intros elem HD L. cbn [S_H_set_caret].
    unfold hfn_result, hbinde, hbindo, hlift, hy_truth, py_is_none, hrt, hnx.
    cbn [py_truth]. cbv beta iota.
    rewrite HD. cbv beta iota. cbn [py_eq pv_eqb int_like py_truth]. cbv beta iota.
    replace (Z.eqb (Z.of_nat c) (Z.of_nat n)) with false by (symmetry; apply Z.eqb_neq; lia).
    cbv beta iota. rewrite HD. cbv beta iota. cbn [py_lt int_like py_truth]. cbv beta iota.
    replace (Z.ltb (Z.of_nat c) (Z.of_nat n)) with true by (symmetry; apply Z.ltb_lt; lia).
    cbv beta iota.
    destruct (S_H_drop_caret self h); [|reflexivity].
    destruct (S_H_set_caret f self (VInt (Z.of_nat n)) elem h0); reflexivity.
  Qed.

  Lemma step_gt : forall elem, S_H_caret_depth self h = HOk (VInt (Z.of_nat c)) h -> (n < c)%nat ->
    S_H_set_caret (S f) self (VInt (Z.of_nat n)) elem h =
    match S_H_set_in_lineage self (VInt (Z.of_nat n)) VNone h with
    | HOk _ h1 =>
      match S_H_raise_caret self h1 with
      | HOk _ h' => match S_H_set_caret f self (VInt (Z.of_nat n)) elem h' with
                    | HOk _ h'' => HOk VNone h'' | HErr e h'' => HErr e h'' end
      | HErr e h' => HErr e h' end
    | HErr e h1 => HErr e h1 end.
  Proof.
    intros elem HD L. cbn [S_H_set_caret].
    unfold hfn_result, hbinde, hbindo, hlift, hy_truth, py_is_none, hrt, hnx.
    cbn [py_truth]. cbv beta iota.
    rewrite HD. cbv beta iota. cbn [py_eq pv_eqb int_like py_truth]. cbv beta iota.
    replace (Z.eqb (Z.of_nat c) (Z.of_nat n)) with false by (symmetry; apply Z.eqb_neq; lia).
    cbv beta iota. rewrite HD. cbv beta iota. cbn [py_lt int_like py_truth]. cbv beta iota.
    replace (Z.ltb (Z.of_nat c) (Z.of_nat n)) with false by (symmetry; apply Z.ltb_ge; lia).
    cbv beta iota. rewrite HD. cbv beta iota. cbn [py_gt py_lt int_like py_truth]. cbv beta iota.
    replace (Z.ltb (Z.of_nat n) (Z.of_nat c)) with true by (symmetry; apply Z.ltb_lt; lia).
    cbv beta iota.
    destruct (S_H_set_in_lineage self (VInt (Z.of_nat n)) VNone h); [|reflexivity].
    destruct (S_H_raise_caret self h0); [|reflexivity].
    destruct (S_H_set_caret f self (VInt (Z.of_nat n)) elem h1); reflexivity.
  Qed.
End Steps.

Lemma step_none : forall f self elem h, S_H_set_caret (S f) self VNone elem h = HOk VNone h.
Proof. intros. reflexivity. Qed.

(* ---------- model-level facts ---------- *)
Lemma set_in_lineage_ok : forall n v l, (1 <= n <= 4)%nat -> exists l', set_in_lineage n v l = Ok l'.
Proof.
  intros n v [[[a b] c] d] Hn.
  destruct n as [|[|[|[|[|n]]]]]; try lia; cbn; eauto.
Qed.

Lemma drop_caret_depth : forall s s', drop_caret s = Ok s' -> c_depth s' = S (c_depth s).
Proof.
  intros s s' H. unfold drop_caret in H.
  destruct (Nat.leb par_depth (c_depth s)); try discriminate.
  destruct (spine_app (c_depth s) (NL []) (c_tree s)); cbn in H; try discriminate.
  inversion H. reflexivity.
Qed.

Lemma raise_caret_depth : forall s s', raise_caret s = Ok s' -> c_depth s' = pred (c_depth s).
Proof.
  intros s s' H. unfold raise_caret in H.
  destruct (Nat.leb (c_depth s) 1); try discriminate.
  inversion H. reflexivity.
Qed.

Lemma raise_caret_ok : forall s, (1 < c_depth s)%nat -> raise_caret s = Ok (set_depth (pred (c_depth s)) s).
Proof.
  intros s H. unfold raise_caret.
  destruct (Nat.leb_spec (c_depth s) 1); [lia|reflexivity].
Qed.

Lemma set_caret_go_depth : forall fuel d name s s',
  set_caret_go fuel d name s = Ok s' -> c_depth s' = d.
Proof.
  induction fuel as [|f IH]; intros d name s s' H; cbn [set_caret_go] in H; try discriminate.
  destruct (Nat.eqb_spec (c_depth s) d) as [E|NE].
  - destruct (set_in_lineage d name (c_lineage s)); cbn [bind] in H; try discriminate.
    inversion H. exact E.
  - destruct (Nat.ltb (c_depth s) d).
    + destruct (drop_caret s); cbn [bind] in H; try discriminate. eapply IH; eauto.
    + destruct (set_in_lineage d None (c_lineage s)) as [l|]; cbn [bind] in H; try discriminate.
      destruct (raise_caret (set_lin l s)); cbn [bind] in H; try discriminate.
      eapply IH; eauto.
Qed.

(* the statement-level plumbing of conclude_paragraph *)
Lemma conclude_unfold : forall fuel self h,
  S_H_conclude_paragraph fuel self h =
  match hbind (hy_getattr self f_open_pars) hy_pop h with
  | HErr e h' => if exn_eqb IndexError e then HOk VNone h' else HErr e h'
  | HOk v h1 =>
      match hy_getattr self f_par_depth h1 with
      | HErr e h' => HErr e h'
      | HOk t3 h2 =>
          match S_H_set_caret fuel self t3 VNone h2 with
          | HErr e h' => HErr e h'
          | HOk _ h3 =>
              match hbind (hy_getattr self f_branches)
                      (fun rb => hbind (hy_index rb (VInt (-1))) (fun b => hy_append b v)) h3 with
              | HOk _ h4 => HOk VNone h4
              | HErr e h' => HErr e h'
              end
          end
      end
  end.
Proof.
  intros fuel self h.
  unfold S_H_conclude_paragraph, hfn_result, hbindo, htry, hbinde, hbind, hnx, hrt,
    f_open_pars, f_par_depth, f_branches.
  destruct (hy_getattr self [95; 111; 112; 101; 110; 95; 112; 97; 114; 115]%N h) as [a h1|e h1].
  2:{ destruct (exn_eqb IndexError e); reflexivity. }
  destruct (hy_pop a h1) as [v h2|e h2].
  2:{ destruct (exn_eqb IndexError e); reflexivity. }
  destruct (hy_getattr self [95; 112; 97; 114; 95; 100; 101; 112; 116; 104]%N h2) as [t3 h3|e h3]; [|reflexivity].
  destruct (S_H_set_caret fuel self t3 VNone h3) as [t4 h4|e h4]; [|reflexivity].
  destruct (hy_getattr self _ h4) as [t5 h5|e h5]; [|reflexivity].
  destruct (hy_index t5 (VInt (-1)) h5) as [t6 h6|e h6]; [|reflexivity].
  destruct (hy_append t6 v h6) as [t7 h7|e h7]; reflexivity.
Qed.

Section Caret2.
  Variable leaf_of : pv -> option par.

  (* the one-step facts (statements of SourceCaret.v); discharged at the end of the file *)
  Hypothesis H_caret_depth : forall h self k,
    rep leaf_of h self = Some k ->
    S_H_caret_depth self h = HOk (VInt (Z.of_nat (k_depth k))) h.
  Hypothesis H_set_in_lineage : forall h self s idx v l,
    rep leaf_of h self = Some (core_of s) -> (1 <= idx <= 4)%nat ->
    set_in_lineage idx v (c_lineage s) = Ok l ->
    exists h', S_H_set_in_lineage self (VInt (Z.of_nat idx)) (enc_ostr v) h = HOk VNone h'
               /\ rep leaf_of h' self = Some (core_of (set_lin l s)) /\ objs_kept h h'.
  Hypothesis H_drop_caret : forall h self s,
    rep leaf_of h self = Some (core_of s) ->
    refines leaf_of (S_H_drop_caret self) self h (drop_caret s).
  Hypothesis H_raise_caret : forall h self s,
    rep leaf_of h self = Some (core_of s) ->
    refines leaf_of (S_H_raise_caret self) self h (raise_caret s).

  Hypothesis H_abs_leaf_kept : forall h h' v p,
    objs_kept h h' -> abs_leaf leaf_of h v = Some p -> abs_leaf leaf_of h' v = Some p.

  (* the two heap steps of conclude_paragraph around its set_caret call *)
  (* old_par = self._open_pars.pop() *)
  Hypothesis H_pop_open : forall h self s,
    rep leaf_of h self = Some (core_of s) ->
    match c_open s with
    | [] => hbind (hy_getattr self f_open_pars) hy_pop h = HErr IndexError h
    | p :: rest =>
        exists v h', hbind (hy_getattr self f_open_pars) hy_pop h = HOk v h'
                     /\ abs_leaf leaf_of h' v = Some p
                     /\ rep leaf_of h' self = Some (core_of (set_open rest s))
                     /\ objs_kept h h'
    end.

  (* self._rightmost_branches[-1].append(old_par) at paragraph depth *)
  Hypothesis H_append_par : forall h self s v p t,
    rep leaf_of h self = Some (core_of s) -> c_depth s = 4%nat ->
    abs_leaf leaf_of h v = Some p -> spine_app 4 (NP p) (c_tree s) = Ok t ->
    exists h', hbind (hy_getattr self f_branches)
                 (fun rb => hbind (hy_index rb (VInt (-1))) (fun b => hy_append b v)) h = HOk tt h'
               /\ rep leaf_of h' self = Some (core_of (set_tree t s)) /\ objs_kept h h'.

  (* a represented state has a spine as deep as the caret *)
  Hypothesis H_spine_ok : forall h self s x,
    rep leaf_of h self = Some (core_of s) ->
    exists t, spine_app (c_depth s) x (c_tree s) = Ok t.

  Lemma refines_wrap : forall (m m' : hm pv) self h0 h r,
    objs_kept h0 h -> refines leaf_of m' self h r ->
    m h0 = match m' h with HOk _ h'' => HOk VNone h'' | HErr e h'' => HErr e h'' end ->
    refines leaf_of m self h0 r.
  Proof.
    intros m m' self h0 h r K R E. destruct r as [s'|e]; cbn [refines] in *.
    - destruct R as (h' & E' & R' & K'). exists h'. rewrite E, E'.
      split; [reflexivity|]. split; [exact R'|]. eapply objs_kept_trans; eauto.
    - destruct R as (h' & E'). exists h'. rewrite E, E'. reflexivity.
  Qed.

  Lemma go_refines : forall mf sf s h self n name,
    rep leaf_of h self = Some (core_of s) -> (1 <= n <= 4)%nat ->
    ((c_depth s - n) + (n - c_depth s) < mf)%nat -> (mf <= sf)%nat ->
    refines leaf_of (S_H_set_caret sf self (VInt (Z.of_nat n)) (enc_elem name)) self h
            (set_caret_go mf n name s).
  Proof.
    induction mf as [|mf IH]; intros sf s h self n name Hrep Hn Hd Hf; [lia|].
    destruct sf as [|sf]; [lia|].
    pose proof (H_caret_depth h self (core_of s) Hrep) as HD.
    change (k_depth (core_of s)) with (c_depth s) in HD.
    cbn [set_caret_go].
    destruct (Nat.eqb_spec (c_depth s) n) as [E|NE].
    - (* equal depths: the lineage slot *)
      destruct (set_in_lineage_ok n name (c_lineage s) Hn) as [l El].
      rewrite El. cbn [bind].
      destruct (H_set_in_lineage h self s n name l Hrep Hn El) as (h1 & E1 & R1 & K1).
      cbn [refines]. exists h1. rewrite (step_eq self h (c_depth s) n sf name HD E), E1.
      split; [reflexivity|]. split; assumption.
    - destruct (Nat.ltb_spec (c_depth s) n) as [L|G].
      + (* drop one level *)
        pose proof (H_drop_caret h self s Hrep) as HR.
        destruct (drop_caret s) as [s1|e] eqn:ED; cbn [bind refines] in *.
        * destruct HR as (h1 & E1 & R1 & K1).
          pose proof (drop_caret_depth s s1 ED) as D1.
          eapply refines_wrap with (h := h1)
            (m' := S_H_set_caret sf self (VInt (Z.of_nat n)) (enc_elem name)); [exact K1| |].
          -- apply IH; [exact R1|exact Hn|lia|lia].
          -- rewrite (step_lt self h (c_depth s) n sf _ HD L), E1. reflexivity.
        * destruct HR as (h1 & E1). exists h1.
          rewrite (step_lt self h (c_depth s) n sf _ HD L), E1. reflexivity.
      + (* clear the slot, raise one level *)
        assert (G' : (n < c_depth s)%nat) by lia.
        destruct (set_in_lineage_ok n None (c_lineage s) Hn) as [l El].
        rewrite El. cbn [bind].
        destruct (H_set_in_lineage h self s n None l Hrep Hn El) as (h1 & E1 & R1 & K1).
        cbn [enc_ostr] in E1.
        assert (ER : raise_caret (set_lin l s) = Ok (set_depth (pred (c_depth s)) (set_lin l s))).
        { apply (raise_caret_ok (set_lin l s)). cbn [set_lin c_depth]. lia. }
        pose proof (H_raise_caret h1 self (set_lin l s) R1) as HR.
        rewrite ER in *. cbn [bind refines] in *.
        destruct HR as (h2 & E2 & R2 & K2).
        eapply refines_wrap with (h := h2)
          (m' := S_H_set_caret sf self (VInt (Z.of_nat n)) (enc_elem name));
          [eapply objs_kept_trans; eauto| |].
        * apply IH; [exact R2|exact Hn| |lia]. cbn [set_depth set_lin c_depth]. lia.
        * rewrite (step_gt self h (c_depth s) n sf _ HD G'), E1, E2. reflexivity.
  Qed.

  (* set_caret(depth, elem): the recursion of the source (one level per call) is the model's *)
  Theorem src_set_caret_from : forall h self s d name fuel,
    rep leaf_of h self = Some (core_of s) -> (c_depth s <= 4)%nat -> (8 <= fuel)%nat ->
    match d with Some n => (1 <= n <= 4)%nat | None => True end ->
    refines leaf_of (S_H_set_caret fuel self (enc_depth_arg d) (enc_elem name)) self h
            (set_caret d name s).
  Proof.
    intros h self s d name fuel Hrep Hc Hf Hd.
    destruct d as [n|]; cbn [enc_depth_arg set_caret].
    - apply go_refines; [exact Hrep|exact Hd|lia|exact Hf].
    - destruct fuel as [|f]; [lia|].
      cbn [refines]. exists h. rewrite step_none.
      split; [reflexivity|]. split; [exact Hrep|apply objs_kept_refl].
  Qed.

  (* conclude_paragraph: pop the open paragraph, caret to paragraph depth, append the record to
     the innermost branch = the model's spine_app at depth 4 *)
  Theorem src_conclude_paragraph_from : forall h self s fuel,
    rep leaf_of h self = Some (core_of s) -> (c_depth s <= 4)%nat -> (8 <= fuel)%nat ->
    refines leaf_of (S_H_conclude_paragraph fuel self) self h (conclude_paragraph s).
  Proof.
    intros h self s fuel Hrep Hc Hf.
    pose proof (H_pop_open h self s Hrep) as HP.
    unfold conclude_paragraph. change par_depth with 4%nat.
    destruct (c_open s) as [|p rest].
    - cbn [refines]. exists h. rewrite conclude_unfold, HP.
      split; [reflexivity|]. split; [exact Hrep|apply objs_kept_refl].
    - destruct HP as (v & h1 & E1 & AL & R1 & K1).
      pose proof (rep_par_depth leaf_of h1 self _ R1) as PD.
      assert (HS : refines leaf_of (S_H_set_caret fuel self (VInt 4) VNone) self h1
                     (set_caret (Some 4%nat) None (set_open rest s))).
      { apply (src_set_caret_from h1 self (set_open rest s) (Some 4%nat) None fuel R1);
          [exact Hc|exact Hf|lia]. }
      destruct (set_caret (Some 4%nat) None (set_open rest s)) as [s1|e] eqn:ES;
        cbn [bind refines] in *.
      + destruct HS as (h2 & E2 & R2 & K2).
        assert (D4 : c_depth s1 = 4%nat) by (eapply set_caret_go_depth; exact ES).
        destruct (H_spine_ok h2 self s1 (NP p) R2) as [t Et].
        rewrite D4 in Et. rewrite Et. cbn [bind refines].
        destruct (H_append_par h2 self s1 v p t R2 D4 (H_abs_leaf_kept h1 h2 v p K2 AL) Et)
          as (h3 & E3 & R3 & K3).
        exists h3. rewrite conclude_unfold, E1, PD, E2, E3.
        split; [reflexivity|]. split; [exact R3|].
        eapply objs_kept_trans; [exact K1|]. eapply objs_kept_trans; eauto.
      + destruct HS as (h2 & E2). exists h2.
        rewrite conclude_unfold, E1, PD, E2. reflexivity.
  Qed.

  (* the caret never leaves 1..4: preserved by every method (model-level fact used above) *)
  Theorem caret_depth_bounded : forall s d name s',
    (1 <= c_depth s <= 4)%nat -> match d with Some n => (1 <= n <= 4)%nat | None => True end ->
    set_caret d name s = Ok s' -> (1 <= c_depth s' <= 4)%nat.
  Proof.
    intros s d name s' Hc Hd H. destruct d as [n|]; cbn [set_caret] in H.
    - apply set_caret_go_depth in H. rewrite H. exact Hd.
    - inversion H. subst s'. exact Hc.
  Qed.
End Caret2.

(* ================================================================== *)
(* closed forms: the hypotheses are the theorems of SourceCaret.v       *)
(* ================================================================== *)
Theorem src_set_caret : forall (leaf_of : pv -> option par) h self s d name fuel,
  rep leaf_of h self = Some (core_of s) -> (c_depth s <= 4)%nat -> (8 <= fuel)%nat ->
  match d with Some n => (1 <= n <= 4)%nat | None => True end ->
  refines leaf_of (S_H_set_caret fuel self (enc_depth_arg d) (enc_elem name)) self h
          (set_caret d name s).
Proof.
  intro leaf_of.
  exact (src_set_caret_from leaf_of (src_caret_depth leaf_of) (src_set_in_lineage leaf_of)
           (src_drop_caret leaf_of) (src_raise_caret leaf_of)).
Qed.

Theorem src_conclude_paragraph : forall (leaf_of : pv -> option par) h self s fuel,
  rep leaf_of h self = Some (core_of s) -> (c_depth s <= 4)%nat -> (8 <= fuel)%nat ->
  refines leaf_of (S_H_conclude_paragraph fuel self) self h (conclude_paragraph s).
Proof.
  intro leaf_of.
  exact (src_conclude_paragraph_from leaf_of (src_caret_depth leaf_of) (src_set_in_lineage leaf_of)
           (src_drop_caret leaf_of) (src_raise_caret leaf_of) (abs_leaf_kept leaf_of)
           (src_pop_open leaf_of) (src_append_par leaf_of) (src_spine_ok leaf_of)).
Qed.

Print Assumptions src_set_caret.
Print Assumptions src_conclude_paragraph.
Print Assumptions caret_depth_bounded.
