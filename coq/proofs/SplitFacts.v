(* SplitFacts.v — property C06: splitting a run into consecutive runs with the
   same recognised formatting, and inserting non-content markup (proofing
   marks, bookmarks, revision ids, unrecognised run or paragraph properties)
   between or inside them, is invisible to the extraction: a placeholder broken
   across such runs is returned as one run string.

   The merged TREES differ (the second run's w:rPr stays inside the merged
   run: split3_merged_differs); the claim is about the EXTRACTION
   [extract v t = merge_elems v t >>= collect_from v []], up to the p_elem
   back-pointers (TriviaFacts.fr / forget_elem_st).

   PART 1  merge_two_runs / merge_two_texts: exact equations for merge_sibs
           (go_two, go_two_text: for merge_sibs_go from any reachable state).
   PART 2  wsim (walk-similar trees) and wsim_walk; walk_path_indep;
           extra_rPr_invisible.
   PART 3  msim (merge-similar trees), merge_sim: merge_elems maps msim to
           wsim; msim_extract.
   PART 4  split_run_invisible (the headline), for any enclosing element whose
           handlers do not read its children (in particular w:p).
   PART 5  split_anywhere_invisible (the general statement: any number of
           splits / fusions / insertions anywhere), split_link_invisible,
           text_fuse_invisible, split_run_invisible_simple_par.
   PART 6  Examples ({{name}} over three runs with w:proofErr between them and
           differing rsidR / rPr, html off and on, also inside a table cell)
           and a counterexample showing that "runs carry no relationship id"
           is needed in general.

   Hypotheses beyond the work package's sketch (all decidable):
     wf_ptag pt, wf_pr (MergeFacts: prefixes used consistently; <tag>Pr
     children carry no content), rels_ok v (no empty relationship Target),
     run_plain (the run elements have no r:id that resolves), and that the
     runs / inserted siblings are not mistaken for the paragraph's w:pPr. *)
From Coq Require Import List NArith ZArith Bool Arith Lia.
From D2P Require Import Str Err Xml TableTypes Tables Fmt NumFmt Bullets Merge Collector Walk.
From D2P Require Import BulletsFacts TokFacts ShapeFacts MergeFacts FrameFacts SerialFacts TriviaFacts.
Import ListNotations.
Open Scope N_scope.

(* ================================================================== *)
(* PART 1 — merging two sibling runs with the same key                  *)
(* ================================================================== *)

(* merge_sibs_go over a prefix: the iteration of MergeFacts.step *)
Fixpoint steps (v : env) (l : list anode) (g : option group) (out : list anode)
  : res (option group * list anode) :=
  match l with
  | [] => Ok (g, out)
  | k :: r => st <- step v k g out ;; steps v r (fst st) (snd st)
  end.

Lemma go_app v : forall a b g out,
  merge_sibs_go v (a ++ b) g out
  = (st <- steps v a g out ;; merge_sibs_go v b (fst st) (snd st)).
Proof.
  induction a as [|k a IH]; intros b g out; [reflexivity|].
  cbn [app steps]. rewrite go_step.
  destruct (step v k g out) as [[g1 o1]|x]; cbn [bind fst snd]; [apply IH|reflexivity].
Qed.

(* the member count and the member texts of a group only matter when the
   leader is a text element *)
Definition retext (g : group) (n : nat) (ts : list str) : group :=
  {| g_key := g_key g; g_merge := g_merge g; g_e := g_e g; g_kids := g_kids g;
     g_n := n; g_texts := ts; g_pending := g_pending g |}.

Lemma flush_retext g0 n ts out :
  is_text_like (g_e g0) = false -> flush (Some (retext g0 n ts)) out = flush (Some g0) out.
Proof.
  intro H. unfold flush. cbn [retext g_e g_n g_texts g_pending g_kids]. rewrite H. reflexivity.
Qed.

Lemma go_retext v : forall l g0 n ts out,
  is_text_like (g_e g0) = false ->
  merge_sibs_go v l (Some (retext g0 n ts)) out = merge_sibs_go v l (Some g0) out.
Proof.
  induction l as [|k r IH]; intros g0 n ts out H.
  - cbn [merge_sibs_go]. rewrite flush_retext by exact H. reflexivity.
  - rewrite !go_step. unfold step.
    destruct (negb (has_content k)).
    + cbn [bind fst snd].
      change (pend_g k (retext g0 n ts)) with (retext (pend_g k g0) n ts).
      apply IH. exact H.
    + destruct k as [e eks|tl]; [|reflexivity].
      destruct (elem_key v e eks) as [key|x]; cbn [bind]; [|reflexivity].
      change (g_key (retext g0 n ts)) with (g_key g0).
      change (g_merge (retext g0 n ts)) with (g_merge g0).
      destruct (ekey_eqb (g_key g0) key && g_merge g0)%bool; cbn [bind fst snd].
      * change (join_g (retext g0 n ts) e eks)
          with (retext (join_g g0 e eks) (S n) (ts ++ [ostr (e_text e)])).
        apply IH. exact H.
      * rewrite flush_retext by exact H. reflexivity.
Qed.

(* pending non-content siblings *)
Definition pends (mid : list anode) (g : group) : group :=
  {| g_key := g_key g; g_merge := g_merge g; g_e := g_e g; g_kids := g_kids g;
     g_n := g_n g; g_texts := g_texts g; g_pending := rev mid ++ g_pending g |}.

Lemma pends_nil g : pends [] g = g.
Proof. destruct g; reflexivity. Qed.

Lemma go_pends v : forall mid l g0 out, Forall nc mid ->
  merge_sibs_go v (mid ++ l) (Some g0) out = merge_sibs_go v l (Some (pends mid g0)) out.
Proof.
  induction mid as [|k mid IH]; intros l g0 out H.
  - rewrite pends_nil. reflexivity.
  - inversion H as [|? ? Hk Hr]; subst. unfold nc in Hk.
    cbn [app merge_sibs_go]. rewrite Hk. cbn [negb].
    match goal with |- merge_sibs_go v _ (Some ?g) _ = _ => change g with (pend_g k g0) end.
    rewrite IH by exact Hr. f_equal. f_equal.
    unfold pends, pend_g. cbn [g_key g_merge g_e g_kids g_n g_texts g_pending rev].
    rewrite <- app_assoc. reflexivity.
Qed.

Lemma mergeable_content e : is_mergeable e = true -> mem_str (e_ptag e) content_tags = true.
Proof.
  unfold is_mergeable. intro H. apply MergeFacts.mem_str_In in H. cbn in H.
  destruct H as [H|[H|[H|[H|[]]]]]; rewrite <- H; vm_compute; reflexivity.
Qed.

Lemma mergeable_has_content e ks : is_mergeable e = true -> has_content (AE e ks) = true.
Proof. intro H. rewrite has_content_AE, (mergeable_content e H). reflexivity. Qed.

Section TwoRuns.
  Variables (v : env) (e1 e2 : einfo) (k1 k2 mid : list anode) (key : ekey).
  Hypothesis Hm1 : is_mergeable e1 = true.
  Hypothesis Ht1 : is_text_like e1 = false.
  Hypothesis Hc2 : has_content (AE e2 k2) = true.
  Hypothesis Hk1 : elem_key v e1 k1 = Ok key.
  Hypothesis Hk2 : elem_key v e2 k2 = Ok key.
  Hypothesis Hk12 : elem_key v e1 (k1 ++ k2) = Ok key.
  Hypothesis Hmid : Forall nc mid.

  (* from any state of the sibling pass in which the open group, if the first
     run joins it, is not led by a text element *)
  Lemma go_two : forall post g out,
    (forall g0, g = Some g0 -> (ekey_eqb (g_key g0) key && g_merge g0)%bool = true ->
                is_text_like (g_e g0) = false) ->
    merge_sibs_go v (AE e1 k1 :: mid ++ AE e2 k2 :: post) g out
    = merge_sibs_go v (AE e1 (k1 ++ k2) :: mid ++ post) g out.
  Proof.
    intros post g out Hg.
    assert (Hstep2 : forall g1 out1,
               g_key g1 = key -> g_merge g1 = true ->
               merge_sibs_go v (AE e2 k2 :: post) (Some g1) out1
               = merge_sibs_go v post (Some (join_g g1 e2 k2)) out1).
    { intros g1 out1 Ek Em. rewrite go_step. unfold step. rewrite Hc2. cbn [negb]. rewrite Hk2.
      cbn [bind]. rewrite Ek, Em, ekey_eqb_refl. reflexivity. }
    rewrite !go_step. unfold step.
    rewrite !(mergeable_has_content e1 _ Hm1). cbn [negb]. rewrite Hk1, Hk12. cbn [bind].
    assert (Hfresh : forall out1,
      merge_sibs_go v (mid ++ AE e2 k2 :: post) (Some (fresh_g key e1 k1)) out1
      = merge_sibs_go v (mid ++ post) (Some (fresh_g key e1 (k1 ++ k2))) out1).
    { intro out1. rewrite !go_pends by exact Hmid.
      rewrite Hstep2 by (try reflexivity; exact Hm1).
      rewrite <- (go_retext v post (pends mid (fresh_g key e1 (k1 ++ k2))) 2%nat
                    [ostr (e_text e1); ostr (e_text e2)] out1) by exact Ht1.
      f_equal. f_equal.
      unfold join_g, pends, fresh_g, retext.
      cbn [g_key g_merge g_e g_kids g_n g_texts g_pending app]. rewrite Hm1. reflexivity. }
    destruct g as [g0|]; [|cbn [bind fst snd]; apply Hfresh].
    destruct (ekey_eqb (g_key g0) key && g_merge g0)%bool eqn:Ec;
      [|cbn [bind fst snd]; apply Hfresh].
    specialize (Hg g0 eq_refl Ec).
    apply andb_true_iff in Ec. destruct Ec as [Ek Em]. apply ekey_eqb_eq in Ek.
    cbn [bind fst snd].
    rewrite !go_pends by exact Hmid.
    rewrite Hstep2 by (try exact Ek; reflexivity).
    rewrite <- (go_retext v post (pends mid (join_g g0 e1 (k1 ++ k2))) (S (S (g_n g0)))
                  ((g_texts g0 ++ [ostr (e_text e1)]) ++ [ostr (e_text e2)]) out) by exact Hg.
    f_equal. f_equal.
    unfold join_g, pends, retext.
    cbn [g_key g_merge g_e g_kids g_n g_texts g_pending]. rewrite <- app_assoc. reflexivity.
  Qed.
End TwoRuns.

(* invariants of the prefix pass *)
Lemma steps_inv v (I : list anode -> option group -> list anode -> Prop) :
  (forall c k g out g' out', I c g out -> step_spec v k g out g' out' -> I (c ++ [k]) g' out') ->
  forall l c g out g' out', I c g out -> steps v l g out = Ok (g', out') -> I (c ++ l) g' out'.
Proof.
  intros Hstep. induction l as [|k r IH]; intros c g out g' out' HI H.
  - cbn [steps] in H. injection H as <- <-. rewrite app_nil_r. exact HI.
  - cbn [steps] in H. destruct (step v k g out) as [[g1 o1]|x] eqn:Es; [|discriminate H].
    cbn [bind fst snd] in H. apply step_cases in Es.
    specialize (IH (c ++ [k]) g1 o1 g' out' (Hstep _ _ _ _ _ _ HI Es) H).
    rewrite <- app_assoc in IH. exact IH.
Qed.

Definition leadI (c : list anode) (g : option group) (out : list anode) : Prop :=
  oginv g /\ match g with
             | Some g0 => exists ks0, In (AE (g_e g0) ks0) c
             | None => True
             end.

Lemma step_leadI v c k g out g' out' :
  leadI c g out -> step_spec v k g out g' out' -> leadI (c ++ [k]) g' out'.
Proof.
  intros [Hg Hl] Hs. split; [eapply step_oginv; eauto|].
  destruct Hs; subst.
  - exact I.
  - destruct Hl as [ks0 Hin]. exists ks0. apply in_or_app. left. exact Hin.
  - exists eks. apply in_or_app. right. left. reflexivity.
  - destruct Hl as [ks0 Hin]. exists ks0. apply in_or_app. left. exact Hin.
  - exists eks. apply in_or_app. right. left. reflexivity.
Qed.

(* no text element before the pair has the Clark name of the first run (with
   consistent prefixes this is automatic: see no_text_clash_wf) *)
Definition no_text_clash (pre : list anode) (e1 : einfo) : Prop :=
  forall e0 ks0, In (AE e0 ks0) pre -> is_text_like e0 = true ->
                 (e_uri e0, e_local e0) <> (e_uri e1, e_local e1).

Lemma no_text_clash_wf pt pre e1 k1 :
  is_text_like e1 = false ->
  Forall (fun k => wf_ptag pt k = true) (pre ++ [AE e1 k1]) -> no_text_clash pre e1.
Proof.
  intros Ht1 HF e0 ks0 Hin Ht0 En.
  rewrite Forall_forall in HF.
  pose proof (HF (AE e0 ks0) (in_or_app _ _ _ (or_introl Hin))) as H0.
  assert (H1 : wf_ptag pt (AE e1 k1) = true).
  { apply HF. apply in_or_app. right. left. reflexivity. }
  rewrite wf_ptag_AE in H0, H1.
  apply andb_true_iff in H0. destruct H0 as [H0 _]. apply andb_true_iff in H1. destruct H1 as [H1 _].
  apply BulletsFacts.str_eqb_eq in H0. apply BulletsFacts.str_eqb_eq in H1.
  unfold is_text_like in Ht0, Ht1. rewrite H0, En, <- H1, Ht1 in Ht0. discriminate Ht0.
Qed.

(* 1. two sibling runs (more generally: two mergeable non-text elements) with
   the same key, separated by non-content siblings, are merged exactly like
   the single run that owns the children of both; the separating siblings end
   up after the merged run *)
Theorem merge_two_runs : forall v pre e1 k1 mid e2 k2 post key,
  is_mergeable e1 = true -> is_text_like e1 = false ->
  has_content (AE e2 k2) = true ->
  elem_key v e1 k1 = Ok key -> elem_key v e2 k2 = Ok key ->
  elem_key v e1 (k1 ++ k2) = Ok key ->
  Forall (fun k => has_content k = false) mid ->
  no_text_clash pre e1 ->
  merge_sibs v (pre ++ AE e1 k1 :: mid ++ AE e2 k2 :: post)
  = merge_sibs v (pre ++ AE e1 (k1 ++ k2) :: mid ++ post).
Proof.
  intros v pre e1 k1 mid e2 k2 post key Hm1 Ht1 Hc2 Hk1 Hk2 Hk12 Hmid Hclash.
  unfold merge_sibs. rewrite !go_app.
  destruct (steps v pre None []) as [[g out]|x] eqn:Es; cbn [bind fst snd]; [|reflexivity].
  apply (go_two v e1 e2 k1 k2 mid key); try assumption.
  intros g0 -> Ec.
  pose proof (steps_inv v leadI (step_leadI v) pre [] None [] (Some g0) out
                (conj I I) Es) as [Hg [ks0 Hin]].
  cbn [app] in Hin. cbn [oginv] in Hg. destruct Hg as (_ & Hname & _).
  destruct (is_text_like (g_e g0)) eqn:Et; [|reflexivity]. exfalso.
  apply andb_true_iff in Ec. destruct Ec as [Ek _]. apply ekey_eqb_eq in Ek.
  apply (Hclash (g_e g0) ks0 Hin Et).
  rewrite <- Hname, Ek. exact (elem_key_name v e1 k1 key Hk1).
Qed.

(* the key of the merged run: when the first run carries its own w:rPr the
   second run's children do not matter *)
Lemma elem_key_app_pr v e k1 k2 x :
  pr_child e k1 = Some x -> elem_key v e (k1 ++ k2) = elem_key v e k1.
Proof.
  intro H. apply elem_key_dep. unfold pr_child in *. rewrite find_child_app, H. reflexivity.
Qed.


(* ---- two sibling text elements with the same key ---- *)
Definition erase (e : einfo) : einfo := set_text e None.
(* the text element that merge_sibs makes of t1 followed by t2 *)
Definition fused (t1 t2 : einfo) : einfo :=
  set_text t1 (Some (ostr (e_text t1) ++ ostr (e_text t2))).

Lemma set_text_erase e e' x : erase e = erase e' -> set_text e x = set_text e' x.
Proof.
  destruct e, e'. unfold erase, set_text. cbn. intro H. injection H as -> -> -> -> -> -> ->.
  reflexivity.
Qed.

(* groups that will flush alike whatever comes next *)
Definition texteq (g g' : group) : Prop :=
  g_key g = g_key g' /\ g_merge g = g_merge g' /\ g_kids g = g_kids g' /\
  g_pending g = g_pending g' /\ concat (g_texts g) = concat (g_texts g') /\
  (1 <= g_n g)%nat /\ (1 <= g_n g')%nat /\ lead_e g = lead_e g' /\
  (g_e g = g_e g' \/
   (is_text_like (g_e g) = true /\ is_text_like (g_e g') = true /\ erase (g_e g) = erase (g_e g'))).

Lemma flush_texteq g g' out : texteq g g' -> flush (Some g) out = flush (Some g') out.
Proof.
  intros (_ & _ & Hk & Hp & _ & _ & _ & Hl & _). rewrite !flush_Some. unfold leader.
  rewrite Hk, Hp, Hl. reflexivity.
Qed.

Lemma texteq_pend k g g' : texteq g g' -> texteq (pend_g k g) (pend_g k g').
Proof.
  intros (H1 & H2 & H3 & H4 & H5 & H6 & H7 & H8 & H9). unfold texteq.
  cbn [pend_g g_key g_merge g_e g_kids g_n g_texts g_pending].
  rewrite H4. split; [exact H1|]. split; [exact H2|]. split; [exact H3|]. split; [reflexivity|].
  split; [exact H5|]. split; [exact H6|]. split; [exact H7|]. split; [exact H8|exact H9].
Qed.

Lemma ltb_1_S n : (1 <= n)%nat -> Nat.ltb 1 (S n) = true.
Proof. intro H. apply Nat.ltb_lt. lia. Qed.

Lemma texteq_join g g' e eks : texteq g g' -> texteq (join_g g e eks) (join_g g' e eks).
Proof.
  intros (H1 & H2 & H3 & H4 & H5 & H6 & H7 & H8 & H9). unfold texteq.
  cbn [join_g g_key g_merge g_e g_kids g_n g_texts g_pending].
  split; [exact H1|]. split; [reflexivity|]. split; [rewrite H3; reflexivity|].
  split; [exact H4|]. split; [rewrite !concat_app, H5; reflexivity|].
  split; [lia|]. split; [lia|]. split; [|exact H9].
  unfold lead_e. cbn [join_g g_e g_n g_texts]. rewrite !ltb_1_S by assumption.
  rewrite !andb_true_r, !concat_app, H5.
  destruct H9 as [E|(T1 & T2 & E)].
  - rewrite E. reflexivity.
  - rewrite T1, T2. apply set_text_erase, E.
Qed.

Lemma go_texteq v : forall l g g' out, texteq g g' ->
  merge_sibs_go v l (Some g) out = merge_sibs_go v l (Some g') out.
Proof.
  induction l as [|k r IH]; intros g g' out H.
  - cbn [merge_sibs_go]. rewrite (flush_texteq g g' out H). reflexivity.
  - rewrite !go_step. unfold step.
    destruct (negb (has_content k)).
    + cbn [bind fst snd]. apply IH, texteq_pend, H.
    + destruct k as [e eks|tl]; [|reflexivity].
      destruct (elem_key v e eks) as [key|x]; cbn [bind]; [|reflexivity].
      pose proof H as (H1 & H2 & _). rewrite <- H1, <- H2.
      destruct (ekey_eqb (g_key g) key && g_merge g)%bool; cbn [bind fst snd].
      * apply IH, texteq_join, H.
      * rewrite (flush_texteq g g' out H). reflexivity.
Qed.

Lemma text_like_tags e : is_text_like e = true ->
  str_eqb (e_ptag e) tag_RUN = false /\ str_eqb (e_ptag e) tag_PARAGRAPH = false.
Proof.
  unfold is_text_like. intro H. apply MergeFacts.mem_str_In in H. cbn in H.
  destruct H as [H|[H|[]]]; rewrite <- H; split; reflexivity.
Qed.

Lemma text_key v t x ks ks' : is_text_like t = true ->
  elem_key v (set_text t x) ks' = elem_key v t ks.
Proof.
  intro Ht. rewrite !elem_key_eq.
  change (is_mergeable (set_text t x)) with (is_mergeable t).
  change (tgt_of v (set_text t x)) with (tgt_of v t).
  destruct (negb (is_mergeable t)); [reflexivity|].
  destruct (tgt_of v t); [reflexivity|].
  unfold get_html_formatting. cbn [set_text e_ptag].
  destruct (text_like_tags t Ht) as [-> ->]. reflexivity.
Qed.

Section TwoTexts.
  Variables (v : env) (t1 t2 : einfo) (d1 d2 mid : list anode) (key : ekey).
  Hypothesis Ht1 : is_text_like t1 = true.
  Hypothesis Hc2 : has_content (AE t2 d2) = true.
  Hypothesis Hk1 : elem_key v t1 d1 = Ok key.
  Hypothesis Hk2 : elem_key v t2 d2 = Ok key.
  Hypothesis Hmid : Forall nc mid.

  Lemma go_two_text : forall post g out,
    (forall g0, g = Some g0 -> (1 <= g_n g0)%nat) ->
    merge_sibs_go v (AE t1 d1 :: mid ++ AE t2 d2 :: post) g out
    = merge_sibs_go v (AE (fused t1 t2) (d1 ++ d2) :: mid ++ post) g out.
  Proof.
    intros post g out Hg.
    pose proof (text_like_mergeable t1 Ht1) as Hm1.
    assert (Hk12 : elem_key v (fused t1 t2) (d1 ++ d2) = Ok key).
    { unfold fused. rewrite (text_key v t1 _ d1 (d1 ++ d2) Ht1). exact Hk1. }
    assert (Hstep2 : forall g1 out1,
               g_key g1 = key -> g_merge g1 = true ->
               merge_sibs_go v (AE t2 d2 :: post) (Some g1) out1
               = merge_sibs_go v post (Some (join_g g1 t2 d2)) out1).
    { intros g1 out1 Ek Em. rewrite go_step. unfold step. rewrite Hc2. cbn [negb]. rewrite Hk2.
      cbn [bind]. rewrite Ek, Em, ekey_eqb_refl. reflexivity. }
    rewrite !go_step. unfold step.
    rewrite (mergeable_has_content t1 d1 Hm1).
    rewrite (mergeable_has_content (fused t1 t2) (d1 ++ d2) Hm1).
    cbn [negb]. rewrite Hk1, Hk12. cbn [bind].
    assert (Hfresh : forall out1,
      merge_sibs_go v (mid ++ AE t2 d2 :: post) (Some (fresh_g key t1 d1)) out1
      = merge_sibs_go v (mid ++ post) (Some (fresh_g key (fused t1 t2) (d1 ++ d2))) out1).
    { intro out1. rewrite !go_pends by exact Hmid.
      rewrite Hstep2 by (try reflexivity; exact Hm1).
      apply go_texteq. unfold texteq, join_g, pends, fresh_g.
      cbn [g_key g_merge g_e g_kids g_n g_texts g_pending].
      change (is_mergeable (fused t1 t2)) with (is_mergeable t1). rewrite Hm1.
      repeat (split; [reflexivity|]).
      split; [cbn [fused set_text e_text ostr concat app]; rewrite !app_nil_r; reflexivity|].
      split; [lia|]. split; [lia|]. split.
      - unfold lead_e. cbn [g_e g_n g_texts]. rewrite Ht1.
        change (is_text_like (fused t1 t2)) with (is_text_like t1). rewrite Ht1.
        cbn [Nat.ltb Nat.leb andb concat app]. rewrite app_nil_r. reflexivity.
      - right. split; [exact Ht1|]. split; [exact Ht1|reflexivity]. }
    destruct g as [g0|]; [|cbn [bind fst snd]; apply Hfresh].
    destruct (ekey_eqb (g_key g0) key && g_merge g0)%bool eqn:Ec;
      [|cbn [bind fst snd]; apply Hfresh].
    specialize (Hg g0 eq_refl).
    apply andb_true_iff in Ec. destruct Ec as [Ek Em]. apply ekey_eqb_eq in Ek.
    cbn [bind fst snd].
    rewrite !go_pends by exact Hmid.
    rewrite Hstep2 by (try exact Ek; reflexivity).
    apply go_texteq. unfold texteq, join_g, pends.
    cbn [g_key g_merge g_e g_kids g_n g_texts g_pending].
    split; [reflexivity|]. split; [reflexivity|]. split; [rewrite app_assoc; reflexivity|].
    split; [reflexivity|].
    assert (EC : concat ((g_texts g0 ++ [ostr (e_text t1)]) ++ [ostr (e_text t2)])
                 = concat (g_texts g0 ++ [ostr (e_text (fused t1 t2))])).
    { rewrite !concat_app. cbn [fused set_text e_text ostr concat]. rewrite !app_nil_r, <- !app_assoc.
      reflexivity. }
    split; [exact EC|]. split; [lia|]. split; [lia|]. split; [|left; reflexivity].
    unfold lead_e. cbn [g_e g_n g_texts].
    rewrite (ltb_1_S (S (g_n g0))) by lia. rewrite (ltb_1_S (g_n g0)) by exact Hg.
    rewrite EC. reflexivity.
  Qed.
End TwoTexts.

(* 1'. the same for two text elements: they are fused into one text element
   carrying the concatenated text *)
Theorem merge_two_texts : forall v pre t1 d1 mid t2 d2 post key,
  is_text_like t1 = true -> has_content (AE t2 d2) = true ->
  elem_key v t1 d1 = Ok key -> elem_key v t2 d2 = Ok key ->
  Forall (fun k => has_content k = false) mid ->
  merge_sibs v (pre ++ AE t1 d1 :: mid ++ AE t2 d2 :: post)
  = merge_sibs v (pre ++ AE (fused t1 t2) (d1 ++ d2) :: mid ++ post).
Proof.
  intros v pre t1 d1 mid t2 d2 post key Ht1 Hc2 Hk1 Hk2 Hmid.
  unfold merge_sibs. rewrite !go_app.
  destruct (steps v pre None []) as [[g out]|x] eqn:Es; cbn [bind fst snd]; [|reflexivity].
  apply (go_two_text v t1 t2 d1 d2 mid key); try assumption.
  intros g0 ->.
  pose proof (steps_inv v leadI (step_leadI v) pre [] None [] (Some g0) out
                (conj I I) Es) as [Hg _].
  cbn [oginv] in Hg. destruct Hg as (_ & _ & Hn & _). exact Hn.
Qed.

(* ================================================================== *)
(* PART 2 — the walk is blind to inert siblings and to which run element *)
(*          carries the (same) formatting                               *)
(* ================================================================== *)

(* ---- inert elements (local copy of the notion used in GridWalk) ---- *)
Definition open_tags : list str :=
  [tag_PARAGRAPH; tag_RUN; tag_COMMENT_RANGE_END; tag_COMMENT_RANGE_START; tag_TEXT;
   tag_TEXT_MATH; tag_MATH; tag_BR; tag_SYM; tag_FOOTNOTE; tag_ENDNOTE; tag_HYPERLINK;
   tag_FORM_CHECKBOX; tag_FORM_DDLIST; tag_FOOTNOTE_REFERENCE; tag_ENDNOTE_REFERENCE;
   tag_IMAGE; tag_IMAGE_ALT; tag_IMAGEDATA; tag_TAB].
Definition handled_tags : list str := tag_TABLE_CELL :: open_tags.
Definition quiet_tag (tg : str) : bool := negb (mem_str tg handled_tags).

(* no element at or below t has a handler *)
Fixpoint inert (t : anode) : bool :=
  match t with
  | AX _ => true
  | AE e ks => quiet_tag (e_ptag e) && forallb inert ks
  end.

Lemma mem_str_false_neq tg x : forall l,
  mem_str tg l = false -> mem_str x l = true -> str_eqb tg x = false.
Proof.
  induction l as [|a l IH]; cbn [mem_str]; intros Q M; [discriminate M|].
  apply orb_false_iff in Q. destruct Q as [Q1 Q2].
  apply orb_true_iff in M. destruct M as [M|M].
  - apply BulletsFacts.str_eqb_eq in M. subst a. exact Q1.
  - exact (IH Q2 M).
Qed.

Lemma no_open_method v path t e ks body s :
  mem_str (e_ptag e) open_tags = false ->
  open_tag v path t e ks body s = Ok (s, true).
Proof.
  intro Q. pose proof (fun x => mem_str_false_neq (e_ptag e) x open_tags Q) as U.
  unfold open_tag. cbv zeta.
  rewrite (U tag_PARAGRAPH eq_refl), (U tag_RUN eq_refl), (U tag_COMMENT_RANGE_END eq_refl),
    (U tag_COMMENT_RANGE_START eq_refl), (U tag_TEXT eq_refl), (U tag_TEXT_MATH eq_refl),
    (U tag_MATH eq_refl), (U tag_BR eq_refl), (U tag_SYM eq_refl), (U tag_FOOTNOTE eq_refl),
    (U tag_ENDNOTE eq_refl), (U tag_HYPERLINK eq_refl), (U tag_FORM_CHECKBOX eq_refl),
    (U tag_FORM_DDLIST eq_refl), (U tag_FOOTNOTE_REFERENCE eq_refl),
    (U tag_ENDNOTE_REFERENCE eq_refl), (U tag_IMAGE eq_refl), (U tag_IMAGE_ALT eq_refl),
    (U tag_IMAGEDATA eq_refl), (U tag_TAB eq_refl).
  reflexivity.
Qed.

Lemma quiet_tag_open_tags tg : quiet_tag tg = true -> mem_str tg open_tags = false.
Proof.
  unfold quiet_tag, handled_tags. cbn [mem_str]. intro H. apply negb_true_iff in H.
  apply orb_false_iff in H. apply H.
Qed.

Lemma quiet_tag_neq tg x :
  quiet_tag tg = true -> mem_str x handled_tags = true -> str_eqb tg x = false.
Proof.
  unfold quiet_tag. intros Q M. apply negb_true_iff in Q.
  exact (mem_str_false_neq tg x handled_tags Q M).
Qed.

Lemma quiet_open v path t e ks body s :
  quiet_tag (e_ptag e) = true -> open_tag v path t e ks body s = Ok (s, true).
Proof. intro Q. apply no_open_method, quiet_tag_open_tags, Q. Qed.

Lemma quiet_close v e ks s : quiet_tag (e_ptag e) = true -> close_tag v e ks s = Ok s.
Proof.
  intro Q. unfold close_tag. cbv zeta.
  rewrite (quiet_tag_neq _ tag_PARAGRAPH Q eq_refl), (quiet_tag_neq _ tag_RUN Q eq_refl),
    (quiet_tag_neq _ tag_TABLE_CELL Q eq_refl).
  reflexivity.
Qed.

Lemma inert_plain : forall t, inert t = true -> plain_inline t = true.
Proof.
  apply (ShapeFacts.anode_ind' (fun t => inert t = true -> plain_inline t = true)).
  - reflexivity.
  - intros e ks IH H. cbn [inert] in H. apply andb_true_iff in H. destruct H as [Q Hks].
    cbn [plain_inline].
    rewrite (quiet_tag_neq _ tag_PARAGRAPH Q eq_refl), (quiet_tag_neq _ tag_TABLE_CELL Q eq_refl),
      (quiet_tag_neq _ tag_FOOTNOTE Q eq_refl), (quiet_tag_neq _ tag_ENDNOTE Q eq_refl),
      (quiet_tag_neq _ tag_COMMENT_RANGE_START Q eq_refl),
      (quiet_tag_neq _ tag_COMMENT_RANGE_END Q eq_refl).
    cbn [negb andb].
    induction IH as [|k r Hk Hr IHr]; [reflexivity|].
    cbn [forallb] in Hks |- *. apply andb_true_iff in Hks. destruct Hks as [K1 K2].
    rewrite (Hk K1), (IHr K2). reflexivity.
Qed.

(* an inert subtree is skipped: the walk returns the state it was given *)
Lemma inert_walk v : forall t, inert t = true -> forall path s, walk v path t s = Ok s.
Proof.
  apply (ShapeFacts.anode_ind'
           (fun t => inert t = true -> forall path s, walk v path t s = Ok s)).
  - intros tl _ path s. reflexivity.
  - intros e ks IH H path s.
    pose proof (plain_inline_no_depth _ (inert_plain _ H)) as Hd.
    cbn [inert] in H. apply andb_true_iff in H. destruct H as [Q Hks].
    rewrite walk_AE. cbv zeta. rewrite Hd. cbn [set_caret bind].
    rewrite (quiet_tag_neq _ tag_HYPERLINK Q eq_refl). cbn [bind].
    rewrite (quiet_open v path (AE e ks) e ks [] s Q). cbn [bind].
    assert (K : forall i, kids_loop v path ks i s = Ok s).
    { clear Hd Q. induction IH as [|k r Hk Hr IHr]; intro i; [reflexivity|].
      cbn [forallb] in Hks. apply andb_true_iff in Hks. destruct Hks as [K1 K2].
      cbn [kids_loop]. rewrite (Hk K1). cbn [bind]. apply IHr, K2. }
    rewrite K. cbn [bind]. rewrite (quiet_close v e ks s Q). reflexivity.
Qed.

Lemma inert_no_par t : inert t = true -> min_par_depth t = None.
Proof. intro H. apply plain_inline_no_par, inert_plain, H. Qed.

(* ---- the walk does not depend on the path, up to p_elem ---- *)
Definition wrel (v : env) (t t' : anode) : Prop :=
  forall path path' s s', forget_elem_st s = forget_elem_st s' ->
    fr (walk v path t s) = fr (walk v path' t' s').

Lemma below_loop_pi v path path' ks :
  Forall (fun k => wrel v k k) ks ->
  forall i i', below_loop v path ks i = below_loop v path' ks i'.
Proof.
  intro HF. induction HF as [|k r Hk _ IH]; intros i i'; [reflexivity|].
  cbn [below_loop]. rewrite (IH (S i) (S i')).
  apply bind_fr_out; [apply Hk; reflexivity|].
  intros a b E. apply bind_fr_out; [apply finish_resp; exact E|].
  intros a' b' E'. rewrite (tree_par_toks_resp a' b' E'). reflexivity.
Qed.

Lemma kids_loop_pi v path path' ks :
  Forall (fun k => wrel v k k) ks ->
  forall i i' s s', forget_elem_st s = forget_elem_st s' ->
    fr (kids_loop v path ks i s) = fr (kids_loop v path' ks i' s').
Proof.
  intro HF. induction HF as [|k r Hk _ IH]; intros i i' s s' E.
  - cbn [kids_loop fr res_map]. rewrite E. reflexivity.
  - cbn [kids_loop]. apply fr_bind_resp; [apply Hk; exact E|]. intros a b E'. apply IH. exact E'.
Qed.

Theorem walk_path_indep v : forall t, wrel v t t.
Proof.
  apply (ShapeFacts.anode_ind' (fun t => wrel v t t)).
  - intros tl path path' s s' E. cbn [walk fr res_map]. rewrite E. reflexivity.
  - intros e ks HF path path' s s' E.
    rewrite !walk_AE. cbv zeta.
    apply fr_bind_resp; [apply set_caret_resp; exact E|]. intros s1 s1' E1.
    rewrite <- (below_loop_pi v path path' ks HF 0%nat 0%nat).
    destruct (if str_eqb (e_ptag e) tag_HYPERLINK then below_loop v path ks 0%nat else Ok [])
      as [body|x]; cbn [bind]; [|reflexivity].
    apply frb_bind_resp; [apply open_tag_resp; exact E1|].
    intros s2 s2' rec E2.
    apply fr_bind_resp.
    { destruct rec; [apply kids_loop_pi; assumption|]. cbn [fr res_map]. rewrite E2. reflexivity. }
    intros s3 s3' E3.
    apply fr_bind_resp; [apply close_tag_resp; exact E3|].
    intros s4 s4' E4. apply set_caret_resp. exact E4.
Qed.

(* ---- sibling lists that differ by negligible siblings ---- *)
Inductive lsim (J : anode -> Prop) (R : anode -> anode -> Prop)
  : list anode -> list anode -> Prop :=
| ls_nil : lsim J R [] []
| ls_cons a b l l' : R a b -> lsim J R l l' -> lsim J R (a :: l) (b :: l')
| ls_l j l l' : J j -> lsim J R l l' -> lsim J R (j :: l) l'
| ls_r j l l' : J j -> lsim J R l l' -> lsim J R l (j :: l').

Lemma lsim_refl J (R : anode -> anode -> Prop) :
  (forall t, R t t) -> forall l, lsim J R l l.
Proof. intros HR l. induction l; constructor; auto. Qed.

Lemma lsim_app J R a a' b b' :
  lsim J R a a' -> lsim J R b b' -> lsim J R (a ++ b) (a' ++ b').
Proof.
  intros Ha Hb. induction Ha; cbn [app]; [exact Hb| | |]; constructor; auto.
Qed.



Definition winert (t : anode) : Prop := inert t = true.

(* elements whose handlers do not look at their children (other than w:p and
   w:tc, whose handlers read their properties: see wcond) *)
Definition kids_tag (tg : str) : bool :=
  negb (mem_str tg [tag_RUN; tag_MATH; tag_FORM_CHECKBOX; tag_FORM_DDLIST]).
(* what the paragraph handler reads from the children of a paragraph *)
Definition par_obs (e : einfo) (ks : list anode) : res str * (option str * option str) :=
  (get_pStyle e ks, get_bullet_fmt (AE e ks)).

(* what the handlers of a w:p / w:tc read from the children *)
Definition wcond (e : einfo) (ks ks' : list anode) : Prop :=
  (str_eqb (e_ptag e) tag_PARAGRAPH = true -> par_obs e ks = par_obs e ks') /\
  (str_eqb (e_ptag e) tag_TABLE_CELL = true -> gather_Pr e ks = gather_Pr e ks').

Section WalkSim.
  Variable v : env.

  (* walk-similar trees *)
  Inductive wsim : anode -> anode -> Prop :=
  | ws_refl t : wsim t t
  | ws_run e e' ks ks' :
      e_ptag e = tag_RUN -> e_ptag e' = tag_RUN -> e_local e = e_local e' ->
      get_run_formatting e ks (env_x2h v) = get_run_formatting e' ks' (env_x2h v) ->
      lsim winert wsim ks ks' -> wsim (AE e ks) (AE e' ks')
  | ws_kids e ks ks' :
      kids_tag (e_ptag e) = true -> wcond e ks ks' ->
      lsim winert wsim ks ks' -> wsim (AE e ks) (AE e ks').


  Lemma wsim_mpd : forall t t', wsim t t' -> min_par_depth t = min_par_depth t'.
  Proof.
    apply (ShapeFacts.anode_ind'
             (fun t => forall t', wsim t t' -> min_par_depth t = min_par_depth t')).
    - intros tl t' H. inversion H; subst. reflexivity.
    - intros e ks IH t' H.
      assert (HL : forall ks', lsim winert wsim ks ks' -> mpd_list ks = mpd_list ks').
      { clear H t'. intros ks' HS.
        induction HS as [|a b l l' Hab _ IHl|j l l' Hj _ IHl|j l l' Hj _ IHl].
        - reflexivity.
        - inversion IH as [|? ? Ha Hl]; subst. cbn [mpd_list]. rewrite (Ha b Hab), (IHl Hl). reflexivity.
        - inversion IH as [|? ? Ha Hl]; subst. cbn [mpd_list]. rewrite (inert_no_par j Hj), (IHl Hl).
          reflexivity.
        - cbn [mpd_list]. rewrite (inert_no_par j Hj), (IHl IH). reflexivity. }
      inversion H as [t0|e0 e' ks0 ks' Ht Ht' Hl Hf HS|e0 ks0 ks' Hk Hp HS]; subst.
      + reflexivity.
      + rewrite !min_par_depth_AE, Ht, Ht', (HL ks' HS). reflexivity.
      + rewrite !min_par_depth_AE, (HL ks' HS). reflexivity.
  Qed.

  Lemma wsim_depth e e' ks ks' :
    e_ptag e = e_ptag e' -> wsim (AE e ks) (AE e' ks') ->
    elem_depth (AE e ks) = elem_depth (AE e' ks').
  Proof.
    intros Hp H. unfold elem_depth. rewrite (wsim_mpd _ _ H), Hp. reflexivity.
  Qed.

  (* the two loops over similar child lists *)
  Lemma kids_loop_sim path path' : forall ks ks',
    lsim winert wsim ks ks' ->
    Forall (fun a => forall b, wsim a b -> wrel v a b) ks ->
    forall i i' s s', forget_elem_st s = forget_elem_st s' ->
      fr (kids_loop v path ks i s) = fr (kids_loop v path' ks' i' s').
  Proof.
    intros ks ks' HS. induction HS as [|a b l l' Hab _ IHl|j l l' Hj _ IHl|j l l' Hj _ IHl];
      intros HF i i' s s' E.
    - cbn [kids_loop fr res_map]. rewrite E. reflexivity.
    - inversion HF as [|? ? Ha Hl]; subst. cbn [kids_loop].
      apply fr_bind_resp; [apply (Ha b Hab); exact E|]. intros x y E'. apply IHl; assumption.
    - inversion HF as [|? ? Ha Hl]; subst. cbn [kids_loop].
      rewrite (inert_walk v j Hj). cbn [bind]. apply IHl; assumption.
    - cbn [kids_loop]. rewrite (inert_walk v j Hj). cbn [bind]. apply IHl; assumption.
  Qed.

  Lemma below_junk path j r i : inert j = true ->
    below_loop v path (j :: r) i = below_loop v path r (S i).
  Proof.
    intro Hj. cbn [below_loop]. rewrite (inert_walk v j Hj). cbn [bind].
    change (finish v init_cst) with (Ok init_cst). cbn [bind].
    change (tree_par_toks (c_tree init_cst)) with (@Ok (list (list tok)) []).
    cbn [bind join_toks app].
    destruct (below_loop v path r (S i)); reflexivity.
  Qed.

  Lemma below_loop_sim path path' : forall ks ks',
    lsim winert wsim ks ks' ->
    Forall (fun a => forall b, wsim a b -> wrel v a b) ks ->
    forall i i', below_loop v path ks i = below_loop v path' ks' i'.
  Proof.
    intros ks ks' HS. induction HS as [|a b l l' Hab _ IHl|j l l' Hj _ IHl|j l l' Hj _ IHl];
      intros HF i i'.
    - reflexivity.
    - inversion HF as [|? ? Ha Hl]; subst. cbn [below_loop]. rewrite (IHl Hl (S i) (S i')).
      apply bind_fr_out; [apply (Ha b Hab); reflexivity|].
      intros x y E. apply bind_fr_out; [apply finish_resp; exact E|].
      intros x' y' E'. rewrite (tree_par_toks_resp x' y' E'). reflexivity.
    - inversion HF as [|? ? Ha Hl]; subst. rewrite (below_junk path j l i Hj). apply IHl; assumption.
    - rewrite (below_junk path' j l' i' Hj). apply IHl; assumption.
  Qed.

  Lemma open_tag_run path t e ks body s : e_ptag e = tag_RUN ->
    open_tag v path t e ks body s
    = (st <- get_run_formatting e ks (env_x2h v) ;; s' <- commence_run v st s ;; Ok (s', true)).
  Proof.
    intro H. unfold open_tag. cbv zeta. rewrite H.
    change (str_eqb tag_RUN tag_PARAGRAPH) with false.
    change (str_eqb tag_RUN tag_RUN) with true. reflexivity.
  Qed.

  Lemma close_tag_run e ks s : e_ptag e = tag_RUN -> close_tag v e ks s = commence_run v [] s.
  Proof.
    intro H. unfold close_tag. cbv zeta. rewrite H.
    change (str_eqb tag_RUN tag_PARAGRAPH) with false.
    change (str_eqb tag_RUN tag_RUN) with true. reflexivity.
  Qed.

  Lemma open_tag_kids path e ks ks' body s :
    kids_tag (e_ptag e) = true ->
    (str_eqb (e_ptag e) tag_PARAGRAPH = true -> par_obs e ks = par_obs e ks') ->
    open_tag v path (AE e ks) e ks body s = open_tag v path (AE e ks') e ks' body s.
  Proof.
    intros Hk Hp. unfold kids_tag in Hk. apply negb_true_iff in Hk.
    pose proof (fun x => mem_str_false_neq (e_ptag e) x _ Hk) as U.
    unfold open_tag. cbv zeta.
    destruct (str_eqb (e_ptag e) tag_PARAGRAPH) eqn:EP.
    { specialize (Hp eq_refl). unfold par_obs in Hp. injection Hp as H1 H2.
      unfold commence_paragraph, get_paragraph_formatting. rewrite H1, H2. reflexivity. }
    rewrite (U tag_RUN eq_refl), (U tag_MATH eq_refl), (U tag_FORM_CHECKBOX eq_refl),
      (U tag_FORM_DDLIST eq_refl).
    reflexivity.
  Qed.

  Lemma close_tag_kids e ks ks' s :
    kids_tag (e_ptag e) = true ->
    (str_eqb (e_ptag e) tag_TABLE_CELL = true -> gather_Pr e ks = gather_Pr e ks') ->
    close_tag v e ks s = close_tag v e ks' s.
  Proof.
    intros Hk Hc. unfold kids_tag in Hk. apply negb_true_iff in Hk.
    pose proof (fun x => mem_str_false_neq (e_ptag e) x _ Hk) as U.
    unfold close_tag. cbv zeta.
    rewrite (U tag_RUN eq_refl).
    destruct (str_eqb (e_ptag e) tag_TABLE_CELL); [|reflexivity].
    unfold close_table_cell. rewrite (Hc eq_refl). reflexivity.
  Qed.

  Lemma frb_lift (r1 r2 : res cst) b :
    fr r1 = fr r2 -> frb (s' <- r1 ;; Ok (s', b)) = frb (s' <- r2 ;; Ok (s', b)).
  Proof.
    destruct r1 as [a|x], r2 as [c|y]; cbn [fr res_map bind frb fst snd]; intro H;
      try discriminate H.
    - apply Ok_inj in H. rewrite H. reflexivity.
    - injection H as ->. reflexivity.
  Qed.

  Lemma commence_run_resp st s s' :
    forget_elem_st s = forget_elem_st s' -> fr (commence_run v st s) = fr (commence_run v st s').
  Proof. apply resp_of_comm. intro x. apply commence_run_F. Qed.

  (* walk-similar trees are walked alike, from states equal up to p_elem *)
  Theorem wsim_walk : forall t t', wsim t t' -> wrel v t t'.
  Proof.
    apply (ShapeFacts.anode_ind' (fun t => forall t', wsim t t' -> wrel v t t')).
    - intros tl t' H. inversion H; subst. apply walk_path_indep.
    - intros e ks IH t' H.
      inversion H as [t0|e0 e' ks0 ks' Ht Ht' Hl Hf HS|e0 ks0 ks' Hk Hp HS]; subst.
      + apply walk_path_indep.
      + (* two run elements *)
        intros path path' s s' E.
        pose proof (wsim_depth e e' ks ks' (eq_trans Ht (eq_sym Ht')) H) as Hd.
        rewrite !walk_AE. cbv zeta. rewrite <- Hd, <- Hl.
        apply fr_bind_resp; [apply set_caret_resp; exact E|]. intros s1 s1' E1.
        rewrite Ht, Ht'. change (str_eqb tag_RUN tag_HYPERLINK) with false. cbv iota. cbn [bind].
        apply frb_bind_resp.
        { rewrite !open_tag_run by assumption. rewrite <- Hf.
          destruct (get_run_formatting e ks (env_x2h v)) as [st|x]; cbn [bind]; [|reflexivity].
          apply frb_lift, commence_run_resp, E1. }
        intros s2 s2' rec E2.
        apply fr_bind_resp.
        { destruct rec; [apply kids_loop_sim; assumption|].
          cbn [fr res_map]. rewrite E2. reflexivity. }
        intros s3 s3' E3.
        apply fr_bind_resp.
        { rewrite !close_tag_run by assumption. apply commence_run_resp, E3. }
        intros s4 s4' E4. apply set_caret_resp. exact E4.
      + (* the same element over similar children *)
        intros path path' s s' E.
        pose proof (wsim_depth e e ks ks' eq_refl H) as Hd.
        rewrite !walk_AE. cbv zeta. rewrite <- Hd.
        apply fr_bind_resp; [apply set_caret_resp; exact E|]. intros s1 s1' E1.
        rewrite <- (below_loop_sim path path' ks ks' HS IH 0%nat 0%nat).
        destruct (if str_eqb (e_ptag e) tag_HYPERLINK then below_loop v path ks 0%nat else Ok [])
          as [body|x]; cbn [bind]; [|reflexivity].
        apply frb_bind_resp.
        { rewrite <- (open_tag_kids path' e ks ks' body s1' Hk (proj1 Hp)). apply open_tag_resp. exact E1. }
        intros s2 s2' rec E2.
        apply fr_bind_resp.
        { destruct rec; [apply kids_loop_sim; assumption|].
          cbn [fr res_map]. rewrite E2. reflexivity. }
        intros s3 s3' E3.
        apply fr_bind_resp.
        { rewrite <- (close_tag_kids e ks ks' s3' Hk (proj2 Hp)). apply close_tag_resp. exact E3. }
        intros s4 s4' E4. apply set_caret_resp. exact E4.
  Qed.
End WalkSim.

(* ---- 2. an inert extra child of a run ---- *)
Lemma find_child_cons u l x b :
  find_child u l (x :: b) = if is_elem_named u l x then Some x else find_child u l b.
Proof.
  unfold find_child, find_children. cbn [filter]. destruct (is_elem_named u l x); reflexivity.
Qed.

Lemma pr_child_insert e a x b :
  (pr_child e a <> None \/ is_elem_named (e_uri e) (e_local e ++ s_Pr) x = false) ->
  pr_child e (a ++ x :: b) = pr_child e (a ++ b).
Proof.
  intro H. unfold pr_child in *. rewrite !find_child_app, find_child_cons.
  destruct (find_child (e_uri e) (e_local e ++ s_Pr) a) as [p|]; [reflexivity|].
  destruct H as [H|H]; [congruence|]. rewrite H. reflexivity.
Qed.

Lemma run_fmt_dep e ks1 ks2 x :
  pr_child e ks1 = pr_child e ks2 -> get_run_formatting e ks1 x = get_run_formatting e ks2 x.
Proof.
  intro H. unfold get_run_formatting, gather_Pr. unfold pr_child in H. rewrite H. reflexivity.
Qed.

(* a second w:rPr (anything inert that is not the run's first w:rPr) among the
   children of a run does not change what walking the run does *)
Theorem extra_rPr_invisible : forall v e a x b path path' s s',
  e_ptag e = tag_RUN -> inert x = true ->
  (pr_child e a <> None \/ is_elem_named (e_uri e) (e_local e ++ s_Pr) x = false) ->
  forget_elem_st s = forget_elem_st s' ->
  fr (walk v path (AE e (a ++ x :: b)) s) = fr (walk v path' (AE e (a ++ b)) s').
Proof.
  intros v e a x b path path' s s' Ht Hx Hpr E.
  apply (wsim_walk v); [|exact E].
  apply ws_run; try assumption; try reflexivity.
  - apply run_fmt_dep, pr_child_insert, Hpr.
  - apply lsim_app; [apply lsim_refl; apply ws_refl|].
    apply ls_l; [exact Hx|]. apply lsim_refl; apply ws_refl.
Qed.

(* ================================================================== *)
(* PART 3 — merge_elems on similar trees                                *)
(* ================================================================== *)
(* negligible siblings for the merge: inert and without content *)
Definition junk (t : anode) : Prop := inert t = true /\ has_content t = false.


(* the children a paragraph names w:pPr carry no content *)
Definition ppr_ok (e : einfo) (ks : list anode) : bool :=
  forallb (fun k => negb (is_elem_named (e_wuri e) s_pPr k) || negb (has_content k)) ks.

Lemma run_mergeable e : e_ptag e = tag_RUN -> is_mergeable e = true.
Proof. intro H. unfold is_mergeable. rewrite H. reflexivity. Qed.
Lemma run_not_text e : e_ptag e = tag_RUN -> is_text_like e = false.
Proof. intro H. unfold is_text_like. rewrite H. reflexivity. Qed.
Lemma mergeable_not_par e :
  is_mergeable e = true -> str_eqb (e_ptag e) tag_PARAGRAPH = false.
Proof.
  intro H. destruct (str_eqb (e_ptag e) tag_PARAGRAPH) eqn:E; [|reflexivity].
  apply BulletsFacts.str_eqb_eq in E. unfold is_mergeable in H. rewrite E in H. discriminate H.
Qed.

Lemma Qk_join_runs pt e1 c1 e2 c2 :
  e_uri e2 = e_uri e1 -> e_local e2 = e_local e1 ->
  Qk pt (AE e1 c1) -> Qk pt (AE e2 c2) -> Qk pt (AE e1 (c1 ++ c2)).
Proof.
  intros Hu Hl Q1 Q2. apply Qk_AE in Q1. apply Qk_AE in Q2. apply Qk_AE.
  destruct Q1 as (A1 & B1 & C1). destruct Q2 as (A2 & B2 & C2). rewrite Hu, Hl in B2.
  split; [exact A1|]. split; [rewrite pr_ok_app, B1, B2; reflexivity|].
  apply Forall_app. auto.
Qed.

Lemma mergeable_not_tc e :
  is_mergeable e = true -> str_eqb (e_ptag e) tag_TABLE_CELL = false.
Proof.
  intro H. destruct (str_eqb (e_ptag e) tag_TABLE_CELL) eqn:E; [|reflexivity].
  apply BulletsFacts.str_eqb_eq in E. unfold is_mergeable in H. rewrite E in H. discriminate H.
Qed.

Lemma gather_Pr_dep e ks1 ks2 : pr_child e ks1 = pr_child e ks2 -> gather_Pr e ks1 = gather_Pr e ks2.
Proof. intro H. unfold gather_Pr. unfold pr_child in H. rewrite H. reflexivity. Qed.

Section MergeSim.
  Variables (pt : aname -> str) (v : env).
  Hypothesis Hrels : rels_ok v.

  Definition run_pair (e e' : einfo) : Prop :=
    e_ptag e = tag_RUN /\ e_ptag e' = tag_RUN /\ e_uri e = e_uri e' /\ e_local e = e_local e' /\
    tgt_of v e = None /\ tgt_of v e' = None.

  Definition par_cond (e : einfo) (ks ks' : list anode) : Prop :=
    (str_eqb (e_ptag e) tag_PARAGRAPH = true ->
     ppr_ok e ks = true /\ ppr_ok e ks' = true /\ par_obs e ks = par_obs e ks') /\
    (str_eqb (e_ptag e) tag_TABLE_CELL = true -> pr_child e ks = pr_child e ks').

  (* two siblings that merge_sibs joins: runs or hyperlinks ... *)
  Definition split_ok (e1 : einfo) (c1 : list anode) (e2 : einfo) (c2 : list anode) : Prop :=
    is_mergeable e1 = true /\ is_text_like e1 = false /\ has_content (AE e2 c2) = true /\
    exists K, elem_key v e1 c1 = Ok K /\ elem_key v e2 c2 = Ok K /\
              elem_key v e1 (c1 ++ c2) = Ok K.
  (* ... or text elements *)
  Definition fuse_ok (t1 : einfo) (d1 : list anode) (t2 : einfo) (d2 : list anode) : Prop :=
    is_text_like t1 = true /\ has_content (AE t2 d2) = true /\
    exists K, elem_key v t1 d1 = Ok K /\ elem_key v t2 d2 = Ok K.

  (* sibling lists before merging: pointwise similar, up to negligible
     siblings, and up to replacing two siblings that will be joined by the
     element that owns the children of both *)
  Inductive bsim (R : anode -> anode -> Prop) : list anode -> list anode -> Prop :=
  | bs_nil : bsim R [] []
  | bs_cons a b l l' : R a b -> bsim R l l' -> bsim R (a :: l) (b :: l')
  | bs_l j l l' : junk j -> bsim R l l' -> bsim R (j :: l) l'
  | bs_r j l l' : junk j -> bsim R l l' -> bsim R l (j :: l')
  | bs_split e1 c1 mid e2 c2 l l2 :
      split_ok e1 c1 e2 c2 -> Forall junk mid ->
      bsim R (AE e1 (c1 ++ c2) :: mid ++ l) l2 ->
      bsim R (AE e1 c1 :: mid ++ AE e2 c2 :: l) l2
  | bs_fuse t1 d1 mid t2 d2 l l2 :
      fuse_ok t1 d1 t2 d2 -> Forall junk mid ->
      bsim R (AE (fused t1 t2) (d1 ++ d2) :: mid ++ l) l2 ->
      bsim R (AE t1 d1 :: mid ++ AE t2 d2 :: l) l2.

  Lemma lsim_bsim R l l' : lsim junk R l l' -> bsim R l l'.
  Proof. intro H. induction H; constructor; assumption. Qed.

  Lemma bsim_refl (R : anode -> anode -> Prop) : (forall t, R t t) -> forall l, bsim R l l.
  Proof. intros HR l. apply lsim_bsim, lsim_refl, HR. Qed.

  Lemma bsim_app R a a' b b' : bsim R a a' -> bsim R b b' -> bsim R (a ++ b) (a' ++ b').
  Proof.
    intros Ha Hb. induction Ha as [|x y l l' Hxy _ IH|j l l' Hj _ IH|j l l' Hj _ IH
                                  |e1 c1 mid e2 c2 l l2 Hs Hm _ IH|t1 d1 mid t2 d2 l l2 Hs Hm _ IH].
    - exact Hb.
    - cbn [app]. apply bs_cons; assumption.
    - cbn [app]. apply bs_l; assumption.
    - cbn [app]. apply bs_r; assumption.
    - cbn [app] in *. rewrite <- app_assoc in *. cbn [app]. apply bs_split; assumption.
    - cbn [app] in *. rewrite <- app_assoc in *. cbn [app]. apply bs_fuse; assumption.
  Qed.

  (* merge-similar trees *)
  Inductive msim : anode -> anode -> Prop :=
  | ms_refl t : msim t t
  | ms_run e e' ks ks' :
      run_pair e e' ->
      get_run_formatting e ks (env_x2h v) = get_run_formatting e' ks' (env_x2h v) ->
      bsim msim ks ks' -> msim (AE e ks) (AE e' ks')
  | ms_kids e ks ks' :
      kids_tag (e_ptag e) = true -> par_cond e ks ks' ->
      bsim msim ks ks' -> msim (AE e ks) (AE e ks').

  Lemma msim_inv e ks e' ks' : msim (AE e ks) (AE e' ks') ->
    bsim msim ks ks' /\
    ((e = e' /\ ks = ks') \/
     (run_pair e e' /\
      get_run_formatting e ks (env_x2h v) = get_run_formatting e' ks' (env_x2h v)) \/
     (e = e' /\ kids_tag (e_ptag e) = true /\ par_cond e ks ks')).
  Proof.
    intro H. inversion H as [t0|e0 e0' ks0 ks0' Hp Hf HS|e0 ks0 ks0' Hk Hp HS]; subst.
    - split; [apply bsim_refl; apply ms_refl|]. left. auto.
    - split; [exact HS|]. right. left. auto.
    - split; [exact HS|]. right. right. auto.
  Qed.

  Lemma msim_AX_l tl t' : msim (AX tl) t' -> t' = AX tl.
  Proof. intro H. inversion H; subst. reflexivity. Qed.
  Lemma msim_AX_r tl t : msim t (AX tl) -> t = AX tl.
  Proof. intro H. inversion H; subst. reflexivity. Qed.

  Lemma msim_tag e ks e' ks' : msim (AE e ks) (AE e' ks') -> same_tag e e'.
  Proof.
    intro H. destruct (msim_inv _ _ _ _ H) as [_ [[-> _]|[[P _]|[-> _]]]]; try (repeat split; reflexivity).
    destruct P as (P1 & P2 & P3 & P4 & _). repeat split; congruence.
  Qed.

  Lemma msim_same_e e ks e' ks' :
    msim (AE e ks) (AE e' ks') -> e_ptag e <> tag_RUN -> e = e'.
  Proof.
    intros H N. destruct (msim_inv _ _ _ _ H) as [_ [[-> _]|[[P _]|[-> _]]]]; try reflexivity.
    destruct P as (P1 & _). contradiction.
  Qed.

  Lemma msim_content e ks t' :
    msim (AE e ks) t' -> mem_str (e_ptag e) content_tags = true -> has_content t' = true.
  Proof.
    intros M H. destruct t' as [e' ks'|tl]; [|apply msim_AX_r in M; discriminate M].
    destruct (msim_tag _ _ _ _ M) as (Hp & _). rewrite has_content_AE, <- Hp, H. reflexivity.
  Qed.

  Lemma bsim_hc : forall l l2, bsim msim l l2 ->
    (forall a b, In a l -> msim a b -> has_content a = has_content b) ->
    existsb has_content l = existsb has_content l2.
  Proof.
    intros l l2 HS.
    induction HS as [|x y l l' Hxy _ IH|j l l' Hj _ IH|j l l' Hj _ IH
                    |e1 c1 mid e2 c2 l l2 Hs Hm _ IH|t1 d1 mid t2 d2 l l2 Hs Hm _ IH]; intro HP.
    - reflexivity.
    - cbn [existsb]. rewrite (HP x y (or_introl eq_refl) Hxy), IH; [reflexivity|].
      intros a b Ha. apply HP. right. exact Ha.
    - cbn [existsb]. rewrite (proj2 Hj), IH; [reflexivity|].
      intros a b Ha. apply HP. right. exact Ha.
    - cbn [existsb]. rewrite (proj2 Hj), IH; [reflexivity|exact HP].
    - destruct Hs as (Hm1 & _).
      rewrite <- IH.
      + cbn [existsb]. rewrite !(mergeable_has_content e1 _ Hm1). reflexivity.
      + intros a b [<-|Ha] M.
        * rewrite (mergeable_has_content e1 _ Hm1). symmetry.
          exact (msim_content _ _ _ M (mergeable_content e1 Hm1)).
        * apply HP; [|exact M]. right. apply in_app_or in Ha. apply in_or_app.
          destruct Ha as [Ha|Ha]; [left; exact Ha|right; right; exact Ha].
    - destruct Hs as (Ht1 & _). pose proof (text_like_mergeable t1 Ht1) as Hm1.
      rewrite <- IH.
      + cbn [existsb]. rewrite (mergeable_has_content t1 _ Hm1).
        rewrite (mergeable_has_content (fused t1 t2) _ Hm1). reflexivity.
      + intros a b [<-|Ha] M.
        * rewrite (mergeable_has_content (fused t1 t2) _ Hm1). symmetry.
          exact (msim_content _ _ _ M (mergeable_content (fused t1 t2) Hm1)).
        * apply HP; [|exact M]. right. apply in_app_or in Ha. apply in_or_app.
          destruct Ha as [Ha|Ha]; [left; exact Ha|right; right; exact Ha].
  Qed.

  Lemma msim_hc : forall t t', msim t t' -> has_content t = has_content t'.
  Proof.
    apply (ShapeFacts.anode_ind'
             (fun t => forall t', msim t t' -> has_content t = has_content t')).
    - intros tl t' H. rewrite (msim_AX_l _ _ H). reflexivity.
    - intros e ks IH t' H.
      destruct t' as [e' ks'|tl]; [|rewrite (msim_AX_r _ _ H); reflexivity].
      destruct (msim_tag _ _ _ _ H) as (Hp & _).
      destruct (msim_inv _ _ _ _ H) as [HS _].
      rewrite !has_content_AE, Hp. f_equal. apply bsim_hc; [exact HS|].
      intros a b Ha. rewrite Forall_forall in IH. exact (IH a Ha b).
  Qed.

  (* keys *)
  Lemma run_key e ks : e_ptag e = tag_RUN -> tgt_of v e = None ->
    elem_key v e ks
    = (f <- get_run_formatting e ks (env_x2h v) ;; Ok ((e_uri e, e_local e), [], f)).
  Proof.
    intros Hp Ht. rewrite elem_key_eq, (run_mergeable e Hp), Ht. cbn [negb].
    unfold get_html_formatting. rewrite Hp. change (str_eqb tag_RUN tag_RUN) with true. reflexivity.
  Qed.

  Lemma kids_key e ks ks' : kids_tag (e_ptag e) = true -> elem_key v e ks = elem_key v e ks'.
  Proof.
    intro Hk. rewrite !elem_key_eq.
    destruct (negb (is_mergeable e)) eqn:Em; [reflexivity|].
    destruct (tgt_of v e); [reflexivity|].
    unfold get_html_formatting.
    destruct (str_eqb (e_ptag e) tag_RUN) eqn:ER.
    - apply BulletsFacts.str_eqb_eq in ER. rewrite ER in Hk. discriminate Hk.
    - apply negb_false_iff in Em. rewrite (mergeable_not_par e Em). reflexivity.
  Qed.

  Lemma msim_key e ks e' ks' :
    msim (AE e ks) (AE e' ks') -> elem_key v e ks = elem_key v e' ks'.
  Proof.
    intro H. destruct (msim_inv _ _ _ _ H) as [_ [[-> ->]|[[P Hf]|[-> [Hk _]]]]].
    - reflexivity.
    - destruct P as (P1 & P2 & P3 & P4 & P5 & P6).
      rewrite !run_key by assumption. rewrite Hf, P3, P4. reflexivity.
    - apply kids_key, Hk.
  Qed.

  Lemma key_byfmt x ks K :
    is_mergeable x = true -> tgt_of v x = None -> elem_key v x ks = Ok K -> snd (fst K) = [].
  Proof.
    intros Hm Ht H. destruct (elem_key_cases v x ks K Hm H) as [(t & Ha & _)|(f & _ & _ & ->)].
    - congruence.
    - reflexivity.
  Qed.

  Lemma key_tgt_none x ks K :
    is_mergeable x = true -> elem_key v x ks = Ok K -> snd (fst K) = [] -> tgt_of v x = None.
  Proof.
    intros Hm H HK. destruct (elem_key_cases v x ks K Hm H) as [(t & Ha & ->)|(f & Ha & _)].
    - cbn [fst snd] in HK. subst t. destruct (tgt_of_In v x [] Ha) as [k Hk].
      exfalso. exact (Hrels k [] Hk eq_refl).
    - exact Ha.
  Qed.

  (* joining similar members to similar leaders *)
  Lemma msim_join e0 k0 e0' k0' e eks e' eks' K :
    msim (AE e0 k0) (AE e0' k0') -> msim (AE e eks) (AE e' eks') ->
    same_tag e e0 -> same_tag e' e0' -> is_mergeable e0 = true ->
    elem_key v e0 k0 = Ok K -> elem_key v e0' k0' = Ok K ->
    elem_key v e eks = Ok K -> elem_key v e' eks' = Ok K ->
    msim (AE e0 (k0 ++ eks)) (AE e0' (k0' ++ eks')).
  Proof.
    intros M0 M1 S1 S1' Hm K0 K0' K1 K1'.
    destruct (msim_inv _ _ _ _ M0) as [L0 C0]. destruct (msim_inv _ _ _ _ M1) as [L1 C1].
    pose proof (bsim_app _ _ _ _ _ L0 L1) as L.
    destruct (msim_tag _ _ _ _ M0) as (T0p & T0u & T0l).
    destruct S1 as (S1p & S1u & S1l).
    assert (Hm' : is_mergeable e0' = true).
    { unfold is_mergeable in *. rewrite <- T0p. exact Hm. }
    assert (Hme : is_mergeable e = true).
    { unfold is_mergeable in *. rewrite S1p. exact Hm. }
    destruct (str_eqb (e_ptag e0) tag_RUN) eqn:ER.
    - (* runs *)
      apply BulletsFacts.str_eqb_eq in ER.
      assert (HT : (e0 = e0' /\ k0 = k0' /\ e = e' /\ eks = eks') \/ snd (fst K) = []).
      { destruct C0 as [[E1 E2]|[[P0 _]|[_ [Kt _]]]].
        - destruct C1 as [[E3 E4]|[[P1 _]|[_ [Kt _]]]].
          + left. auto.
          + right. destruct P1 as (_ & _ & _ & _ & P5 & _).
            exact (key_byfmt e eks K Hme P5 K1).
          + rewrite S1p, ER in Kt. discriminate Kt.
        - right. destruct P0 as (_ & _ & _ & _ & P5 & _). exact (key_byfmt e0 k0 K Hm P5 K0).
        - rewrite ER in Kt. discriminate Kt. }
      destruct HT as [(-> & -> & -> & ->)|HK]; [apply ms_refl|].
      pose proof (key_tgt_none e0 k0 K Hm K0 HK) as N0.
      pose proof (key_tgt_none e0' k0' K Hm' K0' HK) as N0'.
      assert (ER' : e_ptag e0' = tag_RUN) by congruence.
      pose proof (key_join v e0 k0 e eks K Hrels (conj S1p (conj S1u S1l)) Hm K0 K1) as J.
      pose proof (key_join v e0' k0' e' eks' K Hrels S1' Hm' K0' K1') as J'.
      rewrite run_key in J, J' by assumption.
      apply ms_run; [repeat split; assumption| |exact L].
      destruct (get_run_formatting e0 (k0 ++ eks) (env_x2h v)) as [f|x]; [|discriminate J].
      destruct (get_run_formatting e0' (k0' ++ eks') (env_x2h v)) as [f'|x]; [|discriminate J'].
      cbn [bind] in J, J'. rewrite <- J' in J. injection J as _ _ ->. reflexivity.
    - (* not runs *)
      assert (NR : e_ptag e0 <> tag_RUN).
      { intro E. rewrite E in ER. discriminate ER. }
      assert (E0 : e0 = e0') by (apply (msim_same_e _ _ _ _ M0 NR)).
      assert (E1 : e = e').
      { apply (msim_same_e _ _ _ _ M1). rewrite S1p. exact NR. }
      subst e0' e'.
      assert (HT : (k0 = k0' /\ eks = eks') \/ kids_tag (e_ptag e0) = true).
      { destruct C0 as [[_ E2]|[[P0 _]|[_ [Kt _]]]].
        - destruct C1 as [[_ E4]|[[P1 _]|[_ [Kt _]]]].
          + left. auto.
          + destruct P1 as (P1 & _). rewrite S1p in P1. contradiction.
          + right. rewrite <- S1p. exact Kt.
        - destruct P0 as (P0 & _). contradiction.
        - right. exact Kt. }
      destruct HT as [[-> ->]|Kt]; [apply ms_refl|].
      apply ms_kids; [exact Kt| |exact L].
      split; intro EP.
      + rewrite (mergeable_not_par e0 Hm) in EP. discriminate EP.
      + rewrite (mergeable_not_tc e0 Hm) in EP. discriminate EP.
  Qed.

  (* ---- similar states of the sibling pass ---- *)
  Definition LE (g : group) : anode := AE (g_e g) (g_kids g).

  Definition gs (g g' : group) : Prop :=
    ginv g /\ ginv g' /\ g_key g = g_key g' /\ g_merge g = g_merge g' /\
    msim (LE g) (LE g') /\ Qk pt (LE g) /\ Qk pt (LE g') /\
    elem_key v (g_e g) (g_kids g) = Ok (g_key g) /\
    elem_key v (g_e g') (g_kids g') = Ok (g_key g') /\
    lsim junk msim (rev (g_pending g)) (rev (g_pending g')) /\
    Forall (Qk pt) (g_pending g) /\ Forall (Qk pt) (g_pending g') /\
    (is_text_like (g_e g) = true ->
     g_e g = g_e g' /\ g_n g = g_n g' /\ g_texts g = g_texts g').

  Definition ogs (g g' : option group) : Prop :=
    match g, g' with
    | Some g0, Some g0' => gs g0 g0'
    | None, None => True
    | _, _ => False
    end.

  Definition SI (g : option group) (out : list anode) (g' : option group) (out' : list anode) : Prop :=
    lsim junk msim (rev out) (rev out') /\ Forall (Qk pt) out /\ Forall (Qk pt) out' /\ ogs g g'.

  Lemma Qk_retag e e2 ks :
    e_ptag e2 = e_ptag e -> e_uri e2 = e_uri e -> e_local e2 = e_local e ->
    Qk pt (AE e ks) -> Qk pt (AE e2 ks).
  Proof.
    intros H1 H2 H3 H. apply Qk_AE in H. apply Qk_AE. rewrite H1, H2, H3. exact H.
  Qed.

  Lemma Qk_leader g : Qk pt (LE g) -> Qk pt (leader g).
  Proof. apply Qk_retag; [apply lead_e_ptag|apply lead_e_uri|apply lead_e_local]. Qed.
  Lemma Qk_unleader g : Qk pt (leader g) -> Qk pt (LE g).
  Proof.
    apply Qk_retag; symmetry; [apply lead_e_ptag|apply lead_e_uri|apply lead_e_local].
  Qed.

  Lemma text_not_run e : is_text_like e = true -> e_ptag e <> tag_RUN.
  Proof. intros H E. rewrite (run_not_text e E) in H. discriminate H. Qed.

  Lemma msim_set_text e t ks ks' :
    is_text_like e = true -> msim (AE e ks) (AE e ks') ->
    msim (AE (set_text e t) ks) (AE (set_text e t) ks').
  Proof.
    intros Ht H. destruct (msim_inv _ _ _ _ H) as [HS [[_ ->]|[[P _]|[_ [Hk Hp]]]]].
    - apply ms_refl.
    - destruct P as (P & _). exfalso. exact (text_not_run e Ht P).
    - apply ms_kids; [exact Hk|exact Hp|exact HS].
  Qed.

  Lemma leader_sim g g' : gs g g' ->
    msim (leader g) (leader g') /\ Qk pt (leader g) /\ Qk pt (leader g').
  Proof.
    intros (G1 & G2 & Ek & Em & Hm & Q1 & Q2 & K1 & K2 & HP & QP1 & QP2 & HT).
    split; [|split; [apply Qk_leader, Q1|apply Qk_leader, Q2]].
    unfold leader, LE in *.
    destruct (is_text_like (g_e g)) eqn:Et.
    - destruct (HT eq_refl) as (Ee & En & Ex).
      assert (El : lead_e g' = lead_e g).
      { unfold lead_e. rewrite <- Ee, <- En, <- Ex. reflexivity. }
      rewrite El. rewrite <- Ee in Hm. unfold lead_e. rewrite Et. cbn [andb].
      destruct (Nat.ltb 1 (g_n g)); [apply msim_set_text; assumption|exact Hm].
    - destruct (msim_tag _ _ _ _ Hm) as (Tp & _).
      assert (Et' : is_text_like (g_e g') = false).
      { unfold is_text_like in *. rewrite <- Tp. exact Et. }
      unfold lead_e. rewrite Et, Et'. exact Hm.
  Qed.

  Lemma flush_sim g out g' out' : SI g out g' out' ->
    lsim junk msim (rev (flush g out)) (rev (flush g' out')) /\
    Forall (Qk pt) (flush g out) /\ Forall (Qk pt) (flush g' out').
  Proof.
    intros (HO & HQ & HQ' & HG).
    destruct g as [g0|], g' as [g0'|]; cbn [ogs] in HG; try contradiction.
    - destruct (leader_sim _ _ HG) as (ML & QL & QL').
      destruct HG as (G1 & G2 & Ek & Em & Hm & Q1 & Q2 & K1 & K2 & HP & QP1 & QP2 & HT).
      rewrite !flush_Some. split; [|split].
      + rewrite !rev_app_distr. cbn [rev]. apply lsim_app; [|exact HP].
        apply lsim_app; [exact HO|]. apply ls_cons; [exact ML|apply ls_nil].
      + apply Forall_app. split; [exact QP1|]. constructor; assumption.
      + apply Forall_app. split; [exact QP2|]. constructor; assumption.
    - rewrite !flush_None. auto.
  Qed.

  Lemma gs_fresh e eks e' eks' key :
    msim (AE e eks) (AE e' eks') -> Qk pt (AE e eks) -> Qk pt (AE e' eks') ->
    elem_key v e eks = Ok key -> elem_key v e' eks' = Ok key ->
    gs (fresh_g key e eks) (fresh_g key e' eks').
  Proof.
    intros M Q Q' K K'. destruct (msim_tag _ _ _ _ M) as (Tp & _).
    unfold gs, LE. cbn [fresh_g g_key g_merge g_e g_kids g_n g_texts g_pending rev].
    split; [eapply ginv_fresh; eauto|]. split; [eapply ginv_fresh; eauto|].
    split; [reflexivity|]. split; [unfold is_mergeable; rewrite Tp; reflexivity|].
    split; [exact M|]. split; [exact Q|]. split; [exact Q'|]. split; [exact K|]. split; [exact K'|].
    split; [apply ls_nil|]. split; [constructor|]. split; [constructor|].
    intro Et. rewrite (msim_same_e _ _ _ _ M (text_not_run e Et)). auto.
  Qed.

  Lemma gs_join g0 g0' e eks e' eks' key :
    gs g0 g0' -> msim (AE e eks) (AE e' eks') -> Qk pt (AE e eks) -> Qk pt (AE e' eks') ->
    elem_key v e eks = Ok key -> elem_key v e' eks' = Ok key ->
    ekey_eqb (g_key g0) key = true -> g_merge g0 = true ->
    gs (join_g g0 e eks) (join_g g0' e' eks').
  Proof.
    intros (G1 & G2 & Ek & Em & Hm & Q1 & Q2 & K1 & K2 & HP & QP1 & QP2 & HT) M Q Q' K K' Eq Mg.
    assert (Eq' : ekey_eqb (g_key g0') key = true) by (rewrite <- Ek; exact Eq).
    assert (Mg' : g_merge g0' = true) by (rewrite <- Em; exact Mg).
    destruct (leader_join_Q pt v g0 e eks key G1 (Qk_leader _ Q1) Q K Eq) as [QJ ST].
    destruct (leader_join_Q pt v g0' e' eks' key G2 (Qk_leader _ Q2) Q' K' Eq') as [QJ' ST'].
    apply ekey_eqb_eq in Eq. apply ekey_eqb_eq in Eq'.
    assert (Hmg : is_mergeable (g_e g0) = true).
    { destruct G1 as (H1 & _). rewrite <- H1. exact Mg. }
    assert (Hmg' : is_mergeable (g_e g0') = true).
    { destruct G2 as (H1 & _). rewrite <- H1. exact Mg'. }
    rewrite Eq in K1. rewrite Eq' in K2.
    unfold gs, LE. cbn [join_g g_key g_merge g_e g_kids g_n g_texts g_pending].
    split; [apply ginv_join; assumption|]. split; [apply ginv_join; assumption|].
    split; [exact Ek|]. split; [reflexivity|].
    split; [eapply msim_join; eauto|].
    split; [exact (Qk_unleader _ QJ)|]. split; [exact (Qk_unleader _ QJ')|].
    split; [rewrite Eq; apply (key_join v (g_e g0) (g_kids g0) e eks key); assumption|].
    split; [rewrite Eq'; apply (key_join v (g_e g0') (g_kids g0') e' eks' key); assumption|].
    split; [exact HP|]. split; [exact QP1|]. split; [exact QP2|].
    intro Et. destruct (HT Et) as (Ee & En & Ex). rewrite En, Ex.
    assert (Ete : is_text_like e = true).
    { destruct ST as (Sp & _). unfold is_text_like in *. rewrite Sp. exact Et. }
    rewrite (msim_same_e _ _ _ _ M (text_not_run e Ete)). auto.
  Qed.

  Lemma gs_pend g0 g0' a b :
    gs g0 g0' -> msim a b -> has_content a = false -> Qk pt a -> Qk pt b ->
    gs (pend_g a g0) (pend_g b g0').
  Proof.
    intros (G1 & G2 & Ek & Em & Hm & Q1 & Q2 & K1 & K2 & HP & QP1 & QP2 & HT) M Hc Q Q'.
    assert (Hc' : has_content b = false) by (rewrite <- (msim_hc a b M); exact Hc).
    unfold gs, LE. cbn [pend_g g_key g_merge g_e g_kids g_n g_texts g_pending rev].
    split; [apply ginv_pend; assumption|]. split; [apply ginv_pend; assumption|].
    repeat (split; [assumption|]).
    split; [apply lsim_app; [exact HP|apply ls_cons; [exact M|apply ls_nil]]|].
    split; [constructor; assumption|]. split; [constructor; assumption|]. exact HT.
  Qed.

  Lemma gs_pend_l g0 g0' j : gs g0 g0' -> junk j -> Qk pt j -> gs (pend_g j g0) g0'.
  Proof.
    intros (G1 & G2 & Ek & Em & Hm & Q1 & Q2 & K1 & K2 & HP & QP1 & QP2 & HT) Hj Q.
    unfold gs, LE. cbn [pend_g g_key g_merge g_e g_kids g_n g_texts g_pending rev].
    split; [apply ginv_pend; [exact (proj2 Hj)|assumption]|].
    repeat (split; [assumption|]).
    split.
    { rewrite <- (app_nil_r (rev (g_pending g0'))).
      apply lsim_app; [exact HP|apply ls_l; [exact Hj|apply ls_nil]]. }
    split; [constructor; assumption|]. split; [assumption|]. exact HT.
  Qed.

  Lemma gs_pend_r g0 g0' j : gs g0 g0' -> junk j -> Qk pt j -> gs g0 (pend_g j g0').
  Proof.
    intros (G1 & G2 & Ek & Em & Hm & Q1 & Q2 & K1 & K2 & HP & QP1 & QP2 & HT) Hj Q.
    unfold gs, LE. cbn [pend_g g_key g_merge g_e g_kids g_n g_texts g_pending rev].
    split; [assumption|]. split; [apply ginv_pend; [exact (proj2 Hj)|assumption]|].
    repeat (split; [assumption|]).
    split.
    { rewrite <- (app_nil_r (rev (g_pending g0))).
      apply lsim_app; [exact HP|apply ls_r; [exact Hj|apply ls_nil]]. }
    split; [assumption|]. split; [constructor; assumption|]. exact HT.
  Qed.

  (* ---- one step of the sibling pass ---- *)
  Definition rsim {A} (Q : A -> A -> Prop) (r r' : res A) : Prop :=
    match r, r' with
    | Ok a, Ok b => Q a b
    | Err x, Err y => x = y
    | _, _ => False
    end.

  Definition SIst (st st' : option group * list anode) : Prop :=
    SI (fst st) (snd st) (fst st') (snd st').

  Lemma step_pair a b g out g' out' :
    msim a b -> Qk pt a -> Qk pt b -> SI g out g' out' ->
    rsim SIst (step v a g out) (step v b g' out').
  Proof.
    intros M Q Q' HSI. pose proof (flush_sim _ _ _ _ HSI) as (FS & FQ & FQ').
    destruct HSI as (HO & HQ & HQ' & HG).
    unfold step. rewrite <- (msim_hc a b M).
    destruct (has_content a) eqn:Hc; cbn [negb].
    - destruct a as [e eks|tl]; [|discriminate Hc].
      destruct b as [e' eks'|tl']; [|apply msim_AX_r in M; discriminate M].
      rewrite <- (msim_key _ _ _ _ M).
      destruct (elem_key v e eks) as [key|x] eqn:K; cbn [bind rsim]; [|reflexivity].
      pose proof (msim_key _ _ _ _ M) as K'. rewrite K in K'. symmetry in K'.
      destruct g as [g0|], g' as [g0'|]; cbn [ogs] in HG; try contradiction.
      + pose proof HG as (_ & _ & Ek & Em & _). rewrite <- Ek, <- Em.
        destruct (ekey_eqb (g_key g0) key && g_merge g0)%bool eqn:Ec; cbn [rsim].
        * apply andb_true_iff in Ec. destruct Ec as [Ec1 Ec2].
          unfold SIst, SI. cbn [fst snd ogs]. repeat (split; [assumption|]).
          eapply gs_join; eauto.
        * unfold SIst, SI. cbn [fst snd ogs]. repeat (split; [assumption|]).
          apply gs_fresh; assumption.
      + unfold SIst, SI. cbn [rsim fst snd ogs]. repeat (split; [assumption|]).
        apply gs_fresh; assumption.
    - destruct g as [g0|], g' as [g0'|]; cbn [ogs] in HG; try contradiction; cbn [rsim].
      + unfold SIst, SI. cbn [fst snd ogs]. repeat (split; [assumption|]).
        apply gs_pend; assumption.
      + unfold SIst, SI. cbn [fst snd ogs rev].
        split; [apply lsim_app; [exact HO|apply ls_cons; [exact M|apply ls_nil]]|].
        split; [constructor; assumption|]. split; [constructor; assumption|]. exact I.
  Qed.

  Lemma step_junk_l j g out g' out' :
    junk j -> Qk pt j -> SI g out g' out' ->
    exists st, step v j g out = Ok st /\ SI (fst st) (snd st) g' out'.
  Proof.
    intros Hj Q (HO & HQ & HQ' & HG). unfold step. rewrite (proj2 Hj). cbn [negb].
    destruct g as [g0|], g' as [g0'|]; cbn [ogs] in HG; try contradiction.
    - eexists. split; [reflexivity|]. unfold SI. cbn [fst snd ogs].
      repeat (split; [assumption|]). apply gs_pend_l; assumption.
    - eexists. split; [reflexivity|]. unfold SI. cbn [fst snd ogs rev].
      split.
      { rewrite <- (app_nil_r (rev out')).
        apply lsim_app; [exact HO|apply ls_l; [exact Hj|apply ls_nil]]. }
      split; [constructor; assumption|]. split; [assumption|]. exact I.
  Qed.

  Lemma step_junk_r j g out g' out' :
    junk j -> Qk pt j -> SI g out g' out' ->
    exists st, step v j g' out' = Ok st /\ SI g out (fst st) (snd st).
  Proof.
    intros Hj Q (HO & HQ & HQ' & HG). unfold step. rewrite (proj2 Hj). cbn [negb].
    destruct g as [g0|], g' as [g0'|]; cbn [ogs] in HG; try contradiction.
    - eexists. split; [reflexivity|]. unfold SI. cbn [fst snd ogs].
      repeat (split; [assumption|]). apply gs_pend_r; assumption.
    - eexists. split; [reflexivity|]. unfold SI. cbn [fst snd ogs rev].
      split.
      { rewrite <- (app_nil_r (rev out)).
        apply lsim_app; [exact HO|apply ls_r; [exact Hj|apply ls_nil]]. }
      split; [assumption|]. split; [constructor; assumption|]. exact I.
  Qed.

  Definition LQ (a b : list anode) : Prop :=
    lsim junk msim a b /\ Forall (Qk pt) a /\ Forall (Qk pt) b.

  Lemma key_same_name e1 c1 e2 c2 K :
    elem_key v e1 c1 = Ok K -> elem_key v e2 c2 = Ok K ->
    e_uri e2 = e_uri e1 /\ e_local e2 = e_local e1.
  Proof.
    intros H1 H2. apply elem_key_name in H1. apply elem_key_name in H2.
    rewrite H1 in H2. injection H2 as -> ->. auto.
  Qed.

  Lemma Qk_fused t1 d1 t2 d2 :
    e_uri t2 = e_uri t1 -> e_local t2 = e_local t1 ->
    Qk pt (AE t1 d1) -> Qk pt (AE t2 d2) -> Qk pt (AE (fused t1 t2) (d1 ++ d2)).
  Proof.
    intros Hu Hl Q1 Q2.
    apply (Qk_retag t1 (fused t1 t2)); try reflexivity.
    exact (Qk_join_runs pt t1 d1 t2 d2 Hu Hl Q1 Q2).
  Qed.

  Lemma junk_nc_Forall mid : Forall junk mid -> Forall nc mid.
  Proof. intro H. eapply Forall_impl; [|exact H]. intros k Hk. exact (proj2 Hk). Qed.

  Lemma go_sim : forall l l', bsim msim l l' ->
    Forall (Qk pt) l -> Forall (Qk pt) l' ->
    forall g out g' out', SI g out g' out' ->
      rsim LQ (merge_sibs_go v l g out) (merge_sibs_go v l' g' out').
  Proof.
    intros l l' HS.
    induction HS as [|a b l l' Hab _ IHl|j l l' Hj _ IHl|j l l' Hj _ IHl
                    |e1 c1 mid e2 c2 l l2 Hs Hm _ IHl|t1 d1 mid t2 d2 l l2 Hs Hm _ IHl];
      intros HQ HQ' g out g' out' HSI.
    - cbn [merge_sibs_go rsim]. destruct (flush_sim _ _ _ _ HSI) as (A & B & C).
      split; [exact A|]. split; apply Forall_rev; assumption.
    - inversion HQ as [|? ? Qa Ql]; subst. inversion HQ' as [|? ? Qb Ql']; subst.
      rewrite !go_step. pose proof (step_pair a b g out g' out' Hab Qa Qb HSI) as HP.
      destruct (step v a g out) as [st|x], (step v b g' out') as [st'|y]; cbn [rsim] in HP;
        try contradiction; cbn [bind].
      + apply IHl; assumption.
      + exact HP.
    - inversion HQ as [|? ? Qa Ql]; subst.
      rewrite go_step. destruct (step_junk_l j g out g' out' Hj Qa HSI) as (st & Es & HSI').
      rewrite Es. cbn [bind]. apply IHl; assumption.
    - inversion HQ' as [|? ? Qb Ql']; subst.
      rewrite (go_step v j l'). destruct (step_junk_r j g out g' out' Hj Qb HSI) as (st & Es & HSI').
      rewrite Es. cbn [bind]. apply IHl; assumption.
    - destruct Hs as (Hm1 & Ht1 & Hc2 & K & K1 & K2 & K12).
      inversion HQ as [|? ? Q1 HQr]; subst. apply Forall_app in HQr. destruct HQr as [QM HQr].
      inversion HQr as [|? ? Q2 QL]; subst.
      destruct (key_same_name _ _ _ _ _ K1 K2) as [Hu Hl].
      rewrite (go_two v e1 e2 c1 c2 mid K Hm1 Ht1 Hc2 K1 K2 K12 (junk_nc_Forall mid Hm) l g out).
      + apply IHl; try assumption.
        constructor; [exact (Qk_join_runs pt e1 c1 e2 c2 Hu Hl Q1 Q2)|].
        apply Forall_app. split; assumption.
      + intros g0 -> Ec. destruct HSI as (_ & _ & _ & HG).
        destruct g' as [g0'|]; cbn [ogs] in HG; [|contradiction].
        destruct HG as (G1 & _ & _ & _ & _ & QL0 & _).
        apply andb_true_iff in Ec. destruct Ec as [Ek _].
        pose proof (same_ptag pt v g0 e1 c1 K G1 (proj1 (Qk_leader _ QL0)) (proj1 Q1) K1 Ek) as Hp.
        unfold is_text_like in *. rewrite <- Hp. exact Ht1.
    - destruct Hs as (Ht1 & Hc2 & K & K1 & K2).
      inversion HQ as [|? ? Q1 HQr]; subst. apply Forall_app in HQr. destruct HQr as [QM HQr].
      inversion HQr as [|? ? Q2 QL]; subst.
      destruct (key_same_name _ _ _ _ _ K1 K2) as [Hu Hl].
      rewrite (go_two_text v t1 t2 d1 d2 mid K Ht1 Hc2 K1 K2 (junk_nc_Forall mid Hm) l g out).
      + apply IHl; try assumption.
        constructor; [exact (Qk_fused t1 d1 t2 d2 Hu Hl Q1 Q2)|].
        apply Forall_app. split; assumption.
      + intros g0 ->. destruct HSI as (_ & _ & _ & HG).
        destruct g' as [g0'|]; cbn [ogs] in HG; [|contradiction].
        destruct HG as (G1 & _). destruct G1 as (_ & _ & Hn & _). exact Hn.
  Qed.

  Lemma merge_sibs_sim l l' :
    bsim msim l l' -> Forall (Qk pt) l -> Forall (Qk pt) l' ->
    rsim LQ (merge_sibs v l) (merge_sibs v l').
  Proof.
    intros HS HQ HQ'. unfold merge_sibs. apply go_sim; try assumption.
    unfold SI. cbn [rev ogs]. split; [apply ls_nil|]. split; [constructor|]. split; [constructor|exact I].
  Qed.

  (* ---- merge_fuel ---- *)
  Lemma merge_fuel_nc_ok : forall f t, has_content t = false -> hle f t -> merge_fuel f v t = Ok t.
  Proof.
    induction f as [|f IH]; intros t Hn Hh.
    - unfold hle in Hh. pose proof (height_pos t). lia.
    - destruct t as [e ks|tl]; [|reflexivity]. cbn [merge_fuel].
      rewrite has_content_AE in Hn. apply orb_false_iff in Hn. destruct Hn as [_ Hn].
      apply existsb_false_Forall in Hn. apply hle_AE in Hh.
      unfold merge_sibs. rewrite (go_all_nc v ks [] Hn). cbn [rev app bind].
      assert (E : mapM (merge_fuel f v) ks = Ok ks).
      { induction Hn as [|k r Hk _ IHr]; [reflexivity|]. inversion Hh; subst.
        cbn [mapM]. rewrite (IH k Hk) by assumption. cbn [bind]. rewrite IHr by assumption.
        reflexivity. }
      rewrite E. reflexivity.
  Qed.

  (* children with a given name, when these carry no content, survive merging
     unchanged and in place *)
  Lemma named_filter_merge u l f ks ks1 ks2 :
    Forall (fun k => is_elem_named u l k = true -> nc k) ks ->
    merge_sibs v ks = Ok ks1 -> mapM (merge_fuel f v) ks1 = Ok ks2 ->
    filter (is_elem_named u l) ks2 = filter (is_elem_named u l) ks.
  Proof.
    intros Hw E1 E2.
    pose proof (merge_sibs_filter_named v u l ks ks1 Hw E1) as F1.
    assert (Hw1 : Forall (fun k => is_elem_named u l k = true -> nc k) ks1).
    { apply Forall_forall. intros a Ha Hn.
      assert (Hin : In a (filter (is_elem_named u l) ks1)) by (apply filter_In; auto).
      rewrite F1 in Hin. apply filter_In in Hin. destruct Hin as [Hin _].
      rewrite Forall_forall in Hw. exact (Hw a Hin Hn). }
    apply mapM_Forall2 in E2.
    rewrite (mapM_filter_named v f u l ks1 ks2 E2 Hw1). exact F1.
  Qed.

  Lemma ppr_ok_Forall e ks : ppr_ok e ks = true ->
    Forall (fun k => is_elem_named (e_wuri e) s_pPr k = true -> nc k) ks.
  Proof.
    intro H. unfold ppr_ok in H. rewrite forallb_forall in H.
    apply Forall_forall. intros k Hk Hn. specialize (H k Hk). rewrite Hn in H.
    cbn [negb orb] in H. apply negb_true_iff in H. exact H.
  Qed.

  Lemma pr_child_stable f e ks ks1 ks2 :
    Qk pt (AE e ks) -> merge_sibs v ks = Ok ks1 -> mapM (merge_fuel f v) ks1 = Ok ks2 ->
    pr_child e ks2 = pr_child e ks.
  Proof.
    intros Q E1 E2. apply Qk_AE in Q. destruct Q as (_ & Hw & _). apply pr_ok_Forall in Hw.
    unfold pr_child, find_child, find_children.
    rewrite (named_filter_merge _ _ f ks ks1 ks2 Hw E1 E2). reflexivity.
  Qed.

  Lemma par_obs_dep e ks ks' :
    pr_child e ks = pr_child e ks' ->
    filter (is_elem_named (e_wuri e) s_pPr) ks = filter (is_elem_named (e_wuri e) s_pPr) ks' ->
    par_obs e ks = par_obs e ks'.
  Proof.
    intros H1 H2. unfold par_obs. f_equal.
    - unfold get_pStyle, gather_Pr. unfold pr_child in H1. rewrite H1. reflexivity.
    - unfold get_bullet_fmt, first_child_w, children_w.
      destruct (e_wuri e) as [u|]; [|reflexivity].
      unfold find_children. rewrite H2. reflexivity.
  Qed.

  Lemma par_obs_stable f e ks ks1 ks2 :
    Qk pt (AE e ks) -> ppr_ok e ks = true ->
    merge_sibs v ks = Ok ks1 -> mapM (merge_fuel f v) ks1 = Ok ks2 ->
    par_obs e ks2 = par_obs e ks.
  Proof.
    intros Q Hp E1 E2. apply par_obs_dep.
    - eapply pr_child_stable; eauto.
    - exact (named_filter_merge _ _ f ks ks1 ks2 (ppr_ok_Forall e ks Hp) E1 E2).
  Qed.

  Definition WS := lsim winert (wsim v).

  Lemma mapM_sim f f' :
    (forall t t', msim t t' -> Qk pt t -> Qk pt t' -> hle f t -> hle f' t' ->
                  rsim (wsim v) (merge_fuel f v t) (merge_fuel f' v t')) ->
    forall l l', lsim junk msim l l' ->
      Forall (Qk pt) l -> Forall (Qk pt) l' -> Forall (hle f) l -> Forall (hle f') l' ->
      rsim WS (mapM (merge_fuel f v) l) (mapM (merge_fuel f' v) l').
  Proof.
    intros IH l l' HS.
    induction HS as [|a b l l' Hab _ IHl|j l l' Hj _ IHl|j l l' Hj _ IHl]; intros HQ HQ' HH HH'.
    - cbn [mapM rsim]. apply ls_nil.
    - inversion HQ; subst. inversion HQ'; subst. inversion HH; subst. inversion HH'; subst.
      cbn [mapM].
      match goal with Qa : Qk pt a, Qb : Qk pt b, Ha : hle f a, Hb : hle f' b |- _ =>
        pose proof (IH a b Hab Qa Qb Ha Hb) as E end.
      destruct (merge_fuel f v a) as [a2|x], (merge_fuel f' v b) as [b2|y]; cbn [rsim] in E;
        try contradiction; cbn [bind]; [|exact E].
      match goal with IHl : _ -> _ -> _ -> _ -> rsim WS _ _ |- _ =>
        assert (R : rsim WS (mapM (merge_fuel f v) l) (mapM (merge_fuel f' v) l'))
          by (apply IHl; assumption) end.
      destruct (mapM (merge_fuel f v) l) as [l2|x], (mapM (merge_fuel f' v) l') as [l2'|y];
        cbn [rsim] in R; try contradiction; cbn [bind rsim]; [|exact R].
      apply ls_cons; assumption.
    - inversion HQ; subst. inversion HH; subst. cbn [mapM].
      rewrite (merge_fuel_nc_ok f j (proj2 Hj)) by assumption. cbn [bind].
      assert (R : rsim WS (mapM (merge_fuel f v) l) (mapM (merge_fuel f' v) l'))
        by (apply IHl; assumption).
      destruct (mapM (merge_fuel f v) l) as [l2|x], (mapM (merge_fuel f' v) l') as [l2'|y];
        cbn [rsim] in R; try contradiction; cbn [bind rsim]; [|exact R].
      apply ls_l; [exact (proj1 Hj)|exact R].
    - inversion HQ'; subst. inversion HH'; subst. cbn [mapM].
      rewrite (merge_fuel_nc_ok f' j (proj2 Hj)) by assumption. cbn [bind].
      assert (R : rsim WS (mapM (merge_fuel f v) l) (mapM (merge_fuel f' v) l'))
        by (apply IHl; assumption).
      destruct (mapM (merge_fuel f v) l) as [l2|x], (mapM (merge_fuel f' v) l') as [l2'|y];
        cbn [rsim] in R; try contradiction; cbn [bind rsim]; [|exact R].
      apply ls_r; [exact (proj1 Hj)|exact R].
  Qed.

  (* merging merge-similar trees gives walk-similar trees (or the same error) *)
  Theorem merge_sim : forall f t f' t',
    msim t t' -> Qk pt t -> Qk pt t' -> hle f t -> hle f' t' ->
    rsim (wsim v) (merge_fuel f v t) (merge_fuel f' v t').
  Proof.
    induction f as [|f IH]; intros t f' t' M Q Q' Hh Hh'.
    - unfold hle in Hh. pose proof (height_pos t). lia.
    - destruct f' as [|f']; [unfold hle in Hh'; pose proof (height_pos t'); lia|].
      destruct t as [e ks|tl].
      2:{ rewrite (msim_AX_l _ _ M). cbn [merge_fuel rsim]. apply ws_refl. }
      destruct t' as [e' ks'|tl']; [|apply msim_AX_r in M; discriminate M].
      destruct (msim_inv _ _ _ _ M) as [HS C].
      destruct C as [[<- <-]|C].
      { rewrite (merge_fuel_indep v (S f) (S f') (AE e ks) Hh Hh').
        destruct (merge_fuel (S f') v (AE e ks)); cbn [rsim]; [apply ws_refl|reflexivity]. }
      cbn [merge_fuel].
      pose proof (proj1 (Qk_AE pt e ks) Q) as (_ & _ & Qks).
      pose proof (proj1 (Qk_AE pt e' ks') Q') as (_ & _ & Qks').
      pose proof (merge_sibs_sim ks ks' HS Qks Qks') as HM.
      destruct (merge_sibs v ks) as [ks1|x] eqn:E1, (merge_sibs v ks') as [ks1'|y] eqn:E1';
        cbn [rsim] in HM; try contradiction; cbn [bind]; [|exact HM].
      destruct HM as (HS1 & Q1 & Q1').
      apply hle_AE in Hh. apply hle_AE in Hh'.
      pose proof (merge_sibs_height v f ks ks1 Hh E1) as H1.
      pose proof (merge_sibs_height v f' ks' ks1' Hh' E1') as H1'.
      pose proof (mapM_sim f f' (fun a b => IH a f' b) ks1 ks1' HS1 Q1 Q1' H1 H1') as HMM.
      destruct (mapM (merge_fuel f v) ks1) as [ks2|x] eqn:E2,
               (mapM (merge_fuel f' v) ks1') as [ks2'|y] eqn:E2';
        cbn [rsim] in HMM; try contradiction; cbn [bind rsim]; [|exact HMM].
      destruct C as [[P Hf]|[<- [Hk Hp]]].
      + destruct P as (P1 & P2 & P3 & P4 & _).
        apply ws_run; try assumption.
        rewrite (run_fmt_dep e ks2 ks _ (pr_child_stable f e ks ks1 ks2 Q E1 E2)).
        rewrite (run_fmt_dep e' ks2' ks' _ (pr_child_stable f' e' ks' ks1' ks2' Q' E1' E2')).
        exact Hf.
      + apply ws_kids; [exact Hk| |exact HMM].
        split; intro EP.
        * destruct (proj1 Hp EP) as (O1 & O2 & O3).
          rewrite (par_obs_stable f e ks ks1 ks2 Q O1 E1 E2).
          rewrite (par_obs_stable f' e ks' ks1' ks2' Q' O2 E1' E2'). exact O3.
        * apply gather_Pr_dep.
          rewrite (pr_child_stable f e ks ks1 ks2 Q E1 E2).
          rewrite (pr_child_stable f' e ks' ks1' ks2' Q' E1' E2'). exact (proj2 Hp EP).
  Qed.

  (* the whole extraction *)
  Theorem msim_extract : forall t t',
    msim t t' -> Qk pt t -> Qk pt t' -> fr (extract v t) = fr (extract v t').
  Proof.
    intros t t' M Q Q'. unfold extract, merge_elems.
    pose proof (merge_sim (S (height t)) t (S (height t')) t' M Q Q') as H.
    assert (H1 : hle (S (height t)) t) by (unfold hle; lia).
    assert (H2 : hle (S (height t')) t') by (unfold hle; lia).
    specialize (H H1 H2).
    destruct (merge_fuel (S (height t)) v t) as [a|x], (merge_fuel (S (height t')) v t') as [b|y];
      cbn [rsim] in H; try contradiction; cbn [bind].
    - unfold collect_from.
      apply fr_bind_resp; [apply (wsim_walk v a b H); reflexivity|].
      intros s s' E. apply finish_resp. exact E.
    - rewrite H. reflexivity.
  Qed.
End MergeSim.

(* ================================================================== *)
(* PART 4 — the headline: a run split in two                            *)
(* ================================================================== *)
Definition junkb (t : anode) : bool := inert t && negb (has_content t).

Lemma junkb_junk t : junkb t = true -> junk t.
Proof.
  unfold junkb, junk. intro H. apply andb_true_iff in H. destruct H as [H1 H2].
  apply negb_true_iff in H2. auto.
Qed.

Lemma junkb_Forall l : forallb junkb l = true -> Forall junk l.
Proof.
  intro H. apply Forall_forall. intros k Hk. apply junkb_junk.
  rewrite forallb_forall in H. exact (H k Hk).
Qed.

Lemma lsim_junk_app_l J R mid l l' : Forall J mid -> lsim J R l l' -> lsim J R (mid ++ l) l'.
Proof. intros H HS. induction H; cbn [app]; [exact HS|apply ls_l; assumption]. Qed.

Lemma filter_skip {A} (f : A -> bool) a x b :
  f x = false -> filter f (a ++ x :: b) = filter f (a ++ b).
Proof. intro H. rewrite !filter_app. cbn [filter]. rewrite H. reflexivity. Qed.

Lemma filter_skip_all {A} (f : A -> bool) a mid b :
  forallb (fun k => negb (f k)) mid = true -> filter f (a ++ mid ++ b) = filter f (a ++ b).
Proof.
  intro H. rewrite !filter_app. f_equal.
  assert (E : filter f mid = []).
  { induction mid as [|k r IH]; [reflexivity|].
    cbn [forallb] in H. apply andb_true_iff in H. destruct H as [H1 H2].
    apply negb_true_iff in H1. cbn [filter]. rewrite H1. apply IH, H2. }
  rewrite E. reflexivity.
Qed.

(* the extraction with any sufficient fuel *)
Lemma extract_fuel v f t : hle f t ->
  extract v t = (t' <- merge_fuel f v t ;; collect_from v [] t').
Proof.
  intro H. unfold extract, merge_elems.
  rewrite (merge_fuel_indep v (S (height t)) f t); [reflexivity|lia|exact H].
Qed.

(* the extraction of an element depends on its children through merge_sibs *)
Lemma extract_sibs v e ks ks' :
  merge_sibs v ks = merge_sibs v ks' -> extract v (AE e ks) = extract v (AE e ks').
Proof.
  intro H.
  rewrite (extract_fuel v (S (Nat.max (height (AE e ks)) (height (AE e ks')))) (AE e ks))
    by (unfold hle; lia).
  rewrite (extract_fuel v (S (Nat.max (height (AE e ks)) (height (AE e ks')))) (AE e ks'))
    by (unfold hle; lia).
  cbn [merge_fuel]. rewrite H. reflexivity.
Qed.

(* a run element without relationship id *)
Definition run_plain (v : env) (e : einfo) : bool :=
  str_eqb (e_ptag e) tag_RUN && match tgt_of v e with None => true | Some _ => false end.
(* k is what gather_Pr takes for the properties of e when it comes first *)
Definition is_pr_of (e : einfo) (k : anode) : bool :=
  is_elem_named (e_uri e) (e_local e ++ s_Pr) k.
(* k is not taken for the properties of the paragraph ep *)
Definition not_ppr (ep : einfo) (k : anode) : bool :=
  negb (is_elem_named (e_uri ep) (e_local ep ++ s_Pr) k)
  && negb (is_elem_named (e_wuri ep) s_pPr k).

Lemma run_plain_spec v e : run_plain v e = true -> e_ptag e = tag_RUN /\ tgt_of v e = None.
Proof.
  unfold run_plain. intro H. apply andb_true_iff in H. destruct H as [H1 H2].
  apply BulletsFacts.str_eqb_eq in H1. destruct (tgt_of v e); [discriminate H2|auto].
Qed.


Lemma par_cond_of_filters ep P P' :
  filter (is_elem_named (e_uri ep) (e_local ep ++ s_Pr)) P
  = filter (is_elem_named (e_uri ep) (e_local ep ++ s_Pr)) P' ->
  filter (is_elem_named (e_wuri ep) s_pPr) P = filter (is_elem_named (e_wuri ep) s_pPr) P' ->
  ppr_ok ep P = true -> ppr_ok ep P' = true -> par_cond ep P P'.
Proof.
  intros F1 F2 O1 O2.
  assert (E : pr_child ep P = pr_child ep P').
  { unfold pr_child, find_child, find_children. rewrite F1. reflexivity. }
  split; intros _; [|exact E].
  split; [exact O1|]. split; [exact O2|]. apply par_obs_dep; [exact E|exact F2].
Qed.

Section Split.
  Variables (pt : aname -> str) (v : env).
  Hypothesis Hrels : rels_ok v.

  Variables (ep : einfo) (A B : list anode).
  Variables (e e1 e2 : einfo) (pr pr1 pr2 : anode) (k1 k2 mid : list anode) (f : list str).

  Let par_unsplit : anode := AE ep (A ++ AE e (pr :: k1 ++ k2) :: B).
  Let par_split : anode := AE ep (A ++ AE e1 (pr1 :: k1) :: mid ++ AE e2 (pr2 :: k2) :: B).
  Let par_mid : anode := AE ep (A ++ AE e1 ((pr1 :: k1) ++ (pr2 :: k2)) :: mid ++ B).

  (* the enclosing element: a paragraph (or any element whose handlers do not
     read its children), whose own w:pPr children are not confused with the
     runs or the inserted siblings *)
  Hypothesis Hep : kids_tag (e_ptag ep) = true.
  Hypothesis Hppr : ppr_ok ep (A ++ B) = true.
  Hypothesis Hnp_run : not_ppr ep (AE e []) = true.
  Hypothesis Hnp_mid : forallb (not_ppr ep) mid = true.
  (* the three run elements: tag w:r, no relationship id, one Clark name *)
  Hypothesis Hr : run_plain v e = true.
  Hypothesis Hr1 : run_plain v e1 = true.
  Hypothesis Hr2 : run_plain v e2 = true.
  Hypothesis Hu1 : e_uri e1 = e_uri e.
  Hypothesis Hl1 : e_local e1 = e_local e.
  Hypothesis Hu2 : e_uri e2 = e_uri e.
  Hypothesis Hl2 : e_local e2 = e_local e.
  (* their properties: inert, without content, with the same recognised
     formatting under env_x2h v *)
  Hypothesis Hp : is_pr_of e pr = true.
  Hypothesis Hp1 : is_pr_of e1 pr1 = true.
  Hypothesis Hp2 : is_pr_of e2 pr2 = true.
  Hypothesis Hj : junkb pr = true.
  Hypothesis Hj1 : junkb pr1 = true.
  Hypothesis Hj2 : junkb pr2 = true.
  Hypothesis Hf : get_run_formatting e [pr] (env_x2h v) = Ok f.
  Hypothesis Hf1 : get_run_formatting e1 [pr1] (env_x2h v) = Ok f.
  Hypothesis Hf2 : get_run_formatting e2 [pr2] (env_x2h v) = Ok f.
  (* what is inserted between the two runs *)
  Hypothesis Hmid : forallb junkb mid = true.
  (* prefixes are used consistently and <tag>Pr children carry no content *)
  Hypothesis Wp_s : wf_ptag pt par_split = true.
  Hypothesis Wr_s : wf_pr par_split = true.
  Hypothesis Wp_u : wf_ptag pt par_unsplit = true.
  Hypothesis Wr_u : wf_pr par_unsplit = true.

  Let key : ekey := ((e_uri e, e_local e), [], f).

  Lemma pr_child_first x c r : is_pr_of x c = true -> pr_child x (c :: r) = Some c.
  Proof.
    intro H. unfold pr_child, is_pr_of in *. rewrite find_child_cons, H. reflexivity.
  Qed.

  Lemma fmt_first x c r : is_pr_of x c = true ->
    get_run_formatting x (c :: r) (env_x2h v) = get_run_formatting x [c] (env_x2h v).
  Proof.
    intro H. apply run_fmt_dep. rewrite !pr_child_first by exact H. reflexivity.
  Qed.

  Lemma key_first x c r : run_plain v x = true -> is_pr_of x c = true ->
    get_run_formatting x [c] (env_x2h v) = Ok f ->
    elem_key v x (c :: r) = Ok ((e_uri x, e_local x), [], f).
  Proof.
    intros Hx Hc Hfx. destruct (run_plain_spec v x Hx) as [Ht Hn].
    rewrite run_key by assumption. rewrite fmt_first, Hfx by exact Hc. reflexivity.
  Qed.

  Lemma split_Qk_kids :
    Forall (Qk pt) (A ++ AE e1 (pr1 :: k1) :: mid ++ AE e2 (pr2 :: k2) :: B).
  Proof. exact (proj2 (proj2 (proj1 (Qk_AE pt _ _) (conj Wp_s Wr_s)))). Qed.

  Lemma split_merge_step :
    merge_sibs v (A ++ AE e1 (pr1 :: k1) :: mid ++ AE e2 (pr2 :: k2) :: B)
    = merge_sibs v (A ++ AE e1 ((pr1 :: k1) ++ (pr2 :: k2)) :: mid ++ B).
  Proof.
    destruct (run_plain_spec v e1 Hr1) as [T1 N1]. destruct (run_plain_spec v e2 Hr2) as [T2 N2].
    apply (merge_two_runs v A e1 (pr1 :: k1) mid e2 (pr2 :: k2) B key).
    - apply run_mergeable, T1.
    - apply run_not_text, T1.
    - apply mergeable_has_content, run_mergeable, T2.
    - unfold key. rewrite <- Hu1, <- Hl1. apply key_first; assumption.
    - unfold key. rewrite <- Hu2, <- Hl2. apply key_first; assumption.
    - unfold key. rewrite <- Hu1, <- Hl1. cbn [app]. apply key_first; assumption.
    - eapply Forall_impl; [|exact (junkb_Forall mid Hmid)]. intros k Hk. exact (proj2 Hk).
    - apply (no_text_clash_wf pt A e1 (pr1 :: k1)); [apply run_not_text, T1|].
      pose proof split_Qk_kids as HQ. apply Forall_app in HQ. destruct HQ as [HA HR].
      inversion HR as [|? ? H1 _]; subst.
      apply Forall_app. split; [|constructor; [exact (proj1 H1)|constructor]].
      eapply Forall_impl; [|exact HA]. intros a Ha. exact (proj1 Ha).
  Qed.

  Lemma named_run u l x ks ks' :
    e_uri x = e_uri e -> e_local x = e_local e ->
    is_elem_named u l (AE x ks) = is_elem_named u l (AE e ks').
  Proof. intros H1 H2. unfold is_elem_named. rewrite H1, H2. reflexivity. Qed.

  Lemma mid_Qk : Qk pt par_mid.
  Proof.
    pose proof (proj1 (Qk_AE pt _ _) (conj Wp_s Wr_s)) as (Hpt & Hok & HF).
    destruct (run_plain_spec v e1 Hr1) as [T1 N1].
    apply Qk_AE. split; [exact Hpt|]. split.
    - unfold pr_ok in *. rewrite forallb_app in *. cbn [forallb] in *.
      rewrite forallb_app in *. cbn [forallb] in *.
      apply andb_true_iff in Hok. destruct Hok as [OA Hok].
      apply andb_true_iff in Hok. destruct Hok as [O1 Hok].
      apply andb_true_iff in Hok. destruct Hok as [OM Hok].
      apply andb_true_iff in Hok. destruct Hok as [O2 OB].
      rewrite OA, OM, OB.
      rewrite (mergeable_has_content e1 (pr1 :: k1) (run_mergeable e1 T1)) in O1.
      rewrite (mergeable_has_content e1 ((pr1 :: k1) ++ pr2 :: k2) (run_mergeable e1 T1)).
      cbn [is_elem_named] in O1 |- *. rewrite O1. reflexivity.
    - apply Forall_app in HF. destruct HF as [FA HF].
      inversion HF as [|? ? Q1 HF']; subst.
      apply Forall_app in HF'. destruct HF' as [FM HF'].
      inversion HF' as [|? ? Q2 FB]; subst.
      apply Forall_app. split; [exact FA|]. constructor.
      + apply (Qk_join_runs pt e1 (pr1 :: k1) e2 (pr2 :: k2)); try assumption; congruence.
      + apply Forall_app. split; assumption.
  Qed.

  Lemma mid_msim : msim v par_mid par_unsplit.
  Proof.
    destruct (run_plain_spec v e Hr) as [T N]. destruct (run_plain_spec v e1 Hr1) as [T1 N1].
    pose proof Hnp_run as Hnp. unfold not_ppr in Hnp. apply andb_true_iff in Hnp.
    destruct Hnp as [NP1 NP2].
    apply negb_true_iff in NP1. apply negb_true_iff in NP2.
    assert (M1 : forallb (fun k => negb (is_elem_named (e_uri ep) (e_local ep ++ s_Pr) k)) mid = true
                 /\ forallb (fun k => negb (is_elem_named (e_wuri ep) s_pPr k)) mid = true).
    { pose proof Hnp_mid as Hm. clear - Hm. induction mid as [|k r IH]; [split; reflexivity|].
      cbn [forallb] in *. apply andb_true_iff in Hm. destruct Hm as [H1 H2].
      unfold not_ppr in H1. apply andb_true_iff in H1. destruct H1 as [H1a H1b].
      destruct (IH H2) as [I1 I2]. rewrite H1a, H1b, I1, I2. split; reflexivity. }
    destruct M1 as [M1 M2].
    apply ms_kids; [exact Hep| |].
    - pose proof Hppr as Hppr'.
      unfold ppr_ok in Hppr'. rewrite forallb_app in Hppr'. apply andb_true_iff in Hppr'.
      destruct Hppr' as [PA PB].
      apply par_cond_of_filters.
      + rewrite (filter_skip _ A (AE e1 _) (mid ++ B))
          by (rewrite (named_run _ _ e1 _ [] Hu1 Hl1); exact NP1).
        rewrite (filter_skip_all _ A mid B) by exact M1.
        rewrite (filter_skip _ A (AE e _) B)
          by (rewrite (named_run _ _ e _ [] eq_refl eq_refl); exact NP1).
        reflexivity.
      + rewrite (filter_skip _ A (AE e1 _) (mid ++ B))
          by (rewrite (named_run _ _ e1 _ [] Hu1 Hl1); exact NP2).
        rewrite (filter_skip_all _ A mid B) by exact M2.
        rewrite (filter_skip _ A (AE e _) B)
          by (rewrite (named_run _ _ e _ [] eq_refl eq_refl); exact NP2).
        reflexivity.
      + unfold ppr_ok. rewrite forallb_app. cbn [forallb]. rewrite forallb_app, PA, PB.
        rewrite (named_run _ _ e1 _ [] Hu1 Hl1), NP2. cbn [negb orb andb]. rewrite andb_true_r.
        apply forallb_forall. intros k Hk. rewrite forallb_forall in M2. rewrite (M2 k Hk). reflexivity.
      + unfold ppr_ok. rewrite forallb_app. cbn [forallb]. rewrite PA, PB.
        rewrite (named_run _ _ e _ [] eq_refl eq_refl), NP2. reflexivity.
    - apply lsim_bsim. apply lsim_app; [apply lsim_refl; apply ms_refl|].
      apply ls_cons.
      + apply ms_run.
        * repeat split; assumption.
        * cbn [app]. rewrite (fmt_first e1 pr1 _ Hp1), Hf1, (fmt_first e pr _ Hp), Hf. reflexivity.
        * cbn [app]. apply lsim_bsim.
          apply ls_l; [apply junkb_junk, Hj1|]. apply ls_r; [apply junkb_junk, Hj|].
          apply lsim_app; [apply lsim_refl; apply ms_refl|].
          apply ls_l; [apply junkb_junk, Hj2|]. apply lsim_refl; apply ms_refl.
      + apply lsim_junk_app_l; [apply junkb_Forall, Hmid|]. apply lsim_refl; apply ms_refl.
  Qed.

  (* 3. THE HEADLINE: the split paragraph and the unsplit paragraph are
     extracted alike — same runs (one run string for the whole stretch), same
     style, lineage and list position *)
  Theorem split_run_invisible : fr (extract v par_split) = fr (extract v par_unsplit).
  Proof.
    unfold par_split. rewrite (extract_sibs v ep _ _ split_merge_step).
    apply (msim_extract pt v Hrels); [exact mid_msim|exact mid_Qk|exact (conj Wp_u Wr_u)].
  Qed.
End Split.

(* corollary at the level of run strings *)
Lemma fr_eq_run_toks r1 r2 : fr r1 = fr r2 ->
  (s <- r1 ;; tree_par_toks (c_tree s)) = (s <- r2 ;; tree_par_toks (c_tree s)).
Proof.
  intro H. apply bind_fr_out; [exact H|]. intros a b E. apply tree_par_toks_resp, E.
Qed.

(* with html off every run has the empty formatting (when its properties can
   be read at all) *)
Lemma format_off pr : format_Pr_into_html pr [] = Ok [].
Proof.
  unfold format_Pr_into_html.
  assert (E : forall d, foldM (fun d kv => match dict_get (fst kv) (@nil (str * hformatter)) with
                                           | None => Ok d
                                           | Some hf =>
                                               if is_off (snd kv) then Ok d else
                                               s <- eval_fexpr (hf_expr hf) (fst kv) (ostr (snd kv)) ;;
                                               Ok (cp_add (hf_container hf, hf_property hf) s d)
                                           end) pr d = Ok d).
  { induction pr as [|kv r IH]; intro d; [reflexivity|]. cbn [foldM dict_get bind]. apply IH. }
  rewrite E. reflexivity.
Qed.

Lemma fmt_html_off e ks d :
  gather_Pr e ks = Ok d -> get_run_formatting e ks [] = Ok [].
Proof. intro H. unfold get_run_formatting. rewrite H. cbn [bind]. apply format_off. Qed.

(* ================================================================== *)
(* PART 5 — the general statement, hyperlinks, text elements            *)
(* ================================================================== *)
(* THE GENERAL STATEMENT.  [msim v t t'] says that t' is obtained from t by
   any number of the following, anywhere in the tree — below runs and below
   every element whose handlers do not read its children (kids_tag: all but
   m:oMath and the form fields; for w:p / w:tc provided the inserted siblings
   are not mistaken for its w:pPr / w:tcPr: par_cond):
     - joining two sibling runs / hyperlinks with the same key, separated by
       inert content-free siblings, into one (bs_split), likewise two text
       elements (bs_fuse);
     - dropping or inserting inert content-free siblings (bs_l, bs_r);
     - replacing a run element by another run element with the same Clark
       name and the same recognised formatting (ms_run).
   Such trees are extracted alike. *)
Theorem split_anywhere_invisible : forall pt v t t',
  rels_ok v -> msim v t t' ->
  wf_ptag pt t = true -> wf_pr t = true -> wf_ptag pt t' = true -> wf_pr t' = true ->
  fr (extract v t) = fr (extract v t').
Proof.
  intros pt v t t' Hrels M W1 W2 W1' W2'.
  exact (msim_extract pt v Hrels t t' M (conj W1 W2) (conj W1' W2')).
Qed.

Lemma named_same u l x y ks ks' :
  e_uri x = e_uri y -> e_local x = e_local y ->
  is_elem_named u l (AE x ks) = is_elem_named u l (AE y ks').
Proof. intros H1 H2. unfold is_elem_named. rewrite H1, H2. reflexivity. Qed.

Lemma not_ppr_spec ep k : not_ppr ep k = true ->
  is_elem_named (e_uri ep) (e_local ep ++ s_Pr) k = false /\
  is_elem_named (e_wuri ep) s_pPr k = false.
Proof.
  unfold not_ppr. intro H. apply andb_true_iff in H. destruct H as [H1 H2].
  apply negb_true_iff in H1. apply negb_true_iff in H2. auto.
Qed.

Lemma not_ppr_all ep mid : forallb (not_ppr ep) mid = true ->
  forallb (fun k => negb (is_elem_named (e_uri ep) (e_local ep ++ s_Pr) k)) mid = true /\
  forallb (fun k => negb (is_elem_named (e_wuri ep) s_pPr k)) mid = true.
Proof.
  induction mid as [|k r IH]; intro H; [split; reflexivity|].
  cbn [forallb] in *. apply andb_true_iff in H. destruct H as [H1 H2].
  destruct (not_ppr_spec ep k H1) as [A1 A2]. destruct (IH H2) as [I1 I2].
  rewrite A1, A2, I1, I2. split; reflexivity.
Qed.

Lemma ppr_ok_unnamed ep mid :
  forallb (fun k => negb (is_elem_named (e_wuri ep) s_pPr k)) mid = true -> ppr_ok ep mid = true.
Proof.
  intro H. unfold ppr_ok. apply forallb_forall. intros k Hk.
  rewrite forallb_forall in H. rewrite (H k Hk). reflexivity.
Qed.

Lemma ppr_ok_app ep a b : ppr_ok ep (a ++ b) = (ppr_ok ep a && ppr_ok ep b)%bool.
Proof. unfold ppr_ok. apply forallb_app. Qed.

Lemma ppr_ok_cons ep k r : ppr_ok ep (k :: r)
  = ((negb (is_elem_named (e_wuri ep) s_pPr k) || negb (has_content k)) && ppr_ok ep r)%bool.
Proof. reflexivity. Qed.

(* 4. a hyperlink split into two consecutive hyperlinks with the same key
   (same relationship target) *)
Theorem split_link_invisible : forall pt v, rels_ok v ->
  forall ep A B h h2 c1 c2 mid K,
  kids_tag (e_ptag ep) = true -> ppr_ok ep (A ++ B) = true ->
  not_ppr ep (AE h []) = true -> forallb (not_ppr ep) mid = true ->
  e_ptag h = tag_HYPERLINK -> e_ptag h2 = tag_HYPERLINK ->
  elem_key v h [] = Ok K -> elem_key v h2 [] = Ok K ->
  forallb junkb mid = true ->
  wf_ptag pt (AE ep (A ++ AE h c1 :: mid ++ AE h2 c2 :: B)) = true ->
  wf_pr (AE ep (A ++ AE h c1 :: mid ++ AE h2 c2 :: B)) = true ->
  wf_ptag pt (AE ep (A ++ AE h (c1 ++ c2) :: B)) = true ->
  wf_pr (AE ep (A ++ AE h (c1 ++ c2) :: B)) = true ->
  fr (extract v (AE ep (A ++ AE h c1 :: mid ++ AE h2 c2 :: B)))
  = fr (extract v (AE ep (A ++ AE h (c1 ++ c2) :: B))).
Proof.
  intros pt v Hrels ep A B h h2 c1 c2 mid K Hep Hppr Hnh Hnm Th Th2 Kh Kh2 Hmid W1 W2 W1' W2'.
  apply (split_anywhere_invisible pt v); try assumption.
  assert (Kt : kids_tag (e_ptag h) = true) by (rewrite Th; reflexivity).
  assert (Kt2 : kids_tag (e_ptag h2) = true) by (rewrite Th2; reflexivity).
  assert (Hm : is_mergeable h = true) by (unfold is_mergeable; rewrite Th; reflexivity).
  assert (Hm2 : is_mergeable h2 = true) by (unfold is_mergeable; rewrite Th2; reflexivity).
  destruct (key_same_name v _ _ _ _ _ Kh Kh2) as [Hu Hl].
  destruct (not_ppr_spec _ _ Hnh) as [N1 N2]. destruct (not_ppr_all _ _ Hnm) as [M1 M2].
  rewrite ppr_ok_app in Hppr. apply andb_true_iff in Hppr. destruct Hppr as [PA PB].
  apply ms_kids; [exact Hep| |].
  - apply par_cond_of_filters.
    + rewrite (filter_skip _ A (AE h c1)) by (rewrite (named_same _ _ h h c1 [] eq_refl eq_refl); exact N1).
      rewrite (filter_skip_all _ A mid) by exact M1.
      rewrite (filter_skip _ A (AE h2 c2)) by (rewrite (named_same _ _ h2 h c2 [] Hu Hl); exact N1).
      rewrite (filter_skip _ A (AE h (c1 ++ c2)))
        by (rewrite (named_same _ _ h h _ [] eq_refl eq_refl); exact N1).
      reflexivity.
    + rewrite (filter_skip _ A (AE h c1)) by (rewrite (named_same _ _ h h c1 [] eq_refl eq_refl); exact N2).
      rewrite (filter_skip_all _ A mid) by exact M2.
      rewrite (filter_skip _ A (AE h2 c2)) by (rewrite (named_same _ _ h2 h c2 [] Hu Hl); exact N2).
      rewrite (filter_skip _ A (AE h (c1 ++ c2)))
        by (rewrite (named_same _ _ h h _ [] eq_refl eq_refl); exact N2).
      reflexivity.
    + rewrite ppr_ok_app, ppr_ok_cons, ppr_ok_app, ppr_ok_cons, PA, PB, (ppr_ok_unnamed _ _ M2).
      rewrite (named_same _ _ h h c1 [] eq_refl eq_refl), N2.
      rewrite (named_same _ _ h2 h c2 [] Hu Hl), N2. reflexivity.
    + rewrite ppr_ok_app, ppr_ok_cons, PA, PB.
      rewrite (named_same _ _ h h _ [] eq_refl eq_refl), N2. reflexivity.
  - apply bsim_app; [apply bsim_refl; apply ms_refl|].
    apply bs_split.
    + split; [exact Hm|]. split; [unfold is_text_like; rewrite Th; reflexivity|].
      split; [apply mergeable_has_content, Hm2|].
      exists K. split; [rewrite (kids_key v h c1 [] Kt); exact Kh|].
      split; [rewrite (kids_key v h2 c2 [] Kt2); exact Kh2|].
      rewrite (kids_key v h (c1 ++ c2) [] Kt); exact Kh.
    + apply junkb_Forall, Hmid.
    + apply bs_cons; [apply ms_refl|]. apply lsim_bsim.
      apply lsim_junk_app_l; [apply junkb_Forall, Hmid|]. apply lsim_refl; apply ms_refl.
Qed.

Lemma find_child_skip_all u l mid r :
  forallb (fun k => negb (is_elem_named u l k)) mid = true ->
  find_child u l (mid ++ r) = find_child u l r.
Proof.
  intro H. unfold find_child, find_children.
  pose proof (filter_skip_all (is_elem_named u l) [] mid r H) as E. cbn [app] in E.
  rewrite E. reflexivity.
Qed.

(* two adjacent text elements of a run against the one fused text element:
   merge_elems fuses them, and the fused element carries the concatenated
   text (so a placeholder broken across w:t elements is one text) *)
Theorem text_fuse_invisible : forall pt v, rels_ok v ->
  forall ep A B e a b t1 d1 t2 d2 mid K,
  kids_tag (e_ptag ep) = true -> ppr_ok ep (A ++ B) = true -> not_ppr ep (AE e []) = true ->
  run_plain v e = true ->
  (pr_child e a <> None \/
   (is_pr_of e (AE t1 []) = false /\ forallb (fun k => negb (is_pr_of e k)) mid = true)) ->
  is_text_like t1 = true -> has_content (AE t2 d2) = true ->
  elem_key v t1 d1 = Ok K -> elem_key v t2 d2 = Ok K ->
  forallb junkb mid = true ->
  wf_ptag pt (AE ep (A ++ AE e (a ++ AE t1 d1 :: mid ++ AE t2 d2 :: b) :: B)) = true ->
  wf_pr (AE ep (A ++ AE e (a ++ AE t1 d1 :: mid ++ AE t2 d2 :: b) :: B)) = true ->
  wf_ptag pt (AE ep (A ++ AE e (a ++ AE (fused t1 t2) (d1 ++ d2) :: b) :: B)) = true ->
  wf_pr (AE ep (A ++ AE e (a ++ AE (fused t1 t2) (d1 ++ d2) :: b) :: B)) = true ->
  fr (extract v (AE ep (A ++ AE e (a ++ AE t1 d1 :: mid ++ AE t2 d2 :: b) :: B)))
  = fr (extract v (AE ep (A ++ AE e (a ++ AE (fused t1 t2) (d1 ++ d2) :: b) :: B))).
Proof.
  intros pt v Hrels ep A B e a b t1 d1 t2 d2 mid K Hep Hppr Hne Hr Hpr Ht1 Hc2 K1 K2 Hmid
         W1 W2 W1' W2'.
  apply (split_anywhere_invisible pt v); try assumption.
  destruct (run_plain_spec v e Hr) as [T N].
  destruct (key_same_name v _ _ _ _ _ K1 K2) as [Hu Hl].
  destruct (not_ppr_spec _ _ Hne) as [N1 N2].
  rewrite ppr_ok_app in Hppr. apply andb_true_iff in Hppr. destruct Hppr as [PA PB].
  apply ms_kids; [exact Hep| |].
  - apply par_cond_of_filters.
    + rewrite !(filter_skip _ A (AE e _))
        by (rewrite (named_same _ _ e e _ [] eq_refl eq_refl); exact N1). reflexivity.
    + rewrite !(filter_skip _ A (AE e _))
        by (rewrite (named_same _ _ e e _ [] eq_refl eq_refl); exact N2). reflexivity.
    + rewrite ppr_ok_app, ppr_ok_cons, PA, PB.
      rewrite (named_same _ _ e e _ [] eq_refl eq_refl), N2. reflexivity.
    + rewrite ppr_ok_app, ppr_ok_cons, PA, PB.
      rewrite (named_same _ _ e e _ [] eq_refl eq_refl), N2. reflexivity.
  - apply bsim_app; [apply bsim_refl; apply ms_refl|].
    apply bs_cons; [|apply bsim_refl; apply ms_refl].
    apply ms_run.
    + repeat split; assumption.
    + apply run_fmt_dep. unfold pr_child in *. rewrite !find_child_app.
      destruct (find_child (e_uri e) (e_local e ++ s_Pr) a) as [x|]; [reflexivity|].
      destruct Hpr as [Hpr|[P1 PM]]; [congruence|]. unfold is_pr_of in P1, PM.
      rewrite !find_child_cons.
      rewrite (named_same _ _ t1 t1 d1 [] eq_refl eq_refl), P1.
      rewrite (find_child_skip_all _ _ mid _ PM), find_child_cons.
      rewrite (named_same _ _ t2 t1 d2 [] Hu Hl), P1.
      rewrite (named_same _ _ (fused t1 t2) t1 (d1 ++ d2) [] eq_refl eq_refl), P1. reflexivity.
    + apply bsim_app; [apply bsim_refl; apply ms_refl|].
      apply bs_fuse.
      * split; [exact Ht1|]. split; [exact Hc2|]. exists K. auto.
      * apply junkb_Forall, Hmid.
      * apply bs_cons; [apply ms_refl|]. apply lsim_bsim.
        apply lsim_junk_app_l; [apply junkb_Forall, Hmid|]. apply lsim_refl; apply ms_refl.
Qed.


(* the headline for a FrameFacts.simple_par (the enclosing element is a w:p
   whose children are inline), and at the level of run tokens *)
Corollary split_run_invisible_simple_par : forall pt v, rels_ok v ->
  forall ep A B e e1 e2 pr pr1 pr2 k1 k2 mid f,
  simple_par (AE ep (A ++ AE e (pr :: k1 ++ k2) :: B)) = true ->
  ppr_ok ep (A ++ B) = true -> not_ppr ep (AE e []) = true -> forallb (not_ppr ep) mid = true ->
  run_plain v e = true -> run_plain v e1 = true -> run_plain v e2 = true ->
  e_uri e1 = e_uri e -> e_local e1 = e_local e -> e_uri e2 = e_uri e -> e_local e2 = e_local e ->
  is_pr_of e pr = true -> is_pr_of e1 pr1 = true -> is_pr_of e2 pr2 = true ->
  junkb pr = true -> junkb pr1 = true -> junkb pr2 = true ->
  get_run_formatting e [pr] (env_x2h v) = Ok f ->
  get_run_formatting e1 [pr1] (env_x2h v) = Ok f ->
  get_run_formatting e2 [pr2] (env_x2h v) = Ok f ->
  forallb junkb mid = true ->
  wf_ptag pt (AE ep (A ++ AE e1 (pr1 :: k1) :: mid ++ AE e2 (pr2 :: k2) :: B)) = true ->
  wf_pr (AE ep (A ++ AE e1 (pr1 :: k1) :: mid ++ AE e2 (pr2 :: k2) :: B)) = true ->
  wf_ptag pt (AE ep (A ++ AE e (pr :: k1 ++ k2) :: B)) = true ->
  wf_pr (AE ep (A ++ AE e (pr :: k1 ++ k2) :: B)) = true ->
  fr (extract v (AE ep (A ++ AE e1 (pr1 :: k1) :: mid ++ AE e2 (pr2 :: k2) :: B)))
  = fr (extract v (AE ep (A ++ AE e (pr :: k1 ++ k2) :: B)))
  /\ (s <- extract v (AE ep (A ++ AE e1 (pr1 :: k1) :: mid ++ AE e2 (pr2 :: k2) :: B)) ;;
      tree_par_toks (c_tree s))
     = (s <- extract v (AE ep (A ++ AE e (pr :: k1 ++ k2) :: B)) ;; tree_par_toks (c_tree s)).
Proof.
  intros pt v Hrels ep A B e e1 e2 pr pr1 pr2 k1 k2 mid f Hsp.
  intros. cbn [simple_par] in Hsp. apply andb_true_iff in Hsp. destruct Hsp as [Hp _].
  apply BulletsFacts.str_eqb_eq in Hp.
  assert (Hk : kids_tag (e_ptag ep) = true) by (rewrite Hp; reflexivity).
  assert (E : fr (extract v (AE ep (A ++ AE e1 (pr1 :: k1) :: mid ++ AE e2 (pr2 :: k2) :: B)))
              = fr (extract v (AE ep (A ++ AE e (pr :: k1 ++ k2) :: B))))
    by (apply (split_run_invisible pt v Hrels ep A B e e1 e2 pr pr1 pr2 k1 k2 mid f); assumption).
  split; [exact E|apply fr_eq_run_toks, E].
Qed.

(* rels_ok as a boolean *)
Definition rels_okb (v : env) : bool :=
  forallb (fun kv => match snd kv with [] => false | _ :: _ => true end) (env_rels v).

Lemma rels_okb_ok v : rels_okb v = true -> rels_ok v.
Proof.
  unfold rels_okb, rels_ok. intros H k t. induction (env_rels v) as [|[k' t'] r IH]; [discriminate|].
  cbn [forallb snd] in H. apply andb_true_iff in H. destruct H as [H1 H2].
  cbn [dict_get]. destruct (str_eqb k k').
  - intro E. injection E as <-. intro Z. rewrite Z in H1. discriminate H1.
  - apply IH, H2.
Qed.

(* with html off the three formatting hypotheses of the headline only ask that
   the properties can be read *)
Corollary split_run_invisible_html_off : forall pt v, rels_ok v -> env_x2h v = [] ->
  forall ep A B e e1 e2 pr pr1 pr2 k1 k2 mid d d1 d2,
  kids_tag (e_ptag ep) = true ->
  ppr_ok ep (A ++ B) = true -> not_ppr ep (AE e []) = true -> forallb (not_ppr ep) mid = true ->
  run_plain v e = true -> run_plain v e1 = true -> run_plain v e2 = true ->
  e_uri e1 = e_uri e -> e_local e1 = e_local e -> e_uri e2 = e_uri e -> e_local e2 = e_local e ->
  is_pr_of e pr = true -> is_pr_of e1 pr1 = true -> is_pr_of e2 pr2 = true ->
  junkb pr = true -> junkb pr1 = true -> junkb pr2 = true ->
  gather_Pr e [pr] = Ok d -> gather_Pr e1 [pr1] = Ok d1 -> gather_Pr e2 [pr2] = Ok d2 ->
  forallb junkb mid = true ->
  wf_ptag pt (AE ep (A ++ AE e1 (pr1 :: k1) :: mid ++ AE e2 (pr2 :: k2) :: B)) = true ->
  wf_pr (AE ep (A ++ AE e1 (pr1 :: k1) :: mid ++ AE e2 (pr2 :: k2) :: B)) = true ->
  wf_ptag pt (AE ep (A ++ AE e (pr :: k1 ++ k2) :: B)) = true ->
  wf_pr (AE ep (A ++ AE e (pr :: k1 ++ k2) :: B)) = true ->
  fr (extract v (AE ep (A ++ AE e1 (pr1 :: k1) :: mid ++ AE e2 (pr2 :: k2) :: B)))
  = fr (extract v (AE ep (A ++ AE e (pr :: k1 ++ k2) :: B))).
Proof.
  intros pt v Hrels Hx ep A B e e1 e2 pr pr1 pr2 k1 k2 mid d d1 d2.
  intros. apply (split_run_invisible pt v Hrels ep A B e e1 e2 pr pr1 pr2 k1 k2 mid []);
    try assumption; rewrite Hx; eapply fmt_html_off; eassumption.
Qed.

(* ================================================================== *)
(* PART 6 — Examples                                                    *)
(* ================================================================== *)
Definition sx_e (l : str) (attrs : list (aname * str)) (tx : option str) : einfo :=
  {| e_ptag := [119; 58] ++ l; e_uri := Some [85]; e_local := l;
     e_wuri := Some [85]; e_ruri := Some [82]; e_attrs := attrs;
     e_text := tx; e_tail := Some [10; 32] |}.
Definition s_rsidR : str := [114; 115; 105; 100; 82].
Definition s_rPr : str := [114; 80; 114].
Definition s_proofErr : str := [112; 114; 111; 111; 102; 69; 114; 114].
(* <w:rPr><w:b/></w:rPr>, or <w:rPr><w:noProof/></w:rPr>: the same recognised formatting
   when bold = false is the empty one *)
Definition sx_rPr (bold : bool) (extra : bool) : anode :=
  AE (sx_e s_rPr [] None)
     ((if bold then [AE (sx_e [98] [] None) []] else [])
      ++ (if extra then [AE (sx_e [110; 111; 80; 114; 111; 111; 102] [] None) []] else [])).
Definition sx_t (s : str) : anode := AE (sx_e [116] [] (Some s)) [].
Definition sx_re (rsid : str) : einfo := sx_e [114] [((Some [85], s_rsidR), rsid)] (Some [10; 32; 32]).
Definition sx_pe : anode := AE (sx_e s_proofErr [((Some [85], s_type), [115])] None) [].
Definition sx_pp : einfo := sx_e [112] [] None.
Definition sx_plain : env := {| env_x2h := []; env_rels := []; env_dup := false; env_numtbl := [] |}.
Definition sx_html : env :=
  {| env_x2h := xml2html_table; env_rels := []; env_dup := false; env_numtbl := [] |}.
Definition sx_pt : aname -> str := fun n => [119; 58] ++ snd n.

Definition s_lb : str := [123; 123].                       (* {{ *)
Definition s_na : str := [110; 97].                        (* na *)
Definition s_me : str := [109; 101; 125; 125].             (* me}} *)
Definition s_name : str := s_lb ++ s_na ++ s_me.           (* {{name}} *)

(* <w:p><w:r rsidR=0><rPr/><w:t>{{name}}</w:t></w:r></w:p> *)
Definition ex_unsplit (b : bool) : anode :=
  AE sx_pp [AE (sx_re [48]) [sx_rPr b false; sx_t s_name]].
(* the placeholder broken over three runs with differing rsidR and rPr, a proofErr between *)
Definition ex_split3 (b : bool) : anode :=
  AE sx_pp [AE (sx_re [49]) [sx_rPr b true; sx_t s_lb]; sx_pe;
            AE (sx_re [50]) [sx_rPr b false; sx_t s_na]; sx_pe;
            AE (sx_re [51]) [sx_rPr b true; sx_t s_me]].

Definition run_strings (v : env) (t : anode) : res (list (list str)) :=
  s <- extract v t ;; ps <- pars_at 4%nat (c_tree s) ;; mapM (par_run_strings (html_on v)) ps.


Lemma sx_rels_ok v : env_rels v = [] -> rels_ok v.
Proof. intros H k t E. rewrite H in E. discriminate E. Qed.

(* by computation: the same extraction, and one run string for the placeholder *)
Example split3_computed_plain :
  fr (extract sx_plain (ex_split3 false)) = fr (extract sx_plain (ex_unsplit false))
  /\ run_strings sx_plain (ex_split3 false) = Ok [[s_name]]
  /\ run_strings sx_plain (ex_unsplit false) = Ok [[s_name]].
Proof. split; [|split]; vm_compute; reflexivity. Qed.

(* "<b>{{name}}</b>" *)
Example split3_computed_html :
  fr (extract sx_html (ex_split3 true)) = fr (extract sx_html (ex_unsplit true))
  /\ run_strings sx_html (ex_split3 true) = Ok [[[60; 98; 62] ++ s_name ++ [60; 47; 98; 62]]]
  /\ run_strings sx_html (ex_unsplit true) = Ok [[[60; 98; 62] ++ s_name ++ [60; 47; 98; 62]]].
Proof. split; [|split]; vm_compute; reflexivity. Qed.

(* the split does change the tree that is walked: an extra w:rPr stays inside the merged run *)
Example split3_merged_differs :
  merge_elems sx_html (ex_split3 true) <> merge_elems sx_html (ex_unsplit true).
Proof. intro H. vm_compute in H. discriminate H. Qed.

(* the headline theorem applied: a run split in two, under html with a bold run *)
Definition ex_unsplit2 (b : bool) : anode :=
  AE sx_pp [AE (sx_re [48]) (sx_rPr b false :: [sx_t s_lb] ++ [sx_t (s_na ++ s_me)])].
Definition ex_split2 (b : bool) : anode :=
  AE sx_pp ([] ++ AE (sx_re [49]) (sx_rPr b true :: [sx_t s_lb])
               :: [sx_pe] ++ AE (sx_re [50]) (sx_rPr b false :: [sx_t (s_na ++ s_me)]) :: []).

Example split2_by_theorem_html :
  fr (extract sx_html (ex_split2 true)) = fr (extract sx_html (ex_unsplit2 true)).
Proof.
  apply (split_run_invisible sx_pt sx_html (sx_rels_ok sx_html eq_refl) sx_pp [] []
           (sx_re [48]) (sx_re [49]) (sx_re [50])
           (sx_rPr true false) (sx_rPr true true) (sx_rPr true false)
           [sx_t s_lb] [sx_t (s_na ++ s_me)] [sx_pe] [[98]]);
    vm_compute; reflexivity.
Qed.

Example split2_by_theorem_plain :
  fr (extract sx_plain (ex_split2 false)) = fr (extract sx_plain (ex_unsplit2 false)).
Proof.
  apply (split_run_invisible sx_pt sx_plain (sx_rels_ok sx_plain eq_refl) sx_pp [] []
           (sx_re [48]) (sx_re [49]) (sx_re [50])
           (sx_rPr false false) (sx_rPr false true) (sx_rPr false false)
           [sx_t s_lb] [sx_t (s_na ++ s_me)] [sx_pe] []);
    vm_compute; reflexivity.
Qed.

(* the general theorem applied: three runs, proofErr between them, differing
   rsidR and rPr, against ONE run with ONE w:t *)
Ltac sx_junk := split; vm_compute; reflexivity.

Lemma split3_msim v b : env_rels v = [] ->
  get_run_formatting (sx_re [49]) [sx_rPr b true] (env_x2h v)
  = get_run_formatting (sx_re [48]) [sx_rPr b false] (env_x2h v) ->
  get_run_formatting (sx_re [50]) [sx_rPr b false] (env_x2h v)
  = get_run_formatting (sx_re [48]) [sx_rPr b false] (env_x2h v) ->
  get_run_formatting (sx_re [51]) [sx_rPr b true] (env_x2h v)
  = get_run_formatting (sx_re [48]) [sx_rPr b false] (env_x2h v) ->
  (exists f, get_run_formatting (sx_re [48]) [sx_rPr b false] (env_x2h v) = Ok f) ->
  msim v (ex_split3 b) (ex_unsplit b).
Proof.
  intros Hrel F1 F2 F3 [f F0].
  assert (TG : forall rs, tgt_of v (sx_re rs) = None) by (intro rs; reflexivity).
  assert (KEY : forall rs bb xx r, get_run_formatting (sx_re rs) [sx_rPr bb xx] (env_x2h v) = Ok f ->
            elem_key v (sx_re rs) (sx_rPr bb xx :: r) = Ok ((Some [85], [114]), [], f)).
  { intros rs bb xx r H. rewrite (run_key v (sx_re rs) _ eq_refl (TG rs)).
    rewrite (run_fmt_dep (sx_re rs) (sx_rPr bb xx :: r) [sx_rPr bb xx] _ eq_refl), H. reflexivity. }
  rewrite F0 in F1, F2, F3.
  unfold ex_split3, ex_unsplit.
  apply ms_kids; [reflexivity|split; intros _; [split; [|split]|]; vm_compute; reflexivity|].
  apply (bs_split v _ (sx_re [49]) [sx_rPr b true; sx_t s_lb] [sx_pe]
                  (sx_re [50]) [sx_rPr b false; sx_t s_na]
                  [sx_pe; AE (sx_re [51]) [sx_rPr b true; sx_t s_me]]).
  { split; [reflexivity|]. split; [reflexivity|]. split; [reflexivity|].
    eexists. split; [apply KEY, F1|]. split; [apply KEY, F2|]. cbn [app]. apply KEY, F1. }
  { constructor; [destruct b; sx_junk|constructor]. }
  apply (bs_split v _ (sx_re [49]) ([sx_rPr b true; sx_t s_lb] ++ [sx_rPr b false; sx_t s_na])
                  [sx_pe; sx_pe] (sx_re [51]) [sx_rPr b true; sx_t s_me] []).
  { split; [reflexivity|]. split; [reflexivity|]. split; [reflexivity|].
    eexists. split; [cbn [app]; apply KEY, F1|]. split; [apply KEY, F3|]. cbn [app]. apply KEY, F1. }
  { repeat constructor; vm_compute; reflexivity. }
  apply bs_cons; [|apply bs_l; [sx_junk|]; apply bs_l; [sx_junk|]; apply bs_nil].
  apply ms_run.
  { repeat split; reflexivity. }
  { cbn [app].
    rewrite (run_fmt_dep (sx_re [49]) _ [sx_rPr b true] (env_x2h v)) by reflexivity.
    rewrite (run_fmt_dep (sx_re [48]) _ [sx_rPr b false] (env_x2h v)) by reflexivity.
    rewrite F1, F0. reflexivity. }
  cbn [app].
  apply bs_l; [destruct b; sx_junk|]. apply bs_r; [destruct b; sx_junk|].
  apply (bs_fuse v _ (sx_e [116] [] (Some s_lb)) [] [sx_rPr b false]
                 (sx_e [116] [] (Some s_na)) [] [sx_rPr b true; sx_t s_me]).
  { split; [reflexivity|]. split; [reflexivity|]. eexists. split; reflexivity. }
  { constructor; [destruct b; sx_junk|constructor]. }
  apply (bs_fuse v _ (fused (sx_e [116] [] (Some s_lb)) (sx_e [116] [] (Some s_na))) ([] ++ [])
                 [sx_rPr b false; sx_rPr b true] (sx_e [116] [] (Some s_me)) [] []).
  { split; [reflexivity|]. split; [reflexivity|]. eexists. split; reflexivity. }
  { constructor; [destruct b; sx_junk|]. constructor; [destruct b; sx_junk|constructor]. }
  apply bs_cons; [apply ms_refl|].
  apply bs_l; [destruct b; sx_junk|]. apply bs_l; [destruct b; sx_junk|]. apply bs_nil.
Qed.

Example split3_by_theorem_html :
  fr (extract sx_html (ex_split3 true)) = fr (extract sx_html (ex_unsplit true)).
Proof.
  apply (split_anywhere_invisible sx_pt sx_html); try (vm_compute; reflexivity).
  - apply sx_rels_ok. reflexivity.
  - apply split3_msim; try reflexivity. eexists. vm_compute. reflexivity.
Qed.

Example split3_by_theorem_plain :
  fr (extract sx_plain (ex_split3 false)) = fr (extract sx_plain (ex_unsplit false)).
Proof.
  apply (split_anywhere_invisible sx_pt sx_plain); try (vm_compute; reflexivity).
  - apply sx_rels_ok. reflexivity.
  - apply split3_msim; try reflexivity. eexists. vm_compute. reflexivity.
Qed.


(* ... and anywhere in a document: the split paragraph inside a table cell of a
   body that also has an ordinary paragraph *)
Definition sx_el (l : str) (ks : list anode) : anode := AE (sx_e l [] None) ks.
Definition ex_doc (p : anode) : anode :=
  sx_el [98; 111; 100; 121]
    [AE sx_pp [AE (sx_re [52]) [sx_t [120]]];
     sx_el [116; 98; 108] [sx_el [116; 114] [sx_el [116; 99] [p]]]].

Ltac sx_no_cond :=
  split; (let H := fresh "H" in
          intro H; first [vm_compute in H; discriminate H | vm_compute; reflexivity]).

Example split3_in_table_by_theorem :
  fr (extract sx_html (ex_doc (ex_split3 true))) = fr (extract sx_html (ex_doc (ex_unsplit true)))
  /\ run_strings sx_html (ex_doc (ex_split3 true))
     = Ok [[[120]]; [[60; 98; 62] ++ s_name ++ [60; 47; 98; 62]]].
Proof.
  split; [|vm_compute; reflexivity].
  apply (split_anywhere_invisible sx_pt sx_html); try (vm_compute; reflexivity).
  - apply sx_rels_ok. reflexivity.
  - unfold ex_doc, sx_el.
    apply ms_kids; [reflexivity|sx_no_cond|].
    apply bs_cons; [apply ms_refl|]. apply bs_cons; [|apply bs_nil].
    apply ms_kids; [reflexivity|sx_no_cond|]. apply bs_cons; [|apply bs_nil].
    apply ms_kids; [reflexivity|sx_no_cond|]. apply bs_cons; [|apply bs_nil].
    apply ms_kids; [reflexivity|sx_no_cond|]. apply bs_cons; [|apply bs_nil].
    apply split3_msim; try reflexivity. eexists. vm_compute. reflexivity.
Qed.

(* the hypothesis "no relationship id on runs" (run_plain / run_pair) cannot be
   dropped from the general statement: with <w:r r:id="x"> runs (key = the
   relationship target, whatever the formatting), giving the first run an
   w:rPr that holds only an unrecognised property hides the w:rPr of the
   second run after the two are merged:  "<b>ab</b>"  becomes  "ab" *)
Definition cx_env_rid : env :=
  {| env_x2h := xml2html_table; env_rels := [([120], [84])]; env_dup := false; env_numtbl := [] |}.
Definition cx_re : einfo := sx_e [114] [((Some [82], s_id), [120])] None.

Lemma rid_run_counterexample :
  exists v ep e ks ks' rest,
    e_ptag e = tag_RUN /\ tgt_of v e <> None /\
    get_run_formatting e ks (env_x2h v) = get_run_formatting e ks' (env_x2h v) /\
    lsim junk eq ks ks' /\
    fr (extract v (AE ep (AE e ks :: rest))) <> fr (extract v (AE ep (AE e ks' :: rest))).
Proof.
  exists cx_env_rid, sx_pp, cx_re, [sx_t [97]], [sx_rPr false true; sx_t [97]],
         [AE cx_re [sx_rPr true false; sx_t [98]]].
  split; [reflexivity|]. split; [vm_compute; discriminate|]. split; [vm_compute; reflexivity|].
  split.
  - apply ls_r; [split; vm_compute; reflexivity|]. apply lsim_refl. reflexivity.
  - intro H. vm_compute in H. discriminate H.
Qed.

(* ==== ASSUMPTIONS ==== *)
Print Assumptions merge_two_runs.
Print Assumptions merge_two_texts.
Print Assumptions walk_path_indep.
Print Assumptions wsim_walk.
Print Assumptions extra_rPr_invisible.
Print Assumptions merge_sim.
Print Assumptions msim_extract.
Print Assumptions split_run_invisible.
Print Assumptions split_run_invisible_simple_par.
Print Assumptions split_run_invisible_html_off.
Print Assumptions rels_okb_ok.
Print Assumptions split_anywhere_invisible.
Print Assumptions split_link_invisible.
Print Assumptions text_fuse_invisible.
Print Assumptions fmt_html_off.
Print Assumptions split3_computed_plain.
Print Assumptions split3_computed_html.
Print Assumptions split3_merged_differs.
Print Assumptions split2_by_theorem_html.
Print Assumptions split2_by_theorem_plain.
Print Assumptions split3_by_theorem_html.
Print Assumptions split3_by_theorem_plain.
Print Assumptions split3_in_table_by_theorem.
Print Assumptions rid_run_counterexample.
