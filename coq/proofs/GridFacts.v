(* GridFacts.v — C04: tables come out n x m; merged cells are duplicated or
   blanked as configured.

   Part 1: what a single close_table_cell does to the tree (explicit formula).
   Part 2: the grid as a pure function of the cell descriptions; n x m; what
           sits in the columns covered by a merge.
   Part 3: folding the single step over a row reproduces the pure grid row. *)
From Coq Require Import List NArith ZArith Bool Arith Lia.
From D2P Require Import Str Err Xml TableTypes Tables Fmt NumFmt Bullets Merge Collector Walk.
From D2P Require Import ShapeFacts BulletsFacts.
Import ListNotations.
#[local] Open Scope nat_scope.

(* ================================================================== *)
(* Generic list facts                                                   *)
(* ================================================================== *)
Lemma nth_error_repeat_lt {A} (a : A) : forall m n, n < m -> nth_error (repeat a m) n = Some a.
Proof.
  induction m as [|m IH]; intros n H; [lia|].
  destruct n as [|n]; [reflexivity|]. cbn [repeat nth_error]. apply IH. lia.
Qed.

Lemma repeat_snoc_app {A} (a : A) : forall k l, repeat a k ++ a :: l = a :: repeat a k ++ l.
Proof.
  induction k as [|k IH]; intro l; [reflexivity|].
  cbn [repeat app]. rewrite IH. reflexivity.
Qed.

Lemma rev_repeat {A} (a : A) : forall k, rev (repeat a k) = repeat a k.
Proof.
  induction k as [|k IH]; [reflexivity|].
  cbn [repeat rev]. rewrite IH. change [a] with (repeat a 0 ++ [a]).
  rewrite app_assoc. rewrite app_nil_r. rewrite (repeat_snoc_app a k []).
  rewrite app_nil_r. reflexivity.
Qed.

Lemma py_nth_nat {A} (l : list A) (n : nat) : py_nth l (Z.of_nat n) = nth_error l n.
Proof.
  unfold py_nth. cbv zeta.
  destruct (Z.of_nat n <? 0)%Z eqn:E0; [apply Z.ltb_lt in E0; lia|].
  rewrite E0. cbn [orb].
  destruct (Z.of_nat (length l) <=? Z.of_nat n)%Z eqn:E1.
  - apply Z.leb_le in E1. symmetry. apply nth_error_None. lia.
  - rewrite Nat2Z.id. reflexivity.
Qed.

(* ================================================================== *)
(* copy_node                                                            *)
(* ================================================================== *)
Definition blank_cell : node := NL [NP new_empty_par].

Lemma copy_node_idem : forall n, copy_node (copy_node n) = copy_node n.
Proof.
  fix IH 1. intros [l|p].
  - cbn [copy_node]. f_equal. rewrite map_map.
    induction l as [|x l IHl]; [reflexivity|].
    cbn [map]. rewrite IH, IHl. reflexivity.
  - reflexivity.
Qed.

(* ================================================================== *)
(* PART 2 — the grid as a pure function                                 *)
(* ================================================================== *)
Record cellspec := { cs_span : nat; cs_cont : bool; cs_own : node }.

(* the extracted row (document order) given the extracted previous row
   (document order; None for the first row) *)
Fixpoint grid_row (dup : bool) (prev : option (list node)) (cells : list cellspec)
         (acc : list node) : list node :=
  match cells with
  | [] => acc
  | c :: r =>
      let own := cs_own c in
      let res := if (dup && cs_cont c)%bool then
                   match prev with
                   | Some p => match nth_error p (length acc) with
                               | Some src => copy_node src
                               | None => own
                               end
                   | None => own
                   end
                 else own in
      grid_row dup prev r
               (acc ++ res :: repeat (if dup then copy_node res else blank_cell) (cs_span c - 1))
  end.

Fixpoint grid (dup : bool) (prev : option (list node)) (rows : list (list cellspec))
  : list (list node) :=
  match rows with
  | [] => []
  | r :: rest => let out := grid_row dup prev r [] in out :: grid dup (Some out) rest
  end.

Definition row_width (r : list cellspec) : nat :=
  fold_right (fun c n => cs_span c + n) 0 r.

Definition spans_ok (cells : list cellspec) : Prop := Forall (fun c => 1 <= cs_span c) cells.

(* start column of each cell *)
Fixpoint start_cols (cells : list cellspec) (col : nat) : list (nat * cellspec) :=
  match cells with
  | [] => []
  | c :: r => (col, c) :: start_cols r (col + cs_span c)
  end.

(* the content of the first column of cell c starting at column j, and the
   columns the cell contributes *)
Definition cell_res (dup : bool) (prev : option (list node)) (j : nat) (c : cellspec) : node :=
  if (dup && cs_cont c)%bool then
    match prev with
    | Some p => match nth_error p j with Some src => copy_node src | None => cs_own c end
    | None => cs_own c
    end
  else cs_own c.
Definition filler (dup : bool) (res : node) : node := if dup then copy_node res else blank_cell.
Definition cell_block (dup : bool) (prev : option (list node)) (j : nat) (c : cellspec)
  : list node :=
  cell_res dup prev j c :: repeat (filler dup (cell_res dup prev j c)) (cs_span c - 1).

Lemma grid_row_cons dup prev c r acc :
  grid_row dup prev (c :: r) acc
  = grid_row dup prev r (acc ++ cell_block dup prev (length acc) c).
Proof. reflexivity. Qed.

Lemma cell_block_length dup prev j c :
  1 <= cs_span c -> length (cell_block dup prev j c) = cs_span c.
Proof. intro H. unfold cell_block. cbn [length]. rewrite repeat_length. lia. Qed.

Lemma cell_block_first dup prev j c :
  nth_error (cell_block dup prev j c) 0 = Some (cell_res dup prev j c).
Proof. reflexivity. Qed.

Lemma cell_block_rest dup prev j c k :
  1 <= k < cs_span c ->
  nth_error (cell_block dup prev j c) k = Some (filler dup (cell_res dup prev j c)).
Proof.
  intro H. unfold cell_block. destruct k as [|k]; [lia|].
  cbn [nth_error]. apply nth_error_repeat_lt. lia.
Qed.

Lemma grid_row_prefix dup prev : forall cells acc,
  exists tail, grid_row dup prev cells acc = acc ++ tail.
Proof.
  induction cells as [|c r IH]; intro acc.
  - exists []. cbn [grid_row]. rewrite app_nil_r. reflexivity.
  - rewrite grid_row_cons. destruct (IH (acc ++ cell_block dup prev (length acc) c)) as [t E].
    rewrite E. rewrite <- app_assoc. eexists. reflexivity.
Qed.

Lemma grid_row_length : forall dup prev cells acc,
  Forall (fun c => 1 <= cs_span c) cells ->
  length (grid_row dup prev cells acc) = length acc + row_width cells.
Proof.
  intros dup prev. induction cells as [|c r IH]; intros acc HF.
  - cbn [grid_row row_width fold_right]. lia.
  - rewrite grid_row_cons. inversion HF as [|? ? Hc Hr]; subst.
    rewrite (IH _ Hr). rewrite app_length, (cell_block_length _ _ _ _ Hc).
    unfold row_width. cbn [fold_right]. lia.
Qed.

Lemma grid_gen : forall dup rows prev W,
  Forall (fun r => Forall (fun c => 1 <= cs_span c) r /\ row_width r = W) rows ->
  length (grid dup prev rows) = length rows
  /\ Forall (fun out => length out = W) (grid dup prev rows).
Proof.
  intros dup. induction rows as [|r rest IH]; intros prev W HF.
  - split; [reflexivity|constructor].
  - inversion HF as [|? ? [Hr Hw] Hrest]; subst. cbn [grid length].
    destruct (IH (Some (grid_row dup prev r [])) (row_width r) Hrest) as [L F].
    split; [rewrite L; reflexivity|].
    constructor; [|exact F].
    rewrite (grid_row_length _ _ _ _ Hr). reflexivity.
Qed.

(* one row per source row, one cell per grid column *)
Theorem grid_n_by_m : forall dup rows W,
  Forall (fun r => Forall (fun c => 1 <= cs_span c) r /\ row_width r = W) rows ->
  length (grid dup None rows) = length rows
  /\ Forall (fun out => length out = W) (grid dup None rows).
Proof. intros dup rows W. apply grid_gen. Qed.

(* the columns of the cell c that starts at column j hold cell_block *)
Lemma grid_row_cell : forall dup prev cells acc j c,
  Forall (fun c => 1 <= cs_span c) cells ->
  In (j, c) (start_cols cells (length acc)) ->
  forall k, k < cs_span c ->
  nth_error (grid_row dup prev cells acc) (j + k) = nth_error (cell_block dup prev j c) k.
Proof.
  intros dup prev. induction cells as [|c0 r IH]; intros acc j c HF HI k Hk.
  - destruct HI.
  - rewrite grid_row_cons. inversion HF as [|? ? Hc Hr]; subst.
    cbn [start_cols] in HI. destruct HI as [E|HI].
    + injection E as Ej Ec. subst j c0.
      destruct (grid_row_prefix dup prev r (acc ++ cell_block dup prev (length acc) c))
        as [t ->].
      rewrite <- app_assoc. rewrite nth_error_app2 by lia.
      replace (length acc + k - length acc) with k by lia.
      apply nth_error_app1. rewrite cell_block_length by exact Hc. exact Hk.
    + apply IH; [exact Hr| |exact Hk].
      rewrite app_length, cell_block_length by exact Hc. exact HI.
Qed.

Lemma start_cols_span : forall cells n j c,
  Forall (fun c => 1 <= cs_span c) cells -> In (j, c) (start_cols cells n) -> 1 <= cs_span c.
Proof.
  induction cells as [|c0 r IH]; intros n j c HF HI.
  - destruct HI.
  - inversion HF as [|? ? H0 Hr]; subst. cbn [start_cols] in HI. destruct HI as [E|HI].
    + injection E as _ <-. exact H0.
    + exact (IH _ _ _ Hr HI).
Qed.

Lemma grid_row_cell0 : forall dup prev cells j c,
  Forall (fun c => 1 <= cs_span c) cells ->
  In (j, c) (start_cols cells 0) ->
  nth_error (grid_row dup prev cells []) j = Some (cell_res dup prev j c)
  /\ forall k, 1 <= k < cs_span c ->
       nth_error (grid_row dup prev cells []) (j + k) = Some (filler dup (cell_res dup prev j c)).
Proof.
  intros dup prev cells j c HF HI.
  pose proof (start_cols_span cells 0 j c HF HI) as Hc.
  split.
  - replace j with (j + 0) at 1 by lia.
    rewrite (grid_row_cell dup prev cells [] j c HF HI 0) by lia. reflexivity.
  - intros k Hk. rewrite (grid_row_cell dup prev cells [] j c HF HI k) by lia.
    apply cell_block_rest. exact Hk.
Qed.

Lemma cell_res_not_cont dup prev j c : cs_cont c = false -> cell_res dup prev j c = cs_own c.
Proof. intro H. unfold cell_res. rewrite H, andb_false_r. reflexivity. Qed.

Lemma cell_res_false prev j c : cell_res false prev j c = cs_own c.
Proof. reflexivity. Qed.

(* a row without merges is the list of its cells, whatever the setting *)
Theorem grid_unmerged_row : forall dup prev cells,
  Forall (fun c => cs_span c = 1 /\ cs_cont c = false) cells ->
  grid_row dup prev cells [] = map cs_own cells.
Proof.
  intros dup prev cells HF. change (map cs_own cells) with ([] ++ map cs_own cells).
  generalize (@nil node) as acc. induction HF as [|c r [Hs Hc] Hr IH]; intro acc.
  - cbn [grid_row map]. rewrite app_nil_r. reflexivity.
  - rewrite grid_row_cons, IH. unfold cell_block. rewrite (cell_res_not_cont _ _ _ _ Hc), Hs.
    cbn [Nat.sub repeat map]. rewrite <- app_assoc. reflexivity.
Qed.

(* the first column of a cell that is not a continuation holds the cell itself
   under both settings *)
Theorem grid_unmerged_agree : forall prev cells j c,
  Forall (fun c => 1 <= cs_span c) cells ->
  In (j, c) (start_cols cells 0) -> cs_cont c = false ->
  nth_error (grid_row true prev cells []) j = Some (cs_own c)
  /\ nth_error (grid_row false prev cells []) j = Some (cs_own c).
Proof.
  intros prev cells j c HF HI Hc.
  destruct (grid_row_cell0 true prev cells j c HF HI) as [A _].
  destruct (grid_row_cell0 false prev cells j c HF HI) as [B _].
  rewrite A, B, (cell_res_not_cont true prev j c Hc). split; reflexivity.
Qed.

(* duplicate_merged_cells = False: the cell, then blanks *)
Theorem grid_false_blanks : forall prev cells j c,
  Forall (fun c => 1 <= cs_span c) cells ->
  In (j, c) (start_cols cells 0) ->
  nth_error (grid_row false prev cells []) j = Some (cs_own c)
  /\ forall k, 1 <= k < cs_span c ->
       nth_error (grid_row false prev cells []) (j + k) = Some blank_cell.
Proof.
  intros prev cells j c HF HI. exact (grid_row_cell0 false prev cells j c HF HI).
Qed.

(* duplicate_merged_cells = True *)
Theorem grid_true_duplicates : forall prev cells j c,
  Forall (fun c => 1 <= cs_span c) cells ->
  In (j, c) (start_cols cells 0) ->
  (cs_cont c = false ->
     nth_error (grid_row true prev cells []) j = Some (cs_own c)
     /\ forall k, 1 <= k < cs_span c ->
          nth_error (grid_row true prev cells []) (j + k) = Some (copy_node (cs_own c)))
  /\ (cs_cont c = true -> forall p src, prev = Some p -> nth_error p j = Some src ->
        forall k, k < cs_span c ->
          nth_error (grid_row true prev cells []) (j + k) = Some (copy_node src)).
Proof.
  intros prev cells j c HF HI.
  destruct (grid_row_cell0 true prev cells j c HF HI) as [A B]. split.
  - intro Hc. rewrite (cell_res_not_cont true prev j c Hc) in A, B. split; [exact A|].
    intros k Hk. rewrite (B k Hk). reflexivity.
  - intros Hc p src Hp Hsrc k Hk.
    assert (R : cell_res true prev j c = copy_node src).
    { unfold cell_res. rewrite Hc, Hp, Hsrc. reflexivity. }
    rewrite R in A, B. destruct k as [|k].
    + rewrite Nat.add_0_r. exact A.
    + rewrite (B (S k)) by lia. unfold filler. rewrite copy_node_idem. reflexivity.
Qed.

(* a continuation cell without a usable cell above keeps its own content *)
Theorem grid_true_cont_fallback : forall prev cells j c,
  Forall (fun c => 1 <= cs_span c) cells ->
  In (j, c) (start_cols cells 0) ->
  (prev = None \/ exists p, prev = Some p /\ nth_error p j = None) ->
  nth_error (grid_row true prev cells []) j = Some (cs_own c).
Proof.
  intros prev cells j c HF HI Hp.
  destruct (grid_row_cell0 true prev cells j c HF HI) as [A _]. rewrite A. f_equal.
  unfold cell_res. destruct (true && cs_cont c)%bool; [|reflexivity].
  destruct Hp as [->|(p & -> & ->)]; reflexivity.
Qed.

(* ================================================================== *)
(* PART 1 — the single step close_table_cell, fully explicit            *)
(* ================================================================== *)
Definition span_of (pr : list (str * option str)) : res Z :=
  match dict_get s_gridSpan pr with
  | Some (Some g) => of_opt ValueError (int_of_str g)
  | _ => Ok 1%Z
  end.

(* the resolved content of the cell being closed *)
Definition resolved (dup cont : bool) (c : node) (cells prev_rows : list node) : node :=
  if (dup && cont)%bool then
    match prev_rows with
    | NL prev :: _ =>
        match py_nth (rev prev) (Z.of_nat (length cells)) with
        | Some src => copy_node src
        | None => c
        end
    | _ => c
    end
  else c.

(* the two phases of close_table_cell, named *)
Definition vmerge (ti ri : nat) (s : cst) : res cst :=
  sa <- set_caret (Some 3) None s ;;
  t <- of_opt IndexError (py_get (c_tree sa) ti) ;;
  rows <- as_list t ;;
  prev <- match rows with
          | _ :: p :: _ => as_list p
          | _ => Err IndexError
          end ;;
  cells <- get_row (c_tree sa) ti ri ;;
  let tc_idx := (Z.of_nat (length cells) - 1)%Z in
  match cells, py_nth (rev prev) tc_idx with
  | _ :: _, Some src =>
      root' <- upd_row (c_tree sa) ti ri
                 (fun cs => match cs with
                            | [] => Err IndexError
                            | _ :: r => Ok (copy_node src :: r)
                            end) ;;
      Ok (set_tree root' sa)
  | _, _ => Ok sa
  end.

(* one step of the horizontal loop (repaired _close_table_cell: an empty row gets a
   blank cell where this_tr[-1] used to raise IndexError) *)
Definition hstep (v : env) (cs : list node) : res (list node) :=
  if env_dup v then
    match cs with
    | [] => Ok (NL [NP new_empty_par] :: cs)
    | c :: _ => Ok (copy_node c :: cs)
    end
  else Ok (NL [NP new_empty_par] :: cs).

Definition hloop (v : env) (ti ri : nat) : nat -> cst -> res cst :=
  fix loop (n : nat) (s : cst) : res cst :=
    match n with
    | O => Ok s
    | S k =>
        sa <- set_caret (Some 3) None s ;;
        root' <- upd_row (c_tree sa) ti ri (hstep v) ;;
        loop k (set_tree root' sa)
    end.

(* close_table_cell in terms of the named phases, after its two early returns *)
Lemma close_table_cell_eq v e ks s :
  close_table_cell v e ks s =
  (pr <- gather_Pr e ks ;;
   match c_tree s with
   | [] => Ok s
   | t :: _ =>
   rows0 <- as_list t ;;
   match rows0 with
   | [] => Ok s
   | r :: _ =>
   _ <- as_list r ;;
   let ti := length (c_tree s) - 1 in
   let ri := length rows0 - 1 in
   s1 <- (if (env_dup v && is_continuation pr && Nat.ltb 1 (length rows0))%bool
          then vmerge ti ri s else Ok s) ;;
   span <- span_of pr ;;
   hloop v ti ri (Z.to_nat (span - 1)) s1
   end end).
Proof. reflexivity. Qed.

Lemma hloop_S v ti ri k s :
  hloop v ti ri (S k) s =
  (sa <- set_caret (Some 3) None s ;;
   root' <- upd_row (c_tree sa) ti ri (hstep v) ;;
   hloop v ti ri k (set_tree root' sa)).
Proof. reflexivity. Qed.

(* set_caret (Some 3) from depth 3 or 4 only moves the caret *)
Lemma set_caret3 : forall s, 3 <= c_depth s <= 4 ->
  exists s', set_caret (Some 3) None s = Ok s'
    /\ c_tree s' = c_tree s /\ c_depth s' = 3
    /\ c_open s' = c_open s /\ c_queued s' = c_queued s
    /\ c_ranges s' = c_ranges s /\ c_counters s' = c_counters s.
Proof.
  intros [t d lin o q r cn] H. cbn [c_depth] in H.
  destruct lin as [[[a b] c] e].
  assert (D : d = 3 \/ d = 4) by lia.
  destruct D; subst d; eexists; (split; [reflexivity|]); repeat split.
Qed.

Lemma py_get_last {A} (x : A) l : py_get (x :: l) (length l) = Some x.
Proof.
  unfold py_get. cbn [length].
  rewrite (proj2 (Nat.leb_gt (S (length l)) (length l))) by lia.
  replace (S (length l) - 1 - length l) with 0 by lia. reflexivity.
Qed.

Lemma py_upd_last {A} (x : A) l f :
  py_upd (x :: l) (length l) f = (y <- f x ;; Ok (y :: l)).
Proof.
  unfold py_upd. cbn [length].
  rewrite (proj2 (Nat.leb_gt (S (length l)) (length l))) by lia.
  replace (S (length l) - 1 - length l) with 0 by lia. reflexivity.
Qed.

Lemma upd_row_newest cs prev_rows old f :
  upd_row (NL (NL cs :: prev_rows) :: old) (length old) (length prev_rows) f
  = (c' <- f cs ;; Ok (NL (NL c' :: prev_rows) :: old)).
Proof.
  unfold upd_row. rewrite py_upd_last. cbn [as_list bind]. rewrite py_upd_last.
  cbn [as_list bind]. destruct (f cs); reflexivity.
Qed.

Lemma get_row_newest cs prev_rows old :
  get_row (NL (NL cs :: prev_rows) :: old) (length old) (length prev_rows) = Ok cs.
Proof.
  unfold get_row. rewrite py_get_last. cbn [of_opt bind as_list]. rewrite py_get_last.
  reflexivity.
Qed.

Definition same_side (s s' : cst) : Prop :=
  c_open s' = c_open s /\ c_queued s' = c_queued s /\ c_ranges s' = c_ranges s
  /\ c_counters s' = c_counters s.

Lemma same_side_refl s : same_side s s.
Proof. repeat split. Qed.
Lemma same_side_trans a b c : same_side a b -> same_side b c -> same_side a c.
Proof. unfold same_side. intros (A1 & A2 & A3 & A4) (B1 & B2 & B3 & B4). repeat split; congruence. Qed.

Lemma hloop_spec v prev_rows old : forall n s x rest,
  c_tree s = NL (NL (x :: rest) :: prev_rows) :: old -> 3 <= c_depth s <= 4 ->
  exists s', hloop v (length old) (length prev_rows) n s = Ok s'
    /\ c_tree s' = NL (NL (repeat (if env_dup v then copy_node x else blank_cell) n ++ x :: rest)
                          :: prev_rows) :: old
    /\ 3 <= c_depth s' <= 4 /\ same_side s s'.
Proof.
  induction n as [|k IH]; intros s x rest Ht Hd.
  - exists s. split; [reflexivity|]. split; [exact Ht|]. split; [exact Hd|apply same_side_refl].
  - rewrite hloop_S.
    destruct (set_caret3 s Hd) as (sa & E & Ta & Da & Oa & Qa & Ra & Ca).
    rewrite E. cbn [bind]. rewrite Ta, Ht, upd_row_newest.
    set (y := if env_dup v then copy_node x else blank_cell).
    assert (Hy : hstep v (x :: rest) = Ok (y :: x :: rest)).
    { unfold hstep, y, blank_cell. destruct (env_dup v); reflexivity. }
    rewrite Hy. cbn [bind].
    destruct (IH (set_tree (NL (NL (y :: x :: rest) :: prev_rows) :: old) sa) y (x :: rest))
      as (s' & E' & T' & D' & S').
    { reflexivity. }
    { cbn [set_tree c_depth]. lia. }
    exists s'. split; [exact E'|]. split.
    { rewrite T'. do 3 f_equal.
      assert (Hyy : (if env_dup v then copy_node y else blank_cell) = y).
      { unfold y. destruct (env_dup v); [apply copy_node_idem|reflexivity]. }
      rewrite Hyy. cbn [repeat]. rewrite repeat_snoc_app. reflexivity. }
    split; [exact D'|].
    eapply same_side_trans; [|exact S'].
    unfold same_side. cbn [set_tree c_open c_queued c_ranges c_counters]. auto.
Qed.

Lemma vmerge_spec old : forall s c cells prev rest_rows,
  c_tree s = NL (NL (c :: cells) :: NL prev :: rest_rows) :: old -> 3 <= c_depth s <= 4 ->
  exists s', vmerge (length old) (length (NL prev :: rest_rows)) s = Ok s'
    /\ c_tree s' = NL (NL (match py_nth (rev prev) (Z.of_nat (length cells)) with
                           | Some src => copy_node src
                           | None => c
                           end :: cells) :: NL prev :: rest_rows) :: old
    /\ 3 <= c_depth s' <= 4 /\ same_side s s'.
Proof.
  intros s c cells prev rest_rows Ht Hd. unfold vmerge.
  destruct (set_caret3 s Hd) as (sa & E & Ta & Da & Oa & Qa & Ra & Ca).
  rewrite E. cbn [bind]. rewrite Ta, Ht, py_get_last. cbn [of_opt bind as_list].
  rewrite get_row_newest. cbn [bind]. cbv zeta.
  replace (Z.of_nat (length (c :: cells)) - 1)%Z with (Z.of_nat (length cells))
    by (cbn [length]; lia).
  destruct (py_nth (rev prev) (Z.of_nat (length cells))) as [src|].
  - rewrite upd_row_newest. cbn [bind]. eexists. split; [reflexivity|].
    split; [reflexivity|]. split; [cbn [set_tree c_depth]; lia|].
    unfold same_side. cbn [set_tree c_open c_queued c_ranges c_counters]. auto.
  - exists sa. split; [reflexivity|]. split; [rewrite Ta; exact Ht|].
    split; [lia|]. unfold same_side. auto.
Qed.

Lemma tree_ok_prev_NL r0 p rest old :
  tree_ok (NL (r0 :: p :: rest) :: old) -> exists prev, p = NL prev.
Proof.
  intro H. destruct p as [prev|q]; [exists prev; reflexivity|]. exfalso.
  unfold tree_ok in H. cbn [forallb] in H. apply andb_true_iff in H. destruct H as [H _].
  rewrite shapeb_NL in H. apply andb_true_iff in H. destruct H as [_ H].
  cbn [forallb] in H. apply andb_true_iff in H. destruct H as [_ H].
  apply andb_true_iff in H. destruct H as [H _]. discriminate H.
Qed.

Lemma close_cell_step_full : forall v e ks s pr g c cells prev_rows old,
  Inv s -> gather_Pr e ks = Ok pr -> span_of pr = Ok g ->
  c_tree s = NL (NL (c :: cells) :: prev_rows) :: old -> 3 <= c_depth s ->
  exists s', close_table_cell v e ks s = Ok s' /\
    let c' := resolved (env_dup v) (is_continuation pr) c cells prev_rows in
    let extra := repeat (if env_dup v then copy_node c' else blank_cell) (Z.to_nat (g - 1)) in
    c_tree s' = NL (NL (extra ++ c' :: cells) :: prev_rows) :: old
    /\ 3 <= c_depth s' <= 4 /\ same_side s s'.
Proof.
  intros v e ks s pr g c cells prev_rows old HI Hpr Hg Ht Hd3. cbv zeta.
  assert (Hd : 3 <= c_depth s <= 4) by (destruct HI as (_ & R & _); lia).
  rewrite close_table_cell_eq, Hpr. cbn [bind]. rewrite Ht. cbn [as_list bind]. cbv zeta.
  replace (length (NL (NL (c :: cells) :: prev_rows) :: old) - 1) with (length old)
    by (cbn [length]; lia).
  replace (length (NL (c :: cells) :: prev_rows) - 1) with (length prev_rows)
    by (cbn [length]; lia).
  rewrite Hg.
  assert (Hplain : forall s1 c', c_tree s1 = NL (NL (c' :: cells) :: prev_rows) :: old ->
            3 <= c_depth s1 <= 4 -> same_side s s1 ->
            exists s', (span <- Ok g ;; hloop v (length old) (length prev_rows)
                                             (Z.to_nat (span - 1)) s1) = Ok s'
              /\ c_tree s' = NL (NL (repeat (if env_dup v then copy_node c' else blank_cell)
                                           (Z.to_nat (g - 1)) ++ c' :: cells)
                                    :: prev_rows) :: old
              /\ 3 <= c_depth s' <= 4 /\ same_side s s').
  { intros s1 c' T1 D1 S1. cbn [bind].
    destruct (hloop_spec v prev_rows old (Z.to_nat (g - 1)) s1 c' cells T1 D1)
      as (s' & E' & T' & D' & S').
    exists s'. split; [exact E'|]. split; [exact T'|]. split; [exact D'|].
    eapply same_side_trans; eassumption. }
  unfold resolved.
  destruct (env_dup v && is_continuation pr)%bool eqn:Hc.
  - destruct prev_rows as [|p rest_rows].
    + cbn [length Nat.ltb Nat.leb andb bind]. apply Hplain; [exact Ht|exact Hd|apply same_side_refl].
    + assert (Hp : exists prev, p = NL prev).
      { destruct HI as (T & _). rewrite Ht in T. exact (tree_ok_prev_NL _ _ _ _ T). }
      destruct Hp as [prev ->].
      assert (Hlt : Nat.ltb 1 (length (NL (c :: cells) :: NL prev :: rest_rows)) = true)
        by reflexivity.
      rewrite Hlt. cbn [andb].
      destruct (vmerge_spec old s c cells prev rest_rows Ht Hd) as (s1 & E1 & T1 & D1 & S1).
      rewrite E1. cbn [bind]. apply Hplain; assumption.
  - cbn [andb bind]. apply Hplain; [exact Ht|exact Hd|apply same_side_refl].
Qed.

Lemma close_cell_step : forall v e ks s pr g c cells prev_rows old,
  Inv s -> gather_Pr e ks = Ok pr -> span_of pr = Ok g ->
  c_tree s = NL (NL (c :: cells) :: prev_rows) :: old -> 3 <= c_depth s ->
  exists s', close_table_cell v e ks s = Ok s' /\
    let c' := resolved (env_dup v) (is_continuation pr) c cells prev_rows in
    let extra := repeat (if env_dup v then copy_node c' else blank_cell) (Z.to_nat (g - 1)) in
    c_tree s' = NL (NL (extra ++ c' :: cells) :: prev_rows) :: old
    /\ c_open s' = c_open s /\ c_queued s' = c_queued s /\ c_ranges s' = c_ranges s
    /\ c_counters s' = c_counters s.
Proof.
  intros v e ks s pr g c cells prev_rows old HI Hpr Hg Ht Hd3.
  destruct (close_cell_step_full v e ks s pr g c cells prev_rows old HI Hpr Hg Ht Hd3)
    as (s' & E & T & _ & S).
  exists s'. split; [exact E|]. cbv zeta in *. split; [exact T|exact S].
Qed.

(* the newest row of the result: one entry per grid column of the cell *)
Lemma close_cell_width : forall v e ks s pr g c cells prev_rows old,
  Inv s -> gather_Pr e ks = Ok pr -> span_of pr = Ok g ->
  c_tree s = NL (NL (c :: cells) :: prev_rows) :: old -> 3 <= c_depth s ->
  exists s' row, close_table_cell v e ks s = Ok s'
    /\ c_tree s' = NL (NL row :: prev_rows) :: old
    /\ length row = length cells + Z.to_nat (Z.max g 1).
Proof.
  intros v e ks s pr g c cells prev_rows old HI Hpr Hg Ht Hd3.
  destruct (close_cell_step v e ks s pr g c cells prev_rows old HI Hpr Hg Ht Hd3)
    as (s' & E & T & _).
  cbv zeta in T. eexists. eexists. split; [exact E|]. split; [exact T|].
  rewrite app_length, repeat_length. cbn [length]. lia.
Qed.

Lemma close_cell_width_pos : forall v e ks s pr g c cells prev_rows old,
  Inv s -> gather_Pr e ks = Ok pr -> span_of pr = Ok g -> (1 <= g)%Z ->
  c_tree s = NL (NL (c :: cells) :: prev_rows) :: old -> 3 <= c_depth s ->
  exists s' row, close_table_cell v e ks s = Ok s'
    /\ c_tree s' = NL (NL row :: prev_rows) :: old
    /\ Z.of_nat (length row) = (Z.of_nat (length cells) + g)%Z.
Proof.
  intros v e ks s pr g c cells prev_rows old HI Hpr Hg Hpos Ht Hd3.
  destruct (close_cell_width v e ks s pr g c cells prev_rows old HI Hpr Hg Ht Hd3)
    as (s' & row & E & T & L).
  exists s', row. split; [exact E|]. split; [exact T|]. lia.
Qed.

(* ================================================================== *)
(* PART 3 — folding the single step over a row reproduces grid_row      *)
(* ================================================================== *)
(* put c as newest cell of the newest row of the newest table *)
Definition push_cell (c : node) (root : list node) : list node :=
  match root with
  | NL (NL cells :: prev_rows) :: old => NL (NL (c :: cells) :: prev_rows) :: old
  | _ => root
  end.

(* the effect of close_table_cell on the tree (close_cell_step), as a function *)
Definition close_tree (dup cont : bool) (g : Z) (root : list node) : list node :=
  match root with
  | NL (NL (c :: cells) :: prev_rows) :: old =>
      let c' := resolved dup cont c cells prev_rows in
      NL (NL (repeat (if dup then copy_node c' else blank_cell) (Z.to_nat (g - 1)) ++ c' :: cells)
             :: prev_rows) :: old
  | _ => root
  end.

Lemma close_cell_step_tree : forall v e ks s pr g c cells prev_rows old,
  Inv s -> gather_Pr e ks = Ok pr -> span_of pr = Ok g ->
  c_tree s = NL (NL (c :: cells) :: prev_rows) :: old -> 3 <= c_depth s ->
  exists s', close_table_cell v e ks s = Ok s'
    /\ c_tree s' = close_tree (env_dup v) (is_continuation pr) g (c_tree s).
Proof.
  intros v e ks s pr g c cells prev_rows old HI Hpr Hg Ht Hd3.
  destruct (close_cell_step v e ks s pr g c cells prev_rows old HI Hpr Hg Ht Hd3)
    as (s' & E & T & _).
  exists s'. split; [exact E|]. rewrite Ht. exact T.
Qed.

(* the previous row in document order, as grid_row wants it *)
Definition prev_doc (prev_rows : list node) : option (list node) :=
  match prev_rows with
  | NL p :: _ => Some (rev p)
  | _ => None
  end.

Definition cell_step (dup : bool) (root : list node) (c : cellspec) : list node :=
  close_tree dup (cs_cont c) (Z.of_nat (cs_span c)) (push_cell (cs_own c) root).

Lemma resolved_cell_res dup c acc_nf prev_rows :
  resolved dup (cs_cont c) (cs_own c) acc_nf prev_rows
  = cell_res dup (prev_doc prev_rows) (length (rev acc_nf)) c.
Proof.
  unfold resolved, cell_res, prev_doc. rewrite rev_length.
  destruct (dup && cs_cont c)%bool; [|reflexivity].
  destruct prev_rows as [|[p|q] r]; try reflexivity.
  rewrite py_nth_nat. reflexivity.
Qed.

Lemma rev_step (dup : bool) (c : cellspec) (acc_nf prev_rows : list node) :
  rev (repeat (if dup then copy_node (resolved dup (cs_cont c) (cs_own c) acc_nf prev_rows)
               else blank_cell) (Z.to_nat (Z.of_nat (cs_span c) - 1))
       ++ resolved dup (cs_cont c) (cs_own c) acc_nf prev_rows :: acc_nf)
  = rev acc_nf ++ cell_block dup (prev_doc prev_rows) (length (rev acc_nf)) c.
Proof.
  rewrite resolved_cell_res. rewrite rev_app_distr, rev_repeat. cbn [rev].
  rewrite <- app_assoc. cbn [app]. unfold cell_block, filler.
  replace (Z.to_nat (Z.of_nat (cs_span c) - 1)) with (cs_span c - 1) by lia.
  reflexivity.
Qed.

(* trees only *)
Lemma row_refines_tree : forall dup prev_rows old cells acc_nf,
  fold_left (cell_step dup) cells (NL (NL acc_nf :: prev_rows) :: old)
  = NL (NL (rev (grid_row dup (prev_doc prev_rows) cells (rev acc_nf))) :: prev_rows) :: old.
Proof.
  intros dup prev_rows old. induction cells as [|c r IH]; intro acc_nf.
  - cbn [fold_left grid_row]. rewrite rev_involutive. reflexivity.
  - cbn [fold_left]. unfold cell_step at 2. cbn [push_cell close_tree]. cbv zeta.
    rewrite IH, rev_step, grid_row_cons. reflexivity.
Qed.

Corollary row_refines_tree_fresh : forall dup prev_rows old cells,
  fold_left (cell_step dup) cells (NL (NL [] :: prev_rows) :: old)
  = NL (NL (rev (grid_row dup (prev_doc prev_rows) cells [])) :: prev_rows) :: old.
Proof. intros. apply (row_refines_tree dup prev_rows old cells []). Qed.

(* states: push the cell's own content, then run close_table_cell on the
   cell element (e, ks) *)
Definition close_pushed (v : env) (s : cst) (x : einfo * list anode * node) : res cst :=
  let '(e, ks, own) := x in
  close_table_cell v e ks (set_tree (push_cell own (c_tree s)) s).

Definition src_matches (x : einfo * list anode * node) (c : cellspec) : Prop :=
  let '(e, ks, own) := x in
  exists pr, gather_Pr e ks = Ok pr /\ span_of pr = Ok (Z.of_nat (cs_span c))
             /\ is_continuation pr = cs_cont c /\ own = cs_own c /\ shapeb 3 own = true.

Lemma push_inv s own cells prev_rows old :
  Inv s -> 3 <= c_depth s -> c_tree s = NL (NL cells :: prev_rows) :: old ->
  shapeb 3 own = true ->
  Inv (set_tree (NL (NL (own :: cells) :: prev_rows) :: old) s).
Proof.
  intros (T & R & S) Hd Ht Ho. unfold Inv. cbn [set_tree c_tree c_depth].
  split.
  - unfold tree_ok in *. rewrite Ht in T. cbn [forallb] in T |- *.
    apply andb_true_iff in T. destruct T as [T1 T2]. rewrite T2, andb_true_r.
    rewrite shapeb_NL in T1 |- *. apply andb_true_iff in T1. destruct T1 as [L1 T1].
    rewrite L1. cbn [andb forallb] in T1 |- *.
    apply andb_true_iff in T1. destruct T1 as [T1 T3]. rewrite T3, andb_true_r.
    rewrite shapeb_NL in T1 |- *. apply andb_true_iff in T1. destruct T1 as [L2 T1].
    rewrite L2. cbn [andb forallb]. rewrite Ho, T1. reflexivity.
  - split; [exact R|].
    destruct own as [l|p]; [|discriminate Ho].
    assert (D : c_depth s = 3 \/ c_depth s = 4) by lia.
    destruct D as [-> | ->]; exact I.
Qed.

Lemma row_refines : forall v prev_rows old srcs cells,
  Forall2 src_matches srcs cells ->
  forall s acc_nf,
  Inv s -> 3 <= c_depth s -> c_tree s = NL (NL acc_nf :: prev_rows) :: old ->
  exists s', foldM (close_pushed v) srcs s = Ok s'
    /\ c_tree s' = NL (NL (rev (grid_row (env_dup v) (prev_doc prev_rows) cells (rev acc_nf)))
                          :: prev_rows) :: old
    /\ Inv s' /\ 3 <= c_depth s' /\ same_side s s'.
Proof.
  intros v prev_rows old srcs cells HF.
  induction HF as [|x c srcs cells Hx HF IH]; intros s acc_nf HI Hd Ht.
  - exists s. split; [reflexivity|]. cbn [grid_row]. rewrite rev_involutive.
    split; [exact Ht|]. split; [exact HI|]. split; [exact Hd|apply same_side_refl].
  - destruct x as [[e ks] own]. cbn [src_matches] in Hx.
    destruct Hx as (pr & Hpr & Hg & Hc & Ho & Hs).
    cbn [foldM]. unfold close_pushed at 1. rewrite Ht. cbn [push_cell].
    pose proof (push_inv s own acc_nf prev_rows old HI Hd Ht Hs) as HI0.
    set (s0 := set_tree (NL (NL (own :: acc_nf) :: prev_rows) :: old) s) in *.
    destruct (close_cell_step_full v e ks s0 pr (Z.of_nat (cs_span c)) own acc_nf prev_rows old
                HI0 Hpr Hg eq_refl Hd) as (s1 & E1 & T1 & D1 & S1).
    cbv zeta in T1. rewrite E1. cbn [bind].
    pose proof (close_table_cell_inv v e ks s0 s1 HI0 E1) as HI1.
    destruct (IH s1 _ HI1 (proj1 D1) T1) as (s' & E' & T' & I' & D' & S').
    exists s'. split; [exact E'|]. split.
    { rewrite T'. rewrite Hc, Ho, rev_step, grid_row_cons. reflexivity. }
    split; [exact I'|]. split; [exact D'|].
    eapply same_side_trans; [|exact S']. exact S1.
Qed.

(* a fresh row: the newest row is empty before its first cell *)
Corollary row_refines_fresh : forall v prev_rows old srcs cells s,
  Forall2 src_matches srcs cells ->
  Inv s -> 3 <= c_depth s -> c_tree s = NL (NL [] :: prev_rows) :: old ->
  exists s', foldM (close_pushed v) srcs s = Ok s'
    /\ c_tree s' = NL (NL (rev (grid_row (env_dup v) (prev_doc prev_rows) cells []))
                          :: prev_rows) :: old
    /\ Inv s' /\ 3 <= c_depth s'.
Proof.
  intros v prev_rows old srcs cells s HF HI Hd Ht.
  destruct (row_refines v prev_rows old srcs cells HF s [] HI Hd Ht)
    as (s' & E & T & I' & D & _).
  exists s'. auto.
Qed.

Print Assumptions copy_node_idem.
Print Assumptions close_cell_step.
Print Assumptions close_cell_step_full.
Print Assumptions close_cell_width.
Print Assumptions close_cell_width_pos.
Print Assumptions grid_row_length.
Print Assumptions grid_n_by_m.
Print Assumptions grid_row_cell.
Print Assumptions grid_unmerged_row.
Print Assumptions grid_unmerged_agree.
Print Assumptions grid_false_blanks.
Print Assumptions grid_true_duplicates.
Print Assumptions grid_true_cont_fallback.
Print Assumptions close_cell_step_tree.
Print Assumptions row_refines_tree.
Print Assumptions row_refines.
Print Assumptions row_refines_fresh.
