(* GridFacts.v — C04: tables come out n x m; merged cells are duplicated or
   blanked as configured.

   Part 1: what a single close_table_cell does to the tree (explicit formula).
   Part 2: the grid as a pure function of the cell descriptions; n x m; what
           sits in the columns covered by a merge.
   Part 3: folding the single step over a row reproduces the pure grid row. *)
From Coq Require Import List NArith ZArith Bool Arith Lia.
From D2P Require Import Str Err Xml TableTypes Tables Fmt NumFmt Bullets Merge Collector Walk.
From D2P Require Import ShapeFacts BulletsFacts.
Import ListNotations.
#[local] Open Scope nat_scope.

(* ================================================================== *)
(* Generic list facts                                                   *)
(* ================================================================== *)
Lemma nth_error_repeat_lt {A} (a : A) : forall m n, n < m -> nth_error (repeat a m) n = Some a.
Proof.
  induction m as [|m IH]; intros n H; [lia|].
  destruct n as [|n]; [reflexivity|]. cbn [repeat nth_error]. apply IH. lia.
Qed.

Lemma repeat_snoc_app {A} (a : A) : forall k l, repeat a k ++ a :: l = a :: repeat a k ++ l.
Proof.
  induction k as [|k IH]; intro l; [reflexivity|].
  cbn [repeat app]. rewrite IH. reflexivity.
Qed.

Lemma rev_repeat {A} (a : A) : forall k, rev (repeat a k) = repeat a k.
Proof.
  induction k as [|k IH]; [reflexivity|].
  cbn [repeat rev]. rewrite IH. change [a] with (repeat a 0 ++ [a]).
  rewrite app_assoc. rewrite app_nil_r. rewrite (repeat_snoc_app a k []).
  rewrite app_nil_r. reflexivity.
Qed.

Lemma py_nth_nat {A} (l : list A) (n : nat) : py_nth l (Z.of_nat n) = nth_error l n.
Proof.
  unfold py_nth. cbv zeta.
  destruct (Z.of_nat n <? 0)%Z eqn:E0; [apply Z.ltb_lt in E0; lia|].
  rewrite E0. cbn [orb].
  destruct (Z.of_nat (length l) <=? Z.of_nat n)%Z eqn:E1.
  - apply Z.leb_le in E1. symmetry. apply nth_error_None. lia.
  - rewrite Nat2Z.id. reflexivity.
Qed.

(* ================================================================== *)
(* copy_node                                                            *)
(* ================================================================== *)
Definition blank_cell : node := NL [NP new_empty_par].

Lemma copy_node_idem : forall n, copy_node (copy_node n) = copy_node n.
Proof.
  fix IH 1. intros [l|p].
  - cbn [copy_node]. f_equal. rewrite map_map.
    induction l as [|x l IHl]; [reflexivity|].
    cbn [map]. rewrite IH, IHl. reflexivity.
  - reflexivity.
Qed.

(* ================================================================== *)
(* PART 2 — the grid as a pure function                                 *)
(* ================================================================== *)
Record cellspec := { cs_span : nat; cs_cont : bool; cs_own : node }.

(* the extracted row (document order) given the extracted previous row
   (document order; None for the first row) *)
Fixpoint grid_row (dup : bool) (prev : option (list node)) (cells : list cellspec)
         (acc : list node) : list node :=
  match cells with
  | [] => acc
  | c :: r =>
      let own := cs_own c in
      let res := if (dup && cs_cont c)%bool then
                   match prev with
                   | Some p => match nth_error p (length acc) with
                               | Some src => copy_node src
                               | None => own
                               end
                   | None => own
                   end
                 else own in
      grid_row dup prev r
               (acc ++ res :: repeat (if dup then copy_node res else blank_cell) (cs_span c - 1))
  end.

Fixpoint grid (dup : bool) (prev : option (list node)) (rows : list (list cellspec))
  : list (list node) :=
  match rows with
  | [] => []
  | r :: rest => let out := grid_row dup prev r [] in out :: grid dup (Some out) rest
  end.

Definition row_width (r : list cellspec) : nat :=
  fold_right (fun c n => cs_span c + n) 0 r.

Definition spans_ok (cells : list cellspec) : Prop := Forall (fun c => 1 <= cs_span c) cells.

(* start column of each cell *)
Fixpoint start_cols (cells : list cellspec) (col : nat) : list (nat * cellspec) :=
  match cells with
  | [] => []
  | c :: r => (col, c) :: start_cols r (col + cs_span c)
  end.

(* the content of the first column of cell c starting at column j, and the
   columns the cell contributes *)
Definition cell_res (dup : bool) (prev : option (list node)) (j : nat) (c : cellspec) : node :=
  if (dup && cs_cont c)%bool then
    match prev with
    | Some p => match nth_error p j with Some src => copy_node src | None => cs_own c end
    | None => cs_own c
    end
  else cs_own c.
Definition filler (dup : bool) (res : node) : node := if dup then copy_node res else blank_cell.
Definition cell_block (dup : bool) (prev : option (list node)) (j : nat) (c : cellspec)
  : list node :=
  cell_res dup prev j c :: repeat (filler dup (cell_res dup prev j c)) (cs_span c - 1).

Lemma grid_row_cons dup prev c r acc :
  grid_row dup prev (c :: r) acc
  = grid_row dup prev r (acc ++ cell_block dup prev (length acc) c).
Proof. reflexivity. Qed.

Lemma cell_block_length dup prev j c :
  1 <= cs_span c -> length (cell_block dup prev j c) = cs_span c.
Proof. intro H. unfold cell_block. cbn [length]. rewrite repeat_length. lia. Qed.

Lemma cell_block_first dup prev j c :
  nth_error (cell_block dup prev j c) 0 = Some (cell_res dup prev j c).
Proof. reflexivity. Qed.

Lemma cell_block_rest dup prev j c k :
  1 <= k < cs_span c ->
  nth_error (cell_block dup prev j c) k = Some (filler dup (cell_res dup prev j c)).
Proof.
  intro H. unfold cell_block. destruct k as [|k]; [lia|].
  cbn [nth_error]. apply nth_error_repeat_lt. lia.
Qed.

Lemma grid_row_prefix dup prev : forall cells acc,
  exists tail, grid_row dup prev cells acc = acc ++ tail.
Proof.
  induction cells as [|c r IH]; intro acc.
  - exists []. cbn [grid_row]. rewrite app_nil_r. reflexivity.
  - rewrite grid_row_cons. destruct (IH (acc ++ cell_block dup prev (length acc) c)) as [t E].
    rewrite E. rewrite <- app_assoc. eexists. reflexivity.
Qed.

Lemma grid_row_length : forall dup prev cells acc,
  Forall (fun c => 1 <= cs_span c) cells ->
  length (grid_row dup prev cells acc) = length acc + row_width cells.
Proof.
  intros dup prev. induction cells as [|c r IH]; intros acc HF.
  - cbn [grid_row row_width fold_right]. lia.
  - rewrite grid_row_cons. inversion HF as [|? ? Hc Hr]; subst.
    rewrite (IH _ Hr). rewrite app_length, (cell_block_length _ _ _ _ Hc).
    unfold row_width. cbn [fold_right]. lia.
Qed.

Lemma grid_gen : forall dup rows prev W,
  Forall (fun r => Forall (fun c => 1 <= cs_span c) r /\ row_width r = W) rows ->
  length (grid dup prev rows) = length rows
  /\ Forall (fun out => length out = W) (grid dup prev rows).
Proof.
  intros dup. induction rows as [|r rest IH]; intros prev W HF.
  - split; [reflexivity|constructor].
  - inversion HF as [|? ? [Hr Hw] Hrest]; subst. cbn [grid length].
    destruct (IH (Some (grid_row dup prev r [])) (row_width r) Hrest) as [L F].
    split; [rewrite L; reflexivity|].
    constructor; [|exact F].
    rewrite (grid_row_length _ _ _ _ Hr). reflexivity.
Qed.

(* one row per source row, one cell per grid column *)
Theorem grid_n_by_m : forall dup rows W,
  Forall (fun r => Forall (fun c => 1 <= cs_span c) r /\ row_width r = W) rows ->
  length (grid dup None rows) = length rows
  /\ Forall (fun out => length out = W) (grid dup None rows).
Proof. intros dup rows W. apply grid_gen. Qed.

(* the columns of the cell c that starts at column j hold cell_block *)
Lemma grid_row_cell : forall dup prev cells acc j c,
  Forall (fun c => 1 <= cs_span c) cells ->
  In (j, c) (start_cols cells (length acc)) ->
  forall k, k < cs_span c ->
  nth_error (grid_row dup prev cells acc) (j + k) = nth_error (cell_block dup prev j c) k.
Proof.
  intros dup prev. induction cells as [|c0 r IH]; intros acc j c HF HI k Hk.
  - destruct HI.
  - rewrite grid_row_cons. inversion HF as [|? ? Hc Hr]; subst.
    cbn [start_cols] in HI. destruct HI as [E|HI].
    + injection E as Ej Ec. subst j c0.
      destruct (grid_row_prefix dup prev r (acc ++ cell_block dup prev (length acc) c))
        as [t ->].
      rewrite <- app_assoc. rewrite nth_error_app2 by lia.
      replace (length acc + k - length acc) with k by lia.
      apply nth_error_app1. rewrite cell_block_length by exact Hc. exact Hk.
    + apply IH; [exact Hr| |exact Hk].
      rewrite app_length, cell_block_length by exact Hc. exact HI.
Qed.

Lemma start_cols_span : forall cells n j c,
  Forall (fun c => 1 <= cs_span c) cells -> In (j, c) (start_cols cells n) -> 1 <= cs_span c.
Proof.
  induction cells as [|c0 r IH]; intros n j c HF HI.
  - destruct HI.
  - inversion HF as [|? ? H0 Hr]; subst. cbn [start_cols] in HI. destruct HI as [E|HI].
    + injection E as _ <-. exact H0.
    + exact (IH _ _ _ Hr HI).
Qed.

Lemma grid_row_cell0 : forall dup prev cells j c,
  Forall (fun c => 1 <= cs_span c) cells ->
  In (j, c) (start_cols cells 0) ->
  nth_error (grid_row dup prev cells []) j = Some (cell_res dup prev j c)
  /\ forall k, 1 <= k < cs_span c ->
       nth_error (grid_row dup prev cells []) (j + k) = Some (filler dup (cell_res dup prev j c)).
Proof.
  intros dup prev cells j c HF HI.
  pose proof (start_cols_span cells 0 j c HF HI) as Hc.
  split.
  - replace j with (j + 0) at 1 by lia.
    rewrite (grid_row_cell dup prev cells [] j c HF HI 0) by lia. reflexivity.
  - intros k Hk. rewrite (grid_row_cell dup prev cells [] j c HF HI k) by lia.
    apply cell_block_rest. exact Hk.
Qed.

Lemma cell_res_not_cont dup prev j c : cs_cont c = false -> cell_res dup prev j c = cs_own c.
Proof. intro H. unfold cell_res. rewrite H, andb_false_r. reflexivity. Qed.

Lemma cell_res_false prev j c : cell_res false prev j c = cs_own c.
Proof. reflexivity. Qed.

(* a row without merges is the list of its cells, whatever the setting *)
Theorem grid_unmerged_row : forall dup prev cells,
  Forall (fun c => cs_span c = 1 /\ cs_cont c = false) cells ->
  grid_row dup prev cells [] = map cs_own cells.
Proof.
  intros dup prev cells HF. change (map cs_own cells) with ([] ++ map cs_own cells).
  generalize (@nil node) as acc. induction HF as [|c r [Hs Hc] Hr IH]; intro acc.
  - cbn [grid_row map]. rewrite app_nil_r. reflexivity.
  - rewrite grid_row_cons, IH. unfold cell_block. rewrite (cell_res_not_cont _ _ _ _ Hc), Hs.
    cbn [Nat.sub repeat map]. rewrite <- app_assoc. reflexivity.
Qed.

(* the first column of a cell that is not a continuation holds the cell itself
   under both settings *)
Theorem grid_unmerged_agree : forall prev cells j c,
  Forall (fun c => 1 <= cs_span c) cells ->
  In (j, c) (start_cols cells 0) -> cs_cont c = false ->
  nth_error (grid_row true prev cells []) j = Some (cs_own c)
  /\ nth_error (grid_row false prev cells []) j = Some (cs_own c).
Proof.
  intros prev cells j c HF HI Hc.
  destruct (grid_row_cell0 true prev cells j c HF HI) as [A _].
  destruct (grid_row_cell0 false prev cells j c HF HI) as [B _].
  rewrite A, B, (cell_res_not_cont true prev j c Hc). split; reflexivity.
Qed.

(* duplicate_merged_cells = False: the cell, then blanks *)
Theorem grid_false_blanks : forall prev cells j c,
  Forall (fun c => 1 <= cs_span c) cells ->
  In (j, c) (start_cols cells 0) ->
  nth_error (grid_row false prev cells []) j = Some (cs_own c)
  /\ forall k, 1 <= k < cs_span c ->
       nth_error (grid_row false prev cells []) (j + k) = Some blank_cell.
Proof.
  intros prev cells j c HF HI. exact (grid_row_cell0 false prev cells j c HF HI).
Qed.

(* duplicate_merged_cells = True *)
Theorem grid_true_duplicates : forall prev cells j c,
  Forall (fun c => 1 <= cs_span c) cells ->
  In (j, c) (start_cols cells 0) ->
  (cs_cont c = false ->
     nth_error (grid_row true prev cells []) j = Some (cs_own c)
     /\ forall k, 1 <= k < cs_span c ->
          nth_error (grid_row true prev cells []) (j + k) = Some (copy_node (cs_own c)))
  /\ (cs_cont c = true -> forall p src, prev = Some p -> nth_error p j = Some src ->
        forall k, k < cs_span c ->
          nth_error (grid_row true prev cells []) (j + k) = Some (copy_node src)).
Proof.
  intros prev cells j c HF HI.
  destruct (grid_row_cell0 true prev cells j c HF HI) as [A B]. split.
  - intro Hc. rewrite (cell_res_not_cont true prev j c Hc) in A, B. split; [exact A|].
    intros k Hk. rewrite (B k Hk). reflexivity.
  - intros Hc p src Hp Hsrc k Hk.
    assert (R : cell_res true prev j c = copy_node src).
    { unfold cell_res. rewrite Hc, Hp, Hsrc. reflexivity. }
    rewrite R in A, B. destruct k as [|k].
    + rewrite Nat.add_0_r. exact A.
    + rewrite (B (S k)) by lia. unfold filler. rewrite copy_node_idem. reflexivity.
Qed.

(* a continuation cell without a usable cell above keeps its own content *)
Theorem grid_true_cont_fallback : forall prev cells j c,
  Forall (fun c => 1 <= cs_span c) cells ->
  In (j, c) (start_cols cells 0) ->
  (prev = None \/ exists p, prev = Some p /\ nth_error p j = None) ->
  nth_error (grid_row true prev cells []) j = Some (cs_own c).
Proof.
  intros prev cells j c HF HI Hp.
  destruct (grid_row_cell0 true prev cells j c HF HI) as [A _]. rewrite A. f_equal.
  unfold cell_res. destruct (true && cs_cont c)%bool; [|reflexivity].
  destruct Hp as [->|(p & -> & ->)]; reflexivity.
Qed.
