(* SourceDepth.v — docx_text._get_elem_depth AS TRANSLATED FROM THE SOURCE TEXT (gen/Source.v):
   the level-by-level (breadth-first) search for the nearest w:p of the source equals the
   model's elem_depth (model/Walk.v: minimum over all descendants), which the C01 theorems
   (caret depth always within 1..4) are about. *)
From Coq Require Import List NArith ZArith Bool Arith Lia.
From D2P Require Import Str Err Xml TableTypes Tables Walk PyVal Source SourceBase.
Import ListNotations.

(* an lxml element as the translated code sees it: its prefixed tag (get_prefixed_tag) and
   the children iterating it yields; a comment / PI has a tag that matches nothing and no
   children *)
Definition k_Element : str := [69;108;101;109;101;110;116]%N.
Definition k_ptag : str := [112;116;97;103]%N.
Fixpoint enc_anode (t : anode) : pv :=
  match t with
  | AX _ => VObj k_Element [(k_ptag, VStr []); (k_iter, VList [])]
  | AE e ks => VObj k_Element [(k_ptag, VStr (e_ptag e)); (k_iter, VList (map enc_anode ks))]
  end.

Fixpoint height (t : anode) : nat :=
  match t with
  | AX _ => O
  | AE _ ks => S (fold_right (fun k m => Nat.max (height k) m) O ks)
  end.

Definition enc_depth (d : option nat) : pv :=
  match d with Some n => VInt (Z.of_nat n) | None => VNone end.

(* mem_str (used by elem_depth) lives in Merge.v *)
From D2P Require Import Merge.

(* ---------- levels of the breadth-first search ---------- *)
Definition has_par (t : anode) : bool :=
  match t with AE e _ => str_eqb (e_ptag e) tag_PARAGRAPH | AX _ => false end.
Definition level_has_par (l : list anode) : bool := existsb has_par l.
Definition next_level (l : list anode) : list anode := flat_map kids_of l.
Fixpoint lmin (l : list anode) : option nat :=
  match l with [] => None | k :: r => omin (min_par_depth k) (lmin r) end.
Fixpoint lheight (l : list anode) : nat :=
  match l with [] => O | k :: r => Nat.max (height k) (lheight r) end.

(* the tie to the generated tables *)
Lemma tag_PARAGRAPH_val : tag_PARAGRAPH = [119;58;112]%N.
Proof. reflexivity. Qed.
Lemma depth_none_tags_val :
  depth_none_tags = [[119;58;98;111;100;121]%N; [119;58;100;111;99;117;109;101;110;116]%N].
Proof. reflexivity. Qed.

Lemma height_AE : forall e ks, height (AE e ks) = S (lheight ks).
Proof.
  intros e ks. reflexivity.
Qed.

Lemma lheight_app : forall a b, lheight (a ++ b) = Nat.max (lheight a) (lheight b).
Proof. induction a as [|x a IH]; intros b; simpl; [reflexivity|rewrite IH; lia]. Qed.

Lemma lheight_kids : forall t, lheight (kids_of t) = Nat.pred (height t).
Proof. intros [e ks|tl]; [rewrite height_AE|]; reflexivity. Qed.

Lemma lheight_next : forall l, (lheight (next_level l) <= Nat.pred (lheight l))%nat.
Proof.
  induction l as [|t r IH]; simpl; [lia|].
  rewrite lheight_app, lheight_kids. fold (next_level r). lia.
Qed.

Lemma lheight_0_next : forall l, lheight l = O -> next_level l = [].
Proof.
  induction l as [|t r IH]; simpl; intros H; [reflexivity|].
  destruct t as [e ks|tl].
  - rewrite height_AE in H. lia.
  - simpl. apply IH. simpl in H. lia.
Qed.

(* ---------- the minimum over a level ---------- *)
Lemma omin_None_r : forall a, omin a None = a.
Proof. intros [a|]; reflexivity. Qed.

Lemma omin_assoc : forall a b c, omin a (omin b c) = omin (omin a b) c.
Proof.
  intros [a|] [b|] [c|]; simpl; try reflexivity. now rewrite Nat.min_assoc.
Qed.

Lemma omin_S : forall a b, omin (option_map S a) (option_map S b) = option_map S (omin a b).
Proof. intros [a|] [b|]; reflexivity. Qed.

Lemma lmin_app : forall a b, lmin (a ++ b) = omin (lmin a) (lmin b).
Proof.
  induction a as [|x a IH]; intros b; simpl; [reflexivity|].
  now rewrite IH, omin_assoc.
Qed.

Lemma min_par_depth_nopar : forall t,
  has_par t = false -> min_par_depth t = option_map S (lmin (kids_of t)).
Proof.
  intros [e ks|tl] H; [|reflexivity].
  simpl in H. simpl min_par_depth. rewrite H. reflexivity.
Qed.

Lemma min_par_depth_par : forall t, has_par t = true -> min_par_depth t = Some O.
Proof.
  intros [e ks|tl] H; [|discriminate].
  simpl in H. simpl min_par_depth. rewrite H. reflexivity.
Qed.

Lemma lmin_par : forall l, level_has_par l = true -> lmin l = Some O.
Proof.
  induction l as [|t r IH]; simpl; intros H; [discriminate|].
  destruct (has_par t) eqn:E.
  - rewrite (min_par_depth_par t E). destruct (lmin r); reflexivity.
  - simpl in H. rewrite (IH H). destruct (min_par_depth t); simpl; [|reflexivity].
    now rewrite Nat.min_0_r.
Qed.

Lemma lmin_nopar : forall l,
  level_has_par l = false -> lmin l = option_map S (lmin (next_level l)).
Proof.
  induction l as [|t r IH]; simpl; intros H; [reflexivity|].
  apply orb_false_iff in H. destruct H as [Ht Hr].
  rewrite (min_par_depth_nopar t Ht), (IH Hr).
  fold (next_level r). now rewrite lmin_app, omin_S.
Qed.

(* ---------- one level of the generated function ---------- *)
Lemma py_not_cons : forall t r, py_not (VList (map enc_anode (t :: r))) = Ok (VBool false).
Proof. reflexivity. Qed.

Lemma py_any_enc : forall l f,
  (forall t, f (enc_anode t) = Ok (VBool (has_par t))) ->
  py_any (VList (map enc_anode l)) f = Ok (VBool (level_has_par l)).
Proof.
  intros l f Hf. unfold py_any. simpl py_iter. cbn [bind].
  induction l as [|t r IH]; [reflexivity|].
  simpl map. cbn [any_go]. rewrite Hf. cbn [bind py_truth].
  simpl level_has_par. destruct (has_par t); [reflexivity|]. exact IH.
Qed.

Lemma py_list_enc : forall t, py_list (enc_anode t) = Ok (VList (map enc_anode (kids_of t))).
Proof. intros [e ks|tl]; reflexivity. Qed.

Lemma comp_children_enc : forall l b,
  (forall t, b (enc_anode t) = Ok [VList (map enc_anode (kids_of t))]) ->
  py_comp (VList (map enc_anode l)) always b
  = Ok (map (fun t => VList (map enc_anode (kids_of t))) l).
Proof.
  intros l b Hb. unfold py_comp. simpl py_iter. cbn [bind].
  induction l as [|t r IH]; [reflexivity|].
  simpl map. cbn [comp_go always bind py_truth]. rewrite Hb. cbn [bind].
  rewrite IH. reflexivity.
Qed.

Lemma comp_id : forall b L, (forall x, b x = Ok [x]) -> comp_go always b L = Ok L.
Proof.
  intros b L Hb. induction L as [|x r IH]; [reflexivity|].
  cbn [comp_go always bind py_truth]. rewrite Hb. cbn [bind]. rewrite IH. reflexivity.
Qed.

Lemma comp_flatten_enc : forall l b,
  (forall L, b (VList L) = Ok L) ->
  py_comp (VList (map (fun t => VList (map enc_anode (kids_of t))) l)) always b
  = Ok (map enc_anode (next_level l)).
Proof.
  intros l b Hb. unfold py_comp. simpl py_iter. cbn [bind].
  induction l as [|t r IH]; [reflexivity|].
  simpl map. cbn [comp_go always bind py_truth]. rewrite Hb. cbn [bind].
  rewrite IH. cbn [bind]. simpl next_level. fold (next_level r). now rewrite map_app.
Qed.

(* ---------- the search, level by level ---------- *)
Definition enc_found (d : nat) (o : option nat) : pv :=
  match o with
  | Some k => VInt (Z.of_nat (Nat.max (4 - (d + k)) 1))
  | None => VNone
  end.

Lemma search_levels : forall fuel l d,
  ((l = [] /\ 1 <= fuel) \/ lheight l + 2 <= fuel)%nat ->
  S__get_elem_depth_search_at_depth fuel (VList (map enc_anode l)) (VInt (Z.of_nat d))
  = Ok (enc_found d (lmin l)).
Proof.
  induction fuel as [|fuel IH]; intros l d Hf; [lia|].
  cbn [S__get_elem_depth_search_at_depth].
  destruct l as [|t r]; [reflexivity|].
  assert (Hfuel : (lheight (t :: r) + 2 <= S fuel)%nat)
    by (destruct Hf as [[Hnil _]|Hf]; [discriminate|exact Hf]).
  clear Hf.
  rewrite py_not_cons. cbn [binde py_truth negb].
  match goal with |- context [py_any _ ?f] =>
    rewrite (py_any_enc (t :: r) f) by (intros [e ks|tl]; reflexivity) end.
  cbn [binde py_truth].
  destruct (level_has_par (t :: r)) eqn:E.
  - cbn [py_sub int_like binde py_max2 fn_result].
    rewrite (lmin_par _ E). unfold enc_found. do 2 f_equal. lia.
  - match goal with |- context [py_comp (VList (map enc_anode ?l)) always ?b] =>
      rewrite (comp_children_enc l b) by (intros x; rewrite py_list_enc; reflexivity) end.
    cbn [binde].
    match goal with |- context [py_comp (VList (map ?g ?l)) always ?b] =>
      rewrite (comp_flatten_enc l b)
        by (intros L; unfold py_comp; simpl py_iter; cbn [bind];
            apply comp_id; reflexivity) end.
    cbn [binde py_add int_like].
    replace (Z.of_nat d + 1)%Z with (Z.of_nat (S d)) by lia.
    rewrite IH.
    + cbn [binde fn_result]. rewrite (lmin_nopar _ E).
      destruct (lmin (next_level (t :: r))) as [k|]; [|reflexivity].
      simpl option_map. unfold enc_found. do 3 f_equal. lia.
    + pose proof (lheight_next (t :: r)) as Hn.
      destruct (lheight (t :: r)) as [|h] eqn:Eh.
      * left. split; [now apply lheight_0_next|lia].
      * right. simpl Nat.pred in Hn. lia.
Qed.

(* x in {"w:document", "w:body"} of the source = membership in the generated table *)
Lemma in_none_tags : forall s,
  py_in_consts (VStr s)
    [VStr [119;58;100;111;99;117;109;101;110;116]%N; VStr [119;58;98;111;100;121]%N]
  = Ok (VBool (mem_str s depth_none_tags)).
Proof.
  intros s. unfold py_in_consts. rewrite depth_none_tags_val. do 2 f_equal.
  cbn [existsb pv_eqb mem_str].
  destruct (str_eqb s [119;58;100;111;99;117;109;101;110;116]%N);
  destruct (str_eqb s [119;58;98;111;100;121]%N); reflexivity.
Qed.

Lemma py_attr_ptag : forall t,
  py_attr (enc_anode t) [112;116;97;103]%N
  = Ok (VStr match t with AE e _ => e_ptag e | AX _ => [] end).
Proof. intros [e ks|tl]; reflexivity. Qed.

(* fuel: one unit per level searched; the search ends at the latest one level below the
   deepest element *)
Theorem src_get_elem_depth : forall t fuel,
  (height t + 2 <= fuel)%nat ->
  S__get_elem_depth fuel (enc_anode t) = Ok (enc_depth (elem_depth t)).
Proof.
  intros t fuel Hf. unfold S__get_elem_depth.
  rewrite py_attr_ptag. cbn [binde].
  rewrite in_none_tags. cbn [binde py_truth].
  change (VList [enc_anode t]) with (VList (map enc_anode [t])).
  change (VInt 0) with (VInt (Z.of_nat 0)).
  rewrite search_levels by (right; simpl; lia).
  cbn [binde]. simpl lmin. rewrite omin_None_r.
  destruct t as [e ks|tl].
  - unfold elem_depth.
    destruct (mem_str (e_ptag e) depth_none_tags); [reflexivity|].
    cbn [fn_result]. destruct (min_par_depth (AE e ks)); reflexivity.
  - reflexivity.
Qed.

Lemma depth_formula_range : forall k, (1 <= Nat.max (4 - k) 1 <= 4)%nat.
Proof. intros k. lia. Qed.

(* hence what the source computes is None or within 1..4 (C01_elem_depth_range about the source) *)
Theorem src_get_elem_depth_range : forall t fuel v,
  (height t + 2 <= fuel)%nat ->
  S__get_elem_depth fuel (enc_anode t) = Ok v ->
  v = VNone \/ exists n, v = VInt (Z.of_nat n) /\ (1 <= n <= 4)%nat.
Proof.
  intros t fuel v Hf H. rewrite (src_get_elem_depth t fuel Hf) in H.
  injection H as <-.
  destruct (elem_depth t) as [n|] eqn:E; [right|left; reflexivity].
  exists n. split; [reflexivity|].
  unfold elem_depth in E. destruct t as [e ks|tl]; [|discriminate].
  destruct (mem_str (e_ptag e) depth_none_tags); [discriminate|].
  destruct (min_par_depth (AE e ks)) as [k|]; [|discriminate].
  cbn [option_map] in E. injection E as <-. exact (depth_formula_range k).
Qed.

Print Assumptions src_get_elem_depth.
Print Assumptions src_get_elem_depth_range.
