(* SourceOutput.v — the views of docx_output.DocxContent AS TRANSLATED FROM THE SOURCE TEXT (gen/Source.v:
   _get_pars, the *_pars / *_runs / plain attributes of header, footer, officeDocument, body, footnotes,
   endnotes and document, and text) are the model's pars_of / runs_of / plain_of, document_pars /
   document_runs / document and text (model/Content.v), for every archive and option setting - so the C03
   theorems "document = header + body + footer + footnotes + endnotes in that order, in all three forms",
   "body is officeDocument" and "text = the paragraphs of document_runs joined" speak about the source.
   DocxReader.files_of_type is a parameter, assumed to return the File objects whose `content` is the
   collector tree of each part of that type in path order (what Package.v models and the correspondence
   check compares). *)
From Coq Require Import List NArith ZArith Bool Arith Lia.
From D2P Require Import Str Err Xml TableTypes Tables Fmt Bullets Merge Collector Walk Iter Output Paths Package Content
                        PyVal Source SourceBase SourceViews SourceIter ViewFacts PkgShape.
Import ListNotations.

Definition k_File : str := [70;105;108;101]%N.
Definition k_content : str := [99;111;110;116;101;110;116]%N.
Definition k_docx_reader : str := [100;111;99;120;95;114;101;97;100;101;114]%N.


(* ---------- generic facts on the combinators ---------- *)
Lemma so_fn_result_bind_rt : forall r : res pv, fn_result (S:=unit) (t <~ r ;;; Rt t) = r.
Proof. intros [v|e]; reflexivity. Qed.

Lemma so_fn_result_bind2 : forall (r : res pv) (g : pv -> res pv),
  fn_result (S:=unit) (t1 <~ r ;;; t2 <~ g t1 ;;; Rt t2) = bind r g.
Proof. intros [v|e] g; cbn [binde bind]; [destruct (g v)|]; reflexivity. Qed.

(* the loop of _get_pars: content += file.content over the File objects *)
Lemma so_loop {A} (E : A -> pv) : forall (l : list (list A)) (acc0 : list pv),
  for_go (fun t3 v_content =>
            let v_file := t3 in
            t4 <~ py_attr v_file ([99;111;110;116;101;110;116]%N) ;;;
            v_content <~ py_add v_content t4 ;;;
            Nx v_content)
         (map (fun c => VObj k_File [(k_content, VList (map E c))]) l) (VList acc0)
  = Nx (VList (acc0 ++ map E (concat l))).
Proof.
  induction l as [|c l IH]; intro acc0.
  - cbn [map for_go concat]. rewrite app_nil_r. reflexivity.
  - cbn [map for_go concat].
    change (py_attr (VObj k_File [(k_content, VList (map E c))]) ([99;111;110;116;101;110;116]%N))
      with (Ok (VList (map E c))).
    cbn [binde py_add bindo]. rewrite IH. rewrite map_app, app_assoc. reflexivity.
Qed.

(* the sum of the five attributes, in the order header, body, footer, footnotes, endnotes *)
Lemma so_five {A} (f : A -> pv) (attr : str -> res (rose A)) (S1 S2 S3 S4 S5 : res pv) :
  (forall ty r, attr ty = Ok r -> exists l, r = RL l) ->
  S1 = lift_rose f (attr s_header) ->
  S2 = lift_rose f (attr s_officeDocument) ->
  S3 = lift_rose f (attr s_footer) ->
  S4 = lift_rose f (attr s_footnotes) ->
  S5 = lift_rose f (attr s_endnotes) ->
  fn_result (S:=unit) (
    t1 <~ S1 ;;;
    t2 <~ S2 ;;;
    t3 <~ py_add t1 t2 ;;;
    t4 <~ S3 ;;;
    t5 <~ py_add t3 t4 ;;;
    t6 <~ S4 ;;;
    t7 <~ py_add t5 t6 ;;;
    t8 <~ S5 ;;;
    t9 <~ py_add t7 t8 ;;;
    Rt t9)
  = lift_rose f (document_of attr).
Proof.
  intros H -> -> -> -> ->. unfold document_of, part_order. cbn [foldM].
  destruct (attr s_header) as [r1|e1] eqn:E1; [|reflexivity].
  destruct (H _ _ E1) as [l1 ->].
  cbn [lift_rose binde bind app_rose app enc_rose].
  destruct (attr s_officeDocument) as [r2|e2] eqn:E2; [|reflexivity].
  destruct (H _ _ E2) as [l2 ->].
  cbn [lift_rose binde bind app_rose app enc_rose py_add].
  destruct (attr s_footer) as [r3|e3] eqn:E3; [|reflexivity].
  destruct (H _ _ E3) as [l3 ->].
  cbn [lift_rose binde bind app_rose app enc_rose py_add].
  destruct (attr s_footnotes) as [r4|e4] eqn:E4; [|reflexivity].
  destruct (H _ _ E4) as [l4 ->].
  cbn [lift_rose binde bind app_rose app enc_rose py_add].
  destruct (attr s_endnotes) as [r5|e5] eqn:E5; [|reflexivity].
  destruct (H _ _ E5) as [l5 ->].
  cbn [lift_rose binde bind app_rose app enc_rose py_add fn_result foldM].
  rewrite !map_app. reflexivity.
Qed.

Section Views.
  Variable a : archive.
  Variable o : opts.
  Variable ext : pv -> pv -> res pv.
  Variable rd : pv.
  Variable cls : str.
  Let html := o_html o.
  Let self := VObj cls [(k_docx_reader, rd)].

  (* the top-level items of the collector tree of every part of a type, in path order (Content.get_pars) *)
  Definition per_file (ty : str) : res (list (list (rose par))) :=
    fs <- files a ;;
    mapM (fun f => s <- part_collector a fs o f ;; Ok (map rose_of_node (unrev_list (c_tree s))))
         (files_of_type fs ty).

  Hypothesis Hext : forall ty,
    ext rd (VStr ty)
    = match per_file ty with
      | Ok l => Ok (VList (map (fun c => VObj k_File [(k_content, VList (map (enc_rose (enc_par html)) c))]) l))
      | Err e => Err e
      end.

  Lemma so_pars_of : forall ty,
    pars_of a o ty = match per_file ty with Ok xs => Ok (RL (concat xs)) | Err e => Err e end.
  Proof.
    intro ty. unfold pars_of, get_pars, per_file.
    destruct (files a) as [fs|e]; cbn [bind]; [|reflexivity].
    destruct (mapM _ (files_of_type fs ty)) as [xs|e]; reflexivity.
  Qed.

  Theorem src_get_pars : forall ty,
    S_DocxContent_get_pars ext self (VStr ty) = lift_rose (enc_par html) (pars_of a o ty).
  Proof.
    intro ty. unfold S_DocxContent_get_pars. cbv zeta.
    match goal with |- context [py_attr ?x ?y] => change (py_attr x y) with (Ok rd) end.
    cbn [binde]. rewrite Hext. rewrite so_pars_of.
    destruct (per_file ty) as [l|e]; [|reflexivity].
    cbn [binde py_for py_iter lift_rose].
    pose proof (so_loop (enc_rose (enc_par html)) l []) as HL. cbv zeta in HL.
    rewrite HL. reflexivity.
  Qed.

  Theorem src_named_pars :
    S_DocxContent_header_pars ext self = lift_rose (enc_par html) (pars_of a o s_header)
    /\ S_DocxContent_footer_pars ext self = lift_rose (enc_par html) (pars_of a o s_footer)
    /\ S_DocxContent_officeDocument_pars ext self = lift_rose (enc_par html) (pars_of a o s_officeDocument)
    /\ S_DocxContent_body_pars ext self = lift_rose (enc_par html) (pars_of a o s_officeDocument)
    /\ S_DocxContent_footnotes_pars ext self = lift_rose (enc_par html) (pars_of a o s_footnotes)
    /\ S_DocxContent_endnotes_pars ext self = lift_rose (enc_par html) (pars_of a o s_endnotes).
  Proof.
    unfold S_DocxContent_body_pars, S_DocxContent_header_pars, S_DocxContent_footer_pars,
      S_DocxContent_officeDocument_pars, S_DocxContent_footnotes_pars, S_DocxContent_endnotes_pars.
    rewrite !so_fn_result_bind_rt.
    repeat split; apply src_get_pars.
  Qed.

  Lemma so_runs : forall ty P,
    P = lift_rose (enc_par html) (pars_of a o ty) ->
    bind P S_get_par_strings = lift_rose VStr (runs_of a o ty).
  Proof.
    intros ty P ->. unfold runs_of.
    destruct (pars_of a o ty) as [p|e] eqn:E; cbn [lift_rose bind]; [|reflexivity].
    apply src_get_par_strings. eapply pars_of_deep. exact E.
  Qed.

  Lemma so_plain : forall ty P,
    P = lift_rose VStr (runs_of a o ty) ->
    bind P S__join_runs = lift_rose VStr (plain_of a o ty).
  Proof.
    intros ty P ->. unfold plain_of.
    destruct (runs_of a o ty) as [r|e] eqn:E; cbn [lift_rose bind]; [|reflexivity].
    apply src_join_runs. eapply runs_of_deep. exact E.
  Qed.

  Theorem src_named_runs :
    S_DocxContent_header_runs ext self = lift_rose VStr (runs_of a o s_header)
    /\ S_DocxContent_footer_runs ext self = lift_rose VStr (runs_of a o s_footer)
    /\ S_DocxContent_officeDocument_runs ext self = lift_rose VStr (runs_of a o s_officeDocument)
    /\ S_DocxContent_body_runs ext self = lift_rose VStr (runs_of a o s_officeDocument)
    /\ S_DocxContent_footnotes_runs ext self = lift_rose VStr (runs_of a o s_footnotes)
    /\ S_DocxContent_endnotes_runs ext self = lift_rose VStr (runs_of a o s_endnotes).
  Proof.
    destruct src_named_pars as [H1 [H2 [H3 [_ [H5 H6]]]]].
    unfold S_DocxContent_body_runs, S_DocxContent_header_runs, S_DocxContent_footer_runs,
      S_DocxContent_officeDocument_runs, S_DocxContent_footnotes_runs, S_DocxContent_endnotes_runs.
    rewrite !so_fn_result_bind_rt, !so_fn_result_bind2.
    repeat split; apply so_runs; assumption.
  Qed.

  Theorem src_named_plain :
    S_DocxContent_header ext self = lift_rose VStr (plain_of a o s_header)
    /\ S_DocxContent_footer ext self = lift_rose VStr (plain_of a o s_footer)
    /\ S_DocxContent_officeDocument ext self = lift_rose VStr (plain_of a o s_officeDocument)
    /\ S_DocxContent_body ext self = lift_rose VStr (plain_of a o s_officeDocument)
    /\ S_DocxContent_footnotes ext self = lift_rose VStr (plain_of a o s_footnotes)
    /\ S_DocxContent_endnotes ext self = lift_rose VStr (plain_of a o s_endnotes).
  Proof.
    destruct src_named_runs as [H1 [H2 [H3 [_ [H5 H6]]]]].
    unfold S_DocxContent_body, S_DocxContent_header, S_DocxContent_footer,
      S_DocxContent_officeDocument, S_DocxContent_footnotes, S_DocxContent_endnotes.
    rewrite !so_fn_result_bind_rt, !so_fn_result_bind2.
    repeat split; apply so_plain; assumption.
  Qed.

  Lemma so_deep_RL {A} d (t : rose A) : deep (S d) t -> exists l, t = RL l.
  Proof. intro H. destruct (deep_S_inv d t H) as [l [-> _]]. eauto. Qed.

  Theorem src_document_pars :
    S_DocxContent_document_pars ext self = lift_rose (enc_par html) (document_pars a o).
  Proof.
    destruct src_named_pars as [H1 [H2 [_ [H4 [H5 H6]]]]].
    unfold S_DocxContent_document_pars, document_pars.
    apply so_five; try assumption.
    intros ty r Hr. eapply so_deep_RL. eapply pars_of_deep. exact Hr.
  Qed.

  Theorem src_document_runs :
    S_DocxContent_document_runs ext self = lift_rose VStr (document_runs a o).
  Proof.
    destruct src_named_runs as [H1 [H2 [_ [H4 [H5 H6]]]]].
    unfold S_DocxContent_document_runs, document_runs.
    apply so_five; try assumption.
    intros ty r Hr. eapply so_deep_RL. eapply runs_of_deep. exact Hr.
  Qed.

  Theorem src_document :
    S_DocxContent_document ext self = lift_rose VStr (document a o).
  Proof.
    destruct src_named_plain as [H1 [H2 [_ [H4 [H5 H6]]]]].
    unfold S_DocxContent_document, document.
    apply so_five; try assumption.
    intros ty r Hr. eapply so_deep_RL. eapply plain_of_deep. exact Hr.
  Qed.

  Theorem src_text : forall fuel, (5 < fuel)%nat ->
    S_DocxContent_text fuel ext self = lift_str (text a o).
  Proof.
    intros fuel Hf. unfold S_DocxContent_text, text.
    rewrite so_fn_result_bind2, src_document_runs.
    destruct (document_runs a o) as [r|e] eqn:E; cbn [lift_rose bind]; [|reflexivity].
    apply src_flatten_text; [|exact Hf]. eapply document_runs_deep. exact E.
  Qed.
End Views.

Print Assumptions src_get_pars.
Print Assumptions src_named_pars.
Print Assumptions src_named_runs.
Print Assumptions src_named_plain.
Print Assumptions src_document_pars.
Print Assumptions src_document_runs.
Print Assumptions src_document.
Print Assumptions src_text.
