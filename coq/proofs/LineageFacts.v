(* LineageFacts.v — C05: the lineage register of the document walk.  Every
   paragraph extracted from a table cell reports the lineage (tbl, tr, tc, p);
   paragraphs outside tables do not report tbl. *)
From Coq Require Import List NArith ZArith Bool Arith Lia.
From D2P Require Import Str Err Xml TableTypes Tables Fmt NumFmt Bullets Merge Collector Walk.
From D2P Require Import ShapeFacts TokFacts FrameFacts BulletsFacts.
Import ListNotations.
Open Scope N_scope.

(* ================================================================== *)
(* Definitions                                                          *)
(* ================================================================== *)
Definition slot (i : nat) (l : lineage) : option str :=
  match l with
  | (a, b, c, d) =>
      match i with 1%nat => a | 2%nat => b | 3%nat => c | 4%nat => d | _ => None end
  end.

(* every element of t (t included) has no depth or a depth >= k *)
Fixpoint deep_ge (k : nat) (t : anode) : bool :=
  match t with
  | AX _ => true
  | AE e ks =>
      (match elem_depth t with None => true | Some d => Nat.leb k d end)
      && forallb (deep_ge k) ks
  end.

(* no w:tc at or below t *)
Fixpoint no_tc (t : anode) : bool :=
  match t with
  | AX _ => true
  | AE e ks => negb (str_eqb (e_ptag e) tag_TABLE_CELL) && forallb no_tc ks
  end.

(* [keepl d l l']: l' differs from l at most in slot d *)
Definition keepl (d : nat) (l l' : lineage) : Prop :=
  forall i, i <> d -> slot i l' = slot i l.

Lemma keepl_refl d l : keepl d l l.
Proof. intros i _. reflexivity. Qed.

Lemma keepl_trans d l1 l2 l3 : keepl d l1 l2 -> keepl d l2 l3 -> keepl d l1 l3.
Proof. intros A B i Hi. rewrite (B i Hi). apply A, Hi. Qed.

Lemma lineage_eta l : l = (slot 1 l, slot 2 l, slot 3 l, slot 4 l).
Proof. destruct l as [[[a b] c] d]. reflexivity. Qed.

(* ================================================================== *)
(* L1: the caret writes one slot                                        *)
(* ================================================================== *)
Lemma set_in_lineage_slot d v l l' :
  set_in_lineage d v l = Ok l' -> slot d l' = v /\ keepl d l l'.
Proof.
  destruct l as [[[a b] c] e].
  destruct d as [|[|[|[|[|d]]]]]; cbn; intro H; try discriminate H; injection H as <-;
    (split; [reflexivity|]); intros i Hi;
    destruct i as [|[|[|[|[|i]]]]]; try reflexivity; exfalso; apply Hi; reflexivity.
Qed.

Lemma drop_caret_lin s s' : drop_caret s = Ok s' -> c_lineage s' = c_lineage s.
Proof.
  unfold drop_caret. destruct (Nat.leb par_depth (c_depth s)); [discriminate|].
  intro H. bind_inv H as t Et. injection H as <-. reflexivity.
Qed.

Lemma raise_caret_lin s s' : raise_caret s = Ok s' -> c_lineage s' = c_lineage s.
Proof.
  unfold raise_caret. destruct (Nat.leb (c_depth s) 1); [discriminate|].
  intro H. injection H as <-. reflexivity.
Qed.

Lemma set_caret_go_lin : forall fuel d name s s',
  set_caret_go fuel d name s = Ok s' ->
  slot d (c_lineage s') = name /\ keepl d (c_lineage s) (c_lineage s').
Proof.
  induction fuel as [|f IH]; intros d name s s' H; [discriminate H|].
  cbn [set_caret_go] in H.
  destruct (Nat.eqb (c_depth s) d).
  - bind_inv H as l El. injection H as <-. cbn [c_lineage set_lin].
    apply set_in_lineage_slot. exact El.
  - destruct (Nat.ltb (c_depth s) d).
    + bind_inv H as s1 E. apply drop_caret_lin in E.
      destruct (IH _ _ _ _ H) as [A B]. rewrite E in B. auto.
    + bind_inv H as l El. bind_inv H as s1 E. apply raise_caret_lin in E.
      cbn [c_lineage set_lin] in E.
      destruct (IH _ _ _ _ H) as [A B]. rewrite E in B.
      apply set_in_lineage_slot in El. destruct El as [_ C].
      split; [exact A|]. eapply keepl_trans; eauto.
Qed.

Lemma set_caret_lin d name s s' :
  set_caret (Some d) name s = Ok s' ->
  slot d (c_lineage s') = name /\ keepl d (c_lineage s) (c_lineage s').
Proof. apply set_caret_go_lin. Qed.

Lemma set_caret_slots : forall d name s s', Inv s -> (1 <= d <= 4)%nat ->
  set_caret (Some d) name s = Ok s' ->
  slot d (c_lineage s') = name /\
  forall i, (1 <= i < d)%nat -> slot i (c_lineage s') = slot i (c_lineage s).
Proof.
  intros d name s s' _ _ H. apply set_caret_lin in H. destruct H as [A B].
  split; [exact A|]. intros i Hi. apply B. lia.
Qed.

(* the caret already at depth d: only the register is written *)
Lemma set_caret_at_depth d name s s' :
  c_depth s = d -> set_caret (Some d) name s = Ok s' -> exists l, s' = set_lin l s.
Proof.
  intros D H. unfold set_caret in H. cbn [set_caret_go] in H.
  rewrite D, Nat.eqb_refl in H. bind_inv H as l El. injection H as <-. eauto.
Qed.

(* ================================================================== *)
(* Predicates on (tree, depth, register) closed under the paragraph     *)
(* caret are preserved by every open handler and by inline subtrees      *)
(* ================================================================== *)
Definition core_eq (s s' : cst) : Prop :=
  c_tree s' = c_tree s /\ c_depth s' = c_depth s /\ c_lineage s' = c_lineage s.

Ltac inv_step H :=
  cbv beta zeta in H;
  match type of H with
  | Err _ = Ok _ => discriminate H
  | bind ?r _ = Ok _ =>
      let x := fresh "x" in let E := fresh "E" in
      destruct r as [x|] eqn:E; [cbn [bind] in H|discriminate H]
  | (if ?c then _ else _) = Ok _ => destruct c
  | (match ?x with _ => _ end) = Ok _ => destruct x eqn:?
  end.

Section CoreInv.
  Variable P : cst -> Prop.
  Variable P_core : forall s s', core_eq s s' -> P s -> P s'.
  Variable P_caret4 :
    forall name s s', P s -> set_caret (Some 4%nat) name s = Ok s' -> P s'.

  Lemma P_set_open o s : P s -> P (set_open o s).
  Proof. apply P_core. repeat split. Qed.
  Lemma P_set_queued q s : P s -> P (set_queued q s).
  Proof. apply P_core. repeat split. Qed.
  Lemma P_set_ranges r s : P s -> P (set_ranges r s).
  Proof. apply P_core. repeat split. Qed.
  Lemma P_set_counters c s : P s -> P (set_counters c s).
  Proof. apply P_core. repeat split. Qed.
  Lemma P_queue_run ts s : P s -> P (queue_run_for_next_paragraph ts s).
  Proof. apply P_core. repeat split. Qed.

  Lemma commence_paragraph_P v elem s s' :
    commence_paragraph v elem s = Ok s' -> P s -> P s'.
  Proof.
    intros H HP. unfold commence_paragraph, par_depth in H.
    bind_inv H as s1 E1. bind_inv H as hs Ehs. bind_inv H as ps Eps.
    cbv zeta in H. injection H as <-.
    apply P_set_open, P_set_queued. eapply P_caret4; eauto.
  Qed.

  Lemma ensure_par_P v s s' : ensure_par v s = Ok s' -> P s -> P s'.
  Proof.
    unfold ensure_par. destruct (c_open s).
    - apply commence_paragraph_P.
    - intro H. injection H as <-. auto.
  Qed.

  Lemma upd_open_runs_P v f s s' : upd_open_runs v f s = Ok s' -> P s -> P s'.
  Proof.
    intros H HP. unfold upd_open_runs in H. bind_inv H as s1 E1.
    destruct (c_open s1); [discriminate H|]. injection H as <-.
    apply P_set_open. eapply ensure_par_P; eauto.
  Qed.

  Lemma commence_run_P v st s s' : commence_run v st s = Ok s' -> P s -> P s'.
  Proof. apply upd_open_runs_P. Qed.
  Lemma add_toks_P v ts s s' : add_toks v ts s = Ok s' -> P s -> P s'.
  Proof. apply upd_open_runs_P. Qed.
  Lemma add_text_P v txt s s' : add_text_into_open_run v txt s = Ok s' -> P s -> P s'.
  Proof. apply add_toks_P. Qed.
  Lemma add_code_P v ts s s' : add_code_into_open_run v ts s = Ok s' -> P s -> P s'.
  Proof. apply add_toks_P. Qed.
  Lemma insert_P v ts s s' : insert_text_as_new_run v ts s = Ok s' -> P s -> P s'.
  Proof. apply upd_open_runs_P. Qed.

  Lemma start_comment_P v id s s' : start_comment_range v id s = Ok s' -> P s -> P s'.
  Proof.
    unfold start_comment_range. intros H HP. bind_inv H as n En. injection H as <-.
    apply P_set_ranges, HP.
  Qed.

  Lemma end_comment_P v id s s' : end_comment_range v id s = Ok s' -> P s -> P s'.
  Proof.
    unfold end_comment_range. intros H HP.
    destruct (dict_get id (c_ranges s)) as [[b c]|].
    - bind_inv H as n En. injection H as <-. apply P_set_ranges, HP.
    - injection H as <-. exact HP.
  Qed.

  Ltac Pgo :=
    first
      [ assumption
      | apply P_set_open; Pgo
      | apply P_set_counters; Pgo
      | apply P_set_queued; Pgo
      | apply P_queue_run; Pgo
      | eapply insert_P; [eassumption|Pgo]
      | eapply commence_run_P; [eassumption|Pgo]
      | eapply add_text_P; [eassumption|Pgo]
      | eapply add_code_P; [eassumption|Pgo]
      | eapply start_comment_P; [eassumption|Pgo]
      | eapply end_comment_P; [eassumption|Pgo]
      | eapply commence_paragraph_P; [eassumption|Pgo] ].

  Lemma open_tag_P v path t e ks body s s' b :
    open_tag v path t e ks body s = Ok (s', b) -> P s -> P s'.
  Proof.
    intros H HP.
    unfold open_tag, note_label, note_ref, image_ref in H.
    repeat inv_step H;
      try (injection H as ? ?; subst; Pgo).
  Qed.

  Lemma close_tag_P v e ks s s' :
    str_eqb (e_ptag e) tag_PARAGRAPH = false -> str_eqb (e_ptag e) tag_TABLE_CELL = false ->
    close_tag v e ks s = Ok s' -> P s -> P s'.
  Proof.
    intros Hp Hc H HP. unfold close_tag in H. cbv zeta in H. rewrite Hp, Hc in H.
    destruct (str_eqb (e_ptag e) tag_RUN).
    - eapply commence_run_P; eauto.
    - injection H as <-. exact HP.
  Qed.

  Lemma kids_loop_P v path ks :
    Forall (fun t => forall path s s', P s -> walk v path t s = Ok s' -> P s') ks ->
    forall i s s', P s -> kids_loop v path ks i s = Ok s' -> P s'.
  Proof.
    induction 1 as [|k r Hk Hr IH]; intros i s s' HP H; cbn [kids_loop] in H.
    - injection H as <-. exact HP.
    - bind_inv H as s1 E1. eapply IH; [|exact H]. eapply Hk; eauto.
  Qed.

  Lemma inline_P v : forall t, plain_inline t = true ->
    forall path s s', P s -> walk v path t s = Ok s' -> P s'.
  Proof.
    apply (ShapeFacts.anode_ind'
             (fun t => plain_inline t = true ->
                       forall path s s', P s -> walk v path t s = Ok s' -> P s')).
    - intros tl _ path s s' HP H. cbn in H. injection H as <-. exact HP.
    - intros e ks IH Hpl path s s' HP H.
      pose proof (plain_inline_no_depth _ Hpl) as Hd.
      apply plain_inline_AE in Hpl. destruct Hpl as [(Hp & Hc & _) Hks].
      assert (HF : Forall (fun t => forall path s s', P s -> walk v path t s = Ok s' -> P s') ks).
      { clear - IH Hks. induction IH as [|k r Hk Hr IHr]; [constructor|].
        cbn [forallb] in Hks. apply andb_true_iff in Hks. destruct Hks as [K1 K2].
        constructor; [intros; eapply Hk; eauto|auto]. }
      rewrite walk_AE in H. cbv zeta in H. rewrite Hd in H. cbn [set_caret bind] in H.
      bind_inv H as body Eb. bind_inv H as s2r Eo. destruct s2r as [s2 rec].
      bind_inv H as s3 Ek. bind_inv H as s4 Ec. injection H as <-.
      eapply close_tag_P; [exact Hp|exact Hc|exact Ec|].
      assert (P2 : P s2) by (eapply open_tag_P; eauto).
      destruct rec.
      + eapply kids_loop_P; eauto.
      + injection Ek as <-. exact P2.
  Qed.
End CoreInv.

(* ================================================================== *)
(* L2: the frame property of the register                               *)
(* ================================================================== *)
Lemma open_tag_lineage v path t e ks body s s' b :
  open_tag v path t e ks body s = Ok (s', b) -> keepl 4 (c_lineage s) (c_lineage s').
Proof.
  intro H.
  apply (open_tag_P (fun s0 => keepl 4 (c_lineage s) (c_lineage s0))) in H.
  - exact H.
  - intros s1 s2 (_ & _ & E) K. rewrite E. exact K.
  - intros name s1 s2 K E. apply set_caret_lin in E. destruct E as [_ E].
    eapply keepl_trans; eauto.
  - apply keepl_refl.
Qed.

Lemma commence_run_lineage v st s s' :
  commence_run v st s = Ok s' -> keepl 4 (c_lineage s) (c_lineage s').
Proof.
  intro H.
  apply (commence_run_P (fun s0 => keepl 4 (c_lineage s) (c_lineage s0))) in H.
  - exact H.
  - intros s1 s2 (_ & _ & E) K. rewrite E. exact K.
  - intros name s1 s2 K E. apply set_caret_lin in E. destruct E as [_ E].
    eapply keepl_trans; eauto.
  - apply keepl_refl.
Qed.

Lemma conclude_paragraph_lineage s s' :
  conclude_paragraph s = Ok s' -> keepl 4 (c_lineage s) (c_lineage s').
Proof.
  unfold conclude_paragraph, par_depth. intro H. destruct (c_open s) as [|p rest].
  - injection H as <-. apply keepl_refl.
  - bind_inv H as s1 E1. bind_inv H as t Et. injection H as <-.
    apply set_caret_lin in E1. destruct E1 as [_ E1]. exact E1.
Qed.

Lemma close_table_cell_lineage v e ks s s' :
  close_table_cell v e ks s = Ok s' -> keepl 3 (c_lineage s) (c_lineage s').
Proof.
  intro H. unfold close_table_cell in H.
  bind_inv H as pr Epr. cbv zeta in H.
  (* the two early returns of the repaired _close_table_cell *)
  destruct (c_tree s) as [|tb0 root0] eqn:Eroot0; [injection H as <-; apply keepl_refl|].
  rewrite <- Eroot0 in H.
  bind_inv H as rows0 Erows0.
  destruct rows0 as [|rb0 rows1] eqn:Erows1; [injection H as <-; apply keepl_refl|].
  rewrite <- Erows1 in H.
  bind_inv H as dummy Edummy.
  bind_inv H as s1 Es1. bind_inv H as span Espan.
  assert (K1 : keepl 3 (c_lineage s) (c_lineage s1)).
  { clear H Espan.
    match type of Es1 with (if ?c then _ else _) = _ => destruct c end.
    - bind_inv Es1 as sa Esa. bind_inv Es1 as t Et. bind_inv Es1 as rows Er.
      bind_inv Es1 as prev Ep. bind_inv Es1 as cells Ec. cbv zeta in Es1.
      apply set_caret_lin in Esa. destruct Esa as [_ Esa].
      destruct cells as [|cell0 cells0]; [injection Es1 as <-; exact Esa|].
      destruct (py_nth (rev prev) (Z.of_nat (length (cell0 :: cells0)) - 1)) as [src|];
        [|injection Es1 as <-; exact Esa].
      bind_inv Es1 as root' Eroot. injection Es1 as <-. exact Esa.
    - injection Es1 as <-. apply keepl_refl. }
  clear Es1 Espan. revert s1 K1 H. generalize (Z.to_nat (span - 1)).
  induction n as [|n IH]; intros s1 K1 H.
  - injection H as <-. exact K1.
  - cbn [bind] in H. bind_inv H as sa Esa. bind_inv H as root' Eroot.
    eapply IH; [|exact H]. cbn [c_lineage set_tree].
    apply set_caret_lin in Esa. destruct Esa as [_ Esa]. eapply keepl_trans; eauto.
Qed.

Lemma close_tag_lineage v e ks s s' :
  close_tag v e ks s = Ok s' ->
  forall i, i <> 4%nat -> (str_eqb (e_ptag e) tag_TABLE_CELL = true -> i <> 3%nat) ->
  slot i (c_lineage s') = slot i (c_lineage s).
Proof.
  intros H i H4 H3. unfold close_tag in H. cbv zeta in H.
  destruct (str_eqb (e_ptag e) tag_PARAGRAPH).
  { apply conclude_paragraph_lineage in H. apply H, H4. }
  destruct (str_eqb (e_ptag e) tag_RUN).
  { apply commence_run_lineage in H. apply H, H4. }
  destruct (str_eqb (e_ptag e) tag_TABLE_CELL).
  { apply close_table_cell_lineage in H. apply H, H3. reflexivity. }
  injection H as <-. reflexivity.
Qed.

Definition frame_at (v : env) (t : anode) : Prop :=
  forall k path s s', deep_ge k t = true -> (k = 4%nat -> no_tc t = true) ->
    walk v path t s = Ok s' ->
    forall i, (1 <= i < k)%nat -> (k <= 4)%nat -> slot i (c_lineage s') = slot i (c_lineage s).

Lemma kids_loop_frame v path ks k :
  Forall (frame_at v) ks -> forallb (deep_ge k) ks = true ->
  (k = 4%nat -> forallb no_tc ks = true) ->
  forall n s s', kids_loop v path ks n s = Ok s' ->
  forall i, (1 <= i < k)%nat -> (k <= 4)%nat -> slot i (c_lineage s') = slot i (c_lineage s).
Proof.
  induction 1 as [|t r Ht Hr IH]; intros Hd Hn n s s' H i Hi Hk; cbn [kids_loop] in H.
  - injection H as <-. reflexivity.
  - cbn [forallb] in Hd. apply andb_true_iff in Hd. destruct Hd as [D1 D2].
    bind_inv H as s1 E1.
    rewrite (IH D2 (fun E => proj2 (proj1 (andb_true_iff _ _) (Hn E))) _ _ _ H i Hi Hk).
    apply (Ht k _ _ _ D1 (fun E => proj1 (proj1 (andb_true_iff _ _) (Hn E))) E1 i Hi Hk).
Qed.

Lemma walk_frame v : forall t, frame_at v t.
Proof.
  apply ShapeFacts.anode_ind'.
  - intros tl k path s s' _ _ H i _ _. cbn in H. injection H as <-. reflexivity.
  - intros e ks IH k path s s' Hd Hn H i Hi Hk.
    cbn [deep_ge] in Hd. apply andb_true_iff in Hd. destruct Hd as [D1 D2].
    assert (Hc : forall name s1 s2, set_caret (elem_depth (AE e ks)) name s1 = Ok s2 ->
                 slot i (c_lineage s2) = slot i (c_lineage s1)).
    { intros name s1 s2 E. destruct (elem_depth (AE e ks)) as [d|].
      - apply Nat.leb_le in D1. apply set_caret_lin in E. destruct E as [_ E].
        apply E. lia.
      - cbn in E. injection E as <-. reflexivity. }
    rewrite walk_AE in H. cbv zeta in H.
    bind_inv H as s1 E1. bind_inv H as body Eb. bind_inv H as s2r Eo.
    destruct s2r as [s2 rec]. bind_inv H as s3 Ek. bind_inv H as s4 Ec.
    rewrite (Hc _ _ _ H).
    rewrite (close_tag_lineage _ _ _ _ _ Ec i).
    2:{ lia. }
    2:{ intro Etc. destruct (Nat.eq_dec k 4) as [K4|K4]; [|lia].
        specialize (Hn K4). cbn [no_tc] in Hn. rewrite Etc in Hn. discriminate Hn. }
    assert (E3 : slot i (c_lineage s3) = slot i (c_lineage s2)).
    { destruct rec.
      - eapply kids_loop_frame; eauto.
        intro K4. specialize (Hn K4). cbn [no_tc] in Hn.
        apply andb_true_iff in Hn. apply Hn.
      - injection Ek as <-. reflexivity. }
    rewrite E3. apply open_tag_lineage in Eo. rewrite (Eo i) by lia.
    apply (Hc _ _ _ E1).
Qed.

(* COUNTEREXAMPLE to the frame statement for k = 4 as first proposed
   (deep_ge k t alone): a w:tc without a paragraph below it has no depth, so
   deep_ge 4 holds of it, yet closing it with a gridSpan runs
   set_caret (Some 3) None, which erases slot 3.  Hence the hypothesis
   [k = 4 -> no_tc t = true]; for k <= 3 the statement holds as proposed. *)
Lemma lineage_frame_partial : forall v t k path s s',
  deep_ge k t = true -> (k = 4%nat -> no_tc t = true) -> (1 <= k <= 4)%nat -> Inv s ->
  walk v path t s = Ok s' ->
  forall i, (1 <= i < k)%nat -> slot i (c_lineage s') = slot i (c_lineage s).
Proof.
  intros v t k path s s' Hd Hn Hk _ H i Hi.
  apply (walk_frame v t k path s s' Hd Hn H i Hi). lia.
Qed.

Lemma lineage_frame_le3 : forall v t k path s s',
  deep_ge k t = true -> (1 <= k <= 3)%nat -> Inv s -> walk v path t s = Ok s' ->
  forall i, (1 <= i < k)%nat -> slot i (c_lineage s') = slot i (c_lineage s).
Proof.
  intros v t k path s s' Hd Hk Hs H i Hi.
  apply (lineage_frame_partial v t k path s s' Hd); auto; lia.
Qed.

Lemma plain_inline_no_tc : forall t, plain_inline t = true -> no_tc t = true.
Proof.
  apply (ShapeFacts.anode_ind' (fun t => plain_inline t = true -> no_tc t = true)).
  - reflexivity.
  - intros e ks IH H. apply plain_inline_AE in H. destruct H as [(_ & Hc & _) Hks].
    cbn [no_tc]. rewrite Hc. cbn [negb andb].
    induction IH as [|k r Hk Hr IHr]; [reflexivity|].
    cbn [forallb] in Hks |- *. apply andb_true_iff in Hks. destruct Hks as [K1 K2].
    rewrite (Hk K1), (IHr K2). reflexivity.
Qed.

(* the counterexample, machine-checked: a paragraph-less w:tc with
   <w:tcPr><w:gridSpan w:val="2"/></w:tcPr> walked at caret depth 4 *)
Definition cx_env : env :=
  {| env_x2h := []; env_rels := []; env_dup := false; env_numtbl := [] |}.
Definition cx_einfo (tag loc : str) (attrs : list (aname * str)) : einfo :=
  {| e_ptag := tag; e_uri := None; e_local := loc; e_wuri := Some [119]; e_ruri := None;
     e_attrs := attrs; e_text := None; e_tail := None |}.
Definition cx_tc : anode :=
  AE (cx_einfo tag_TABLE_CELL [116;99] [])
     [AE (cx_einfo [119;58;116;99;80;114] [116;99;80;114] [])
         [AE (cx_einfo [119;58;103;114;105;100;83;112;97;110] s_gridSpan
                       [((Some [119], s_val), [50])]) []]].
Definition cx_st : cst :=
  {| c_tree := [NL [NL [NL []]]]; c_depth := 4%nat;
     c_lineage := (Some [116;98;108], Some [116;114], Some [116;99], None);
     c_open := []; c_queued := []; c_ranges := []; c_counters := [] |}.

Lemma lineage_frame_counterexample :
  deep_ge 4 cx_tc = true /\ Inv cx_st /\
  exists s', walk cx_env [] cx_tc cx_st = Ok s' /\
             slot 3 (c_lineage s') <> slot 3 (c_lineage cx_st).
Proof.
  split; [vm_compute; reflexivity|]. split.
  { unfold Inv, tree_ok, cx_st. cbn. repeat split; lia. }
  eexists. split; [vm_compute; reflexivity|]. vm_compute. discriminate.
Qed.

(* ================================================================== *)
(* L3, L4: what a simple paragraph records                              *)
(* ================================================================== *)
Lemma simple_par_core : forall v e ks path s s',
  simple_par (AE e ks) = true -> walk v path (AE e ks) s = Ok s' ->
  exists s1 p t,
    set_caret (Some 4%nat) (Some (e_local e)) s = Ok s1 /\
    spine_app 4%nat (NP p) (c_tree s1) = Ok t /\ c_tree s' = t /\ c_depth s' = 4%nat /\
    p_lineage p = (slot 1 (c_lineage s), slot 2 (c_lineage s), slot 3 (c_lineage s),
                   Some (e_local e)) /\
    keepl 4 (c_lineage s) (c_lineage s').
Proof.
  intros v e ks path s s' Hsp H.
  cbn [simple_par] in Hsp. apply andb_true_iff in Hsp. destruct Hsp as [Ht Hks].
  pose proof (proj1 (str_eqb_eq _ _) Ht) as Htag.
  assert (Hd : elem_depth (AE e ks) = Some 4%nat).
  { unfold elem_depth. rewrite min_par_depth_AE, Htag. reflexivity. }
  rewrite walk_AE in H. cbv zeta in H. rewrite Hd in H.
  bind_inv H as s1 E1. exists s1.
  pose proof (set_caret_frame _ _ _ _ E1) as (_ & _ & D1 & _).
  pose proof (set_caret_lin _ _ _ _ E1) as [_ L1].
  rewrite Htag in H. change (str_eqb tag_PARAGRAPH tag_HYPERLINK) with false in H.
  cbv iota in H. cbn [bind] in H.
  bind_inv H as s2r Eo. destruct s2r as [s2 rec].
  unfold open_tag in Eo. cbv zeta in Eo. rewrite Ht in Eo.
  bind_inv Eo as s1b Ecp.
  destruct (get_par_number (to_numtable v) (c_counters s1b) (get_bullet_fmt (AE e ks)))
    as [cs number] eqn:Epn.
  bind_inv Eo as bl Ebl. bind_inv Eo as s2a Eins.
  destruct (c_open s2a) as [|p2 rest2] eqn:Eo2; [discriminate Eo|]. injection Eo as <- <-.
  (* commence_paragraph *)
  unfold commence_paragraph, par_depth in Ecp.
  bind_inv Ecp as s1a Ec1. bind_inv Ecp as hs Ehs. bind_inv Ecp as pst Epst.
  cbv zeta in Ecp. injection Ecp as <-.
  pose proof (set_caret_lin _ _ _ _ Ec1) as [N1a L1a].
  destruct (set_caret_at_depth _ _ _ _ D1 Ec1) as [l1a ->].
  (* the list marker *)
  match type of Eins with insert_text_as_new_run _ _ ?st = _ =>
    destruct (realizes_inv _ _ st _ _ _ (realizes_insert v (raw bl))
                (eq_refl : c_open st = _ :: _) Eins)
      as (em0 & rs0 & Eem0 & -> & T0)
  end.
  cbn [c_open set_open] in Eo2. injection Eo2 as <- <-.
  (* the children *)
  bind_inv H as s3 Ek.
  match type of Ek with kids_loop _ _ _ _ ?st = _ =>
    destruct (realizes_inv _ _ _ _ _ _
                (kids_loop_realizes v path ks (plain_kids_realizable v ks Hks) O)
                (eq_refl : c_open st = _ :: _) Ek)
      as (em & rs3 & Eem & -> & T3)
  end.
  (* conclude_paragraph *)
  bind_inv H as s4 Ec. unfold close_tag in Ec. cbv zeta in Ec. rewrite Ht in Ec.
  unfold conclude_paragraph, par_depth in Ec. cbn [c_open set_open] in Ec.
  bind_inv Ec as s3a Ec3. bind_inv Ec as t Et. injection Ec as <-.
  pose proof (set_caret_lin _ _ _ _ Ec3) as [_ L3].
  apply set_caret_at_depth in Ec3; [|exact D1]. destruct Ec3 as [l3 ->].
  pose proof (set_caret_lin _ _ _ _ H) as [_ L4].
  apply set_caret_at_depth in H; [|exact D1]. destruct H as [l4 ->].
  cbn [c_tree c_depth c_lineage set_tree set_lin set_open set_counters set_queued] in *.
  eexists. exists t. split; [reflexivity|]. split; [exact Et|].
  split; [reflexivity|]. split; [exact D1|]. split.
  - cbn [p_lineage with_runs with_listpos].
    rewrite (lineage_eta l1a), N1a, !(L1a _), !(L1 _) by discriminate. reflexivity.
  - eapply keepl_trans; [|exact L4]. eapply keepl_trans; [|exact L3].
    eapply keepl_trans; [exact L1|exact L1a].
Qed.

Lemma simple_par_lineage : forall v e ks path s s' ps,
  simple_par (AE e ks) = true -> Inv s -> walk v path (AE e ks) s = Ok s' ->
  pars_at 4%nat (c_tree s) = Ok ps ->
  exists p, pars_at 4%nat (c_tree s') = Ok (ps ++ [p]) /\
    p_lineage p = (slot 1 (c_lineage s), slot 2 (c_lineage s), slot 3 (c_lineage s),
                   Some (e_local e)).
Proof.
  intros v e ks path s s' ps Hsp Hs H Hps.
  destruct (simple_par_core _ _ _ _ _ _ Hsp H) as (s1 & p & t & E1 & Et & Ht & _ & Lp & _).
  exists p. split; [|exact Lp]. rewrite Ht.
  apply (spine_app_NP_pars 3%nat p (c_tree s1) t ps Et).
  eapply set_caret_pars; [exact Hs| |exact E1|exact Hps]. lia.
Qed.

Lemma free_par_no_tbl : forall v e ks path s s' ps,
  simple_par (AE e ks) = true -> Inv s -> walk v path (AE e ks) s = Ok s' ->
  pars_at 4%nat (c_tree s) = Ok ps ->
  slot 1 (c_lineage s) <> Some [116;98;108] ->
  exists p, pars_at 4%nat (c_tree s') = Ok (ps ++ [p]) /\
    slot 1 (p_lineage p) <> Some [116;98;108].
Proof.
  intros v e ks path s s' ps Hsp Hs H Hps Hn.
  destruct (simple_par_lineage _ _ _ _ _ _ _ Hsp Hs H Hps) as (p & Hp & Lp).
  exists p. split; [exact Hp|]. rewrite Lp. exact Hn.
Qed.

(* ================================================================== *)
(* L5: flat tables                                                      *)
(* ================================================================== *)
Definition no_par (t : anode) : bool := plain_inline t.
Definition flat_cell (t : anode) : bool :=
  match t with
  | AE e ks => str_eqb (e_ptag e) tag_TABLE_CELL
               && forallb (fun k => simple_par k || no_par k) ks && existsb simple_par ks
  | AX _ => false
  end.
Definition flat_row (t : anode) : bool :=
  match t with
  | AE e ks => str_eqb (e_ptag e) tag_TABLE_ROW
               && forallb (fun k => flat_cell k || no_par k) ks && existsb flat_cell ks
  | AX _ => false
  end.
Definition flat_tbl (t : anode) : bool :=
  match t with
  | AE e ks => str_eqb (e_ptag e) tag_TABLE
               && forallb (fun k => flat_row k || no_par k) ks && existsb flat_row ks
  | AX _ => false
  end.

Lemma mpd_list_flat (A : anode -> bool) n : forall ks,
  (forall k, A k = true -> min_par_depth k = Some n) ->
  forallb (fun k => A k || no_par k) ks = true -> existsb A ks = true ->
  mpd_list ks = Some n.
Proof.
  intros ks HA. induction ks as [|k r IH]; intros Hf He; [discriminate He|].
  cbn [forallb existsb mpd_list] in *.
  apply andb_true_iff in Hf. destruct Hf as [F1 F2].
  assert (Hr : mpd_list r = Some n \/ mpd_list r = None).
  { destruct (existsb A r) eqn:Er; [left; apply IH; auto|right].
    clear - F2 Er. induction r as [|x r IHr]; [reflexivity|].
    cbn [forallb existsb mpd_list] in *.
    apply andb_true_iff in F2. destruct F2 as [G1 G2].
    apply orb_false_iff in Er. destruct Er as [Ex Er]. rewrite Ex in G1. cbn [orb] in G1.
    unfold no_par in G1. rewrite (plain_inline_no_par _ G1), (IHr Er G2). reflexivity. }
  destruct (A k) eqn:Ak.
  - rewrite (HA _ Ak). destruct Hr as [-> | ->]; cbn [omin]; [rewrite Nat.min_id|]; reflexivity.
  - cbn [orb] in F1, He. unfold no_par in F1. rewrite (plain_inline_no_par _ F1).
    destruct Hr as [Hr|Hr]; [rewrite Hr; reflexivity|].
    rewrite (IH F2 He) in Hr. discriminate Hr.
Qed.

Lemma simple_par_mpd t : simple_par t = true -> min_par_depth t = Some 0%nat.
Proof.
  destruct t as [e ks|tl]; [|discriminate]. cbn [simple_par]. intro H.
  apply andb_true_iff in H. destruct H as [H _]. rewrite min_par_depth_AE, H. reflexivity.
Qed.

Lemma flat_cell_mpd t : flat_cell t = true -> min_par_depth t = Some 1%nat.
Proof.
  destruct t as [e ks|tl]; [|discriminate]. cbn [flat_cell]. intro H.
  apply andb_true_iff in H. destruct H as [H He].
  apply andb_true_iff in H. destruct H as [Ht Hf].
  apply str_eqb_eq in Ht. rewrite min_par_depth_AE, Ht.
  change (str_eqb tag_TABLE_CELL tag_PARAGRAPH) with false. cbv iota.
  rewrite (mpd_list_flat simple_par 0%nat ks simple_par_mpd Hf He). reflexivity.
Qed.

Lemma flat_row_mpd t : flat_row t = true -> min_par_depth t = Some 2%nat.
Proof.
  destruct t as [e ks|tl]; [|discriminate]. cbn [flat_row]. intro H.
  apply andb_true_iff in H. destruct H as [H He].
  apply andb_true_iff in H. destruct H as [Ht Hf].
  apply str_eqb_eq in Ht. rewrite min_par_depth_AE, Ht.
  change (str_eqb tag_TABLE_ROW tag_PARAGRAPH) with false. cbv iota.
  rewrite (mpd_list_flat flat_cell 1%nat ks flat_cell_mpd Hf He). reflexivity.
Qed.

Lemma flat_tbl_mpd t : flat_tbl t = true -> min_par_depth t = Some 3%nat.
Proof.
  destruct t as [e ks|tl]; [|discriminate]. cbn [flat_tbl]. intro H.
  apply andb_true_iff in H. destruct H as [H He].
  apply andb_true_iff in H. destruct H as [Ht Hf].
  apply str_eqb_eq in Ht. rewrite min_par_depth_AE, Ht.
  change (str_eqb tag_TABLE tag_PARAGRAPH) with false. cbv iota.
  rewrite (mpd_list_flat flat_row 2%nat ks flat_row_mpd Hf He). reflexivity.
Qed.

Lemma flat_cell_depth t : flat_cell t = true -> elem_depth t = Some 3%nat.
Proof.
  intro H. pose proof (flat_cell_mpd t H) as Hm.
  destruct t as [e ks|tl]; [|discriminate]. cbn [flat_cell] in H.
  apply andb_true_iff in H. destruct H as [H _]. apply andb_true_iff in H. destruct H as [Ht _].
  apply str_eqb_eq in Ht. unfold elem_depth. rewrite Hm, Ht. reflexivity.
Qed.

Lemma flat_row_depth t : flat_row t = true -> elem_depth t = Some 2%nat.
Proof.
  intro H. pose proof (flat_row_mpd t H) as Hm.
  destruct t as [e ks|tl]; [|discriminate]. cbn [flat_row] in H.
  apply andb_true_iff in H. destruct H as [H _]. apply andb_true_iff in H. destruct H as [Ht _].
  apply str_eqb_eq in Ht. unfold elem_depth. rewrite Hm, Ht. reflexivity.
Qed.

Lemma flat_tbl_depth t : flat_tbl t = true -> elem_depth t = Some 1%nat.
Proof.
  intro H. pose proof (flat_tbl_mpd t H) as Hm.
  destruct t as [e ks|tl]; [|discriminate]. cbn [flat_tbl] in H.
  apply andb_true_iff in H. destruct H as [H _]. apply andb_true_iff in H. destruct H as [Ht _].
  apply str_eqb_eq in Ht. unfold elem_depth. rewrite Hm, Ht. reflexivity.
Qed.

Lemma flat_depths : forall t,
  (flat_cell t = true -> elem_depth t = Some 3%nat) /\
  (flat_row t = true -> elem_depth t = Some 2%nat) /\
  (flat_tbl t = true -> elem_depth t = Some 1%nat).
Proof.
  intro t. split; [apply flat_cell_depth|]. split; [apply flat_row_depth|apply flat_tbl_depth].
Qed.

Definition cell_par_ok (p : par) : Prop :=
  (exists x, p_lineage p = (Some [116;98;108], Some [116;114], Some [116;99], Some x))
  \/ p_lineage p = (Some [], Some [], Some [], Some []).

(* every paragraph at or below a node satisfies Q *)
Fixpoint nall (Q : par -> Prop) (n : node) : Prop :=
  match n with
  | NP p => Q p
  | NL l => (fix all (l : list node) : Prop :=
               match l with [] => True | x :: r => nall Q x /\ all r end) l
  end.

Lemma nall_NL Q : forall l, nall Q (NL l) <-> Forall (nall Q) l.
Proof.
  induction l as [|x l IH].
  - cbn. split; intros; [constructor|exact I].
  - change (nall Q (NL (x :: l))) with (nall Q x /\ nall Q (NL l)).
    rewrite IH. split.
    + intros [H1 H2]. constructor; assumption.
    + intros H. inversion H; subst. split; assumption.
Qed.

Definition okn : node -> Prop := nall cell_par_ok.

Lemma okn_NL l : okn (NL l) <-> Forall okn l.
Proof. apply nall_NL. Qed.

Lemma okn_nil : okn (NL []).
Proof. apply okn_NL. constructor. Qed.

Lemma okn_empty_cell : okn (NL [NP new_empty_par]).
Proof. apply okn_NL. constructor; [|constructor]. right. reflexivity. Qed.

Lemma copy_node_okn : forall n, okn n -> okn (copy_node n).
Proof.
  induction n as [p|l IH] using TokFacts.node_ind'; intros H.
  - exact H.
  - cbn [copy_node]. apply okn_NL. apply okn_NL in H.
    induction IH as [|x l Hx Hl IHl]; [constructor|].
    inversion H; subst. cbn [map]. constructor; auto.
Qed.

Lemma spine_app_okn : forall d x l l',
  spine_app d x l = Ok l' -> okn x -> Forall okn l -> Forall okn l'.
Proof.
  induction d as [|d IH]; intros x l l' H Hx Hl; [discriminate H|].
  destruct d as [|d'].
  - cbn in H. injection H as <-. constructor; assumption.
  - cbn [spine_app] in H. destruct l as [|n rest]; [discriminate H|].
    destruct n as [l0|p]; [|discriminate H].
    bind_inv H as l2 E. injection H as <-.
    inversion Hl; subst. constructor; [|assumption].
    apply okn_NL. eapply IH; [exact E|exact Hx|]. apply okn_NL. assumption.
Qed.

Lemma pars_at_okn : forall d l ps,
  pars_at d l = Ok ps -> Forall okn l -> Forall cell_par_ok ps.
Proof.
  induction d as [|d IH]; intros l ps H Hl; [discriminate H|].
  destruct d as [|d'].
  - cbn [pars_at] in H.
    eapply mapM_Forall; [|exact H|apply Forall_rev'; exact Hl].
    intros x y Hx Hy. destruct x as [l0|p]; [discriminate Hy|].
    injection Hy as <-. exact Hx.
  - rewrite pars_at_SS in H. bind_inv H as xs E. injection H as <-.
    apply Forall_concat'.
    eapply mapM_Forall; [|exact E|apply Forall_rev'; exact Hl].
    intros x y Hx Hy. cbv beta in Hy. destruct x as [l0|p]; [|discriminate Hy].
    eapply IH; [exact Hy|]. apply okn_NL. exact Hx.
Qed.

Lemma mapM_total {A B} (f : A -> res B) : forall l,
  (forall x, In x l -> exists y, f x = Ok y) -> exists ys, mapM f l = Ok ys.
Proof.
  induction l as [|x l IH]; intro H; [exists []; reflexivity|].
  destruct (H x (or_introl eq_refl)) as [y Ey].
  destruct IH as [ys Eys]; [intros z Hz; apply H; right; exact Hz|].
  exists (y :: ys). cbn [mapM]. rewrite Ey. cbn [bind]. rewrite Eys. reflexivity.
Qed.

(* a well-shaped tree can be read back *)
Lemma shape_pars_at : forall d k l, (d + k = 5)%nat -> (1 <= d)%nat ->
  forallb (shapeb k) l = true -> exists ps, pars_at d l = Ok ps.
Proof.
  induction d as [|d IH]; intros k l Hk Hd Hl; [lia|].
  destruct d as [|d'].
  - cbn [pars_at].
    apply mapM_total. intros x Hx. apply in_rev in Hx.
    pose proof (proj1 (forallb_forall _ _) Hl _ Hx) as Sx.
    destruct x as [l0|p]; [|eauto].
    assert (k = 4%nat) by lia. subst k. cbn in Sx. discriminate Sx.
  - rewrite pars_at_SS.
    destruct (mapM_total (fun n => match n with
                                   | NL l' => pars_at (S d') l'
                                   | NP _ => Err TypeError
                                   end) (rev l)) as [xs Exs].
    { intros x Hx. apply in_rev in Hx.
      pose proof (proj1 (forallb_forall _ _) Hl _ Hx) as Sx.
      destruct x as [l0|p].
      - rewrite shapeb_NL in Sx. apply andb_true_iff in Sx. destruct Sx as [_ Sx].
        apply (IH (S k)); [lia|lia|exact Sx].
      - cbn in Sx. apply Nat.eqb_eq in Sx. lia. }
    rewrite Exs. cbn [bind]. eauto.
Qed.

Lemma pars_at_cons_head tbl old ps new :
  pars_at 4%nat old = Ok ps -> pars_at 3%nat tbl = Ok new ->
  pars_at 4%nat (NL tbl :: old) = Ok (ps ++ new).
Proof.
  intros Ho Ht. rewrite pars_at_SS in Ho |- *. cbn [rev].
  bind_inv Ho as xs Exs. injection Ho as <-.
  rewrite (mapM_app_ok _ _ _ xs [new] Exs).
  2:{ cbn [mapM]. rewrite Ht. reflexivity. }
  cbn [bind]. rewrite concat_app. cbn [concat]. rewrite app_nil_r. reflexivity.
Qed.

(* ---------- the table under construction is the head of the root ---------- *)
Definition in_tbl (old : list node) (s : cst) : Prop :=
  (2 <= c_depth s)%nat /\ exists tbl, c_tree s = NL tbl :: old /\ Forall okn tbl.
Definition tinv (old : list node) (s : cst) : Prop :=
  (c_depth s = 1%nat /\ c_tree s = old) \/ in_tbl old s.

Lemma in_tbl_core old s s' : core_eq s s' -> in_tbl old s -> in_tbl old s'.
Proof. intros (T & D & _) H. unfold in_tbl. rewrite T, D. exact H. Qed.

Lemma tinv_core old s s' : core_eq s s' -> tinv old s -> tinv old s'.
Proof.
  intros C [H|H]; [left|right; eapply in_tbl_core; eauto].
  destruct C as (T & D & _). rewrite T, D. exact H.
Qed.

Lemma spine_app_head d x tbl old t :
  spine_app (S (S d)) x (NL tbl :: old) = Ok t -> okn x -> Forall okn tbl ->
  exists tbl', t = NL tbl' :: old /\ Forall okn tbl'.
Proof.
  intros H Hx Ht. rewrite spine_app_SS in H. bind_inv H as tbl' E. injection H as <-.
  exists tbl'. split; [reflexivity|]. eapply spine_app_okn; eauto.
Qed.

Lemma in_tbl_pars old s ps :
  Inv s -> in_tbl old s -> pars_at 4%nat old = Ok ps ->
  exists new, pars_at 4%nat (c_tree s) = Ok (ps ++ new) /\ Forall cell_par_ok new.
Proof.
  intros (T & _) (_ & tbl & E & Hok) Hps. rewrite E in T |- *.
  unfold tree_ok in T. cbn [forallb] in T. apply andb_true_iff in T. destruct T as [T _].
  rewrite shapeb_NL in T. apply andb_true_iff in T. destruct T as [_ T].
  destruct (shape_pars_at 3%nat 2%nat tbl) as [new Hn]; [lia|lia|exact T|].
  exists new. split; [apply pars_at_cons_head; assumption|].
  eapply pars_at_okn; eauto.
Qed.

Lemma drop_caret_tinv old s s' : tinv old s -> drop_caret s = Ok s' -> in_tbl old s'.
Proof.
  intros Hs H. unfold drop_caret in H.
  destruct (Nat.leb par_depth (c_depth s)); [discriminate H|].
  bind_inv H as t Et. injection H as <-. unfold in_tbl. cbn [c_depth c_tree set_depth set_tree].
  destruct Hs as [[D T]|(D & tbl & T & Hok)].
  - rewrite D, T in Et. cbn in Et. injection Et as <-. rewrite D.
    split; [lia|]. exists []. split; [reflexivity|constructor].
  - split; [lia|]. rewrite T in Et.
    destruct (c_depth s) as [|[|d]]; try lia.
    destruct (spine_app_head _ _ _ _ _ Et okn_nil Hok) as (tbl' & -> & Hok').
    exists tbl'. auto.
Qed.

Lemma raise_caret_in_tbl old s s' :
  in_tbl old s -> (3 <= c_depth s)%nat -> raise_caret s = Ok s' -> in_tbl old s'.
Proof.
  intros (D & Hs) D3 H. unfold raise_caret in H.
  destruct (Nat.leb (c_depth s) 1); [discriminate H|]. injection H as <-.
  split; [cbn; lia|exact Hs].
Qed.

Lemma set_caret_go_tinv old : forall fuel d name s s', (2 <= d)%nat ->
  tinv old s -> set_caret_go fuel d name s = Ok s' -> in_tbl old s'.
Proof.
  induction fuel as [|f IH]; intros d name s s' Hd Hs H; [discriminate H|].
  cbn [set_caret_go] in H.
  destruct (Nat.eqb_spec (c_depth s) d) as [E|E].
  - bind_inv H as l El. injection H as <-.
    destruct Hs as [[D _]|Hs]; [lia|]. exact Hs.
  - destruct (Nat.ltb_spec (c_depth s) d) as [L|L].
    + bind_inv H as s1 E1. eapply IH; [exact Hd| |exact H].
      right. eapply drop_caret_tinv; eauto.
    + bind_inv H as l El. bind_inv H as s1 E1. eapply IH; [exact Hd| |exact H].
      right. destruct Hs as [[D _]|Hs]; [lia|].
      apply (raise_caret_in_tbl old (set_lin l s) s1); [exact Hs|cbn; lia|exact E1].
Qed.

Lemma set_caret_tinv old d name s s' : (2 <= d)%nat ->
  tinv old s -> set_caret (Some d) name s = Ok s' -> in_tbl old s'.
Proof. apply set_caret_go_tinv. Qed.

Lemma set_caret_Inv d name s s' : (1 <= d <= 4)%nat -> Inv s ->
  set_caret (Some d) name s = Ok s' -> Inv s' /\ c_depth s' = d.
Proof.
  intros Hd Hs H. destruct (set_caret_inv d name s Hd Hs) as (s'' & E & I1 & D1 & _).
  rewrite H in E. injection E as <-. auto.
Qed.

(* ---------- close_table_cell edits the head table only ---------- *)
Lemma py_get_at_head {A} (x : A) l : py_get (x :: l) (length l) = Some x.
Proof.
  unfold py_get. cbn [length].
  destruct (Nat.leb_spec (S (length l)) (length l)) as [L|L]; [lia|].
  replace (S (length l) - 1 - length l)%nat with 0%nat by lia. reflexivity.
Qed.

Lemma py_upd_at_head {A} (x : A) l f l' :
  py_upd (x :: l) (length l) f = Ok l' -> exists y, f x = Ok y /\ l' = y :: l.
Proof.
  unfold py_upd. cbn [length].
  destruct (Nat.leb_spec (S (length l)) (length l)) as [L|L]; [lia|].
  replace (S (length l) - 1 - length l)%nat with 0%nat by lia. cbn [upd_nth].
  intro H. bind_inv H as y Ey. injection H as <-. eauto.
Qed.

Lemma upd_row_head tbl old ri f root' :
  upd_row (NL tbl :: old) (length old) ri f = Ok root' ->
  (forall cs cs', Forall okn cs -> f cs = Ok cs' -> Forall okn cs') ->
  Forall okn tbl -> exists tbl', root' = NL tbl' :: old /\ Forall okn tbl'.
Proof.
  intros H Hf Hok. unfold upd_row in H. apply py_upd_at_head in H.
  destruct H as (y & Ey & ->). cbn [as_list bind] in Ey.
  bind_inv Ey as rows' E2. injection Ey as <-.
  exists rows'. split; [reflexivity|].
  eapply py_upd_ok; [|exact Hok|exact E2].
  intros r r' Hr Hr'. cbv beta in Hr'.
  bind_inv Hr' as cells E3. bind_inv Hr' as c' E4. injection Hr' as <-.
  apply okn_NL. eapply Hf; [|exact E4].
  destruct r as [l0|p0]; [|discriminate E3]. injection E3 as <-. apply okn_NL. exact Hr.
Qed.

Lemma close_table_cell_in_tbl old v e ks s s' :
  in_tbl old s -> close_table_cell v e ks s = Ok s' -> in_tbl old s'.
Proof.
  intros Hs H. unfold close_table_cell in H.
  bind_inv H as pr Epr. cbv zeta in H.
  (* the two early returns of the repaired _close_table_cell *)
  destruct (c_tree s) as [|tb0 root0] eqn:Eroot0; [injection H as <-; exact Hs|].
  rewrite <- Eroot0 in H.
  bind_inv H as rows0 Erows0.
  destruct rows0 as [|rb0 rows1] eqn:Erows1; [injection H as <-; exact Hs|].
  rewrite <- Erows1 in H.
  bind_inv H as dummy Edummy.
  assert (Eti : (length (c_tree s) - 1 = length old)%nat).
  { destruct Hs as (_ & tbl & T & _). rewrite T. cbn [length]. lia. }
  rewrite Eti in H.
  bind_inv H as s1 Es1. bind_inv H as span Espan.
  assert (Hs1 : in_tbl old s1).
  { clear H Espan.
    match type of Es1 with (if ?c then _ else _) = _ => destruct c end.
    - bind_inv Es1 as sa Esa. bind_inv Es1 as t Et. bind_inv Es1 as rows Er.
      bind_inv Es1 as prev Ep. bind_inv Es1 as cells Ec. cbv zeta in Es1.
      assert (Ha : in_tbl old sa).
      { eapply (set_caret_tinv old 3%nat); [lia|right; exact Hs|exact Esa]. }
      destruct cells as [|cell0 cells0]; [injection Es1 as <-; exact Ha|].
      destruct (py_nth (rev prev) (Z.of_nat (length (cell0 :: cells0)) - 1)) as [src|] eqn:En;
        [|injection Es1 as <-; exact Ha].
      bind_inv Es1 as root' Eroot. injection Es1 as <-.
      destruct Ha as (Da & tbla & Ta & Hoka).
      rewrite Ta in Et, Eroot. rewrite py_get_at_head in Et. cbn in Et. injection Et as <-.
      cbn in Er. injection Er as <-.
      assert (Hprev : Forall okn prev).
      { destruct tbla as [|r0 [|p0 rows]]; try discriminate Ep.
        destruct p0 as [l0|p0]; [|discriminate Ep]. injection Ep as <-.
        inversion Hoka as [|? ? _ Hr]; subst. inversion Hr; subst.
        apply okn_NL. assumption. }
      assert (Hsrc : okn src).
      { apply py_nth_In in En. apply in_rev in En.
        exact (proj1 (Forall_forall _ _) Hprev _ En). }
      destruct (upd_row_head _ _ _ _ _ Eroot) as (tbl' & -> & Hok').
      + intros cs cs' Hcs Hcs'. destruct cs as [|c0 r]; [discriminate Hcs'|].
        injection Hcs' as <-. inversion Hcs; subst.
        constructor; [apply copy_node_okn; exact Hsrc|assumption].
      + exact Hoka.
      + split; [exact Da|]. exists tbl'. auto.
    - injection Es1 as <-. exact Hs. }
  clear Es1 Espan Hs. revert s1 Hs1 H. generalize (Z.to_nat (span - 1)).
  induction n as [|n IH]; intros s1 Hs1 H.
  - injection H as <-. exact Hs1.
  - cbn [bind] in H. bind_inv H as sa Esa. bind_inv H as root' Eroot.
    eapply IH; [|exact H]. clear IH H.
    assert (Ha : in_tbl old sa).
    { eapply (set_caret_tinv old 3%nat); [lia|right; exact Hs1|exact Esa]. }
    destruct Ha as (Da & tbla & Ta & Hoka). rewrite Ta in Eroot.
    destruct (upd_row_head _ _ _ _ _ Eroot) as (tbl' & -> & Hok').
    + intros cs cs' Hcs Hcs'. cbv beta in Hcs'. destruct (env_dup v).
      * destruct cs as [|c0 r];
          [injection Hcs' as <-; constructor; [apply okn_empty_cell|exact Hcs]|].
        injection Hcs' as <-. inversion Hcs; subst.
        constructor; [apply copy_node_okn; assumption|exact Hcs].
      * injection Hcs' as <-. constructor; [apply okn_empty_cell|exact Hcs].
    + exact Hoka.
    + split; [exact Da|]. exists tbl'. auto.
Qed.

(* ---------- the walk of a flat table ---------- *)
Definition s_tbl : str := [116;98;108].
Definition s_tr : str := [116;114].
Definition s_tc : str := [116;99].

(* local names as in WordprocessingML for the rows and cells of a table *)
Definition cell_named (t : anode) : bool :=
  match t with AE e _ => str_eqb (e_local e) s_tc | AX _ => true end.
Definition row_named (t : anode) : bool :=
  match t with
  | AE e ks => str_eqb (e_local e) s_tr
               && forallb (fun c => negb (flat_cell c) || cell_named c) ks
  | AX _ => true
  end.
Definition names_ok (t : anode) : bool :=
  match t with
  | AE e ks => forallb (fun r => negb (flat_row r) || row_named r) ks
  | AX _ => true
  end.

Lemma walk_AE_inv v path e ks s s' :
  walk v path (AE e ks) s = Ok s' ->
  exists s1 body s2 b s3 s4,
    set_caret (elem_depth (AE e ks)) (Some (e_local e)) s = Ok s1 /\
    open_tag v path (AE e ks) e ks body s1 = Ok (s2, b) /\
    (if b then kids_loop v path ks O s2 else Ok s2) = Ok s3 /\
    close_tag v e ks s3 = Ok s4 /\
    set_caret (elem_depth (AE e ks)) None s4 = Ok s'.
Proof.
  intro H. rewrite walk_AE in H. cbv zeta in H.
  bind_inv H as s1 E1. bind_inv H as body Eb. bind_inv H as s2r Eo.
  destruct s2r as [s2 b]. bind_inv H as s3 Ek. bind_inv H as s4 Ec.
  exists s1, body, s2, b, s3, s4. auto.
Qed.

Lemma kids_loop_inv (R : cst -> Prop) v path : forall ks,
  (forall k, In k ks -> forall path s s', R s -> walk v path k s = Ok s' -> R s') ->
  forall i s s', R s -> kids_loop v path ks i s = Ok s' -> R s'.
Proof.
  induction ks as [|k r IH]; intros Hk i s s' HR H; cbn [kids_loop] in H.
  - injection H as <-. exact HR.
  - bind_inv H as s1 E1. eapply IH; [|eapply Hk; [left; reflexivity|exact HR|exact E1]|exact H].
    intros k' Hk'. apply Hk. right. exact Hk'.
Qed.

Lemma in_tbl_caret4 old name s s' :
  in_tbl old s -> set_caret (Some 4%nat) name s = Ok s' -> in_tbl old s'.
Proof. intros Hs H. eapply (set_caret_tinv old 4%nat); [lia|right; exact Hs|exact H]. Qed.

Lemma tinv_caret4 old name s s' :
  tinv old s -> set_caret (Some 4%nat) name s = Ok s' -> tinv old s'.
Proof. intros Hs H. right. eapply (set_caret_tinv old 4%nat); [lia|exact Hs|exact H]. Qed.

Lemma inline_lineage v t path s s' :
  plain_inline t = true -> walk v path t s = Ok s' -> keepl 4 (c_lineage s) (c_lineage s').
Proof.
  intros Hpl H.
  apply (inline_P (fun s0 => keepl 4 (c_lineage s) (c_lineage s0))) with (v := v) (t := t)
                                                                          (path := path) (s := s).
  - intros s1 s2 (_ & _ & E) K. rewrite E. exact K.
  - intros name s1 s2 K E. apply set_caret_lin in E. destruct E as [_ E].
    eapply keepl_trans; eauto.
  - exact Hpl.
  - apply keepl_refl.
  - exact H.
Qed.

Definition in_cell (old : list node) (s : cst) : Prop :=
  Inv s /\ in_tbl old s /\ slot 1 (c_lineage s) = Some s_tbl /\
  slot 2 (c_lineage s) = Some s_tr /\ slot 3 (c_lineage s) = Some s_tc.
Definition in_row (old : list node) (s : cst) : Prop :=
  Inv s /\ in_tbl old s /\ slot 1 (c_lineage s) = Some s_tbl /\
  slot 2 (c_lineage s) = Some s_tr.
Definition in_table (old : list node) (s : cst) : Prop :=
  Inv s /\ tinv old s /\ slot 1 (c_lineage s) = Some s_tbl.

Lemma simple_par_in_cell old v k path s s' :
  simple_par k = true -> in_cell old s -> walk v path k s = Ok s' -> in_cell old s'.
Proof.
  intros Hsp (Hi & Ht & L1 & L2 & L3) H.
  destruct k as [e ks|tl]; [|discriminate Hsp].
  pose proof (walk_inv _ _ _ _ _ Hi H) as Hi'.
  destruct (simple_par_core _ _ _ _ _ _ Hsp H) as (s1 & p & t & E1 & Et & Etr & D' & Lp & K).
  pose proof (in_tbl_caret4 _ _ _ _ Ht E1) as (D1 & tbl1 & T1 & Hok1).
  rewrite T1 in Et.
  destruct (spine_app_head _ _ _ _ _ Et) as (tbl' & -> & Hok').
  { left. exists (e_local e). rewrite Lp, L1, L2, L3. reflexivity. }
  { exact Hok1. }
  split; [exact Hi'|]. split.
  { split; [lia|]. exists tbl'. auto. }
  rewrite (K 1%nat), (K 2%nat), (K 3%nat) by lia. auto.
Qed.

Lemma inline_in_cell old v k path s s' :
  no_par k = true -> in_cell old s -> walk v path k s = Ok s' -> in_cell old s'.
Proof.
  intros Hn (Hi & Ht & L1 & L2 & L3) H. unfold no_par in Hn.
  pose proof (inline_lineage _ _ _ _ _ Hn H) as K.
  split; [eapply walk_inv; eauto|]. split.
  - apply (inline_P (in_tbl old) (in_tbl_core old) (in_tbl_caret4 old) v k Hn path s s' Ht H).
  - rewrite (K 1%nat), (K 2%nat), (K 3%nat) by lia. auto.
Qed.

Lemma inline_in_row old v k path s s' :
  no_par k = true -> in_row old s -> walk v path k s = Ok s' -> in_row old s'.
Proof.
  intros Hn (Hi & Ht & L1 & L2) H. unfold no_par in Hn.
  pose proof (inline_lineage _ _ _ _ _ Hn H) as K.
  split; [eapply walk_inv; eauto|]. split.
  - apply (inline_P (in_tbl old) (in_tbl_core old) (in_tbl_caret4 old) v k Hn path s s' Ht H).
  - rewrite (K 1%nat), (K 2%nat) by lia. auto.
Qed.

Lemma inline_in_table old v k path s s' :
  no_par k = true -> in_table old s -> walk v path k s = Ok s' -> in_table old s'.
Proof.
  intros Hn (Hi & Ht & L1) H. unfold no_par in Hn.
  pose proof (inline_lineage _ _ _ _ _ Hn H) as K.
  split; [eapply walk_inv; eauto|]. split.
  - apply (inline_P (tinv old) (tinv_core old) (tinv_caret4 old) v k Hn path s s' Ht H).
  - rewrite (K 1%nat) by lia. auto.
Qed.

(* one cell, walked from a state whose slots 1, 2 are tbl, tr *)
Lemma flat_cell_lineage old v t path s s' :
  flat_cell t = true -> cell_named t = true ->
  in_row old s -> walk v path t s = Ok s' -> in_row old s'.
Proof.
  intros Hf Hnm (Hi & Ht & L1 & L2) H.
  pose proof (flat_cell_depth t Hf) as Hd.
  destruct t as [e ks|tl]; [|discriminate Hf].
  cbn [flat_cell] in Hf. apply andb_true_iff in Hf. destruct Hf as [Hf _].
  apply andb_true_iff in Hf. destruct Hf as [Htag Hks]. apply str_eqb_eq in Htag.
  cbn [cell_named] in Hnm. apply str_eqb_eq in Hnm.
  apply walk_AE_inv in H.
  destruct H as (s1 & body & s2 & b & s3 & s4 & E1 & Eo & Ek & Ec & E5).
  rewrite Hd in E1, E5.
  (* open *)
  assert (C1 : in_cell old s1).
  { destruct (set_caret_Inv 3%nat _ _ _ ltac:(lia) Hi E1) as [I1 _].
    pose proof (set_caret_lin _ _ _ _ E1) as [N K].
    split; [exact I1|]. split.
    - eapply (set_caret_tinv old 3%nat); [lia|right; exact Ht|exact E1].
    - rewrite (K 1%nat), (K 2%nat), N, Hnm by lia. auto. }
  assert (C2 : in_cell old s2).
  { destruct C1 as (I1 & T1 & A1 & A2 & A3).
    pose proof (open_tag_lineage _ _ _ _ _ _ _ _ _ Eo) as K.
    split; [eapply open_tag_inv; eauto|]. split.
    - apply (open_tag_P (in_tbl old) (in_tbl_core old) (in_tbl_caret4 old) _ _ _ _ _ _ _ _ _ Eo T1).
    - rewrite (K 1%nat), (K 2%nat), (K 3%nat) by lia. auto. }
  (* children *)
  assert (C3 : in_cell old s3).
  { destruct b; [|injection Ek as <-; exact C2].
    eapply (kids_loop_inv (in_cell old)); [|exact C2|exact Ek].
    intros k Hk path' sa sb Ca Hw.
    pose proof (proj1 (forallb_forall _ _) Hks k Hk) as Hkk.
    apply orb_true_iff in Hkk. destruct Hkk as [Hkk|Hkk].
    - eapply simple_par_in_cell; eauto.
    - eapply inline_in_cell; eauto. }
  (* close *)
  destruct C3 as (I3 & T3 & A1 & A2 & A3).
  pose proof (close_tag_inv _ _ _ _ _ I3 Ec) as I4.
  unfold close_tag in Ec. cbv zeta in Ec. rewrite Htag in Ec.
  change (str_eqb tag_TABLE_CELL tag_PARAGRAPH) with false in Ec.
  change (str_eqb tag_TABLE_CELL tag_RUN) with false in Ec.
  change (str_eqb tag_TABLE_CELL tag_TABLE_CELL) with true in Ec. cbv iota in Ec.
  pose proof (close_table_cell_in_tbl _ _ _ _ _ _ T3 Ec) as T4.
  pose proof (close_table_cell_lineage _ _ _ _ _ Ec) as K4.
  destruct (set_caret_Inv 3%nat _ _ _ ltac:(lia) I4 E5) as [I5 _].
  pose proof (set_caret_lin _ _ _ _ E5) as [_ K5].
  split; [exact I5|]. split.
  - eapply (set_caret_tinv old 3%nat); [lia|right; exact T4|exact E5].
  - rewrite (K5 1%nat), (K5 2%nat), (K4 1%nat), (K4 2%nat) by lia. auto.
Qed.

Lemma flat_row_lineage old v t path s s' :
  flat_row t = true -> row_named t = true ->
  in_table old s -> walk v path t s = Ok s' -> in_table old s'.
Proof.
  intros Hf Hnm (Hi & Ht & L1) H.
  pose proof (flat_row_depth t Hf) as Hd.
  destruct t as [e ks|tl]; [|discriminate Hf].
  cbn [flat_row] in Hf. apply andb_true_iff in Hf. destruct Hf as [Hf _].
  apply andb_true_iff in Hf. destruct Hf as [Htag Hks]. apply str_eqb_eq in Htag.
  cbn [row_named] in Hnm. apply andb_true_iff in Hnm. destruct Hnm as [Hnm Hcn].
  apply str_eqb_eq in Hnm.
  apply walk_AE_inv in H.
  destruct H as (s1 & body & s2 & b & s3 & s4 & E1 & Eo & Ek & Ec & E5).
  rewrite Hd in E1, E5.
  assert (C1 : in_row old s1).
  { destruct (set_caret_Inv 2%nat _ _ _ ltac:(lia) Hi E1) as [I1 _].
    pose proof (set_caret_lin _ _ _ _ E1) as [N K].
    split; [exact I1|]. split.
    - eapply (set_caret_tinv old 2%nat); [lia|exact Ht|exact E1].
    - rewrite (K 1%nat), N, Hnm by lia. auto. }
  assert (C2 : in_row old s2).
  { destruct C1 as (I1 & T1 & A1 & A2).
    pose proof (open_tag_lineage _ _ _ _ _ _ _ _ _ Eo) as K.
    split; [eapply open_tag_inv; eauto|]. split.
    - apply (open_tag_P (in_tbl old) (in_tbl_core old) (in_tbl_caret4 old) _ _ _ _ _ _ _ _ _ Eo T1).
    - rewrite (K 1%nat), (K 2%nat) by lia. auto. }
  assert (C3 : in_row old s3).
  { destruct b; [|injection Ek as <-; exact C2].
    eapply (kids_loop_inv (in_row old)); [|exact C2|exact Ek].
    intros k Hk path' sa sb Ca Hw.
    pose proof (proj1 (forallb_forall _ _) Hks k Hk) as Hkk.
    pose proof (proj1 (forallb_forall _ _) Hcn k Hk) as Hkn. cbv beta in Hkk, Hkn.
    apply orb_true_iff in Hkk. destruct Hkk as [Hkk|Hkk].
    - rewrite Hkk in Hkn. cbn [negb orb] in Hkn. eapply flat_cell_lineage; eauto.
    - eapply inline_in_row; eauto. }
  destruct C3 as (I3 & T3 & A1 & A2).
  pose proof (close_tag_inv _ _ _ _ _ I3 Ec) as I4.
  assert (Hp : str_eqb (e_ptag e) tag_PARAGRAPH = false) by (rewrite Htag; reflexivity).
  assert (Hc : str_eqb (e_ptag e) tag_TABLE_CELL = false) by (rewrite Htag; reflexivity).
  pose proof (close_tag_P (in_tbl old) (in_tbl_core old) (in_tbl_caret4 old)
                _ _ _ _ _ Hp Hc Ec T3) as T4.
  pose proof (close_tag_lineage _ _ _ _ _ Ec) as K4.
  destruct (set_caret_Inv 2%nat _ _ _ ltac:(lia) I4 E5) as [I5 _].
  pose proof (set_caret_lin _ _ _ _ E5) as [_ K5].
  split; [exact I5|]. split.
  - right. eapply (set_caret_tinv old 2%nat); [lia|right; exact T4|exact E5].
  - rewrite (K5 1%nat), (K4 1%nat) by (try lia; rewrite Hc; discriminate). exact A1.
Qed.

Lemma flat_tbl_lineage : forall v t path s s' ps,
  flat_tbl t = true -> Inv s -> walk v path t s = Ok s' ->
  pars_at 4%nat (c_tree s) = Ok ps ->
  (forall e ks, t = AE e ks -> e_local e = [116;98;108]) ->
  names_ok t = true ->
  exists new, pars_at 4%nat (c_tree s') = Ok (ps ++ new) /\ Forall cell_par_ok new.
Proof.
  intros v t path s s' ps Hf Hi H Hps Hnm Hnames.
  pose proof (flat_tbl_depth t Hf) as Hd.
  destruct t as [e ks|tl]; [|discriminate Hf].
  specialize (Hnm e ks eq_refl).
  cbn [flat_tbl] in Hf. apply andb_true_iff in Hf. destruct Hf as [Hf _].
  apply andb_true_iff in Hf. destruct Hf as [Htag Hks]. apply str_eqb_eq in Htag.
  cbn [names_ok] in Hnames.
  apply walk_AE_inv in H.
  destruct H as (s1 & body & s2 & b & s3 & s4 & E1 & Eo & Ek & Ec & E5).
  rewrite Hd in E1, E5.
  set (old := c_tree s1).
  assert (Hold : pars_at 4%nat old = Ok ps).
  { unfold old. eapply set_caret_pars; [exact Hi| |exact E1|exact Hps]. lia. }
  assert (C1 : in_table old s1).
  { destruct (set_caret_Inv 1%nat _ _ _ ltac:(lia) Hi E1) as [I1 D1].
    pose proof (set_caret_lin _ _ _ _ E1) as [N _].
    split; [exact I1|]. split; [left; split; [exact D1|reflexivity]|].
    rewrite N, Hnm. reflexivity. }
  clearbody old.
  assert (C2 : in_table old s2).
  { destruct C1 as (I1 & T1 & A1).
    pose proof (open_tag_lineage _ _ _ _ _ _ _ _ _ Eo) as K.
    split; [eapply open_tag_inv; eauto|]. split.
    - apply (open_tag_P (tinv old) (tinv_core old) (tinv_caret4 old) _ _ _ _ _ _ _ _ _ Eo T1).
    - rewrite (K 1%nat) by lia. exact A1. }
  assert (C3 : in_table old s3).
  { destruct b; [|injection Ek as <-; exact C2].
    eapply (kids_loop_inv (in_table old)); [|exact C2|exact Ek].
    intros k Hk path' sa sb Ca Hw.
    pose proof (proj1 (forallb_forall _ _) Hks k Hk) as Hkk.
    pose proof (proj1 (forallb_forall _ _) Hnames k Hk) as Hkn. cbv beta in Hkk, Hkn.
    apply orb_true_iff in Hkk. destruct Hkk as [Hkk|Hkk].
    - rewrite Hkk in Hkn. cbn [negb orb] in Hkn. eapply flat_row_lineage; eauto.
    - eapply inline_in_table; eauto. }
  destruct C3 as (I3 & T3 & A1).
  pose proof (close_tag_inv _ _ _ _ _ I3 Ec) as I4.
  assert (Hp : str_eqb (e_ptag e) tag_PARAGRAPH = false) by (rewrite Htag; reflexivity).
  assert (Hc : str_eqb (e_ptag e) tag_TABLE_CELL = false) by (rewrite Htag; reflexivity).
  pose proof (close_tag_P (tinv old) (tinv_core old) (tinv_caret4 old)
                _ _ _ _ _ Hp Hc Ec T3) as T4.
  assert (P4 : exists new, pars_at 4%nat (c_tree s4) = Ok (ps ++ new) /\ Forall cell_par_ok new).
  { destruct T4 as [[_ T4]|T4].
    - exists []. rewrite T4, app_nil_r. split; [exact Hold|constructor].
    - eapply in_tbl_pars; eauto. }
  destruct P4 as (new & P4 & Hnew). exists new. split; [|exact Hnew].
  eapply set_caret_pars; [exact I4| |exact E5|exact P4]. lia.
Qed.

(* non-vacuity: a one-cell table satisfies the hypotheses, and the walk from
   the initial state produces one paragraph with lineage (tbl, tr, tc, p) *)
Definition ex_tbl : anode :=
  AE (cx_einfo tag_TABLE s_tbl [])
     [AE (cx_einfo tag_TABLE_ROW s_tr [])
         [AE (cx_einfo tag_TABLE_CELL s_tc [])
             [AE (cx_einfo tag_PARAGRAPH [112] []) []]]].

Lemma flat_tbl_example :
  flat_tbl ex_tbl = true /\ names_ok ex_tbl = true /\
  exists s' p, walk cx_env [] ex_tbl init_cst = Ok s' /\
               pars_at 4%nat (c_tree s') = Ok [p] /\
               p_lineage p = (Some s_tbl, Some s_tr, Some s_tc, Some [112]).
Proof.
  split; [vm_compute; reflexivity|]. split; [vm_compute; reflexivity|].
  eexists. eexists. split; [vm_compute; reflexivity|].
  split; vm_compute; reflexivity.
Qed.

Print Assumptions set_caret_slots.
Print Assumptions flat_tbl_example.
Print Assumptions lineage_frame_partial.
Print Assumptions lineage_frame_le3.
Print Assumptions lineage_frame_counterexample.
Print Assumptions simple_par_lineage.
Print Assumptions free_par_no_tbl.
Print Assumptions flat_depths.
Print Assumptions flat_cell_lineage.
Print Assumptions flat_row_lineage.
Print Assumptions flat_tbl_lineage.
