(* LineageFacts.v — C05: the lineage register of the document walk.  Every
   paragraph extracted from a table cell reports the lineage (tbl, tr, tc, p);
   paragraphs outside tables do not report tbl. *)
From Coq Require Import List NArith ZArith Bool Arith Lia.
From D2P Require Import Str Err Xml TableTypes Tables Fmt NumFmt Bullets Merge Collector Walk.
From D2P Require Import ShapeFacts TokFacts FrameFacts BulletsFacts.
Import ListNotations.
Open Scope N_scope.

(* ================================================================== *)
(* Definitions                                                          *)
(* ================================================================== *)
Definition slot (i : nat) (l : lineage) : option str :=
  match l with
  | (a, b, c, d) =>
      match i with 1%nat => a | 2%nat => b | 3%nat => c | 4%nat => d | _ => None end
  end.

(* every element of t (t included) has no depth or a depth >= k *)
Fixpoint deep_ge (k : nat) (t : anode) : bool :=
  match t with
  | AX _ => true
  | AE e ks =>
      (match elem_depth t with None => true | Some d => Nat.leb k d end)
      && forallb (deep_ge k) ks
  end.

(* no w:tc at or below t *)
Fixpoint no_tc (t : anode) : bool :=
  match t with
  | AX _ => true
  | AE e ks => negb (str_eqb (e_ptag e) tag_TABLE_CELL) && forallb no_tc ks
  end.

(* [keepl d l l']: l' differs from l at most in slot d *)
Definition keepl (d : nat) (l l' : lineage) : Prop :=
  forall i, i <> d -> slot i l' = slot i l.

Lemma keepl_refl d l : keepl d l l.
Proof. intros i _. reflexivity. Qed.

Lemma keepl_trans d l1 l2 l3 : keepl d l1 l2 -> keepl d l2 l3 -> keepl d l1 l3.
Proof. intros A B i Hi. rewrite (B i Hi). apply A, Hi. Qed.

Lemma lineage_eta l : l = (slot 1 l, slot 2 l, slot 3 l, slot 4 l).
Proof. destruct l as [[[a b] c] d]. reflexivity. Qed.

(* ================================================================== *)
(* L1: the caret writes one slot                                        *)
(* ================================================================== *)
Lemma set_in_lineage_slot d v l l' :
  set_in_lineage d v l = Ok l' -> slot d l' = v /\ keepl d l l'.
Proof.
  destruct l as [[[a b] c] e].
  destruct d as [|[|[|[|[|d]]]]]; cbn; intro H; try discriminate H; injection H as <-;
    (split; [reflexivity|]); intros i Hi;
    destruct i as [|[|[|[|[|i]]]]]; try reflexivity; exfalso; apply Hi; reflexivity.
Qed.

Lemma drop_caret_lin s s' : drop_caret s = Ok s' -> c_lineage s' = c_lineage s.
Proof.
  unfold drop_caret. destruct (Nat.leb par_depth (c_depth s)); [discriminate|].
  intro H. bind_inv H as t Et. injection H as <-. reflexivity.
Qed.

Lemma raise_caret_lin s s' : raise_caret s = Ok s' -> c_lineage s' = c_lineage s.
Proof.
  unfold raise_caret. destruct (Nat.leb (c_depth s) 1); [discriminate|].
  intro H. injection H as <-. reflexivity.
Qed.

Lemma set_caret_go_lin : forall fuel d name s s',
  set_caret_go fuel d name s = Ok s' ->
  slot d (c_lineage s') = name /\ keepl d (c_lineage s) (c_lineage s').
Proof.
  induction fuel as [|f IH]; intros d name s s' H; [discriminate H|].
  cbn [set_caret_go] in H.
  destruct (Nat.eqb (c_depth s) d).
  - bind_inv H as l El. injection H as <-. cbn [c_lineage set_lin].
    apply set_in_lineage_slot. exact El.
  - destruct (Nat.ltb (c_depth s) d).
    + bind_inv H as s1 E. apply drop_caret_lin in E.
      destruct (IH _ _ _ _ H) as [A B]. rewrite E in B. auto.
    + bind_inv H as l El. bind_inv H as s1 E. apply raise_caret_lin in E.
      cbn [c_lineage set_lin] in E.
      destruct (IH _ _ _ _ H) as [A B]. rewrite E in B.
      apply set_in_lineage_slot in El. destruct El as [_ C].
      split; [exact A|]. eapply keepl_trans; eauto.
Qed.

Lemma set_caret_lin d name s s' :
  set_caret (Some d) name s = Ok s' ->
  slot d (c_lineage s') = name /\ keepl d (c_lineage s) (c_lineage s').
Proof. apply set_caret_go_lin. Qed.

Lemma set_caret_slots : forall d name s s', Inv s -> (1 <= d <= 4)%nat ->
  set_caret (Some d) name s = Ok s' ->
  slot d (c_lineage s') = name /\
  forall i, (1 <= i < d)%nat -> slot i (c_lineage s') = slot i (c_lineage s).
Proof.
  intros d name s s' _ _ H. apply set_caret_lin in H. destruct H as [A B].
  split; [exact A|]. intros i Hi. apply B. lia.
Qed.

(* the caret already at depth d: only the register is written *)
Lemma set_caret_at_depth d name s s' :
  c_depth s = d -> set_caret (Some d) name s = Ok s' -> exists l, s' = set_lin l s.
Proof.
  intros D H. unfold set_caret in H. cbn [set_caret_go] in H.
  rewrite D, Nat.eqb_refl in H. bind_inv H as l El. injection H as <-. eauto.
Qed.

(* ================================================================== *)
(* Predicates on (tree, depth, register) closed under the paragraph     *)
(* caret are preserved by every open handler and by inline subtrees      *)
(* ================================================================== *)
Definition core_eq (s s' : cst) : Prop :=
  c_tree s' = c_tree s /\ c_depth s' = c_depth s /\ c_lineage s' = c_lineage s.

Ltac inv_step H :=
  cbv beta zeta in H;
  match type of H with
  | Err _ = Ok _ => discriminate H
  | bind ?r _ = Ok _ =>
      let x := fresh "x" in let E := fresh "E" in
      destruct r as [x|] eqn:E; [cbn [bind] in H|discriminate H]
  | (if ?c then _ else _) = Ok _ => destruct c
  | (match ?x with _ => _ end) = Ok _ => destruct x eqn:?
  end.

Section CoreInv.
  Variable P : cst -> Prop.
  Hypothesis P_core : forall s s', core_eq s s' -> P s -> P s'.
  Hypothesis P_caret4 :
    forall name s s', P s -> set_caret (Some 4%nat) name s = Ok s' -> P s'.

  Lemma P_set_open o s : P s -> P (set_open o s).
  Proof. apply P_core. repeat split. Qed.
  Lemma P_set_queued q s : P s -> P (set_queued q s).
  Proof. apply P_core. repeat split. Qed.
  Lemma P_set_ranges r s : P s -> P (set_ranges r s).
  Proof. apply P_core. repeat split. Qed.
  Lemma P_set_counters c s : P s -> P (set_counters c s).
  Proof. apply P_core. repeat split. Qed.
  Lemma P_queue_run ts s : P s -> P (queue_run_for_next_paragraph ts s).
  Proof. apply P_core. repeat split. Qed.

  Lemma commence_paragraph_P v elem s s' :
    commence_paragraph v elem s = Ok s' -> P s -> P s'.
  Proof.
    intros H HP. unfold commence_paragraph, par_depth in H.
    bind_inv H as s1 E1. bind_inv H as hs Ehs. bind_inv H as ps Eps.
    cbv zeta in H. injection H as <-.
    apply P_set_open, P_set_queued. eapply P_caret4; eauto.
  Qed.

  Lemma ensure_par_P v s s' : ensure_par v s = Ok s' -> P s -> P s'.
  Proof.
    unfold ensure_par. destruct (c_open s).
    - apply commence_paragraph_P.
    - intro H. injection H as <-. auto.
  Qed.

  Lemma upd_open_runs_P v f s s' : upd_open_runs v f s = Ok s' -> P s -> P s'.
  Proof.
    intros H HP. unfold upd_open_runs in H. bind_inv H as s1 E1.
    destruct (c_open s1); [discriminate H|]. injection H as <-.
    apply P_set_open. eapply ensure_par_P; eauto.
  Qed.

  Lemma commence_run_P v st s s' : commence_run v st s = Ok s' -> P s -> P s'.
  Proof. apply upd_open_runs_P. Qed.
  Lemma add_toks_P v ts s s' : add_toks v ts s = Ok s' -> P s -> P s'.
  Proof. apply upd_open_runs_P. Qed.
  Lemma add_text_P v txt s s' : add_text_into_open_run v txt s = Ok s' -> P s -> P s'.
  Proof. apply add_toks_P. Qed.
  Lemma add_code_P v ts s s' : add_code_into_open_run v ts s = Ok s' -> P s -> P s'.
  Proof. apply add_toks_P. Qed.
  Lemma insert_P v ts s s' : insert_text_as_new_run v ts s = Ok s' -> P s -> P s'.
  Proof. apply upd_open_runs_P. Qed.

  Lemma start_comment_P v id s s' : start_comment_range v id s = Ok s' -> P s -> P s'.
  Proof.
    unfold start_comment_range. intros H HP. bind_inv H as n En. injection H as <-.
    apply P_set_ranges, HP.
  Qed.

  Lemma end_comment_P v id s s' : end_comment_range v id s = Ok s' -> P s -> P s'.
  Proof.
    unfold end_comment_range. intros H HP.
    destruct (dict_get id (c_ranges s)) as [[b c]|].
    - bind_inv H as n En. injection H as <-. apply P_set_ranges, HP.
    - injection H as <-. exact HP.
  Qed.

  Ltac Pgo :=
    first
      [ assumption
      | apply P_set_open; Pgo
      | apply P_set_counters; Pgo
      | apply P_set_queued; Pgo
      | apply P_queue_run; Pgo
      | eapply insert_P; [eassumption|Pgo]
      | eapply commence_run_P; [eassumption|Pgo]
      | eapply add_text_P; [eassumption|Pgo]
      | eapply add_code_P; [eassumption|Pgo]
      | eapply start_comment_P; [eassumption|Pgo]
      | eapply end_comment_P; [eassumption|Pgo]
      | eapply commence_paragraph_P; [eassumption|Pgo] ].

  Lemma open_tag_P v path t e ks body s s' b :
    open_tag v path t e ks body s = Ok (s', b) -> P s -> P s'.
  Proof.
    intros H HP.
    unfold open_tag, note_label, note_ref, image_ref in H.
    repeat inv_step H;
      try (injection H as ? ?; subst; Pgo).
  Qed.

  Lemma close_tag_P v e ks s s' :
    str_eqb (e_ptag e) tag_PARAGRAPH = false -> str_eqb (e_ptag e) tag_TABLE_CELL = false ->
    close_tag v e ks s = Ok s' -> P s -> P s'.
  Proof.
    intros Hp Hc H HP. unfold close_tag in H. cbv zeta in H. rewrite Hp, Hc in H.
    destruct (str_eqb (e_ptag e) tag_RUN).
    - eapply commence_run_P; eauto.
    - injection H as <-. exact HP.
  Qed.

  Lemma kids_loop_P v path ks :
    Forall (fun t => forall path s s', P s -> walk v path t s = Ok s' -> P s') ks ->
    forall i s s', P s -> kids_loop v path ks i s = Ok s' -> P s'.
  Proof.
    induction 1 as [|k r Hk Hr IH]; intros i s s' HP H; cbn [kids_loop] in H.
    - injection H as <-. exact HP.
    - bind_inv H as s1 E1. eapply IH; [|exact H]. eapply Hk; eauto.
  Qed.

  Lemma inline_P v : forall t, plain_inline t = true ->
    forall path s s', P s -> walk v path t s = Ok s' -> P s'.
  Proof.
    apply (ShapeFacts.anode_ind'
             (fun t => plain_inline t = true ->
                       forall path s s', P s -> walk v path t s = Ok s' -> P s')).
    - intros tl _ path s s' HP H. cbn in H. injection H as <-. exact HP.
    - intros e ks IH Hpl path s s' HP H.
      pose proof (plain_inline_no_depth _ Hpl) as Hd.
      apply plain_inline_AE in Hpl. destruct Hpl as [(Hp & Hc & _) Hks].
      assert (HF : Forall (fun t => forall path s s', P s -> walk v path t s = Ok s' -> P s') ks).
      { clear - IH Hks. induction IH as [|k r Hk Hr IHr]; [constructor|].
        cbn [forallb] in Hks. apply andb_true_iff in Hks. destruct Hks as [K1 K2].
        constructor; [intros; eapply Hk; eauto|auto]. }
      rewrite walk_AE in H. cbv zeta in H. rewrite Hd in H. cbn [set_caret bind] in H.
      bind_inv H as body Eb. bind_inv H as s2r Eo. destruct s2r as [s2 rec].
      bind_inv H as s3 Ek. bind_inv H as s4 Ec. injection H as <-.
      eapply close_tag_P; [exact Hp|exact Hc|exact Ec|].
      assert (P2 : P s2) by (eapply open_tag_P; eauto).
      destruct rec.
      + eapply kids_loop_P; eauto.
      + injection Ek as <-. exact P2.
  Qed.
End CoreInv.

(* ================================================================== *)
(* L2: the frame property of the register                               *)
(* ================================================================== *)
Lemma open_tag_lineage v path t e ks body s s' b :
  open_tag v path t e ks body s = Ok (s', b) -> keepl 4 (c_lineage s) (c_lineage s').
Proof.
  intro H.
  apply (open_tag_P (fun s0 => keepl 4 (c_lineage s) (c_lineage s0))) in H.
  - exact H.
  - intros s1 s2 (_ & _ & E) K. rewrite E. exact K.
  - intros name s1 s2 K E. apply set_caret_lin in E. destruct E as [_ E].
    eapply keepl_trans; eauto.
  - apply keepl_refl.
Qed.

Lemma commence_run_lineage v st s s' :
  commence_run v st s = Ok s' -> keepl 4 (c_lineage s) (c_lineage s').
Proof.
  intro H.
  apply (commence_run_P (fun s0 => keepl 4 (c_lineage s) (c_lineage s0))) in H.
  - exact H.
  - intros s1 s2 (_ & _ & E) K. rewrite E. exact K.
  - intros name s1 s2 K E. apply set_caret_lin in E. destruct E as [_ E].
    eapply keepl_trans; eauto.
  - apply keepl_refl.
Qed.

Lemma conclude_paragraph_lineage s s' :
  conclude_paragraph s = Ok s' -> keepl 4 (c_lineage s) (c_lineage s').
Proof.
  unfold conclude_paragraph, par_depth. intro H. destruct (c_open s) as [|p rest].
  - injection H as <-. apply keepl_refl.
  - bind_inv H as s1 E1. bind_inv H as t Et. injection H as <-.
    apply set_caret_lin in E1. destruct E1 as [_ E1]. exact E1.
Qed.

Lemma close_table_cell_lineage v e ks s s' :
  close_table_cell v e ks s = Ok s' -> keepl 3 (c_lineage s) (c_lineage s').
Proof.
  intro H. unfold close_table_cell in H.
  bind_inv H as pr Epr. cbv zeta in H.
  bind_inv H as rows0 Erows0. bind_inv H as dummy Edummy.
  bind_inv H as s1 Es1. bind_inv H as span Espan.
  assert (K1 : keepl 3 (c_lineage s) (c_lineage s1)).
  { clear H Espan.
    match type of Es1 with (if ?c then _ else _) = _ => destruct c end.
    - bind_inv Es1 as sa Esa. bind_inv Es1 as t Et. bind_inv Es1 as rows Er.
      bind_inv Es1 as prev Ep. bind_inv Es1 as cells Ec. cbv zeta in Es1.
      apply set_caret_lin in Esa. destruct Esa as [_ Esa].
      destruct cells as [|cell0 cells0]; [injection Es1 as <-; exact Esa|].
      destruct (py_nth (rev prev) (Z.of_nat (length (cell0 :: cells0)) - 1)) as [src|];
        [|injection Es1 as <-; exact Esa].
      bind_inv Es1 as root' Eroot. injection Es1 as <-. exact Esa.
    - injection Es1 as <-. apply keepl_refl. }
  clear Es1 Espan. revert s1 K1 H. generalize (Z.to_nat (span - 1)).
  induction n as [|n IH]; intros s1 K1 H.
  - injection H as <-. exact K1.
  - cbn [bind] in H. bind_inv H as sa Esa. bind_inv H as root' Eroot.
    eapply IH; [|exact H]. cbn [c_lineage set_tree].
    apply set_caret_lin in Esa. destruct Esa as [_ Esa]. eapply keepl_trans; eauto.
Qed.

Lemma close_tag_lineage v e ks s s' :
  close_tag v e ks s = Ok s' ->
  forall i, i <> 4%nat -> (str_eqb (e_ptag e) tag_TABLE_CELL = true -> i <> 3%nat) ->
  slot i (c_lineage s') = slot i (c_lineage s).
Proof.
  intros H i H4 H3. unfold close_tag in H. cbv zeta in H.
  destruct (str_eqb (e_ptag e) tag_PARAGRAPH).
  { apply conclude_paragraph_lineage in H. apply H, H4. }
  destruct (str_eqb (e_ptag e) tag_RUN).
  { apply commence_run_lineage in H. apply H, H4. }
  destruct (str_eqb (e_ptag e) tag_TABLE_CELL).
  { apply close_table_cell_lineage in H. apply H, H3. reflexivity. }
  injection H as <-. reflexivity.
Qed.

Definition frame_at (v : env) (t : anode) : Prop :=
  forall k path s s', deep_ge k t = true -> (k = 4%nat -> no_tc t = true) ->
    walk v path t s = Ok s' ->
    forall i, (1 <= i < k)%nat -> (k <= 4)%nat -> slot i (c_lineage s') = slot i (c_lineage s).

Lemma kids_loop_frame v path ks k :
  Forall (frame_at v) ks -> forallb (deep_ge k) ks = true ->
  (k = 4%nat -> forallb no_tc ks = true) ->
  forall n s s', kids_loop v path ks n s = Ok s' ->
  forall i, (1 <= i < k)%nat -> (k <= 4)%nat -> slot i (c_lineage s') = slot i (c_lineage s).
Proof.
  induction 1 as [|t r Ht Hr IH]; intros Hd Hn n s s' H i Hi Hk; cbn [kids_loop] in H.
  - injection H as <-. reflexivity.
  - cbn [forallb] in Hd. apply andb_true_iff in Hd. destruct Hd as [D1 D2].
    bind_inv H as s1 E1.
    rewrite (IH D2 (fun E => proj2 (proj1 (andb_true_iff _ _) (Hn E))) _ _ _ H i Hi Hk).
    apply (Ht k _ _ _ D1 (fun E => proj1 (proj1 (andb_true_iff _ _) (Hn E))) E1 i Hi Hk).
Qed.

Lemma walk_frame v : forall t, frame_at v t.
Proof.
  apply ShapeFacts.anode_ind'.
  - intros tl k path s s' _ _ H i _ _. cbn in H. injection H as <-. reflexivity.
  - intros e ks IH k path s s' Hd Hn H i Hi Hk.
    cbn [deep_ge] in Hd. apply andb_true_iff in Hd. destruct Hd as [D1 D2].
    assert (Hc : forall name s1 s2, set_caret (elem_depth (AE e ks)) name s1 = Ok s2 ->
                 slot i (c_lineage s2) = slot i (c_lineage s1)).
    { intros name s1 s2 E. destruct (elem_depth (AE e ks)) as [d|].
      - apply Nat.leb_le in D1. apply set_caret_lin in E. destruct E as [_ E].
        apply E. lia.
      - cbn in E. injection E as <-. reflexivity. }
    rewrite walk_AE in H. cbv zeta in H.
    bind_inv H as s1 E1. bind_inv H as body Eb. bind_inv H as s2r Eo.
    destruct s2r as [s2 rec]. bind_inv H as s3 Ek. bind_inv H as s4 Ec.
    rewrite (Hc _ _ _ H).
    rewrite (close_tag_lineage _ _ _ _ _ Ec i).
    2:{ lia. }
    2:{ intro Etc. destruct (Nat.eq_dec k 4) as [K4|K4]; [|lia].
        specialize (Hn K4). cbn [no_tc] in Hn. rewrite Etc in Hn. discriminate Hn. }
    assert (E3 : slot i (c_lineage s3) = slot i (c_lineage s2)).
    { destruct rec.
      - eapply kids_loop_frame; eauto.
        intro K4. specialize (Hn K4). cbn [no_tc] in Hn.
        apply andb_true_iff in Hn. apply Hn.
      - injection Ek as <-. reflexivity. }
    rewrite E3. apply open_tag_lineage in Eo. rewrite (Eo i) by lia.
    apply (Hc _ _ _ E1).
Qed.

(* COUNTEREXAMPLE to the frame statement for k = 4 as first proposed
   (deep_ge k t alone): a w:tc without a paragraph below it has no depth, so
   deep_ge 4 holds of it, yet closing it with a gridSpan runs
   set_caret (Some 3) None, which erases slot 3.  Hence the hypothesis
   [k = 4 -> no_tc t = true]; for k <= 3 the statement holds as proposed. *)
Lemma lineage_frame_partial : forall v t k path s s',
  deep_ge k t = true -> (k = 4%nat -> no_tc t = true) -> (1 <= k <= 4)%nat -> Inv s ->
  walk v path t s = Ok s' ->
  forall i, (1 <= i < k)%nat -> slot i (c_lineage s') = slot i (c_lineage s).
Proof.
  intros v t k path s s' Hd Hn Hk _ H i Hi.
  apply (walk_frame v t k path s s' Hd Hn H i Hi). lia.
Qed.

Lemma lineage_frame_le3 : forall v t k path s s',
  deep_ge k t = true -> (1 <= k <= 3)%nat -> Inv s -> walk v path t s = Ok s' ->
  forall i, (1 <= i < k)%nat -> slot i (c_lineage s') = slot i (c_lineage s).
Proof.
  intros v t k path s s' Hd Hk Hs H i Hi.
  apply (lineage_frame_partial v t k path s s' Hd); auto; lia.
Qed.

Lemma plain_inline_no_tc : forall t, plain_inline t = true -> no_tc t = true.
Proof.
  apply (ShapeFacts.anode_ind' (fun t => plain_inline t = true -> no_tc t = true)).
  - reflexivity.
  - intros e ks IH H. apply plain_inline_AE in H. destruct H as [(_ & Hc & _) Hks].
    cbn [no_tc]. rewrite Hc. cbn [negb andb].
    induction IH as [|k r Hk Hr IHr]; [reflexivity|].
    cbn [forallb] in Hks |- *. apply andb_true_iff in Hks. destruct Hks as [K1 K2].
    rewrite (Hk K1), (IHr K2). reflexivity.
Qed.
