(* CommentSpan.v — C12: comment ranges that span paragraphs, and the tuples
   returned by the comments attribute.

   CommentFacts.v treats one paragraph.  Here the walk of a whole body is
   unfolded into the list of its POINTS (body_points, proved to be the walk
   itself: body_points_loop): the states in which each child of the body and
   each child of each paragraph is walked.

   The class (span_child / span_doc, all boolean):
     w:document > w:body > children, each child being
     - a paragraph whose children are runs with inline content, range markers
       (CommentFacts.run_or_marker) or inert elements (w:pPr, bookmarks, XML
       comments, ...: no handler anywhere below, `inert`);
     - a range marker between the paragraphs;
     - an inert element (w:sectPr, ...);
     - a flat quiet table whose cells hold simple paragraphs (opaque_tbl):
       tables are allowed BETWEEN the paragraphs, but range markers INSIDE a
       table, nested / irregular tables are outside the class.

   Results:
     body_points_sorted / body_markers_prefix : the run strings seen at any
       point are a prefix of those seen at every later point and of the final
       run strings, across paragraph (and table) boundaries;
     body_ranges_fold : c_ranges after the body = fold of start_/end_comment_range
       over the marker events, each with the number of run strings seen there;
     body_range_is_slice / body_ranges_bounds : each recorded (b, e) has
       b <= e <= number of final run strings and cuts out exactly the run
       strings emitted between the last start marker of that id and the last
       end marker of that id after it;
     comments_tuple_spec, comments_order, comments_count_mismatch : the public
       attribute, unfolded;
     comment_reference_text : the two combined;
     comments_order_example : a concrete archive (two overlapping comments
       spanning two paragraphs and a table, entries in the opposite order).
   As in CommentFacts (par_with_markers_prefix_counterexample) the existence of
   the final run strings is a hypothesis wherever they are mentioned. *)
From Coq Require Import List NArith ZArith Bool Arith Lia Sorted.
From D2P Require Import Str Err Xml TableTypes Tables Fmt NumFmt Bullets Merge Collector Walk.
From D2P Require Import Iter Output Paths Package Content.
From D2P Require Import ShapeFacts TokFacts FrameFacts BulletsFacts LineageFacts CommentFacts SeqFacts.
Import ListNotations.
Open Scope N_scope.

(* ================================================================== *)
(* S0: the class of bodies, and the points of the walk                  *)
(* ================================================================== *)
(* an element that no handler touches, at any depth: w:pPr, w:sectPr,
   w:bookmarkStart, w:proofErr, ... ; XML comments and PIs.  Its walk does
   nothing at all (inert_walk). *)
Fixpoint inert (t : anode) : bool :=
  match t with
  | AX _ => true
  | AE e ks => negb (mem_str (e_ptag e) handler_tags)
               && negb (str_eqb (e_ptag e) tag_TABLE_CELL) && forallb inert ks
  end.

(* a child of a paragraph: a run with inline content or a range marker
   (CommentFacts.run_or_marker: the class of the single-paragraph theorems),
   or an inert element *)
Definition par_child (t : anode) : bool := run_or_marker t || inert t.

Definition rm_par (t : anode) : bool :=
  match t with
  | AE e ks => str_eqb (e_ptag e) tag_PARAGRAPH && forallb par_child ks
  | AX _ => false
  end.

Definition is_marker (t : anode) : bool :=
  match t with
  | AE e [] => str_eqb (e_ptag e) tag_COMMENT_RANGE_START
               || str_eqb (e_ptag e) tag_COMMENT_RANGE_END
  | _ => false
  end.

(* a table between the paragraphs: flat (rows of cells of simple paragraphs,
   LineageFacts.flat_tbl, with the element names tbl / tr the lineage lemma
   asks for), and quiet (SeqFacts.quiet: nothing with a handler outside its
   paragraphs).  Its paragraphs contain NO range markers (simple_par). *)
Definition opaque_tbl (t : anode) : bool :=
  flat_tbl t && names_ok t && tbl_named t && quiet t.

(* a child of the body: such a paragraph, a range marker between the
   paragraphs, an inert element, or such a table.  Tables that contain range
   markers, nested or irregular tables are NOT in the class. *)
Definition span_child (t : anode) : bool :=
  rm_par t || is_marker t || inert t || opaque_tbl t.

(* a point: the state, and the node that is walked in it (None: the state
   after the last child of a paragraph / after the last child of the body) *)
Definition point := (option anode * cst)%type.

Section Points.
  Variable v : env.

  Fixpoint kids_points (path : list nat) (ks : list anode) (i : nat) (s : cst)
    : res (list point * cst) :=
    match ks with
    | [] => Ok ([], s)
    | k :: r =>
        s' <- walk v (i :: path) k s ;;
        x <- kids_points path r (S i) s' ;;
        Ok ((Some k, s) :: fst x, snd x)
    end.

  (* the paragraph element up to its first child *)
  Definition par_enter (path : list nat) (e : einfo) (ks : list anode) (s : cst) : res cst :=
    s1 <- set_caret (Some 4%nat) (Some (e_local e)) s ;;
    r <- open_tag v path (AE e ks) e ks [] s1 ;;
    Ok (fst r).

  Definition par_points (path : list nat) (e : einfo) (ks : list anode) (s : cst)
    : res (list point * cst) :=
    s2 <- par_enter path e ks s ;;
    x <- kids_points path ks 0%nat s2 ;;
    s4 <- conclude_paragraph (snd x) ;;
    s5 <- set_caret (Some 4%nat) None s4 ;;
    Ok (fst x ++ [(None, snd x)], s5).

  (* one child of the body: only paragraphs of the class have inner points *)
  Definition child_points (path : list nat) (i : nat) (k : anode) (s : cst)
    : res (list point * cst) :=
    match k with
    | AE e pks =>
        if rm_par k then par_points (i :: path) e pks s
        else s' <- walk v (i :: path) k s ;; Ok ([], s')
    | AX _ => Ok ([], s)
    end.

  Fixpoint body_points (path : list nat) (ks : list anode) (i : nat) (s : cst)
    : res (list point * cst) :=
    match ks with
    | [] => Ok ([], s)
    | k :: r =>
        x <- child_points path i k s ;;
        y <- body_points path r (S i) (snd x) ;;
        Ok ((Some k, s) :: fst x ++ fst y, snd y)
    end.

  (* all points, the last one included *)
  Definition all_points (x : list point * cst) : list point := fst x ++ [(None, snd x)].
End Points.

(* ---- inert elements ---- *)
Lemma inert_AE e ks : inert (AE e ks) = true ->
  mem_str (e_ptag e) handler_tags = false /\ str_eqb (e_ptag e) tag_TABLE_CELL = false
  /\ forallb inert ks = true.
Proof.
  cbn [inert]. intro H. apply andb_true_iff in H. destruct H as [H H3].
  apply andb_true_iff in H. destruct H as [H1 H2].
  apply negb_true_iff in H1. apply negb_true_iff in H2. auto.
Qed.

Lemma passive_tags tg : mem_str tg handler_tags = false ->
  str_eqb tg tag_PARAGRAPH = false /\ str_eqb tg tag_FOOTNOTE = false
  /\ str_eqb tg tag_ENDNOTE = false /\ str_eqb tg tag_COMMENT_RANGE_START = false
  /\ str_eqb tg tag_COMMENT_RANGE_END = false.
Proof.
  intro H. unfold handler_tags in H. cbn [mem_str] in H.
  repeat (apply orb_false_iff in H; let H1 := fresh "H" in destruct H as [H1 H]).
  repeat split; assumption.
Qed.

Lemma inert_plain : forall t, inert t = true -> plain_inline t = true.
Proof.
  apply (ShapeFacts.anode_ind' (fun t => inert t = true -> plain_inline t = true)).
  - reflexivity.
  - intros e ks IH H. destruct (inert_AE _ _ H) as (Hm & Htc & Hks).
    destruct (passive_tags _ Hm) as (H1 & H2 & H3 & H4 & H5).
    cbn [plain_inline]. rewrite H1, Htc, H2, H3, H4, H5. cbn [negb andb].
    apply forallb_forall. intros k Hk.
    apply (proj1 (Forall_forall _ _) IH k Hk). exact (proj1 (forallb_forall _ _) Hks k Hk).
Qed.

Lemma inert_walk v : forall t, inert t = true -> forall path s, walk v path t s = Ok s.
Proof.
  apply (ShapeFacts.anode_ind' (fun t => inert t = true -> forall path s, walk v path t s = Ok s)).
  - reflexivity.
  - intros e ks IH H path s. destruct (inert_AE _ _ H) as (Hm & Htc & Hks).
    rewrite (walk_container v path e ks s (plain_inline_no_depth _ (inert_plain _ H)) Hm Htc).
    clear H. generalize 0%nat. revert Hks. induction IH as [|k r Hk Hr IHr]; intros Hks i; [reflexivity|].
    cbn [forallb] in Hks. apply andb_true_iff in Hks. destruct Hks as [K1 K2].
    cbn [kids_loop]. rewrite (Hk K1). cbn [bind]. apply IHr, K2.
Qed.

Lemma par_child_cases t : par_child t = true ->
  run_or_marker t = true \/ (inert t = true /\ forall v path s, walk v path t s = Ok s).
Proof.
  unfold par_child. intro H. apply orb_true_iff in H. destruct H as [H|H]; [left; exact H|right].
  split; [exact H|]. intros v path s. exact (inert_walk v t H path s).
Qed.

Lemma par_child_follows v k path st st1 q :
  par_child k = true -> c_open st = [q] -> walk v path k st = Ok st1 ->
  exists rs1, c_open st1 = [with_runs q rs1] /\ c_tree st1 = c_tree st /\ Rp (p_runs q) rs1.
Proof.
  intros Hk Ho Hw. destruct (par_child_cases k Hk) as [Hr|[_ Hi]].
  - exact (child_follows v k path st st1 q (run_or_marker_inline _ Hr) Ho Hw).
  - rewrite Hi in Hw. injection Hw as <-. exists (p_runs q). rewrite with_runs_id.
    auto using Rp_refl.
Qed.

Lemma par_child_settled v k path st st1 q :
  par_child k = true -> c_open st = [q] -> settled q -> walk v path k st = Ok st1 ->
  exists q1, c_open st1 = [q1] /\ settled q1.
Proof.
  intros Hk Ho Hs Hw. destruct (par_child_cases k Hk) as [Hr|[_ Hi]].
  - exact (settled_child v k path st st1 q Hr Ho Hs Hw).
  - rewrite Hi in Hw. injection Hw as <-. exists q. auto.
Qed.

(* ---- the points are those of the walk itself ---- *)
Lemma kids_points_loop v path : forall ks i s,
  kids_loop v path ks i s = (x <- kids_points v path ks i s ;; Ok (snd x)).
Proof.
  induction ks as [|k r IH]; intros i s; cbn [kids_loop kids_points bind]; [reflexivity|].
  destruct (walk v (i :: path) k s) as [s'|x]; [|reflexivity]. cbn [bind].
  rewrite IH. destruct (kids_points v path r (S i) s') as [y|x]; reflexivity.
Qed.

Lemma par_depth_4 e ks : str_eqb (e_ptag e) tag_PARAGRAPH = true ->
  elem_depth (AE e ks) = Some 4%nat.
Proof.
  intro Ht. apply str_eqb_eq in Ht. unfold elem_depth. rewrite min_par_depth_AE, Ht. reflexivity.
Qed.

Lemma open_tag_par_rec v path t e ks body s s2 rec :
  str_eqb (e_ptag e) tag_PARAGRAPH = true ->
  open_tag v path t e ks body s = Ok (s2, rec) -> rec = true.
Proof.
  intros Ht H. unfold open_tag in H. cbv zeta in H. rewrite Ht in H.
  bind_inv H as s1 E1.
  destruct (get_par_number (to_numtable v) (c_counters s1) (get_bullet_fmt t)) as [cs number].
  bind_inv H as bl Ebl. bind_inv H as s2a Eins.
  destruct (c_open s2a) as [|p rest]; [discriminate H|]. injection H as _ <-. reflexivity.
Qed.

Lemma walk_par_points v path e ks s :
  str_eqb (e_ptag e) tag_PARAGRAPH = true ->
  walk v path (AE e ks) s = (x <- par_points v path e ks s ;; Ok (snd x)).
Proof.
  intro Ht. pose proof (proj1 (str_eqb_eq _ _) Ht) as Htag.
  rewrite walk_AE. cbv zeta. rewrite (par_depth_4 e ks Ht).
  unfold par_points, par_enter.
  destruct (set_caret (Some 4%nat) (Some (e_local e)) s) as [s1|x]; [|reflexivity]. cbn [bind].
  rewrite Htag. change (str_eqb tag_PARAGRAPH tag_HYPERLINK) with false. cbv iota. cbn [bind].
  destruct (open_tag v path (AE e ks) e ks [] s1) as [[s2 rec]|x] eqn:Eo; [|reflexivity].
  cbn [bind fst]. rewrite (open_tag_par_rec _ _ _ _ _ _ _ _ _ Ht Eo).
  rewrite kids_points_loop.
  destruct (kids_points v path ks 0%nat s2) as [y|x]; [|reflexivity]. cbn [bind].
  unfold close_tag. cbv zeta. rewrite Ht.
  destruct (conclude_paragraph (snd y)) as [s4|x]; [|reflexivity]. cbn [bind].
  destruct (set_caret (Some 4%nat) None s4) as [s5|x]; reflexivity.
Qed.

Lemma rm_par_AE e ks : rm_par (AE e ks) = true ->
  str_eqb (e_ptag e) tag_PARAGRAPH = true /\ forallb par_child ks = true.
Proof. cbn [rm_par]. intro H. apply andb_true_iff in H. exact H. Qed.

Theorem body_points_loop v path : forall ks i s,
  kids_loop v path ks i s = (x <- body_points v path ks i s ;; Ok (snd x)).
Proof.
  induction ks as [|k r IH]; intros i s; cbn [kids_loop body_points bind]; [reflexivity|].
  unfold child_points. destruct k as [e pks|tl].
  - destruct (rm_par (AE e pks)) eqn:Hrm.
    + rewrite (walk_par_points v (i :: path) e pks s (proj1 (rm_par_AE _ _ Hrm))).
      destruct (par_points v (i :: path) e pks s) as [x|x]; [|reflexivity]. cbn [bind].
      rewrite IH. destruct (body_points v path r (S i) (snd x)) as [y|y]; reflexivity.
    + destruct (walk v (i :: path) (AE e pks) s) as [s'|x]; [|reflexivity]. cbn [bind snd].
      rewrite IH. destruct (body_points v path r (S i) s') as [y|y]; reflexivity.
  - cbn [walk bind snd]. rewrite IH.
    destruct (body_points v path r (S i) s) as [y|y]; reflexivity.
Qed.

Corollary body_points_exist v path ks i s s' :
  kids_loop v path ks i s = Ok s' -> exists tr, body_points v path ks i s = Ok (tr, s').
Proof.
  rewrite body_points_loop. intro H. bind_inv H as x Ex. injection H as <-.
  exists (fst x). destruct x; reflexivity.
Qed.

(* ---- quiet tables: what they leave alone ---- *)
Definition side2 (s s' : cst) : Prop := c_ranges s' = c_ranges s /\ c_queued s' = c_queued s.

Lemma set_caret_side2 d name s s' : set_caret d name s = Ok s' -> side2 s s'.
Proof.
  destruct d as [d|]; intro H.
  - apply set_caret_frame in H. destruct H as ((_ & Q & R & _) & _). split; assumption.
  - cbn in H. injection H as <-. split; reflexivity.
Qed.

Lemma close_table_cell_side2 v e ks s s' : close_table_cell v e ks s = Ok s' -> side2 s s'.
Proof.
  intro H. unfold close_table_cell in H.
  bind_inv H as pr Epr. cbv zeta in H.
  (* the two early returns of the repaired _close_table_cell *)
  destruct (c_tree s) as [|tb0 root0] eqn:Eroot0; [injection H as <-; split; reflexivity|].
  rewrite <- Eroot0 in H.
  bind_inv H as rows0 Erows0.
  destruct rows0 as [|rb0 rows1] eqn:Erows1; [injection H as <-; split; reflexivity|].
  rewrite <- Erows1 in H.
  bind_inv H as dummy Edummy.
  bind_inv H as s1 Es1. bind_inv H as span Espan.
  assert (K1 : side2 s s1).
  { clear H Espan.
    match type of Es1 with (if ?c then _ else _) = _ => destruct c end.
    - bind_inv Es1 as sa Esa. bind_inv Es1 as t Et. bind_inv Es1 as rows Er.
      bind_inv Es1 as prev Ep. bind_inv Es1 as cells Ec. cbv zeta in Es1.
      apply set_caret_side2 in Esa.
      destruct cells as [|cell0 cells0]; [injection Es1 as <-; exact Esa|].
      destruct (py_nth (rev prev) (Z.of_nat (length (cell0 :: cells0)) - 1)) as [src|];
        [|injection Es1 as <-; exact Esa].
      bind_inv Es1 as root' Eroot. injection Es1 as <-. exact Esa.
    - injection Es1 as <-. split; reflexivity. }
  clear Es1 Espan. revert s1 K1 H. generalize (Z.to_nat (span - 1)).
  induction n as [|n IH]; intros s1 K1 H.
  - injection H as <-. exact K1.
  - cbn [bind] in H. bind_inv H as sa Esa. bind_inv H as root' Eroot.
    eapply IH; [|exact H]. apply set_caret_side2 in Esa. destruct Esa as [A B], K1 as [C D].
    split; cbn [c_ranges c_queued set_tree]; congruence.
Qed.

(* ranges kept, an empty queue stays empty *)
Definition side (s s' : cst) : Prop :=
  c_ranges s' = c_ranges s /\ (c_queued s = [] -> c_queued s' = []).

Lemma side_refl s : side s s. Proof. split; auto. Qed.
Lemma side_trans a b c : side a b -> side b c -> side a c.
Proof. intros [A B] [C D]. split; [congruence|auto]. Qed.
Lemma side2_side s s' : side2 s s' -> side s s'.
Proof. intros [A B]. split; [exact A|]. intro Q. rewrite B. exact Q. Qed.

Lemma quiet_walk_side v : forall t, quiet t = true ->
  forall path s s', Inv s -> walk v path t s = Ok s' -> side s s'.
Proof.
  apply (ShapeFacts.anode_ind'
           (fun t => quiet t = true ->
                     forall path s s', Inv s -> walk v path t s = Ok s' -> side s s')).
  - intros tl _ path s s' _ H. cbn in H. injection H as <-. apply side_refl.
  - intros e ks IH Hq path s s' Hi H.
    cbn [quiet] in Hq. destruct (simple_par (AE e ks)) eqn:Hsp.
    + destruct (inv_pars_at s Hi) as [ps Hps].
      destruct (simple_par_walk _ _ _ _ _ _ _ Hsp Hi H Hps) as (p & _ & _ & Q & R & _).
      split; [exact R|]. intros _. exact Q.
    + cbn [orb] in Hq. apply andb_true_iff in Hq. destruct Hq as [Hm Hks].
      apply negb_true_iff in Hm.
      apply walk_AE_inv in H.
      destruct H as (s1 & body & s2 & b & s3 & s4 & E1 & Eo & Ek & Ec & E5).
      rewrite (open_tag_passive _ _ _ _ _ _ _ Hm) in Eo. injection Eo as <- <-.
      pose proof (side2_side _ _ (set_caret_side2 _ _ _ _ E1)) as S1.
      pose proof (good_ok_inv _ _ _ (set_caret_good _ _ _ (elem_depth_range (AE e ks)) Hi) E1)
        as I1.
      assert (R3 : Inv s3 /\ side s1 s3).
      { eapply (LineageFacts.kids_loop_inv (fun s0 => Inv s0 /\ side s1 s0));
          [|split; [exact I1|apply side_refl]|exact Ek].
        intros k Hk path' sa sb [Ia Sa] Hw.
        split; [eapply walk_inv; eauto|].
        apply (side_trans _ _ _ Sa).
        apply (proj1 (Forall_forall _ _) IH k Hk
                 (proj1 (forallb_forall _ _) Hks k Hk) path' sa sb Ia Hw). }
      destruct R3 as [I3 S3].
      destruct (passive_not_par_run _ Hm) as [Hp Hr].
      assert (S4 : side s3 s4).
      { unfold close_tag in Ec. cbv zeta in Ec. rewrite Hp, Hr in Ec.
        destruct (str_eqb (e_ptag e) tag_TABLE_CELL).
        - exact (side2_side _ _ (close_table_cell_side2 _ _ _ _ _ Ec)).
        - injection Ec as <-. apply side_refl. }
      pose proof (side2_side _ _ (set_caret_side2 _ _ _ _ E5)) as S5.
      exact (side_trans _ _ _ S1 (side_trans _ _ _ S3 (side_trans _ _ _ S4 S5))).
Qed.

Lemma opaque_tbl_walk v t path s s' :
  opaque_tbl t = true -> Inv s -> walk v path t s = Ok s' ->
  c_open s' = c_open s /\ side s s'
  /\ (forall ps, pars_at 4%nat (c_tree s) = Ok ps ->
                 exists new, pars_at 4%nat (c_tree s') = Ok (ps ++ new)).
Proof.
  unfold opaque_tbl. intros H Hi Hw.
  apply andb_true_iff in H. destruct H as [H Hq]. apply andb_true_iff in H. destruct H as [H Hn].
  apply andb_true_iff in H. destruct H as [Hf Hnm].
  split; [exact (quiet_walk_open v t Hq _ _ _ Hi Hw)|].
  split; [exact (quiet_walk_side v t Hq _ _ _ Hi Hw)|].
  intros ps Hps.
  destruct (flat_tbl_lineage v t path s s' ps Hf Hi Hw Hps) as (new & Hnew & _); [|exact Hnm|eauto].
  intros e ks ->. cbn [tbl_named] in Hn. apply str_eqb_eq in Hn. exact Hn.
Qed.

Lemma child_points_inv v path i k s x :
  Inv s -> child_points v path i k s = Ok x -> Inv (snd x).
Proof.
  intros Hi H. unfold child_points in H. destruct k as [e pks|tl].
  - destruct (rm_par (AE e pks)) eqn:Hrm.
    + apply (walk_inv v (AE e pks) (i :: path) s _ Hi).
      rewrite (walk_par_points v (i :: path) e pks s (proj1 (rm_par_AE _ _ Hrm))), H. reflexivity.
    + bind_inv H as s1 E1. injection H as <-. exact (walk_inv _ _ _ _ _ Hi E1).
  - injection H as <-. exact Hi.
Qed.

(* ================================================================== *)
(* S1: one state structurally extends another                           *)
(* ================================================================== *)
(* what the paragraph element leaves for its first child (as in
   CommentFacts.par_walk_decompose, for the function par_enter) *)
Lemma par_enter_spec : forall v e ks path s s2,
  str_eqb (e_ptag e) tag_PARAGRAPH = true -> c_open s = [] -> par_enter v path e ks s = Ok s2 ->
  exists q2, c_open s2 = [q2] /\ settled q2 /\ c_queued s2 = [] /\ c_ranges s2 = c_ranges s
    /\ keeps_pars s s2.
Proof.
  intros v e ks path s s2 Ht Hopen H. unfold par_enter in H.
  bind_inv H as s1 E1. apply set_caret_frame in E1.
  destruct E1 as ((O1 & Q1 & R1 & C1) & K1 & D1 & L1).
  bind_inv H as s2r Eo. destruct s2r as [s2' rec]. cbn [fst] in H. injection H as ->.
  unfold open_tag in Eo. cbv zeta in Eo. rewrite Ht in Eo.
  bind_inv Eo as s1b Ecp.
  destruct (get_par_number (to_numtable v) (c_counters s1b) (get_bullet_fmt (AE e ks)))
    as [cs number] eqn:Epn.
  bind_inv Eo as bl Ebl. bind_inv Eo as s2a Eins.
  destruct (c_open s2a) as [|p2 rest2] eqn:Eo2; [discriminate Eo|]. injection Eo as <- <-.
  unfold commence_paragraph in Ecp.
  bind_inv Ecp as s1a Ec1. bind_inv Ecp as hs Ehs. bind_inv Ecp as pst Epst.
  cbv zeta in Ecp. injection Ecp as <-.
  apply set_caret_frame in Ec1. destruct Ec1 as ((O1a & Q1a & R1a & C1a) & K1a & D1a & L1a).
  assert (Oe : c_open s1a = []) by (rewrite O1a, O1; exact Hopen).
  match type of Eins with insert_text_as_new_run _ _ ?st = _ =>
    destruct (settled_after_insert _ _ st s2a _ _ eq_refl Eins) as (p' & Op' & Sp');
    destruct (realizes_inv _ _ st _ _ _ (realizes_insert v (raw bl))
                (eq_refl : c_open st = _ :: _) Eins)
      as (em0 & rs0 & _ & -> & _)
  end.
  rewrite Op' in Eo2. injection Eo2 as <- <-.
  cbn [c_open set_open] in Op'. injection Op' as Ep'.
  eexists.
  split; [cbn [c_open set_open]; rewrite Oe; reflexivity|].
  split; [exact Sp'|].
  split; [reflexivity|].
  split; [cbn [c_ranges set_open set_counters set_queued]; rewrite R1a, R1; reflexivity|].
  intros ps Hps; cbn [c_tree set_open set_counters set_queued]; apply K1a, K1, Hps.
Qed.

(* the state st' shows everything st shows, in the same places:
   - nothing open in st: the concluded paragraphs of st are the first ones of st';
   - one settled paragraph q open in st: either it is still open in st' with
     its runs kept up to the last (Rp), or it was concluded like that and more
     paragraphs followed *)
Definition ext (st st' : cst) : Prop :=
  (length (c_open st') <= 1)%nat /\
  match c_open st with
  | [] => forall ps, pars_at 4%nat (c_tree st) = Ok ps ->
                     exists new, pars_at 4%nat (c_tree st') = Ok (ps ++ new)
  | [q] =>
      settled q /\ exists rs', Rp (p_runs q) rs' /\
        ((c_open st' = [with_runs q rs'] /\ keeps_pars st st') \/
         (forall ps, pars_at 4%nat (c_tree st) = Ok ps ->
                     exists more, pars_at 4%nat (c_tree st') = Ok (ps ++ with_runs q rs' :: more)))
  | _ => False
  end.

(* the strings of st' with at most one open paragraph *)
Lemma rsf_le1 v s l :
  (length (c_open s) <= 1)%nat -> runs_so_far v s = Ok l ->
  exists ps a lo, pars_at 4%nat (c_tree s) = Ok ps
    /\ mapM (par_run_strings (html_on v)) ps = Ok a /\ l = concat a ++ lo.
Proof.
  intros Hlen H. destruct (c_open s) as [|q [|q' r]] eqn:Ho.
  - destruct (rsf_none v s l Ho H) as (ps & a & E1 & E2 & ->). exists ps, a, [].
    rewrite app_nil_r. auto.
  - destruct (rsf_one v s q l Ho H) as (ps & a & lo & E1 & E2 & _ & ->). exists ps, a, lo. auto.
  - cbn in Hlen. lia.
Qed.

Theorem ext_prefix : forall v st st' l l',
  ext st st' -> runs_so_far v st = Ok l -> runs_so_far v st' = Ok l' -> exists x, l' = l ++ x.
Proof.
  intros v st st' l l' [Hlen Hext] Hl Hl'.
  destruct (c_open st) as [|q [|q0 r0]] eqn:Ho; [| |contradiction].
  - (* nothing open *)
    destruct (rsf_none v st l Ho Hl) as (ps & a & Eps & Ea & ->).
    destruct (rsf_le1 v st' l' Hlen Hl') as (ps' & a' & lo' & Eps' & Ea' & ->).
    destruct (Hext ps Eps) as (new & En). rewrite En in Eps'. injection Eps' as <-.
    apply mapM_app_inv in Ea'. destruct Ea' as (y1 & y2 & E1 & E2 & ->).
    rewrite Ea in E1. injection E1 as <-.
    exists (concat y2 ++ lo'). rewrite concat_app, app_assoc. reflexivity.
  - destruct Hext as (Hs & rs' & HR & [[Ho' K]|Hc]).
    + (* still open *)
      destruct (rsf_one v st q l Ho Hl) as (ps & a & lo & Eps & Ea & Elo & ->).
      destruct (rsf_one v st' (with_runs q rs') l' Ho' Hl') as (ps' & a' & lo' & Eps' & Ea' & Elo' & ->).
      rewrite (K ps Eps) in Eps'. injection Eps' as <-. rewrite Ea in Ea'. injection Ea' as <-.
      apply open_strs_spec in Elo. destruct Elo as (ys & Ey & ->).
      apply open_strs_spec in Elo'. destruct Elo' as (ys' & Ey' & ->).
      cbn [p_runs with_runs] in Ey'.
      destruct (settled_keeps_visible _ _ _ _ Hs HR Ey Ey') as (z & Ez).
      exists (map (render (html_on v)) z).
      change (hdr (with_runs q rs')) with (hdr q).
      rewrite Ez, app_assoc, map_app, app_assoc. reflexivity.
    + (* concluded since *)
      destruct (rsf_one v st q l Ho Hl) as (ps & a & lo & Eps & Ea & Elo & ->).
      destruct (rsf_le1 v st' l' Hlen Hl') as (ps' & a' & lo' & Eps' & Ea' & ->).
      destruct (Hc ps Eps) as (more & Em). rewrite Em in Eps'. injection Eps' as <-.
      apply mapM_app_inv in Ea'. destruct Ea' as (y1 & y2 & E1 & E2 & ->).
      rewrite Ea in E1. injection E1 as <-.
      cbn [mapM] in E2. bind_inv E2 as lq Elq. bind_inv E2 as y3 E3. injection E2 as <-.
      destruct (closed_strs_spec _ _ _ Elq) as (lo3 & z & Elo3 & ->).
      apply open_strs_spec in Elo. destruct Elo as (ys & Ey & ->).
      apply open_strs_spec in Elo3. destruct Elo3 as (ys3 & Ey3 & ->).
      cbn [p_runs with_runs] in Ey3.
      destruct (settled_keeps_visible _ _ _ _ Hs HR Ey Ey3) as (z3 & Ez3).
      exists (map (render (html_on v)) z3 ++ z ++ concat y3 ++ lo').
      change (hdr (with_runs q rs')) with (hdr q).
      rewrite concat_app. cbn [concat]. rewrite Ez3.
      rewrite (app_assoc (hdr q)), map_app, <- !app_assoc. reflexivity.
Qed.

(* ================================================================== *)
(* S2: the points of one paragraph                                      *)
(* ================================================================== *)
Lemma SS_impl {A} (R R' : A -> A -> Prop) l :
  (forall x y, In x l -> In y l -> R x y -> R' x y) -> StronglySorted R l -> StronglySorted R' l.
Proof.
  intros HI H. induction H as [|a l Hs IH Hf]; constructor.
  - apply IH. intros x y Hx Hy. apply HI; right; assumption.
  - apply Forall_forall. intros y Hy. apply HI; [left; reflexivity|right; exact Hy|].
    exact (proj1 (Forall_forall _ _) Hf y Hy).
Qed.

Lemma SS_app {A} (R : A -> A -> Prop) l1 l2 :
  StronglySorted R l1 -> StronglySorted R l2 ->
  (forall x y, In x l1 -> In y l2 -> R x y) -> StronglySorted R (l1 ++ l2).
Proof.
  intros H1 H2 Hc. induction H1 as [|a l Hs IH Hf]; [exact H2|].
  cbn [app]. constructor.
  - apply IH. intros x y Hx Hy. apply Hc; [right; exact Hx|exact Hy].
  - apply Forall_app. split; [exact Hf|].
    apply Forall_forall. intros y Hy. apply Hc; [left; reflexivity|exact Hy].
Qed.

(* StronglySorted, spelled out *)
Lemma SS_split {A} (R : A -> A -> Prop) l :
  StronglySorted R l -> forall pre x post y, l = pre ++ x :: post -> In y post -> R x y.
Proof.
  intros H pre. revert l H. induction pre as [|p pre IH]; intros l H x post y E Hy; subst l.
  - apply StronglySorted_inv in H. destruct H as [_ Hf].
    exact (proj1 (Forall_forall _ _) Hf y Hy).
  - cbn [app] in H. apply StronglySorted_inv in H. destruct H as [Hs _].
    exact (IH _ Hs x post y eq_refl Hy).
Qed.

(* within one paragraph: the same open paragraph, its runs kept up to the last *)
Definition inpar (st st' : cst) : Prop :=
  exists q rs', c_open st = [q] /\ settled q /\ c_open st' = [with_runs q rs']
    /\ c_tree st' = c_tree st /\ Rp (p_runs q) rs'.

Lemma inpar_ext st st' : inpar st st' -> ext st st'.
Proof.
  intros (q & rs' & Ho & Hs & Ho' & Ht & HR). unfold ext. rewrite Ho, Ho'.
  split; [cbn; lia|]. split; [exact Hs|]. exists rs'. split; [exact HR|]. left.
  split; [reflexivity|]. intros ps Hps. rewrite Ht. exact Hps.
Qed.

Lemma kids_points_from v path : forall ks i st x q,
  forallb par_child ks = true -> c_open st = [q] -> settled q ->
  kids_points v path ks i st = Ok x ->
  Forall (fun pt => inpar st (snd pt)) (all_points x).
Proof.
  induction ks as [|k r IH]; intros i st x q Hks Ho Hs H; cbn [kids_points] in H.
  - injection H as <-. unfold all_points. cbn [fst snd app]. constructor; [|constructor].
    exists q, (p_runs q). rewrite with_runs_id. auto using Rp_refl.
  - cbn [forallb] in Hks. apply andb_true_iff in Hks. destruct Hks as [K1 K2].
    bind_inv H as st1 E1. bind_inv H as y Ey. injection H as <-.
    unfold all_points. cbn [fst snd app]. constructor.
    + cbn [snd]. exists q, (p_runs q). rewrite with_runs_id. auto using Rp_refl.
    + destruct (par_child_follows v k (i :: path) st st1 q K1 Ho E1)
        as (rs1 & O1 & T1 & R1).
      destruct (par_child_settled v k (i :: path) st st1 q K1 Ho Hs E1) as (q1 & O1' & S1).
      pose proof (IH (S i) st1 y q1 K2 O1' S1 Ey) as HF.
      eapply Forall_impl; [|exact HF]. intros pt (q' & rs' & Oa & Sa & Ob & Tb & Rb).
      rewrite O1' in Oa. injection Oa as <-. rewrite O1 in O1'. injection O1' as <-.
      exists q, rs'. split; [exact Ho|]. split; [exact Hs|].
      split; [exact Ob|]. split; [rewrite Tb; exact T1|].
      cbn [p_runs with_runs] in Rb. exact (Rp_trans _ _ _ R1 Rb).
Qed.

Lemma kids_points_sorted v path : forall ks i st x q,
  forallb par_child ks = true -> c_open st = [q] -> settled q ->
  kids_points v path ks i st = Ok x ->
  StronglySorted (fun p p' => inpar (snd p) (snd p')) (all_points x).
Proof.
  induction ks as [|k r IH]; intros i st x q Hks Ho Hs H.
  - cbn [kids_points] in H. injection H as <-. unfold all_points. cbn [fst snd app].
    constructor; constructor.
  - pose proof (kids_points_from v path (k :: r) i st x q Hks Ho Hs H) as HF.
    cbn [kids_points] in H.
    cbn [forallb] in Hks. apply andb_true_iff in Hks. destruct Hks as [K1 K2].
    bind_inv H as st1 E1. bind_inv H as y Ey. injection H as <-.
    unfold all_points in *. cbn [fst snd app] in *. constructor.
    + destruct (par_child_settled v k (i :: path) st st1 q K1 Ho Hs E1) as (q1 & O1' & S1).
      exact (IH (S i) st1 y q1 K2 O1' S1 Ey).
    + apply Forall_inv_tail in HF. exact HF.
Qed.

Lemma kids_points_settled v path : forall ks i st x q,
  forallb par_child ks = true -> c_open st = [q] -> settled q ->
  kids_points v path ks i st = Ok x -> exists q', c_open (snd x) = [q'] /\ settled q'.
Proof.
  induction ks as [|k r IH]; intros i st x q Hks Ho Hs H; cbn [kids_points] in H.
  - injection H as <-. exists q. auto.
  - cbn [forallb] in Hks. apply andb_true_iff in Hks. destruct Hks as [K1 K2].
    bind_inv H as st1 E1. bind_inv H as y Ey. injection H as <-. cbn [snd].
    destruct (par_child_settled v k (i :: path) st st1 q K1 Ho Hs E1) as (q1 & O1' & S1).
    exact (IH (S i) st1 y q1 K2 O1' S1 Ey).
Qed.

(* one paragraph was concluded between st and st5 *)
Definition concl (st st5 : cst) : Prop :=
  exists q rs3, c_open st = [q] /\ settled q /\ Rp (p_runs q) rs3
    /\ forall ps, pars_at 4%nat (c_tree st) = Ok ps ->
                  pars_at 4%nat (c_tree st5) = Ok (ps ++ [with_runs q rs3]).

(* the concluded paragraphs are kept, at most one is open *)
Definition grows (st st' : cst) : Prop :=
  (length (c_open st') <= 1)%nat /\
  forall ps, pars_at 4%nat (c_tree st) = Ok ps ->
             exists new, pars_at 4%nat (c_tree st') = Ok (ps ++ new).

Lemma grows_trans a b c : grows a b -> grows b c -> grows a c.
Proof.
  intros [_ H1] [L2 H2]. split; [exact L2|]. intros ps Hps.
  destruct (H1 ps Hps) as (n1 & E1). destruct (H2 _ E1) as (n2 & E2).
  exists (n1 ++ n2). rewrite E2, app_assoc. reflexivity.
Qed.

Lemma grows_ext st st' : c_open st = [] -> grows st st' -> ext st st'.
Proof. intros Ho [L H]. unfold ext. rewrite Ho. split; assumption. Qed.

Lemma concl_grows_ext st s5 st' : concl st s5 -> grows s5 st' -> ext st st'.
Proof.
  intros (q & rs3 & Ho & Hs & HR & Hc) [L H]. unfold ext. rewrite Ho.
  split; [exact L|]. split; [exact Hs|]. exists rs3. split; [exact HR|]. right.
  intros ps Hps. destruct (H _ (Hc ps Hps)) as (new & En). exists new.
  rewrite En, <- app_assoc. reflexivity.
Qed.

Lemma par_points_spec v path e ks s x :
  rm_par (AE e ks) = true -> c_open s = [] -> par_points v path e ks s = Ok x ->
  c_open (snd x) = []
  /\ StronglySorted (fun p p' => inpar (snd p) (snd p')) (fst x)
  /\ Forall (fun pt => grows s (snd pt) /\ concl (snd pt) (snd x)) (fst x)
  /\ grows s (snd x).
Proof.
  intros Hrm Hopen H. destruct (rm_par_AE _ _ Hrm) as [Ht Hks]. unfold par_points in H.
  bind_inv H as s2 E2.
  destruct (par_enter_spec v e ks path s s2 Ht Hopen E2) as (q2 & O2 & S2 & Q2 & R2 & K2).
  bind_inv H as y Ey. bind_inv H as s4 E4. bind_inv H as s5 E5. injection H as <-.
  cbn [fst snd].
  pose proof (kids_points_from v path ks 0%nat s2 y q2 Hks O2 S2 Ey) as HF.
  pose proof (kids_points_sorted v path ks 0%nat s2 y q2 Hks O2 S2 Ey) as HS.
  fold (all_points y).
  (* the last point: the state that is concluded *)
  assert (H3 : inpar s2 (snd y)).
  { unfold all_points in HF. apply Forall_app in HF. destruct HF as [_ HF].
    apply Forall_inv in HF. exact HF. }
  destruct H3 as (q2' & rs3 & O2' & _ & O3 & T3 & R3).
  rewrite O2 in O2'. injection O2' as <-.
  destruct (conclude_one (snd y) s4 _ O3 E4) as (O4 & _ & _ & _ & K4).
  apply set_caret_frame in E5. destruct E5 as ((O5 & _) & K5 & _).
  split; [rewrite O5; exact O4|]. split; [exact HS|]. split.
  - (* each point *)
    apply Forall_forall. intros pt Hin.
    pose proof (proj1 (Forall_forall _ _) HF pt Hin) as (qa & rsa & Oa & Sa & Ob & Tb & Rb).
    rewrite O2 in Oa. injection Oa as <-.
    split.
    + split; [rewrite Ob; cbn; lia|]. intros ps Hps. exists []. rewrite app_nil_r, Tb.
      apply K2, Hps.
    + (* the last point follows this one *)
      destruct (In_split _ _ Hin) as (pre & post & Esp).
      assert (Hlast : In (None, snd y) post \/ pt = (None, snd y)).
      { unfold all_points in Esp.
        destruct (@exists_last _ (pt :: post)) as (l0 & z & Ez); [discriminate|].
        rewrite Ez, app_assoc in Esp. apply app_inj_tail in Esp. destruct Esp as [_ Ezz]. subst z.
        destruct l0 as [|h l0]; [right|left].
        - cbn [app] in Ez. injection Ez as ->. reflexivity.
        - cbn [app] in Ez. injection Ez as _ ->. apply in_or_app. right. left. reflexivity. }
      assert (Hfol : inpar (snd pt) (snd y)).
      { destruct Hlast as [Hl| ->].
        - exact (SS_split _ _ HS pre pt post (None, snd y) Esp Hl).
        - cbn [snd]. exists (with_runs q2 rs3), rs3. split; [exact O3|].
          assert (Sy : settled (with_runs q2 rs3)).
          { destruct (kids_points_settled v path ks 0%nat s2 y q2 Hks O2 S2 Ey) as (q3 & O3' & S3).
            rewrite O3 in O3'. injection O3' as <-. exact S3. }
          split; [exact Sy|]. split; [exact O3|]. split; [reflexivity|apply Rp_refl]. }
      destruct Hfol as (qb & rsb & Oc & Sc & Od & Td & Rd).
      exists qb, rsb. split; [exact Oc|]. split; [exact Sc|]. split; [exact Rd|].
      intros ps Hps. apply K5. rewrite <- Td in Hps.
      rewrite (K4 ps Hps). rewrite O3 in Od.
      assert (Eq : with_runs q2 rs3 = with_runs qb rsb) by congruence. rewrite Eq. reflexivity.
  - split; [rewrite O5, O4; cbn; lia|]. intros ps Hps.
    exists [with_runs q2 rs3]. apply K5, K4. rewrite T3. apply K2, Hps.
Qed.

(* ================================================================== *)
(* S3: the points of a whole body                                       *)
(* ================================================================== *)
Lemma grows_refl st : c_open st = [] -> grows st st.
Proof.
  intro Ho. split; [rewrite Ho; cbn; lia|]. intros ps Hps. exists []. rewrite app_nil_r. exact Hps.
Qed.

(* a child of the body that is not a paragraph of the class *)
Lemma span_other_cases e pks :
  span_child (AE e pks) = true -> rm_par (AE e pks) = false ->
  (is_marker (AE e pks) = true /\ pks = []) \/ inert (AE e pks) = true
  \/ opaque_tbl (AE e pks) = true.
Proof.
  intros Hsp Hrm. unfold span_child in Hsp. rewrite Hrm in Hsp. cbn [orb] in Hsp.
  apply orb_true_iff in Hsp. destruct Hsp as [Hsp|Ho]; [|auto].
  apply orb_true_iff in Hsp. destruct Hsp as [Hm|Hi]; [|auto].
  left. destruct pks as [|k r]; [auto|discriminate Hm].
Qed.

Lemma span_other_walk v path e pks s s' :
  span_child (AE e pks) = true -> rm_par (AE e pks) = false -> Inv s ->
  walk v path (AE e pks) s = Ok s' ->
  c_open s' = c_open s
  /\ (forall ps, pars_at 4%nat (c_tree s) = Ok ps ->
                 exists new, pars_at 4%nat (c_tree s') = Ok (ps ++ new)).
Proof.
  intros Hsp Hrm Hi Hw. destruct (span_other_cases e pks Hsp Hrm) as [[Hm ->]|[Hin|Hop]].
  - destruct (marker_walk_state v path e s s' Hm Hw) as [O T]. split; [exact O|].
    intros ps Hps. exists []. rewrite app_nil_r, T. exact Hps.
  - rewrite (inert_walk v _ Hin) in Hw. injection Hw as <-. split; [reflexivity|].
    intros ps Hps. exists []. rewrite app_nil_r. exact Hps.
  - destruct (opaque_tbl_walk v _ path s s' Hop Hi Hw) as (O & _ & G). auto.
Qed.

Lemma body_points_grow v path : forall ks i s x,
  forallb span_child ks = true -> c_open s = [] -> Inv s -> body_points v path ks i s = Ok x ->
  c_open (snd x) = [] /\ Inv (snd x) /\ Forall (fun pt => grows s (snd pt)) (all_points x).
Proof.
  induction ks as [|k r IH]; intros i s x Hks Ho Hi H; cbn [body_points] in H.
  - injection H as <-. unfold all_points. cbn [fst snd app]. split; [exact Ho|]. split; [exact Hi|].
    constructor; [apply grows_refl, Ho|constructor].
  - cbn [forallb] in Hks. apply andb_true_iff in Hks. destruct Hks as [K1 K2].
    bind_inv H as xk Ek. bind_inv H as y Ey. injection H as <-.
    pose proof (child_points_inv v path i k s xk Hi Ek) as Ik. unfold child_points in Ek.
    unfold all_points. cbn [fst snd].
    assert (Hk : c_open (snd xk) = [] /\ grows s (snd xk) /\ Forall (fun pt => grows s (snd pt)) (fst xk)).
    { destruct k as [e pks|tl].
      - destruct (rm_par (AE e pks)) eqn:Hrm.
        + destruct (par_points_spec v (i :: path) e pks s xk Hrm Ho Ek) as (O5 & _ & HF & G5).
          split; [exact O5|]. split; [exact G5|].
          eapply Forall_impl; [|exact HF]. intros pt [G _]. exact G.
        + bind_inv Ek as s1 E1. injection Ek as <-. cbn [fst snd].
          destruct (span_other_walk v (i :: path) e pks s s1 K1 Hrm Hi E1) as (O1 & G1).
          split; [rewrite O1; exact Ho|]. split; [|constructor].
          split; [rewrite O1, Ho; cbn; lia|exact G1].
      - injection Ek as <-. cbn [fst snd]. split; [exact Ho|]. split; [apply grows_refl, Ho|constructor]. }
    destruct Hk as (Ok' & Gk & Fk).
    destruct (IH (S i) (snd xk) y K2 Ok' Ik Ey) as (Oy & Iy & Fy).
    split; [exact Oy|]. split; [exact Iy|].
    cbn [app]. constructor; [apply grows_refl, Ho|].
    rewrite <- app_assoc. apply Forall_app. split; [exact Fk|].
    eapply Forall_impl; [|exact Fy]. intros pt G. exact (grows_trans _ _ _ Gk G).
Qed.

(* MAIN (structural form): along the points of the walk every later state
   extends every earlier one *)
Theorem body_points_sorted v path : forall ks i s x,
  forallb span_child ks = true -> c_open s = [] -> Inv s -> body_points v path ks i s = Ok x ->
  StronglySorted (fun p p' => ext (snd p) (snd p')) (all_points x).
Proof.
  induction ks as [|k r IH]; intros i s x Hks Ho Hi H.
  - cbn [body_points] in H. injection H as <-. unfold all_points. cbn [fst snd app].
    constructor; constructor.
  - destruct (body_points_grow v path (k :: r) i s x Hks Ho Hi H) as (_ & _ & HG).
    cbn [body_points] in H.
    cbn [forallb] in Hks. apply andb_true_iff in Hks. destruct Hks as [K1 K2].
    bind_inv H as xk Ek. bind_inv H as y Ey. injection H as <-.
    pose proof (child_points_inv v path i k s xk Hi Ek) as Ik. unfold child_points in Ek.
    unfold all_points in *. cbn [fst snd app] in *. constructor.
    2:{ apply Forall_inv_tail in HG. eapply Forall_impl; [|exact HG].
        intros pt G. exact (grows_ext _ _ Ho G). }
    rewrite <- app_assoc.
    assert (Hk : c_open (snd xk) = []
                 /\ StronglySorted (fun p p' => ext (snd p) (snd p')) (fst xk)
                 /\ Forall (fun pt => concl (snd pt) (snd xk)) (fst xk)).
    { destruct k as [e pks|tl].
      - destruct (rm_par (AE e pks)) eqn:Hrm.
        + destruct (par_points_spec v (i :: path) e pks s xk Hrm Ho Ek) as (O5 & HS & HF & _).
          split; [exact O5|]. split.
          * eapply SS_impl; [|exact HS]. intros a b _ _ Hab. exact (inpar_ext _ _ Hab).
          * eapply Forall_impl; [|exact HF]. intros pt [_ C]. exact C.
        + bind_inv Ek as s1 E1. injection Ek as <-. cbn [fst snd].
          destruct (span_other_walk v (i :: path) e pks s s1 K1 Hrm Hi E1) as (O1 & _).
          split; [rewrite O1; exact Ho|]. split; constructor.
      - injection Ek as <-. cbn [fst snd]. split; [exact Ho|]. split; constructor. }
    destruct Hk as (Ok' & Sk & Ck).
    destruct (body_points_grow v path r (S i) (snd xk) y K2 Ok' Ik Ey) as (_ & _ & Gy).
    apply SS_app; [exact Sk|exact (IH (S i) (snd xk) y K2 Ok' Ik Ey)|].
    intros a b Ha Hb.
    exact (concl_grows_ext _ _ _ (proj1 (Forall_forall _ _) Ck a Ha)
             (proj1 (Forall_forall _ _) Gy b Hb)).
Qed.

(* the final flattened run strings: concat (map par_run_strings (pars_at 4 tree)) *)
Definition final_runs (html : bool) (s : cst) : res (list str) :=
  ps <- pars_at 4%nat (c_tree s) ;;
  a <- mapM (par_run_strings html) ps ;;
  Ok (concat a).

Lemma final_runs_rsf v s : c_open s = [] -> runs_so_far v s = final_runs (html_on v) s.
Proof.
  intro Ho. unfold runs_so_far, final_runs. rewrite Ho. cbn [rev mapM].
  destruct (pars_at 4%nat (c_tree s)) as [ps|x]; [|reflexivity]. cbn [bind].
  destruct (mapM (par_run_strings (html_on v)) ps) as [a|x]; [|reflexivity]. cbn [bind concat].
  rewrite app_nil_r. reflexivity.
Qed.

(* 1a. body_markers_prefix: the run strings seen at ANY point of the walk (in
   particular at any marker) are a prefix of those seen at every later point,
   and of the final flattened run strings — across paragraph boundaries *)
Theorem body_markers_prefix : forall v path ks i s tr s',
  forallb span_child ks = true -> c_open s = [] -> Inv s ->
  body_points v path ks i s = Ok (tr, s') ->
  c_open s' = [] /\
  forall pre x st post l, tr = pre ++ (x, st) :: post -> runs_so_far v st = Ok l ->
    (forall y st2 l2, In (y, st2) post -> runs_so_far v st2 = Ok l2 -> exists z, l2 = l ++ z)
    /\ (forall lf, final_runs (html_on v) s' = Ok lf -> exists z, lf = l ++ z).
Proof.
  intros v path ks i s tr s' Hks Ho Hi H.
  destruct (body_points_grow v path ks i s (tr, s') Hks Ho Hi H) as (O' & _).
  split; [exact O'|]. cbn [snd] in O'.
  pose proof (body_points_sorted v path ks i s (tr, s') Hks Ho Hi H) as HS.
  unfold all_points in HS. cbn [fst snd] in HS.
  intros pre x st post l -> Hl. rewrite <- app_assoc in HS. cbn [app] in HS. split.
  - intros y st2 l2 Hin Hl2.
    pose proof (SS_split _ _ HS pre (x, st) (post ++ [(None, s')]) (y, st2) eq_refl
                  (in_or_app _ _ _ (or_introl Hin))) as E.
    exact (ext_prefix v st st2 l l2 E Hl Hl2).
  - intros lf Hlf. rewrite <- (final_runs_rsf v s' O') in Hlf.
    pose proof (SS_split _ _ HS pre (x, st) (post ++ [(None, s')]) (None, s') eq_refl
                  (in_or_app _ _ _ (or_intror (in_eq _ _)))) as E.
    exact (ext_prefix v st s' l lf E Hl Hlf).
Qed.

(* ================================================================== *)
(* S4: the recorded ranges are a fold over the marker events            *)
(* ================================================================== *)
(* an event: start (true) or end (false) marker, its w:id, and the run strings
   seen when it is met *)
Definition event := (bool * str * list str)%type.
Definition ev_start (ev : event) : bool := fst (fst ev).
Definition ev_id (ev : event) : str := snd (fst ev).
Definition ev_runs (ev : event) : list str := snd ev.

Definition marker_of (t : anode) : option (bool * str) :=
  match t with
  | AE e [] =>
      if str_eqb (e_ptag e) tag_COMMENT_RANGE_START then
        match attr_w_req e s_id with Ok id => Some (true, id) | Err _ => None end
      else if str_eqb (e_ptag e) tag_COMMENT_RANGE_END then
        match attr_w_req e s_id with Ok id => Some (false, id) | Err _ => None end
      else None
  | _ => None
  end.

Definition point_events (v : env) (pt : point) : list event :=
  match fst pt with
  | Some k =>
      match marker_of k with
      | Some (b, id) =>
          match runs_so_far v (snd pt) with Ok l => [(b, id, l)] | Err _ => [] end
      | None => []
      end
  | None => []
  end.

Definition events (v : env) (tr : list point) : list event := flat_map (point_events v) tr.

(* DepthCollector.start_comment_range / end_comment_range on the dictionary *)
Definition ev_step (R : list (str * (nat * nat))) (ev : event) : list (str * (nat * nat)) :=
  let n := length (ev_runs ev) in
  if ev_start ev then ranges_set (ev_id ev) (n, n) R
  else match dict_get (ev_id ev) R with
       | None => R
       | Some (b, _) => ranges_set (ev_id ev) (b, n) R
       end.

Lemma events_app v a b : events v (a ++ b) = events v a ++ events v b.
Proof. apply flat_map_app. Qed.

Lemma marker_step v path e s s' :
  is_marker (AE e []) = true -> walk v path (AE e []) s = Ok s' ->
  c_ranges s' = fold_left ev_step (point_events v (Some (AE e []), s)) (c_ranges s).
Proof.
  intros Hm Hw. unfold point_events, marker_of. cbn [fst snd].
  cbn [is_marker] in Hm. apply orb_true_iff in Hm. destruct Hm as [Hm|Hm].
  - rewrite Hm. apply str_eqb_eq in Hm.
    rewrite (walk_marker_start v path e s Hm) in Hw. bind_inv Hw as id Eid.
    unfold start_comment_range in Hw. bind_inv Hw as n En. injection Hw as <-.
    destruct (count_runs_is_length v s n En) as (l & -> & <-).
    reflexivity.
  - assert (Hs : str_eqb (e_ptag e) tag_COMMENT_RANGE_START = false).
    { apply str_eqb_eq in Hm. rewrite Hm. reflexivity. }
    rewrite Hs, Hm. apply str_eqb_eq in Hm.
    rewrite (walk_marker_end v path e s Hm) in Hw. bind_inv Hw as id Eid.
    unfold end_comment_range in Hw.
    destruct (dict_get id (c_ranges s)) as [[b0 e0]|] eqn:Eg.
    + bind_inv Hw as n En. injection Hw as <-.
      destruct (count_runs_is_length v s n En) as (l & -> & <-).
      cbn [fold_left]. unfold ev_step. cbn [ev_start ev_id ev_runs fst snd]. rewrite Eg. reflexivity.
    + injection Hw as <-. destruct (runs_so_far v s) as [l|x]; [|reflexivity].
      cbn [fold_left]. unfold ev_step. cbn [ev_start ev_id ev_runs fst snd]. rewrite Eg. reflexivity.
Qed.

Lemma inline_ranges v t path s s' q rest :
  plain_inline t = true -> c_open s = q :: rest -> walk v path t s = Ok s' ->
  c_ranges s' = c_ranges s.
Proof.
  intros Hpl Ho Hw. destruct (walk_keeps v t path Hpl s q rest s' Ho Hw) as (rs' & -> & _).
  reflexivity.
Qed.

Lemma inert_not_marker t : inert t = true -> marker_of t = None.
Proof.
  destruct t as [e ks|tl]; [|reflexivity]. intro H. destruct (inert_AE _ _ H) as (Hm & _).
  destruct (passive_tags _ Hm) as (_ & _ & _ & H4 & H5).
  unfold marker_of. rewrite H4, H5. destruct ks; reflexivity.
Qed.

Lemma child_step v path k st st1 q :
  par_child k = true -> c_open st = [q] -> walk v path k st = Ok st1 ->
  c_ranges st1 = fold_left ev_step (point_events v (Some k, st)) (c_ranges st).
Proof.
  intros Hk Ho Hw. destruct (par_child_cases k Hk) as [Hr|[Hin Hi]].
  2:{ rewrite Hi in Hw. injection Hw as <-. unfold point_events. cbn [fst].
      rewrite (inert_not_marker k Hin). reflexivity. }
  clear Hk. rename Hr into Hk. destruct k as [e ks|tl].
  2:{ cbn in Hw. injection Hw as <-. reflexivity. }
  unfold run_or_marker in Hk. apply orb_true_iff in Hk. destruct Hk as [Hk|Hk].
  - apply andb_true_iff in Hk. destruct Hk as [Ht Hks].
    rewrite (inline_ranges v _ path st st1 q [] (run_is_inline e ks Ht Hks) Ho Hw).
    unfold point_events, marker_of. cbn [fst snd]. apply str_eqb_eq in Ht. rewrite Ht.
    change (str_eqb tag_RUN tag_COMMENT_RANGE_START) with false.
    change (str_eqb tag_RUN tag_COMMENT_RANGE_END) with false.
    destruct ks; reflexivity.
  - destruct ks as [|k0 ks]; [|discriminate Hk].
    exact (marker_step v path e st st1 Hk Hw).
Qed.

Lemma kids_points_ranges v path : forall ks i st x q,
  forallb par_child ks = true -> c_open st = [q] -> kids_points v path ks i st = Ok x ->
  c_ranges (snd x) = fold_left ev_step (events v (fst x)) (c_ranges st).
Proof.
  induction ks as [|k r IH]; intros i st x q Hks Ho H; cbn [kids_points] in H.
  - injection H as <-. reflexivity.
  - cbn [forallb] in Hks. apply andb_true_iff in Hks. destruct Hks as [K1 K2].
    bind_inv H as st1 E1. bind_inv H as y Ey. injection H as <-. cbn [fst snd].
    destruct (par_child_follows v k (i :: path) st st1 q K1 Ho E1)
      as (rs1 & O1 & _ & _).
    rewrite (IH (S i) st1 y _ K2 O1 Ey).
    change (events v ((Some k, st) :: fst y)) with (point_events v (Some k, st) ++ events v (fst y)).
    rewrite fold_left_app, <- (child_step v (i :: path) k st st1 q K1 Ho E1). reflexivity.
Qed.

Lemma par_not_marker e ks : str_eqb (e_ptag e) tag_PARAGRAPH = true -> marker_of (AE e ks) = None.
Proof.
  intro Ht. apply str_eqb_eq in Ht. unfold marker_of. rewrite Ht. destruct ks; reflexivity.
Qed.

Lemma par_points_ranges v path e ks s x :
  rm_par (AE e ks) = true -> c_open s = [] -> par_points v path e ks s = Ok x ->
  c_ranges (snd x) = fold_left ev_step (events v (fst x)) (c_ranges s).
Proof.
  intros Hrm Hopen H. destruct (rm_par_AE _ _ Hrm) as [Ht Hks]. unfold par_points in H.
  bind_inv H as s2 E2.
  destruct (par_enter_spec v e ks path s s2 Ht Hopen E2) as (q2 & O2 & S2 & Q2 & R2 & K2).
  bind_inv H as y Ey. bind_inv H as s4 E4. bind_inv H as s5 E5. injection H as <-.
  cbn [fst snd]. rewrite events_app. cbn [events flat_map point_events fst]. rewrite app_nil_r.
  pose proof (kids_points_ranges v path ks 0%nat s2 y q2 Hks O2 Ey) as HR.
  pose proof (kids_points_from v path ks 0%nat s2 y q2 Hks O2 S2 Ey) as HF.
  unfold all_points in HF. apply Forall_app in HF. destruct HF as [_ HF]. apply Forall_inv in HF.
  destruct HF as (q2' & rs3 & _ & _ & O3 & _).
  destruct (conclude_one (snd y) s4 _ O3 E4) as (_ & R4 & _).
  apply set_caret_frame in E5. destruct E5 as ((_ & _ & R5 & _) & _).
  rewrite R5, R4, HR, R2. reflexivity.
Qed.

Lemma opaque_not_marker t : opaque_tbl t = true -> marker_of t = None.
Proof.
  unfold opaque_tbl. intro H.
  apply andb_true_iff in H. destruct H as [H _]. apply andb_true_iff in H. destruct H as [H _].
  apply andb_true_iff in H. destruct H as [Hf _].
  destruct t as [e ks|tl]; [|reflexivity]. cbn [flat_tbl] in Hf.
  apply andb_true_iff in Hf. destruct Hf as [Hf _]. apply andb_true_iff in Hf.
  destruct Hf as [Ht _]. apply str_eqb_eq in Ht. unfold marker_of. rewrite Ht.
  destruct ks; reflexivity.
Qed.

Lemma span_other_ranges v path e pks s s' :
  span_child (AE e pks) = true -> rm_par (AE e pks) = false -> Inv s ->
  walk v path (AE e pks) s = Ok s' ->
  c_ranges s' = fold_left ev_step (point_events v (Some (AE e pks), s)) (c_ranges s).
Proof.
  intros Hsp Hrm Hi Hw. destruct (span_other_cases e pks Hsp Hrm) as [[Hm ->]|[Hin|Hop]].
  - exact (marker_step v path e s s' Hm Hw).
  - rewrite (inert_walk v _ Hin) in Hw. injection Hw as <-. unfold point_events. cbn [fst].
    rewrite (inert_not_marker _ Hin). reflexivity.
  - destruct (opaque_tbl_walk v _ path s s' Hop Hi Hw) as (_ & [R _] & _).
    unfold point_events. cbn [fst]. rewrite (opaque_not_marker _ Hop). exact R.
Qed.

(* 1b (exact form). the dictionary of ranges after the body is the fold of
   start_/end_comment_range over the marker events, each with the number of
   run strings seen at its point *)
Theorem body_ranges_fold v path : forall ks i s x,
  forallb span_child ks = true -> c_open s = [] -> Inv s -> body_points v path ks i s = Ok x ->
  c_ranges (snd x) = fold_left ev_step (events v (fst x)) (c_ranges s).
Proof.
  induction ks as [|k r IH]; intros i s x Hks Ho Hi H; cbn [body_points] in H.
  - injection H as <-. reflexivity.
  - cbn [forallb] in Hks. apply andb_true_iff in Hks. destruct Hks as [K1 K2].
    bind_inv H as xk Ek. bind_inv H as y Ey. injection H as <-. cbn [fst snd].
    pose proof (child_points_inv v path i k s xk Hi Ek) as Ik. unfold child_points in Ek.
    change (events v ((Some k, s) :: fst xk ++ fst y))
      with (point_events v (Some k, s) ++ events v (fst xk ++ fst y)).
    rewrite events_app, !fold_left_app.
    assert (Hk : c_open (snd xk) = [] /\
                 c_ranges (snd xk)
                 = fold_left ev_step (events v (fst xk))
                     (fold_left ev_step (point_events v (Some k, s)) (c_ranges s))).
    { destruct k as [e pks|tl].
      - destruct (rm_par (AE e pks)) eqn:Hrm.
        + destruct (par_points_spec v (i :: path) e pks s xk Hrm Ho Ek) as (O5 & _).
          split; [exact O5|].
          rewrite (par_points_ranges v (i :: path) e pks s xk Hrm Ho Ek).
          unfold point_events. cbn [fst].
          rewrite (par_not_marker e pks (proj1 (rm_par_AE _ _ Hrm))). reflexivity.
        + bind_inv Ek as s1 E1. injection Ek as <-. cbn [fst snd events flat_map fold_left].
          destruct (span_other_walk v (i :: path) e pks s s1 K1 Hrm Hi E1) as (O1 & _).
          split; [rewrite O1; exact Ho|].
          exact (span_other_ranges v (i :: path) e pks s s1 K1 Hrm Hi E1).
      - injection Ek as <-. cbn [fst snd]. split; [exact Ho|reflexivity]. }
    destruct Hk as (Ok' & Rk).
    rewrite (IH (S i) (snd xk) y K2 Ok' Ik Ey), Rk. reflexivity.
Qed.

(* ================================================================== *)
(* S5: from the fold to the slice (lists only)                          *)
(* ================================================================== *)
Definition no_start (id : str) (es : list event) : Prop :=
  forall ev, In ev es -> ev_id ev = id -> ev_start ev = false.
Definition no_end (id : str) (es : list event) : Prop :=
  forall ev, In ev es -> ev_id ev = id -> ev_start ev = true.

(* l1: the run strings seen at the LAST start marker of id; l1 ++ l2: those
   seen at the last end marker of id after it (l2 = [] when there is none) *)
Definition between (es : list event) (id : str) (l1 l2 : list str) : Prop :=
  exists pre post, es = pre ++ (true, id, l1) :: post /\ no_start id post /\
    ((no_end id post /\ l2 = []) \/
     exists mid post', post = mid ++ (false, id, l1 ++ l2) :: post' /\ no_end id post').

Lemma no_start_snoc id es ev : no_start id es -> (ev_id ev = id -> ev_start ev = false) ->
  no_start id (es ++ [ev]).
Proof.
  intros H He x Hx. apply in_app_or in Hx. destruct Hx as [Hx|[<-|[]]]; [exact (H x Hx)|exact He].
Qed.
Lemma no_end_snoc id es ev : no_end id es -> (ev_id ev = id -> ev_start ev = true) ->
  no_end id (es ++ [ev]).
Proof.
  intros H He x Hx. apply in_app_or in Hx. destruct Hx as [Hx|[<-|[]]]; [exact (H x Hx)|exact He].
Qed.
Lemma no_nil_s id : no_start id []. Proof. intros x []. Qed.
Lemma no_nil_e id : no_end id []. Proof. intros x []. Qed.

Lemma str_eqb_neq a b : str_eqb a b = false -> a <> b.
Proof. intros H E. subst b. rewrite BulletsFacts.str_eqb_refl in H. discriminate H. Qed.

(* which markers decide the recorded pair *)
Lemma fold_ranges_last : forall es id b e,
  dict_get id (fold_left ev_step es []) = Some (b, e) ->
  exists pre l1 post, es = pre ++ (true, id, l1) :: post /\ no_start id post /\ b = length l1 /\
    ((no_end id post /\ e = b) \/
     exists mid l12 post', post = mid ++ (false, id, l12) :: post' /\ no_end id post'
                           /\ e = length l12).
Proof.
  induction es as [|ev es' IH] using rev_ind; intros id b e H.
  - discriminate H.
  - rewrite fold_left_app in H. cbn [fold_left] in H.
    set (R := fold_left ev_step es' []) in *.
    (* an event about another id changes nothing for id *)
    assert (Hother : ev_id ev <> id -> dict_get id R = Some (b, e) ->
      exists pre l1 post, es' ++ [ev] = pre ++ (true, id, l1) :: post /\ no_start id post
        /\ b = length l1 /\
        ((no_end id post /\ e = b) \/
         exists mid l12 post', post = mid ++ (false, id, l12) :: post' /\ no_end id post'
                               /\ e = length l12)).
    { intros Hne Hg. destruct (IH id b e Hg) as (pre & l1 & post & -> & Ns & Hb & Hc).
      exists pre, l1, (post ++ [ev]). split; [rewrite <- app_assoc; reflexivity|].
      split; [apply no_start_snoc; [exact Ns|intro E; contradiction]|]. split; [exact Hb|].
      destruct Hc as [[Ne He]|(mid & l12 & post' & -> & Ne & He)].
      - left. split; [apply no_end_snoc; [exact Ne|intro E; contradiction]|exact He].
      - right. exists mid, l12, (post' ++ [ev]). split; [rewrite <- app_assoc; reflexivity|].
        split; [apply no_end_snoc; [exact Ne|intro E; contradiction]|exact He]. }
    destruct ev as [[st id'] l]. unfold ev_step in H. cbn [ev_start ev_id ev_runs fst snd] in H, Hother.
    destruct st.
    + rewrite ranges_get_set in H. destruct (str_eqb id id') eqn:Ei.
      * apply str_eqb_eq in Ei. subst id'. injection H as <- <-.
        exists es', l, []. split; [reflexivity|]. split; [apply no_nil_s|]. split; [reflexivity|].
        left. split; [apply no_nil_e|reflexivity].
      * apply Hother; [|exact H]. intro E. apply (str_eqb_neq _ _ Ei). symmetry. exact E.
    + destruct (dict_get id' R) as [[b0 e0]|] eqn:Eg.
      * rewrite ranges_get_set in H. destruct (str_eqb id id') eqn:Ei.
        -- apply str_eqb_eq in Ei. subst id'. injection H as <- <-.
           destruct (IH id b0 e0 Eg) as (pre & l1 & post & -> & Ns & Hb & _).
           exists pre, l1, (post ++ [(false, id, l)]).
           split; [rewrite <- app_assoc; reflexivity|].
           split; [apply no_start_snoc; [exact Ns|reflexivity]|]. split; [exact Hb|].
           right. exists post, l, []. split; [reflexivity|]. split; [apply no_nil_e|reflexivity].
        -- apply Hother; [|exact H]. intro E. apply (str_eqb_neq _ _ Ei). symmetry. exact E.
      * destruct (str_eqb id id') eqn:Ei.
        -- apply str_eqb_eq in Ei. subst id'. rewrite Eg in H. discriminate H.
        -- apply Hother; [|exact H]. intro E. apply (str_eqb_neq _ _ Ei). symmetry. exact E.
Qed.

Lemma skipn_length_app {A} (l1 r : list A) : skipn (length l1) (l1 ++ r) = r.
Proof. induction l1 as [|x l1 IH]; [reflexivity|exact IH]. Qed.
Lemma firstn_length_app {A} (l2 r : list A) : firstn (length l2) (l2 ++ r) = l2.
Proof. induction l2 as [|x l2 IH]; [reflexivity|cbn; rewrite IH; reflexivity]. Qed.

Lemma slice_of_app {A} (l1 l2 l3 : list A) :
  firstn (length (l1 ++ l2) - length l1) (skipn (length l1) (l1 ++ l2 ++ l3)) = l2.
Proof.
  rewrite skipn_length_app, app_length.
  replace (length l1 + length l2 - length l1)%nat with (length l2) by lia.
  apply firstn_length_app.
Qed.

Definition runs_prefix (a b : event) : Prop := exists z, ev_runs b = ev_runs a ++ z.

Theorem range_slice_pure : forall es lf id b e,
  StronglySorted runs_prefix es ->
  Forall (fun a => exists z, lf = ev_runs a ++ z) es ->
  dict_get id (fold_left ev_step es []) = Some (b, e) ->
  exists l1 l2 l3, lf = l1 ++ l2 ++ l3 /\ b = length l1 /\ e = length (l1 ++ l2)
    /\ between es id l1 l2.
Proof.
  intros es lf id b e HS HF H.
  destruct (fold_ranges_last es id b e H) as (pre & l1 & post & Ees & Ns & Hb & Hc).
  destruct Hc as [[Ne He]|(mid & l12 & post' & Ep & Ne & He)].
  - (* no end marker *)
    assert (Hin : In (true, id, l1) es) by (rewrite Ees; apply in_or_app; right; left; reflexivity).
    destruct (proj1 (Forall_forall _ _) HF _ Hin) as (z & Hz). cbn [ev_runs snd] in Hz.
    exists l1, [], z. split; [exact Hz|]. split; [exact Hb|].
    split; [rewrite app_nil_r, He; exact Hb|].
    exists pre, post. split; [exact Ees|]. split; [exact Ns|]. left. auto.
  - assert (Hin : In (false, id, l12) post) by (rewrite Ep; apply in_or_app; right; left; reflexivity).
    destruct (SS_split _ _ HS pre _ post _ Ees Hin) as (l2 & Hl2). cbn [ev_runs snd] in Hl2.
    assert (Hin' : In (false, id, l12) es) by (rewrite Ees; apply in_or_app; right; right; exact Hin).
    destruct (proj1 (Forall_forall _ _) HF _ Hin') as (l3 & Hl3). cbn [ev_runs snd] in Hl3.
    subst l12. exists l1, l2, l3. split; [rewrite Hl3, app_assoc; reflexivity|].
    split; [exact Hb|]. split; [exact He|].
    exists pre, post. split; [exact Ees|]. split; [exact Ns|]. right.
    exists mid, post'. auto.
Qed.

Lemma SS_flat_map {A B} (R : A -> A -> Prop) (R' : B -> B -> Prop) (f : A -> list B) l :
  (forall x, (length (f x) <= 1)%nat) ->
  (forall x y a b, R x y -> In a (f x) -> In b (f y) -> R' a b) ->
  StronglySorted R l -> StronglySorted R' (flat_map f l).
Proof.
  intros H1 HR H. induction H as [|x l Hs IH Hf]; [constructor|].
  cbn [flat_map]. apply SS_app; [|exact IH|].
  - specialize (H1 x). destruct (f x) as [|a [|b r]]; [constructor|constructor; constructor|].
    cbn in H1. lia.
  - intros a b Ha Hb. apply in_flat_map in Hb. destruct Hb as (y & Hy & Hb).
    exact (HR x y a b (proj1 (Forall_forall _ _) Hf y Hy) Ha Hb).
Qed.

Lemma point_events_le1 v pt : (length (point_events v pt) <= 1)%nat.
Proof.
  unfold point_events. destruct (fst pt) as [k|]; [|cbn; lia].
  destruct (marker_of k) as [[b id]|]; [|cbn; lia].
  destruct (runs_so_far v (snd pt)); cbn; lia.
Qed.

Lemma point_events_runs v pt a : In a (point_events v pt) -> runs_so_far v (snd pt) = Ok (ev_runs a).
Proof.
  unfold point_events. destruct (fst pt) as [k|]; [|intros []].
  destruct (marker_of k) as [[b id]|]; [|intros []].
  destruct (runs_so_far v (snd pt)) as [l|x]; [|intros []].
  intros [<-|[]]. reflexivity.
Qed.

(* the marker events of a body: each sees a prefix of what the later ones and
   the final state see *)
Lemma body_events_sorted v path ks i s tr s' lf :
  forallb span_child ks = true -> c_open s = [] -> Inv s ->
  body_points v path ks i s = Ok (tr, s') ->
  final_runs (html_on v) s' = Ok lf ->
  StronglySorted runs_prefix (events v tr)
  /\ Forall (fun a => exists z, lf = ev_runs a ++ z) (events v tr).
Proof.
  intros Hks Ho Hi H Hlf.
  pose proof (body_points_sorted v path ks i s (tr, s') Hks Ho Hi H) as HS.
  destruct (body_points_grow v path ks i s (tr, s') Hks Ho Hi H) as (O' & _). cbn [snd] in O'.
  unfold all_points in HS. cbn [fst snd] in HS.
  split.
  - apply (SS_flat_map (fun p p' => ext (snd p) (snd p')) runs_prefix (point_events v) tr
             (point_events_le1 v)).
    + intros x y a b E Ha Hb.
      exact (ext_prefix v (snd x) (snd y) _ _ E (point_events_runs v x a Ha) (point_events_runs v y b Hb)).
    + clear - HS. induction tr as [|p tr IH]; [constructor|].
      cbn [app] in HS. apply StronglySorted_inv in HS. destruct HS as [Hs Hf].
      constructor; [exact (IH Hs)|]. apply Forall_app in Hf. exact (proj1 Hf).
  - apply Forall_forall. intros a Ha. apply in_flat_map in Ha. destruct Ha as (pt & Hpt & Ha).
    destruct (In_split _ _ Hpt) as (pre & post & ->).
    rewrite <- app_assoc in HS. cbn [app] in HS.
    pose proof (SS_split _ _ HS pre pt (post ++ [(None, s')]) (None, s') eq_refl
                  (in_or_app _ _ _ (or_intror (in_eq _ _)))) as E. cbn [snd] in E.
    rewrite <- (final_runs_rsf v s' O') in Hlf.
    exact (ext_prefix v (snd pt) s' _ lf E (point_events_runs v pt a Ha) Hlf).
Qed.

(* 1c. body_range_is_slice: every recorded range (b, e) cuts exactly the run
   strings emitted between its two markers out of the final run strings *)
Theorem body_range_is_slice : forall v path ks i s tr s' lf id b e,
  forallb span_child ks = true -> c_open s = [] -> Inv s -> c_ranges s = [] ->
  body_points v path ks i s = Ok (tr, s') ->
  final_runs (html_on v) s' = Ok lf ->
  dict_get id (c_ranges s') = Some (b, e) ->
  exists l1 l2 l3, lf = l1 ++ l2 ++ l3 /\ b = length l1 /\ e = length (l1 ++ l2)
    /\ between (events v tr) id l1 l2
    /\ firstn (e - b) (skipn b lf) = l2.
Proof.
  intros v path ks i s tr s' lf id b e Hks Ho Hi Hr H Hlf Hg.
  destruct (body_events_sorted v path ks i s tr s' lf Hks Ho Hi H Hlf) as (HS & HF).
  pose proof (body_ranges_fold v path ks i s (tr, s') Hks Ho Hi H) as HR. cbn [fst snd] in HR.
  rewrite HR, Hr in Hg.
  destruct (range_slice_pure _ lf id b e HS HF Hg) as (l1 & l2 & l3 & E & Hb & He & Hbt).
  exists l1, l2, l3. repeat (split; [assumption|]).
  rewrite E, Hb, He. apply slice_of_app.
Qed.

(* 1b. body_ranges_bounds: b <= e <= the number of final run strings.  (In the
   model an end marker never lowers e below b: an end before its start is
   ignored, a later start resets the pair; a start without end has e = b.) *)
Theorem body_ranges_bounds : forall v path ks i s tr s' lf id b e,
  forallb span_child ks = true -> c_open s = [] -> Inv s -> c_ranges s = [] ->
  body_points v path ks i s = Ok (tr, s') ->
  final_runs (html_on v) s' = Ok lf ->
  dict_get id (c_ranges s') = Some (b, e) ->
  (b <= e <= length lf)%nat
  /\ ((forall ev, In ev (events v tr) -> ev_id ev = id -> ev_start ev = true) -> e = b).
Proof.
  intros v path ks i s tr s' lf id b e Hks Ho Hi Hr H Hlf Hg.
  destruct (body_range_is_slice v path ks i s tr s' lf id b e Hks Ho Hi Hr H Hlf Hg)
    as (l1 & l2 & l3 & E & Hb & He & Hbt & _).
  split.
  - rewrite E, Hb, He, !app_length. lia.
  - intro Hne. destruct Hbt as (pre & post & Ees & _ & [[_ ->]|(mid & post' & Ep & _)]).
    + rewrite app_nil_r in He. congruence.
    + exfalso. assert (Hin : In (false, id, l1 ++ l2) (events v tr)).
      { rewrite Ees, Ep. apply in_or_app. right. right. apply in_or_app. right. left. reflexivity. }
      specialize (Hne _ Hin eq_refl). discriminate Hne.
Qed.

(* ================================================================== *)
(* S6: a whole document part: w:document > w:body > children            *)
(* ================================================================== *)
Lemma marker_walk_queued v path e st st' :
  is_marker (AE e []) = true -> walk v path (AE e []) st = Ok st' -> c_queued st' = c_queued st.
Proof.
  intros Hm Hw. cbn [is_marker] in Hm. apply orb_true_iff in Hm.
  destruct Hm as [Hm|Hm]; apply str_eqb_eq in Hm.
  - rewrite (walk_marker_start v path e st Hm) in Hw. bind_inv Hw as id Eid.
    unfold start_comment_range in Hw. bind_inv Hw as n En. injection Hw as <-. reflexivity.
  - rewrite (walk_marker_end v path e st Hm) in Hw. bind_inv Hw as id Eid.
    unfold end_comment_range in Hw. destruct (dict_get id (c_ranges st)) as [[b0 e0]|].
    + bind_inv Hw as n En. injection Hw as <-. reflexivity.
    + injection Hw as <-. reflexivity.
Qed.

Lemma par_child_queued v k path st st1 q :
  par_child k = true -> c_open st = [q] -> walk v path k st = Ok st1 ->
  c_queued st1 = c_queued st.
Proof.
  intros Hk Ho Hw. destruct (par_child_cases k Hk) as [Hr|[_ Hi]].
  2:{ rewrite Hi in Hw. injection Hw as <-. reflexivity. }
  destruct k as [e ks|tl].
  2:{ cbn in Hw. injection Hw as <-. reflexivity. }
  unfold run_or_marker in Hr. apply orb_true_iff in Hr. destruct Hr as [Hr|Hr].
  - apply andb_true_iff in Hr. destruct Hr as [Ht Hks].
    destruct (walk_keeps v _ path (run_is_inline e ks Ht Hks) st q [] st1 Ho Hw) as (rs' & -> & _).
    reflexivity.
  - destruct ks as [|k0 ks]; [|discriminate Hr].
    exact (marker_walk_queued v path e st st1 Hr Hw).
Qed.

Lemma kids_points_queued v path : forall ks i st x q,
  forallb par_child ks = true -> c_open st = [q] -> kids_points v path ks i st = Ok x ->
  c_queued (snd x) = c_queued st.
Proof.
  induction ks as [|k r IH]; intros i st x q Hks Ho H; cbn [kids_points] in H.
  - injection H as <-. reflexivity.
  - cbn [forallb] in Hks. apply andb_true_iff in Hks. destruct Hks as [K1 K2].
    bind_inv H as st1 E1. bind_inv H as y Ey. injection H as <-. cbn [snd].
    destruct (par_child_follows v k (i :: path) st st1 q K1 Ho E1) as (rs1 & O1 & _).
    rewrite (IH (S i) st1 y _ K2 O1 Ey). exact (par_child_queued v k (i :: path) st st1 q K1 Ho E1).
Qed.

Lemma par_points_queued v path e ks s x :
  rm_par (AE e ks) = true -> c_open s = [] -> par_points v path e ks s = Ok x ->
  c_queued (snd x) = [].
Proof.
  intros Hrm Hopen H. destruct (rm_par_AE _ _ Hrm) as [Ht Hks]. unfold par_points in H.
  bind_inv H as s2 E2.
  destruct (par_enter_spec v e ks path s s2 Ht Hopen E2) as (q2 & O2 & S2 & Q2 & R2 & K2).
  bind_inv H as y Ey. bind_inv H as s4 E4. bind_inv H as s5 E5. injection H as <-. cbn [snd].
  pose proof (kids_points_queued v path ks 0%nat s2 y q2 Hks O2 Ey) as HQ.
  pose proof (kids_points_from v path ks 0%nat s2 y q2 Hks O2 S2 Ey) as HF.
  unfold all_points in HF. apply Forall_app in HF. destruct HF as [_ HF]. apply Forall_inv in HF.
  destruct HF as (q2' & rs3 & _ & _ & O3 & _).
  destruct (conclude_one (snd y) s4 _ O3 E4) as (_ & _ & Q4 & _).
  apply set_caret_frame in E5. destruct E5 as ((_ & Q5 & _) & _).
  rewrite Q5, Q4, HQ. exact Q2.
Qed.

Lemma span_other_queued v path e pks s s' :
  span_child (AE e pks) = true -> rm_par (AE e pks) = false -> Inv s ->
  walk v path (AE e pks) s = Ok s' -> c_queued s = [] -> c_queued s' = [].
Proof.
  intros Hsp Hrm Hi Hw Hq. destruct (span_other_cases e pks Hsp Hrm) as [[Hm ->]|[Hin|Hop]].
  - rewrite (marker_walk_queued v path e s s' Hm Hw). exact Hq.
  - rewrite (inert_walk v _ Hin) in Hw. injection Hw as <-. exact Hq.
  - destruct (opaque_tbl_walk v _ path s s' Hop Hi Hw) as (_ & [_ Q] & _). exact (Q Hq).
Qed.

Lemma body_points_queued v path : forall ks i s x,
  forallb span_child ks = true -> c_open s = [] -> Inv s -> c_queued s = [] ->
  body_points v path ks i s = Ok x -> c_queued (snd x) = [].
Proof.
  induction ks as [|k r IH]; intros i s x Hks Ho Hi Hq H; cbn [body_points] in H.
  - injection H as <-. exact Hq.
  - cbn [forallb] in Hks. apply andb_true_iff in Hks. destruct Hks as [K1 K2].
    bind_inv H as xk Ek. bind_inv H as y Ey. injection H as <-. cbn [snd].
    pose proof (child_points_inv v path i k s xk Hi Ek) as Ik. unfold child_points in Ek.
    assert (Hk : c_open (snd xk) = [] /\ c_queued (snd xk) = []).
    { destruct k as [e pks|tl].
      - destruct (rm_par (AE e pks)) eqn:Hrm.
        + destruct (par_points_spec v (i :: path) e pks s xk Hrm Ho Ek) as (O5 & _).
          split; [exact O5|]. exact (par_points_queued v (i :: path) e pks s xk Hrm Ho Ek).
        + bind_inv Ek as s1 E1. injection Ek as <-. cbn [snd].
          destruct (span_other_walk v (i :: path) e pks s s1 K1 Hrm Hi E1) as (O1 & _).
          split; [rewrite O1; exact Ho|].
          exact (span_other_queued v (i :: path) e pks s s1 K1 Hrm Hi E1 Hq).
      - injection Ek as <-. auto. }
    destruct Hk as (Ok' & Qk). exact (IH (S i) (snd xk) y K2 Ok' Ik Qk Ey).
Qed.

(* the root of a main document part in the class *)
Definition span_doc (t : anode) : bool :=
  match t with
  | AE ed [AE eb ks] =>
      mem_str (e_ptag ed) depth_none_tags && mem_str (e_ptag eb) depth_none_tags
      && forallb span_child ks
  | _ => false
  end.

Definition doc_body (t : anode) : list anode :=
  match t with AE _ [AE _ ks] => ks | _ => [] end.

(* new_depth_collector on such a root is the body loop, with its points *)
Theorem doc_collect_points : forall v path t dc,
  span_doc t = true -> collect_from v path t = Ok dc ->
  forallb span_child (doc_body t) = true
  /\ exists tr, body_points v (0%nat :: path) (doc_body t) 0%nat init_cst = Ok (tr, dc).
Proof.
  intros v path t dc Hd H.
  destruct t as [ed [|[eb ks|tl] [|k2 r2]]|tl]; try discriminate Hd.
  cbn [span_doc] in Hd. apply andb_true_iff in Hd. destruct Hd as [Hd Hks].
  apply andb_true_iff in Hd. destruct Hd as [Hed Heb]. cbn [doc_body].
  split; [exact Hks|].
  unfold collect_from in H. bind_inv H as s1 E1.
  rewrite (walk_body v path ed _ init_cst Hed) in E1. cbn [kids_loop] in E1.
  bind_inv E1 as s1' E1'. injection E1 as <-.
  rewrite (walk_body v (0%nat :: path) eb ks init_cst Heb) in E1'.
  destruct (body_points_exist v (0%nat :: path) ks 0%nat init_cst s1' E1') as (tr & Htr).
  exists tr. rewrite Htr. f_equal. f_equal.
  destruct (body_points_grow v _ ks 0%nat init_cst (tr, s1') Hks eq_refl init_inv Htr) as (O1 & _).
  pose proof (body_points_queued v _ ks 0%nat init_cst (tr, s1') Hks eq_refl init_inv eq_refl Htr) as Q1.
  cbn [snd] in O1, Q1.
  unfold finish in H. rewrite Q1 in H. cbn [bind] in H.
  unfold conclude_paragraph in H. rewrite O1 in H. injection H as <-. reflexivity.
Qed.

(* ================================================================== *)
(* S7: the comments attribute                                           *)
(* ================================================================== *)
Definition is_AE (k : anode) : bool := match k with AE _ _ => true | AX _ => false end.

(* docx_reader.comments: the element children of the (merged) root of the
   first comments part; [] when there is none *)
Definition comment_entries (a : archive) (fs : list frec) (o : opts) : res (list anode) :=
  match files_of_type fs s_comments with
  | [] => Ok []
  | cf :: _ => r <- part_root a fs o cf ;; Ok (filter is_AE (kids_of r))
  end.

(* the tuple of the i-th entry c *)
Definition comment_tuple (o : opts) (cenv : env) (all_runs : list str)
           (ranges : list (str * (nat * nat))) (i : nat) (c : anode)
  : res (str * str * str * str) :=
  match c with
  | AX _ => Err KeyError
  | AE e ks =>
      id <- attr_w_req e s_id ;;
      author <- attr_w_req e s_author ;;
      date <- attr_w e s_date ;;
      sc <- collect_from cenv [i] c ;;
      ps <- pars_at 4%nat (c_tree sc) ;;
      pss <- mapM (par_run_strings (o_html o)) ps ;;
      let ctext := join s_nn (map (@concat N) pss) in
      '(b, e') <- of_opt KeyError (dict_get id ranges) ;;
      let ref := concat (firstn (e' - b) (skipn b all_runs)) in
      Ok (ref, author, ostr date, ctext)
  end.

Lemma comments_unfold a o :
  comments a o =
  (fs <- files a ;;
   match files_of_type fs s_officeDocument with
   | [] => Err KeyError
   | od :: _ =>
       dc <- part_collector a fs o od ;;
       celems <- comment_entries a fs o ;;
       if negb (Nat.eqb (length (c_ranges dc)) (length celems)) then Ok None
       else
         match celems, files_of_type fs s_comments with
         | [], _ => Ok (Some [])
         | _, [] => Ok (Some [])
         | _, cf :: _ =>
             all_runs <- final_runs (o_html o) dc ;;
             cenv <- part_env a fs o cf ;;
             cs <- mapiM (comment_tuple o cenv all_runs (c_ranges dc)) celems ;;
             Ok (Some cs)
         end
   end).
Proof.
  unfold comments, comment_entries, final_runs.
  destruct (files a) as [fs|x]; [|reflexivity]. cbn [bind].
  destruct (files_of_type fs s_officeDocument) as [|od rest]; [reflexivity|].
  destruct (part_collector a fs o od) as [dc|x]; [|reflexivity]. cbn [bind].
  destruct (files_of_type fs s_comments) as [|cf crest]; [reflexivity|].
  destruct (part_root a fs o cf) as [r|x]; [|reflexivity]. cbn [bind].
  change (fun k : anode => match k with AE _ _ => true | AX _ => false end) with is_AE.
  destruct (negb (Nat.eqb (length (c_ranges dc)) (length (filter is_AE (kids_of r))))); [reflexivity|].
  destruct (filter is_AE (kids_of r)) as [|c0 cr]; [reflexivity|].
  destruct (pars_at 4%nat (c_tree dc)) as [ps|x]; [|reflexivity]. cbn [bind].
  destruct (mapM (par_run_strings (o_html o)) ps) as [rs|x]; reflexivity.
Qed.

(* 3. comments_count_mismatch: different numbers of recorded ranges and of
   entries give the empty list with the warning (Ok None), whatever else *)
Theorem comments_count_mismatch : forall a o fs od rest dc celems,
  files a = Ok fs -> files_of_type fs s_officeDocument = od :: rest ->
  part_collector a fs o od = Ok dc -> comment_entries a fs o = Ok celems ->
  length (c_ranges dc) <> length celems ->
  comments a o = Ok None.
Proof.
  intros a o fs od rest dc celems Hfs Hod Hdc Hce Hne. rewrite comments_unfold.
  rewrite Hfs. cbn [bind]. rewrite Hod, Hdc. cbn [bind]. rewrite Hce. cbn [bind].
  apply Nat.eqb_neq in Hne. rewrite Hne. reflexivity.
Qed.

Lemma mapi_go_nth {A B} (f : nat -> A -> res B) : forall l i ys,
  mapi_go f i l = Ok ys ->
  length ys = length l /\
  forall n x, nth_error l n = Some x -> exists y, nth_error ys n = Some y /\ f (i + n)%nat x = Ok y.
Proof.
  induction l as [|x0 l IH]; intros i ys H; cbn [mapi_go] in H.
  - injection H as <-. split; [reflexivity|]. intros [|n] x Hn; discriminate Hn.
  - bind_inv H as y0 E0. bind_inv H as ys' E'. injection H as <-.
    destruct (IH (S i) ys' E') as (L & N). split; [cbn [length]; rewrite L; reflexivity|].
    intros [|n] x Hn; cbn [nth_error] in Hn |- *.
    + injection Hn as <-. exists y0. rewrite Nat.add_0_r. auto.
    + destruct (N n x Hn) as (y & Hy & Hf). exists y. split; [exact Hy|].
      rewrite Nat.add_succ_r. exact Hf.
Qed.

(* the tuple, spelled out *)
Definition tuple_of (o : opts) (cenv : env) (all_runs : list str)
           (ranges : list (str * (nat * nat))) (i : nat) (c : anode)
           (tup : str * str * str * str) : Prop :=
  exists e ks id author date sc ps pss b e',
    c = AE e ks /\ attr_w_req e s_id = Ok id /\ attr_w_req e s_author = Ok author
    /\ attr_w e s_date = Ok date
    /\ collect_from cenv [i] c = Ok sc /\ pars_at 4%nat (c_tree sc) = Ok ps
    /\ mapM (par_run_strings (o_html o)) ps = Ok pss
    /\ dict_get id ranges = Some (b, e')
    /\ tup = (concat (firstn (e' - b) (skipn b all_runs)), author, ostr date,
              join s_nn (map (@concat N) pss)).

Lemma comment_tuple_inv o cenv all_runs ranges i c tup :
  comment_tuple o cenv all_runs ranges i c = Ok tup -> tuple_of o cenv all_runs ranges i c tup.
Proof.
  intro H. destruct c as [e ks|tl]; [|discriminate H]. cbn [comment_tuple] in H.
  bind_inv H as id Eid. bind_inv H as author Eau. bind_inv H as date Eda.
  bind_inv H as sc Esc. bind_inv H as ps Eps. bind_inv H as pss Epss. cbv zeta in H.
  destruct (dict_get id ranges) as [[b e']|] eqn:Eg; [|discriminate H]. cbn [of_opt bind] in H.
  injection H as <-.
  exists e, ks, id, author, date, sc, ps, pss, b, e'. repeat (split; [assumption||reflexivity|]).
  reflexivity.
Qed.

(* 2. comments_tuple_spec: one tuple per element child of the comments part's
   root, in that order; the i-th tuple is (reference text cut out of the main
   part's final run strings by the recorded range of the entry's w:id, author,
   date or "", the entry's paragraphs joined by a blank line) *)
Theorem comments_tuple_spec : forall a o cs,
  comments a o = Ok (Some cs) ->
  exists fs od rest dc celems,
    files a = Ok fs /\ files_of_type fs s_officeDocument = od :: rest
    /\ part_collector a fs o od = Ok dc /\ comment_entries a fs o = Ok celems
    /\ length (c_ranges dc) = length celems /\ length cs = length celems
    /\ (celems <> [] ->
        exists cf crest cenv all_runs,
          files_of_type fs s_comments = cf :: crest /\ part_env a fs o cf = Ok cenv
          /\ final_runs (o_html o) dc = Ok all_runs
          /\ forall i c, nth_error celems i = Some c ->
               exists tup, nth_error cs i = Some tup
                           /\ tuple_of o cenv all_runs (c_ranges dc) i c tup).
Proof.
  intros a o cs H. rewrite comments_unfold in H.
  bind_inv H as fs Efs.
  destruct (files_of_type fs s_officeDocument) as [|od rest] eqn:Eod; [discriminate H|].
  bind_inv H as dc Edc. bind_inv H as celems Ece.
  destruct (Nat.eqb (length (c_ranges dc)) (length celems)) eqn:El; [|discriminate H].
  cbn [negb] in H. apply Nat.eqb_eq in El.
  exists fs, od, rest, dc, celems. repeat (split; [assumption||reflexivity|]).
  destruct celems as [|c0 cr].
  { injection H as <-. split; [reflexivity|]. intro N. congruence. }
  destruct (files_of_type fs s_comments) as [|cf crest] eqn:Ecf.
  { unfold comment_entries in Ece. rewrite Ecf in Ece. discriminate Ece. }
  bind_inv H as all_runs Ear. bind_inv H as cenv Ecenv. bind_inv H as cs' Ecs. injection H as <-.
  unfold mapiM in Ecs. destruct (mapi_go_nth _ _ _ _ Ecs) as (L & N).
  split; [exact L|]. intros _. exists cf, crest, cenv, all_runs.
  repeat (split; [assumption||reflexivity|]).
  intros i c Hc. destruct (N i c Hc) as (tup & Ht & Hf). exists tup. split; [exact Ht|].
  apply comment_tuple_inv. exact Hf.
Qed.

Lemma Forall2_of_nth {A B} (P : A -> B -> Prop) : forall (l : list A) (ys : list B),
  length ys = length l ->
  (forall i x, nth_error l i = Some x -> exists y, nth_error ys i = Some y /\ P x y) ->
  Forall2 P l ys.
Proof.
  induction l as [|x l IH]; intros ys L N.
  - destruct ys; [constructor|discriminate L].
  - destruct ys as [|y ys]; [discriminate L|]. constructor.
    + destruct (N 0%nat x eq_refl) as (y' & Hy & Hp). injection Hy as <-. exact Hp.
    + apply IH; [exact (eq_add_S _ _ L)|]. intros i x' Hx'. exact (N (S i) x' Hx').
Qed.

(* comments_order: the tuples follow the entries of the comments part: the
   i-th tuple carries the author of the i-th entry (whatever the order of the
   range markers in the document; see comments_order_example below) *)
Theorem comments_order : forall a o cs fs celems,
  comments a o = Ok (Some cs) -> files a = Ok fs -> comment_entries a fs o = Ok celems ->
  Forall2 (fun c tup => exists e ks, c = AE e ks
                                     /\ attr_w_req e s_author = Ok (snd (fst (fst tup)))) celems cs.
Proof.
  intros a o cs fs celems H Hfs Hce.
  destruct (comments_tuple_spec a o cs H)
    as (fs' & od & rest & dc & celems' & Efs & _ & _ & Ece & _ & L & HT).
  rewrite Hfs in Efs. injection Efs as <-. rewrite Hce in Ece. injection Ece as <-.
  apply Forall2_of_nth; [exact L|]. intros i c Hc.
  destruct HT as (cf & crest & cenv & all_runs & _ & _ & _ & HN).
  { intro E. rewrite E in Hc. destruct i; discriminate Hc. }
  destruct (HN i c Hc) as (tup & Ht & (e & ks & id & author & date & sc & ps & pss
        & b & e' & -> & _ & Eau & _ & _ & _ & _ & _ & ->)).
  eexists. split; [exact Ht|]. exists e, ks. auto.
Qed.

(* ================================================================== *)
(* S8: the reference text of each tuple                                 *)
(* ================================================================== *)
Lemma part_env_html a fs o f v : part_env a fs o f = Ok v -> html_on v = o_html o.
Proof.
  unfold part_env. intro H. bind_inv H as rels Er. bind_inv H as nt En. injection H as <-.
  unfold html_on. cbn [env_x2h]. destruct (o_html o); reflexivity.
Qed.

(* 4. comment_reference_text: when the (merged) root of the main document part
   is w:document > w:body > children of the class, the reference text of the
   tuple of each entry is the concatenation of exactly the run strings emitted
   between the last w:commentRangeStart with the entry's w:id and the last
   w:commentRangeEnd with that id after it (nothing when there is none) *)
Theorem comment_reference_text : forall a o cs fs od rest m v celems,
  comments a o = Ok (Some cs) ->
  files a = Ok fs -> files_of_type fs s_officeDocument = od :: rest ->
  part_root a fs o od = Ok m -> part_env a fs o od = Ok v -> span_doc m = true ->
  comment_entries a fs o = Ok celems ->
  exists tr dc,
    body_points v [0%nat] (doc_body m) 0%nat init_cst = Ok (tr, dc)
    /\ part_collector a fs o od = Ok dc
    /\ forall i e ks id,
         nth_error celems i = Some (AE e ks) -> attr_w_req e s_id = Ok id ->
         exists l1 l2 l3 author date body,
           nth_error cs i = Some (concat l2, author, date, body)
           /\ final_runs (o_html o) dc = Ok (l1 ++ l2 ++ l3)
           /\ dict_get id (c_ranges dc) = Some (length l1, length (l1 ++ l2))
           /\ between (events v tr) id l1 l2.
Proof.
  intros a o cs fs od rest m v celems H Hfs Hod Hm Hv Hd Hce.
  destruct (comments_tuple_spec a o cs H)
    as (fs' & od' & rest' & dc & celems' & Efs & Eod & Edc & Ece & _ & L & HT).
  rewrite Hfs in Efs. injection Efs as <-. rewrite Hod in Eod. injection Eod as <- <-.
  rewrite Hce in Ece. injection Ece as <-.
  pose proof Edc as Edc'. unfold part_collector in Edc'. rewrite Hm, Hv in Edc'. cbn [bind] in Edc'.
  destruct (doc_collect_points v [] m dc Hd Edc') as (Hks & tr & Htr).
  pose proof (part_env_html a fs o od v Hv) as Hh.
  exists tr, dc. split; [exact Htr|]. split; [exact Edc|].
  intros i e ks id Hn Hid.
  destruct HT as (cf & crest & cenv & all_runs & _ & _ & Ear & HN).
  { intro E. rewrite E in Hn. destruct i; discriminate Hn. }
  destruct (HN i _ Hn) as (tup & Ht & (e0 & ks0 & id0 & author & date & sc & ps & pss
        & b & e' & Ec & Eid & _ & _ & _ & _ & _ & Eg & ->)).
  injection Ec as <- <-. rewrite Hid in Eid. injection Eid as <-.
  rewrite <- Hh in Ear.
  destruct (body_range_is_slice v [0%nat] (doc_body m) 0%nat init_cst tr dc all_runs id b e'
              Hks eq_refl init_inv eq_refl Htr Ear Eg)
    as (l1 & l2 & l3 & E & Hb & He & Hbt & Hsl).
  exists l1, l2, l3, author, (ostr date), (join s_nn (map (@concat N) pss)).
  split; [rewrite Ht, Hsl; reflexivity|].
  split; [rewrite <- Hh, Ear, E; reflexivity|].
  split; [rewrite Eg, Hb, He; reflexivity|exact Hbt].
Qed.

(* ================================================================== *)
(* S9: an archive with two overlapping comments that span two           *)
(*     paragraphs and a table between them; the entries of the comments *)
(*     part are in the opposite order of the range starts               *)
(* ================================================================== *)
Section Example.
  Import String.StringSyntax.
  Local Open Scope string_scope.

  Definition Wn : str := s2l "W".
  Definition wel (l : String.string) (attrs : list (String.string * String.string))
             (text : option String.string) (kids : list rnode) : rnode :=
    RE (Some s_w) (Some Wn) (s2l l) [(Some s_w, Wn)]
       (map (fun kx => ((Some Wn, s2l (fst kx)), s2l (snd kx))) attrs)
       (option_map s2l text) None kids.
  Definition rel (id ty tg : String.string) : rnode :=
    RE None None (s2l "Relationship") []
       [((None, s_Id), s2l id); ((None, s_Type), s2l ty); ((None, s_Target), s2l tg)]
       None None [].
  Definition rels (ks : list rnode) : rnode :=
    RE None (Some (s2l "rels")) (s2l "Relationships") [] [] None None ks.
  Definition wrun (t : String.string) : rnode := wel "r" [] None [wel "t" [] (Some t) []].
  Definition mstart (id : String.string) := wel "commentRangeStart" [("id", id)] None [].
  Definition mend (id : String.string) := wel "commentRangeEnd" [("id", id)] None [].

  (* <w:p><w:pPr/>[0 A [1 B</w:p> <w:tbl>T</w:tbl> <w:p>C 0] D 1]</w:p> <w:sectPr/> *)
  Definition ex_doc : rnode :=
    wel "document" [] None
      [wel "body" [] None
         [wel "p" [] None
            [wel "pPr" [] None [wel "jc" [] None []];
             mstart "0"; wrun "A"; mstart "1"; wrun "B"];
          wel "tbl" [] None
            [wel "tblPr" [] None [];
             wel "tr" [] None
               [wel "tc" [] None [wel "tcPr" [] None []; wel "p" [] None [wrun "T"]]]];
          wel "p" [] None [wrun "C"; mend "0"; wrun "D"; mend "1"];
          wel "sectPr" [] None []]].
  (* the entry of comment 1 comes first *)
  Definition ex_comments : rnode :=
    wel "comments" [] None
      [wel "comment" [("id", "1"); ("author", "Y")] None [wel "p" [] None [wrun "second"]];
       RX None;
       wel "comment" [("id", "0"); ("author", "X"); ("date", "d")] None
         [wel "p" [] None [wrun "first"]; wel "p" [] None [wrun "more"]]].
  Definition ex_archive : archive :=
    [(s2l "_rels/.rels", MXml (rels [rel "rId1" "t/officeDocument" "word/document.xml"]));
     (s2l "word/_rels/document.xml.rels", MXml (rels [rel "rId2" "t/comments" "comments.xml"]));
     (s2l "word/document.xml", MXml ex_doc);
     (s2l "word/comments.xml", MXml ex_comments)].
  Definition ex_opts : opts := {| o_html := false; o_dup := true |}.

  Definition ex_result : list (str * str * str * str) :=
    [(s2l "BTCD", s2l "Y", [], s2l "second");
     (s2l "ABTC", s2l "X", s2l "d", s2l "first" ++ [10; 10] ++ s2l "more")].
  Definition ex_ranges : list (str * (nat * nat)) :=
    [(s2l "0", (0%nat, 4%nat)); (s2l "1", (1%nat, 5%nat))].
End Example.

(* the hypotheses of comment_reference_text hold of it (the class is not
   empty), the ranges are recorded in the order of their starts (0 then 1) and
   the tuples come in the order of the comments part (1 then 0) *)
Example comments_order_example :
  exists fs od rest m v dc,
    files ex_archive = Ok fs /\ files_of_type fs s_officeDocument = od :: rest
    /\ part_root ex_archive fs ex_opts od = Ok m /\ part_env ex_archive fs ex_opts od = Ok v
    /\ span_doc m = true
    /\ part_collector ex_archive fs ex_opts od = Ok dc /\ c_ranges dc = ex_ranges
    /\ comments ex_archive ex_opts = Ok (Some ex_result).
Proof.
  do 6 eexists.
  split; [vm_compute; reflexivity|]. split; [vm_compute; reflexivity|].
  split; [vm_compute; reflexivity|]. split; [vm_compute; reflexivity|].
  split; [vm_compute; reflexivity|]. split; [vm_compute; reflexivity|].
  split; vm_compute; reflexivity.
Qed.

Print Assumptions body_points_loop.
Print Assumptions ext_prefix.
Print Assumptions body_points_sorted.
Print Assumptions body_markers_prefix.
Print Assumptions body_ranges_fold.
Print Assumptions range_slice_pure.
Print Assumptions body_range_is_slice.
Print Assumptions body_ranges_bounds.
Print Assumptions doc_collect_points.
Print Assumptions comments_count_mismatch.
Print Assumptions comments_tuple_spec.
Print Assumptions comments_order.
Print Assumptions comment_reference_text.
Print Assumptions comments_order_example.
