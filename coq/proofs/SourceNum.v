(* SourceNum.v — the functions of numbering_formats.py and bullets_and_numbering.
   _increment_list_counter AS TRANSLATED FROM THE SOURCE TEXT (gen/Source.v, regenerated on
   every run by tools/gen_source.py) are equal, for all arguments, to the hand-written model
   (model/NumFmt.v, model/Bullets.v) that the C08 / C13 theorems are about. *)
From Coq Require Import List NArith ZArith Bool Arith Lia.
From D2P Require Import Str Err TableTypes Tables Fmt NumFmt Bullets PyVal Source SourceBase.
From D2P Require NumFmtFacts BulletsFacts.
Import ListNotations.

(* the ROMAN_SUBS literal read by the source translator is the one read by the table translator *)
Lemma src_roman_subs :
  S_ROMAN_SUBS = VList (map (fun p => VTuple [VStr (fst p); VStr (snd p)]) roman_subs).
Proof. reflexivity. Qed.

(* ---------- lower_letter ---------- *)

Lemma ascii_lowercase_index : forall m : N, (m < 26)%N ->
  py_index ascii_lowercase (VInt (Z.of_N m)) = Ok (VStr [(97 + m)%N]).
Proof.
  intros m H. rewrite <- (N2Nat.id m).
  assert (Hk : (N.to_nat m < 26)%nat) by lia.
  generalize dependent (N.to_nat m). clear. intros k Hk.
  do 26 (destruct k as [|k]; [vm_compute; reflexivity|]). lia.
Qed.

Definition ll_cond : pv * pv * pv -> res pv :=
  fun '(v_n, v_remainder, v_result) => Ok v_n.
Definition ll_body : pv * pv * pv -> out (pv * pv * pv) :=
  fun '(v_n, v_remainder, v_result) =>
          t4 <~ py_sub v_n (VInt (1)%Z) ;;;
          t5 <~ py_divmod t4 (VInt (26)%Z) ;;;
          '(t6, t7) <~ py_unpack2 t5 ;;;
          let v_n := t6 in
          let v_remainder := t7 in
          t8 <~ py_index ascii_lowercase v_remainder ;;;
          t9 <~ py_add t8 v_result ;;;
          let v_result := t9 in
          Nx (v_n, v_remainder, v_result).

Lemma ll_loop : forall fuel n rem acc,
  bindo (py_while fuel ll_cond ll_body (VInt (Z.of_N n), rem, VStr acc))
        (fun x : pv * pv * pv => match x with (v_n, v_remainder, v_result) => Rt (S:=unit) v_result end)
  = match letters_go fuel n acc with Some s => Rt (VStr s) | None => Ex ModelError end.
Proof.
  induction fuel as [|f IH]; intros n rem acc.
  - cbn [py_while ll_cond binde py_truth letters_go].
    destruct (N.eqb_spec n 0) as [->|Hn].
    + reflexivity.
    + replace (Z.of_N n =? 0)%Z with false by (symmetry; apply Z.eqb_neq; lia).
      reflexivity.
  - cbn [py_while ll_cond binde py_truth letters_go].
    destruct (N.eqb_spec n 0) as [->|Hn].
    + reflexivity.
    + replace (Z.of_N n =? 0)%Z with false by (symmetry; apply Z.eqb_neq; lia).
      cbn [negb].
      assert (E1 : ((Z.of_N n - 1) / 26 = Z.of_N ((n - 1) / 26))%Z).
      { rewrite N2Z.inj_div, N2Z.inj_sub by lia. reflexivity. }
      assert (E2 : ((Z.of_N n - 1) mod 26 = Z.of_N ((n - 1) mod 26))%Z).
      { rewrite N2Z.inj_mod, N2Z.inj_sub by lia. reflexivity. }
      unfold ll_body at 1.
      cbn [py_sub int_like binde py_divmod].
      change (26 =? 0)%Z with false. cbv iota.
      cbn [py_unpack2 py_iter Err.bind binde].
      rewrite E1, E2.
      rewrite ascii_lowercase_index by (apply N.mod_lt; lia).
      cbn [binde py_add app bindo].
      apply IH.
Qed.

Lemma letters_go_mono : forall f f' n acc r, (f <= f')%nat ->
  letters_go f n acc = Some r -> letters_go f' n acc = Some r.
Proof.
  induction f as [|f IH]; intros f' n acc r Hle H.
  - cbn [letters_go] in H. destruct (N.eqb_spec n 0); [|discriminate].
    subst. destruct f'; exact H.
  - destruct f' as [|f']; [lia|]. cbn [letters_go] in *.
    destruct (n =? 0)%N; [exact H|]. apply (IH f'); [lia|exact H].
Qed.

Lemma src_lower_letter_reject : forall z fuel, (z < 1)%Z ->
  S_lower_letter fuel (VInt z) = Err ValueError.
Proof.
  intros z fuel H. unfold S_lower_letter. cbn [py_lt int_like binde].
  replace (z <? 1)%Z with true by (symmetry; apply Z.ltb_lt; lia).
  reflexivity.
Qed.

(* fuel: one unit per letter produced; N.size_nat n bounds the number of letters *)
Theorem src_lower_letter : forall z fuel,
  (N.size_nat (Z.to_N z) < fuel)%nat ->
  S_lower_letter fuel (VInt z) = lift_str (lower_letter z).
Proof.
  intros z fuel Hf. destruct z as [|p|p].
  - rewrite src_lower_letter_reject by lia. reflexivity.
  - change (Z.to_N (Z.pos p)) with (N.pos p) in Hf.
    unfold S_lower_letter. cbn [py_lt int_like binde].
    replace (Z.pos p <? 1)%Z with false by (symmetry; apply Z.ltb_ge; lia).
    cbn [py_truth].
    change (Z.pos p) with (Z.of_N (N.pos p)).
    pose proof (ll_loop fuel (N.pos p) VNone []) as L.
    unfold ll_cond, ll_body in L. rewrite L. clear L.
    change (lower_letter (Z.of_N (N.pos p))) with
      (of_opt ModelError (letters_go (S (N.size_nat (N.pos p))) (N.pos p) [])).
    destruct (NumFmtFacts.letters_go_total (S (N.size_nat (N.pos p))) (N.pos p) [])
      as [r Hr]; [apply NumFmtFacts.size_nat_bound_S|].
    rewrite Hr.
    rewrite (letters_go_mono (S (N.size_nat (N.pos p))) fuel _ _ _ Hf Hr).
    reflexivity.
  - rewrite src_lower_letter_reject by lia. reflexivity.
Qed.

Theorem src_upper_letter : forall z fuel,
  (N.size_nat (Z.to_N z) < fuel)%nat ->
  S_upper_letter fuel (VInt z) = lift_str (upper_letter z).
Proof.
  intros z fuel Hf. unfold S_upper_letter, upper_letter.
  rewrite src_lower_letter by exact Hf.
  destruct (lower_letter z); reflexivity.
Qed.

(* ---------- lower_roman ---------- *)

Lemma rep_list_single : forall (A : Type) (c : A) n, rep_list [c] n = repeat c n.
Proof. induction n as [|n IH]; cbn [rep_list repeat app]; [|rewrite IH]; reflexivity. Qed.

Definition lr_body : pv -> pv -> out pv :=
  fun t5 v_result =>
          '(t6, t7) <~ py_unpack2 t5 ;;;
          let v_pattern := t6 in
          let v_replacement := t7 in
          t8 <~ py_replace v_result v_pattern v_replacement ;;;
          let v_result := t8 in
          Nx v_result.

Lemma lr_loop : forall (l : list (str * str)) s,
  for_go lr_body (map (fun p => VTuple [VStr (fst p); VStr (snd p)]) l) (VStr s)
  = Nx (VStr (fold_left (fun s pr => replace (fst pr) (snd pr) s) l s)).
Proof.
  induction l as [|[a b] l IH]; intro s; cbn [map for_go fold_left fst snd].
  - reflexivity.
  - unfold lr_body at 1.
    cbn [py_unpack2 py_iter Err.bind binde py_replace bindo].
    apply IH.
Qed.

Lemma src_lower_roman_reject : forall z, (z < 1)%Z ->
  S_lower_roman (VInt z) = Err ValueError.
Proof.
  intros z H. unfold S_lower_roman. cbn [py_lt int_like binde].
  replace (z <? 1)%Z with true by (symmetry; apply Z.ltb_lt; lia).
  reflexivity.
Qed.

Theorem src_lower_roman : forall z, S_lower_roman (VInt z) = lift_str (lower_roman z).
Proof.
  intro z. destruct z as [|p|p].
  - rewrite src_lower_roman_reject by lia. reflexivity.
  - unfold S_lower_roman. cbn [py_lt int_like binde].
    replace (Z.pos p <? 1)%Z with false by (symmetry; apply Z.ltb_ge; lia).
    cbn [py_truth py_mul binde].
    rewrite rep_list_single. rewrite src_roman_subs.
    unfold py_for. cbn [py_iter binde].
    pose proof (lr_loop roman_subs (repeat 105%N (Z.to_nat (Z.pos p)))) as L.
    unfold lr_body in L. rewrite L. clear L.
    reflexivity.
  - rewrite src_lower_roman_reject by lia. reflexivity.
Qed.

Theorem src_upper_roman : forall z, S_upper_roman (VInt z) = lift_str (upper_roman z).
Proof.
  intro z. unfold S_upper_roman, upper_roman. rewrite src_lower_roman.
  destruct (lower_roman z); reflexivity.
Qed.

Theorem src_decimal : forall z, S_decimal (VInt z) = lift_str (decimal z).
Proof. intro z. reflexivity. Qed.

Theorem src_bullet : forall v z, S_bullet v = lift_str (bullet z).
Proof. intros v z. reflexivity. Qed.

(* ---------- _increment_list_counter ---------- *)

(* the per-list counter: a defaultdict(int) keyed by the level string *)
Definition enc_counts (d : list (str * N)) : pv :=
  VDict (Some (VInt 0)) (map (fun kv => (VStr (fst kv), VInt (Z.of_N (snd kv)))) d).

Definition enc_kv (kv : str * N) : pv * pv := (VStr (fst kv), VInt (Z.of_N (snd kv))).

Lemma enc_counts_kv : forall d, enc_counts d = VDict (Some (VInt 0)) (map enc_kv d).
Proof. reflexivity. Qed.

Lemma assoc_enc : forall k d,
  assoc (VStr k) (map enc_kv d)
  = match dict_get k d with Some c => Some (VInt (Z.of_N c)) | None => None end.
Proof.
  intros k d. induction d as [|[k0 v0] r IH]; cbn [map enc_kv assoc dict_get fst snd pv_eqb].
  - reflexivity.
  - destruct (str_eqb k k0); [reflexivity|exact IH].
Qed.

Lemma assoc_set_enc : forall k c d,
  assoc_set (VStr k) (VInt (Z.of_N c)) (map enc_kv d) = map enc_kv (dict_set k c d).
Proof.
  intros k c d. induction d as [|[k0 v0] r IH];
    cbn [map enc_kv assoc_set dict_set fst snd pv_eqb].
  - reflexivity.
  - destruct (str_eqb k k0) eqn:E; cbn [map enc_kv fst snd].
    + apply BulletsFacts.str_eqb_eq in E. subst k0. reflexivity.
    + rewrite IH. reflexivity.
Qed.

Lemma keys_dict_set_in : forall (k : str) (c : N) d x,
  In x (map fst (dict_set k c d)) -> x = k \/ In x (map fst d).
Proof.
  intros k c d x. induction d as [|[k0 v0] r IH]; cbn [dict_set map fst In].
  - intros [H|[]]; auto.
  - destruct (str_eqb k k0) eqn:E; cbn [map fst In].
    + apply BulletsFacts.str_eqb_eq in E. subst k0. intros [H|H]; auto.
    + intros [H|H]; auto. apply IH in H. destruct H; auto.
Qed.

Lemma nodup_dict_set : forall (k : str) (c : N) d,
  NoDup (map fst d) -> NoDup (map fst (dict_set k c d)).
Proof.
  intros k c d. induction d as [|[k0 v0] r IH]; cbn [dict_set map fst]; intro H.
  - constructor; [intros []|constructor].
  - inversion H as [|? ? Hn Hr]; subst.
    destruct (str_eqb k k0) eqn:E; cbn [map fst].
    + apply BulletsFacts.str_eqb_eq in E. subst k0. constructor; assumption.
    + constructor; [|apply IH; exact Hr].
      intro Hin. apply keys_dict_set_in in Hin. destruct Hin as [->|Hin].
      * rewrite BulletsFacts.str_eqb_refl in E. discriminate.
      * contradiction.
Qed.

Definition ic_cond (v_ilvl : pv) : pv -> res pv :=
  fun t2 => let v_k := t2 in t3 <- py_gt v_k v_ilvl ;; Ok t3.
Definition ic_sel : pv -> res (list pv) := fun t2 => let v_k := t2 in Ok [v_k].

Lemma comp_enc : forall ilvl d,
  comp_go (ic_cond (VStr ilvl)) ic_sel (map fst (map enc_kv d))
  = Ok (map VStr (map fst (filter (fun kv => str_ltb ilvl (fst kv)) d))).
Proof.
  intros ilvl d. induction d as [|[k0 v0] r IH]; cbn [map enc_kv fst snd comp_go filter].
  - reflexivity.
  - unfold ic_cond at 1. cbn [py_gt py_lt Err.bind py_truth].
    rewrite IH. destruct (str_ltb ilvl k0); reflexivity.
Qed.

Lemma assoc_del_enc : forall k v pre r,
  ~ In k (map fst pre) ->
  assoc_del (VStr k) (map enc_kv (pre ++ (k, v) :: r)) = Some (map enc_kv (pre ++ r)).
Proof.
  intros k v pre r. induction pre as [|[k0 v0] pre IH]; intro Hn;
    cbn [app map enc_kv assoc_del fst snd pv_eqb].
  - rewrite BulletsFacts.str_eqb_refl. reflexivity.
  - destruct (str_eqb k k0) eqn:E.
    + apply BulletsFacts.str_eqb_eq in E. subst k0. exfalso. apply Hn. left. reflexivity.
    + rewrite IH; [reflexivity|]. intro Hin. apply Hn. right. exact Hin.
Qed.

Definition ic_del : pv -> pv -> out pv :=
  fun t4 v_ilvl2count =>
        let v_level := t4 in
        v_ilvl2count <~ py_update_path v_ilvl2count [] (fun c_ => py_delitem c_ v_level) ;;;
        Nx v_ilvl2count.

Lemma del_loop : forall (p : str * N -> bool) dflt d pre,
  NoDup (map fst (pre ++ d)) ->
  for_go ic_del (map VStr (map fst (filter p d))) (VDict dflt (map enc_kv (pre ++ d)))
  = Nx (VDict dflt (map enc_kv (pre ++ filter (fun kv => negb (p kv)) d))).
Proof.
  intros p dflt d. induction d as [|[k0 v0] r IH]; intros pre Hnd; cbn [filter].
  - reflexivity.
  - destruct (p (k0, v0)) eqn:E; cbn [negb map fst for_go].
    + unfold ic_del at 1. cbn [py_update_path py_delitem].
      assert (Hn : ~ In k0 (map fst pre)).
      { rewrite map_app in Hnd. cbn [map fst] in Hnd.
        apply NoDup_remove_2 in Hnd. intro Hin. apply Hnd.
        apply in_or_app. left. exact Hin. }
      rewrite assoc_del_enc by exact Hn. cbn [binde bindo].
      apply IH. rewrite map_app in *. cbn [map fst] in Hnd.
      apply NoDup_remove_1 in Hnd. exact Hnd.
    + replace (pre ++ (k0, v0) :: r) with ((pre ++ [(k0, v0)]) ++ r)
        by (rewrite <- app_assoc; reflexivity).
      rewrite IH.
      * rewrite <- app_assoc. reflexivity.
      * rewrite <- app_assoc. exact Hnd.
Qed.

Theorem src_increment_list_counter : forall d ilvl,
  NoDup (map fst d) ->
  S__increment_list_counter (enc_counts d) (VStr ilvl)
  = Ok (VTuple [VInt (Z.of_N (snd (increment_list_counter d ilvl)));
                enc_counts (fst (increment_list_counter d ilvl))]).
Proof.
  intros d ilvl Hnd. unfold increment_list_counter. cbn [fst snd].
  set (c := match dict_get ilvl d with Some c => (c + 1)%N | None => 1%N end).
  unfold S__increment_list_counter.
  cbn [py_update_path].
  assert (E1 : (old_ <- py_index (enc_counts d) (VStr ilvl) ;;
                new_ <- py_add old_ (VInt 1) ;;
                py_setitem (enc_counts d) (VStr ilvl) new_)
               = Ok (enc_counts (dict_set ilvl c d))).
  { rewrite !enc_counts_kv. cbn [py_index]. rewrite assoc_enc. subst c.
    destruct (dict_get ilvl d) as [c0|]; cbn [Err.bind py_add int_like py_setitem].
    - replace (Z.of_N c0 + 1)%Z with (Z.of_N (c0 + 1)) by lia.
      rewrite assoc_set_enc. reflexivity.
    - change (0 + 1)%Z with (Z.of_N 1). rewrite assoc_set_enc. reflexivity. }
  rewrite E1. clear E1. cbn [binde].
  assert (Hnd1 : NoDup (map fst (dict_set ilvl c d))) by (apply nodup_dict_set; exact Hnd).
  assert (Hget : dict_get ilvl (filter (fun kv => negb (str_ltb ilvl (fst kv))) (dict_set ilvl c d))
                 = Some c).
  { rewrite BulletsFacts.dict_get_prune, BulletsFacts.str_ltb_irrefl,
      BulletsFacts.dict_get_set, BulletsFacts.str_eqb_refl. reflexivity. }
  set (d1 := dict_set ilvl c d) in *. clearbody d1.
  rewrite enc_counts_kv at 1. unfold py_comp. cbn [py_iter Err.bind].
  pose proof (comp_enc ilvl d1) as C. unfold ic_cond, ic_sel in C. rewrite C. clear C.
  cbn [binde]. unfold py_for. cbn [py_iter binde].
  rewrite enc_counts_kv.
  pose proof (del_loop (fun kv => str_ltb ilvl (fst kv)) (Some (VInt 0)) d1 [] Hnd1) as L.
  cbn [app] in L. unfold ic_del in L. cbn [py_update_path] in L. rewrite L. clear L.
  cbn [bindo py_index]. rewrite assoc_enc, Hget. cbn [binde fn_result].
  reflexivity.
Qed.
