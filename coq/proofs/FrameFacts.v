(* FrameFacts.v — C02: the stateful walk refines a declarative description
   for ordinary paragraphs: the text of a paragraph is the queued label, the
   list marker and then the contributions of its children, in document order,
   each exactly once; an inline subtree touches nothing but the runs of the
   open paragraph and what it appends does not depend on the state. *)
From Coq Require Import List NArith ZArith Bool Arith Lia.
From D2P Require Import Str Err Xml TableTypes Tables Fmt NumFmt Bullets Merge Collector Walk.
From D2P Require Import BulletsFacts TokFacts ShapeFacts.
Import ListNotations.
Open Scope N_scope.

(* ================================================================== *)
(* Definitions                                                          *)
(* ================================================================== *)
Definition toks_of (rs : list run) : list tok := concat (map r_toks rs).

(* an inline subtree: no paragraph at or below it, and none of the elements
   whose handlers touch anything but the open paragraph's runs *)
Fixpoint plain_inline (t : anode) : bool :=
  match t with
  | AX _ => true
  | AE e ks =>
      negb (str_eqb (e_ptag e) tag_PARAGRAPH)
      && negb (str_eqb (e_ptag e) tag_TABLE_CELL)
      && negb (str_eqb (e_ptag e) tag_FOOTNOTE) && negb (str_eqb (e_ptag e) tag_ENDNOTE)
      && negb (str_eqb (e_ptag e) tag_COMMENT_RANGE_START) && negb (str_eqb (e_ptag e) tag_COMMENT_RANGE_END)
      && forallb plain_inline ks
  end.

Definition blank_par : par :=
  {| p_elem := None; p_copy := false; p_hstyle := []; p_style := []; p_lineage := (None, None, None, None);
     p_runs := []; p_listpos := (None, []) |}.
Definition blank_st : cst := set_open [blank_par] init_cst.
(* the tokens an inline subtree contributes, defined by running the walk
   itself on a blank open paragraph *)
Definition emit (v : env) (path : list nat) (t : anode) : res (list tok) :=
  s <- walk v path t blank_st ;;
  match c_open s with p :: _ => Ok (toks_of (p_runs p)) | [] => Err ModelError end.

Definition simple_par (t : anode) : bool :=
  match t with
  | AE e ks => str_eqb (e_ptag e) tag_PARAGRAPH && forallb plain_inline ks
  | AX _ => false
  end.

(* the two declarative folds over a child list, named *)
Section Folds.
  Variables (v : env) (path : list nat).
  Fixpoint emit_kids (l : list anode) (i : nat) : res (list tok) :=
    match l with
    | [] => Ok []
    | k :: r => a <- emit v (i :: path) k ;; b <- emit_kids r (S i) ;; Ok (a ++ b)
    end.
  Fixpoint emit_list (l : list anode) (i : nat) : res (list (list tok)) :=
    match l with
    | [] => Ok []
    | k :: r => a <- emit v (i :: path) k ;; b <- emit_list r (S i) ;; Ok (a :: b)
    end.
End Folds.

Lemma emit_kids_list v path : forall l i,
  emit_kids v path l i = (ems <- emit_list v path l i ;; Ok (concat ems)).
Proof.
  induction l as [|k r IH]; intro i; [reflexivity|].
  cbn [emit_kids emit_list]. destruct (emit v (i :: path) k) as [a|x]; [|reflexivity].
  cbn [bind]. rewrite IH. destruct (emit_list v path r (S i)) as [b|x]; reflexivity.
Qed.

(* ================================================================== *)
(* F0: an inline subtree has no depth                                   *)
(* ================================================================== *)
Fixpoint mpd_list (l : list anode) : option nat :=
  match l with [] => None | k :: r => omin (min_par_depth k) (mpd_list r) end.

Lemma min_par_depth_AE e ks :
  min_par_depth (AE e ks)
  = if str_eqb (e_ptag e) tag_PARAGRAPH then Some O else option_map S (mpd_list ks).
Proof. reflexivity. Qed.

Definition inline_tag (tg : str) : Prop :=
  str_eqb tg tag_PARAGRAPH = false /\ str_eqb tg tag_TABLE_CELL = false /\
  str_eqb tg tag_FOOTNOTE = false /\ str_eqb tg tag_ENDNOTE = false /\
  str_eqb tg tag_COMMENT_RANGE_START = false /\ str_eqb tg tag_COMMENT_RANGE_END = false.

Lemma plain_inline_AE e ks :
  plain_inline (AE e ks) = true -> inline_tag (e_ptag e) /\ forallb plain_inline ks = true.
Proof.
  intro H. cbn [plain_inline] in H.
  repeat (apply andb_true_iff in H; let H2 := fresh "H" in destruct H as [H H2]).
  unfold inline_tag. repeat split; try (apply negb_true_iff; assumption). assumption.
Qed.

Lemma plain_inline_no_par : forall t, plain_inline t = true -> min_par_depth t = None.
Proof.
  apply (ShapeFacts.anode_ind' (fun t => plain_inline t = true -> min_par_depth t = None)).
  - reflexivity.
  - intros e ks IH H. apply plain_inline_AE in H. destruct H as ((Hp & _) & Hk).
    rewrite min_par_depth_AE, Hp.
    assert (G : mpd_list ks = None).
    { induction IH as [|k r Hk' Hr IHr]; [reflexivity|].
      cbn [forallb] in Hk. apply andb_true_iff in Hk. destruct Hk as [K1 K2].
      cbn [mpd_list]. rewrite (Hk' K1), (IHr K2). reflexivity. }
    rewrite G. reflexivity.
Qed.

Lemma plain_inline_no_depth : forall t, plain_inline t = true -> elem_depth t = None.
Proof.
  intros [e ks|tl] H; [|reflexivity].
  unfold elem_depth. rewrite (plain_inline_no_par _ H).
  destruct (mem_str (e_ptag e) depth_none_tags); reflexivity.
Qed.

(* ================================================================== *)
(* F3a: paragraphs of the tree under spine_app and set_caret            *)
(* ================================================================== *)
Lemma mapM_app_ok {A B} (f : A -> res B) : forall l1 l2 y1 y2,
  mapM f l1 = Ok y1 -> mapM f l2 = Ok y2 -> mapM f (l1 ++ l2) = Ok (y1 ++ y2).
Proof.
  induction l1 as [|x l1 IH]; intros l2 y1 y2 H1 H2.
  - cbn in H1. injection H1 as <-. exact H2.
  - cbn [mapM] in H1. bind_inv H1 as y E. bind_inv H1 as ys E2. injection H1 as <-.
    cbn [app mapM]. rewrite E. cbn [bind]. rewrite (IH _ _ _ eq_refl H2). reflexivity.
Qed.

Lemma pars_at_S_nil d : pars_at (S d) [] = Ok [].
Proof. destruct d; reflexivity. Qed.

Lemma spine_app_NP_pars : forall d p l l' ps,
  spine_app (S d) (NP p) l = Ok l' -> pars_at (S d) l = Ok ps ->
  pars_at (S d) l' = Ok (ps ++ [p]).
Proof.
  induction d as [|d IH]; intros p l l' ps H Hp.
  - cbn in H. injection H as <-. cbn [pars_at rev] in *.
    apply mapM_app_ok; [exact Hp|reflexivity].
  - destruct l as [|[l0|q] rest]; try discriminate H.
    rewrite spine_app_SS in H. bind_inv H as l0' E. injection H as <-.
    rewrite pars_at_SS in Hp |- *. cbn [rev] in *.
    bind_inv Hp as xs Exs. injection Hp as <-.
    apply mapM_app_inv in Exs. destruct Exs as (y1 & y2 & H1 & H2 & ->).
    cbn [mapM] in H2. bind_inv H2 as y Ey. cbn [bind] in H2. injection H2 as <-.
    rewrite (mapM_app_ok _ _ _ y1 [y ++ [p]] H1).
    2:{ cbn [mapM]. rewrite (IH _ _ _ _ E Ey). reflexivity. }
    cbn [bind]. f_equal. rewrite !concat_app. cbn [concat]. rewrite !app_nil_r.
    rewrite app_assoc. reflexivity.
Qed.

Lemma spine_app_pars : forall l p l', spine_ok 4%nat l -> tree_ok l ->
  spine_app 4%nat (NP p) l = Ok l' ->
  forall ps, pars_at 4%nat l = Ok ps -> pars_at 4%nat l' = Ok (ps ++ [p]).
Proof. intros l p l' _ _ H ps Hp. exact (spine_app_NP_pars 3%nat p l l' ps H Hp). Qed.

Lemma spine_app_NL_pars : forall d k l l' ps,
  spine_app d (NL []) l = Ok l' -> pars_at (d + S k) l = Ok ps ->
  pars_at (d + S k) l' = Ok ps.
Proof.
  induction d as [|d IH]; intros k l l' ps H Hp; [discriminate H|].
  destruct d as [|d].
  - cbn in H. injection H as <-. change (1 + S k)%nat with (S (S k)) in *.
    rewrite pars_at_SS in Hp |- *. cbn [rev].
    bind_inv Hp as xs Exs. injection Hp as <-.
    rewrite (mapM_app_ok _ _ _ xs [[]] Exs).
    2:{ cbn [mapM]. rewrite pars_at_S_nil. reflexivity. }
    cbn [bind]. f_equal. rewrite concat_app. cbn [concat]. rewrite !app_nil_r. reflexivity.
  - destruct l as [|[l0|q] rest]; try discriminate H.
    rewrite spine_app_SS in H. bind_inv H as l0' E. injection H as <-.
    change (S (S d) + S k)%nat with (S (S (d + S k))) in *.
    rewrite pars_at_SS in Hp |- *. cbn [rev] in *.
    bind_inv Hp as xs Exs. injection Hp as <-.
    apply mapM_app_inv in Exs. destruct Exs as (y1 & y2 & H1 & H2 & ->).
    cbn [mapM] in H2. bind_inv H2 as y Ey. cbn [bind] in H2. injection H2 as <-.
    rewrite (mapM_app_ok _ _ _ y1 [y] H1).
    2:{ cbn [mapM]. change (S (d + S k)) with (S d + S k)%nat.
        rewrite (IH k _ _ _ E Ey). reflexivity. }
    reflexivity.
Qed.

(* what set_caret leaves alone *)
Definition same_side (s s' : cst) : Prop :=
  c_open s' = c_open s /\ c_queued s' = c_queued s /\ c_ranges s' = c_ranges s /\
  c_counters s' = c_counters s.

Lemma same_side_refl s : same_side s s.
Proof. repeat split. Qed.
Lemma same_side_trans s1 s2 s3 : same_side s1 s2 -> same_side s2 s3 -> same_side s1 s3.
Proof.
  intros (A1 & A2 & A3 & A4) (B1 & B2 & B3 & B4). unfold same_side.
  rewrite B1, B2, B3, B4. auto.
Qed.

Definition keeps_pars (s s' : cst) : Prop :=
  forall ps, pars_at 4%nat (c_tree s) = Ok ps -> pars_at 4%nat (c_tree s') = Ok ps.

Lemma drop_caret_frame s s' :
  drop_caret s = Ok s' -> same_side s s' /\ keeps_pars s s'.
Proof.
  unfold drop_caret, par_depth. intro H.
  destruct (Nat.leb 4 (c_depth s)) eqn:E; [discriminate H|].
  apply Nat.leb_gt in E.
  bind_inv H as t Et. injection H as <-. split; [repeat split|].
  intros ps Hp. cbn [c_tree set_depth set_tree].
  replace 4%nat with (c_depth s + S (3 - c_depth s))%nat in Hp |- * by lia.
  eapply spine_app_NL_pars; eauto.
Qed.

Lemma raise_caret_frame s s' :
  raise_caret s = Ok s' -> same_side s s' /\ keeps_pars s s'.
Proof.
  unfold raise_caret. intro H. destruct (Nat.leb (c_depth s) 1); [discriminate H|].
  injection H as <-. split; [repeat split|]. intros ps Hp. exact Hp.
Qed.

Lemma set_caret_go_frame : forall fuel d name s s',
  set_caret_go fuel d name s = Ok s' ->
  same_side s s' /\ keeps_pars s s' /\ c_depth s' = d /\
  exists l0, set_in_lineage d name l0 = Ok (c_lineage s').
Proof.
  induction fuel as [|f IH]; intros d name s s' H; [discriminate H|].
  cbn [set_caret_go] in H.
  destruct (Nat.eqb (c_depth s) d) eqn:E1.
  - apply Nat.eqb_eq in E1. bind_inv H as l El. injection H as <-.
    split; [repeat split|]. split; [intros ps Hp; exact Hp|]. split; [exact E1|].
    exists (c_lineage s). exact El.
  - destruct (Nat.ltb (c_depth s) d).
    + bind_inv H as s1 E. apply drop_caret_frame in E. destruct E as [S1 K1].
      destruct (IH _ _ _ _ H) as (S2 & K2 & D & L).
      split; [eapply same_side_trans; eauto|]. split; [|auto].
      intros ps Hp. apply K2, K1, Hp.
    + bind_inv H as l El. bind_inv H as s1 E. apply raise_caret_frame in E.
      destruct E as [S1 K1].
      destruct (IH _ _ _ _ H) as (S2 & K2 & D & L).
      split; [eapply same_side_trans; [exact S1|exact S2]|]. split; [|auto].
      intros ps Hp. apply K2, K1, Hp.
Qed.

Lemma set_caret_frame d name s s' :
  set_caret (Some d) name s = Ok s' ->
  same_side s s' /\ keeps_pars s s' /\ c_depth s' = d /\
  exists l0, set_in_lineage d name l0 = Ok (c_lineage s').
Proof. apply set_caret_go_frame. Qed.

Lemma set_caret_pars : forall d name s s' ps, Inv s -> (1 <= d <= 4)%nat ->
  set_caret (Some d) name s = Ok s' ->
  pars_at 4%nat (c_tree s) = Ok ps -> pars_at 4%nat (c_tree s') = Ok ps.
Proof.
  intros d name s s' ps _ _ H Hp. apply set_caret_frame in H.
  destruct H as (_ & K & _). apply K, Hp.
Qed.

(* ================================================================== *)
(* F1: the frame property of inline subtrees                            *)
(* ================================================================== *)
Lemma toks_of_app a b : toks_of (a ++ b) = toks_of a ++ toks_of b.
Proof. unfold toks_of. rewrite map_app, concat_app. reflexivity. Qed.

Lemma toks_of_cons r rs : toks_of (r :: rs) = r_toks r ++ toks_of rs.
Proof. reflexivity. Qed.

Lemma toks_of_ensure rs : toks_of (ensure_run rs) = toks_of rs.
Proof. destruct rs; reflexivity. Qed.

Lemma ensure_run_nonnil rs : ensure_run rs <> [].
Proof. destruct rs; discriminate. Qed.

Lemma toks_of_upd_last ts : forall rs, rs <> [] ->
  toks_of (upd_last (fun r => {| r_style := r_style r; r_toks := r_toks r ++ ts |}) rs)
  = toks_of rs ++ ts.
Proof.
  induction rs as [|x r IH]; intro H; [congruence|].
  destruct r as [|y r'].
  - cbn [upd_last]. rewrite !toks_of_cons. cbn. rewrite !app_nil_r. reflexivity.
  - change (upd_last ?f (x :: y :: r')) with (x :: upd_last f (y :: r')).
    rewrite !toks_of_cons, IH by discriminate. rewrite app_assoc. reflexivity.
Qed.

Lemma set_open_id s o : c_open s = o -> set_open o s = s.
Proof. destruct s; cbn; intros <-; reflexivity. Qed.
Lemma with_runs_id p : with_runs p (p_runs p) = p.
Proof. destruct p; reflexivity. Qed.

(* [realizes f r]: on every state with an open paragraph, f fails with the
   fixed error of r, or succeeds, changes only the runs of the open
   paragraph, and appends exactly the tokens of r to them *)
Definition realizes (f : cst -> res cst) (r : res (list tok)) : Prop :=
  forall s p rest, c_open s = p :: rest ->
    match r with
    | Ok em => exists rs', f s = Ok (set_open (with_runs p rs' :: rest) s)
                           /\ toks_of rs' = toks_of (p_runs p) ++ em
    | Err x => f s = Err x
    end.

(* the same for handlers that also answer "recurse into the children" *)
Definition realizes_b (f : cst -> res (cst * bool)) (r : res (list tok * bool)) : Prop :=
  forall s p rest, c_open s = p :: rest ->
    match r with
    | Ok (em, b) => exists rs', f s = Ok (set_open (with_runs p rs' :: rest) s, b)
                                /\ toks_of rs' = toks_of (p_runs p) ++ em
    | Err x => f s = Err x
    end.

Lemma realizes_ret : realizes (fun s => Ok s) (Ok []).
Proof.
  intros s p rest Ho. exists (p_runs p). rewrite with_runs_id, app_nil_r.
  rewrite (set_open_id s _ Ho). split; reflexivity.
Qed.

Lemma realizes_bind f g r1 r2 :
  realizes f r1 -> realizes g r2 ->
  realizes (fun s => s1 <- f s ;; g s1) (a <- r1 ;; b <- r2 ;; Ok (a ++ b)).
Proof.
  intros Hf Hg s p rest Ho. specialize (Hf s p rest Ho).
  destruct r1 as [a|x]; cbn [bind].
  - destruct Hf as (rs1 & E1 & T1). rewrite E1. cbn [bind].
    specialize (Hg (set_open (with_runs p rs1 :: rest) s) (with_runs p rs1) rest eq_refl).
    destruct r2 as [b|x]; cbn [bind].
    + destruct Hg as (rs2 & E2 & T2). exists rs2. rewrite E2. split; [reflexivity|].
      rewrite T2. cbn [p_runs with_runs]. rewrite T1, app_assoc. reflexivity.
    + exact Hg.
  - rewrite Hf. reflexivity.
Qed.

Lemma realizes_ext f g r : (forall s, f s = g s) -> realizes f r -> realizes g r.
Proof.
  intros E H s p rest Ho. specialize (H s p rest Ho). rewrite <- E. exact H.
Qed.

Lemma upd_open_runs_open v F s p rest :
  c_open s = p :: rest ->
  upd_open_runs v F s = Ok (set_open (with_runs p (F (p_runs p)) :: rest) s).
Proof.
  intro Ho. unfold upd_open_runs, ensure_par. rewrite Ho. cbn [bind]. rewrite Ho. reflexivity.
Qed.

Lemma realizes_upd v F em :
  (forall rs, toks_of (F rs) = toks_of rs ++ em) -> realizes (upd_open_runs v F) (Ok em).
Proof.
  intros HF s p rest Ho. exists (F (p_runs p)). split; [apply upd_open_runs_open; exact Ho|apply HF].
Qed.

Lemma realizes_commence_run v st : realizes (commence_run v st) (Ok []).
Proof.
  apply realizes_upd. intro rs. rewrite toks_of_app. reflexivity.
Qed.

Lemma realizes_add_toks v ts : realizes (add_toks v ts) (Ok ts).
Proof.
  apply realizes_upd. intro rs.
  rewrite toks_of_upd_last by apply ensure_run_nonnil. rewrite toks_of_ensure. reflexivity.
Qed.

Lemma realizes_insert v ts : realizes (insert_text_as_new_run v ts) (Ok ts).
Proof.
  apply realizes_upd. intro rs. cbv zeta.
  rewrite toks_of_app, toks_of_ensure. f_equal. cbn. rewrite !app_nil_r. reflexivity.
Qed.

(* lifting to handlers *)
Lemma realizes_b_of f b em :
  realizes f (Ok em) -> realizes_b (fun s => s' <- f s ;; Ok (s', b)) (Ok (em, b)).
Proof.
  intros H s p rest Ho. destruct (H s p rest Ho) as (rs' & E & T).
  exists rs'. rewrite E. split; [reflexivity|exact T].
Qed.

Lemma realizes_b_id b : realizes_b (fun s => Ok (s, b)) (Ok ([], b)).
Proof.
  intros s p rest Ho. exists (p_runs p). rewrite with_runs_id, app_nil_r.
  rewrite (set_open_id s _ Ho). split; reflexivity.
Qed.

Lemma realizes_b_err x : realizes_b (fun _ => Err x) (Err x).
Proof. intros s p rest Ho. reflexivity. Qed.

Lemma realizes_b_insert v ts b :
  realizes_b (fun s => s' <- insert_text_as_new_run v ts s ;; Ok (s', b)) (Ok (ts, b)).
Proof. apply realizes_b_of, realizes_insert. Qed.
Lemma realizes_b_add_code v ts b :
  realizes_b (fun s => s' <- add_code_into_open_run v ts s ;; Ok (s', b)) (Ok (ts, b)).
Proof. apply realizes_b_of, realizes_add_toks. Qed.
Lemma realizes_b_add_text v txt b :
  realizes_b (fun s => s' <- add_text_into_open_run v txt s ;; Ok (s', b)) (Ok (map TTxt txt, b)).
Proof. apply realizes_b_of. unfold add_text_into_open_run. apply realizes_add_toks. Qed.
Lemma realizes_b_commence_run v st b :
  realizes_b (fun s => s' <- commence_run v st s ;; Ok (s', b)) (Ok ([], b)).
Proof. apply realizes_b_of, realizes_commence_run. Qed.

Ltac rb_done :=
  first [ apply realizes_b_insert | apply realizes_b_add_code | apply realizes_b_add_text
        | apply realizes_b_commence_run | apply realizes_b_id | apply realizes_b_err ].

(* destruct a state-independent scrutinee / bound computation of the handler *)
Ltac rb_step :=
  cbv beta iota;
  match goal with
  | |- exists r, realizes_b (fun s => bind ?c _) r =>
      let x := fresh "x" in
      destruct c as [?|x]; cbn [bind]; [|exists (Err x); apply realizes_b_err]
  | |- exists r, realizes_b (fun s => if ?c then _ else _) r => destruct c
  | |- exists r, realizes_b (fun s => match ?c with _ => _ end) r => destruct c
  | |- exists r, realizes_b _ r => eexists; rb_done
  end.

Lemma note_ref_realizes v kind e : exists r, realizes_b (note_ref v kind e) r.
Proof. unfold note_ref. repeat rb_step. Qed.

Lemma image_ref_realizes v rid : exists r, realizes_b (image_ref v rid) r.
Proof. unfold image_ref. repeat rb_step. Qed.

Lemma open_tag_realizes v path t e ks body :
  inline_tag (e_ptag e) -> exists r, realizes_b (open_tag v path t e ks body) r.
Proof.
  intros (Hp & _ & Hfn & Hen & Hcs & Hce).
  unfold open_tag, note_label. cbv zeta. rewrite Hp, Hfn, Hen, Hcs, Hce.
  destruct (str_eqb (e_ptag e) tag_RUN); [repeat rb_step|].
  destruct (str_eqb (e_ptag e) tag_TEXT || str_eqb (e_ptag e) tag_TEXT_MATH)%bool;
    [repeat rb_step|].
  destruct (str_eqb (e_ptag e) tag_MATH); [repeat rb_step|].
  destruct (str_eqb (e_ptag e) tag_BR); [repeat rb_step|].
  destruct (str_eqb (e_ptag e) tag_SYM); [repeat rb_step|].
  destruct (str_eqb (e_ptag e) tag_HYPERLINK); [repeat rb_step|].
  destruct (str_eqb (e_ptag e) tag_FORM_CHECKBOX); [repeat rb_step|].
  destruct (str_eqb (e_ptag e) tag_FORM_DDLIST); [repeat rb_step|].
  destruct (str_eqb (e_ptag e) tag_FOOTNOTE_REFERENCE); [apply note_ref_realizes|].
  destruct (str_eqb (e_ptag e) tag_ENDNOTE_REFERENCE); [apply note_ref_realizes|].
  destruct (str_eqb (e_ptag e) tag_IMAGE); [apply image_ref_realizes|].
  destruct (str_eqb (e_ptag e) tag_IMAGE_ALT); [repeat rb_step|].
  destruct (str_eqb (e_ptag e) tag_IMAGEDATA); [apply image_ref_realizes|].
  destruct (str_eqb (e_ptag e) tag_TAB); [repeat rb_step|].
  repeat rb_step.
Qed.

Lemma close_tag_realizes v e ks :
  inline_tag (e_ptag e) -> realizes (close_tag v e ks) (Ok []).
Proof.
  intros (Hp & Htc & _). unfold close_tag. cbv zeta. rewrite Hp, Htc.
  destruct (str_eqb (e_ptag e) tag_RUN); [apply realizes_commence_run|apply realizes_ret].
Qed.

(* emit is what a realizer says *)
Definition emit_of (f : cst -> res cst) : res (list tok) :=
  s <- f blank_st ;;
  match c_open s with p :: _ => Ok (toks_of (p_runs p)) | [] => Err ModelError end.

Lemma emit_is_emit_of v path t : emit v path t = emit_of (walk v path t).
Proof. reflexivity. Qed.

Lemma realizes_emit_of f r : realizes f r -> emit_of f = r.
Proof.
  intro H. specialize (H blank_st blank_par [] eq_refl). unfold emit_of.
  destruct r as [em|x].
  - destruct H as (rs' & E & T). rewrite E. cbn [bind c_open set_open p_runs with_runs].
    rewrite T. reflexivity.
  - rewrite H. reflexivity.
Qed.

Definition walk_realizable (v : env) (t : anode) : Prop :=
  forall path, exists r, realizes (walk v path t) r.

Lemma walk_realizes_emit v t path :
  walk_realizable v t -> realizes (walk v path t) (emit v path t).
Proof.
  intro H. destruct (H path) as [r Hr].
  rewrite emit_is_emit_of, (realizes_emit_of _ _ Hr). exact Hr.
Qed.

Lemma kids_loop_realizes v path : forall ks,
  Forall (walk_realizable v) ks ->
  forall i, realizes (kids_loop v path ks i) (emit_kids v path ks i).
Proof.
  induction 1 as [|k r Hk Hr IH]; intro i; cbn [kids_loop emit_kids].
  - exact realizes_ret.
  - apply (realizes_bind (walk v (i :: path) k) (kids_loop v path r (S i))).
    + apply walk_realizes_emit. exact Hk.
    + apply IH.
Qed.

Lemma walk_realizable_all v : forall t, plain_inline t = true -> walk_realizable v t.
Proof.
  apply (ShapeFacts.anode_ind' (fun t => plain_inline t = true -> walk_realizable v t)).
  - intros tl _ path. exists (Ok []). exact realizes_ret.
  - intros e ks IH Hpl path.
    pose proof (plain_inline_no_depth _ Hpl) as Hd.
    apply plain_inline_AE in Hpl. destruct Hpl as [Htag Hks].
    assert (HF : Forall (walk_realizable v) ks).
    { clear - IH Hks. induction IH as [|k r Hk Hr IHr]; [constructor|].
      cbn [forallb] in Hks. apply andb_true_iff in Hks. destruct Hks as [K1 K2].
      constructor; auto. }
    clear IH.
    (* the hyperlink body does not look at the state *)
    destruct (if str_eqb (e_ptag e) tag_HYPERLINK then below_loop v path ks O else Ok [])
      as [body|x] eqn:Eb.
    2:{ exists (Err x). intros s p rest Ho. rewrite walk_AE. cbv zeta. rewrite Hd.
        cbn [set_caret bind]. rewrite Eb. reflexivity. }
    destruct (open_tag_realizes v path (AE e ks) e ks body Htag)
      as [ro Hro].
    pose proof (close_tag_realizes v e ks Htag) as Hc.
    destruct ro as [[em1 b]|x].
    2:{ exists (Err x). intros s p rest Ho. rewrite walk_AE. cbv zeta. rewrite Hd.
        cbn [set_caret bind]. rewrite Eb. cbn [bind]. rewrite (Hro s p rest Ho). reflexivity. }
    pose proof (kids_loop_realizes v path ks HF O) as Hk.
    assert (Hrest : exists r2, realizes (fun s2 => s3 <- (if b then kids_loop v path ks O s2 else Ok s2) ;;
                                                   s4 <- close_tag v e ks s3 ;; Ok s4) r2).
    { destruct b.
      - eexists. apply (realizes_bind (kids_loop v path ks O)
                                      (fun s3 => s4 <- close_tag v e ks s3 ;; Ok s4)); [exact Hk|].
        apply (realizes_bind (close_tag v e ks) (fun s => Ok s)); [exact Hc|exact realizes_ret].
      - eexists. apply (realizes_bind (fun s => Ok s)
                                      (fun s3 => s4 <- close_tag v e ks s3 ;; Ok s4));
                   [exact realizes_ret|].
        apply (realizes_bind (close_tag v e ks) (fun s => Ok s)); [exact Hc|exact realizes_ret]. }
    destruct Hrest as [r2 Hr2].
    exists (match r2 with Ok em2 => Ok (em1 ++ em2) | Err x => Err x end).
    intros s p rest Ho. rewrite walk_AE. cbv zeta. rewrite Hd.
    cbn [set_caret bind]. rewrite Eb. cbn [bind].
    destruct (Hro s p rest Ho) as (rs1 & E1 & T1). rewrite E1. cbn [bind].
    specialize (Hr2 (set_open (with_runs p rs1 :: rest) s) (with_runs p rs1) rest eq_refl).
    cbv beta in Hr2.
    destruct r2 as [em2|x].
    + destruct Hr2 as (rs2 & E2 & T2). exists rs2. split.
      * destruct (if b then _ else _) as [s3|x3]; [|discriminate E2]. cbn [bind] in E2 |- *.
        destruct (close_tag v e ks s3) as [s4|x4]; [|discriminate E2]. cbn [bind] in E2 |- *.
        exact E2.
      * rewrite T2. cbn [p_runs with_runs]. rewrite T1, app_assoc. reflexivity.
    + destruct (if b then _ else _) as [s3|x3]; [|exact Hr2]. cbn [bind] in Hr2 |- *.
      destruct (close_tag v e ks s3) as [s4|x4]; [discriminate Hr2|exact Hr2].
Qed.

Lemma inline_realizes v path t :
  plain_inline t = true -> realizes (walk v path t) (emit v path t).
Proof. intro H. apply walk_realizes_emit, walk_realizable_all, H. Qed.

Lemma inline_frame : forall v t path s s' p rest,
  plain_inline t = true -> c_open s = p :: rest -> walk v path t s = Ok s' ->
  exists rs' em,
    c_open s' = with_runs p rs' :: rest /\ c_tree s' = c_tree s /\ c_depth s' = c_depth s /\
    c_lineage s' = c_lineage s /\ c_queued s' = c_queued s /\ c_ranges s' = c_ranges s /\
    c_counters s' = c_counters s /\
    emit v path t = Ok em /\ toks_of rs' = toks_of (p_runs p) ++ em.
Proof.
  intros v t path s s' p rest Hpl Ho Hw.
  pose proof (inline_realizes v path t Hpl s p rest Ho) as H.
  destruct (emit v path t) as [em|x].
  - destruct H as (rs' & E & T). rewrite E in Hw. injection Hw as <-.
    exists rs', em. cbn. repeat split. exact T.
  - rewrite H in Hw. discriminate Hw.
Qed.

(* ================================================================== *)
(* F2: the visible content of the basic elements                        *)
(* ================================================================== *)
Lemma emit_text : forall v path e, str_eqb (e_ptag e) tag_TEXT = true ->
  emit v path (AE e []) = Ok (map TTxt (ostr (e_text e))).
Proof.
  intros v path e H. apply str_eqb_eq in H.
  destruct e as [tg u l w r a tx tl]. cbn in H. subst tg.
  cbn. rewrite app_nil_r. reflexivity.
Qed.

Lemma emit_tab : forall v path e, str_eqb (e_ptag e) tag_TAB = true ->
  emit v path (AE e []) = Ok [TRaw 9].
Proof.
  intros v path e H. apply str_eqb_eq in H.
  destruct e as [tg u l w r a tx tl]. cbn in H. subst tg. reflexivity.
Qed.

Lemma emit_br : forall v path e, str_eqb (e_ptag e) tag_BR = true ->
  emit v path (AE e []) = Ok [TRaw 10].
Proof.
  intros v path e H. apply str_eqb_eq in H.
  destruct e as [tg u l w r a tx tl]. cbn in H. subst tg. reflexivity.
Qed.

Lemma mem_str_In tg : forall l, mem_str tg l = true -> In tg l.
Proof.
  induction l as [|x l IH]; cbn [mem_str]; intro H; [discriminate H|].
  apply orb_true_iff in H. destruct H as [H|H].
  - left. apply str_eqb_eq in H. auto.
  - right. auto.
Qed.

Lemma unknown_tag x tg :
  (forall m, In m tags_table -> str_eqb x (snd m) = false) ->
  mem_str tg (map snd tags_table) = true -> str_eqb x tg = false.
Proof.
  intros H M. apply mem_str_In in M. apply in_map_iff in M.
  destruct M as (m & <- & Hin). apply H, Hin.
Qed.

Lemma plain_kids_realizable v ks :
  forallb plain_inline ks = true -> Forall (walk_realizable v) ks.
Proof.
  induction ks as [|k r IH]; intro H; [constructor|].
  cbn [forallb] in H. apply andb_true_iff in H. destruct H as [K1 K2].
  constructor; [apply walk_realizable_all; exact K1|auto].
Qed.

(* an element without handlers is transparent, on every state *)
Lemma walk_unknown v path e ks s :
  elem_depth (AE e ks) = None ->
  (forall m, In m tags_table -> str_eqb (e_ptag e) (snd m) = false) ->
  walk v path (AE e ks) s = kids_loop v path ks O s.
Proof.
  intros Hd H. pose proof (fun tg => unknown_tag (e_ptag e) tg H) as U.
  rewrite walk_AE. cbv zeta. rewrite Hd. cbn [set_caret bind].
  rewrite (U tag_HYPERLINK eq_refl). cbn [bind].
  unfold open_tag, close_tag. cbv zeta.
  rewrite (U tag_PARAGRAPH eq_refl), (U tag_RUN eq_refl), (U tag_COMMENT_RANGE_END eq_refl),
    (U tag_COMMENT_RANGE_START eq_refl), (U tag_TEXT eq_refl), (U tag_TEXT_MATH eq_refl),
    (U tag_MATH eq_refl), (U tag_BR eq_refl), (U tag_SYM eq_refl), (U tag_FOOTNOTE eq_refl),
    (U tag_ENDNOTE eq_refl), (U tag_HYPERLINK eq_refl), (U tag_FORM_CHECKBOX eq_refl),
    (U tag_FORM_DDLIST eq_refl), (U tag_FOOTNOTE_REFERENCE eq_refl),
    (U tag_ENDNOTE_REFERENCE eq_refl), (U tag_IMAGE eq_refl), (U tag_IMAGE_ALT eq_refl),
    (U tag_IMAGEDATA eq_refl), (U tag_TAB eq_refl), (U tag_TABLE_CELL eq_refl).
  cbn [orb bind]. destruct (kids_loop v path ks 0 s); reflexivity.
Qed.

Lemma emit_unknown : forall v path e ks, plain_inline (AE e ks) = true ->
  (forall m, In m tags_table -> str_eqb (e_ptag e) (snd m) = false) ->
  emit v path (AE e ks)
  = (fix go (l : list anode) (i : nat) : res (list tok) :=
       match l with
       | [] => Ok []
       | k :: r => a <- emit v (i :: path) k ;; b <- go r (S i) ;; Ok (a ++ b)
       end) ks 0%nat.
Proof.
  intros v path e ks Hpl H. change (emit v path (AE e ks) = emit_kids v path ks O).
  rewrite emit_is_emit_of. apply realizes_emit_of.
  pose proof (plain_inline_no_depth _ Hpl) as Hd.
  apply plain_inline_AE in Hpl. destruct Hpl as [_ Hks].
  apply (realizes_ext (kids_loop v path ks O)).
  - intro s. symmetry. apply walk_unknown; assumption.
  - apply kids_loop_realizes, plain_kids_realizable, Hks.
Qed.

(* the run element: its formatting opens and closes runs but adds no text *)
Lemma mpd_list_plain ks : forallb plain_inline ks = true -> mpd_list ks = None.
Proof.
  induction ks as [|k r IH]; intro H; [reflexivity|].
  cbn [forallb] in H. apply andb_true_iff in H. destruct H as [K1 K2].
  cbn [mpd_list]. rewrite (plain_inline_no_par _ K1), (IH K2). reflexivity.
Qed.

Lemma res_app_nil {A} (r : res (list A)) :
  (a <- Ok [] ;; b <- (a <- r ;; b <- (a <- Ok [] ;; b <- Ok [] ;; Ok (a ++ b)) ;; Ok (a ++ b)) ;;
   Ok (a ++ b)) = r.
Proof. destruct r as [l|x]; cbn; [rewrite app_nil_r|]; reflexivity. Qed.

Lemma emit_run : forall v path e ks st, str_eqb (e_ptag e) tag_RUN = true ->
  forallb plain_inline ks = true ->
  get_run_formatting e ks (env_x2h v) = Ok st ->
  emit v path (AE e ks)
  = (fix go (l : list anode) (i : nat) : res (list tok) :=
       match l with
       | [] => Ok []
       | k :: r => a <- emit v (i :: path) k ;; b <- go r (S i) ;; Ok (a ++ b)
       end) ks 0%nat.
Proof.
  intros v path e ks st Ht Hks Hst. change (emit v path (AE e ks) = emit_kids v path ks O).
  apply str_eqb_eq in Ht.
  rewrite emit_is_emit_of. rewrite <- (res_app_nil (emit_kids v path ks O)).
  apply realizes_emit_of.
  apply (realizes_ext (fun s => s2 <- commence_run v st s ;;
                                (fun s2 => s3 <- kids_loop v path ks O s2 ;;
                                   (fun s3 => s4 <- commence_run v [] s3 ;; Ok s4) s3) s2)).
  - intro s. rewrite walk_AE. cbv zeta.
    assert (Hd : elem_depth (AE e ks) = None).
    { unfold elem_depth. rewrite min_par_depth_AE, Ht, (mpd_list_plain _ Hks). reflexivity. }
    rewrite Hd. cbn [set_caret bind]. unfold open_tag, close_tag. cbv zeta. rewrite Ht.
    change (str_eqb tag_RUN tag_HYPERLINK) with false.
    change (str_eqb tag_RUN tag_PARAGRAPH) with false.
    change (str_eqb tag_RUN tag_RUN) with true. cbv iota. cbn [bind]. rewrite Hst. cbn [bind].
    destruct (commence_run v st s) as [s2|x]; [|reflexivity]. cbn [bind].
    reflexivity.
  - apply realizes_bind; [apply realizes_commence_run|].
    apply realizes_bind; [apply kids_loop_realizes, plain_kids_realizable, Hks|].
    apply realizes_bind; [apply realizes_commence_run|apply realizes_ret].
Qed.

(* ================================================================== *)
(* F3b: a simple paragraph                                              *)
(* ================================================================== *)
Lemma realizes_inv f r s p rest s' :
  realizes f r -> c_open s = p :: rest -> f s = Ok s' ->
  exists em rs', r = Ok em /\ s' = set_open (with_runs p rs' :: rest) s
                 /\ toks_of rs' = toks_of (p_runs p) ++ em.
Proof.
  intros H Ho E. specialize (H s p rest Ho). destruct r as [em|x].
  - destruct H as (rs' & E' & T). rewrite E' in E. injection E as <-.
    exists em, rs'. auto.
  - rewrite H in E. discriminate E.
Qed.

Lemma set_in_lineage_4 name l0 l :
  set_in_lineage 4%nat name l0 = Ok l -> exists a b c, l = (a, b, c, name).
Proof.
  destruct l0 as [[[a b] c] d]. cbn. intro H. injection H as <-. eauto.
Qed.

Lemma simple_par_walk : forall v e ks path s s' ps,
  simple_par (AE e ks) = true -> Inv s -> walk v path (AE e ks) s = Ok s' ->
  pars_at 4%nat (c_tree s) = Ok ps ->
  exists p, pars_at 4%nat (c_tree s') = Ok (ps ++ [p])
    /\ c_open s' = c_open s /\ c_queued s' = [] /\ c_ranges s' = c_ranges s /\ c_depth s' = 4%nat
    /\ p_elem p = Some path /\ p_copy p = false
    /\ get_pStyle e ks = Ok (p_style p)
    /\ (exists a b c, p_lineage p = (a, b, c, Some (e_local e)))
    /\ (exists bl number cs,
          get_par_number (to_numtable v) (c_counters s) (get_bullet_fmt (AE e ks)) = (cs, number)
          /\ get_bullet (to_numtable v) (get_bullet_fmt (AE e ks)) number = Ok bl
          /\ c_counters s' = cs /\ p_listpos p = get_list_position cs (get_bullet_fmt (AE e ks))
          /\ exists ems,
               (fix go (l : list anode) (i : nat) : res (list (list tok)) :=
                  match l with
                  | [] => Ok []
                  | k :: r => a <- emit v (i :: path) k ;; b <- go r (S i) ;; Ok (a :: b)
                  end) ks 0%nat = Ok ems
               /\ toks_of (p_runs p) = toks_of (c_queued s) ++ raw bl ++ concat ems).
Proof.
  intros v e ks path s s' ps Hsp _ H Hps.
  cbn [simple_par] in Hsp. apply andb_true_iff in Hsp. destruct Hsp as [Ht Hks].
  pose proof (proj1 (str_eqb_eq _ _) Ht) as Htag.
  assert (Hd : elem_depth (AE e ks) = Some 4%nat).
  { unfold elem_depth. rewrite min_par_depth_AE, Htag. reflexivity. }
  rewrite walk_AE in H. cbv zeta in H. rewrite Hd in H.
  bind_inv H as s1 E1. apply set_caret_frame in E1. destruct E1 as ((O1 & Q1 & R1 & C1) & K1 & D1 & L1).
  rewrite Htag in H. change (str_eqb tag_PARAGRAPH tag_HYPERLINK) with false in H.
  cbv iota in H. cbn [bind] in H.
  bind_inv H as s2r Eo. destruct s2r as [s2 rec].
  unfold open_tag in Eo. cbv zeta in Eo. rewrite Ht in Eo.
  bind_inv Eo as s1b Ecp.
  destruct (get_par_number (to_numtable v) (c_counters s1b) (get_bullet_fmt (AE e ks)))
    as [cs number] eqn:Epn.
  bind_inv Eo as bl Ebl. bind_inv Eo as s2a Eins.
  destruct (c_open s2a) as [|p2 rest2] eqn:Eo2; [discriminate Eo|]. injection Eo as <- <-.
  (* commence_paragraph *)
  unfold commence_paragraph in Ecp.
  bind_inv Ecp as s1a Ec1. bind_inv Ecp as hs Ehs. bind_inv Ecp as pst Epst.
  cbv zeta in Ecp. injection Ecp as <-.
  apply set_caret_frame in Ec1. destruct Ec1 as ((O1a & Q1a & R1a & C1a) & K1a & D1a & L1a).
  destruct L1a as [l0 L1a]. apply set_in_lineage_4 in L1a. destruct L1a as (la & lb & lc & Lin).
  cbn [c_counters set_open set_queued] in Epn. rewrite C1a, C1 in Epn.
  (* the list marker *)
  match type of Eins with insert_text_as_new_run _ _ ?st = _ =>
    destruct (realizes_inv _ _ st _ _ _ (realizes_insert v (raw bl))
                (eq_refl : c_open st = _ :: _) Eins)
      as (em0 & rs0 & Eem0 & -> & T0)
  end.
  injection Eem0 as <-.
  cbn [c_open set_open] in Eo2. injection Eo2 as <- <-.
  cbn [p_runs] in T0.
  (* the children *)
  bind_inv H as s3 Ek.
  match type of Ek with kids_loop _ _ _ _ ?st = _ =>
    destruct (realizes_inv _ _ _ _ _ _
                (kids_loop_realizes v path ks (plain_kids_realizable v ks Hks) O)
                (eq_refl : c_open st = _ :: _) Ek)
      as (em & rs3 & Eem & -> & T3)
  end.
  rewrite emit_kids_list in Eem. bind_inv Eem as ems Eems. injection Eem as <-.
  cbn [p_runs with_listpos with_runs] in T3.
  (* conclude_paragraph *)
  bind_inv H as s4 Ec. unfold close_tag in Ec. cbv zeta in Ec. rewrite Ht in Ec.
  unfold conclude_paragraph in Ec. cbn [c_open set_open] in Ec.
  bind_inv Ec as s3a Ec3. bind_inv Ec as t Et. injection Ec as <-.
  apply set_caret_frame in Ec3. destruct Ec3 as ((O3 & Q3 & R3 & C3) & K3 & D3 & L3).
  cbn [c_open c_queued c_ranges c_counters set_open set_counters set_queued] in O3, Q3, R3, C3.
  assert (Hp3 : pars_at 4%nat (c_tree s3a) = Ok ps).
  { apply K3. cbn [c_tree set_open set_counters set_queued]. apply K1a, K1, Hps. }
  pose proof (spine_app_NP_pars 3%nat _ _ _ _ Et Hp3) as Hp4.
  apply set_caret_frame in H. destruct H as ((O4 & Q4 & R4 & C4) & K4 & D4 & L4).
  cbn [c_open c_queued c_ranges c_counters c_tree set_tree] in O4, Q4, R4, C4, K4.
  eexists. split; [apply K4; exact Hp4|].
  split; [rewrite O4, O3, O1a, O1; reflexivity|].
  split; [rewrite Q4, Q3; reflexivity|].
  split; [rewrite R4, R3, R1a, R1; reflexivity|].
  split; [exact D4|].
  split; [reflexivity|]. split; [reflexivity|].
  split; [rewrite ?Epst; reflexivity|].
  split; [exists la, lb, lc; exact Lin|].
  exists bl, number, cs. split; [exact Epn|]. split; [exact Ebl|].
  split; [rewrite C4, C3; reflexivity|]. split; [reflexivity|].
  exists ems. split; [exact Eems|].
  cbn [p_runs with_runs]. rewrite T3, T0, Q1a, Q1, app_assoc. reflexivity.
Qed.

Print Assumptions plain_inline_no_par.
Print Assumptions plain_inline_no_depth.
Print Assumptions spine_app_pars.
Print Assumptions set_caret_pars.
Print Assumptions inline_frame.
Print Assumptions emit_text.
Print Assumptions emit_tab.
Print Assumptions emit_br.
Print Assumptions emit_unknown.
Print Assumptions emit_run.
Print Assumptions simple_par_walk.
