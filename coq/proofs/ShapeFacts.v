(* ShapeFacts.v — C01: paragraphs sit at depth 4, lists at depths 1..3, for
   every state reachable by the walk; the caret logic never raises
   CaretDepthError. *)
From Coq Require Import List NArith ZArith Bool Arith Lia.
From D2P Require Import Str Err Xml TableTypes Tables Fmt NumFmt Bullets Merge Collector Walk.
Import ListNotations.

(* ================================================================== *)
(* Definitions                                                          *)
(* ================================================================== *)
Fixpoint shapeb (d : nat) (n : node) : bool :=
  match n with
  | NP _ => Nat.eqb d 4
  | NL l => Nat.ltb d 4 && forallb (shapeb (S d)) l
  end.
Definition tree_ok (l : list node) : Prop := forallb (shapeb 1) l = true.
(* the rightmost spine (heads) exists as lists down to caret depth d *)
Fixpoint spine_ok (d : nat) (l : list node) : Prop :=
  match d with
  | O => False
  | S O => True
  | S d' => match l with NL l' :: _ => spine_ok d' l' | _ => False end
  end.
Definition Inv (s : cst) : Prop :=
  tree_ok (c_tree s) /\ (1 <= c_depth s <= 4)%nat /\ spine_ok (c_depth s) (c_tree s).

(* ================================================================== *)
(* A small Hoare logic on the error monad                               *)
(* ================================================================== *)
(* [good Q r]: when r succeeds its value satisfies Q, and when it fails
   the exception is not CaretDepthError *)
Definition good {A} (Q : A -> Prop) (r : res A) : Prop :=
  match r with Ok a => Q a | Err e => e <> CaretDepthError end.
Definition any {A} (_ : A) : Prop := True.
Notation nce r := (good any r).

Lemma good_bind {A B} (Q : A -> Prop) (R : B -> Prop) (r : res A) (k : A -> res B) :
  good Q r -> (forall a, Q a -> good R (k a)) -> good R (bind r k).
Proof.
  destruct r as [a|e]; simpl; intros H K.
  - apply K; exact H.
  - exact H.
Qed.

Lemma good_weaken {A} (Q R : A -> Prop) (r : res A) :
  good Q r -> (forall a, Q a -> R a) -> good R r.
Proof.
  destruct r as [a|e]; simpl; intros H K; auto.
Qed.

Lemma good_ok_inv {A} (Q : A -> Prop) (r : res A) a : good Q r -> r = Ok a -> Q a.
Proof. intros H E; rewrite E in H; exact H. Qed.

Lemma good_not_caret {A} (Q : A -> Prop) (r : res A) : good Q r -> r <> Err CaretDepthError.
Proof. intros H E; rewrite E in H; simpl in H; apply H; reflexivity. Qed.

Lemma good_ok {A} (Q : A -> Prop) a : Q a -> good Q (Ok a).
Proof. intro H; exact H. Qed.

Lemma nce_ok {A} (a : A) : nce (Ok a).
Proof. exact I. Qed.

Lemma good_err {A} (Q : A -> Prop) e : e <> CaretDepthError -> good Q (@Err A e).
Proof. intro H; exact H. Qed.

Lemma nce_bind {A B} (r : res A) (k : A -> res B) :
  nce r -> (forall a, nce (k a)) -> nce (bind r k).
Proof. intros H K; apply good_bind with (Q := any); auto. Qed.

Lemma nce_of_opt {A} e (o : option A) : e <> CaretDepthError -> nce (of_opt e o).
Proof. intro H; destruct o; simpl; auto. exact I. Qed.

Lemma nce_mapM {A B} (f : A -> res B) l : (forall a, nce (f a)) -> nce (mapM f l).
Proof.
  intro H; induction l as [|x l IH]; simpl.
  - exact I.
  - apply nce_bind; [apply H|intro y]. apply nce_bind; [exact IH|intro ys]. exact I.
Qed.

Lemma nce_foldM {A S} (f : S -> A -> res S) l :
  (forall s a, nce (f s a)) -> forall s, nce (foldM f l s).
Proof.
  intro H; induction l as [|x l IH]; intro s; simpl.
  - exact I.
  - apply nce_bind; [apply H|intro s']. apply IH.
Qed.

Lemma bind_ok_inv {A B} (r : res A) (k : A -> res B) b :
  bind r k = Ok b -> exists a, r = Ok a /\ k a = Ok b.
Proof.
  destruct r as [a|e]; simpl; intro H.
  - exists a; auto.
  - discriminate H.
Qed.

(* ================================================================== *)
(* spine_app, drop_caret, raise_caret, set_caret                        *)
(* ================================================================== *)
Lemma spine_app_SS d x l' rest :
  spine_app (S (S d)) x (NL l' :: rest)
  = (l'' <- spine_app (S d) x l' ;; Ok (NL l'' :: rest)).
Proof. reflexivity. Qed.

Lemma spine_ok_SS d l' rest : spine_ok (S (S d)) (NL l' :: rest) = spine_ok (S d) l'.
Proof. reflexivity. Qed.

Lemma spine_ok_1 l : spine_ok 1 l.
Proof. exact I. Qed.

Lemma shapeb_NL d l : shapeb d (NL l) = (Nat.ltb d 4 && forallb (shapeb (S d)) l).
Proof. reflexivity. Qed.

Lemma spine_app_ok : forall d k x l,
  spine_ok d l -> forallb (shapeb k) l = true -> shapeb (k + d - 1)%nat x = true ->
  exists l', spine_app d x l = Ok l' /\ forallb (shapeb k) l' = true /\ spine_ok d l'
             /\ (x = NL [] -> spine_ok (S d) l').
Proof.
  induction d as [|d IH]; intros k x l Hs Hl Hx.
  - destruct Hs.
  - destruct d as [|d'].
    + exists (x :: l). replace (k + 1 - 1)%nat with k in Hx by lia.
      split; [reflexivity|]. split.
      * cbn [forallb]. rewrite Hx, Hl. reflexivity.
      * split; [exact I|]. intros ->. exact I.
    + destruct l as [|[l'|p] rest]; try (simpl in Hs; contradiction).
      rewrite spine_ok_SS in Hs.
      cbn [forallb] in Hl. apply andb_true_iff in Hl. destruct Hl as [Hl1 Hrest].
      rewrite shapeb_NL in Hl1. apply andb_true_iff in Hl1. destruct Hl1 as [Hlt Hl'].
      destruct (IH (S k) x l' Hs Hl') as (l'' & E & F & S1 & S2).
      { replace (S k + S d' - 1)%nat with (k + S (S d') - 1)%nat by lia. exact Hx. }
      exists (NL l'' :: rest). split.
      { rewrite spine_app_SS, E. reflexivity. }
      split.
      { cbn [forallb]. rewrite shapeb_NL, Hlt, F, Hrest. reflexivity. }
      split.
      { rewrite spine_ok_SS. exact S1. }
      intro Ex. specialize (S2 Ex). change (spine_ok (S (S d')) l''). exact S2.
Qed.

Lemma spine_ok_pred : forall d l, spine_ok (S (S d)) l -> spine_ok (S d) l.
Proof.
  induction d as [|d IH]; intros l H.
  - exact I.
  - destruct l as [|[l'|p] r]; try (simpl in H; contradiction).
    rewrite spine_ok_SS in H. rewrite spine_ok_SS. apply IH. exact H.
Qed.

Lemma drop_caret_ok s :
  Inv s -> (c_depth s < 4)%nat ->
  exists s', drop_caret s = Ok s' /\ Inv s' /\ c_depth s' = S (c_depth s)
             /\ c_open s' = c_open s /\ c_queued s' = c_queued s.
Proof.
  intros (Ht & Hd & Hs) Hlt. unfold drop_caret, par_depth.
  destruct (Nat.leb 4 (c_depth s)) eqn:E.
  { apply Nat.leb_le in E. lia. }
  destruct (spine_app_ok (c_depth s) 1%nat (NL []) (c_tree s) Hs Ht) as (l' & E1 & F & S1 & S2).
  { replace (1 + c_depth s - 1)%nat with (c_depth s) by lia.
    rewrite shapeb_NL. cbn [forallb]. rewrite andb_true_r. apply Nat.ltb_lt. exact Hlt. }
  rewrite E1. cbn [bind]. eexists. split; [reflexivity|].
  split.
  { unfold Inv. simpl. split; [exact F|]. split; [lia|]. apply S2. reflexivity. }
  simpl. auto.
Qed.

Lemma raise_caret_ok s :
  Inv s -> (1 < c_depth s)%nat ->
  exists s', raise_caret s = Ok s' /\ Inv s' /\ c_depth s' = pred (c_depth s)
             /\ c_open s' = c_open s /\ c_queued s' = c_queued s.
Proof.
  intros (Ht & Hd & Hs) Hlt. unfold raise_caret.
  destruct (Nat.leb (c_depth s) 1) eqn:E.
  { apply Nat.leb_le in E. lia. }
  eexists. split; [reflexivity|]. split.
  { unfold Inv. simpl. split; [exact Ht|]. split; [lia|].
    destruct (c_depth s) as [|[|d]]; try lia.
    simpl pred. apply spine_ok_pred. exact Hs. }
  simpl. auto.
Qed.

Lemma set_in_lineage_ok d v l :
  (1 <= d <= 4)%nat -> exists l', set_in_lineage d v l = Ok l'.
Proof.
  intro H. destruct l as [[[a b] c] e].
  destruct d as [|[|[|[|[|d]]]]]; try lia; eexists; reflexivity.
Qed.

Lemma set_lin_inv l s : Inv s -> Inv (set_lin l s).
Proof. intro H; exact H. Qed.
Lemma set_open_inv o s : Inv s -> Inv (set_open o s).
Proof. intro H; exact H. Qed.
Lemma set_queued_inv q s : Inv s -> Inv (set_queued q s).
Proof. intro H; exact H. Qed.
Lemma set_ranges_inv r s : Inv s -> Inv (set_ranges r s).
Proof. intro H; exact H. Qed.
Lemma set_counters_inv c s : Inv s -> Inv (set_counters c s).
Proof. intro H; exact H. Qed.

Lemma set_caret_go_ok : forall fuel d name s,
  (1 <= d <= 4)%nat -> Inv s ->
  ((c_depth s - d) + (d - c_depth s) < fuel)%nat ->
  exists s', set_caret_go fuel d name s = Ok s' /\ Inv s' /\ c_depth s' = d
             /\ c_open s' = c_open s /\ c_queued s' = c_queued s.
Proof.
  induction fuel as [|f IH]; intros d name s Hd Hinv Hm; [lia|].
  cbn [set_caret_go].
  destruct (Nat.eqb (c_depth s) d) eqn:E1.
  - apply Nat.eqb_eq in E1.
    destruct (set_in_lineage_ok d name (c_lineage s) Hd) as [l' El].
    rewrite El. cbn [bind]. exists (set_lin l' s).
    split; [reflexivity|]. split; [apply set_lin_inv; exact Hinv|].
    simpl. auto.
  - apply Nat.eqb_neq in E1.
    destruct (Nat.ltb (c_depth s) d) eqn:E2.
    + apply Nat.ltb_lt in E2.
      destruct (drop_caret_ok s Hinv) as (s1 & Ed & I1 & D1 & O1 & Q1); [lia|].
      rewrite Ed. cbn [bind].
      destruct (IH d name s1 Hd I1) as (s' & Es & I2 & D2 & O2 & Q2); [lia|].
      exists s'. rewrite O1 in O2. rewrite Q1 in Q2. auto.
    + apply Nat.ltb_ge in E2.
      destruct (set_in_lineage_ok d None (c_lineage s) Hd) as [l' El].
      rewrite El. cbn [bind].
      destruct (raise_caret_ok (set_lin l' s) (set_lin_inv l' s Hinv))
        as (s1 & Ed & I1 & D1 & O1 & Q1).
      { simpl. lia. }
      rewrite Ed. cbn [bind]. simpl in D1, O1, Q1.
      destruct (IH d name s1 Hd I1) as (s' & Es & I2 & D2 & O2 & Q2); [lia|].
      exists s'. rewrite O1 in O2. rewrite Q1 in Q2. auto.
Qed.

Lemma init_inv : Inv init_cst.
Proof.
  unfold Inv, init_cst, tree_ok. simpl. split; [reflexivity|]. split; [lia|exact I].
Qed.

Lemma set_caret_inv : forall d name s, (1 <= d <= 4)%nat -> Inv s ->
  exists s', set_caret (Some d) name s = Ok s' /\ Inv s' /\ c_depth s' = d
             /\ c_open s' = c_open s /\ c_queued s' = c_queued s.
Proof.
  intros d name s Hd Hinv. unfold set_caret.
  apply set_caret_go_ok; auto.
  destruct Hinv as (_ & Hr & _). lia.
Qed.

Lemma set_caret_good od name s :
  (forall d, od = Some d -> (1 <= d <= 4)%nat) -> Inv s ->
  good Inv (set_caret od name s).
Proof.
  intros Hd Hinv. destruct od as [d|].
  - destruct (set_caret_inv d name s (Hd d eq_refl) Hinv) as (s' & E & I1 & _).
    rewrite E. exact I1.
  - exact Hinv.
Qed.

Lemma omin_None_or a b : omin a b = None \/ exists k, omin a b = Some k.
Proof. destruct (omin a b) as [k|]; [right; exists k; reflexivity|left; reflexivity]. Qed.

Lemma max_4_range k : (1 <= Nat.max (4 - k) 1 <= 4)%nat.
Proof. destruct (Nat.max_spec (4 - k) 1) as [[A B]|[A B]]; lia. Qed.

Lemma elem_depth_range : forall t d, elem_depth t = Some d -> (1 <= d <= 4)%nat.
Proof.
  intros t d H. destruct t as [e ks|tl]; [|discriminate H].
  unfold elem_depth in H.
  destruct (mem_str (e_ptag e) depth_none_tags); [discriminate H|].
  destruct (min_par_depth (AE e ks)) as [k|]; [|discriminate H].
  assert (Hd : d = Nat.max (4 - k) 1) by (unfold option_map in H; congruence).
  rewrite Hd. apply max_4_range.
Qed.

(* ================================================================== *)
(* Functions outside the collector never raise CaretDepthError          *)
(* ================================================================== *)
Create HintDb nce.

Ltac nce_step :=
  first
    [ solve [auto with nce]
    | match goal with
      | |- good any (Ok _) => exact I
      | |- good any (Err _) => simpl; discriminate
      | |- good any (bind _ _) => apply nce_bind; [|intro]
      | |- good any (of_opt _ _) => apply nce_of_opt; discriminate
      | |- good any (mapM _ _) => apply nce_mapM; intro
      | |- good any (foldM _ _ _) => apply nce_foldM; intros
      | |- good any (let _ := _ in _) => cbv zeta
      | |- good any (match ?x with _ => _ end) => destruct x
      end ].
Ltac nce_tac := repeat nce_step.

Lemma attr_w_nce e n : nce (attr_w e n).
Proof. unfold attr_w. nce_tac. Qed.
#[local] Hint Resolve attr_w_nce : nce.
Lemma attr_r_nce e n : nce (attr_r e n).
Proof. unfold attr_r. nce_tac. Qed.
#[local] Hint Resolve attr_r_nce : nce.
Lemma attr_w_req_nce e n : nce (attr_w_req e n).
Proof. unfold attr_w_req. nce_tac. Qed.
#[local] Hint Resolve attr_w_req_nce : nce.
Lemma attr_r_req_nce e n : nce (attr_r_req e n).
Proof. unfold attr_r_req. nce_tac. Qed.
#[local] Hint Resolve attr_r_req_nce : nce.
Lemma children_w_nce e ks n : nce (children_w e ks n).
Proof. unfold children_w. nce_tac. Qed.
#[local] Hint Resolve children_w_nce : nce.
Lemma sub_val_of_nce t : nce (sub_val_of t).
Proof. unfold sub_val_of. nce_tac. Qed.
#[local] Hint Resolve sub_val_of_nce : nce.
Lemma gather_Pr_nce e ks : nce (gather_Pr e ks).
Proof. unfold gather_Pr. nce_tac. Qed.
#[local] Hint Resolve gather_Pr_nce : nce.
Lemma get_pStyle_nce e ks : nce (get_pStyle e ks).
Proof. unfold get_pStyle. nce_tac. Qed.
#[local] Hint Resolve get_pStyle_nce : nce.
Lemma eval_fpart_nce tag val p : nce (eval_fpart tag val p).
Proof. unfold eval_fpart. nce_tac. Qed.
#[local] Hint Resolve eval_fpart_nce : nce.
Lemma eval_fexpr_nce f tag val : nce (eval_fexpr f tag val).
Proof. unfold eval_fexpr. nce_tac. Qed.
#[local] Hint Resolve eval_fexpr_nce : nce.
Lemma format_Pr_into_html_nce pr x2h : nce (format_Pr_into_html pr x2h).
Proof. unfold format_Pr_into_html. nce_tac. Qed.
#[local] Hint Resolve format_Pr_into_html_nce : nce.
Lemma get_run_formatting_nce e ks x : nce (get_run_formatting e ks x).
Proof. unfold get_run_formatting. nce_tac. Qed.
#[local] Hint Resolve get_run_formatting_nce : nce.
Lemma get_paragraph_formatting_nce e ks x : nce (get_paragraph_formatting e ks x).
Proof. unfold get_paragraph_formatting. nce_tac. Qed.
#[local] Hint Resolve get_paragraph_formatting_nce : nce.
Lemma first_word_nce s : nce (first_word s).
Proof. unfold first_word. nce_tac. Qed.
#[local] Hint Resolve first_word_nce : nce.
Lemma close_toks_nce st : nce (close_toks st).
Proof. unfold close_toks. nce_tac. Qed.
#[local] Hint Resolve close_toks_nce : nce.
Lemma run_toks_nce r : nce (run_toks r).
Proof. unfold run_toks. nce_tac. Qed.
#[local] Hint Resolve run_toks_nce : nce.
Lemma par_run_toks_nce p : nce (par_run_toks p).
Proof. unfold par_run_toks. nce_tac. Qed.
#[local] Hint Resolve par_run_toks_nce : nce.
Lemma par_run_strings_nce h p : nce (par_run_strings h p).
Proof. unfold par_run_strings. nce_tac. Qed.
#[local] Hint Resolve par_run_strings_nce : nce.

Lemma pars_at_SS d l :
  pars_at (S (S d)) l
  = (xs <- mapM (fun n => match n with NL l' => pars_at (S d) l' | NP _ => Err TypeError end)
                (rev l) ;; Ok (concat xs)).
Proof. reflexivity. Qed.

Lemma pars_at_nce : forall d l, nce (pars_at d l).
Proof.
  induction d as [|d IH]; intro l.
  - simpl. discriminate.
  - destruct d as [|d'].
    + cbn [pars_at]. apply nce_mapM. intro n. destruct n; simpl; [discriminate|exact I].
    + rewrite pars_at_SS. apply nce_bind; [|intro; exact I].
      apply nce_mapM. intro n. destruct n as [l'|p]; [apply IH|simpl; discriminate].
Qed.
#[local] Hint Resolve pars_at_nce : nce.

Lemma count_runs_nce v s : nce (count_runs v s).
Proof. unfold count_runs. nce_tac. Qed.
#[local] Hint Resolve count_runs_nce : nce.
Lemma tree_par_toks_nce l : nce (tree_par_toks l).
Proof. unfold tree_par_toks. nce_tac. Qed.
#[local] Hint Resolve tree_par_toks_nce : nce.
Lemma lower_letter_nce z : nce (lower_letter z).
Proof. unfold lower_letter. nce_tac. Qed.
#[local] Hint Resolve lower_letter_nce : nce.
Lemma upper_letter_nce z : nce (upper_letter z).
Proof. unfold upper_letter. nce_tac. Qed.
#[local] Hint Resolve upper_letter_nce : nce.
Lemma lower_roman_nce z : nce (lower_roman z).
Proof. unfold lower_roman. nce_tac. Qed.
#[local] Hint Resolve lower_roman_nce : nce.
Lemma upper_roman_nce z : nce (upper_roman z).
Proof. unfold upper_roman. nce_tac. Qed.
#[local] Hint Resolve upper_roman_nce : nce.
Lemma apply_numfn_nce f z : nce (apply_numfn f z).
Proof. unfold apply_numfn, decimal, bullet. nce_tac. Qed.
#[local] Hint Resolve apply_numfn_nce : nce.
Lemma render_num_nce f z :
  nce (match apply_numfn f z with Err ValueError => decimal z | r => r end).
Proof.
  pose proof (apply_numfn_nce f z) as H.
  destruct (apply_numfn f z) as [b|x]; [exact H|].
  destruct x; try exact H. exact I.
Qed.
#[local] Hint Resolve render_num_nce : nce.
Lemma get_bullet_nce tbl fmt number : nce (get_bullet tbl fmt number).
Proof.
  unfold get_bullet.
  destruct fmt as [[a|] [b|]]; destruct number as [n|]; try exact I.
  cbv zeta. apply nce_bind; [apply render_num_nce|].
  intro x. apply nce_bind; [apply nce_of_opt; discriminate|]. intro y. exact I.
Qed.
#[local] Hint Resolve get_bullet_nce : nce.
Lemma get_checkBox_entry_nce e ks : nce (get_checkBox_entry e ks).
Proof. unfold get_checkBox_entry. nce_tac. Qed.
#[local] Hint Resolve get_checkBox_entry_nce : nce.
Lemma get_ddList_entry_nce e ks : nce (get_ddList_entry e ks).
Proof. unfold get_ddList_entry. nce_tac. Qed.
#[local] Hint Resolve get_ddList_entry_nce : nce.

(* ================================================================== *)
(* Primitives of the collector                                          *)
(* ================================================================== *)
Lemma commence_paragraph_good v elem s : Inv s -> good Inv (commence_paragraph v elem s).
Proof.
  intro H. unfold commence_paragraph.
  apply good_bind with (Q := Inv).
  { apply set_caret_good; [|exact H]. intros d Hd. injection Hd as <-. unfold par_depth. lia. }
  intros s1 I1.
  apply good_bind with (Q := any). { nce_tac. }
  intros hs _.
  apply good_bind with (Q := any). { nce_tac. }
  intros ps _. exact I1.
Qed.

Lemma conclude_paragraph_good s : Inv s -> good Inv (conclude_paragraph s).
Proof.
  intro H. unfold conclude_paragraph.
  destruct (c_open s) as [|p rest]; [exact H|].
  destruct (set_caret_inv 4%nat None (set_open rest s)) as (s1 & E & I1 & D1 & _);
    [lia|apply set_open_inv; exact H|].
  unfold par_depth. rewrite E. cbn [bind].
  destruct I1 as (T & R & S). rewrite D1 in S.
  destruct (spine_app_ok 4%nat 1%nat (NP p) (c_tree s1) S T) as (l' & E' & F & S1 & _);
    [reflexivity|].
  rewrite E'. cbn [bind]. unfold good, Inv. simpl. rewrite D1.
  split; [exact F|]. split; [lia|exact S1].
Qed.

Lemma ensure_par_good v s : Inv s -> good Inv (ensure_par v s).
Proof.
  intro H. unfold ensure_par. destruct (c_open s); [apply commence_paragraph_good|]; exact H.
Qed.

Lemma upd_open_runs_good v f s : Inv s -> good Inv (upd_open_runs v f s).
Proof.
  intro H. unfold upd_open_runs.
  apply good_bind with (Q := Inv); [apply ensure_par_good; exact H|].
  intros s1 I1. destruct (c_open s1); [simpl; discriminate|exact I1].
Qed.

Lemma commence_run_good v st s : Inv s -> good Inv (commence_run v st s).
Proof. apply upd_open_runs_good. Qed.
Lemma add_toks_good v ts s : Inv s -> good Inv (add_toks v ts s).
Proof. apply upd_open_runs_good. Qed.
Lemma add_text_into_open_run_good v txt s : Inv s -> good Inv (add_text_into_open_run v txt s).
Proof. apply add_toks_good. Qed.
Lemma add_code_into_open_run_good v ts s : Inv s -> good Inv (add_code_into_open_run v ts s).
Proof. apply add_toks_good. Qed.
Lemma insert_text_as_new_run_good v ts s : Inv s -> good Inv (insert_text_as_new_run v ts s).
Proof. apply upd_open_runs_good. Qed.

Lemma queue_run_for_next_paragraph_inv ts s : Inv s -> Inv (queue_run_for_next_paragraph ts s).
Proof. intro H; exact H. Qed.

Lemma start_comment_range_good v id s : Inv s -> good Inv (start_comment_range v id s).
Proof.
  intro H. unfold start_comment_range.
  apply good_bind with (Q := any); [nce_tac|]. intros n _. exact H.
Qed.

Lemma end_comment_range_good v id s : Inv s -> good Inv (end_comment_range v id s).
Proof.
  intro H. unfold end_comment_range.
  destruct (dict_get id (c_ranges s)) as [[b c]|]; [|exact H].
  apply good_bind with (Q := any); [nce_tac|]. intros n _. exact H.
Qed.

(* the same facts in "Inv s -> f s = Ok s' -> Inv s'" form *)
Lemma commence_paragraph_inv v elem s s' :
  Inv s -> commence_paragraph v elem s = Ok s' -> Inv s'.
Proof. intros H E. exact (good_ok_inv _ _ _ (commence_paragraph_good v elem s H) E). Qed.
Lemma conclude_paragraph_inv s s' : Inv s -> conclude_paragraph s = Ok s' -> Inv s'.
Proof. intros H E. exact (good_ok_inv _ _ _ (conclude_paragraph_good s H) E). Qed.
Lemma ensure_par_inv v s s' : Inv s -> ensure_par v s = Ok s' -> Inv s'.
Proof. intros H E. exact (good_ok_inv _ _ _ (ensure_par_good v s H) E). Qed.
Lemma upd_open_runs_inv v f s s' : Inv s -> upd_open_runs v f s = Ok s' -> Inv s'.
Proof. intros H E. exact (good_ok_inv _ _ _ (upd_open_runs_good v f s H) E). Qed.
Lemma commence_run_inv v st s s' : Inv s -> commence_run v st s = Ok s' -> Inv s'.
Proof. apply upd_open_runs_inv. Qed.
Lemma add_toks_inv v ts s s' : Inv s -> add_toks v ts s = Ok s' -> Inv s'.
Proof. apply upd_open_runs_inv. Qed.
Lemma add_text_into_open_run_inv v txt s s' :
  Inv s -> add_text_into_open_run v txt s = Ok s' -> Inv s'.
Proof. apply add_toks_inv. Qed.
Lemma add_code_into_open_run_inv v ts s s' :
  Inv s -> add_code_into_open_run v ts s = Ok s' -> Inv s'.
Proof. apply add_toks_inv. Qed.
Lemma insert_text_as_new_run_inv v ts s s' :
  Inv s -> insert_text_as_new_run v ts s = Ok s' -> Inv s'.
Proof. apply upd_open_runs_inv. Qed.
Lemma start_comment_range_inv v id s s' : Inv s -> start_comment_range v id s = Ok s' -> Inv s'.
Proof. intros H E. exact (good_ok_inv _ _ _ (start_comment_range_good v id s H) E). Qed.
Lemma end_comment_range_inv v id s s' : Inv s -> end_comment_range v id s = Ok s' -> Inv s'.
Proof. intros H E. exact (good_ok_inv _ _ _ (end_comment_range_good v id s H) E). Qed.

(* ================================================================== *)
(* close_table_cell                                                     *)
(* ================================================================== *)
Lemma copy_node_shape : forall n d, shapeb d (copy_node n) = shapeb d n.
Proof.
  fix IH 1. intros [l|p] d.
  - cbn [copy_node]. rewrite !shapeb_NL. f_equal.
    induction l as [|x l IHl]; [reflexivity|].
    cbn [map forallb]. rewrite IH, IHl. reflexivity.
  - reflexivity.
Qed.

Lemma py_get_In {A} (l : list A) i x : py_get l i = Some x -> In x l.
Proof.
  unfold py_get. destruct (Nat.leb (length l) i); [discriminate|]. apply nth_error_In.
Qed.

Lemma py_nth_In {A} (l : list A) i x : py_nth l i = Some x -> In x l.
Proof.
  unfold py_nth. cbv zeta.
  match goal with |- (if ?c then _ else _) = _ -> _ => destruct c end;
    [discriminate|]. apply nth_error_In.
Qed.

Definition hd_ok {A} (Q : A -> Prop) (l : list A) : Prop :=
  match l with x :: _ => Q x | [] => False end.

Lemma upd_nth_forallb {A} (P : A -> bool) (f : A -> res A) :
  (forall x y, P x = true -> f x = Ok y -> P y = true) ->
  forall l n l', forallb P l = true -> upd_nth n f l = Ok l' -> forallb P l' = true.
Proof.
  intro Hf. induction l as [|x r IH]; intros n l' HP H.
  - destruct n; discriminate H.
  - cbn [forallb] in HP. apply andb_true_iff in HP. destruct HP as [Px Pr].
    destruct n as [|k]; cbn [upd_nth] in H; apply bind_ok_inv in H;
      destruct H as (y & E & H); injection H as <-; cbn [forallb].
    + rewrite (Hf x y Px E), Pr. reflexivity.
    + rewrite Px, (IH k y Pr E). reflexivity.
Qed.

Lemma upd_nth_head {A} (Q : A -> Prop) (f : A -> res A) :
  (forall x y, Q x -> f x = Ok y -> Q y) ->
  forall l n l', hd_ok Q l -> upd_nth n f l = Ok l' -> hd_ok Q l'.
Proof.
  intros Hf l n l' HQ H. destruct l as [|x r]; [destruct HQ|].
  destruct n as [|k]; cbn [upd_nth] in H; apply bind_ok_inv in H;
    destruct H as (y & E & H); injection H as <-; simpl in *.
  - apply (Hf x y HQ E).
  - exact HQ.
Qed.

Lemma upd_nth_nce {A} (f : A -> res A) :
  (forall x, nce (f x)) -> forall l n, nce (upd_nth n f l).
Proof.
  intro Hf. induction l as [|x r IH]; intro n.
  - destruct n; simpl; discriminate.
  - destruct n as [|k]; cbn [upd_nth].
    + apply nce_bind; [apply Hf|intro; exact I].
    + apply nce_bind; [apply IH|intro; exact I].
Qed.

Lemma py_upd_forallb {A} (P : A -> bool) (f : A -> res A) l i l' :
  (forall x y, P x = true -> f x = Ok y -> P y = true) ->
  forallb P l = true -> py_upd l i f = Ok l' -> forallb P l' = true.
Proof.
  intros Hf HP. unfold py_upd. destruct (Nat.leb (length l) i); [discriminate|].
  apply upd_nth_forallb; assumption.
Qed.

Lemma py_upd_head {A} (Q : A -> Prop) (f : A -> res A) l i l' :
  (forall x y, Q x -> f x = Ok y -> Q y) ->
  hd_ok Q l -> py_upd l i f = Ok l' -> hd_ok Q l'.
Proof.
  intros Hf HQ. unfold py_upd. destruct (Nat.leb (length l) i); [discriminate|].
  apply upd_nth_head; assumption.
Qed.

Lemma py_upd_nce {A} (f : A -> res A) l i : (forall x, nce (f x)) -> nce (py_upd l i f).
Proof.
  intro Hf. unfold py_upd. destruct (Nat.leb (length l) i); [simpl; discriminate|].
  apply upd_nth_nce; exact Hf.
Qed.

Lemma as_list_nce n : nce (as_list n).
Proof. destruct n; simpl; [exact I|discriminate]. Qed.
#[local] Hint Resolve as_list_nce : nce.

Lemma get_row_nce root ti ri : nce (get_row root ti ri).
Proof. unfold get_row. nce_tac. Qed.
#[local] Hint Resolve get_row_nce : nce.

Lemma upd_row_nce root ti ri f : (forall cs, nce (f cs)) -> nce (upd_row root ti ri f).
Proof.
  intro Hf. unfold upd_row. apply py_upd_nce. intro t.
  apply nce_bind; [apply as_list_nce|intro rows].
  apply nce_bind; [|intro; exact I].
  apply py_upd_nce. intro r.
  apply nce_bind; [apply as_list_nce|intro cells].
  apply nce_bind; [apply Hf|intro; exact I].
Qed.

Lemma upd_row_tree root ti ri f root' :
  tree_ok root ->
  (forall cs cs', forallb (shapeb 3%nat) cs = true -> f cs = Ok cs' ->
                  forallb (shapeb 3%nat) cs' = true) ->
  upd_row root ti ri f = Ok root' -> tree_ok root'.
Proof.
  unfold tree_ok, upd_row. intros HT Hf H.
  eapply py_upd_forallb; [|exact HT|exact H].
  clear H. intros x y Px Hx. cbv beta in Hx.
  apply bind_ok_inv in Hx. destruct Hx as (rows & Er & Hx).
  destruct x as [l|p]; [|discriminate Er]. simpl in Er. injection Er as <-.
  apply bind_ok_inv in Hx. destruct Hx as (rows' & E2 & Hx). injection Hx as <-.
  rewrite shapeb_NL in Px. apply andb_true_iff in Px. destruct Px as [Hlt Hl].
  rewrite shapeb_NL, Hlt. cbn [andb].
  eapply py_upd_forallb; [|exact Hl|exact E2].
  clear E2. intros x y Px Hx. cbv beta in Hx.
  apply bind_ok_inv in Hx. destruct Hx as (cells & Er & Hx).
  destruct x as [l2|p]; [|discriminate Er]. simpl in Er. injection Er as <-.
  apply bind_ok_inv in Hx. destruct Hx as (cells' & E3 & Hx). injection Hx as <-.
  rewrite shapeb_NL in Px. apply andb_true_iff in Px. destruct Px as [Hlt2 Hl2].
  rewrite shapeb_NL, Hlt2. cbn [andb].
  apply (Hf l2 cells' Hl2 E3).
Qed.

Definition is_NL (n : node) : Prop := match n with NL _ => True | NP _ => False end.
Definition is_NL2 (n : node) : Prop := match n with NL l => hd_ok is_NL l | NP _ => False end.

Lemma spine3_hd l : spine_ok 3%nat l <-> hd_ok is_NL2 l.
Proof.
  destruct l as [|[[|[l2|p2] r1]|p] r]; simpl; tauto.
Qed.

Lemma upd_row_spine root ti ri f root' :
  spine_ok 3%nat root -> upd_row root ti ri f = Ok root' -> spine_ok 3%nat root'.
Proof.
  intros HS H. apply spine3_hd. apply spine3_hd in HS. unfold upd_row in H.
  eapply py_upd_head; [|exact HS|exact H].
  clear H. intros x y Qx Hx. cbv beta in Hx.
  apply bind_ok_inv in Hx. destruct Hx as (rows & Er & Hx).
  destruct x as [l|p]; [|discriminate Er]. simpl in Er. injection Er as <-.
  apply bind_ok_inv in Hx. destruct Hx as (rows' & E2 & Hx). injection Hx as <-.
  simpl in Qx |- *.
  eapply py_upd_head; [|exact Qx|exact E2].
  clear E2. intros x y Qx2 Hx. cbv beta in Hx.
  apply bind_ok_inv in Hx. destruct Hx as (cells & Er & Hx).
  apply bind_ok_inv in Hx. destruct Hx as (cells' & E3 & Hx). injection Hx as <-.
  exact I.
Qed.

Lemma upd_row_good sa ti ri f :
  Inv sa -> c_depth sa = 3%nat ->
  (forall cs, nce (f cs)) ->
  (forall cs cs', forallb (shapeb 3%nat) cs = true -> f cs = Ok cs' ->
                  forallb (shapeb 3%nat) cs' = true) ->
  good (fun root' => Inv (set_tree root' sa)) (upd_row (c_tree sa) ti ri f).
Proof.
  intros (T & R & S) D Hn Hf. rewrite D in S.
  destruct (upd_row (c_tree sa) ti ri f) as [root'|ex] eqn:E.
  - unfold good, Inv. simpl. rewrite D.
    split; [exact (upd_row_tree _ _ _ _ _ T Hf E)|].
    split; [lia|]. exact (upd_row_spine _ _ _ _ _ S E).
  - pose proof (upd_row_nce (c_tree sa) ti ri f Hn) as N. rewrite E in N. exact N.
Qed.

Lemma tree_ok_cells root rows cells :
  tree_ok root -> In (NL rows) root -> In (NL cells) rows ->
  forallb (shapeb 3%nat) cells = true.
Proof.
  unfold tree_ok. intros T I1 I2.
  pose proof (proj1 (forallb_forall _ _) T _ I1) as H1.
  rewrite shapeb_NL in H1. apply andb_true_iff in H1. destruct H1 as [_ H1].
  pose proof (proj1 (forallb_forall _ _) H1 _ I2) as H2.
  rewrite shapeb_NL in H2. apply andb_true_iff in H2. destruct H2 as [_ H2].
  exact H2.
Qed.

Lemma close_table_cell_good v e ks s : Inv s -> good Inv (close_table_cell v e ks s).
Proof.
  intro H. unfold close_table_cell.
  apply good_bind with (Q := any); [nce_tac|]. intros pr _. cbv zeta.
  (* the two early returns of the repaired _close_table_cell *)
  destruct (c_tree s) as [|tb0 root0] eqn:Eroot0; [exact H|]. rewrite <- Eroot0.
  apply good_bind with (Q := any); [nce_tac|]. intros rows0 _.
  destruct rows0 as [|rb0 rows1] eqn:Erows1; [exact H|]. rewrite <- Erows1.
  apply good_bind with (Q := any); [nce_tac|]. intros _ _.
  apply good_bind with (Q := Inv).
  { match goal with |- good Inv (if ?c then _ else _) => destruct c end; [|exact H].
    destruct (set_caret_inv 3%nat None s) as (sa & E & Ia & Da & _); [lia|exact H|].
    rewrite E. cbn [bind].
    destruct (py_get (c_tree sa) (length (c_tree s) - 1)) as [t|] eqn:Eg;
      [|simpl; discriminate].
    cbn [of_opt bind].
    destruct t as [rows|p]; [|simpl; discriminate]. cbn [as_list bind].
    destruct rows as [|r0 [|p rest]]; try (simpl; discriminate).
    destruct p as [prev|p]; [|simpl; discriminate]. cbn [as_list bind].
    apply good_bind with (Q := any); [nce_tac|]. intros cells _.
    cbv zeta. destruct cells as [|c0 cr].
    { exact Ia. }
    match goal with |- context [py_nth ?a ?b] => destruct (py_nth a b) as [src|] eqn:Esrc end;
      [|exact Ia].
    apply good_bind with (Q := fun root' => Inv (set_tree root' sa)).
    2:{ intros root' Hr. exact Hr. }
    apply upd_row_good; [exact Ia|exact Da| |].
    - intros [|c r]; simpl; [discriminate|exact I].
    - intros [|c r] cs' Hc Hf; [discriminate Hf|]. injection Hf as <-.
      cbn [forallb] in Hc |- *. apply andb_true_iff in Hc. destruct Hc as [_ Hc].
      rewrite Hc, andb_true_r, copy_node_shape.
      apply py_nth_In in Esrc. apply in_rev in Esrc. apply py_get_In in Eg.
      destruct Ia as (T & _).
      pose proof (tree_ok_cells _ _ prev T Eg (or_intror (or_introl eq_refl))) as Hp.
      exact (proj1 (forallb_forall _ _) Hp _ Esrc). }
  intros s1 I1.
  apply good_bind with (Q := any); [nce_tac|]. intros span _.
  generalize (Z.to_nat (span - 1)). intro n. revert s1 I1.
  induction n as [|k IH]; intros s1 I1; [exact I1|].
  cbv beta iota.
  destruct (set_caret_inv 3%nat None s1) as (sa & E & Ia & Da & _); [lia|exact I1|].
  rewrite E. cbn [bind].
  apply good_bind with (Q := fun root' => Inv (set_tree root' sa)).
  2:{ intros root' Hr. apply IH. exact Hr. }
  apply upd_row_good; [exact Ia|exact Da| |].
  - intro cs. destruct (env_dup v); [|exact I]. destruct cs; simpl; exact I.
  - intros cs cs' Hc Hf. destruct (env_dup v).
    + destruct cs as [|c r]; [injection Hf as <-; reflexivity|]. injection Hf as <-.
      cbn [forallb] in Hc |- *. rewrite copy_node_shape.
      apply andb_true_iff in Hc. destruct Hc as [Hc1 Hc2]. rewrite Hc1, Hc2. reflexivity.
    + injection Hf as <-. cbn [forallb]. rewrite Hc. reflexivity.
Qed.

Lemma close_table_cell_inv v e ks s s' : Inv s -> close_table_cell v e ks s = Ok s' -> Inv s'.
Proof. intros H E. exact (good_ok_inv _ _ _ (close_table_cell_good v e ks s H) E). Qed.

(* ================================================================== *)
(* open_tag / close_tag                                                 *)
(* ================================================================== *)
Ltac inv_side := first [assumption | apply set_counters_inv; assumption
                        | apply set_open_inv; assumption
                        | apply queue_run_for_next_paragraph_inv; assumption].
Ltac inv_prim :=
  first [ apply insert_text_as_new_run_good | apply commence_run_good
        | apply end_comment_range_good | apply start_comment_range_good
        | apply add_text_into_open_run_good | apply add_code_into_open_run_good
        | apply commence_paragraph_good ]; inv_side.

Ltac caret_absurd :=
  exfalso;
  match goal with
  | E : ?r = Err CaretDepthError |- _ =>
      let N := fresh "N" in
      assert (N : nce r) by nce_tac; rewrite E in N; exact (N eq_refl)
  end.

Ltac og_step :=
  match goal with
  | |- good _ (if ?c then _ else _) => destruct c
  | |- good _ (match ?x with _ => _ end) => destruct x eqn:?
  | |- good _ (Ok (_, _)) => apply good_ok; cbn [fst]; inv_side
  | |- good _ (Err _) => first [simpl; discriminate | caret_absurd]
  | |- good _ (bind _ _) =>
      first [ apply good_bind with (Q := Inv); [inv_prim | intros ? ?]
            | apply good_bind with (Q := any); [solve [nce_tac] | intros ? _] ]
  end.

Definition Inv1 (p : cst * bool) : Prop := Inv (fst p).

Lemma note_label_good v kind e s : Inv s -> good Inv1 (note_label v kind e s).
Proof. intro H. unfold note_label, Inv1. repeat og_step. Qed.

Lemma note_ref_good v kind e s : Inv s -> good Inv1 (note_ref v kind e s).
Proof. intro H. unfold note_ref, Inv1. repeat og_step. Qed.

Lemma image_ref_good v rid s : nce rid -> Inv s -> good Inv1 (image_ref v rid s).
Proof.
  intros N H. unfold image_ref, Inv1. destruct rid as [id|x].
  - repeat og_step.
  - destruct x; try (simpl; discriminate); [exact H|exact N].
Qed.

Lemma open_tag_good v path t e ks body s :
  Inv s -> good Inv1 (open_tag v path t e ks body s).
Proof.
  intro H. unfold open_tag. cbv zeta.
  repeat match goal with
         | |- good _ (if ?c then _ else _) => destruct c
         end;
    try (apply note_label_good; exact H);
    try (apply note_ref_good; exact H);
    try (apply image_ref_good; [nce_tac|exact H]);
    unfold Inv1; repeat og_step.
Qed.

Lemma close_tag_good v e ks s : Inv s -> good Inv (close_tag v e ks s).
Proof.
  intro H. unfold close_tag. cbv zeta.
  destruct (str_eqb (e_ptag e) tag_PARAGRAPH); [apply conclude_paragraph_good; exact H|].
  destruct (str_eqb (e_ptag e) tag_RUN); [apply commence_run_good; exact H|].
  destruct (str_eqb (e_ptag e) tag_TABLE_CELL); [apply close_table_cell_good; exact H|].
  exact H.
Qed.

Lemma open_tag_inv v path t e ks body s s' b :
  Inv s -> open_tag v path t e ks body s = Ok (s', b) -> Inv s'.
Proof.
  intros H E. exact (good_ok_inv Inv1 _ _ (open_tag_good v path t e ks body s H) E).
Qed.
Lemma close_tag_inv v e ks s s' : Inv s -> close_tag v e ks s = Ok s' -> Inv s'.
Proof. intros H E. exact (good_ok_inv _ _ _ (close_tag_good v e ks s H) E). Qed.

Lemma finish_good v s : Inv s -> good Inv (finish v s).
Proof.
  intro H. unfold finish.
  apply good_bind with (Q := Inv).
  { destruct (c_queued s); [exact H|apply commence_paragraph_good; exact H]. }
  intros s1 I1. apply conclude_paragraph_good. exact I1.
Qed.

(* ================================================================== *)
(* The walk                                                             *)
(* ================================================================== *)
Lemma anode_ind' (P : anode -> Prop) :
  (forall tl, P (AX tl)) -> (forall e ks, Forall P ks -> P (AE e ks)) -> forall t, P t.
Proof.
  intros HX HE.
  refine (fix IH (t : anode) : P t :=
            match t with
            | AX tl => HX tl
            | AE e ks =>
                HE e ks ((fix go (l : list anode) : Forall P l :=
                            match l with
                            | [] => Forall_nil P
                            | k :: r => Forall_cons k (IH k) (go r)
                            end) ks)
            end).
Qed.

(* the two local loops of [walk], named *)
Section Loops.
  Variables (v : env) (path : list nat).
  Fixpoint below_loop (l : list anode) (i : nat) : res (list tok) :=
    match l with
    | [] => Ok []
    | k :: r =>
        sk <- walk v (i :: path) k init_cst ;;
        sk' <- finish v sk ;;
        ps <- tree_par_toks (c_tree sk') ;;
        rest <- below_loop r (S i) ;;
        Ok (join_toks par_sep ps ++ rest)
    end.
  Fixpoint kids_loop (l : list anode) (i : nat) (s : cst) : res cst :=
    match l with
    | [] => Ok s
    | k :: r => s' <- walk v (i :: path) k s ;; kids_loop r (S i) s'
    end.
End Loops.

Lemma walk_AE v path e ks s :
  walk v path (AE e ks) s =
  (let d := elem_depth (AE e ks) in
   s1 <- set_caret d (Some (e_local e)) s ;;
   body <- (if str_eqb (e_ptag e) tag_HYPERLINK then below_loop v path ks O else Ok []) ;;
   '(s2, recurse) <- open_tag v path (AE e ks) e ks body s1 ;;
   s3 <- (if recurse : bool then kids_loop v path ks O s2 else Ok s2) ;;
   s4 <- close_tag v e ks s3 ;;
   set_caret d None s4).
Proof. reflexivity. Qed.

Definition walk_good_at (v : env) (t : anode) : Prop :=
  forall path s, Inv s -> good Inv (walk v path t s).

Lemma below_loop_nce v path ks :
  Forall (walk_good_at v) ks -> forall i, nce (below_loop v path ks i).
Proof.
  induction 1 as [|k r Hk Hr IH]; intro i; cbn [below_loop].
  - exact I.
  - apply good_bind with (Q := Inv); [apply Hk; exact init_inv|]. intros sk Ik.
    apply good_bind with (Q := Inv); [apply finish_good; exact Ik|]. intros sk' Ik'.
    apply nce_bind; [apply tree_par_toks_nce|]. intro ps.
    apply nce_bind; [apply IH|]. intro rest. exact I.
Qed.

Lemma kids_loop_good v path ks :
  Forall (walk_good_at v) ks -> forall i s, Inv s -> good Inv (kids_loop v path ks i s).
Proof.
  induction 1 as [|k r Hk Hr IH]; intros i s Hs; cbn [kids_loop].
  - exact Hs.
  - apply good_bind with (Q := Inv); [apply Hk; exact Hs|]. intros s' Hs'.
    apply IH. exact Hs'.
Qed.

Lemma walk_good v : forall t, walk_good_at v t.
Proof.
  apply anode_ind'.
  - intros tl path s Hs. exact Hs.
  - intros e ks HF path s Hs. rewrite walk_AE. cbv zeta.
    apply good_bind with (Q := Inv).
    { apply set_caret_good; [apply elem_depth_range|exact Hs]. }
    intros s1 I1.
    apply good_bind with (Q := any).
    { destruct (str_eqb (e_ptag e) tag_HYPERLINK); [apply below_loop_nce; exact HF|exact I]. }
    intros body _.
    apply good_bind with (Q := Inv1); [apply open_tag_good; exact I1|].
    intros [s2 rec] I2. unfold Inv1 in I2. cbn [fst] in I2.
    apply good_bind with (Q := Inv).
    { destruct rec; [apply kids_loop_good; assumption|exact I2]. }
    intros s3 I3.
    apply good_bind with (Q := Inv); [apply close_tag_good; exact I3|].
    intros s4 I4.
    apply set_caret_good; [apply elem_depth_range|exact I4].
Qed.

Lemma walk_inv : forall v t path s s', Inv s -> walk v path t s = Ok s' -> Inv s'.
Proof. intros v t path s s' H E. exact (good_ok_inv _ _ _ (walk_good v t path s H) E). Qed.

Lemma finish_inv : forall v s s', Inv s -> finish v s = Ok s' -> Inv s'.
Proof. intros v s s' H E. exact (good_ok_inv _ _ _ (finish_good v s H) E). Qed.

Lemma collect_good v path t : good Inv (collect_from v path t).
Proof.
  unfold collect_from.
  apply good_bind with (Q := Inv); [apply walk_good; exact init_inv|].
  intros s Hs. apply finish_good. exact Hs.
Qed.

Lemma collect_shape : forall v path t s, collect_from v path t = Ok s -> tree_ok (c_tree s).
Proof.
  intros v path t s E. exact (proj1 (good_ok_inv _ _ _ (collect_good v path t) E)).
Qed.

Lemma walk_no_caret_error : forall v t path s, Inv s -> walk v path t s <> Err CaretDepthError.
Proof. intros v t path s H. exact (good_not_caret _ _ (walk_good v t path s H)). Qed.

Lemma collect_no_caret_error : forall v path t, collect_from v path t <> Err CaretDepthError.
Proof. intros v path t. exact (good_not_caret _ _ (collect_good v path t)). Qed.

(* ================================================================== *)
(* The final (oldest-first) tree                                        *)
(* ================================================================== *)
Lemma forallb_rev {A} (P : A -> bool) l : forallb P (rev l) = forallb P l.
Proof.
  induction l as [|x l IH]; [reflexivity|].
  cbn [rev forallb]. rewrite forallb_app, IH. cbn [forallb].
  rewrite andb_true_r. apply andb_comm.
Qed.

Lemma unrev_node_shape : forall n d, shapeb d (unrev n) = shapeb d n.
Proof.
  fix IH 1. intros [l|p] d.
  - cbn [unrev]. rewrite !shapeb_NL. f_equal. rewrite forallb_rev.
    induction l as [|x l IHl]; [reflexivity|].
    cbn [map forallb]. rewrite IH, IHl. reflexivity.
  - reflexivity.
Qed.

Lemma unrev_shape : forall l, tree_ok l -> tree_ok (unrev_list l).
Proof.
  unfold tree_ok, unrev_list. intros l H. rewrite forallb_rev.
  induction l as [|x l IH]; [reflexivity|].
  cbn [map forallb] in H |- *. apply andb_true_iff in H. destruct H as [Hx Hl].
  rewrite unrev_node_shape, Hx, (IH Hl). reflexivity.
Qed.

(* paragraphs of a collected tree, in final order, sit at depth 4 *)
Lemma collect_unrev_shape : forall v path t s,
  collect_from v path t = Ok s -> tree_ok (unrev_list (c_tree s)).
Proof. intros v path t s E. apply unrev_shape. exact (collect_shape v path t s E). Qed.

Print Assumptions init_inv.
Print Assumptions set_caret_inv.
Print Assumptions elem_depth_range.
Print Assumptions commence_paragraph_inv.
Print Assumptions conclude_paragraph_inv.
Print Assumptions ensure_par_inv.
Print Assumptions upd_open_runs_inv.
Print Assumptions commence_run_inv.
Print Assumptions add_toks_inv.
Print Assumptions add_text_into_open_run_inv.
Print Assumptions add_code_into_open_run_inv.
Print Assumptions insert_text_as_new_run_inv.
Print Assumptions queue_run_for_next_paragraph_inv.
Print Assumptions start_comment_range_inv.
Print Assumptions end_comment_range_inv.
Print Assumptions close_table_cell_inv.
Print Assumptions open_tag_inv.
Print Assumptions close_tag_inv.
Print Assumptions anode_ind'.
Print Assumptions walk_inv.
Print Assumptions finish_inv.
Print Assumptions collect_shape.
Print Assumptions unrev_shape.
Print Assumptions collect_unrev_shape.
Print Assumptions walk_no_caret_error.
Print Assumptions collect_no_caret_error.
