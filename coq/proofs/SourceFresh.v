(* SourceFresh.v — the string views AS TRANSLATED FROM THE SOURCE TEXT with the heap embedding
   (gen/SourceHeapViews.v: html_open, html_close, Run.__str__, Par.run_strings, get_par_strings,
   _join_runs) return FRESH lists and modify nothing that existed before the call.

   C14: "The lists returned by the string-level attributes are fresh on every read, so mutating a
   returned value never changes a later read".  X_runs = get_par_strings(X_pars) and
   X = _join_runs(X_runs): every list in the returned structure, at every level, is allocated
   during the call, the leaves are strings (immutable), and no heap cell that existed before
   the call is changed - in particular not the collector's record tree. *)
From Coq Require Import List NArith ZArith Bool Arith Lia.
From D2P Require Import Str Err PyVal PyHeap SourceHeapViews.
Import ListNotations.

(* no existing cell is modified: the heap only grows *)
Definition extends (h h' : heap) : Prop := exists extra, h' = h ++ extra.

(* every reference occurring in a value points below n *)
Fixpoint okv (n : nat) (v : pv) {struct v} : bool :=
  let fix all (l : list pv) : bool := match l with [] => true | x :: r => okv n x && all r end in
  let fix allp (l : list (pv * pv)) : bool :=
    match l with [] => true | (a, b) :: r => okv n a && okv n b && allp r end in
  let fix allf (l : list (str * pv)) : bool :=
    match l with [] => true | (_, b) :: r => okv n b && allf r end in
  match v with
  | VRef a => Nat.ltb a n
  | VList l | VTuple l => all l
  | VDict d l => match d with Some x => okv n x | None => true end && allp l
  | VObj _ fs => allf fs
  | _ => true
  end.
Definition oko (n : nat) (o : hobj) : bool :=
  match o with
  | HList l => forallb (okv n) l
  | HObj _ fs => forallb (fun kv => okv n (snd kv)) fs
  end.
(* a heap without dangling references *)
Definition heap_ok (h : heap) : Prop := forall a o, h_get a h = Some o -> oko (length h) o = true.

(* a value built, k list levels deep, only from lists allocated at or after address n0, with
   string leaves *)
Fixpoint fresh (k : nat) (n0 : nat) (h : heap) (v : pv) : Prop :=
  match k with
  | O => exists s, v = VStr s
  | S k' => exists a l, v = VRef a /\ (n0 <= a)%nat /\ h_get a h = Some (HList l)
                        /\ Forall (fresh k' n0 h) l
  end.

(* ================= heap facts ================= *)
Lemma h_set_length : forall h a o, length (h_set a o h) = length h.
Proof. induction h; intros [|a'] o; simpl; auto. Qed.

Lemma h_get_set_same : forall h a o, (a < length h)%nat -> h_get a (h_set a o h) = Some o.
Proof.
  unfold h_get. induction h; intros [|a'] o Hl; simpl in *; try lia; auto.
  apply IHh. lia.
Qed.

Lemma h_get_set_other : forall h a b o, a <> b -> h_get b (h_set a o h) = h_get b h.
Proof.
  unfold h_get. induction h; intros [|a'] [|b'] o Hn; simpl; auto; try congruence;
  try (apply IHh; congruence).
Qed.

Lemma h_get_lt : forall a h o, h_get a h = Some o -> (a < length h)%nat.
Proof. unfold h_get; intros. apply nth_error_Some. congruence. Qed.

Lemma h_get_app1 : forall a h ex o, h_get a h = Some o -> h_get a (h ++ ex) = Some o.
Proof.
  intros. pose proof (h_get_lt _ _ _ H). unfold h_get in *. rewrite nth_error_app1; auto.
Qed.

Lemma h_get_app_new : forall h o ex, h_get (length h) (h ++ o :: ex) = Some o.
Proof. intros; unfold h_get. rewrite nth_error_app2 by lia. rewrite Nat.sub_diag. reflexivity. Qed.

Lemma h_set_app_r : forall h ex a o, (length h <= a)%nat ->
  h_set a o (h ++ ex) = h ++ h_set (a - length h) o ex.
Proof.
  induction h; intros; simpl.
  - rewrite Nat.sub_0_r; auto.
  - destruct a0; simpl in *; [lia|]. f_equal. apply IHh. lia.
Qed.

Lemma extends_refl : forall h, extends h h.
Proof. intros; exists []; rewrite app_nil_r; auto. Qed.
Lemma extends_app : forall h hc ex, extends h hc -> extends h (hc ++ ex).
Proof. intros h hc ex [e ->]. exists (e ++ ex). rewrite app_assoc; auto. Qed.
Lemma extends_set : forall h hc c o, extends h hc -> (length h <= c)%nat -> extends h (h_set c o hc).
Proof. intros h hc c o [e ->] L. rewrite h_set_app_r by auto. eexists; eauto. Qed.
Lemma extends_trans : forall a b c, extends a b -> extends b c -> extends a c.
Proof. intros a b c [e ->] [f ->]. exists (e ++ f). rewrite app_assoc; auto. Qed.

(* ================= A. operations that do not touch the heap ================= *)
Definition hpure {A} (m : hm A) (Q : A -> Prop) : Prop :=
  forall h r h', m h = HOk r h' -> h' = h /\ Q r.
Definition anyv {A} (_ : A) : Prop := True.
Definition isstr (v : pv) : Prop := exists s, v = VStr s.

Lemma hpure_weaken : forall {A} (m : hm A) (P Q : A -> Prop),
  hpure m P -> (forall a, P a -> Q a) -> hpure m Q.
Proof. unfold hpure; intros. apply H in H1. destruct H1; split; auto. Qed.
Lemma hpure_ret : forall {A} (a : A) (Q : A -> Prop), Q a -> hpure (hret a) Q.
Proof. unfold hpure, hret; intros. inversion H0; subst; auto. Qed.
Lemma hpure_lift : forall {A} (r : res A) (Q : A -> Prop),
  (forall a, r = Ok a -> Q a) -> hpure (hlift r) Q.
Proof. unfold hpure, hlift; intros. destruct r; inversion H0; subst; auto. Qed.
Lemma hpure_lift_any : forall {A} (r : res A), hpure (hlift r) anyv.
Proof. intros; apply hpure_lift; unfold anyv; auto. Qed.
Lemma hpure_bind : forall {A B} (m : hm A) (k : A -> hm B) (P : A -> Prop) (Q : B -> Prop),
  hpure m P -> (forall a, P a -> hpure (k a) Q) -> hpure (hbind m k) Q.
Proof.
  unfold hpure, hbind; intros. destruct (m h) eqn:E; [|discriminate].
  apply H in E. destruct E as [-> Pa]. eapply H0; eauto.
Qed.
Lemma hpure_getattr : forall o n, hpure (hy_getattr o n) anyv.
Proof.
  unfold hpure, hy_getattr, anyv; intros.
  destruct o; try discriminate.
  - destruct (field_get n fields); inversion H; auto.
  - destruct (h_get a h) as [[|]|]; try discriminate.
    destruct (field_get n fields); inversion H; auto.
Qed.
Lemma hy_items_pure : forall x hc l h1, hy_items x hc = HOk l h1 -> h1 = hc.
Proof.
  unfold hy_items; intros. destruct x; try discriminate; try (inversion H; auto; fail).
  destruct (h_get a hc) as [[|]|]; inversion H; auto.
Qed.
Lemma hpure_items : forall x, hpure (hy_items x) anyv.
Proof. unfold hpure, anyv; intros. apply hy_items_pure in H; auto. Qed.
Lemma hpure_truth : forall x, hpure (hy_truth x) anyv.
Proof.
  unfold hpure, hy_truth, anyv; intros.
  destruct x; try (inversion H; auto; fail).
  destruct (h_get a h) as [[|]|]; inversion H; auto.
Qed.
Lemma hpure_index : forall x i, hpure (hy_index x i) anyv.
Proof.
  intros. unfold hy_index. eapply hpure_bind; [apply hpure_items|]. intros l _.
  destruct (int_like i); [|intros ? ? ? H; discriminate].
  destruct (norm_index (length l) z); [|intros ? ? ? H; discriminate].
  destruct (nth_error l n); [|intros ? ? ? H; discriminate].
  apply hpure_ret; exact I.
Qed.
Lemma hpure_reversed : forall x, hpure (hy_reversed x) anyv.
Proof.
  intros. unfold hy_reversed. eapply hpure_bind; [apply hpure_items|]. intros; apply hpure_ret; exact I.
Qed.
Lemma hpure_join : forall sep it, hpure (hy_join sep it) isstr.
Proof.
  intros. unfold hy_join. destruct sep; try (intros ? ? ? H; discriminate).
  eapply hpure_bind; [apply hpure_items|]. intros l _.
  apply hpure_lift. intros a H. destruct (strs_of l); simpl in H; inversion H. eexists; eauto.
Qed.
Lemma hpure_comp_go : forall cond body (P : pv -> Prop) l,
  (forall x, In x l -> hpure (cond x) anyv) ->
  (forall x, In x l -> hpure (body x) (Forall P)) ->
  hpure (hcomp_go cond body l) (Forall P).
Proof.
  induction l; simpl; intros Hc Hb.
  - apply hpure_ret; constructor.
  - eapply hpure_bind; [apply Hc; auto|]. intros c _. destruct c.
    + eapply hpure_bind; [apply Hb; auto|]. intros ys Hys.
      eapply hpure_bind; [apply IHl; auto|]. intros rest Hr.
      apply hpure_ret. apply Forall_app; auto.
    + apply IHl; auto.
Qed.
Lemma hpure_comp : forall it cond body (R : list pv -> Prop) (P : pv -> Prop),
  hpure (hy_items it) R ->
  (forall l, R l -> forall x, In x l -> hpure (cond x) anyv) ->
  (forall l, R l -> forall x, In x l -> hpure (body x) (Forall P)) ->
  hpure (hy_comp it cond body) (Forall P).
Proof.
  intros. unfold hy_comp. eapply hpure_bind; [exact H|]. intros l Rl.
  apply hpure_comp_go; eauto.
Qed.
Lemma hpure_halways : forall x, hpure (halways x) anyv.
Proof. intros; apply hpure_ret; exact I. Qed.

(* blocks that only return *)
Definition bpure {S} (b : hb S) (Q : pv -> Prop) : Prop :=
  forall h, match b h with HNx _ _ => False | HRt v h' => h' = h /\ Q v | HEx _ _ => True end.
Lemma bpure_binde : forall {A S} (m : hm A) (k : A -> hb S) (P : A -> Prop) Q,
  hpure m P -> (forall a, P a -> bpure (k a) Q) -> bpure (hbinde m k) Q.
Proof.
  unfold bpure, hbinde; intros. destruct (m h) eqn:E; auto.
  apply H in E. destruct E as [-> Pa]. apply H0; auto.
Qed.
Lemma bpure_hrt : forall {S} v (Q : pv -> Prop), Q v -> bpure (S:=S) (hrt v) Q.
Proof. unfold bpure, hrt; intros; auto. Qed.
Lemma hpure_fn_result : forall {S} (b : hb S) Q, bpure b Q -> hpure (hfn_result b) Q.
Proof.
  unfold bpure, hpure, hfn_result; intros. specialize (H h).
  destruct (b h); try discriminate; try contradiction. inversion H0; subst; auto.
Qed.

Lemma py_str_isstr : forall v a, py_str v = Ok a -> isstr a.
Proof. destruct v; simpl; intros; inversion H; eexists; eauto. Qed.
Lemma py_add_str_l : forall s b r, py_add (VStr s) b = Ok r -> isstr r.
Proof. destruct b; simpl; intros; inversion H; eexists; eauto. Qed.

Lemma html_open_hpure : forall x, hpure (S_HV_html_open x) isstr.
Proof.
  intros. unfold S_HV_html_open. apply hpure_fn_result.
  eapply bpure_binde.
  { eapply hpure_comp with (R := anyv) (P := anyv); [apply hpure_items| |].
    - intros; apply hpure_halways.
    - intros. eapply hpure_bind; [apply hpure_lift_any|]. intros t1 _.
      eapply hpure_bind; [apply hpure_lift_any|]. intros t2 _.
      eapply hpure_bind; [apply hpure_lift_any|]. intros t3 _.
      apply hpure_ret. repeat constructor. }
  intros t4 _. eapply bpure_binde; [apply hpure_join|]. intros t5 H5.
  apply bpure_hrt; auto.
Qed.

Lemma html_close_hpure : forall x, hpure (S_HV_html_close x) isstr.
Proof.
  intros. unfold S_HV_html_close. apply hpure_fn_result.
  eapply bpure_binde.
  { eapply hpure_bind; [apply hpure_reversed|]. intros t1 _.
    eapply hpure_comp with (R := anyv) (P := anyv); [apply hpure_items| |].
    - intros; apply hpure_halways.
    - intros. eapply hpure_bind; [apply hpure_lift_any|]. intros t2 _.
      eapply hpure_bind; [apply hpure_index|]. intros t3 _.
      eapply hpure_bind; [apply hpure_lift_any|]. intros t4 _.
      eapply hpure_bind; [apply hpure_lift_any|]. intros t5 _.
      eapply hpure_bind; [apply hpure_lift_any|]. intros t6 _.
      apply hpure_ret. repeat constructor. }
  intros t7 _. eapply bpure_binde; [apply hpure_join|]. intros t8 H8.
  apply bpure_hrt; auto.
Qed.

Lemma run_str_hpure : forall x, hpure (S_HV_Run__str x) isstr.
Proof.
  intros. unfold S_HV_Run__str. apply hpure_fn_result.
  eapply bpure_binde; [apply hpure_getattr|]. intros t1 _.
  eapply bpure_binde; [apply hpure_truth|]. intros t2 _.
  destruct t2.
  - eapply bpure_binde; [apply hpure_getattr|]. intros t3 _.
    eapply bpure_binde; [apply html_open_hpure|]. intros t4 [s4 ->].
    eapply bpure_binde; [apply hpure_getattr|]. intros t5 _.
    eapply bpure_binde; [apply hpure_lift; intros a Ha; exact (py_add_str_l _ _ _ Ha)|].
    intros t6 [s6 ->].
    eapply bpure_binde; [apply hpure_getattr|]. intros t7 _.
    eapply bpure_binde; [apply html_close_hpure|]. intros t8 [s8 ->].
    eapply bpure_binde; [apply hpure_lift; intros a Ha; exact (py_add_str_l _ _ _ Ha)|].
    intros t9 H9. apply bpure_hrt; auto.
  - apply bpure_hrt. eexists; eauto.
Qed.

Lemma str_hpure : forall x, hpure (S_HV_str x) isstr.
Proof.
  intros x h r h' H. unfold S_HV_str in H.
  destruct x; try (apply (hpure_lift _ isstr (py_str_isstr _)) in H; exact H).
  destruct (h_get a h) as [[|c fs]|]; try discriminate.
  destruct (str_eqb c _); [|discriminate].
  apply run_str_hpure in H; auto.
Qed.

(* the helpers build strings and touch nothing *)
Theorem hv_html_open_pure : forall x h v h',
  S_HV_html_open x h = HOk v h' -> h' = h /\ exists s, v = VStr s.
Proof. intros. apply html_open_hpure in H. exact H. Qed.

Theorem hv_html_close_pure : forall x h v h',
  S_HV_html_close x h = HOk v h' -> h' = h /\ exists s, v = VStr s.
Proof. intros. apply html_close_hpure in H. exact H. Qed.

Theorem hv_str_pure : forall x h v h',
  S_HV_str x h = HOk v h' -> h' = h /\ exists s, v = VStr s.
Proof. intros. apply str_hpure in H. exact H. Qed.

(* what freshness buys: writing into any cell of the returned structure (any address at or
   after the old heap size) leaves every old cell as it was *)
Theorem fresh_mutation_harmless : forall h h' a o b,
  extends h h' -> (length h <= a)%nat -> (b < length h)%nat ->
  h_get b (h_set a o h') = h_get b h.
Proof.
  intros h h' a o b [ex ->] La Lb.
  rewrite h_get_set_other by lia. unfold h_get. apply nth_error_app1; auto.
Qed.

(* ================= B. Par.run_strings ================= *)
Lemma fn_binde_inv : forall {A S} (m : hm A) (k : A -> hb S) h v h',
  hfn_result (hbinde m k) h = HOk v h' ->
  exists a h1, m h = HOk a h1 /\ hfn_result (k a) h1 = HOk v h'.
Proof. unfold hfn_result, hbinde. intros. destruct (m h); [eauto | discriminate]. Qed.

Lemma par_comp_hpure : forall p,
  hpure (hbind (hbind (hy_getattr p ([114;117;110;115]%N))
                 (fun t1 => hy_comp t1 halways (fun v_y => hbind (S_HV_str v_y) (fun t2 => hret [t2]))))
           (fun t3 => hy_comp (VTuple t3) (fun v_x => hy_truth v_x) (fun v_x => hret [v_x])))
        (Forall isstr).
Proof.
  intros. eapply hpure_bind with (P := Forall isstr).
  - eapply hpure_bind; [apply hpure_getattr|]. intros t1 _.
    eapply hpure_comp with (R := anyv); [apply hpure_items| |].
    + intros; apply hpure_halways.
    + intros. eapply hpure_bind; [apply str_hpure|]. intros t2 H2.
      apply hpure_ret. repeat constructor; auto.
  - intros t3 H3.
    eapply hpure_comp with (R := fun l => l = t3).
    + intros h r h' H. inversion H; auto.
    + intros; apply hpure_truth.
    + intros l -> x Hx. apply hpure_ret. constructor; [|constructor].
      rewrite Forall_forall in H3; auto.
Qed.

Lemma hy_new_list_eq : forall l h, hy_new_list l h = HOk (VRef (length h)) (h ++ [HList l]).
Proof. reflexivity. Qed.

(* Par.run_strings: a new list of strings *)
Theorem hv_par_run_strings_fresh : forall p h v h',
  S_HV_Par_run_strings p h = HOk v h' ->
  extends h h' /\ fresh 1 (length h) h' v.
Proof.
  intros p h v h' H. unfold S_HV_Par_run_strings in H.
  apply fn_binde_inv in H. destruct H as (t4 & h1 & E4 & H).
  apply par_comp_hpure in E4. destruct E4 as [-> F4].
  apply fn_binde_inv in H. destruct H as (t5 & h2 & E5 & H).
  rewrite hy_new_list_eq in E5. inversion E5; subst t5 h2; clear E5.
  apply fn_binde_inv in H. destruct H as (t6 & h3 & E6 & H).
  apply hpure_getattr in E6. destruct E6 as [-> _].
  apply fn_binde_inv in H. destruct H as (t7 & h4 & E7 & H).
  apply hpure_truth in E7. destruct E7 as [-> _].
  destruct t7.
  - apply fn_binde_inv in H. destruct H as (t8 & h5 & E8 & H).
    apply hpure_getattr in E8. destruct E8 as [-> _].
    apply fn_binde_inv in H. destruct H as (t9 & h6 & E9 & H).
    apply html_open_hpure in E9. destruct E9 as [-> S9].
    apply fn_binde_inv in H. destruct H as (t10 & h7 & E10 & H).
    unfold hy_items in E10. rewrite h_get_app_new in E10. inversion E10; subst t10 h7; clear E10.
    apply fn_binde_inv in H. destruct H as (t11 & h8 & E11 & H).
    apply hpure_getattr in E11. destruct E11 as [-> _].
    apply fn_binde_inv in H. destruct H as (t12 & h9 & E12 & H).
    apply html_close_hpure in E12. destruct E12 as [-> S12].
    apply fn_binde_inv in H. destruct H as (t13 & h10 & E13 & H).
    rewrite hy_new_list_eq in E13. inversion E13; subst t13 h10; clear E13.
    unfold hfn_result, hrt in H. inversion H; subst v h'; clear H.
    split.
    + eexists. rewrite <- app_assoc. reflexivity.
    + simpl. eexists _, _. split; [reflexivity|]. split; [rewrite app_length; lia|].
      split; [apply h_get_app_new|].
      simpl. constructor; [exact S9|]. apply Forall_app; split; [exact F4|].
      constructor; [exact S12|constructor].
  - unfold hfn_result, hrt in H. inversion H; subst v h'; clear H.
    split.
    + eexists; reflexivity.
    + simpl. eexists _, _. split; [reflexivity|]. split; [lia|].
      split; [apply h_get_app_new|]. exact F4.
Qed.

(* ================= C. the nested views ================= *)
(* like [fresh], with an upper bound on the addresses too: all lists of the structure lie in [lo, hi) *)
Fixpoint tree (k lo hi : nat) (h : heap) (v : pv) : Prop :=
  match k with
  | O => exists s, v = VStr s
  | S k' => exists a l, v = VRef a /\ (lo <= a)%nat /\ (a < hi)%nat /\ h_get a h = Some (HList l)
                        /\ Forall (tree k' lo hi h) l
  end.

Lemma tree_fresh : forall k lo hi h v, tree k lo hi h v -> fresh k lo h v.
Proof.
  induction k; simpl; intros; auto.
  destruct H as (a & l & -> & H1 & H2 & H3 & H4). exists a, l; repeat split; auto.
  eapply Forall_impl; [|exact H4]. intros; eapply IHk; eauto.
Qed.
Lemma fresh_tree : forall k lo h v, fresh k lo h v -> tree k lo (length h) h v.
Proof.
  induction k; simpl; intros; auto.
  destruct H as (a & l & -> & H1 & H3 & H4). exists a, l; repeat split; auto.
  - eapply h_get_lt; eauto.
  - eapply Forall_impl; [|exact H4]. intros; eapply IHk; eauto.
Qed.
Lemma tree_weaken : forall k lo hi lo' hi' h v, (lo' <= lo)%nat -> (hi <= hi')%nat ->
  tree k lo hi h v -> tree k lo' hi' h v.
Proof.
  induction k; simpl; intros; auto.
  destruct H1 as (a & l & -> & H1 & H2 & H3 & H4). exists a, l; repeat split; auto; try lia.
  eapply Forall_impl; [|exact H4]. intros; eapply IHk; eauto.
Qed.
Lemma tree_app : forall k lo hi h ex v, tree k lo hi h v -> tree k lo hi (h ++ ex) v.
Proof.
  induction k; simpl; intros; auto.
  destruct H as (a & l & -> & H1 & H2 & H3 & H4). exists a, l; repeat split; auto.
  - apply h_get_app1; auto.
  - eapply Forall_impl; [|exact H4]. intros; eapply IHk; eauto.
Qed.
Lemma tree_set : forall k lo hi h c o v, (c < lo \/ hi <= c)%nat ->
  tree k lo hi h v -> tree k lo hi (h_set c o h) v.
Proof.
  induction k; simpl; intros; auto.
  destruct H0 as (a & l & -> & H1 & H2 & H3 & H4). exists a, l; repeat split; auto.
  - rewrite h_get_set_other by lia. auto.
  - eapply Forall_impl; [|exact H4]. intros; eapply IHk; eauto.
Qed.

(* the last node of the rightmost path: a list of finished subtrees *)
Definition node_open (k a : nat) (hc : heap) : Prop :=
  exists L, h_get a hc = Some (HList L) /\ Forall (tree k (S a) (length hc) hc) L.
(* an inner node of the rightmost path: finished subtrees, then the next path node b *)
Definition node_mid (k a b : nat) (hc : heap) : Prop :=
  (a < b)%nat /\ exists L, h_get a hc = Some (HList (L ++ [VRef b])) /\ Forall (tree k (S a) b hc) L.

Lemma mid_app : forall k a b hc ex, node_mid k a b hc -> node_mid k a b (hc ++ ex).
Proof.
  intros k a b hc ex (Hl & L & G & F). split; auto. exists L. split; [apply h_get_app1; auto|].
  eapply Forall_impl; [|exact F]. intros; apply tree_app; auto.
Qed.
Lemma mid_set : forall k a b hc c o, node_mid k a b hc -> (b <= c)%nat -> node_mid k a b (h_set c o hc).
Proof.
  intros k a b hc c o (Hl & L & G & F) Hc. split; auto. exists L.
  split; [rewrite h_get_set_other by lia; auto|].
  eapply Forall_impl; [|exact F]. intros; apply tree_set; auto.
Qed.
Lemma open_app : forall k a hc ex, node_open k a hc -> node_open k a (hc ++ ex).
Proof.
  intros k a hc ex (L & G & F). exists L. split; [apply h_get_app1; auto|].
  eapply Forall_impl; [|exact F]. intros. apply tree_app.
  eapply tree_weaken; [| |exact H]; auto. rewrite app_length; lia.
Qed.
Lemma open_append : forall k a hc v, node_open k a hc -> tree k (S a) (length hc) hc v ->
  exists o, hy_append (VRef a) v hc = HOk tt (h_set a o hc) /\ node_open k a (h_set a o hc).
Proof.
  intros k a hc v (L & G & F) T. exists (HList (L ++ [v])). split.
  - unfold hy_append. rewrite G. reflexivity.
  - exists (L ++ [v]). split; [apply h_get_set_same; eapply h_get_lt; eauto|].
    rewrite h_set_length. apply Forall_app; split.
    + eapply Forall_impl; [|exact F]. intros; apply tree_set; auto.
    + constructor; [|constructor]. apply tree_set; auto.
Qed.
Lemma open_push : forall k a hc, node_open (S k) a hc ->
  exists o, hy_append (VRef a) (VRef (length hc)) (hc ++ [HList []])
            = HOk tt (h_set a o (hc ++ [HList []]))
         /\ node_mid (S k) a (length hc) (h_set a o (hc ++ [HList []]))
         /\ node_open k (length hc) (h_set a o (hc ++ [HList []])).
Proof.
  intros k a hc (L & G & F). pose proof (h_get_lt _ _ _ G) as Hlt.
  exists (HList (L ++ [VRef (length hc)])). split; [|split].
  - unfold hy_append. rewrite (h_get_app1 _ _ _ _ G). reflexivity.
  - split; auto. exists L. split.
    + apply h_get_set_same. rewrite app_length; lia.
    + eapply Forall_impl; [|exact F]. intros. apply tree_set; auto. apply tree_app; auto.
  - exists []. split; [|constructor].
    rewrite h_get_set_other by lia. apply h_get_app_new.
Qed.
Lemma node_close : forall k a b hc, node_mid (S k) a b hc -> node_open k b hc -> node_open (S k) a hc.
Proof.
  intros k a b hc (Hl & L & G & F) (Lb & Gb & Fb). pose proof (h_get_lt _ _ _ Gb) as Hb.
  exists (L ++ [VRef b]). split; auto. apply Forall_app; split.
  - eapply Forall_impl; [|exact F]. intros. eapply tree_weaken; [| |exact H]; lia.
  - constructor; [|constructor]. simpl. exists b, Lb. repeat split; auto; try lia.
    eapply Forall_impl; [|exact Fb]. intros. eapply tree_weaken; [| |exact H]; lia.
Qed.

Lemma norm_index_last : forall n, norm_index (S n) (-1) = Some n.
Proof.
  intros. unfold norm_index. change (0 <=? -1)%Z with false. cbv iota.
  destruct (Z.leb_spec 0 (Z.of_nat (S n) + -1)); [| lia]. f_equal. lia.
Qed.
Lemma hy_index_last : forall a hc L v, h_get a hc = Some (HList (L ++ [v])) ->
  hy_index (VRef a) (VInt (-1)%Z) hc = HOk v hc.
Proof.
  intros. unfold hy_index, hbind, hy_items. rewrite H. change (int_like (VInt (-1)%Z)) with (Some (-1)%Z). cbv iota.
  rewrite app_length. simpl length. rewrite Nat.add_1_r. rewrite norm_index_last.
  rewrite nth_error_app2 by lia. rewrite Nat.sub_diag. reflexivity.
Qed.
Lemma mid_index : forall k a b hc, node_mid k a b hc ->
  hy_index (VRef a) (VInt (-1)%Z) hc = HOk (VRef b) hc.
Proof. intros k a b hc (_ & L & G & _). eapply hy_index_last; eauto. Qed.

(* postconditions of blocks: falls through (never returns), invariant kept *)
Definition postb {S} (Q : heap -> Prop) (o : hout S) : Prop :=
  match o with HNx _ h' => Q h' | HRt _ _ => False | HEx _ _ => True end.
Lemma postb_binde : forall {A S} (m : hm A) (k : A -> hb S) Q hc,
  (forall a h1, m hc = HOk a h1 -> postb Q (k a h1)) -> postb Q (hbinde m k hc).
Proof. intros. unfold hbinde. destruct (m hc); simpl; auto. Qed.
Lemma postb_bindo : forall {S T} (b : hb S) (k : S -> hb T) (P Q : heap -> Prop) hc,
  postb P (b hc) -> (forall s h1, P h1 -> postb Q (k s h1)) -> postb Q (hbindo b k hc).
Proof. intros. unfold hbindo. destruct (b hc); simpl in *; auto. Qed.
Lemma postb_for : forall {S} (body : pv -> S -> hb S) (P : heap -> Prop),
  (forall x s hc, P hc -> postb P (body x s hc)) ->
  forall l s hc, P hc -> postb P (hfor_go body l s hc).
Proof.
  induction l; simpl; intros.
  - exact H0.
  - eapply postb_bindo; [apply H; auto|]. intros; apply IHl; auto.
Qed.
Lemma postb_hy_for : forall {S} it (body : pv -> S -> hb S) (P : heap -> Prop) s hc,
  (forall x s hc, P hc -> postb P (body x s hc)) -> P hc -> postb P (hy_for it body s hc).
Proof.
  intros. unfold hy_for. apply postb_binde. intros l h1 E.
  apply hy_items_pure in E; subst. apply postb_for; auto.
Qed.

(* both views are this function, up to the operation at the leaves *)
Open Scope pyh_scope.
Definition body4 (leaf : pv -> hm pv) (out : pv) : pv -> unit -> hb unit := fun v_par 'tt =>
  t11 <~ hy_index out (VInt (-1)%Z) ;;;
  t12 <~ hy_index t11 (VInt (-1)%Z) ;;;
  t13 <~ hy_index t12 (VInt (-1)%Z) ;;;
  t14 <~ leaf v_par ;;;
  t15 <~ hy_append t13 t14 ;;;
  hnx tt.
Definition body3 (leaf : pv -> hm pv) (out : pv) : pv -> unit -> hb unit := fun v_cell 'tt =>
  t7 <~ hy_index out (VInt (-1)%Z) ;;;
  t8 <~ hy_index t7 (VInt (-1)%Z) ;;;
  t9 <~ hy_new_list [] ;;;
  t10 <~ hy_append t8 t9 ;;;
  'tt <~~ hy_for v_cell (body4 leaf out) tt ;;;
  hnx tt.
Definition body2 (leaf : pv -> hm pv) (out : pv) : pv -> unit -> hb unit := fun v_row 'tt =>
  t4 <~ hy_index out (VInt (-1)%Z) ;;;
  t5 <~ hy_new_list [] ;;;
  t6 <~ hy_append t4 t5 ;;;
  'tt <~~ hy_for v_row (body3 leaf out) tt ;;;
  hnx tt.
Definition body1 (leaf : pv -> hm pv) (out : pv) : pv -> unit -> hb unit := fun v_tbl 'tt =>
  t2 <~ hy_new_list [] ;;;
  t3 <~ hy_append out t2 ;;;
  'tt <~~ hy_for v_tbl (body2 leaf out) tt ;;;
  hnx tt.
Definition gen_views (leaf : pv -> hm pv) (x : pv) : hm pv :=
  hfn_result (S:=unit) (
    t1 <~ hy_new_list [] ;;;
    'tt <~~ hy_for x (body1 leaf t1) tt ;;;
    hrt t1).
Close Scope pyh_scope.

Lemma get_par_strings_gen : forall x, S_HV_get_par_strings x = gen_views S_HV_Par_run_strings x.
Proof. reflexivity. Qed.
Lemma join_runs_gen : forall x, S_HV_join_runs x = gen_views (hy_join (VStr []%N)) x.
Proof. reflexivity. Qed.

Section Views.
Variable h0 : heap.
Variable d : nat.
Variable leaf : pv -> hm pv.
Hypothesis leaf_ok : forall p hc v hc', leaf p hc = HOk v hc' ->
  extends hc hc' /\ tree d (length hc) (length hc') hc' v.
Let n0 := length h0.

Definition Inv1 hc := extends h0 hc /\ node_open (S (S (S d))) n0 hc.
Definition Inv2 a1 hc := extends h0 hc /\ node_mid (S (S (S d))) n0 a1 hc /\ node_open (S (S d)) a1 hc.
Definition Inv3 a1 a2 hc := extends h0 hc /\ node_mid (S (S (S d))) n0 a1 hc
  /\ node_mid (S (S d)) a1 a2 hc /\ node_open (S d) a2 hc.
Definition Inv4 a1 a2 a3 hc := extends h0 hc /\ node_mid (S (S (S d))) n0 a1 hc
  /\ node_mid (S (S d)) a1 a2 hc /\ node_mid (S d) a2 a3 hc /\ node_open d a3 hc.

Lemma body4_ok : forall a1 a2 a3 x u hc, Inv4 a1 a2 a3 hc ->
  postb (Inv4 a1 a2 a3) (body4 leaf (VRef n0) x u hc).
Proof.
  intros a1 a2 a3 x [] hc (He & M1 & M2 & M3 & O). unfold body4.
  apply postb_binde; intros t11 h1 E. rewrite (mid_index _ _ _ _ M1) in E. inversion E; subst t11 h1; clear E.
  apply postb_binde; intros t12 h1 E. rewrite (mid_index _ _ _ _ M2) in E. inversion E; subst t12 h1; clear E.
  apply postb_binde; intros t13 h1 E. rewrite (mid_index _ _ _ _ M3) in E. inversion E; subst t13 h1; clear E.
  apply postb_binde; intros t14 h1 E. apply leaf_ok in E. destruct E as ((ex & ->) & T).
  pose proof M1 as (L1 & _). pose proof M2 as (L2 & _). pose proof M3 as (L3 & _).
  assert (La3 : (a3 < length hc)%nat) by (destruct O as (L & G & _); eapply h_get_lt; eauto).
  apply (open_app _ _ _ ex) in O.
  destruct (open_append _ _ _ t14 O) as (o & EA & O').
  { eapply tree_weaken; [| |exact T]; lia. }
  apply postb_binde; intros [] h1 E. rewrite EA in E. inversion E; subst h1; clear E.
  unfold hnx; simpl. split; [|split; [|split; [|split]]].
  - apply extends_set; [apply extends_app; auto|]. fold n0. lia.
  - apply mid_set; [apply mid_app; auto|lia].
  - apply mid_set; [apply mid_app; auto|lia].
  - apply mid_set; [apply mid_app; auto|lia].
  - exact O'.
Qed.

Lemma body3_ok : forall a1 a2 x u hc, Inv3 a1 a2 hc ->
  postb (Inv3 a1 a2) (body3 leaf (VRef n0) x u hc).
Proof.
  intros a1 a2 x [] hc (He & M1 & M2 & O). unfold body3.
  apply postb_binde; intros t7 h1 E. rewrite (mid_index _ _ _ _ M1) in E. inversion E; subst t7 h1; clear E.
  apply postb_binde; intros t8 h1 E. rewrite (mid_index _ _ _ _ M2) in E. inversion E; subst t8 h1; clear E.
  apply postb_binde; intros t9 h1 E. rewrite hy_new_list_eq in E. inversion E; subst t9 h1; clear E.
  pose proof M1 as (L1 & _). pose proof M2 as (L2 & _).
  destruct (open_push _ _ _ O) as (o & EA & M3 & O').
  apply postb_binde; intros [] h1 E. rewrite EA in E. inversion E; subst h1; clear E.
  eapply postb_bindo with (P := Inv4 a1 a2 (length hc)).
  - apply postb_hy_for; [intros; apply body4_ok; auto|].
    split; [|split; [|split; [|split]]]; auto.
    + apply extends_set; [apply extends_app; auto|]. fold n0. lia.
    + apply mid_set; [apply mid_app; auto|lia].
    + apply mid_set; [apply mid_app; auto|lia].
  - intros [] h1 (He' & M1' & M2' & M3' & O4). unfold hnx; simpl.
    split; [|split; [|split]]; auto.
    eapply node_close; eauto.
Qed.

Lemma body2_ok : forall a1 x u hc, Inv2 a1 hc ->
  postb (Inv2 a1) (body2 leaf (VRef n0) x u hc).
Proof.
  intros a1 x [] hc (He & M1 & O). unfold body2.
  apply postb_binde; intros t4 h1 E. rewrite (mid_index _ _ _ _ M1) in E. inversion E; subst t4 h1; clear E.
  apply postb_binde; intros t5 h1 E. rewrite hy_new_list_eq in E. inversion E; subst t5 h1; clear E.
  pose proof M1 as (L1 & _).
  destruct (open_push _ _ _ O) as (o & EA & M2 & O').
  apply postb_binde; intros [] h1 E. rewrite EA in E. inversion E; subst h1; clear E.
  eapply postb_bindo with (P := Inv3 a1 (length hc)).
  - apply postb_hy_for; [intros; apply body3_ok; auto|].
    split; [|split; [|split]]; auto.
    + apply extends_set; [apply extends_app; auto|]. fold n0. lia.
    + apply mid_set; [apply mid_app; auto|lia].
  - intros [] h1 (He' & M1' & M2' & O3). unfold hnx; simpl.
    split; [|split]; auto. eapply node_close; eauto.
Qed.

Lemma body1_ok : forall x u hc, Inv1 hc ->
  postb Inv1 (body1 leaf (VRef n0) x u hc).
Proof.
  intros x [] hc (He & O). unfold body1.
  apply postb_binde; intros t2 h1 E. rewrite hy_new_list_eq in E. inversion E; subst t2 h1; clear E.
  destruct (open_push _ _ _ O) as (o & EA & M1 & O').
  apply postb_binde; intros [] h1 E. rewrite EA in E. inversion E; subst h1; clear E.
  eapply postb_bindo with (P := Inv2 (length hc)).
  - apply postb_hy_for; [intros; apply body2_ok; auto|].
    split; [|split]; auto.
    apply extends_set; [apply extends_app; auto|]. fold n0. lia.
  - intros [] h1 (He' & M1' & O2). unfold hnx; simpl.
    split; auto. eapply node_close; eauto.
Qed.

Lemma gen_views_tree : forall x v h',
  gen_views leaf x h0 = HOk v h' ->
  extends h0 h' /\ tree (S (S (S (S d)))) n0 (length h') h' v.
Proof.
  intros x v h' H. unfold gen_views in H.
  apply fn_binde_inv in H. destruct H as (t1 & h1 & E & H).
  rewrite hy_new_list_eq in E. inversion E; subst t1 h1; clear E. fold n0 in H.
  assert (I1 : Inv1 (h0 ++ [HList []])).
  { split; [apply extends_app, extends_refl|]. exists []. split; [apply h_get_app_new|constructor]. }
  pose proof (postb_hy_for x (body1 leaf (VRef n0)) Inv1 tt _ body1_ok I1) as P.
  unfold hfn_result, hbindo in H.
  destruct (hy_for x (body1 leaf (VRef n0)) tt (h0 ++ [HList []])) as [[] h2|? ?|? ?];
    simpl in P; try contradiction; try discriminate.
  unfold hrt in H. inversion H; subst v h'; clear H.
  destruct P as (He & L & G & F). split; auto.
  exists n0, L. repeat split; auto. { eapply h_get_lt; eauto. }
  eapply Forall_impl; [|exact F]. intros. eapply tree_weaken; [| |exact H]; lia.
Qed.
End Views.

(* get_par_strings: five levels of new lists, strings at the leaves, nothing old modified *)
Theorem hv_get_par_strings_fresh : forall x h v h',
  heap_ok h -> okv (length h) x = true ->
  S_HV_get_par_strings x h = HOk v h' ->
  extends h h' /\ fresh 5 (length h) h' v.
Proof.
  intros x h v h' _ _ H. rewrite get_par_strings_gen in H.
  apply (gen_views_tree h 1 S_HV_Par_run_strings) in H.
  - destruct H as [He T]. split; auto. eapply tree_fresh; eauto.
  - intros p hc v0 hc' E. apply hv_par_run_strings_fresh in E. destruct E as [Ee Ef].
    split; auto. apply fresh_tree; auto.
Qed.

(* _join_runs: four levels of new lists, strings at the leaves *)
Theorem hv_join_runs_fresh : forall x h v h',
  heap_ok h -> okv (length h) x = true ->
  S_HV_join_runs x h = HOk v h' ->
  extends h h' /\ fresh 4 (length h) h' v.
Proof.
  intros x h v h' _ _ H. rewrite join_runs_gen in H.
  apply (gen_views_tree h 0 (hy_join (VStr []%N))) in H.
  - destruct H as [He T]. split; auto. eapply tree_fresh; eauto.
  - intros p hc v0 hc' E. apply hpure_join in E. destruct E as [-> S0].
    split; [apply extends_refl|exact S0].
Qed.

Print Assumptions hv_html_open_pure.
Print Assumptions hv_html_close_pure.
Print Assumptions hv_str_pure.
Print Assumptions hv_par_run_strings_fresh.
Print Assumptions hv_get_par_strings_fresh.
Print Assumptions hv_join_runs_fresh.
Print Assumptions fresh_mutation_harmless.
