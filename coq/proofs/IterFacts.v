(* IterFacts.v — lemmas about iterators.py's model (C20) *)
From Coq Require Import List Arith Lia Bool Sorting.Sorted.
From D2P Require Import Str Err Iter.
Import ListNotations.

Set Implicit Arguments.

Section Facts.
  Variable A : Type.

  (* every item above depth (S k) is a list *)
  Fixpoint wf (k : nat) (t : rose A) : Prop :=
    match t with
    | RA _ => False
    | RL l =>
        match k with
        | O => True
        | S k' => Forall (wf k') l
        end
    end.

  (* strict lexicographic order on addresses *)
  Inductive lex_lt : list nat -> list nat -> Prop :=
  | lex_nil : forall y ys, lex_lt [] (y :: ys)
  | lex_head : forall x y xs ys, x < y -> lex_lt (x :: xs) (y :: ys)
  | lex_tail : forall x xs ys, lex_lt xs ys -> lex_lt (x :: xs) (x :: ys).

  Lemma lex_lt_irrefl a : ~ lex_lt a a.
  Proof.
    induction a as [|x a IH]; intro H; inversion H; subst; try lia; auto.
  Qed.

  Lemma lex_lt_trans a b c : lex_lt a b -> lex_lt b c -> lex_lt a c.
  Proof.
    intros H; revert c; induction H; intros c Hc; inversion Hc; subst.
    - constructor.
    - constructor.
    - apply lex_head; lia.
    - apply lex_head; assumption.
    - apply lex_head; assumption.
    - apply lex_tail; auto.
  Qed.

  Lemma sorted_app (l1 l2 : list (list nat)) :
    StronglySorted lex_lt l1 -> StronglySorted lex_lt l2 ->
    (forall a b, In a l1 -> In b l2 -> lex_lt a b) ->
    StronglySorted lex_lt (l1 ++ l2).
  Proof.
    induction l1 as [|z zs IH]; intros H1 H2 H12; simpl; [exact H2|].
    inversion H1 as [|? ? Hs Hf]; subst. constructor.
    - apply IH; auto. intros a b Ha Hb. apply H12; [right|]; assumption.
    - rewrite Forall_forall in *. intros a Ha. apply in_app_or in Ha. destruct Ha as [Ha|Ha].
      + auto.
      + apply H12; [left; reflexivity|assumption].
  Qed.

  Definition spec_ok (k : nat) (t : rose A) (l : list (list nat * rose A)) : Prop :=
    (forall addr x, In (addr, x) l <-> (length addr = S k /\ index t addr = Some x))
    /\ StronglySorted lex_lt (map fst l).

  (* enumerate: depth 1 *)
  Lemma combine_seq_In (l : list (rose A)) i0 i x :
    In (i, x) (combine (seq i0 (length l)) l) <-> (i0 <= i /\ nth_error l (i - i0) = Some x).
  Proof.
    revert i0; induction l as [|y l IH]; intros i0; simpl.
    - split; [tauto|]. intros [_ H]. destruct (i - i0); discriminate.
    - split.
      + intros [H|H].
        * inversion H; subst. split; [lia|]. replace (i - i) with 0 by lia. reflexivity.
        * apply IH in H. destruct H as [H1 H2]. split; [lia|].
          replace (i - i0) with (S (i - S i0)) by lia. exact H2.
      + intros [H1 H2]. destruct (Nat.eq_dec i i0) as [->|Hne].
        * left. replace (i0 - i0) with 0 in H2 by lia. simpl in H2. congruence.
        * right. apply IH. split; [lia|].
          replace (i - i0) with (S (i - S i0)) in H2 by lia. exact H2.
  Qed.

  Lemma sorted_seq_addr (l : list (rose A)) i0 :
    StronglySorted lex_lt
      (map fst (map (fun ix : nat * rose A => ([fst ix], snd ix)) (combine (seq i0 (length l)) l))).
  Proof.
    revert i0; induction l as [|y l IH]; intros i0; simpl; constructor.
    - apply IH.
    - rewrite Forall_forall. intros a Ha.
      rewrite map_map in Ha. apply in_map_iff in Ha. destruct Ha as [[j x] [Hj Hin]].
      simpl in Hj. subst a. apply combine_seq_In in Hin. apply lex_head. lia.
  Qed.

  Lemma index_cons (l : list (rose A)) i r :
    index (RL l) (i :: r) = match nth_error l i with Some x => index x r | None => None end.
  Proof. reflexivity. Qed.

  (* the inner enumeration with running index *)
  Lemma enum_from_spec (inner : rose A -> res (list (list nat * rose A))) k :
    (forall t, wf k t -> exists l, inner t = Ok l /\ spec_ok k t l) ->
    forall (l : list (rose A)) i0, Forall (wf k) l ->
    exists r, enum_from inner i0 l = Ok r
      /\ (forall addr x, In (addr, x) r <->
            exists i rest, addr = i :: rest /\ i0 <= i /\ length rest = S k /\
               match nth_error l (i - i0) with Some y => index y rest = Some x | None => False end)
      /\ StronglySorted lex_lt (map fst r)
      /\ Forall (fun a => match a with i :: _ => i0 <= i | [] => False end) (map fst r).
  Proof.
    intros Hinner l; induction l as [|y l IH]; intros i0 Hwf; simpl.
    - exists []. repeat split; simpl; try constructor; try tauto.
      intros [i [rest [_ [_ [_ H]]]]]. destruct (i - i0); exact H.
    - inversion Hwf as [|? ? Hy Hl]; subst.
      destruct (Hinner y Hy) as [ys [Eys [Mys Sys]]].
      destruct (IH (S i0) Hl) as [r [Er [Mr [Sr Fr]]]].
      rewrite Eys; simpl. rewrite Er; simpl.
      eexists; split; [reflexivity|]. split; [|split].
      + intros addr x. rewrite in_app_iff. split.
        * intros [H|H].
          -- apply in_map_iff in H. destruct H as [[a' x'] [E Hin]]. simpl in E.
             inversion E; subst. apply Mys in Hin. destruct Hin as [L I].
             exists i0, a'. repeat split; auto. replace (i0 - i0) with 0 by lia. exact I.
          -- apply Mr in H. destruct H as [i [rest [E [Hle [L I]]]]].
             exists i, rest. repeat split; auto; try lia.
             replace (i - i0) with (S (i - S i0)) by lia. exact I.
        * intros [i [rest [E [Hle [L I]]]]]. subst addr.
          destruct (Nat.eq_dec i i0) as [->|Hne].
          -- left. replace (i0 - i0) with 0 in I by lia. simpl in I.
             apply in_map_iff. exists (rest, x). split; [reflexivity|]. apply Mys. auto.
          -- right. apply Mr. exists i, rest. repeat split; auto; try lia.
             replace (i - i0) with (S (i - S i0)) in I by lia. exact I.
      + rewrite map_app. rewrite map_map. simpl.
        (* sorted: (i0 :: a) for a in ys, then the rest with heads > i0 *)
        assert (Hs1 : StronglySorted lex_lt (map (fun x : list nat * rose A => i0 :: fst x) ys)).
        { clear - Sys. induction ys as [|z ys IHy]; simpl; constructor.
          - apply IHy. inversion Sys; assumption.
          - inversion Sys as [|? ? ? Hf]; subst. rewrite Forall_forall in *.
            intros a Ha. apply in_map_iff in Ha. destruct Ha as [w [Ew Hw]]. subst a.
            apply lex_tail. apply Hf. apply in_map. exact Hw. }
        apply sorted_app; auto.
        intros a b Ha Hb. apply in_map_iff in Ha. destruct Ha as [w [<- _]].
        rewrite Forall_forall in Fr. specialize (Fr b Hb).
        destruct b as [|j b]; [contradiction|]. apply lex_head. lia.
      + rewrite map_app, Forall_app. split.
        * rewrite map_map. simpl. rewrite Forall_forall. intros a Ha.
          apply in_map_iff in Ha. destruct Ha as [w [<- _]]. lia.
        * eapply Forall_impl; [|exact Fr]. intros [|j a]; simpl; [tauto|lia].
  Qed.

  Lemma enum_depth_spec k : forall t, wf k t -> exists l, enum_depth k t = Ok l /\ spec_ok k t l.
  Proof.
    induction k as [|k IH]; intros [l|a] Hwf; simpl in Hwf; try contradiction.
    - simpl. eexists; split; [reflexivity|]. split.
      + intros addr x. split.
        * intros H. apply in_map_iff in H. destruct H as [[i y] [E Hin]]. simpl in E.
          inversion E; subst. apply combine_seq_In in Hin. destruct Hin as [_ Hn].
          rewrite Nat.sub_0_r in Hn. split; [reflexivity|]. simpl. rewrite Hn. reflexivity.
        * intros [L I]. destruct addr as [|i [|? ?]]; simpl in L; try discriminate.
          simpl in I. destruct (nth_error l i) eqn:En; [|discriminate]. inversion I; subst.
          apply in_map_iff. exists (i, x). split; [reflexivity|].
          apply combine_seq_In. rewrite Nat.sub_0_r. split; [lia|assumption].
      + apply sorted_seq_addr.
    - simpl. destruct (enum_from_spec (enum_depth k) IH 0 Hwf) as [r [Er [Mr [Sr _]]]].
      exists r. split; [exact Er|]. split; [|exact Sr].
      intros addr x. rewrite Mr. split.
      + intros [i [rest [E [_ [L I]]]]]. subst. rewrite Nat.sub_0_r in I.
        split; [simpl; lia|]. rewrite index_cons. destruct (nth_error l i); [exact I|contradiction].
      + intros [L I]. destruct addr as [|i rest]; [discriminate|].
        exists i, rest. repeat split; try lia. { simpl in L. lia. }
        rewrite Nat.sub_0_r. rewrite index_cons in I. destruct (nth_error l i); [exact I|discriminate].
  Qed.

  Lemma strongly_sorted_nodup (l : list (list nat)) : StronglySorted lex_lt l -> NoDup l.
  Proof.
    induction 1 as [|a l Hs IH Hf]; constructor; auto.
    intro Hin. rewrite Forall_forall in Hf. apply (lex_lt_irrefl (Hf a Hin)).
  Qed.
End Facts.
