# /verif top-level: `make setup` builds the whole framework offline
setup:
	./tools/build.sh
	./tools/build_props.sh

clean:
	rm -rf build coq/extract/build coq/Makefile.coq coq/Makefile.coq.conf coq/.Makefile.coq.d
	find coq -name '*.vo' -o -name '*.vok' -o -name '*.vos' -o -name '*.glob' -o -name '.*.aux' | xargs rm -f
	rm -f coq/gen/Tables.v
.PHONY: setup clean
