setup:
	@echo "setup placeholder"
