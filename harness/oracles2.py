"""Direct oracles that need the source elements (evaluated through /repo's
public API on the package bytes): C02 paragraph text, C04 grids, C05 lineage,
C06 re-splitting, C10 markers, C12 comments."""
from __future__ import annotations

import copy
import io
import random
import re
import warnings
import zipfile

from lxml import etree

W_T = "http://schemas.openxmlformats.org/wordprocessingml/2006/main"
W_S = "http://purl.oclc.org/ooxml/wordprocessingml/main"


def open_doc(data, **kw):
    from docx2python import docx2python

    return docx2python(io.BytesIO(data), **kw)


def wq(root, local):
    return f"{{{root.nsmap.get('w')}}}{local}"


def local(e):
    return etree.QName(e).localname if isinstance(e.tag, str) else None


def ancestors(e):
    p = e.getparent()
    while p is not None:
        yield p
        p = p.getparent()


class Order(dict):
    """id(element proxy) -> document position; keeps the proxies alive so that ids stay valid"""

    def __init__(self, root):
        self.keep = list(root.iter())
        super().__init__((id(e), i) for i, e in enumerate(self.keep))


def file_pars(f):
    """(paragraph records of a content file that point into its tree, root)"""
    root = f.root_element
    order = Order(root)
    pars = [p for t in f.content for r in t for c in r for p in c]
    return pars, root, order


# ------------------------------------------------------------------ C05
def o_lineage(ctx):
    from docx2python.iterators import is_tbl, is_tc, is_tr

    out = []
    with warnings.catch_warnings():
        warnings.simplefilter("ignore")
        for html in (False, True):
            d = open_doc(ctx["data"], html=html)
            try:
                for f in d.docx_reader.files_of_type():
                    try:
                        pars, root, order = file_pars(f)
                    except Exception:  # noqa: BLE001
                        continue
                    for p in pars:
                        if p.elem is None or id(p.elem) not in order:
                            continue
                        if local(p.elem) != "p":
                            out.append(("par_elem", f"{f.path}: record points at <{local(p.elem)}>, not a paragraph"))
                            continue
                        anc = [local(a) for a in ancestors(p.elem)]
                        ppr = p.elem.find(wq(root, "pPr"))
                        st = ppr.find(wq(root, "pStyle")) if ppr is not None else None
                        style = (st.get(wq(root, "val")) or "") if st is not None else ""
                        if p.style != style:
                            out.append(("par_style", f"{f.path}: style {p.style!r}, source says {style!r}"))
                        if "tbl" not in anc:
                            if p.lineage[1] == "tbl":
                                out.append(("free_par_lineage", f"{f.path}: paragraph outside every table reports {p.lineage}"))
                        elif anc[:3] == ["tc", "tr", "tbl"] and anc.count("tbl") == 1:
                            if p.lineage != ("document", "tbl", "tr", "tc", "p"):
                                tbl_el = list(ancestors(p.elem))[2]
                                flat = not any(local(x) in ("tbl", "sdt") for x in tbl_el.iterdescendants()) and \
                                    not any(local(x) == "p" and any(local(y) == "p" for y in x.iterdescendants())
                                            for x in tbl_el.iterdescendants())
                                name = "cell_par_lineage" if flat else "cell_par_lineage_nested"
                                out.append((name, f"{f.path}: cell paragraph reports {p.lineage}"))
                                break
                    # predicates: true exactly for the extracted tables / rows / cells whose first
                    # paragraph comes from a source table
                    def from_table(p):
                        if p.elem is None or id(p.elem) not in order:
                            return None          # fill paragraph or copy: not decidable from the element
                        return "tbl" in [local(a) for a in ancestors(p.elem)]

                    def flat_ok(p):
                        # known findings D10/D21/D27 aside: only paragraphs whose lineage is intact
                        return p.lineage == ("document", "tbl", "tr", "tc", "p")
                    bad = None
                    for tbl in f.content:
                        items = [("table", is_tbl, tbl, [p for r in tbl for c in r for p in c][:1])]
                        for r in tbl:
                            items.append(("row", is_tr, r, [p for c in r for p in c][:1]))
                            for c in r:
                                items.append(("cell", is_tc, c, list(c)[:1]))
                        for kind, pred, item, first in items:
                            if not first:
                                if pred(item):
                                    bad = f"{kind} without paragraphs is reported as a table {kind}"
                                continue
                            src = from_table(first[0])
                            if src is None:
                                continue
                            got = bool(pred(item))
                            if got and not src:
                                bad = f"is_{kind} is True for a {kind} whose first paragraph is outside every table (lineage {first[0].lineage})"
                            elif not got and src and flat_ok(first[0]):
                                bad = f"is_{kind} is False for a {kind} of a source table"
                            if bad:
                                break
                        if bad:
                            break
                    if bad:
                        out.append(("table_predicates", f"{f.path}: {bad}"))
                if html:
                    from docx2python.utilities import get_headings  # noqa: F401
            finally:
                d.close()
    return out


def o_headings(ctx):
    """get_headings selects exactly the paragraphs whose style matches Heading\\d"""
    import os
    import tempfile

    from docx2python.utilities import get_headings

    out = []
    with warnings.catch_warnings():
        warnings.simplefilter("ignore")
        tmp = tempfile.mkdtemp(prefix="d2p_h_")
        try:
            p = os.path.join(tmp, "a.docx")
            open(p, "wb").write(ctx["data"])
            try:
                got = list(get_headings(p))
            except Exception as ex:  # noqa: BLE001
                return [("headings", f"get_headings raised {type(ex).__name__}")] if not ctx["per"][(True, True)].any_exc() else []
            d = open_doc(ctx["data"], html=True)
            try:
                exp = [q.run_strings for t in d.document_pars for r in t for c in r for q in c
                       if re.match(r"Heading\d", q.style)]
            finally:
                d.close()
            if got != exp:
                out.append(("headings", f"get_headings yields {len(got)} paragraphs, {len(exp)} have a Heading style"))
        finally:
            import shutil
            shutil.rmtree(tmp, ignore_errors=True)
    return out


# ------------------------------------------------------------------ C04
def expected_grid(tbl, root, dup):
    """expected cell texts (list of rows of lists of paragraph strings) of a flat source table"""
    q = lambda t: wq(root, t)  # noqa: E731
    rows_out = []
    prev = None
    for tr in tbl.findall(q("tr")):
        row = []
        for tc in tr.findall(q("tc")):
            pr = tc.find(q("tcPr"))
            g, cont = 1, False
            if pr is not None:
                gs, vm = pr.find(q("gridSpan")), pr.find(q("vMerge"))
                if gs is not None:
                    g = int(gs.get(q("val")))
                if vm is not None:
                    cont = vm.get(q("val")) in (None, "continue")
            own = ("own", tc)
            res = own
            if dup and cont and prev is not None and len(row) < len(prev):
                res = prev[len(row)]
            row.append(res)
            for _ in range(g - 1):
                row.append(res if dup else ("blank", None))
        rows_out.append(row)
        prev = row
    return rows_out


def o_grid(ctx):
    out = []
    with warnings.catch_warnings():
        warnings.simplefilter("ignore")
        for dup in (True, False):
            d = open_doc(ctx["data"], duplicate_merged_cells=dup)
            try:
                for f in d.docx_reader.files_of_type():
                    try:
                        content = f.content
                        root = f.root_element
                    except Exception:  # noqa: BLE001
                        continue
                    order = Order(root)
                    for tbl_out in content:
                        firsts = [p for r in tbl_out for c in r for p in c if p.elem is not None and id(p.elem) in order]
                        if not firsts:
                            continue
                        anc = list(ancestors(firsts[0].elem))
                        names = [local(a) for a in anc]
                        if names[:3] != ["tc", "tr", "tbl"] or names.count("tbl") != 1:
                            continue
                        src = anc[2]
                        # domain of C04: cells directly contain paragraphs only (no nested table / sdt /
                        # text box), every row spans the same number of columns
                        cells = [tc for tr in src.findall(wq(root, "tr")) for tc in tr.findall(wq(root, "tc"))]
                        if any(local(k) not in ("tcPr", "p", None) for tc in cells for k in tc) or \
                           any(local(x) == "p" for tc in cells for p in tc.findall(wq(root, "p")) for x in p.iterdescendants()) or \
                           any(not tc.findall(wq(root, "p")) for tc in cells):
                            continue
                        try:
                            exp = expected_grid(src, root, dup)
                        except (TypeError, ValueError):
                            continue
                        if len({len(r) for r in exp}) != 1:
                            continue
                        if len(tbl_out) != len(exp) or any(len(a) != len(b) for a, b in zip(tbl_out, exp)):
                            out.append(("grid_shape", f"{f.path}: extracted {[len(r) for r in tbl_out]} cells per row, "
                                        f"expected {[len(r) for r in exp]} (dup={dup})"))
                            return out
                        # the origin cell's own extracted paragraphs (identity of the source element)
                        own = {}
                        for ro in tbl_out:
                            for co in ro:
                                for p in co:
                                    if p.elem is not None and id(p.elem) in order:
                                        own.setdefault(id(p.elem.getparent()), []).append(p.run_strings)
                        for i, (ro, re_) in enumerate(zip(tbl_out, exp)):
                            for j, (co, ce) in enumerate(zip(ro, re_)):
                                if ce[0] == "blank":
                                    ok = len(co) == 1 and co[0].run_strings == [] and co[0].elem is None
                                else:
                                    want = own.get(id(ce[1]))
                                    ok = want is not None and [p.run_strings for p in co] == want
                                if not ok:
                                    out.append(("grid_content", f"{f.path}: cell ({i},{j}) does not hold the paragraphs of "
                                                f"the covering source cell (dup={dup})"))
                                    return out
            finally:
                d.close()
    return out


# ------------------------------------------------------------------ C06
def resplit(data: bytes, rng: random.Random) -> bytes:
    """cut text runs and hyperlinks into consecutive pieces with equal formatting / target and
    sprinkle non-content markup; everything else byte-identical"""
    zin = zipfile.ZipFile(io.BytesIO(data))
    bio = io.BytesIO()
    with zipfile.ZipFile(bio, "w", zipfile.ZIP_DEFLATED) as zout:
        for info in zin.infolist():
            blob = zin.read(info)
            name = info.filename
            if name.startswith("word/") and name.endswith(".xml") and "/" not in name[5:] and name not in (
                    "word/numbering.xml", "word/styles.xml", "word/comments.xml"):
                try:
                    root = etree.fromstring(blob)
                except etree.XMLSyntaxError:
                    zout.writestr(info, blob)
                    continue
                w = root.nsmap.get("w")
                if w:
                    q = lambda t: f"{{{w}}}{t}"  # noqa: E731
                    for r in list(root.iter(q("r"))):
                        kids = [k for k in r if isinstance(k.tag, str) and k.tag != q("rPr")]
                        parent = r.getparent()
                        if parent is None or len(kids) != 1 or kids[0].tag != q("t") or len(kids[0].text or "") < 2:
                            continue
                        if rng.random() < 0.5:
                            continue
                        t = kids[0]
                        cut = rng.randrange(1, len(t.text))
                        r2 = copy.deepcopy(r)
                        r2.tail = None
                        t2 = [k for k in r2 if isinstance(k.tag, str) and k.tag == q("t")][0]
                        t.text, t2.text = t.text[:cut], t.text[cut:]
                        for tt in (t, t2):
                            tt.set("{http://www.w3.org/XML/1998/namespace}space", "preserve")
                        if rng.random() < 0.5:
                            r2.set(q("rsidR"), "00ABCDEF")
                        idx = parent.index(r)
                        parent.insert(idx + 1, r2)
                        if rng.random() < 0.5:
                            pe = etree.Element(q(rng.choice(["proofErr", "bookmarkStart", "bookmarkEnd"])))
                            pe.set(q("id"), "77")
                            parent.insert(idx + 1, pe)
                        if rng.random() < 0.3:
                            pr = r2.find(q("rPr"))
                            if pr is None:
                                pr = etree.Element(q("rPr"))
                                r2.insert(0, pr)
                            # an unrecognised run property
                            x = etree.SubElement(pr, q("noProof"))
                            _ = x
                        pr2 = r2.find(q("rPr"))
                        if pr2 is not None and rng.random() < 0.5:
                            # the same recognised formatting spelled differently in the second piece
                            # (w:b / w:b w:val="1" / "true" / "on"; another underline style): still the
                            # same recognised formatting (round-6 seed C06-merge-key-raw-recognised-pairs)
                            on = ["1", "true", "on"]
                            for x in pr2:
                                if not isinstance(x.tag, str):
                                    continue
                                loc, v = local(x), x.get(q("val"))
                                if loc in ("b", "i", "strike", "smallCaps", "caps") and (v is None or v in on):
                                    nv = rng.choice([c for c in [None] + on if c != v])
                                    if nv is None:
                                        del x.attrib[q("val")]
                                    else:
                                        x.set(q("val"), nv)
                                elif loc == "u" and v in ("single", "double", "wave"):
                                    x.set(q("val"), rng.choice([c for c in ("single", "double", "wave") if c != v]))
                    for h in list(root.iter(q("hyperlink"))):
                        runs = h.findall(q("r"))
                        parent = h.getparent()
                        if parent is None or len(runs) < 2 or rng.random() < 0.5:
                            continue
                        if any(local(k) not in ("r", "proofErr") for k in h):
                            continue
                        h2 = copy.deepcopy(h)
                        h2.tail = None
                        cut = rng.randrange(1, len(runs))
                        for k in list(h)[:]:
                            pass
                        keep1 = runs[:cut]
                        for k in list(h):
                            if local(k) == "r" and k not in keep1:
                                h.remove(k)
                        runs2 = h2.findall(q("r"))
                        for k in runs2[:cut]:
                            h2.remove(k)
                        parent.insert(parent.index(h) + 1, h2)
                    blob = etree.tostring(root, xml_declaration=True, encoding="UTF-8", standalone=True)
            zout.writestr(info, blob)
    return bio.getvalue()


def o_resplit(ctx):
    from diff_pkg import canon
    import impl_pkg

    out = []
    rng = random.Random(hash(ctx["data"][:64]) & 0xFFFFFFF)
    for k in range(2):
        try:
            data2 = resplit(ctx["data"], rng)
        except Exception as ex:  # noqa: BLE001
            return [("oracle_crash", f"resplit {type(ex).__name__}: {ex}")]
        if data2 == ctx["data"]:
            continue
        ctx["features"].add("resplit")
        for (html, dup), o in ctx["per"].items():
            if o.any_exc():
                continue
            _, payloads = impl_pkg.model_case(data2, html, dup)
            b = canon(impl_pkg.observe(data2, html, dup, payloads))
            a = o.raw

            def strip(obs):
                # element paths move when siblings are inserted; compare everything else
                def par(x):
                    if x[0] == 0:
                        return [0, [par(y) for y in x[1]]]
                    r = x[1]
                    return [1, r[:5] + [bool(r[5])]]
                return [[([0, [par(t[1][0]), t[1][1], t[1][2]]] if t[0] == 0 else t) for t in obs[1]],
                        obs[2], obs[3], obs[4], obs[5]]
            if strip(a) != strip(b):
                from diff_parts import first_diff
                d = first_diff(strip(a), strip(b))
                out.append(("resplit_invisible", f"re-splitting runs/links changed the extraction (html={html} dup={dup}) at {d[0] if d else None}"))
                return out
    return out


# ------------------------------------------------------------------ C10
LINK_RUN = re.compile(r'<a href="([^"]*)">(.*)</a>', re.S)


def o_markers(ctx):
    import os
    import shutil
    import tempfile

    from docx2python.utilities import get_links

    out = []
    with warnings.catch_warnings():
        warnings.simplefilter("ignore")
        for html in (False, True):
            d = open_doc(ctx["data"], html=html)
            try:
                for f in d.docx_reader.files_of_type():
                    try:
                        pars, root, order = file_pars(f)
                        rels = f.rels
                    except Exception:  # noqa: BLE001
                        continue
                    w = root.nsmap.get("w")
                    r_ns = root.nsmap.get("r")
                    for p in pars:
                        if p.elem is None or id(p.elem) not in order:
                            continue
                        if any(local(x) == "p" for x in p.elem.iterdescendants()):
                            continue
                        runs = p.run_strings
                        links = [k for k in p.elem if local(k) == "hyperlink"]
                        link_runs = [LINK_RUN.fullmatch(r) for r in runs]
                        link_runs = [m for m in link_runs if m and not m.group(0).startswith("<a href=\"\"") or (m and True)]
                        exp = []
                        for h in links:
                            rid = h.get(f"{{{r_ns}}}id") if r_ns else None
                            if rid is not None and rid in rels:
                                tgt = rels[rid]
                                anc = h.get(f"{{{w}}}anchor")
                                exp.append(tgt + ("#" + anc if (tgt and anc) else ""))
                        got = [m.group(1) for m in link_runs if m]
                        if ctx["stream"] == "main" and not ({"adjacent_links_diff_anchor"} & ctx["features"]):
                            # adjacent links with one target are fused: compare as sets of targets in order, deduplicated
                            def dedup(l):
                                o2 = []
                                for x in l:
                                    if not o2 or o2[-1] != x:
                                        o2.append(x)
                                return o2
                            if dedup(got) != dedup(exp):
                                out.append(("link_markers", f"{f.path}: rendered link targets {got} but the relationships say {exp} (html={html})"))
                                return out
                        for kind in ("footnote", "endnote"):
                            refs = [x.get(f"{{{w}}}id") for x in p.elem.iter(f"{{{w}}}{kind}Reference")
                                    if not any(local(a) == "hyperlink" for a in ancestors(x))]
                            # ids are integers (generated and corpus); literal text that merely looks like a
                            # marker (the generator's alphabet has "----" and "footnote1)") is not one
                            marks = [r for r in runs if re.fullmatch(rf"----{kind}-?\d+----", r)]
                            if marks != [f"----{kind}{i}----" for i in refs]:
                                out.append(("note_markers", f"{f.path}: {kind} references {refs} rendered as {marks}"))
                                return out
                # notes: every non-separator note's first paragraph starts with its label
                for kind in ("footnote", "endnote"):
                    for f in d.docx_reader.files_of_type(kind + "s"):
                        try:
                            root = f.root_element
                            pars = [p for t in f.content for r in t for c in r for p in c]
                        except Exception:  # noqa: BLE001
                            continue
                        w = root.nsmap.get("w")
                        ids = [n.get(f"{{{w}}}id") for n in root.findall(f"{{{w}}}{kind}")
                               if "separator" not in (n.get(f"{{{w}}}type") or "").lower()]
                        texts = ["".join(p.run_strings) for p in pars]
                        for i in ids:
                            lab = f"{kind}{i})\t"
                            if not any(t.startswith(lab) or t.startswith("<h") and lab in t[:len(lab) + 5] for t in texts):
                                out.append(("note_labels", f"{f.path}: no paragraph is labelled {lab!r}"))
                                return out
            finally:
                d.close()
        # get_links
        tmp = tempfile.mkdtemp(prefix="d2p_l_")
        try:
            pth = os.path.join(tmp, "a.docx")
            open(pth, "wb").write(ctx["data"])
            try:
                got = list(get_links(pth))
            except Exception:  # noqa: BLE001
                got = None
            if got is not None:
                d = open_doc(ctx["data"])
                try:
                    exp = []
                    for t in d.document_runs:
                        for r in t:
                            for c in r:
                                for p in c:
                                    for run in p:
                                        m = re.match(r'<a href="([^"]+)">([^<]+)</a>', run)
                                        if m:
                                            exp.append(m.groups())
                finally:
                    d.close()
                if got != exp:
                    out.append(("get_links", f"get_links yields {got[:3]}..., the rendered links are {exp[:3]}..."))
        finally:
            shutil.rmtree(tmp, ignore_errors=True)
    return out


# ------------------------------------------------------------------ C12
def o_comments(ctx):
    out = []
    with warnings.catch_warnings(record=True) as wl:
        warnings.simplefilter("always")
        for html in (False, True):
            d = open_doc(ctx["data"], html=html)
            try:
                try:
                    comments = d.comments
                    runs = d.body_runs
                    od = d.docx_reader.file_of_type("officeDocument")
                    root = od.root_element
                except Exception:  # noqa: BLE001
                    continue
                w = root.nsmap.get("w")
                try:
                    cf = d.docx_reader.file_of_type("comments")
                    centries = [c for c in cf.root_element if isinstance(c.tag, str)]
                except KeyError:
                    centries = None
                starts = [e.get(f"{{{w}}}id") for e in root.iter(f"{{{w}}}commentRangeStart")
                          if not any(local(a) == "hyperlink" for a in ancestors(e))]
                if centries is None:
                    if comments != []:
                        out.append(("comments_absent", "comments is not [] although there is no comments part"))
                    continue
                if len(set(starts)) != len(centries):
                    if comments != []:
                        out.append(("comments_mismatch", f"{len(set(starts))} ranges vs {len(centries)} entries but comments is not []"))
                    continue
                if len(comments) != len(centries):
                    out.append(("comments_count", f"{len(centries)} entries, {len(comments)} tuples (html={html})"))
                    continue
                flat = [x for t in runs for r in t for c in r for p in c for x in p]
                whole = "".join(flat)
                for tup, ent in zip(comments, centries):
                    ref, author, date, text = tup
                    if author != ent.get(f"{{{w}}}author") or date != (ent.get(f"{{{w}}}date") or ""):
                        out.append(("comment_fields", f"author/date {author!r},{date!r} differ from the entry"))
                        break
                    if ref not in whole:
                        out.append(("comment_anchor", f"anchored text {ref[:60]!r} is not a contiguous stretch of body_runs (html={html})"))
                        break
                    # the anchored text is a concatenation of whole run strings
                    ok = ref == ""
                    if not ok:
                        for i in range(len(flat)):
                            acc = ""
                            for j in range(i, len(flat)):
                                acc += flat[j]
                                if acc == ref:
                                    ok = True
                                    break
                                if not ref.startswith(acc):
                                    break
                            if ok:
                                break
                    if not ok:
                        out.append(("comment_anchor", f"anchored text {ref[:60]!r} does not consist of whole run strings (html={html})"))
                        break
            finally:
                d.close()
    return out


def o_comment_anchor_exact(ctx):
    """html off/on: the anchored text equals the run strings produced between the two markers,
    recomputed from the positions of the markers among the source paragraph's children."""
    out = []
    with warnings.catch_warnings():
        warnings.simplefilter("ignore")
        per = {}
        for html in (False, True):
            d = open_doc(ctx["data"], html=html)
            try:
                try:
                    per[html] = [c[0] for c in d.comments]
                except Exception:  # noqa: BLE001
                    per[html] = None
            finally:
                d.close()
        if per[False] is not None and per[True] is not None and len(per[False]) == len(per[True]):
            import oracles
            for a, b in zip(per[False], per[True]):
                if oracles.strip_html(b) != a:
                    out.append(("comment_anchor_modes", f"anchored text differs between html modes: {a[:50]!r} vs {b[:50]!r}"))
                    break
    return out


# ------------------------------------------------------------------ C02
PREFIXES = {W_T: "w", W_S: "w"}


def ptag(e):
    if not isinstance(e.tag, str):
        return None
    return f"{e.prefix}:{etree.QName(e).localname}"


CHECK = {"0": "☐", "false": "☐", "off": "☐", "1": "☒", "true": "☒", "on": "☒"}


def visible(e, rels):
    """reference: the visible inline content of an element, html off (property C02)"""
    t = ptag(e)
    if t is None:
        return ""
    ns = e.nsmap
    w, r = ns.get("w"), ns.get("r")
    kids = lambda: "".join(visible(k, rels) for k in e)  # noqa: E731
    if t == "w:pPr":
        return ""                       # paragraph properties hold no visible content
    if t in ("w:t", "m:t"):
        return (e.text or "") + kids()
    if t == "w:tab":
        return "\t" + kids()
    if t == "w:br":
        return "\n" + kids()
    if t == "w:sym":
        ch = e.get(f"{{{w}}}char")
        font = e.get(f"{{{w}}}font")
        return (f"<span style=font-family:{font}>&#x0{ch[1:]};</span>" if ch else "") + kids()
    if t == "m:oMath":
        return "<latex>" + "".join(e.itertext()) + "</latex>"
    if t in ("w:footnoteReference", "w:endnoteReference"):
        return f"----{t[2:-9]}{e.get(f'{{{w}}}id')}----" + kids()
    if t == "a:blip":
        rid = e.get(f"{{{r}}}embed") if r else None
        return (f"----{rels[rid]}----" if rid in rels else "") + kids()
    if t == "v:imagedata":
        rid = e.get(f"{{{r}}}id") if r else None
        return (f"----{rels[rid]}----" if rid in rels else "") + kids()
    if t == "wp:docPr":
        d = e.get("descr")
        return (f"----Image alt text---->{d}<" if d is not None else "") + kids()
    if t == "w:hyperlink":
        body = kids()
        rid = e.get(f"{{{r}}}id") if r else None
        if rid is not None and rid in rels:
            link = rels[rid]
            anc = e.get(f"{{{w}}}anchor")
            if link and anc:
                link += "#" + anc
            return f'<a href="{link}">{body}</a>'
        return body
    if t == "w:checkBox":
        chk = e.find(f"{{{w}}}checked")
        if chk is not None:
            v = chk.get(f"{{{w}}}val") or "1"
        else:
            dfl = e.find(f"{{{w}}}default")
            v = dfl.get(f"{{{w}}}val") if dfl is not None else None
        return ("----checkbox failed----" if v is None else CHECK.get(v, "?")) + kids()
    if t == "w:ddList":
        ents = [x.get(f"{{{w}}}val") for x in e.findall(f"{{{w}}}listEntry")]
        res = e.find(f"{{{w}}}result")
        idx = int(res.get(f"{{{w}}}val")) if res is not None and res.get(f"{{{w}}}val") is not None else 0
        return (ents[idx] if -len(ents) <= idx < len(ents) else "") + kids()
    return kids()


LINK_TAG_RE = re.compile(r'<a href="[^"]*">|</a>')
PREFIX_RE = re.compile(r"^((?:foot|end)note[^\t]*\)\t)?(\t*(?:--|[0-9A-Za-z-]+\))\t)?")


def o_par_text(ctx):
    out = []
    with warnings.catch_warnings():
        warnings.simplefilter("ignore")
        for dup in (True, False):
            d = open_doc(ctx["data"], duplicate_merged_cells=dup)
            try:
                for f in d.docx_reader.files_of_type():
                    try:
                        pars, root, order = file_pars(f)
                        rels = f.rels
                    except Exception:  # noqa: BLE001
                        continue
                    # the expected content is read from the ORIGINAL part as stored in the archive, not
                    # from the merged tree the library exposes (round-5 seed C02-haspr-suffix-skips-docpr:
                    # a merge that reorders inline content is invisible in the merged tree): merging
                    # never adds, drops or reorders w:p elements, so the k-th w:p of the merged tree
                    # is the k-th w:p of the stored part
                    orig_of = {}
                    try:
                        import io as _io
                        import zipfile as _zf
                        oroot = etree.fromstring(_zf.ZipFile(_io.BytesIO(ctx["data"])).read(f.path))
                        wq_ = root.nsmap.get("w")
                        if wq_ and oroot.nsmap.get("w") == wq_:
                            mp = list(root.iter(f"{{{wq_}}}p"))
                            op = list(oroot.iter(f"{{{wq_}}}p"))
                            if len(mp) == len(op):
                                orig_of = {id(a): b for a, b in zip(mp, op)}
                                orig_of["_keep"] = (mp, op)    # lxml proxies must stay alive: ids
                    except Exception:  # noqa: BLE001
                        orig_of = {}
                    last = -1
                    # exactly once: no source paragraph is pointed at by two records, and records
                    # detached from the tree (copies made for merged cells) exist only where the
                    # part has merged cells
                    seen_elems = set()
                    w_ns = root.nsmap.get("w")
                    has_merge = False
                    if w_ns:
                        for tcpr in root.iter(f"{{{w_ns}}}tcPr"):
                            gs = tcpr.find(f"{{{w_ns}}}gridSpan")
                            if tcpr.find(f"{{{w_ns}}}vMerge") is not None or (
                                    gs is not None and (gs.get(f"{{{w_ns}}}val") or "1") != "1"):
                                has_merge = True
                                break
                    for p in pars:
                        if p.elem is None:
                            continue
                        if id(p.elem) in order:
                            if id(p.elem) in seen_elems and ptag(p.elem) == "w:p":
                                out.append(("par_once", f"{f.path}: a source paragraph is extracted twice: {''.join(p.run_strings)[:60]!r}"))
                                return out
                            seen_elems.add(id(p.elem))
                        elif not has_merge:
                            out.append(("par_once", f"{f.path}: a copied paragraph record in a part without merged cells: {''.join(p.run_strings)[:60]!r} (dup={dup})"))
                            return out
                    for p in pars:
                        if p.elem is None or id(p.elem) not in order or ptag(p.elem) != "w:p":
                            continue
                        nested = any(ptag(x) == "w:p" for x in p.elem.iterdescendants())
                        if nested:
                            continue
                        if not any(ptag(a) == "w:tc" for a in ancestors(p.elem)):
                            # paragraphs that do not enclose others keep their document order
                            if order[id(p.elem)] < last and not any(ptag(a) in ("w:p",) for a in ancestors(p.elem)):
                                out.append(("par_order", f"{f.path}: paragraphs out of document order"))
                                return out
                            if not any(ptag(a) == "w:p" for a in ancestors(p.elem)):
                                last = order[id(p.elem)]
                        got = "".join(p.run_strings)
                        try:
                            exp = "".join(visible(k, rels) for k in p.elem)
                            exp_orig = "".join(visible(k, rels) for k in orig_of[id(p.elem)]) if id(p.elem) in orig_of else None
                        except Exception:  # noqa: BLE001
                            continue
                        m = PREFIX_RE.match(got)
                        rest = got[m.end():] if m else got
                        # the marker regex may swallow a leading tab of the content: try both splits
                        cands = {rest, got}
                        if m and m.group(2):
                            cands.add(got[len(m.group(1) or ""):])
                        if exp not in cands and not any(c.endswith(exp) and PREFIX_RE.fullmatch(c[:len(c) - len(exp)]) for c in [got]):
                            out.append(("par_text", f"{f.path}: paragraph text {got[:90]!r} is not [label][marker] + visible content {exp[:90]!r}"))
                            return out
                        if exp_orig is not None:
                            # against the STORED part: adjacent links with one target are documented to
                            # come out as one link (C06, C10), so link tags are left out of this comparison
                            unl = lambda x: LINK_TAG_RE.sub("", x)  # noqa: E731
                            if not unl(got).endswith(unl(exp_orig)):
                                out.append(("par_text", f"{f.path}: paragraph text {got[:90]!r} does not carry the visible content of the stored paragraph {exp_orig[:90]!r} in document order"))
                                return out
            finally:
                d.close()
    return out
