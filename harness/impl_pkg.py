"""Observation of /repo on a whole package through the public API, in the jt
shape Driver.observe_package prints; and the kind-5 model case for the same
archive bytes."""
from __future__ import annotations

import io
import warnings
import zipfile

from lxml import etree

from common import EXN_CODES, Interner, OS, S, lift
from impl_part import enc_nested

PART_ORDER = ["header", "officeDocument", "footer", "footnotes", "endnotes"]


def exn_code(ex):
    return [1, EXN_CODES.get(type(ex).__name__, 98)]


def grab(fn):
    try:
        return [0, fn()]
    except Exception as ex:  # noqa: BLE001
        return exn_code(ex)


def blob_key(b: bytes) -> int:
    import hashlib
    return int.from_bytes(hashlib.sha256(b).digest()[:6], "big")


def model_images_to_keys(obs, payloads):
    """replace the payload ids in a model observation by content keys"""
    img = obs[4]
    if img[0] == 0:
        obs = list(obs)
        obs[4] = [0, [[n, blob_key(payloads[i]) if i < len(payloads) else -1] for n, i in img[1]]]
    return obs


def model_case(data: bytes, html: bool, dup: bool):
    """[5, html, dup, archive]; returns (case, payloads) where payloads[id] = bytes"""
    z = zipfile.ZipFile(io.BytesIO(data))
    arch = []
    intern = Interner()
    payloads: list[bytes] = []
    for info in z.infolist():
        raw = z.read(info)  # by ZipInfo: this very member, also for duplicate names
        member = None
        if info.filename.endswith((".xml", ".rels")):
            try:
                member = [0, lift(etree.fromstring(raw), intern)]
            except etree.XMLSyntaxError:
                member = None
        if member is None:
            member = [1, len(payloads)]
            payloads.append(raw)
        arch.append([S(info.filename), member])
    return [5, 1 if html else 0, 1 if dup else 0, arch], payloads


def observe(data: bytes, html: bool, dup: bool, payloads: list[bytes], image_folder=None):
    from docx2python import docx2python

    with warnings.catch_warnings(record=True) as wlist:
        warnings.simplefilter("always")
        d = docx2python(io.BytesIO(data), image_folder, html=html, duplicate_merged_cells=dup)
        try:
            reader = d.docx_reader

            def files():
                return [[S(f.Id), S(f.Type), S(f.Target), S(f.dir), S(f.path)] for f in reader.files]

            out = [grab(files)]
            roots = {}
            try:
                for f in reader.files_of_type():
                    try:
                        roots[id(f.root_element)] = f.root_element
                    except Exception:  # noqa: BLE001
                        pass
            except Exception:  # noqa: BLE001
                pass

            def elem_path(elem):
                if elem is None:
                    return []
                path = []
                cur = elem
                while True:
                    parent = cur.getparent()
                    if parent is None:
                        break
                    path.append(parent.index(cur))
                    cur = parent
                if id(cur) not in roots:
                    return [1, []]
                return [0, list(reversed(path))]

            def enc_par(par):
                lp = par.list_position
                return [
                    [S(x) for x in par.run_strings],
                    [S(x) for x in par.html_style],
                    S(par.style),
                    [OS(x) for x in par.lineage[1:]],
                    [OS(lp[0]), list(lp[1])],
                    elem_path(par.elem),
                ]

            per_type = []
            for ty in PART_ORDER:
                def one(ty=ty):
                    pars = getattr(d, ty + "_pars")
                    runs = getattr(d, ty + "_runs")
                    plain = getattr(d, ty)
                    return [enc_nested(pars, enc_par), enc_nested(runs, S), enc_nested(plain, S)]
                per_type.append(grab(one))
            out.append(per_type)
            out.append(grab(lambda: S(d.text)))

            def core():
                n0 = len(wlist)
                cp = d.core_properties
                if any("Could not find core-properties" in str(w.message) for w in wlist[n0:]):
                    return []
                return [[[S(k), OS(v)] for k, v in cp.items()]]
            out.append(grab(core))

            def images():
                res = []
                for name, blob in d.images.items():
                    res.append([S(name), blob_key(blob)])
                return res
            out.append(grab(images))

            def comments():
                n0 = len(wlist)
                cs = d.comments
                if any("different lengths" in str(w.message) for w in wlist[n0:]):
                    return []
                return [[[S(a), S(b), S(c), S(e)] for a, b, c, e in cs]]
            out.append(grab(comments))
            return out
        finally:
            d.close()
