"""Direct oracles: the property statements evaluated on /repo's own output
(decoded observations, see docsweep.Obs).  Each returns a list of
(oracle_name, message)."""
from __future__ import annotations

import re

from lxml import etree

import common

from docsweep import iter_pars, shape_of
from impl_pkg import PART_ORDER


# ------------------------------------------------------------------- C01
def depth_ok(x, d, leaf_ok):
    if d == 0:
        return leaf_ok(x)
    return isinstance(x, list) and all(depth_ok(y, d - 1, leaf_ok) for y in x)


def o_shape(ctx):
    out = []
    for opts, o in ctx["per"].items():
        for ty, t in o.types.items():
            if "exc" in t:
                # the string views may have failed BECAUSE a record sits at the wrong depth:
                # look at the record view alone
                import io
                import warnings
                from docx2python import docx2python
                with warnings.catch_warnings():
                    warnings.simplefilter("ignore")
                    d = docx2python(io.BytesIO(ctx["data"]), html=opts[0], duplicate_merged_cells=opts[1])
                    try:
                        pars = getattr(d, ty + "_pars")
                    except Exception:  # noqa: BLE001
                        pars = None
                    finally:
                        d.close()
                if pars is not None and not depth_ok(pars, 4, lambda p: hasattr(p, "run_strings")):
                    out.append(("shape", f"{ty}_pars has a paragraph record (or a list) at the wrong depth {opts}"))
                continue
            if not depth_ok(t["plain"], 4, lambda s: isinstance(s, str)):
                out.append(("shape", f"{ty} is not 4-deep with string leaves {opts}"))
            if not depth_ok(t["runs"], 5, lambda s: isinstance(s, str)):
                out.append(("shape", f"{ty}_runs is not 5-deep with string leaves {opts}"))
            if not depth_ok(t["pars"], 4, lambda p: isinstance(p, dict)):
                out.append(("shape", f"{ty}_pars is not 4-deep with paragraph records {opts}"))
            s1 = shape_of(t["plain"])
            s2 = shape_of([[[[("x") for _ in c] for c in r] for r in tb] for tb in t["runs"]]) if depth_ok(t["runs"], 4, lambda _: True) else None
            s3 = shape_of([[[["x" for _ in c] for c in r] for r in tb] for tb in t["pars"]]) if depth_ok(t["pars"], 3, lambda _: True) else None
            if not (s1 == s2 == s3):
                out.append(("shape", f"{ty}: the three forms have different nesting shapes {opts}"))
    return out


# ------------------------------------------------------------------- C03
def o_views(ctx):
    out = []
    for opts, o in ctx["per"].items():
        ok = all("exc" not in t for t in o.types.values())
        for ty, t in o.types.items():
            if "exc" in t:
                continue
            try:
                joined = [[[["".join(p) for p in c] for c in r] for r in tb] for tb in t["runs"]]
                if joined != t["plain"]:
                    out.append(("views", f"{ty} != join of {ty}_runs {opts}"))
                runs_of_pars = [[[[p["runs"] for p in c] for c in r] for r in tb] for tb in t["pars"]]
                if runs_of_pars != t["runs"]:
                    out.append(("views", f"{ty}_runs != run strings of {ty}_pars {opts}"))
            except TypeError:
                out.append(("views", f"{ty}: malformed nesting {opts}"))
        if ok and isinstance(o.text, str):
            doc = [x for ty in PART_ORDER for x in o.types[ty]["plain"]]
            pars = [p for tb in doc for r in tb for c in r for p in c]
            if o.text != "\n\n".join(pars):
                out.append(("views", f"text != paragraphs of document joined by a blank line {opts}"))
    return out


def o_views_after_edit(ctx):
    """the views are views OF THE RECORDS: after an earlier read, and after editing a paragraph record,
    X_runs still equals, address by address, the run strings of the records in X_pars, and X still equals
    X_runs with the runs of every paragraph concatenated (round-7 seed C03-runs-cached-per-instance)"""
    import io
    import warnings

    from docx2python import docx2python

    out = []
    keys = sorted(ctx["per"])
    if not keys:
        return out
    html, dup = keys[len(ctx["data"]) % len(keys)]
    with warnings.catch_warnings():
        warnings.simplefilter("ignore")
        d = docx2python(io.BytesIO(ctx["data"]), html=html, duplicate_merged_cells=dup)
        try:
            for ty in ("body", "header", "footnotes"):
                try:
                    _first = (getattr(d, ty + "_runs"), getattr(d, ty), d.text)       # an earlier read
                    pars = getattr(d, ty + "_pars")
                except Exception:  # noqa: BLE001
                    continue
                recs = [p for tb in pars for r in tb for c in r for p in c]
                edited = False
                for p in recs:
                    for run in p.runs:
                        if run.text:
                            run.text += "Z"                                             # edit a record
                            edited = True
                            break
                    if edited:
                        break
                if not edited:
                    continue
                runs = getattr(d, ty + "_runs")
                exp = [[[[p.run_strings for p in c] for c in r] for r in tb] for tb in pars]
                if runs != exp:
                    out.append(("views", f"after editing a record: {ty}_runs != run strings of {ty}_pars (html={html})"))
                    return out
                if getattr(d, ty) != [[[["".join(p) for p in c] for c in r] for r in tb] for tb in runs]:
                    out.append(("views", f"after editing a record: {ty} != join of {ty}_runs (html={html})"))
                    return out
        finally:
            d.close()
    return out


def o_document_concat(ctx):
    """document* == header + body + footer + footnotes + endnotes, read from the API itself"""
    import io
    import warnings

    from docx2python import docx2python

    out = []
    for html, dup in ctx["per"]:
        with warnings.catch_warnings():
            warnings.simplefilter("ignore")
            d = docx2python(io.BytesIO(ctx["data"]), html=html, duplicate_merged_cells=dup)
            try:
                for suffix in ("", "_runs"):
                    try:
                        parts = [getattr(d, n + suffix) for n in ("header", "body", "footer", "footnotes", "endnotes")]
                        doc = getattr(d, "document" + suffix)
                    except Exception:  # noqa: BLE001
                        continue
                    cat = [x for p in parts for x in p]
                    if doc != cat:
                        out.append(("document_concat", f"document{suffix} != concatenation html={html} dup={dup}"))
                    if suffix == "" and d.body != d.officeDocument:
                        out.append(("document_concat", "body != officeDocument"))
                try:
                    import warnings as _w
                    with _w.catch_warnings():
                        _w.simplefilter("ignore")
                        if d.properties != d.core_properties:
                            out.append(("document_concat", "properties (deprecated alias) != core_properties"))
                except Exception:  # noqa: BLE001
                    pass
                try:
                    dp = d.document_pars
                    cat = [x for n in ("header", "body", "footer", "footnotes", "endnotes") for x in getattr(d, n + "_pars")]
                    if len(dp) != len(cat) or any(a is not b for a, b in zip(
                            [p for t in dp for r in t for c in r for p in c],
                            [p for t in cat for r in t for c in r for p in c])):
                        out.append(("document_concat", "document_pars != concatenation"))
                except Exception:  # noqa: BLE001
                    pass
            finally:
                d.close()
    return out


# ------------------------------------------------------------------- C07
FMT_TAGS = {"b", "i", "u", "s", "sup", "sub", "h1", "h2", "h3", "h4", "h5", "h6", "span"}
TOKEN = re.compile(r"<(/?)([^<>]*)>")
ALT = re.compile(r"----Image alt text---->[^<]*<")
SYMBOL = re.compile(r"<span style=font-family:[^>]*>&#x0[^;<>]*;</span>")
LATEX = re.compile(r"<latex>.*?</latex>", re.S)
LINK_OPEN = re.compile(r'<a href="[^"]*">')


def html_tokens(s: str):
    """tokenise an html=True paragraph string: returns (tokens, error).
    tokens: ("text", str) | ("open", name, full) | ("close", name) | ("atom", str)"""
    toks = []
    i = 0
    while i < len(s):
        m = ALT.match(s, i) or SYMBOL.match(s, i) or LATEX.match(s, i)
        if m:
            toks.append(("atom", m.group(0)))
            i = m.end()
            continue
        if s[i] == "<":
            m = LINK_OPEN.match(s, i)
            if m:
                toks.append(("open", "a", m.group(0)))
                i = m.end()
                continue
            m = TOKEN.match(s, i)
            if not m:
                return toks, f"stray '<' at {i}"
            name = m.group(2).split()[0] if m.group(2).split() else ""
            toks.append(("close", name) if m.group(1) else ("open", name, m.group(0)))
            i = m.end()
            continue
        j = i
        while j < len(s) and s[j] != "<" and not ALT.match(s, j):
            j += 1
        toks.append(("text", s[i:j]))
        i = j
    return toks, None


ENTITY = re.compile(r"&(amp|lt|gt);")


def check_html_par(s: str, strict_vocab=True):
    toks, err = html_tokens(s)
    if err:
        return err
    stack = []
    for t in toks:
        if t[0] == "open":
            if strict_vocab and t[1] not in FMT_TAGS and t[1] != "a":
                return f"tag <{t[1]}> outside the documented vocabulary"
            if t[1] == "span" and not re.fullmatch(r'<span style="[^"<>]*">', t[2]):
                return f"malformed span {t[2]!r}"
            stack.append(t[1])
        elif t[0] == "close":
            if not stack or stack[-1] != t[1]:
                return f"</{t[1]}> does not close the innermost open tag {stack[-1:] or None}"
            stack.pop()
        elif t[0] == "atom" and (t[1].startswith("<latex>") or t[1].startswith("----Image alt text---->")):
            head = "<latex>" if t[1].startswith("<latex>") else "----Image alt text---->"
            tail = "</latex>" if t[1].startswith("<latex>") else "<"
            inner = t[1][len(head):len(t[1]) - len(tail)]
            if "<" in inner or ">" in inner or "&" in ENTITY.sub("", inner):
                return f"unescaped markup character in {head!r} content"
        elif t[0] == "text":
            if ">" in t[1]:
                return "unescaped '>' in text"
            rest = ENTITY.sub("", t[1])
            if "&" in rest:
                return "ampersand that does not start an entity"
    if stack:
        return f"unclosed tags {stack}"
    return None


def strip_html(s: str) -> str:
    toks, err = html_tokens(s)
    out = []
    for t in toks:
        if t[0] == "text":
            out.append(t[1].replace("&lt;", "<").replace("&gt;", ">").replace("&amp;", "&"))
        elif t[0] == "atom":
            a = t[1]
            if a.startswith("<latex>") or a.startswith("----Image alt text---->"):
                # equation text and alt text are document text: escaped with html on
                head = "<latex>" if a.startswith("<latex>") else "----Image alt text---->"
                tail = "</latex>" if a.startswith("<latex>") else "<"
                inner = a[len(head):len(a) - len(tail)]
                a = head + inner.replace("&lt;", "<").replace("&gt;", ">").replace("&amp;", "&") + tail
            out.append(a)
        elif t[0] == "open" and t[1] == "a":
            out.append(t[2])
        elif t[0] == "close" and t[1] == "a":
            out.append("</a>")
    return "".join(out)


def o_html(ctx):
    out = []
    for dup in (True, False):
        if (True, dup) not in ctx["per"]:
            continue
        oh = ctx["per"][(True, dup)]
        op = ctx["per"].get((False, dup))
        for ty, t in oh.types.items():
            if "exc" in t:
                continue
            for addr, par in iter_pars(t["plain"]):
                err = check_html_par(par)
                if err:
                    out.append(("html_balanced_escaped", f"{ty}{list(addr)} {err}: {par[:120]!r}"))
                    break
            if op is not None and "exc" not in op.types[ty]:
                hp = dict(iter_pars(t["plain"]))
                pp = dict(iter_pars(op.types[ty]["plain"]))
                if set(hp) != set(pp):
                    out.append(("html_projection", f"{ty}: different paragraph addresses with html on/off"))
                    continue
                for addr in hp:
                    if strip_html(hp[addr]) != strip_html_links_plain(pp[addr]):
                        out.append(("html_projection",
                                    f"{ty}{list(addr)} strip+unescape(html) != plain: {hp[addr][:100]!r} vs {pp[addr][:100]!r}"))
                        break
    out.extend(o_html_tags_exact(ctx))
    return out


# ---- C07: "the tags around a stretch of text are exactly those of the recognised
# formatting switched on for it ... plus the paragraph's heading level"
W_OFF = {"0", "false", "off", "none", "baseline"}


def expected_run_tags(rpr, w):
    """documented mapping (README): recognised run properties -> html tags"""
    tags = set()
    if rpr is None:
        return tags
    for k in rpr:
        if not isinstance(k.tag, str) or not k.tag.startswith("{"):
            continue
        ns, name = k.tag[1:].split("}")
        if ns != w:
            continue
        val = k.get(f"{{{w}}}val")
        if val in W_OFF:
            continue
        if name in ("b", "i", "u"):
            tags.add(name)
        elif name == "strike":
            tags.add("s")
        elif name == "vertAlign" and val in ("superscript", "subscript"):
            tags.add(val[:3])
        elif name == "smallCaps":
            tags.add(("style", "font-variant:small-caps"))
        elif name == "caps":
            tags.add(("style", "text-transform:uppercase"))
        elif name == "highlight":
            tags.add(("style", f"background-color:{val or ''}"))
        elif name == "sz":
            tags.add(("style", f"font-size:{val or ''}pt"))
        elif name == "color":
            tags.add(("style", f"color:{val or ''}"))
    return tags


def html_char_tags(s):
    """[(char, frozenset(tags))] for the text characters of an html paragraph string, or None"""
    toks, err = html_tokens(s)
    if err:
        return None
    out, stack = [], []
    for t in toks:
        if t[0] == "open":
            if t[1] == "span":
                m = re.fullmatch(r'<span style="([^"<>]*)">', t[2])
                if not m:
                    return None
                stack.append([("style", d) for d in m.group(1).split(";")])
            elif t[1] == "a":
                return None
            else:
                stack.append([t[1]])
        elif t[0] == "close":
            if not stack:
                return None
            stack.pop()
        elif t[0] == "atom":
            return None
        else:
            txt = t[1].replace("&lt;", "<").replace("&gt;", ">").replace("&amp;", "&")
            cur = frozenset(x for fr in stack for x in fr)
            out.extend((c, cur) for c in txt)
    return out


def o_html_tags_exact(ctx):
    """paragraphs of the main document made of w:r/w:t only (no list marker, not nested):
    per character, the set of tags around it is exactly the expected one"""
    out = []
    pkg = ctx.get("pkg")
    if pkg is None or "word/document.xml" not in pkg.parts:
        return out
    root = pkg.parts["word/document.xml"]
    w = root.nsmap.get("w")
    if not w:
        return out
    q = lambda t: f"{{{w}}}{t}"  # noqa: E731
    for dup in (True, False):
        oh = ctx["per"].get((True, dup))
        if oh is None or "exc" in oh.types.get("officeDocument", {"exc": 1}):
            continue
        t = oh.types["officeDocument"]
        plain = dict(iter_pars(t["plain"]))
        for addr, rec in iter_pars(t["pars"]):
            path = rec["elem"]
            if not isinstance(path, tuple):
                continue
            el = root
            try:
                for i in path:
                    el = el[i]
            except (IndexError, TypeError):
                continue
            if not isinstance(el.tag, str) or el.tag != q("p"):
                continue
            if any(a.tag == q("p") for a in el.iterancestors()):
                continue
            ppr = el.find(q("pPr"))
            if ppr is not None and ppr.find(q("numPr")) is not None:
                continue
            kids = [k for k in el if isinstance(k.tag, str)]
            simple = True
            exp = []
            heading = set()
            if ppr is not None and ppr.find(q("pStyle")) is not None:
                m = re.fullmatch(r"Heading([1-6])", ppr.find(q("pStyle")).get(q("val")) or "")
                if m:
                    heading = {"h" + m.group(1)}
            for k in kids:
                if k.tag in (q("pPr"), q("proofErr"), q("bookmarkStart"), q("bookmarkEnd")):
                    continue
                if k.tag != q("r"):
                    simple = False
                    break
                rk = [x for x in k if isinstance(x.tag, str)]

                def pure_textbox(x):
                    # a text box anchored in the run: its paragraphs are records of their own and add nothing to
                    # this paragraph's string; the run's own text keeps the run's own formatting - the formatting
                    # INSIDE the box must not leak out (round-8 seed C07-gather-iter-descendants)
                    if x.tag not in (q("pict"), q("drawing")):
                        return False
                    names = {etree.QName(y).localname for y in x.iter() if isinstance(y.tag, str)}
                    if "txbxContent" not in names or names & {"blip", "imagedata", "hyperlink", "footnoteReference",
                                                              "endnoteReference", "commentReference", "tbl"}:
                        return False
                    return not any(isinstance(y.tag, str) and etree.QName(y).localname == "docPr" and (y.get("descr") or y.get("title"))
                                   for y in x.iter())
                if any(x.tag not in (q("rPr"), q("t")) and not pure_textbox(x) for x in rk):
                    simple = False
                    break
                tags = frozenset(expected_run_tags(k.find(q("rPr")), w) | heading)
                for x in rk:
                    if x.tag == q("t"):
                        exp.extend((c, tags) for c in (x.text or ""))
            if not simple:
                continue
            got = html_char_tags(plain.get(addr, ""))
            if got is None:
                continue
            if [c for c, _ in got] != [c for c, _ in exp]:
                continue  # not the same paragraph text: other oracles (C02) decide
            for i, ((c, g), (_, e)) in enumerate(zip(got, exp)):
                if g != e:
                    out.append(("html_tags_exact",
                                f"officeDocument{list(addr)} char {i} {c!r}: tags {sorted(map(str, g))} expected {sorted(map(str, e))}: {plain[addr][:120]!r}"))
                    break
            if out:
                break
    return out


def strip_html_links_plain(s: str) -> str:
    return s


# ------------------------------------------------------------------- C13
def o_no_exception(ctx):
    out = []
    for opts, o in ctx["per"].items():
        for where, code in o.any_exc():
            out.append(("no_exception", f"{where} raised (code {code}) with html={opts[0]} dup={opts[1]}"))
            break
    return out


# ------------------------------------------------------------------- C19
def structure(o, with_text=False):
    res = {}
    for ty, t in o.types.items():
        if "exc" in t:
            res[ty] = "exc"
            continue
        # the element's position among its siblings may move when runs merge differently;
        # C19 speaks of shape, lineage, styles and list positions
        res[ty] = [(addr, p["lineage"], p["style"], p["list_position"],
                    p["elem"] if p["elem"] in (None, "copy") else "elem")
                   for addr, p in iter_pars(t["pars"])]
    return res


def o_options(ctx):
    out = []
    per = ctx["per"]
    for dup in (True, False):
        a, b = per.get((False, dup)), per.get((True, dup))
        if a is None or b is None:
            continue
        if structure(a) != structure(b):
            out.append(("html_changes_structure", f"shape/lineage/style/list_position/elem differ with html on/off (dup={dup})"))
        if a.images != b.images:
            out.append(("html_changes_structure", "images differ with html on/off"))
        if a.core != b.core:
            out.append(("html_changes_structure", "core_properties differ with html on/off"))
        na = len(a.comments[1][0]) if a.comments[0] == 0 and a.comments[1] else None
        nb = len(b.comments[1][0]) if b.comments[0] == 0 and b.comments[1] else None
        if (a.comments[0], na) != (b.comments[0], nb):
            out.append(("html_changes_structure", "number of comments differs with html on/off"))
    for html in (True, False):
        a, b = per.get((html, True)), per.get((html, False))
        if a is None or b is None:
            continue
        for ty in PART_ORDER:
            ta, tb = a.types[ty], b.types[ty]
            if "exc" in ta or "exc" in tb:
                continue
            pa, pb = dict(iter_pars(ta["pars"], 3)), dict(iter_pars(tb["pars"], 3))
            if set(pa) != set(pb):
                out.append(("dup_changes_more", f"{ty}: cell addresses differ between duplicate_merged_cells settings"))
                continue
            for addr in pa:
                ca, cb = pa[addr], pb[addr]
                if ca == cb:
                    continue
                # a difference is allowed only at a position covered by a merged
                # cell: there the False setting holds exactly one empty paragraph
                # without source element, or the True setting holds a copy
                blank = len(cb) == 1 and cb[0]["runs"] == [] and cb[0]["elem"] is None
                copied = all(p["elem"] in ("copy", None) for p in ca)
                if not (blank or copied):
                    out.append(("dup_changes_more", f"{ty}{list(addr)} differs outside merged positions"))
                    break
    out.extend(o_dup_comments(ctx))
    out.extend(o_image_folder(ctx))
    return out


def o_image_folder(ctx):
    """passing an image folder changes nothing in the returned values: the whole observation
    (file list, every content attribute, images, core properties, comments) with a folder given at
    construction equals the one without (one option setting per case, chosen by the package)"""
    import shutil
    import tempfile

    import impl_pkg
    from diff_pkg import canon
    data, payloads = ctx.get("data"), ctx.get("payloads")
    if data is None or payloads is None or ctx.get("raw") is None:
        return []
    keys = sorted(ctx["raw"])
    if not keys:
        return []
    html, dup = keys[len(data) % len(keys)]
    tmp = tempfile.mkdtemp(prefix="d2p_c19_")
    try:
        import os
        with_folder = canon(impl_pkg.observe(data, html, dup, payloads, os.path.join(tmp, "img", "sub")))
    finally:
        shutil.rmtree(tmp, ignore_errors=True)
    if with_folder != ctx["raw"][(html, dup)]:
        from diff_parts import first_diff
        d = first_diff(with_folder, ctx["raw"][(html, dup)])
        names = {1: "content", 2: "content", 3: "core_properties", 4: "images", 5: "comments"}
        where = names.get(d[0][0], "value") if d and d[0] else "value"
        return [("folder_changes_values", f"passing an image folder changes the returned {where} (html={html}, dup={dup})")]
    return []


def o_dup_comments(ctx):
    """duplicate_merged_cells changes only cells covered by a merged cell: a comment whose range
    lies entirely before the first or entirely after the last merged cell of the main document
    is returned identically under both settings"""
    out = []
    pkg = ctx.get("pkg")
    if pkg is None or "word/document.xml" not in pkg.parts:
        return out
    root = pkg.parts["word/document.xml"]
    w = root.nsmap.get("w")
    if not w:
        return out
    q = lambda t: f"{{{w}}}{t}"  # noqa: E731
    elems = list(root.iter())  # keeps the lxml proxies alive: ids stay valid
    order = {id(e): i for i, e in enumerate(elems)}
    first_m, last_m = None, None
    for tc in root.iter(q("tc")):
        pr = tc.find(q("tcPr"))
        if pr is None:
            continue
        gs = pr.find(q("gridSpan"))
        merged = pr.find(q("vMerge")) is not None or (gs is not None and (gs.get(q("val")) or "1") != "1")
        if merged:
            lo = order[id(tc)]
            hi = max(order[id(x)] for x in tc.iter())
            first_m = lo if first_m is None else min(first_m, lo)
            last_m = hi if last_m is None else max(last_m, hi)
    starts = {e.get(q("id")): order[id(e)] for e in root.iter(q("commentRangeStart"))}
    ends = {e.get(q("id")): order[id(e)] for e in root.iter(q("commentRangeEnd"))}
    part = pkg.parts.get("word/comments.xml")
    if part is None:
        return out
    ids = [c.get(q("id")) for c in part if isinstance(c.tag, str)]
    for html in (True, False):
        a, b = ctx["per"].get((html, True)), ctx["per"].get((html, False))
        if a is None or b is None or a.comments[0] != 0 or b.comments[0] != 0:
            continue
        if not a.comments[1] or not b.comments[1]:
            continue
        la, lb = a.comments[1][0], b.comments[1][0]
        if len(la) != len(ids) or len(lb) != len(ids):
            continue
        for cid, ta, tb in zip(ids, la, lb):
            if cid not in starts or cid not in ends or starts[cid] > ends[cid]:
                continue
            clear = first_m is None or ends[cid] < first_m or starts[cid] > last_m
            if clear and ta != tb:
                out.append(("dup_changes_more",
                            f"comment {cid} (range outside every merged cell) differs between duplicate_merged_cells "
                            f"settings (html={html}): {common.unS(ta[0])[:40]!r} vs {common.unS(tb[0])[:40]!r}"))
                return out
    return out
