"""Run model and /repo on the real-world corpus (tests/resources/*.docx)."""
from __future__ import annotations
import sys, time, glob, os
import common
from common import Model, assert_repo_under_test
assert_repo_under_test()
import impl_pkg
from diff_parts import first_diff
from diff_pkg import canon

def main():
    model = Model()
    bad = ok = 0
    for path in sorted(glob.glob(str(common.REPO / "tests/resources/*.docx"))):
        data = open(path, "rb").read()
        if not data:
            continue
        for html in (False, True):
            for dup in (True, False):
                t0 = time.time()
                try:
                    case, payloads = impl_pkg.model_case(data, html, dup)
                except Exception as ex:
                    print("SKIP", os.path.basename(path), repr(ex)[:100]); break
                impl = canon(impl_pkg.observe(data, html, dup, payloads))
                t1 = time.time()
                mod = canon(impl_pkg.model_images_to_keys(model.run(case), payloads))
                t2 = time.time()
                if impl == mod:
                    ok += 1
                else:
                    bad += 1
                    d = first_diff(impl, mod)
                    print("DISAGREE", os.path.basename(path), html, dup, "at", d[0], str(d[1])[:200], "|", str(d[2])[:200])
                if t2 - t1 > 5:
                    print("slow", os.path.basename(path), f"impl {t1-t0:.1f}s model {t2-t1:.1f}s")
    print("agree", ok, "disagree", bad)
main()
