"""./check Cxx --tier quick|thorough   |   ./check Cxx --replay <file>

Verdict protocol (DESIGN.md section 5):
  1. regenerate tables + build model, proofs, driver from /repo's working tree
  2. compile properties/Cxx.v, audit sources, parse Print Assumptions
  3. replay listed known findings (KNOWN-FINDING lines)
  4. correspondence + direct oracle on corpus and generated cases
  5. evidence; exit 0
  6. on a broken obligation / correspondence: search for a failing input and
     print VIOLATION (with ' no-failing-input-found' when none is found)
"""
from __future__ import annotations

import argparse
import importlib
import json
import os
import sys
import time
import warnings

sys.path.insert(0, os.path.dirname(os.path.abspath(__file__)))
import engine  # noqa: E402


def main() -> int:
    ap = argparse.ArgumentParser()
    ap.add_argument("prop")
    ap.add_argument("--tier", default=os.environ.get("VERIF_TIER", "quick"), choices=["quick", "thorough"])
    ap.add_argument("--replay", default=None)
    args = ap.parse_args()
    prop = args.prop
    seed = int(os.environ.get("VERIF_SEED", "20260929"))
    t0 = time.time()
    warnings.simplefilter("ignore")

    mod = importlib.import_module(f"props.{prop}")

    # ---- 1. build
    rc, log = engine.build()
    broken: list[dict] = []  # broken obligations / ties, each {"reason", "what", "detail"}
    # rc 3 = partial build: some Coq file does not check; build.sh removed the compiled form of
    # those files and of everything depending on them and still built the driver when the
    # model itself compiles.  A property is affected only if ITS file no longer compiles.
    partial = rc == 3
    driver_ok = (engine.COQ / "model" / "Driver.vo").exists() and \
        (engine.COQ / "extract" / "build" / "d2p_driver").exists()
    model_ok = rc == 0 or (partial and driver_ok)
    if rc == 2:
        broken.append({"reason": "translator", "what": "tools/gen_tables.py rejected /repo's source",
                       "detail": log[-1500:]})
    elif rc == 4:
        broken.append({"reason": "proof", "what": "extraction / driver build failed", "detail": log[-1500:]})
    elif rc not in (0, 3):
        broken.append({"reason": "proof", "what": f"build.sh rc={rc}", "detail": log[-1500:]})
    elif partial and not driver_ok:
        broken.append({"reason": "proof", "what": "Coq build of the model failed", "detail": log[-3000:]})

    # ---- 2. property file + audit
    comp = None
    if rc in (0, 3):
        comp = engine.compile_property(prop)
        if not comp["ok"]:
            what = f"{comp['file']} does not check"
            if partial:
                what += " (a file it depends on no longer compiles against /repo's current source: see detail)"
            broken.append({"reason": "proof", "what": what,
                           "detail": (comp["error"] or "") + ("\n--- build log ---\n" + log[-3000:] if partial else "")})
        else:
            opened = engine.open_assumptions(comp)
            if opened:
                broken.append({"reason": "proof", "what": "theorem depends on axioms", "detail": opened})
        if comp["ok"] and args.tier == "thorough" and not args.replay:
            chk = engine.coqchk_property(prop)
            comp["coqchk"] = chk
            if not chk["ok"]:
                broken.append({"reason": "proof", "what": "coqchk rejects the compiled property file or reports axioms",
                               "detail": json.dumps(chk)[:1500]})
        bad = engine.audit_sources()
        if bad:
            broken.append({"reason": "proof", "what": "forbidden vernacular in the development", "detail": bad})
    # the driver may still exist from an earlier build: usable only if rc == 0
    ctx = {"prop": prop, "tier": args.tier, "seed": seed, "model_ok": model_ok,
           "findings": engine.load_findings(prop), "broken": broken}

    if args.replay:
        return mod.replay(ctx, args.replay)

    # ---- 3/4. property run (known findings, correspondence, oracle)
    run = mod.run(ctx)
    # run: {"evaluations", "distinct_nontrivial", "rule", "samples", "violations": [payload...],
    #       "corr_broken": [payload...], "known": [(id, what)...], ...}
    # extraction / driver glue: re-evaluate the smallest cases with vm_compute inside Coq
    xpairs = run.pop("_xcheck", [])
    if model_ok and xpairs:
        xc = engine.vm_crosscheck(prop, xpairs, 3 if args.tier == "quick" else 25)
        run["vm_compute_crosscheck"] = {"cases": xc["checked"], "mismatches": len(xc["mismatches"])}
        if xc["mismatches"]:
            run.setdefault("corr_broken", []).append(
                {"correspondence": "extracted driver <-> vm_compute evaluation of Driver.run_line", "detail": xc["mismatches"][:2]})
    for kid, what in run.get("known", []):
        print(f"KNOWN-FINDING: property={prop} {kid}: {what}")

    violations = list(run.get("violations", []))
    corr_broken = list(run.get("corr_broken", []))
    exit_code = 0
    nviol = 0
    for v in violations[:5]:
        path = engine.write_replay(prop, {"kind": "violation", **v})
        print(f"VIOLATION property={prop} replay={path}")
        nviol += 1
        exit_code = 1
    if not violations and (broken or corr_broken):
        # ---- 6. a broken obligation or correspondence: search for a failing input
        found = mod.search(ctx, broken, corr_broken) if hasattr(mod, "search") else []
        if found:
            for v in found[:5]:
                path = engine.write_replay(prop, {"kind": "violation", "found_by": "search", **v,
                                                  "broken": broken, "corr_broken": corr_broken[:3]})
                print(f"VIOLATION property={prop} replay={path}")
                nviol += 1
        else:
            path = engine.write_replay(prop, {"kind": "unproved", "broken": broken,
                                              "corr_broken": corr_broken[:5],
                                              "note": "no input found on which the property fails on /repo; "
                                                      "the listed theorem(s) / correspondence no longer check"})
            print(f"VIOLATION property={prop} replay={path} no-failing-input-found")
            nviol += 1
        exit_code = 1
    try:
        cs = engine.coverage_summary()
        if cs["executed"]:
            run["implementation_lines_executed"] = {
                "executed": cs["executed"], "executable": cs["executable"],
                "per_file": {k: f"{v['executed']}/{v['executable']}" for k, v in cs["files"].items() if v["executable"]},
                "not_executed": {k: v["not_executed"] for k, v in cs["files"].items() if v["not_executed"]},
                "note": "lines of /repo/docx2python executed by this check's correspondence and oracle runs (sys.monitoring)"}
    except Exception:  # noqa: BLE001
        pass
    run.pop("violations", None)
    run.pop("corr_broken", None)
    run.pop("known", None)
    engine.write_evidence(prop, args.tier, seed, t0, comp, run, nviol,
                          extra={"broken_obligations": [b["what"] for b in broken],
                                 **({"coqchk": comp["coqchk"]} if comp and comp.get("coqchk") else {})})
    return exit_code


if __name__ == "__main__":
    sys.exit(main())
