"""Histories of operations on one DocxContent / DocxReader object (C14, C15)."""
from __future__ import annotations

import copy
import gc
import hashlib
import io
import os
import random
import shutil
import tempfile
import warnings
import zipfile
from pathlib import Path

import common
import engine

common.assert_repo_under_test()
import docgen  # noqa: E402
import impl_pkg  # noqa: E402

TYPES = ["header", "officeDocument", "footer", "footnotes", "endnotes"]
ATTRS = ([("pars", t) for t in TYPES] + [("runs", t) for t in TYPES] + [("plain", t) for t in TYPES]
         + [("docpars",), ("docruns",), ("doc",), ("text",), ("html_map",), ("images",), ("core",), ("comments",)])


class Marker(Exception):
    pass


def attr_name(a):
    k = a[0]
    if k in ("pars", "runs", "plain"):
        base = a[1]
        return base + {"pars": "_pars", "runs": "_runs", "plain": ""}[k]
    return {"docpars": "document_pars", "docruns": "document_runs", "doc": "document", "text": "text",
            "html_map": "html_map", "images": "images", "core": "core_properties", "comments": "comments"}[k]


def attr_code(a):
    k = a[0]
    if k in ("pars", "runs", "plain"):
        return [{"pars": 0, "runs": 1, "plain": 2}[k], common.S(a[1])]
    return [{"docpars": 3, "docruns": 4, "doc": 5, "text": 6, "html_map": 7, "images": 8, "core": 9,
             "comments": 10}[k]]


def freeze(v):
    """comparable, mutation-proof snapshot of a returned value"""
    if isinstance(v, list):
        return tuple(freeze(x) for x in v)
    if isinstance(v, tuple):
        return tuple(freeze(x) for x in v)
    if isinstance(v, dict):
        return tuple((k, freeze(x)) for k, x in v.items())
    if hasattr(v, "run_strings") and hasattr(v, "lineage"):
        return ("Par", tuple(v.run_strings), tuple(v.html_style), v.style, v.lineage,
                (v.list_position[0], tuple(v.list_position[1])))
    return v


def mutate(v, rng):
    """deep in-place mutation of a returned string-level value"""
    if isinstance(v, list):
        for x in v:
            mutate(x, rng)
        if v and isinstance(v[0], str):
            v[0] = "MUTATED"
        v.append("JUNK" if (not v or isinstance(v[0], str)) else [])
    elif isinstance(v, dict):
        for k in list(v):
            v[k] = b"MUT" if isinstance(v[k], bytes) else "MUT"
        v["extra"] = "x"


def gen_history(rng, length):
    ops = []
    for _ in range(length):
        c = rng.random()
        if c < 0.7:
            ops.append(("read", rng.choice(ATTRS)))
        elif c < 0.76:
            ops.append(("save_images",))
        elif c < 0.82:
            ops.append(("save",))
        elif c < 0.92:
            ops.append(("close",))
        else:
            ops.append(("exit", rng.random() < 0.5))
    return ops


def op_code(op):
    if op[0] == "read":
        return [0, attr_code(op[1])]
    return {"save_images": [1], "save": [2], "close": [3]}.get(op[0]) or [4, 1 if op[1] else 0]


def n_fds():
    return len(os.listdir("/proc/self/fd"))


def fresh_interpreter_digest(data: bytes, html: bool, dup: bool, tmp: str):
    """sha256 of the frozen values of all attributes, computed by a fresh Python process"""
    import subprocess
    import sys
    path = os.path.join(tmp, "fresh_in.docx")
    open(path, "wb").write(data)
    code = ("import sys, hashlib, warnings; warnings.simplefilter('ignore'); import lifesweep as L; "
            "from docx2python import docx2python; "
            f"d = docx2python({path!r}, html={html!r}, duplicate_merged_cells={dup!r}); "
            "vals = []\n"
            "for a in L.ATTRS:\n"
            "    try: vals.append(L.freeze(getattr(d, L.attr_name(a))))\n"
            "    except Exception as ex: vals.append(('exc', type(ex).__name__))\n"
            "d.close(); "
            "print(hashlib.sha256(repr(vals).encode()).hexdigest())")
    try:
        p = subprocess.run([sys.executable, "-c", code], capture_output=True, text=True, timeout=120,
                           env=dict(os.environ))
        out = p.stdout.strip().splitlines()
        return out[-1] if p.returncode == 0 and out else None
    except Exception:  # noqa: BLE001
        return None


def eval_history(state, arg):
    stream, sub, fixed_ops = arg
    rng = random.Random(sub)
    pkg = docgen.gen_package(random.Random(sub), docgen.Knobs(max_blocks=4, max_runs=3, links=0.45, link_mixed_format=0.5, lists=0.55, tables=0.15, images=0.5))
    data = pkg.to_bytes()
    html = rng.random() < 0.4
    dup = rng.random() < 0.7
    kind = rng.choice(["str", "path", "bytesio"])
    ops = fixed_ops if fixed_ops is not None else gen_history(rng, rng.randint(1, 10))
    res = {"stream": stream, "sub": sub, "features": sorted({o[0] + (":" + attr_name(o[1]) if o[0] == "read" else "")
                                                             for o in ops} | {"input:" + kind}),
           "fails": [], "corr": None, "arg": [list(o) for o in ops],
           "key": hashlib.sha256(data + repr(ops).encode() + kind.encode()).hexdigest()[:16]}
    tmp = tempfile.mkdtemp(prefix="d2p_life_")
    made = []
    orig_init = zipfile.ZipFile.__init__

    def counting_init(self, file, *a, **k):
        mode = a[0] if a else k.get("mode", "r")
        if mode == "r":
            made.append(file)
        return orig_init(self, file, *a, **k)

    try:
        from docx2python import docx2python

        with warnings.catch_warnings():
            warnings.simplefilter("ignore")
            if fixed_ops is None and rng.random() < 0.2:
                # the same document with the OTHER family of namespace URIs (strict / ISO) was extracted
                # earlier in this process: extraction is a function of the archive bytes alone, whatever
                # was read before (round-7 seed C14-qn-cache-by-tag: a module-level memo keyed too
                # coarsely).  The reference below then comes from a FRESH interpreter.
                try:
                    import pkgsweep
                    twin = pkgsweep.strict_rels(docgen.gen_package(
                        random.Random(sub), docgen.Knobs(max_blocks=4, max_runs=3, links=0.45, link_mixed_format=0.5, lists=0.55, images=0.5,
                                                         tables=0.15), ns=common.NS_S)).to_bytes()
                    tw = docx2python(io.BytesIO(twin), html=html, duplicate_merged_cells=dup)
                    tw_vals = []
                    try:
                        for a in ATTRS:
                            try:
                                tw_vals.append(freeze(getattr(tw, attr_name(a))))
                            except Exception as ex:  # noqa: BLE001
                                tw_vals.append(("exc", type(ex).__name__))
                    finally:
                        tw.close()
                    res["features"].append("other_uri_family_first")
                    # whichever of the two families this process met first, the other one is the possible
                    # victim: the twin is compared with a fresh interpreter too
                    want_tw = fresh_interpreter_digest(twin, html, dup, tmp)
                    if want_tw is not None and want_tw != hashlib.sha256(repr(tw_vals).encode()).hexdigest():
                        res["fails"].append(["pure_function", "the values of the strict-URI twin differ from those a fresh interpreter "
                                                              "extracts from the same bytes (documents of the other URI family were "
                                                              "extracted earlier in this process)"])
                except Exception:  # noqa: BLE001
                    pass
            # reference values from fresh objects; the model covers packages that read cleanly
            fresh = {}
            ref = docx2python(io.BytesIO(data), html=html, duplicate_merged_cells=dup)
            try:
                for a in ATTRS:
                    try:
                        fresh[a] = freeze(getattr(ref, attr_name(a)))
                    except Exception:  # noqa: BLE001
                        res["features"].append("unreadable")
                        return res
            finally:
                ref.close()
            if "other_uri_family_first" in res["features"]:
                want = fresh_interpreter_digest(data, html, dup, tmp)
                got = hashlib.sha256(repr([fresh[a] for a in ATTRS]).encode()).hexdigest()
                if want is not None and want != got:
                    res["fails"].append(["pure_function", "the values differ from those a fresh interpreter extracts from the same bytes "
                                                          "(another document was extracted earlier in this process)"])
            src_path = os.path.join(tmp, "in.docx")
            if kind != "bytesio" and rng.random() < 0.5:
                # another document was extracted from this very path earlier in the process:
                # extraction is a function of the archive BYTES, not of the file name
                other = docgen.gen_package(random.Random(sub + 1), docgen.Knobs(max_blocks=3, max_runs=4, links=0.6, link_mixed_format=0.5)).to_bytes()
                open(src_path, "wb").write(other)
                try:
                    prev = docx2python(src_path, html=html, duplicate_merged_cells=dup)
                    try:
                        for a in ATTRS:
                            try:
                                getattr(prev, attr_name(a))
                            except Exception:  # noqa: BLE001
                                pass
                    finally:
                        prev.close()
                except Exception:  # noqa: BLE001
                    pass
                res["features"].append("path_reused")
            open(src_path, "wb").write(data)
            buf = io.BytesIO(data)
            if kind == "bytesio" and rng.random() < 0.5:
                # a buffer that was just filled with write() (or already read once): its position is at the end;
                # an in-memory input gives the same values wherever its position is (round-10 seed
                # C14-private-copy-of-stream-from-position)
                buf.seek(0, 2) if rng.random() < 0.6 else buf.seek(rng.randrange(1, max(2, len(data))))
                res["features"].append("stream_not_at_start")
            src = {"str": src_path, "path": Path(src_path), "bytesio": buf}[kind]
            gc.collect()
            fd0 = n_fds()
            zipfile.ZipFile.__init__ = counting_init
            d = docx2python(src, html=html, duplicate_merged_cells=dup)
            outcomes = []
            closed = False
            opened_after_close = 0
            for op in ops:
                n_made = len(made)
                try:
                    if op[0] == "read":
                        if (not closed and op[1] in (("plain", "officeDocument"), ("runs", "officeDocument"), ("doc",), ("text",),
                                                     ("docruns",)) and rng.random() < 0.5):
                            # a partial extraction through the reader API first (File.get_text(elem)):
                            # it needs nothing the following full read does not need, and must not
                            # influence it (list numbering does not advance on re-reading)
                            try:
                                f0 = d.docx_reader.file_of_type("officeDocument")
                                ps = [e for e in f0.root_element.iter() if isinstance(e.tag, str) and e.tag.endswith("}p")]
                                numbered = [e for e in ps if any(isinstance(k.tag, str) and k.tag.endswith("}numPr") for k in e.iter())]
                                if numbered and rng.random() < 0.7:
                                    ps = numbered[1:] or numbered
                                if ps:
                                    f0.get_text(ps[rng.randrange(len(ps))])
                                    if "partial_read" not in res["features"]:
                                        res["features"].append("partial_read")
                            except Exception:  # noqa: BLE001
                                pass
                        v = getattr(d, attr_name(op[1]))
                        if freeze(v) != fresh[op[1]]:
                            res["fails"].append(["pure_function", f"{attr_name(op[1])} differs from a fresh object's value"
                                                 + (" (after close)" if closed else "")])
                        # the *_pars values share their lists with the collector by design;
                        # only string-level values are promised to be fresh
                        if op[1][0] not in ("pars", "docpars"):
                            mutate(v, rng)
                        outcomes.append([0])
                    elif op[0] == "save_images":
                        v = d.save_images(os.path.join(tmp, "imgs"))
                        if freeze(v) != fresh[("images",)]:
                            res["fails"].append(["pure_function", "save_images differs from images"])
                        outcomes.append([0])
                    elif op[0] == "save":
                        d.docx_reader.save(os.path.join(tmp, f"saved{len(outcomes)}.docx"))
                        outcomes.append([0])
                    elif op[0] == "close":
                        d.close()
                        closed = True
                        outcomes.append([2])
                    else:
                        if op[1]:
                            m = Marker()
                            try:
                                with d:
                                    raise m
                            except Marker as got:
                                if got is not m:
                                    res["fails"].append(["with_exception", "a different exception propagated"])
                            else:
                                res["fails"].append(["with_exception", "the exception raised in the with block was swallowed"])
                        else:
                            with d:
                                pass
                        closed = True
                        outcomes.append([2])
                    if op[0] in ("close", "exit"):
                        # "leaving a with block closes exactly as close() does" and "no file handle opened by
                        # the library is left open": checked right here, not only at the end of the history
                        # (round-7 seed C15-nested-with-blocks-skip-close)
                        zf_now = d.docx_reader._DocxReader__zipf
                        if zf_now is not None and zf_now.fp is not None:
                            res["fails"].append(["handle_released",
                                                 f"the archive is still open right after {'close()' if op[0] == 'close' else 'leaving the with block'}"])
                        del zf_now
                except Exception as ex:  # noqa: BLE001
                    outcomes.append([1, common.EXN_CODES.get(type(ex).__name__, 98)])
                    if not closed:
                        res["fails"].append(["read_before_close", f"{op!r} raised {type(ex).__name__} before close"])
                    elif not isinstance(ex, ValueError):
                        res["fails"].append(["read_after_close", f"{op!r} raised {type(ex).__name__}, not ValueError"])
                if closed and len(made) > n_made and op[0] not in ("close", "exit"):
                    opened_after_close += len(made) - n_made
            if opened_after_close:
                res["fails"].append(["never_reopened", f"the archive was opened {opened_after_close} time(s) after close"])
            d.close()
            d.close()  # closing again is harmless
            zf = d.docx_reader._DocxReader__zipf
            if zf is not None and zf.fp is not None:
                res["fails"].append(["handle_released", "zip file pointer still open after close"])
            del d, zf
            gc.collect()
            if kind != "bytesio" and n_fds() > fd0:
                res["fails"].append(["handle_released", f"{n_fds() - fd0} descriptor(s) left open"])
            if open(src_path, "rb").read() != data or buf.getvalue() != data:
                res["fails"].append(["input_untouched", "input file or buffer modified"])
            if kind == "bytesio" and buf.closed:
                res["fails"].append(["input_untouched", "caller's buffer was closed"])
            # ---- DocxReader as a context manager
            from docx2python.docx_reader import DocxReader

            m = Marker()
            try:
                with DocxReader(src_path) as r:
                    _ = r.files
                    raise m
            except Marker:
                pass
            else:
                res["fails"].append(["with_exception_reader", "DocxReader.__exit__ swallowed the exception"])
            try:
                _ = r.zipf
                res["fails"].append(["read_after_close", "DocxReader.zipf usable after with block"])
            except ValueError:
                pass
            # ---- correspondence with the lifecycle model
            if state["model"] is not None:
                case, _ = impl_pkg.model_case(data, html, dup)
                mo = state["model"].run([7, 1 if html else 0, 1 if dup else 0, case[3], [op_code(o) for o in ops]])
                if mo[0] != 0 or mo[1] != outcomes:
                    res["corr"] = {"ops": [list(o) for o in ops], "impl": outcomes, "model": mo[1] if mo[0] == 0 else mo}
    except Exception as ex:  # noqa: BLE001
        import traceback
        res["fails"].append(["harness", f"{type(ex).__name__}: {ex} {traceback.format_exc()[-400:]}"])
    finally:
        zipfile.ZipFile.__init__ = orig_init
        shutil.rmtree(tmp, ignore_errors=True)
    return res


def eval_history_nomodel(state, arg):
    return eval_history({"model": None}, arg)


def exhaustive_histories(max_len):
    """all histories up to max_len over a reduced alphabet"""
    alpha = [("read", ("plain", "officeDocument")), ("read", ("comments",)), ("read", ("images",)),
             ("read", ("text",)), ("save",), ("close",), ("exit", True)]
    out = [[]]
    frontier = [[]]
    for _ in range(max_len):
        frontier = [h + [o] for h in frontier for o in alpha]
        out += frontier
    return [h for h in out if h]
