"""Differential check model vs /repo at package level (public attributes)."""
from __future__ import annotations

import random
import sys
import time

import common
from common import Model, assert_repo_under_test

assert_repo_under_test()
import docgen  # noqa: E402
import impl_pkg  # noqa: E402
from diff_parts import first_diff  # noqa: E402


def canon_pars(x):
    """drop paths of copies"""
    if x[0] == 0:
        return [0, [canon_pars(y) for y in x[1]]]
    rec = x[1]
    if rec[5] and rec[5][0] == 1:
        rec = rec[:5] + [[1, []]]
    return [1, rec]


def canon(obs):
    o = list(obs)
    o[1] = [([0, [canon_pars(t[1][0]), t[1][1], t[1][2]]] if t[0] == 0 else t) for t in o[1]]
    # images: order of dict irrelevant? keep order (dict insertion order is observable)
    return o


def main():
    n = int(sys.argv[1]) if len(sys.argv) > 1 else 50
    seed = int(sys.argv[2]) if len(sys.argv) > 2 else 1
    knob = float(sys.argv[3]) if len(sys.argv) > 3 else None
    model = Model()
    rng = random.Random(seed)
    t0 = time.time()
    bad = agree = 0
    for i in range(n):
        sub = rng.randrange(1 << 30)
        kn = docgen.Knobs()
        if knob is not None:
            import dataclasses
            for fld in dataclasses.fields(kn):
                if fld.type == "float" and getattr(kn, fld.name) == 0.0:
                    setattr(kn, fld.name, knob)
        pkg = docgen.gen_package(random.Random(sub), kn)
        data = pkg.to_bytes()
        for html in (False, True):
            for dup in (True, False):
                case, payloads = impl_pkg.model_case(data, html, dup)
                impl = canon(impl_pkg.observe(data, html, dup, payloads))
                mod = canon(impl_pkg.model_images_to_keys(model.run(case), payloads))
                if impl == mod:
                    agree += 1
                else:
                    bad += 1
                    if bad <= 6:
                        d = first_diff(impl, mod)
                        print(f"DISAGREE seed={sub} html={html} dup={dup}")
                        print("   at", d[0])
                        print("   impl:", str(d[1])[:400])
                        print("   model:", str(d[2])[:400])
    print("agree", agree, "disagree", bad, f"{time.time()-t0:.1f}s")


if __name__ == "__main__":
    main()
