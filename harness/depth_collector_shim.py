"""observation of File.get_content(elem) / get_text(elem) in the jt shape of Driver.observe_part_at"""
import warnings

import impl_part
from common import EXN_CODES, S


def partial_obs(f, elem, root):
    with warnings.catch_warnings():
        warnings.simplefilter("ignore")
        try:
            pars = f.get_content(elem)
            runs = f.get_text(elem)
            return [0, [impl_part.enc_nested(pars, lambda p: impl_part.enc_par(p, root)),
                        impl_part.enc_nested(runs, S)]]
        except Exception as ex:  # noqa: BLE001
            return [1, EXN_CODES.get(type(ex).__name__, 98)]


def canon_partial(obs):
    """a copied record (made by copy.deepcopy for a merged cell) is detached from the tree: its path is not observable"""
    if not (isinstance(obs, list) and obs and obs[0] == 0):
        return obs

    def pars(x):
        if x[0] == 0:
            return [0, [pars(y) for y in x[1]]]
        rec = list(x[1])
        if rec[5] and rec[5][0] == 1:
            rec[5] = [1, []]
        return [1, rec]
    return [0, [pars(obs[1][0]), obs[1][1]]]
