"""Shared helpers: namespaces, the jt interchange codec, lifting of lxml trees,
running the extracted model driver."""
from __future__ import annotations

import json
import os
import subprocess
import sys
from pathlib import Path

VERIF = Path(__file__).resolve().parent.parent
REPO = Path(os.environ.get("D2P_REPO", "/repo"))
DRIVER = VERIF / "coq" / "extract" / "build" / "d2p_driver"

# customary prefixes, transitional URIs
NS_T = {
    "w": "http://schemas.openxmlformats.org/wordprocessingml/2006/main",
    "r": "http://schemas.openxmlformats.org/officeDocument/2006/relationships",
    "a": "http://schemas.openxmlformats.org/drawingml/2006/main",
    "wp": "http://schemas.openxmlformats.org/drawingml/2006/wordprocessingDrawing",
    "v": "urn:schemas-microsoft-com:vml",
    "m": "http://schemas.openxmlformats.org/officeDocument/2006/math",
    "pic": "http://schemas.openxmlformats.org/drawingml/2006/picture",
    "mc": "http://schemas.openxmlformats.org/markup-compatibility/2006",
    "w14": "http://schemas.microsoft.com/office/word/2010/wordml",
    "o": "urn:schemas-microsoft-com:office:office",
}
# strict (ISO) URIs for the same prefixes
NS_S = dict(NS_T)
NS_S.update(
    {
        "w": "http://purl.oclc.org/ooxml/wordprocessingml/main",
        "r": "http://purl.oclc.org/ooxml/officeDocument/relationships",
        "a": "http://purl.oclc.org/ooxml/drawingml/main",
        "wp": "http://purl.oclc.org/ooxml/drawingml/wordprocessingDrawing",
        "m": "http://purl.oclc.org/ooxml/officeDocument/math",
        "pic": "http://purl.oclc.org/ooxml/drawingml/picture",
    }
)
REL_NS = "http://schemas.openxmlformats.org/package/2006/relationships"
REL_T = "http://schemas.openxmlformats.org/officeDocument/2006/relationships/"
REL_S = "http://purl.oclc.org/ooxml/officeDocument/relationships/"
REL_PKG = "http://schemas.openxmlformats.org/package/2006/relationships/metadata/"


def assert_repo_under_test():
    """The implementation under test must be /repo's working tree."""
    sys.path.insert(0, str(REPO))
    import docx2python  # noqa: PLC0415

    where = Path(docx2python.__file__).resolve()
    if REPO.resolve() not in where.parents:
        raise SystemExit(f"docx2python imported from {where}, not from {REPO}")


# ------------------------------------------------------------------ codec
def S(s: str) -> list[int]:
    return [ord(c) for c in s]


def OS(s) -> list:
    return [] if s is None else [S(str(s))]


def unS(x) -> str:
    return "".join(chr(c) for c in x)


def unOS(x):
    return None if not x else unS(x[0])


def encZ(z: int) -> list:
    return [1, -z] if z < 0 else [0, z]


def dumps(x) -> str:
    return json.dumps(x, separators=(",", ":"))


# ---------------------------------------------------------------- lifting
class Interner:
    """Injective shortening of namespace URIs: `N/last-segment`.  The model
    depends on URIs only through equality and (for a relationships part's root)
    the last path segment - the C18 theorems `view_rename_uris` state the
    invariance that makes this sound; it keeps model inputs small."""

    def __init__(self):
        self.m: dict[str, str] = {}

    def __call__(self, uri):
        if uri is None:
            return None
        if uri not in self.m:
            last = [p for p in uri.split("/") if p and p != "."]
            self.m[uri] = f"{len(self.m)}/{last[-1] if last else ''}"
        return self.m[uri]


def lift(elem, intern=None, keep_prefixes=("w", "r")) -> list:
    """lxml node -> rnode in jt form.  Only the namespace bindings the model's
    `view` looks at (w, r) are transmitted: view ignores all others."""
    from lxml import etree  # noqa: PLC0415

    intern = intern or (lambda u: u)
    if not isinstance(elem.tag, str):
        return [0, OS(elem.tail)]
    q = etree.QName(elem.tag)
    nsmap = elem.nsmap
    ns = [[OS(p), S(intern(nsmap[p]))] for p in keep_prefixes if p in nsmap]
    attrs = []
    for k, v in elem.attrib.items():
        qa = etree.QName(k)
        attrs.append([OS(intern(qa.namespace)), S(qa.localname), S(v)])
    return [
        1,
        OS(elem.prefix),
        OS(intern(q.namespace)),
        S(q.localname),
        ns,
        attrs,
        OS(elem.text),
        OS(elem.tail),
        [lift(k, intern, keep_prefixes) for k in elem],
    ]


def enc_tree(elem, intern=None) -> list:
    """lxml node -> the jt form Driver.enc_anode prints (for the merged tree)."""
    from lxml import etree  # noqa: PLC0415

    intern = intern or (lambda u: u)
    if not isinstance(elem.tag, str):
        return [0, OS(elem.tail)]
    q = etree.QName(elem.tag)
    attrs = []
    for k, v in elem.attrib.items():
        qa = etree.QName(k)
        attrs.append([OS(intern(qa.namespace)), S(qa.localname), S(v)])
    return [1, OS(intern(q.namespace)), S(q.localname), attrs, OS(elem.text), OS(elem.tail),
            [enc_tree(k, intern) for k in elem]]


# ----------------------------------------------------------- model driver
class Model:
    """Persistent pipe to the extracted OCaml driver."""

    def __init__(self):
        if not DRIVER.exists():
            raise SystemExit(f"model driver not built: {DRIVER} (run make -C {VERIF} setup)")
        # the extracted list functions are not tail-recursive: give the
        # driver an unlimited system stack
        self.small = None
        self.p = subprocess.Popen(
            ["bash", "-c", f"ulimit -s unlimited 2>/dev/null; exec '{DRIVER}'"],
            stdin=subprocess.PIPE, stdout=subprocess.PIPE, bufsize=0,
        )

    def run(self, case) -> object:
        line = dumps(case).encode("ascii") + b"\n"
        self.p.stdin.write(line)
        self.p.stdin.flush()
        out = self.p.stdout.readline()
        if not out:
            raise RuntimeError("model driver died")
        # remember the smallest case of this batch for the vm_compute cross-check
        if len(line) < 40000 and (self.small is None or len(line) < len(self.small[0])):
            self.small = (line.decode().strip(), out.decode().strip())
        return json.loads(out)

    def take_small(self):
        s, self.small = self.small, None
        return s

    def close(self):
        try:
            self.p.stdin.close()
            self.p.wait(timeout=5)
        except Exception:  # noqa: BLE001
            self.p.kill()


EXN_CODES = {
    "KeyError": 1,
    "IndexError": 2,
    "ValueError": 3,
    "TypeError": 4,
    "AttributeError": 5,
    "CaretDepthError": 6,
    "StopIteration": 7,
}
EXN_NAMES = {v: k for k, v in EXN_CODES.items()}
EXN_NAMES[99] = "ModelError"
