"""C09 — parts are found through package relationships, not file names."""
from props import _pkg

run, search, replay = _pkg.make(
    "C09", "eval_layout",
    ("docgen packages x 2 random re-layouts each: content parts renamed, the whole word/ directory moved to another "
     "(possibly nested, dotted) directory, parts moved into sub-directories, targets relative or package-absolute, "
     "per-part relationship files following their parts, optional parts absent; both html settings; oracle: every "
     "content attribute, text, images, core properties and comments equal those of the canonical layout; the file "
     "list and all attributes are compared with Package.files / Content; non-trivial = >= 2 content parts; "
     "distinct = package bytes"),
    "Package.files + Content <-> DocxReader.files + DocxContent on re-laid-out packages",
    lambda fs: len(fs & {"header_part", "footer_part", "footnotes_part", "endnotes_part", "comments_part"}) >= 1,
    80, 3000)
