"""C03 — string, run and record views agree; document and text are concatenations."""
import docsweep
import oracles
from props._common import make


def project(raw):
    # the three views of every part type and text
    return [raw[1], raw[2]]


def oracle(ctx):
    return oracles.o_views(ctx) + oracles.o_document_concat(ctx) + oracles.o_views_after_edit(ctx)


SPEC = docsweep.Spec(
    prop="C03",
    rule=("docgen packages with 0-2 headers/footers, notes, tables, nested paragraphs x 4 option settings + corpus; "
          "oracle = the four equalities of the statement evaluated on /repo's values; "
          "non-trivial = at least two content parts or a table; distinct = distinct package bytes"),
    knobs={"nested_pars": 0.2},
    project=project,
    oracle=oracle,
    nontrivial=lambda fs: bool(fs & {"table", "header_part", "footer_part", "footnotes_part", "endnotes_part", "corpus"}),
    n_quick=100, n_thorough=3000,
)
run, search, replay = make(SPEC)
