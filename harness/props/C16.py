"""C16 — saving round-trips: same members, same extraction, edits carried over."""
import glob
import json
import os

import archsweep
import common
import engine

RULE = ("docgen packages (binary media, custom XML, unrelated members) and the corpus, html random; the saved archive "
        "is compared member by member with the model's description (Save.save), then: names each once, untouched "
        "members byte-identical, re-extraction equal under both duplicate_merged_cells settings, second save "
        "unchanged, random text-node / relationship-target edits carried over, input untouched; stream `retarget`: a hyperlink "
        "relationship re-pointed through File.rels_element (before or after File.rels / the part were read), saved, "
        "and the saved file saved again: the content part is reproduced; "
        "non-trivial = has images or a second content part or a table; distinct = package bytes")


def cases(ctx, n):
    args = [("witness", f["witness"]["seed"]) for f in ctx["findings"] if f.get("status") == "known" and f.get("witness")]
    files = sorted(glob.glob(str(common.REPO / "tests/resources/*.docx")))
    files = [f for f in files if 0 < os.path.getsize(f) < (60000 if ctx["tier"] == "quick" else 10**9)]
    args += [("corpus", f) for f in files]
    args += [("main", engine.sub_seed(ctx["seed"], i, "C16")) for i in range(n)]
    return args


def run(ctx):
    n = 80 if ctx["tier"] == "quick" else 3000
    fn = "eval_save" if ctx["model_ok"] else "eval_save_nomodel"
    results = engine.sweep("archsweep", fn, cases(ctx, n), chunksize=2)
    res = archsweep.summarise(ctx, results, RULE, "Save.save <-> DocxReader.save (written archive, member by member)",
                              lambda fs: bool(fs & {"drawing", "pict", "table", "header_part", "footer_part", "corpus"}))
    # relationships re-pointed through the reader, then saved twice
    m = 60 if ctx["tier"] == "quick" else 1500
    r2 = engine.sweep("archsweep", "eval_retarget", [("retarget", engine.sub_seed(ctx["seed"], i, "C16r")) for i in range(m)])
    s2 = archsweep.summarise(ctx, r2, RULE, "", lambda fs: "retargeted" in fs)
    res["violations"] += [v for v in s2["violations"] if not v["what"].startswith("retarget_render")]
    res["corr_broken"] += s2["corr_broken"]
    res["evaluations"] += s2["evaluations"]
    res["retarget_cases"] = s2["feature_histogram"].get("retargeted", 0)
    res["stream_histogram"].update(s2["stream_histogram"])
    return res


def search(ctx, broken, corr_broken):
    args = [(c["stream"], c["seed"]) for c in corr_broken if "seed" in c]
    args += [("main", engine.sub_seed(ctx["seed"] + 1, i, "C16")) for i in range(600)]
    results = engine.sweep("archsweep", "eval_save_nomodel", args, chunksize=4)
    out = archsweep.summarise(ctx, results, RULE, "", lambda fs: True)["violations"]
    r2 = engine.sweep("archsweep", "eval_retarget", [("retarget", engine.sub_seed(ctx["seed"] + 1, i, "C16r")) for i in range(300)])
    out += [v for v in archsweep.summarise(ctx, r2, RULE, "", lambda fs: True)["violations"]
            if not v["what"].startswith("retarget_render")]
    return out


def replay(ctx, path):
    d = json.load(open(path))
    if "seed" not in d:
        print("replay file names no input:", d.get("note"))
        return 1
    if d["stream"] == "retarget":
        r = archsweep.eval_retarget({"model": None}, (d["stream"], d["seed"]))
        r["fails"] = [x for x in r["fails"] if x[0] != "retarget_render"]
    else:
        r = archsweep.eval_save({"model": None}, (d["stream"], d["seed"]))
    if r["fails"]:
        print(f"VIOLATION property=C16 replay={path}")
        for f in r["fails"]:
            print("  ", f)
        return 1
    print("replay passes")
    return 0
