"""C15 — close() and with-blocks release the archive for every usage history."""
from props import _life

ORACLES = {"read_before_close", "read_after_close", "never_reopened", "handle_released", "with_exception",
           "with_exception_reader", "pure_function"}
RULE = ("same histories as C14; oracle: before close every read returns the fresh value; after close a read returns "
        "that value or raises ValueError; zipfile.ZipFile is never constructed for reading after close (counted by "
        "wrapping the constructor inside the harness process); closing twice is harmless; the zip's file pointer is "
        "None and no descriptor is left in /proc/self/fd; an exception raised inside `with` (DocxContent and "
        "DocxReader) propagates as the very same object; non-trivial = >= 1 read and a close/exit/save; "
        "distinct = (package, history, input kind)")


def run(ctx):
    return _life.run(ctx, "C15", ORACLES, RULE, 250, 8000, 4, 5)


def search(ctx, broken, corr_broken):
    return _life.search(ctx, "C15", ORACLES)


def replay(ctx, path):
    return _life.replay(ctx, "C15", path, ORACLES)
