"""shared by C14 and C15: histories on one object"""
import json

import archsweep
import engine
import lifesweep


def cases(ctx, prop, n, exhaustive_len):
    args = []
    for f in ctx["findings"]:
        w = f.get("witness")
        if f.get("status") == "known" and w:
            args.append((w["stream"], w["seed"], w.get("ops")))
    hs = lifesweep.exhaustive_histories(exhaustive_len)
    args += [("exhaustive", engine.sub_seed(ctx["seed"], i % 7, prop + "x"), h) for i, h in enumerate(hs)]
    args += [("main", engine.sub_seed(ctx["seed"], i, prop), None) for i in range(n)]
    return args


def run(ctx, prop, oracles_of, rule, n_quick, n_thorough, ex_quick, ex_thorough):
    quick = ctx["tier"] == "quick"
    args = cases(ctx, prop, n_quick if quick else n_thorough, ex_quick if quick else ex_thorough)
    fn = "eval_history" if ctx["model_ok"] else "eval_history_nomodel"
    results = engine.sweep("lifesweep", fn, args, chunksize=4)
    for r in results:
        if "harness_error" not in r:
            r["fails"] = [f for f in r["fails"] if f[0] in oracles_of or f[0] == "harness"]
    out = archsweep.summarise(ctx, results, rule,
                              "Lifecycle.run_ops <-> one DocxContent object (outcome class of every operation)",
                              lambda fs: len([f for f in fs if f.startswith("read:")]) >= 1 and bool(fs & {"close", "exit", "save"}))
    out["exhaustive"] = True
    return out


def search(ctx, prop, oracles_of):
    args = [("main", engine.sub_seed(ctx["seed"] + 1, i, prop), None) for i in range(1500)]
    results = engine.sweep("lifesweep", "eval_history_nomodel", args, chunksize=8)
    for r in results:
        if "harness_error" not in r:
            r["fails"] = [f for f in r["fails"] if f[0] in oracles_of]
    return archsweep.summarise(ctx, results, "", "", lambda fs: True)["violations"]


def replay(ctx, prop, path, oracles_of):
    d = json.load(open(path))
    if "seed" not in d:
        print("replay file names no input:", d.get("note"))
        return 1
    ops = d.get("arg")
    ops = [tuple(tuple(x) if isinstance(x, list) else x for x in o) for o in ops] if ops else None
    r = lifesweep.eval_history({"model": None}, (d["stream"], d["seed"], ops))
    bad = [f for f in r["fails"] if f[0] in oracles_of]
    if bad:
        print(f"VIOLATION property={prop} replay={path}")
        for f in bad:
            print("  ", f)
        return 1
    print("replay passes")
    return 0
