"""C04 — tables come out n x m; merged cells are duplicated or blanked as configured."""
import docsweep
import oracles2
from props._common import make, proj_types


def project(raw):
    # strings and source-element flags of every cell
    def pick(t):
        def st(x):
            if x[0] == 0:
                return [st(y) for y in x[1]]
            return [x[1][0], bool(x[1][5])]
        return [0, st(t[1][0])]
    return proj_types(raw, pick)


SPEC = docsweep.Spec(
    prop="C04",
    rule=("docgen packages dense in tables: random grids up to 4x4 tiled by up to three rectangular merged cells "
          "(gridSpan, vMerge restart/continue, the continue marker bare or with an explicit value), tables in every "
          "content part, first/last in the body; all 4 option settings; oracle recomputes the expected grid from the "
          "source table (origin cell of every grid position) and compares cell by cell; non-trivial = has a merged "
          "cell; distinct = package bytes"),
    knobs={"tables": 0.6, "merged_cells": 0.8, "nested_pars": 0.0, "max_blocks": 5},
    edge=["nested_tables", "sdt_in_table", "nested_par_in_table"],
    project=project,
    oracle=oracles2.o_grid,
    nontrivial=lambda fs: bool(fs & {"merged_cells", "corpus"}),
    n_quick=150, n_thorough=6000,
)
run, search, replay = make(SPEC)
