"""C20 — iterator helpers enumerate every item once, in order, with valid addresses."""
from __future__ import annotations

import copy
import itertools
import json
import random

import common
import engine

common.assert_repo_under_test()
from docx2python import iterators as it  # noqa: E402

RULE = ("nested lists with integer leaves: all ragged trees with <= N list nodes enumerated "
        "exhaustively per depth 0..7 + random wide trees (indices >= 300); a case is non-trivial "
        "when the tree has >= 2 items at the requested depth or the depth is out of range; "
        "distinct = distinct (tree, depth); + lists with str leaves enumerated at depths that reach into the "
        "strings (a str is a sequence of 1-character strs; the model sees the exploded list)")


def all_trees(n_lists: int, max_depth: int):
    """all nested lists with exactly n_lists list nodes (root included), leaves added later"""
    if n_lists == 1:
        yield []
        return
    if max_depth <= 1:
        return
    # root with children forming a sequence of trees with total n_lists-1 nodes
    def seqs(total):
        if total == 0:
            yield []
            return
        for first in range(1, total + 1):
            for t in all_trees(first, max_depth - 1):
                for rest in seqs(total - first):
                    yield [t] + rest
    yield from seqs(n_lists - 1)


def depth_of(t):
    return 0 if not isinstance(t, list) else 1 + max((depth_of(x) for x in t), default=0)


def wf(t, k):
    """every item above depth k+1 is a list"""
    if not isinstance(t, list):
        return False
    if k == 0:
        return True
    return all(wf(x, k - 1) for x in t)


def decorate(t, rng, depth_now=1):
    """add integer leaves here and there (below the list skeleton)"""
    out = [decorate(x, rng, depth_now + 1) for x in t]
    if rng.random() < 0.4:
        for _ in range(rng.choice([1, 2])):
            out.insert(rng.randint(0, len(out)), rng.randrange(1000))
    return out


def items_at(t, d):
    if d == 0:
        return [((), t)]
    out = []
    for i, x in enumerate(t):
        for a, y in items_at(x, d - 1):
            out.append(((i,) + a, y))
    return out


def impl_obs(nested, depth):
    def grab(fn):
        try:
            return [0, fn()]
        except Exception as ex:  # noqa: BLE001
            return [1, common.EXN_CODES.get(type(ex).__name__, 98)]
    e = grab(lambda: [[list(a), x] for a, x in it.enum_at_depth(nested, depth)])
    i = grab(lambda: list(it.iter_at_depth(nested, depth)))
    return [e, i]


def evaluate(state, arg):
    nested, depth = arg
    before = copy.deepcopy(nested)
    impl = impl_obs(nested, depth)
    res = {"key": json.dumps([nested, depth]), "features": [f"depth={depth}"], "fail": None, "corr": None}
    hyp = 1 <= depth <= 5 and wf(nested, depth - 1)
    model = state["model"].run([2, depth, nested])
    if model != impl:
        # outside the hypothesis Python iterates strings/ints differently from the
        # model's TypeError only when leaves are iterable; our leaves are ints
        res["corr"] = {"input": [nested, depth], "impl": impl, "model": model, "in_hyp": hyp}
    # direct oracle on the implementation
    try:
        if nested != before:
            res["fail"] = "argument modified"
        elif hyp:
            pairs = list(it.enum_at_depth(nested, depth))
            addrs = [a for a, _ in pairs]
            want = items_at(nested, depth)
            if addrs != sorted(addrs) or len(set(addrs)) != len(addrs):
                res["fail"] = "addresses not strictly increasing"
            elif [a for a, _ in want] != addrs:
                res["fail"] = "addresses are not exactly the valid addresses"
            else:
                for a, x in pairs:
                    y = nested
                    for i in a:
                        y = y[i]
                    if y is not x:
                        res["fail"] = f"index {a} does not return the yielded item"
                        break
            items = list(it.iter_at_depth(nested, depth))
            if res["fail"] is None and (len(items) != len(pairs) or any(a is not b for a, (_, b) in zip(items, pairs))):
                res["fail"] = "iter_at_depth differs from enum_at_depth"
            named = {1: (it.iter_tables, it.enum_tables), 2: (it.iter_rows, it.enum_rows),
                     3: (it.iter_cells, it.enum_cells), 4: (it.iter_paragraphs, it.enum_paragraphs)}
            if res["fail"] is None and depth in named:
                f_i, f_e = named[depth]
                if list(f_e(nested)) != pairs or any(a is not b for a, b in zip(f_i(nested), items)):
                    res["fail"] = "named helper differs"
            if len(pairs) >= 2:
                res["features"].append("nontrivial")
        elif not (1 <= depth <= 5):
            res["features"].append("nontrivial")
            for fn in (lambda: list(it.enum_at_depth(nested, depth)), lambda: list(it.iter_at_depth(nested, depth))):
                try:
                    fn()
                    res["fail"] = "out-of-range depth accepted"
                except ValueError:
                    pass
    except Exception as ex:  # noqa: BLE001
        if hyp or not (1 <= depth <= 5):
            res["fail"] = f"oracle raised {type(ex).__name__}: {ex}"
    if res["fail"]:
        res["input"] = [nested, depth]
    return res


# ---- string leaves: a str is a sequence of 1-character strs (round-5 seed C20-enum-wraps-str-leaf) ----
def _sid(x, table):
    """strings -> integer ids (the model's leaves are integers)"""
    if isinstance(x, str):
        return table.setdefault(x, 1000 + len(table))
    return [_sid(y, table) for y in x]


def _explode(t, k, table):
    """the nested list Python sees when it iterates k levels into t: a str above the requested
    depth is the list of its characters (a 1-character str contains itself)"""
    if k == 0:
        return _sid(t, table)
    if isinstance(t, str):
        return [_explode(ch, k - 1, table) for ch in t]
    return [_explode(x, k - 1, table) for x in t]


def evaluate_strleaf(state, arg):
    nested, depth = arg
    before = copy.deepcopy(nested)
    res = {"key": json.dumps([nested, depth]), "features": [f"depth={depth}", "str_leaves"], "fail": None, "corr": None}
    table = {}
    impl = impl_obs(nested, depth)
    impl_enc = [[c, ([[a, _sid(x, table)] for a, x in v] if i == 0 else [_sid(x, table) for x in v]) if c == 0 else v]
                for i, (c, v) in enumerate(impl)]
    model = state["model"].run([2, depth, _explode(nested, depth, table)])
    if model != impl_enc:
        res["corr"] = {"input": [nested, depth], "impl": impl_enc, "model": model, "in_hyp": True}
    try:
        if nested != before:
            res["fail"] = "argument modified"
        else:
            pairs = list(it.enum_at_depth(nested, depth))
            want = items_at(nested, depth)
            if [tuple(a) for a, _ in pairs] != [a for a, _ in want]:
                res["fail"] = "addresses are not exactly the valid addresses (strings are sequences of characters)"
            else:
                for a, x in pairs:
                    y = nested
                    for i in a:
                        y = y[i]
                    if y != x or type(y) is not type(x):
                        res["fail"] = f"index {a} gives {y!r}, the yielded item is {x!r}"
                        break
            items = list(it.iter_at_depth(nested, depth))
            if res["fail"] is None and items != [x for _, x in pairs]:
                res["fail"] = "iter_at_depth differs from enum_at_depth"
            if len(pairs) >= 2:
                res["features"].append("nontrivial")
    except Exception as ex:  # noqa: BLE001
        res["fail"] = f"oracle raised {type(ex).__name__}: {ex}"
    if res["fail"]:
        res["input"] = [nested, depth]
    return res


def gen_str_cases(tier: str, seed: int):
    """lists whose leaves are strings, enumerated at depths that reach INTO the strings"""
    rng = random.Random(seed + 2)
    atoms = ["", "a", "ab", "abc", "é", "x y"]
    out = []
    for _ in range(120 if tier == "quick" else 4000):
        levels = rng.randint(1, 4)

        def build(level):
            if level == levels:
                return [rng.choice(atoms) for _ in range(rng.choice([0, 1, 2, 3]))]
            return [build(level + 1) for _ in range(rng.choice([0, 1, 2, 3]))]
        out.append((build(1), rng.randint(1, 5)))
    return out


def evaluate_html_map(state, arg):
    tables = arg  # 5-deep list of strings
    before = copy.deepcopy(tables)
    res = {"key": json.dumps(tables), "features": ["html_map"], "fail": None, "corr": None}
    try:
        out = it.get_html_map(tables)
        impl = [0, common.S(out)]
    except Exception as ex:  # noqa: BLE001
        out = None
        impl = [1, common.EXN_CODES.get(type(ex).__name__, 98)]

    def enc(x):
        return [1, common.S(x)] if isinstance(x, str) else [0, [enc(y) for y in x]]
    model = state["model"].run([4, enc(tables)])
    if model != impl:
        res["corr"] = {"input": tables, "impl": impl, "model": model, "in_hyp": True}
    if tables != before:
        res["fail"] = "get_html_map modified its argument"
    elif out is None:
        res["fail"] = "get_html_map raised"
    else:
        addrs = [a for a, _ in items_at(tables, 4)]
        pos = -1
        for a in addrs:
            label = "<pre>" + str(tuple(a)) + " "
            if out.count(label) != 1:
                res["fail"] = f"address {a} mentioned {out.count(label)} times"
                break
            p = out.index(label)
            if p < pos:
                res["fail"] = "addresses out of order"
                break
            pos = p
        if out.count("<pre>") != len(addrs) and not any("<pre>" in s for _, p in items_at(tables, 4) for s in p):
            res["fail"] = "number of <pre> entries differs from the number of paragraphs"
        if len(addrs) >= 2:
            res["features"].append("nontrivial")
    if res["fail"]:
        res["input"] = tables
    return res


def gen_html_arg_cases(tier: str, seed: int):
    """arguments of get_html_map of OTHER shapes than DocxContent's *_runs: paragraphs that are plain strings
    (DocxContent.body, the docstring's [[[['text']]]]), shallower and deeper nestings: whatever the function
    does with them, it must not modify them (round-9 seed C20-html-map-shallow-copy-above-runs)"""
    rng = random.Random(seed + 3)
    atoms = ["text", "", "a", "x y"]
    out = []
    for _ in range(80 if tier == "quick" else 3000):
        levels = rng.choice([1, 2, 3, 4, 4, 4, 4, 5, 6])

        def build(level):
            if level == levels:
                return [rng.choice(atoms) for _ in range(rng.choice([1, 1, 2, 3]))]
            return [build(level + 1) for _ in range(rng.choice([1, 1, 2, 3]))]
        out.append({"html_arg": build(1)})
    return out


def evaluate_html_arg(state, arg):
    tables = arg["html_arg"]
    before = copy.deepcopy(tables)
    res = {"key": json.dumps(tables), "features": ["html_map_other_shape"], "fail": None, "corr": None}
    outs = []
    for _ in range(2):
        try:
            outs.append(it.get_html_map(tables))
        except Exception as ex:  # noqa: BLE001
            outs.append(type(ex).__name__)
        if tables != before:
            res["fail"] = "get_html_map modified its argument"
            break
    if not res["fail"] and outs[0] != outs[1]:
        res["fail"] = "two calls of get_html_map on the same argument differ"
    if res["fail"]:
        res["input"] = arg
    return res


def gen_cases(tier: str, seed: int):
    rng = random.Random(seed)
    cases = []
    nmax = 7 if tier == "quick" else 9
    for n in range(1, nmax + 1):
        for t in all_trees(n, 6):
            for d in range(0, 8):
                cases.append((t, d))
            cases.append((decorate(t, rng), rng.randint(1, 5)))
    # random wide trees with large indices (one wide level per tree)
    for _ in range(40 if tier == "quick" else 2000):
        d = rng.randint(1, 5)
        wide_level = rng.randint(1, d)

        def build(level, on_wide_path):
            if level == wide_level and on_wide_path:
                width = rng.choice([300, 305, 310])
            else:
                width = rng.choice([0, 1, 2, 3])
            if level == d:
                return [rng.randrange(100) for _ in range(width)]
            kids = []
            for j in range(width):
                # below a wide level only the last children are expanded further
                if level == wide_level and on_wide_path and j < width - 2:
                    kids.append([])
                else:
                    kids.append(build(level + 1, on_wide_path and level < wide_level and j == 0))
            return kids
        cases.append((build(1, True), d))
    return cases


def gen_html_cases(tier: str, seed: int):
    rng = random.Random(seed + 1)
    out = []
    # no atom contains "<pre>": the oracle counts the labels "<pre>(i, j, k, m) "
    atoms = ["a", "", "</pre>", "(0, 0, 0, 0) ", "x y", "é", "<td>"]
    for _ in range(60 if tier == "quick" else 3000):
        def build(level):
            if level == 5:
                return [rng.choice(atoms) for _ in range(rng.choice([0, 1, 2]))]
            return [build(level + 1) for _ in range(rng.choice([0, 1, 1, 2, 3]))]
        out.append(build(1))
    return out


def run(ctx):
    cases = gen_cases(ctx["tier"], ctx["seed"])
    hcases = gen_html_cases(ctx["tier"], ctx["seed"])
    if not ctx["model_ok"]:
        return {"evaluations": 0, "distinct_nontrivial": 0, "rule": RULE, "samples": [],
                "violations": [], "corr_broken": []}
    results = engine.sweep("props.C20", "evaluate", cases, chunksize=64)
    results += engine.sweep("props.C20", "evaluate_html_map", hcases, chunksize=16)
    results += engine.sweep("props.C20", "evaluate_strleaf", gen_str_cases(ctx["tier"], ctx["seed"]), chunksize=16)
    results += engine.sweep("props.C20", "evaluate_html_arg", gen_html_arg_cases(ctx["tier"], ctx["seed"]), chunksize=16)
    return summarise(results, ctx)


def summarise(results, ctx):
    violations, corr, keys = [], [], set()
    feats = {}
    herr = [r for r in results if "harness_error" in r]
    for r in results:
        if "harness_error" in r:
            continue
        for f in r["features"]:
            feats[f] = feats.get(f, 0) + 1
        if "nontrivial" in r["features"]:
            keys.add(r["key"])
        if r["fail"]:
            violations.append({"what": r["fail"], "input": r["input"],
                               "replay_cmd": "./check C20 --replay <this file>"})
        if r["corr"] and r["corr"]["in_hyp"]:
            corr.append({"correspondence": "Iter.enum_at_depth/iter_at_depth/get_html_map <-> docx2python/iterators.py",
                         **r["corr"]})
    drift = len([r for r in results if r.get("corr") and not r["corr"]["in_hyp"]])
    if herr:
        corr.append({"correspondence": "harness error", "detail": herr[0]})
    samples = [json.loads(k) for k in sorted(keys)[:3]]
    return {"_xcheck": [tuple(r["_xcheck"]) for r in results if r.get("_xcheck")],
            "evaluations": len(results), "distinct_nontrivial": len(keys), "rule": RULE,
            "samples": samples, "feature_histogram": feats, "model_drift_outside_domain": drift,
            "exhaustive": True, "violations": violations, "corr_broken": corr, "known": []}


def search(ctx, broken, corr_broken):
    """A proof or the correspondence broke: look for an input on which the
    property itself fails on /repo (oracle only, larger budget)."""
    cases = gen_cases("thorough", ctx["seed"] + 7)
    state = {"model": _NoModel()}
    found = []
    for c in [tuple(x["input"]) for x in corr_broken if "input" in x and len(x["input"]) == 2] + cases:
        r = evaluate(state, c)
        if r["fail"]:
            found.append({"what": r["fail"], "input": r["input"]})
            if len(found) >= 3:
                break
    if not found:
        for c in gen_html_cases("thorough", ctx["seed"] + 7):
            r = evaluate_html_map(state, c)
            if r["fail"]:
                found.append({"what": r["fail"], "input": r["input"]})
                break
    if not found:
        for c in gen_html_arg_cases("thorough", ctx["seed"] + 7):
            r = evaluate_html_arg(state, c)
            if r["fail"]:
                found.append({"what": r["fail"], "input": r["input"]})
                break
    return found


class _NoModel:
    def run(self, case):
        return None


def replay(ctx, path):
    data = json.loads(open(path).read())
    inp = data.get("input")
    state = {"model": _NoModel()}
    if inp is None:
        print("replay file names no input:", data.get("note"))
        return 1
    def has_str(t):
        return isinstance(t, str) or (isinstance(t, list) and any(has_str(x) for x in t))
    if isinstance(inp, dict) and "html_arg" in inp:
        r = evaluate_html_arg(state, inp)
    elif len(inp) == 2 and isinstance(inp[1], int):
        r = evaluate_strleaf(state, tuple(inp)) if has_str(inp[0]) else evaluate(state, tuple(inp))
    else:
        r = evaluate_html_map(state, inp)
    if r["fail"]:
        print(f"VIOLATION property=C20 replay={path}")
        print("  ", r["fail"])
        return 1
    print("replay passes")
    return 0
