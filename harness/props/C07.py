"""C07 — html=True output is balanced, escaped, faithful, and projects onto plain output."""
import docsweep
import oracles
from props._common import make, proj_types


def project(raw):
    # run strings and paragraph html styles
    def pick(t):
        def hs(x):
            if x[0] == 0:
                return [hs(y) for y in x[1]]
            return [x[1][0], x[1][1]]
        return [0, [hs(t[1][0]), t[1][1], t[1][2]]]
    return proj_types(raw, pick)


SPEC = docsweep.Spec(
    prop="C07",
    rule=("docgen packages rich in run properties (recognised and unrecognised), headings, links, nested paragraphs, "
          "markup characters and entity-like strings in text x {html} x {dup}; oracle = tokenizer-based balance / "
          "vocabulary / escape check of every html paragraph and strip+unescape(html) == plain; "
          "non-trivial = has formatting and (markup characters or link or nested paragraph); distinct = package bytes"),
    knobs={"headings": 0.35, "links": 0.35, "nested_pars": 0.25},
    edge=["link_mixed_format", "textbox_in_link"],
    project=project,
    oracle=oracles.o_html,
    nontrivial=lambda fs: bool({f for f in fs if f.startswith("fmt_")}) and bool(fs & {"hyperlink", "nested_par", "heading", "corpus"}),
    n_quick=150, n_thorough=5000,
)
run, search, replay = make(SPEC)
