"""C02 — text is extracted completely, exactly once, and in document order."""
import docsweep
import oracles2
from props._common import make, proj_types


def project(raw):
    # plain strings of every part (html off is selected by opts)
    return proj_types(raw, lambda t: [0, t[1][2]])


SPEC = docsweep.Spec(
    prop="C02",
    rule=("docgen packages with the full inline vocabulary (text with markup characters, whitespace-only and empty "
          "nodes, tabs, breaks, symbols, notes, pictures, forms, equations, links, wrappers, unknown elements), runs "
          "split at random, html off x {dup}; oracle: every paragraph that encloses no other paragraph equals "
          "[note label][list marker] + a reference rendering of its source element's inline content, and free "
          "paragraphs keep document order; non-trivial = >= 4 inline ingredient kinds; distinct = package bytes"),
    opts=[(False, True), (False, False)],
    edge=["tabstops_in_ppr", "nested_tables"],
    project=project,
    oracle=oracles2.o_par_text,
    nontrivial=lambda fs: len(fs & {"tab", "br", "sym", "note_ref", "drawing", "pict", "checkbox", "ddlist", "math",
                                    "hyperlink", "inline_wrapper", "inline_sdt", "unknown_inline", "del", "corpus"}) >= 4
    or "corpus" in fs,
    n_quick=150, n_thorough=5000,
)
run, search, replay = make(SPEC)
