"""C13 — every valid docx can be read: optional parts and odd values never raise."""
import docsweep
import oracles
from props._common import make


def project(raw):
    """outcome class (value / exception class) of every attribute"""
    def st(x):
        return x if x[0] != 0 else [0]
    return [st(raw[0]), [st(t) for t in raw[1]], st(raw[2]), st(raw[3]), st(raw[4]), st(raw[5])]


SCHEMA_VALID_EDGE = [
    "tabstops_in_ppr", "toggle_off_values", "valign_baseline", "sym_without_char", "alt_text_markup",
    "math_markup", "link_mixed_format", "link_dangling", "nested_tables", "sdt_in_table",
    "vmerge_continue_val", "grid_before", "checkbox_onoff", "ddlist_empty", "ddlist_markup",
    "no_r_namespace", "start_zero", "markers_in_link", "comment_in_heading",
    "adjacent_links_diff_anchor", "xml_comment_in_props", "nested_par_in_table", "num_dangling_abstract", "textbox_in_link",
    "numbering_other_prefix", "bare_picture_part",
]

SPEC = docsweep.Spec(
    prop="C13",
    rule=("docgen packages: every optional part independently present/absent (numbering, notes, headers, footers, "
          "comments, core properties, per-part relationships), enumerated values over their schema enumerations; "
          "edge stream = each schema-valid unusual ingredient switched on alone (all inside the quantifier); "
          "oracle = no public attribute raises; non-trivial = >= 6 distinct ingredient features; distinct = package bytes"),
    edge=SCHEMA_VALID_EDGE,
    edge_in_domain=True,
    project=project,
    oracle=oracles.o_no_exception,
    nontrivial=lambda fs: len(fs) >= 6,
    n_quick=150, n_thorough=6000,
)
run, search, replay = make(SPEC)
