"""C17 — search-and-replace commutes with extraction, even across split runs."""
import json

import archsweep
import engine

RULE = ("docgen packages (runs split at random, proofing marks between) x 1-3 (needle, replacement) pairs: needle a "
        "substring of one merged literal stretch (85%) or absent; replacements incl. empty, multi-line, markup "
        "characters; html 30%; the written archive is compared with Save.replace_docx; oracle: every paragraph of the "
        "output's extraction equals the input's with the pairs applied, paragraph count and images unchanged, other "
        "members byte-identical; cases whose needle also occurs across a stretch boundary are outside the domain; "
        "non-trivial = in domain with a needle that occurs; distinct = package bytes")


def cases(ctx, n):
    args = []
    for f in ctx["findings"]:
        w = f.get("witness")
        if f.get("status") == "known" and w:
            args.append((w["stream"], w["seed"], w.get("edge")))
    args += [("main", engine.sub_seed(ctx["seed"], i, "C17"), None) for i in range(n)]
    args += [("edge:trailing_newline", engine.sub_seed(ctx["seed"], i, "C17e"), "trailing_newline")
             for i in range(max(8, n // 20))]
    return args


def run(ctx):
    n = 120 if ctx["tier"] == "quick" else 4000
    fn = "eval_replace" if ctx["model_ok"] else "eval_replace_nomodel"
    results = engine.sweep("archsweep", fn, cases(ctx, n), chunksize=2)
    for r in results:
        if "harness_error" not in r and r["stream"].startswith("edge:"):
            r["arg"] = "trailing_newline"
    return archsweep.summarise(ctx, results, RULE,
                               "Save.replace_docx <-> utilities.replace_docx_text (written archive)",
                               lambda fs: "replace_in_domain" in fs)


def search(ctx, broken, corr_broken):
    args = [(c["stream"], c["seed"], None) for c in corr_broken if "seed" in c]
    args += [("main", engine.sub_seed(ctx["seed"] + 1, i, "C17"), None) for i in range(1000)]
    # with the model available the needles are taken from the model's merged tree (see archsweep)
    fn = "eval_replace" if ctx["model_ok"] else "eval_replace_nomodel"
    results = engine.sweep("archsweep", fn, args, chunksize=4)
    return archsweep.summarise(ctx, results, RULE, "", lambda fs: True)["violations"]


def replay(ctx, path):
    d = json.load(open(path))
    if "seed" not in d:
        print("replay file names no input:", d.get("note"))
        return 1
    # the needles of a case are drawn from the model's merged tree when the model is available
    # (as in the run that wrote the replay file), so the replay uses it too
    import common
    state = {"model": common.Model() if ctx.get("model_ok") else None}
    r = archsweep.eval_replace(state, (d["stream"], d["seed"], d.get("arg")))
    if r["fails"]:
        print(f"VIOLATION property=C17 replay={path}")
        for f in r["fails"]:
            print("  ", f)
        return 1
    print("replay passes")
    return 0
