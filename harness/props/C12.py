"""C12 — each comment is returned with its exact anchored text, author, date and body."""
import docsweep
import oracles2
from props._common import make


def project(raw):
    return [raw[5]]


def oracle(ctx):
    return oracles2.o_comments(ctx) + oracles2.o_comment_anchor_exact(ctx)


SPEC = docsweep.Spec(
    prop="C12",
    rule=("docgen packages with 0-6 comments whose ranges start and end at arbitrary run boundaries, span paragraphs, "
          "cells and tables, nest and overlap, sit in heading and list paragraphs; both html settings; oracle: one "
          "tuple per entry in comments-part order, author/date from the entry, anchored text = whole run strings of "
          "body_runs forming one contiguous stretch, equal across html modes after stripping tags, [] without a "
          "comments part or on a count mismatch; non-trivial = has a comment range; distinct = package bytes"),
    opts=[(False, True), (True, True)],
    knobs={"comments": 0.5, "headings": 0.3, "nested_pars": 0.0},
    edge=["nested_pars"],
    project=project,
    oracle=oracle,
    nontrivial=lambda fs: "comment_range" in fs or "corpus" in fs,
    n_quick=120, n_thorough=4000,
)
run, search, replay = make(SPEC)
