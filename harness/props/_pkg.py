"""shared by C09, C11, C18"""
import json

import archsweep
import engine
import pkgsweep


def make(prop, fn, rule, label, nontrivial, n_quick, n_thorough):
    def cases(ctx, n):
        args = [(f["witness"]["stream"], f["witness"]["seed"]) for f in ctx["findings"]
                if f.get("status") == "known" and f.get("witness")]
        return args + [("main", engine.sub_seed(ctx["seed"], i, prop)) for i in range(n)]

    def run(ctx):
        n = n_quick if ctx["tier"] == "quick" else n_thorough
        name = fn if ctx["model_ok"] else fn + "_nomodel"
        results = engine.sweep("pkgsweep", name, cases(ctx, n), chunksize=2)
        return archsweep.summarise(ctx, results, rule, label, nontrivial)

    def search(ctx, broken, corr_broken):
        args = [(c["stream"], c["seed"]) for c in corr_broken if "seed" in c]
        args += [("main", engine.sub_seed(ctx["seed"] + 1, i, prop)) for i in range(800)]
        results = engine.sweep("pkgsweep", fn + "_nomodel", args, chunksize=4)
        return archsweep.summarise(ctx, results, rule, "", lambda fs: True)["violations"]

    def replay(ctx, path):
        d = json.load(open(path))
        if "seed" not in d:
            print("replay file names no input:", d.get("note"))
            return 1
        r = getattr(pkgsweep, fn)({"model": None}, (d["stream"], d["seed"]))
        if r["fails"]:
            print(f"VIOLATION property={prop} replay={path}")
            for f in r["fails"]:
                print("  ", f)
            return 1
        print("replay passes")
        return 0

    return run, search, replay
