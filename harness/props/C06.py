"""C06 — arbitrary run and link splitting by the authoring tool is invisible."""
import docsweep
import oracles2
from props._common import make, proj_types


def project(raw):
    # run granularity of every part
    return proj_types(raw, lambda t: [0, t[1][1]])


SPEC = docsweep.Spec(
    prop="C06",
    rule=("docgen packages x 2 random re-splittings each (text runs cut in two with equal rPr, hyperlinks cut into "
          "consecutive links with one target, proofing marks / bookmarks / revision ids / unrecognised run properties "
          "sprinkled); oracle (metamorphic, on /repo alone): every extracted value of the re-split package equals the "
          "original's down to run granularity, both html settings; the merged element trees are compared with the "
          "model in the part-level correspondence; non-trivial = a re-splitting changed the bytes; distinct = package bytes"),
    opts=[(False, True), (True, True)],
    knobs={"links": 0.4},
    project=project,
    part_level=True,
    oracle=oracles2.o_resplit,
    nontrivial=lambda fs: "resplit" in fs or "corpus" in fs,
    n_quick=100, n_thorough=4000,
)
run, search, replay = make(SPEC)
