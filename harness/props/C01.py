"""C01 — paragraphs sit at depth 4 in every view, for every document."""
import docsweep
import oracles
from props._common import make, proj_types


def shape(x):
    """nesting shape of a tagged nested value: list lengths and leaf kinds"""
    if x[0] == 0:
        return [shape(y) for y in x[1]]
    return "leaf"


def project(raw):
    return proj_types(raw, lambda t: [0, [shape(t[1][0]), shape(t[1][1]), shape(t[1][2])]])


SPEC = docsweep.Spec(
    prop="C01",
    rule=("packages from docgen (word-like grammar incl. nested paragraphs in text boxes, tables, "
          "merged cells, content controls, unknown wrappers, XML trivia) x 4 option settings + corpus; "
          "non-trivial = contains a table, a nested paragraph or a block wrapper; distinct = distinct package bytes"),
    knobs={"nested_pars": 0.3, "nested_tables": 0.2, "sdt_in_table": 0.1, "tables": 0.4},
    edge=["cell_without_par", "textbox_in_link"],
    project=project,
    oracle=oracles.o_shape,
    nontrivial=lambda fs: bool(fs & {"table", "nested_par", "block_sdt", "unknown_block", "nested_table", "corpus"}),
    n_quick=120, n_thorough=4000,
)
run, search, replay = make(SPEC)
