"""C14 — extraction is a pure function of archive bytes and options."""
from props import _life

ORACLES = {"pure_function", "input_untouched", "read_before_close"}
RULE = ("random histories (1-10 operations over all 23 attributes, save_images, save, close, with-exit) on one "
        "DocxContent object built from a str path, a PathLike or a BytesIO, with deep in-place mutation of every "
        "returned string-level value between reads, plus all histories up to length L over a 7-letter alphabet; "
        "oracle: every successful read equals the value of a fresh object, input file and buffer unchanged; the "
        "outcome class of every step is compared with Lifecycle.run_ops; non-trivial = >= 1 read and a close/exit/save; "
        "distinct = (package, history, input kind)")


def run(ctx):
    return _life.run(ctx, "C14", ORACLES, RULE, 250, 8000, 4, 5)


def search(ctx, broken, corr_broken):
    return _life.search(ctx, "C14", ORACLES)


def replay(ctx, path):
    return _life.replay(ctx, "C14", path, ORACLES)
