"""thin wrappers: a property module = a docsweep.Spec + run/search/replay"""
import docsweep


def make(spec):
    docsweep.register(spec)

    def run(ctx):
        return docsweep.run(ctx)

    def search(ctx, broken, corr_broken):
        return docsweep.search(ctx, broken, corr_broken)

    def replay(ctx, path):
        return docsweep.replay(ctx, path)

    return run, search, replay


def proj_types(raw, pick):
    """project the per-type part of an observation"""
    out = []
    for t in raw[1]:
        out.append(pick(t) if t[0] == 0 else t)
    return out
