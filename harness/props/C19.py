"""C19 — options change only what they document."""
import docsweep
import oracles
from props._common import make, proj_types


def project(raw):
    # structural projection: shape, lineage, style, list position, elem; images; core; #comments
    def pick(t):
        def st(x):
            if x[0] == 0:
                return [st(y) for y in x[1]]
            r = x[1]
            return [r[2], r[3], r[4], bool(r[5])]
        return [0, st(t[1][0])]
    c = raw[5]
    return [proj_types(raw, pick), raw[3], raw[4], [c[0], len(c[1][0]) if c[0] == 0 and c[1] else -1]]


def oracle(ctx):
    # "switching html changes strings only by adding tags and escapes": the html strings,
    # with formatting tags stripped and entities unescaped, are the plain strings
    proj = [f for f in oracles.o_html(ctx) if f[0] == "html_projection"]
    return oracles.o_options(ctx) + proj


SPEC = docsweep.Spec(
    prop="C19",
    rule=("docgen packages x all 4 option settings compared pairwise on /repo's values (structure across html; "
          "cells across duplicate_merged_cells; image folder in thorough); non-trivial = has merged cells or formatting; "
          "distinct = package bytes"),
    knobs={"merged_cells": 0.7, "tables": 0.45, "links": 0.35, "images": 0.35, "image_same_basename": 0.15, "grid_gaps": 0.35},
    edge=["textbox_in_link"],
    project=project,
    oracle=oracle,
    nontrivial=lambda fs: bool(fs & {"merged_cells", "heading", "corpus"} or {f for f in fs if f.startswith("fmt_")}),
    n_quick=120, n_thorough=4000,
)
run, search, replay = make(SPEC)
