"""C18 — equivalent serialisations of the same package extract identically."""
from props import _pkg

run, search, replay = _pkg.make(
    "C18", "eval_serial",
    ("docgen packages x 6 serialisation variants each: strict (ISO) namespace URIs and relationship types; shuffled "
     "attribute order; whitespace and XML comments between elements (outside text and equation content); UTF-16 / "
     "Latin-1 / ASCII / no XML declaration; shuffled member order + stored/deflated + timestamps + unrelated extra "
     "member; all of them together; both html settings; oracle: every attribute of every variant equals the "
     "canonical serialisation's; each variant is also compared with the model; non-trivial = >= 5 ingredient "
     "features; distinct = package bytes"),
    "Content (on the lifted variant) <-> DocxContent on the variant's bytes",
    lambda fs: len(fs) >= 5,
    60, 2500)
