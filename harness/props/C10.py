"""C10 — hyperlinks and note references are rendered as matchable, exact markers."""
import docsweep
import oracles2
from props._common import make, proj_types


def project(raw):
    return proj_types(raw, lambda t: [0, t[1][1]])


SPEC = docsweep.Spec(
    prop="C10",
    rule=("docgen packages rich in hyperlinks (resolvable, anchor-only, both, dangling; 1-3 runs of equal or different "
          "formatting; in every content part and in comments) and notes (arbitrary ids, separators, several "
          "paragraphs), both html settings; oracle: rendered link targets = relationship targets (+#anchor) in order, "
          "reference markers ----footnoteN---- in place, every non-separator note labelled, get_links = rendered links "
          "with bracket-free text; non-trivial = has a link and a note; distinct = package bytes"),
    opts=[(False, True), (True, True)],
    knobs={"links": 0.5, "notes": 0.4},
    edge=["adjacent_links_diff_anchor"],
    project=project,
    oracle=oracles2.o_markers,
    nontrivial=lambda fs: "hyperlink" in fs and bool(fs & {"note_ref", "footnotes_part", "endnotes_part"}) or "corpus" in fs,
    n_quick=120, n_thorough=4000,
    extra_corr=docsweep.utilities_corr("links"),
)
_run, search, replay = make(SPEC)


def regex_sweep(ctx):
    """Utilities.link_match / heading_match (the two regular expressions of utilities.py,
    re-implemented in Gallina) against the re module on generated strings, and the \\d table"""
    import random
    import re
    import common
    link_pattern = re.compile('<a href="(?P<href>[^"]+)">(?P<text>[^<]+)</a>')
    heading_pattern = re.compile(r"Heading\d")
    pieces = ['<a href="', '">', '</a>', '"', '<', '>', 'a', 'b c', ' ', '\n', 'http://x/?a=1&b=2', '#', '</a', 'a>', '<a href=',
              'Heading', 'heading', '1', '9', '0', '\u0663', '\uff15', '\U0001d7d8', 'x', '', '\u00b2', 'H']
    rng = random.Random(ctx["seed"])
    n = 1500 if ctx["tier"] == "quick" else 40000
    bad = []
    hits = {"link": 0, "heading": 0}
    model = common.Model()
    try:
        for i in range(n):
            k = rng.choice([1, 2, 3, 4, 5, 6, 8])
            if rng.random() < 0.4:
                s = '<a href="' + "".join(rng.choice(pieces) for _ in range(rng.randint(0, 2))) + '">' + \
                    "".join(rng.choice(pieces) for _ in range(rng.randint(0, 3))) + rng.choice(['</a>', '</a>tail', '', '</a'])
            elif rng.random() < 0.3:
                s = "Heading" + "".join(rng.choice(pieces) for _ in range(rng.randint(0, 2)))
            else:
                s = "".join(rng.choice(pieces) for _ in range(k))
            m = link_pattern.match(s)
            exp_link = [[common.S(m.group("href")), common.S(m.group("text"))]] if m else []
            exp_head = 1 if heading_pattern.match(s) else 0
            hits["link"] += bool(m)
            hits["heading"] += exp_head
            got = model.run([11, common.S(s)])
            if got != [exp_link, exp_head]:
                bad.append({"correspondence": "Utilities.link_match / heading_match <-> re.match in utilities.py",
                            "input": s, "impl": repr([exp_link, exp_head])[:200], "model": repr(got)[:200]})
                break
    finally:
        model.close()
    # the Nd table of Utilities.v against the re module over all code points
    src = open(common.VERIF / "coq/model/Utilities.v").read()
    tab = src[src.index("Definition nd_ranges"):src.index("Definition is_unicode_digit")]
    ranges = [(int(a), int(b)) for a, b in re.findall(r"\((\d+), (\d+)\)", tab)]
    digit = re.compile(r"\d")
    in_tab = set()
    for a, b in ranges:
        in_tab.update(range(a, b + 1))
    for c in range(0x110000):
        if (digit.match(chr(c)) is not None) != (c in in_tab):
            bad.append({"correspondence": "Utilities.nd_ranges <-> re \\d", "input": hex(c)})
            break
    return bad, {"regex_strings": n, "regex_link_matches": hits["link"], "regex_heading_matches": hits["heading"],
                 "nd_ranges": len(ranges)}


def retarget_sweep(ctx, n, salt=0):
    """a hyperlink relationship re-pointed through File.rels_element: the part then renders the link with the
    target the relationship holds NOW (= what a fresh reader makes of the package with that relationship changed)"""
    import archsweep
    import engine
    r2 = engine.sweep("archsweep", "eval_retarget", [("retarget", engine.sub_seed(ctx["seed"] + salt, i, "C10r")) for i in range(n)])
    s2 = archsweep.summarise(ctx, r2, "", "", lambda fs: "retargeted" in fs)
    s2["violations"] = [v for v in s2["violations"] if not v["what"].startswith("retarget_resave")]
    return s2


def run(ctx):
    res = _run(ctx)
    if ctx["model_ok"]:
        bad, info = regex_sweep(ctx)
        res.setdefault("corr_broken", []).extend(bad)
        res.update(info)
    s2 = retarget_sweep(ctx, 60 if ctx["tier"] == "quick" else 1500)
    res.setdefault("violations", []).extend(s2["violations"])
    res.setdefault("corr_broken", []).extend(s2["corr_broken"])
    res["retarget_cases"] = s2["feature_histogram"].get("retargeted", 0)
    res["rule"] = res.get("rule", "") + ("; stream `retarget`: a hyperlink relationship re-pointed through File.rels_element "
                                         "(before or after File.rels / the part were read): the rendered link carries the "
                                         "relationship's current target")
    return res


_search0, _replay0 = search, replay


def search(ctx, broken, corr_broken):
    out = _search0(ctx, broken, corr_broken)
    return list(out) + retarget_sweep(ctx, 300, salt=1)["violations"]


def replay(ctx, path):
    import json
    d = json.load(open(path))
    if d.get("stream") == "retarget":
        import archsweep
        r = archsweep.eval_retarget({"model": None}, (d["stream"], d["seed"]))
        fails = [x for x in r["fails"] if x[0] != "retarget_resave"]
        if fails:
            print(f"VIOLATION property=C10 replay={path}")
            for f in fails:
                print("  ", f)
            return 1
        print("replay passes")
        return 0
    return _replay0(ctx, path)
