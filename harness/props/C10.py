"""C10 — hyperlinks and note references are rendered as matchable, exact markers."""
import docsweep
import oracles2
from props._common import make, proj_types


def project(raw):
    return proj_types(raw, lambda t: [0, t[1][1]])


SPEC = docsweep.Spec(
    prop="C10",
    rule=("docgen packages rich in hyperlinks (resolvable, anchor-only, both, dangling; 1-3 runs of equal or different "
          "formatting; in every content part and in comments) and notes (arbitrary ids, separators, several "
          "paragraphs), both html settings; oracle: rendered link targets = relationship targets (+#anchor) in order, "
          "reference markers ----footnoteN---- in place, every non-separator note labelled, get_links = rendered links "
          "with bracket-free text; non-trivial = has a link and a note; distinct = package bytes"),
    opts=[(False, True), (True, True)],
    knobs={"links": 0.5, "notes": 0.4},
    edge=["adjacent_links_diff_anchor"],
    project=project,
    oracle=oracles2.o_markers,
    nontrivial=lambda fs: "hyperlink" in fs and bool(fs & {"note_ref", "footnotes_part", "endnotes_part"}) or "corpus" in fs,
    n_quick=120, n_thorough=4000,
    extra_corr=docsweep.utilities_corr("links"),
)
run, search, replay = make(SPEC)
