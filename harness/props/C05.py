"""C05 — table paragraphs are identifiable: lineage, predicates, element and style."""
import docsweep
import oracles2
from props._common import make, proj_types


def project(raw):
    def pick(t):
        def st(x):
            if x[0] == 0:
                return [st(y) for y in x[1]]
            return [x[1][2], x[1][3], x[1][5]]
        return [0, st(t[1][0])]
    return proj_types(raw, pick)


def oracle(ctx):
    return oracles2.o_lineage(ctx) + oracles2.o_headings(ctx)


SPEC = docsweep.Spec(
    prop="C05",
    rule=("docgen packages mixing free paragraphs and tables (tables first/last, in headers/footers/notes, empty "
          "cells via merged continuations), both html settings; oracle: for every record pointing into the part's "
          "tree - the element is a w:p, style = its pStyle, lineage (document,tbl,tr,tc,p) iff it sits directly in a "
          "cell of a non-nested table, no tbl for paragraphs outside every table, is_tbl consistent, get_headings = "
          "paragraphs with a Heading style; non-trivial = has a table and a free paragraph; distinct = package bytes"),
    opts=[(False, True), (True, True)],
    knobs={"tables": 0.5, "headings": 0.35, "nested_pars": 0.1},
    edge=["nested_tables", "sdt_in_table", "nested_par_in_table"],
    project=project,
    oracle=oracle,
    nontrivial=lambda fs: bool(fs & {"table", "corpus"}),
    n_quick=120, n_thorough=4000,
    extra_corr=docsweep.utilities_corr("headings"),
)
run, search, replay = make(SPEC)
