"""C08 — list markers follow Word's counting rules and render numbers correctly."""
import io
import json
import random
import re
import warnings
import zipfile

from lxml import etree

import common
import docsweep
import engine
from props._common import proj_types

common.assert_repo_under_test()

FN = {"decimal": 0, "lower_letter": 1, "upper_letter": 2, "lower_roman": 3, "upper_roman": 4, "bullet": 5}


# ------------------------------------------------------------ reference renderers
def ref_letters(n):
    s = ""
    while n > 0:
        n, r = divmod(n - 1, 26)
        s = chr(97 + r) + s
    return s


def ref_roman(n):
    out = ""
    for v, sym in ((1000, "m"), (900, "cm"), (500, "d"), (400, "cd"), (100, "c"), (90, "xc"), (50, "l"),
                   (40, "xl"), (10, "x"), (9, "ix"), (5, "v"), (4, "iv"), (1, "i")):
        while n >= v:
            out += sym
            n -= v
    return out


def eval_numbers(state, arg):
    """renderers on a block of ordinals: correspondence with NumFmt + reference oracle"""
    from docx2python import numbering_formats as nf

    name, lo, hi = arg
    fn = getattr(nf, name)
    res = {"stream": "numbers", "sub": f"{name}:{lo}-{hi}", "features": [name, "numbers"], "fails": [],
           "corr": None, "key": f"{name}:{lo}-{hi}"}
    prev = None
    for n in range(lo, hi):
        try:
            got = [0, common.S(fn(n))]
        except Exception as ex:  # noqa: BLE001
            got = [1, common.EXN_CODES.get(type(ex).__name__, 98)]
        if state["model"] is not None and (n < 60 or n % 37 == 0 or name in ("decimal", "bullet")):
            m = state["model"].run([3, FN[name], common.encZ(n)])
            if m != got and res["corr"] is None:
                res["corr"] = {"fn": name, "n": n, "impl": got, "model": m}
        # direct oracle
        exp = None
        if name == "decimal":
            exp = str(n)
        elif name == "bullet":
            exp = "--"
        elif n < 1:
            if got[0] != 1 or got[1] != common.EXN_CODES["ValueError"]:
                res["fails"].append(["renderer", f"{name}({n}) does not raise ValueError"])
            continue
        elif name.endswith("letter"):
            exp = ref_letters(n)
        elif name.endswith("roman"):
            exp = ref_roman(n) if n <= 3999 else None
        if exp is not None and name.startswith("upper"):
            exp = exp.upper()
        if exp is not None and got != [0, common.S(exp)]:
            res["fails"].append(["renderer", f"{name}({n}) = {common.unS(got[1]) if got[0] == 0 else got} expected {exp!r}"])
            break
        if name.endswith("letter") and got[0] == 0:
            cur = common.unS(got[1])
            if prev is not None and not (len(prev), prev) < (len(cur), cur):
                res["fails"].append(["renderer", f"{name} not order preserving at {n}"])
                break
            prev = cur
    return res


# ------------------------------------------------------------ list documents
MARK = re.compile(r"^(\t*)(--|[0-9A-Za-z-]+\))\t$")


def spec_count(hist, num_id, ilvl):
    c = 0
    for n, l in reversed(hist):
        if n != num_id:
            continue
        if l < ilvl:
            break
        if l == ilvl:
            c += 1
    return c


def numbering_defs(data):
    z = zipfile.ZipFile(io.BytesIO(data))
    if "word/numbering.xml" not in z.namelist():
        return {}
    root = etree.fromstring(z.read("word/numbering.xml"))
    w = root.nsmap.get("w")
    q = lambda t: f"{{{w}}}{t}"  # noqa: E731
    absn = {}
    for an in root.findall(q("abstractNum")):
        lv = []
        for lvl in an.findall(q("lvl")):
            f = lvl.find(q("numFmt"))
            s = lvl.find(q("start"))
            lv.append((f.get(q("val")) if f is not None else None, int(s.get(q("val"))) if s is not None else None))
        absn[an.get(q("abstractNumId"))] = lv
    out = {}
    for num in root.findall(q("num")):
        a = num.find(q("abstractNumId"))
        if a is not None and a.get(q("val")) in absn:
            out[num.get(q("numId"))] = absn[a.get(q("val"))]
    return out


RENDER = {"decimal": str, "lowerLetter": ref_letters, "upperLetter": lambda n: ref_letters(n).upper(),
          "lowerRoman": ref_roman, "upperRoman": lambda n: ref_roman(n).upper()}


def oracle(ctx):
    from docx2python import docx2python

    out = []
    defs = numbering_defs(ctx["data"])
    with warnings.catch_warnings():
        warnings.simplefilter("ignore")
        d = docx2python(io.BytesIO(ctx["data"]))
        try:
            for f in d.docx_reader.files_of_type():
                try:
                    pars = [p for t in f.content for r in t for c in r for p in c]
                    root = f.root_element
                except Exception:  # noqa: BLE001
                    continue
                keep = list(root.iter())
                order = {id(e): i for i, e in enumerate(keep)}
                pars = [p for p in pars if p.elem is not None and id(p.elem) in order]
                pars.sort(key=lambda p: order[id(p.elem)])
                w = root.nsmap.get("w")
                hist = []
                for p in pars:
                    npr = p.elem.find(f"{{{w}}}pPr/{{{w}}}numPr") if w else None
                    nid = il = None
                    if npr is not None:
                        a, b = npr.find(f"{{{w}}}numId"), npr.find(f"{{{w}}}ilvl")
                        nid = a.get(f"{{{w}}}val") if a is not None else None
                        il = b.get(f"{{{w}}}val") if b is not None else None
                    if nid is None:
                        if p.list_position != (None, []):
                            out.append(("list_position", f"non-list paragraph reports {p.list_position}"))
                        continue
                    if il is None:
                        continue
                    count = 1 + spec_count(hist, nid, il)
                    hist.append((nid, il))
                    lp = p.list_position
                    if lp[0] != nid or not lp[1] or lp[1][-1] != count:
                        out.append(("counting_rule", f"{f.path}: item (list {nid}, level {il}) counted {lp}, expected last counter {count}"))
                        return out
                    if list(lp[1]) != [1 + spec_count(hist[:-1], nid, k) - (0 if k != il else 0) if False else x for k, x in zip(lp[1], lp[1])]:
                        pass
                    runs = p.run_strings
                    marker = next((r for r in runs if MARK.match(r)), None)
                    if marker is None:
                        out.append(("marker_layout", f"{f.path}: list item without a marker run: {runs[:3]!r}"))
                        return out
                    m = MARK.match(marker)
                    if len(m.group(1)) != max(int(il), 0):
                        out.append(("marker_layout", f"{f.path}: {len(m.group(1))} tabs for level {il}"))
                    lv = defs.get(nid)
                    try:
                        fmt, start = lv[int(il)] if lv is not None else (None, None)
                    except (IndexError, ValueError):
                        fmt, start = None, None
                    ordinal = count + (start - 1 if start is not None else 0)
                    if fmt in RENDER:
                        exp = (RENDER[fmt](ordinal) if (ordinal >= 1 or fmt == "decimal") else str(ordinal)) + ")"
                    else:
                        exp = "--"
                    if m.group(2) != exp:
                        out.append(("marker_text", f"{f.path}: marker {m.group(2)!r}, expected {exp!r} (format {fmt}, start {start}, count {count})"))
                        return out
        finally:
            d.close()
    return out


def project(raw):
    """list positions and the first two run strings of every paragraph"""
    def pick(t):
        def st(x):
            if x[0] == 0:
                return [st(y) for y in x[1]]
            return [x[1][4], x[1][0][:2]]
        return [0, st(t[1][0])]
    return proj_types(raw, pick)


SPEC = docsweep.Spec(
    prop="C08",
    rule=("(a) the six renderers on every ordinal of [-3, N) and blocks up to 10^6 (letters, decimal), compared with "
          "NumFmt and with reference renderers; (b) docgen packages rich in list paragraphs (3 lists, levels 0-3, nine "
          "numFmt values incl. unknown ones, start values absent/0/1/2/5/30, missing numbering part or definitions) "
          "interleaved with tables and other paragraphs; oracle recomputes the counting rule from the source elements "
          "in document order and the marker text from word/numbering.xml; non-trivial = has >= 1 list item; "
          "distinct = package bytes"),
    opts=[(False, True), (True, True)],
    knobs={"lists": 0.7, "tables": 0.2, "nested_pars": 0.0},
    project=project,
    oracle=oracle,
    nontrivial=lambda fs: "list_item" in fs,
    n_quick=120, n_thorough=5000, corpus=True,
)
docsweep.register(SPEC)


def number_blocks(tier):
    blocks = []
    top = 4200 if tier == "quick" else 60000
    for name in FN:
        hi = top if "roman" in name else (top * 5)
        step = 700
        blocks += [(name, lo, min(lo + step, hi)) for lo in range(-3, hi, step)]
    rng = random.Random(7)
    for name in ("lower_letter", "upper_letter", "decimal"):
        for _ in range(6 if tier == "quick" else 200):
            lo = rng.randrange(10**5, 10**9)
            blocks.append((name, lo, lo + 60))
    return blocks


def run(ctx):
    out = docsweep.run(ctx)
    if ctx["model_ok"]:
        res = engine.sweep("props.C08", "eval_numbers", number_blocks(ctx["tier"]), chunksize=4)
    else:
        res = engine.sweep("props.C08", "eval_numbers_nomodel", number_blocks(ctx["tier"]), chunksize=4)
    for r in res:
        if "harness_error" in r:
            out["corr_broken"].append({"correspondence": "harness error", "detail": r})
            continue
        out["evaluations"] += 1
        if r["corr"]:
            out["corr_broken"].append({"correspondence": "NumFmt.apply_numfn <-> numbering_formats.py", **r["corr"]})
        for name, msg in r["fails"]:
            out["violations"].append({"what": f"{name}: {msg}", "stream": "numbers", "seed": r["sub"]})
    out["number_blocks"] = len(res)
    return out


def eval_numbers_nomodel(state, arg):
    return eval_numbers({"model": None}, arg)


def search(ctx, broken, corr_broken):
    found = docsweep.search(ctx, broken, corr_broken)
    if not found:
        for b in number_blocks("thorough"):
            r = eval_numbers({"model": None}, b)
            if r["fails"]:
                found.append({"what": r["fails"][0][1], "stream": "numbers", "seed": r["sub"]})
                break
    return found


def replay(ctx, path):
    d = json.load(open(path))
    if d.get("stream") == "numbers":
        name, rng_ = d["seed"].split(":")
        lo, hi = rng_.rsplit("-", 1) if not rng_.startswith("-") else ("-" + rng_[1:].split("-")[0], rng_[1:].split("-")[1])
        r = eval_numbers({"model": None}, (name, int(lo), int(hi)))
        if r["fails"]:
            print(f"VIOLATION property=C08 replay={path}")
            print("  ", r["fails"][0])
            return 1
        print("replay passes")
        return 0
    return docsweep.replay(ctx, path)
